import Momo.Model.PoolAlloc
/-!
  C20, layer A: the invariant of the allocator-level machine and its preservation by every operation.
-/
namespace Momo.PoolAlloc

/-- a live block of pool `p` that was carved from the pool -/
def isPoolBlk (p : Nat) (b : Block) : Bool := b.pid == p && b.prov != .raw

structure Inv (s : Sys) : Prop where
  /-- addresses of live blocks are distinct -/
  nodup : (s.blocks.map (·.id)).Nodup
  /-- a live block's pool still has an owner -/
  alive : ∀ b ∈ s.blocks, ∃ st, s.pools[b.pid]? = some st ∧ st.dead = false
  /-- a pool block was carved with the parameters its pool has now, for a type with these parameters, as a single object -/
  poolBlk : ∀ b ∈ s.blocks, ∀ q, b.prov = .pool q →
      (∃ st, s.pools[b.pid]? = some st ∧ st.params = q) ∧ b.cls = q ∧ b.n = 1
  /-- `GetAllocateCount()` = number of live pool blocks -/
  count : ∀ (p : Nat) (st : PoolSt), s.pools[p]? = some st → st.allocCount = s.blocks.countP (isPoolBlk p)
  /-- a raw entry of the ledger is a live raw block -/
  rawBase : ∀ e ∈ s.base, e.kind = .raw → ∃ b ∈ s.blocks, b.id = e.id ∧ b.pid = e.pid ∧ b.prov = .raw
  /-- control blocks and buffers belong to pools that still have an owner -/
  ownBase : ∀ e ∈ s.base, e.kind ≠ .raw → ∃ st, s.pools[e.pid]? = some st ∧ st.dead = false
  /-- a pool is dead exactly when nobody owns it -/
  refs : ∀ (p : Nat) (st : PoolSt), s.pools[p]? = some st → (st.dead = true ↔ st.refs = 0)
  /-- unless a single object was ever served raw, raw blocks are arrays -/
  rawN : s.rawSingle = false → ∀ b ∈ s.blocks, b.prov = .raw → b.n ≠ 1

theorem inv_init : Inv Sys.init := by
  constructor <;> simp [Sys.init]

theorem livePool_eq_some {s : Sys} {p : Nat} {st : PoolSt} :
    livePool s p = some st ↔ s.pools[p]? = some st ∧ st.dead = false := by
  unfold livePool
  cases h : s.pools[p]? with
  | none => simp
  | some st' =>
    by_cases hd : st'.dead = true
    · simp [hd]; intro h; subst h; simp [hd]
    · simp [hd]; intro h; subst h; simpa using hd

theorem step_of_err {s : Sys} {e : Err} (h : s.err = some e) (op : Op) : step s op = s := by
  simp [step, h]

theorem run_of_err {s : Sys} {e : Err} (h : s.err = some e) (ops : List Op) : run s ops = s := by
  induction ops with
  | nil => rfl
  | cons op ops ih => simp [run, List.foldl_cons, step_of_err h]; exact ih

theorem run_cons (s : Sys) (op : Op) (ops : List Op) : run s (op :: ops) = run (step s op) ops := rfl

theorem run_append (s : Sys) (a b : List Op) : run s (a ++ b) = run (run s a) b := by
  simp [run, List.foldl_append]

/-- removing the block with a given address from a list with distinct addresses -/
theorem countP_filter_id {l : List Block} (hnd : (l.map (·.id)).Nodup) {b : Block} (hb : b ∈ l)
    (q : Block → Bool) :
    (l.filter (fun x => x.id != b.id)).countP q + (if q b then 1 else 0) = l.countP q := by
  induction l with
  | nil => cases hb
  | cons a t ih =>
    simp only [List.map_cons, List.nodup_cons] at hnd
    rcases List.mem_cons.mp hb with rfl | hb'
    · -- `b` is the head: nothing in the tail has its address
      have : t.filter (fun x => x.id != b.id) = t := by
        apply List.filter_eq_self.mpr
        intro x hx
        have : x.id ≠ b.id := fun h => hnd.1 (h ▸ List.mem_map_of_mem hx)
        simpa using this
      simp [this, List.countP_cons]
    · have hne : a.id ≠ b.id := fun h => hnd.1 (h ▸ List.mem_map_of_mem hb')
      have := ih hnd.2 hb'
      simp [hne, List.countP_cons]
      omega

theorem find_id_mem {l : List Block} {id : Nat} {b : Block}
    (h : l.find? (fun x => x.id == id) = some b) : b ∈ l ∧ b.id = id := by
  refine ⟨List.mem_of_find?_eq_some h, ?_⟩
  have := List.find?_some h
  simpa using this



theorem getElem?_append_some {α} {l l' : List α} {i : Nat} {a : α} (h : l[i]? = some a) : (l ++ l')[i]? = some a := by
  have hi : i < l.length := by
    rcases List.getElem?_eq_some_iff.mp h with ⟨hi, _⟩; exact hi
  rw [List.getElem?_append_left hi]; exact h

theorem getElem?_snoc {α} {l : List α} {x : α} {i : Nat} {a : α} (h : (l ++ [x])[i]? = some a) :
    l[i]? = some a ∨ (i = l.length ∧ a = x) := by
  rw [List.getElem?_append] at h
  split at h
  · exact Or.inl h
  · rename_i hi
    rw [List.getElem?_singleton] at h
    split at h
    · right; constructor
      · omega
      · simpa using h.symm
    · cases h

theorem doNew_inv {s : Sys} (hi : Inv s) (cls : Cls) (cb : Nat) : Inv (doNew s cls cb) := by
  have hlt : ∀ b ∈ s.blocks, b.pid < s.pools.length := by
    intro b hb
    obtain ⟨st, hst, _⟩ := hi.alive b hb
    exact (List.getElem?_eq_some_iff.mp hst).1
  constructor
  · exact hi.nodup
  · intro b hb
    obtain ⟨st, hst, hd⟩ := hi.alive b hb
    exact ⟨st, getElem?_append_some hst, hd⟩
  · intro b hb q hq
    obtain ⟨⟨st, hst, hp⟩, h2⟩ := hi.poolBlk b hb q hq
    exact ⟨⟨st, getElem?_append_some hst, hp⟩, h2⟩
  · intro p st hst
    rcases getElem?_snoc hst with h | ⟨rfl, rfl⟩
    · exact hi.count p st h
    · symm
      simp only [doNew, List.countP_eq_zero]
      intro b hb
      have := hlt b hb
      simp [isPoolBlk]; intro h; omega
  · intro e he hk
    simp only [doNew, List.mem_cons] at he
    rcases he with rfl | he
    · cases hk
    · exact hi.rawBase e he hk
  · intro e he hk
    simp only [doNew, List.mem_cons] at he
    rcases he with rfl | he
    · exact ⟨⟨cls, 0, 1, false⟩, by simp [doNew], rfl⟩
    · obtain ⟨st, hst, hd⟩ := hi.ownBase e he hk
      exact ⟨st, getElem?_append_some hst, hd⟩
  · intro p st hst
    rcases getElem?_snoc hst with h | ⟨rfl, rfl⟩
    · exact hi.refs p st h
    · simp
  · exact hi.rawN

theorem getElem?_set_cases {α} {l : List α} {p j : Nat} {x a : α} (h : (l.set p x)[j]? = some a) :
    (j = p ∧ a = x ∧ p < l.length) ∨ (j ≠ p ∧ l[j]? = some a) := by
  rw [List.getElem?_set] at h
  split at h
  · rename_i hpj; subst hpj
    split at h
    · left; exact ⟨rfl, by simpa using h.symm, by assumption⟩
    · cases h
  · rename_i hpj; right; exact ⟨fun e => hpj e.symm, h⟩

theorem getElem?_set_other {α} {l : List α} {p j : Nat} {x a : α} (h : l[j]? = some a) (hne : j ≠ p) :
    (l.set p x)[j]? = some a := by
  rw [List.getElem?_set_ne (fun e => hne e.symm)]; exact h

theorem getElem?_set_same {α} {l : List α} {p : Nat} {x a : α} (h : l[p]? = some a) :
    (l.set p x)[p]? = some x := by
  have hi : p < l.length := (List.getElem?_eq_some_iff.mp h).1
  simp [List.getElem?_set, hi]

/-- replacing the state of pool `p` by one with the same parameters and liveness keeps the facts about blocks -/
theorem set_pool_lookup {s : Sys} {p : Nat} {st st' : PoolSt} (hst : s.pools[p]? = some st)
    {j : Nat} {a : PoolSt} (h : s.pools[j]? = some a) :
    ∃ a', (s.pools.set p st')[j]? = some a' ∧ (j ≠ p → a' = a) ∧ (j = p → a' = st' ∧ a = st) := by
  by_cases hj : j = p
  · subst hj
    refine ⟨st', getElem?_set_same hst, fun h => absurd rfl h, fun _ => ⟨rfl, ?_⟩⟩
    rw [hst] at h; exact (Option.some.inj h).symm
  · exact ⟨a, getElem?_set_other h hj, fun _ => rfl, fun h => absurd h hj⟩

/-- changing only the owner count of a live pool (to a non-zero value) keeps the invariant -/
theorem inv_setRefs {s : Sys} (hi : Inv s) {p : Nat} {st : PoolSt} (hl : livePool s p = some st)
    (r : Nat) (hr : r ≠ 0) : Inv { s with pools := s.pools.set p { st with refs := r } } := by
  obtain ⟨hst, hd⟩ := livePool_eq_some.mp hl
  constructor
  · exact hi.nodup
  · intro b hb
    obtain ⟨a, ha, had⟩ := hi.alive b hb
    obtain ⟨a', ha', h1, h2⟩ := set_pool_lookup (st' := { st with refs := r }) hst ha
    refine ⟨a', ha', ?_⟩
    by_cases hj : b.pid = p
    · rw [(h2 hj).1]; exact hd
    · rw [h1 hj]; exact had
  · intro b hb q hq
    obtain ⟨⟨a, ha, hap⟩, hrest⟩ := hi.poolBlk b hb q hq
    obtain ⟨a', ha', h1, h2⟩ := set_pool_lookup (st' := { st with refs := r }) hst ha
    refine ⟨⟨a', ha', ?_⟩, hrest⟩
    by_cases hj : b.pid = p
    · rw [(h2 hj).1]; simp; rw [← (h2 hj).2]; exact hap
    · rw [h1 hj]; exact hap
  · intro j a hj
    rcases getElem?_set_cases hj with ⟨rfl, rfl, _⟩ | ⟨_, h⟩
    · exact hi.count _ st hst
    · exact hi.count j a h
  · exact hi.rawBase
  · intro e he hk
    obtain ⟨a, ha, had⟩ := hi.ownBase e he hk
    obtain ⟨a', ha', h1, h2⟩ := set_pool_lookup (st' := { st with refs := r }) hst ha
    refine ⟨a', ha', ?_⟩
    by_cases hj : e.pid = p
    · rw [(h2 hj).1]; exact hd
    · rw [h1 hj]; exact had
  · intro j a hj
    rcases getElem?_set_cases hj with ⟨rfl, rfl, _⟩ | ⟨_, h⟩
    · simp [hd, hr]
    · exact hi.refs j a h
  · exact hi.rawN

theorem doCopy_inv {s : Sys} (hi : Inv s) (p : Nat) (hok : (doCopy s p).err = none) :
    Inv (doCopy s p) := by
  unfold doCopy at hok ⊢
  cases hl : livePool s p with
  | none => simp [hl, Sys.fail] at hok
  | some st => exact inv_setRefs hi hl _ (by omega)

theorem doDrop_inv {s : Sys} (hi : Inv s) (p : Nat) (hok : (doDrop s p).err = none) :
    Inv (doDrop s p) := by
  unfold doDrop at hok ⊢
  cases hl : livePool s p with
  | none => simp [hl, Sys.fail] at hok
  | some st =>
    simp only [hl] at hok ⊢
    obtain ⟨hst, hd⟩ := livePool_eq_some.mp hl
    by_cases h2 : 2 ≤ st.refs
    · simp only [h2, if_true]
      exact inv_setRefs hi hl _ (by omega)
    · simp only [h2, if_false] at hok ⊢
      by_cases hb : (s.blocks.any fun b => b.pid == p) = true
      · simp [hb, Sys.fail] at hok
      · simp only [hb] at hok ⊢
        by_cases hc : st.allocCount ≠ 0
        · simp [hc, Sys.fail] at hok
        · simp only [hc, if_false]
          have hnone : ∀ b ∈ s.blocks, b.pid ≠ p := by
            intro b hbm hbp
            apply hb
            simp only [List.any_eq_true]
            exact ⟨b, hbm, by simp [hbp]⟩
          constructor
          · exact hi.nodup
          · intro b hbm
            obtain ⟨a, ha, had⟩ := hi.alive b hbm
            exact ⟨a, getElem?_set_other ha (hnone b hbm), had⟩
          · intro b hbm q hq
            obtain ⟨⟨a, ha, hap⟩, hrest⟩ := hi.poolBlk b hbm q hq
            exact ⟨⟨a, getElem?_set_other ha (hnone b hbm), hap⟩, hrest⟩
          · intro j a hj
            rcases getElem?_set_cases hj with ⟨rfl, rfl, _⟩ | ⟨_, h⟩
            · exact hi.count _ st hst
            · exact hi.count j a h
          · intro e he hk
            exact hi.rawBase e (List.mem_filter.mp he).1 hk
          · intro e he hk
            have hm := List.mem_filter.mp he
            obtain ⟨a, ha, had⟩ := hi.ownBase e hm.1 hk
            have hne : e.pid ≠ p := by
              intro hep
              have := hm.2
              simp [hep, hk] at this
            exact ⟨a, getElem?_set_other ha hne, had⟩
          · intro j a hj
            rcases getElem?_set_cases hj with ⟨rfl, rfl, _⟩ | ⟨_, h⟩
            · simp
            · exact hi.refs j a h
          · exact hi.rawN

theorem doAlloc_inv {s : Sys} (hi : Inv s) (p : Nat) (cls : Cls) (n id : Nat) (mallocs : List Nat)
    (hok : (doAlloc s p cls n id mallocs).err = none) : Inv (doAlloc s p cls n id mallocs) := by
  unfold doAlloc at hok ⊢
  cases hl : livePool s p with
  | none => simp [hl, Sys.fail] at hok
  | some st =>
    simp only [hl] at hok ⊢
    obtain ⟨hst, hd⟩ := livePool_eq_some.mp hl
    by_cases hill : n = 0 ∨ (s.blocks.any fun b => b.id == id) = true
    · rw [if_pos hill] at hok; simp [Sys.fail] at hok
    · rw [if_neg hill] at hok ⊢
      have hn0 : n ≠ 0 := fun h => hill (Or.inl h)
      have hfresh : ∀ b ∈ s.blocks, b.id ≠ id := by
        intro b hb hbid
        apply hill; right
        simp only [List.any_eq_true]
        exact ⟨b, hb, by simp [hbid]⟩
      have hnd' : ((id :: s.blocks.map (·.id))).Nodup := by
        refine List.nodup_cons.mpr ⟨?_, hi.nodup⟩
        intro hm
        obtain ⟨b, hb, hbid⟩ := List.mem_map.mp hm
        exact hfresh b hb hbid
      by_cases hpath : n = 1 ∧ (cls = st.params ∨ st.allocCount = 0)
      · -- pool path
        rw [if_pos hpath] at hok ⊢
        have hcnt := hi.count p st hst
        -- an old pool block of `p` forces `cls = st.params`
        have hsame : ∀ b ∈ s.blocks, b.pid = p → ∀ q, b.prov = .pool q → q = cls := by
          intro b hb hbp q hq
          obtain ⟨⟨a, ha, hap⟩, _⟩ := hi.poolBlk b hb q hq
          rw [hbp, hst] at ha
          have : a = st := (Option.some.inj ha).symm
          subst this
          rcases hpath.2 with h | h
          · rw [← hap, h]
          · exfalso
            rw [h] at hcnt
            have := (List.countP_eq_zero.mp hcnt.symm) b hb
            apply this
            simp [isPoolBlk, hbp, hq]
        constructor
        · simpa using hnd'
        · intro b hb
          rcases List.mem_cons.mp hb with rfl | hb
          · exact ⟨_, getElem?_set_same hst, hd⟩
          · obtain ⟨a, ha, had⟩ := hi.alive b hb
            obtain ⟨a', ha', h1, h2⟩ := set_pool_lookup
              (st' := { st with params := cls, allocCount := st.allocCount + 1 }) hst ha
            refine ⟨a', ha', ?_⟩
            by_cases hj : b.pid = p
            · rw [(h2 hj).1]; exact hd
            · rw [h1 hj]; exact had
        · intro b hb q hq
          rcases List.mem_cons.mp hb with rfl | hb
          · simp only [Prov.pool.injEq] at hq
            subst hq
            exact ⟨⟨_, getElem?_set_same hst, rfl⟩, rfl, rfl⟩
          · obtain ⟨⟨a, ha, hap⟩, hrest⟩ := hi.poolBlk b hb q hq
            obtain ⟨a', ha', h1, h2⟩ := set_pool_lookup
              (st' := { st with params := cls, allocCount := st.allocCount + 1 }) hst ha
            refine ⟨⟨a', ha', ?_⟩, hrest⟩
            by_cases hj : b.pid = p
            · rw [(h2 hj).1]; exact (hsame b hb hj q hq).symm
            · rw [h1 hj]; exact hap
        · intro j a hj
          rcases getElem?_set_cases hj with ⟨rfl, rfl, _⟩ | ⟨hne, h⟩
          · simp [List.countP_cons, isPoolBlk, hcnt]
          · have := hi.count j a h
            have hne' : ¬ (p = j) := fun e => hne e.symm
            simp [List.countP_cons, isPoolBlk, this, hne']
        · intro e he hk
          rcases List.mem_append.mp he with he | he
          · obtain ⟨m, _, rfl⟩ := List.mem_map.mp he
            cases hk
          · have he' : e ∈ s.base := by
              split at he
              · exact he
              · exact (List.mem_filter.mp he).1
            obtain ⟨b, hb, h1⟩ := hi.rawBase e he' hk
            exact ⟨b, List.mem_cons_of_mem _ hb, h1⟩
        · intro e he hk
          rcases List.mem_append.mp he with he | he
          · obtain ⟨m, _, rfl⟩ := List.mem_map.mp he
            exact ⟨_, getElem?_set_same hst, hd⟩
          · have he' : e ∈ s.base := by
              split at he
              · exact he
              · exact (List.mem_filter.mp he).1
            obtain ⟨a, ha, had⟩ := hi.ownBase e he' hk
            obtain ⟨a', ha', h1, h2⟩ := set_pool_lookup
              (st' := { st with params := cls, allocCount := st.allocCount + 1 }) hst ha
            refine ⟨a', ha', ?_⟩
            by_cases hj : e.pid = p
            · rw [(h2 hj).1]; exact hd
            · rw [h1 hj]; exact had
        · intro j a hj
          rcases getElem?_set_cases hj with ⟨rfl, rfl, _⟩ | ⟨_, h⟩
          · simpa using hi.refs _ st hst
          · exact hi.refs j a h
        · intro hrs b hb hbr
          rcases List.mem_cons.mp hb with rfl | hb
          · cases hbr
          · exact hi.rawN hrs b hb hbr
      · -- memory-manager path
        rw [if_neg hpath] at hok ⊢
        constructor
        · simpa using hnd'
        · intro b hb
          rcases List.mem_cons.mp hb with rfl | hb
          · exact ⟨st, hst, hd⟩
          · exact hi.alive b hb
        · intro b hb q hq
          rcases List.mem_cons.mp hb with rfl | hb
          · cases hq
          · exact hi.poolBlk b hb q hq
        · intro j a hj
          have := hi.count j a hj
          simp [List.countP_cons, isPoolBlk, this]
        · intro e he hk
          rcases List.mem_cons.mp he with rfl | he
          · exact ⟨_, List.mem_cons_self, rfl, rfl, rfl⟩
          · obtain ⟨b, hb, h1⟩ := hi.rawBase e he hk
            exact ⟨b, List.mem_cons_of_mem _ hb, h1⟩
        · intro e he hk
          rcases List.mem_cons.mp he with rfl | he
          · exact absurd rfl hk
          · exact hi.ownBase e he hk
        · exact hi.refs
        · intro hrs b hb hbr
          simp only [Bool.or_eq_false_iff, beq_eq_false_iff_ne] at hrs
          rcases List.mem_cons.mp hb with rfl | hb
          · exact hrs.2
          · exact hi.rawN hrs.1 b hb hbr

theorem nodup_id_inj {l : List Block} (hnd : (l.map (·.id)).Nodup) {a b : Block} (ha : a ∈ l) (hb : b ∈ l)
    (h : a.id = b.id) : a = b := by
  induction l with
  | nil => cases ha
  | cons x t ih =>
    simp only [List.map_cons, List.nodup_cons] at hnd
    rcases List.mem_cons.mp ha with rfl | ha' <;> rcases List.mem_cons.mp hb with rfl | hb'
    · rfl
    · exact absurd (h ▸ List.mem_map_of_mem hb') hnd.1
    · exact absurd (h ▸ List.mem_map_of_mem ha') hnd.1
    · exact ih hnd.2 ha' hb'

theorem nodup_filter_ids (l : List Block) (f : Block → Bool) (hnd : (l.map (·.id)).Nodup) :
    ((l.filter f).map (·.id)).Nodup :=
  List.Nodup.sublist (List.Sublist.map _ List.filter_sublist) hnd

theorem doDealloc_inv {s : Sys} (hi : Inv s) (p : Nat) (cls : Cls) (n id : Nat) (frees : List Nat)
    (hok : (doDealloc s p cls n id frees).err = none) : Inv (doDealloc s p cls n id frees) := by
  unfold doDealloc at hok ⊢
  cases hl : livePool s p with
  | none => simp [hl, Sys.fail] at hok
  | some st =>
    simp only [hl] at hok ⊢
    obtain ⟨hst, hd⟩ := livePool_eq_some.mp hl
    cases hf : s.blocks.find? (fun b => b.id == id) with
    | none => simp [hf, Sys.fail] at hok
    | some b =>
      simp only [hf] at hok ⊢
      obtain ⟨hbm, hbid⟩ := find_id_mem hf
      by_cases hill : b.pid ≠ p ∨ b.cls ≠ cls ∨ b.n ≠ n
      · rw [if_pos hill] at hok; simp [Sys.fail] at hok
      · rw [if_neg hill] at hok ⊢
        have hbp : b.pid = p := Decidable.byContradiction fun h => hill (Or.inl h)
        have hfilt : ∀ x ∈ s.blocks.filter (fun x => x.id != id), x ∈ s.blocks ∧ x.id ≠ id := by
          intro x hx
          have := List.mem_filter.mp hx
          exact ⟨this.1, by simpa using this.2⟩
        have hkeep : ∀ x ∈ s.blocks, x.id ≠ id → x ∈ s.blocks.filter (fun x => x.id != id) := by
          intro x hx hne
          exact List.mem_filter.mpr ⟨hx, by simpa using hne⟩
        by_cases hpath : n = 1 ∧ cls = st.params
        · rw [if_pos hpath] at hok ⊢
          cases hpr : b.prov with
          | raw => simp [hpr, Sys.fail] at hok
          | pool q =>
            simp only [hpr] at hok ⊢
            constructor
            · exact nodup_filter_ids _ _ hi.nodup
            · intro x hx
              obtain ⟨a, ha, had⟩ := hi.alive x (hfilt x hx).1
              obtain ⟨a', ha', h1, h2⟩ := set_pool_lookup
                (st' := { st with allocCount := st.allocCount - 1 }) hst ha
              refine ⟨a', ha', ?_⟩
              by_cases hj : x.pid = p
              · rw [(h2 hj).1]; exact hd
              · rw [h1 hj]; exact had
            · intro x hx q' hq'
              obtain ⟨⟨a, ha, hap⟩, hrest⟩ := hi.poolBlk x (hfilt x hx).1 q' hq'
              obtain ⟨a', ha', h1, h2⟩ := set_pool_lookup
                (st' := { st with allocCount := st.allocCount - 1 }) hst ha
              refine ⟨⟨a', ha', ?_⟩, hrest⟩
              by_cases hj : x.pid = p
              · rw [(h2 hj).1]; simp; rw [← (h2 hj).2]; exact hap
              · rw [h1 hj]; exact hap
            · intro j a hj
              have hcf := countP_filter_id hi.nodup hbm (isPoolBlk j)
              rw [hbid] at hcf
              rcases getElem?_set_cases hj with ⟨rfl, rfl, _⟩ | ⟨hne, h⟩
              · have := hi.count _ st hst
                have hb1 : isPoolBlk b.pid b = true := by simp [isPoolBlk, hpr]
                rw [hbp] at hb1
                simp only [hb1, if_true] at hcf
                simp only
                omega
              · have := hi.count j a h
                have hb0 : isPoolBlk j b = false := by
                  simp [isPoolBlk, hbp]; intro e; exact absurd e.symm hne
                simp only [hb0] at hcf
                simp at hcf
                show a.allocCount = List.countP (isPoolBlk j) (List.filter (fun x => x.id != id) s.blocks)
                omega
            · intro e he hk
              obtain ⟨x, hx, h1, h2, h3⟩ := hi.rawBase e (List.mem_filter.mp he).1 hk
              refine ⟨x, hkeep x hx ?_, h1, h2, h3⟩
              intro hxid
              have : x = b := nodup_id_inj hi.nodup hx hbm (hxid.trans hbid.symm)
              rw [this, hpr] at h3
              cases h3
            · intro e he hk
              obtain ⟨a, ha, had⟩ := hi.ownBase e (List.mem_filter.mp he).1 hk
              obtain ⟨a', ha', h1, h2⟩ := set_pool_lookup
                (st' := { st with allocCount := st.allocCount - 1 }) hst ha
              refine ⟨a', ha', ?_⟩
              by_cases hj : e.pid = p
              · rw [(h2 hj).1]; exact hd
              · rw [h1 hj]; exact had
            · intro j a hj
              rcases getElem?_set_cases hj with ⟨rfl, rfl, _⟩ | ⟨_, h⟩
              · simpa using hi.refs _ st hst
              · exact hi.refs j a h
            · intro hrs x hx hxr
              exact hi.rawN hrs x (hfilt x hx).1 hxr
        · rw [if_neg hpath] at hok ⊢
          cases hpr : b.prov with
          | pool q => simp [hpr, Sys.fail] at hok
          | raw =>
            simp only [hpr] at hok ⊢
            constructor
            · exact nodup_filter_ids _ _ hi.nodup
            · intro x hx
              exact hi.alive x (hfilt x hx).1
            · intro x hx q' hq'
              exact hi.poolBlk x (hfilt x hx).1 q' hq'
            · intro j a hj
              have hcf := countP_filter_id hi.nodup hbm (isPoolBlk j)
              rw [hbid] at hcf
              have hb0 : isPoolBlk j b = false := by simp [isPoolBlk, hpr]
              simp only [hb0] at hcf
              simp at hcf
              have := hi.count j a hj
              show a.allocCount = List.countP (isPoolBlk j) (List.filter (fun x => x.id != id) s.blocks)
              omega
            · intro e he hk
              have hm := List.mem_filter.mp he
              obtain ⟨x, hx, h1, h2, h3⟩ := hi.rawBase e hm.1 hk
              refine ⟨x, hkeep x hx ?_, h1, h2, h3⟩
              intro hxid
              have hxb : x = b := nodup_id_inj hi.nodup hx hbm (hxid.trans hbid.symm)
              have := hm.2
              have hep : e.pid = p := by rw [← h2, hxb]; exact hbp
              simp [hk, ← h1, hxid, hep] at this
            · intro e he hk
              exact hi.ownBase e (List.mem_filter.mp he).1 hk
            · exact hi.refs
            · intro hrs x hx hxr
              exact hi.rawN hrs x (hfilt x hx).1 hxr

theorem step_inv {s : Sys} (hi : Inv s) (op : Op) (hok : (step s op).err = none) : Inv (step s op) := by
  unfold step at hok ⊢
  by_cases he : s.err.isSome = true
  · simp only [he, if_true]; exact hi
  · simp only [he] at hok ⊢
    cases op with
    | anew cls cb => exact doNew_inv hi cls cb
    | acopy p => exact doCopy_inv hi p hok
    | adrop p => exact doDrop_inv hi p hok
    | alloc p cls n id mallocs => exact doAlloc_inv hi p cls n id mallocs hok
    | dealloc p cls n id frees => exact doDealloc_inv hi p cls n id frees hok
    | bad => simp [Sys.fail] at hok

end Momo.PoolAlloc
