import Momo.Proof.BTreeMore
/-!
  C02, removal of an iterator range: `Remove(begin, end)` with `pvRemoveRange` (common parent, predecessor moved into
  the separator, truncation of the two boundary subtrees, two non-fast rebalancing passes) refines
  `take i ++ drop j` on the in-order list; `Remove(key)` for unique and multi keys. Core Lean only.
-/
namespace Momo.BTree
open Node
variable {α : Type}

/-! ### list lemmas -/

theorem take_middle (a b c : List α) (u : Nat) (hu : u ≤ b.length) :
    (a ++ b ++ c).take (a.length + u) = a ++ b.take u := by
  rw [List.append_assoc, take_length_add, List.take_append_of_le_length hu]

theorem drop_middle (a b c : List α) (u : Nat) (hu : u ≤ b.length) :
    (a ++ b ++ c).drop (a.length + u) = b.drop u ++ c := by
  rw [List.append_assoc, List.drop_append, List.drop_of_length_le (by omega), Nat.add_sub_cancel_left,
    List.drop_append_of_le_length hu]
  simp

/-! ### truncation of the boundary subtrees -/

theorem inter_take_child (cs : List (Node α)) (is : List α) (c : Nat) (tr : Node α) (hc : c < cs.length)
    (hlen : cs.length = is.length + 1) :
    inter (cs.take c ++ [tr]) (is.take c) = preOf cs is c ++ toList tr := by
  induction cs generalizing is c with
  | nil => simp at hc
  | cons c0 cs ih =>
    cases c with
    | zero => simp [preOf]
    | succ k =>
      cases is with
      | nil => simp at hlen; subst hlen; simp at hc
      | cons s is' =>
        have := ih is' k (by simpa using hc) (by simpa using hlen)
        simp only [List.take_succ_cons, List.cons_append, inter_cons_cons, this]
        simp [preOf]

/-- left boundary: what precedes the element at `(q, k)` stays, the element is handed out -/
theorem truncRight_spec {d : Nat} {n : Node α} (hb : Bal d n) (q : List Nat) (k : Nat) (hv : ValidElem n q k) :
    (truncRight n q k).2 = (toList n)[idxOf n q k]? ∧
    toList (truncRight n q k).1 = (toList n).take (idxOf n q k) ∧ Bal d (truncRight n q k).1 ∧
    (∀ maxCap, Caps maxCap n → Caps maxCap (truncRight n q k).1) := by
  induction q generalizing n d with
  | nil =>
    obtain ⟨m, hm, hk⟩ := hv
    simp at hm; subst hm
    cases hb with
    | leaf cap items =>
      simp only [Node.count] at hk
      simp only [truncRight, toList_leaf, idxOf_leaf]
      refine ⟨trivial, trivial, Bal.leaf _ _, ?_⟩
      intro maxCap hc; cases hc with
      | leaf _ _ h1 h2 => exact Caps.leaf _ _ (by simp; omega) h2
    | inner d' items cs hlen hall =>
      simp only [Node.count] at hk
      obtain ⟨c, hc⟩ := getElem?_of_lt (l := cs) (i := k) (by omega)
      obtain ⟨x, hx⟩ := getElem?_of_lt hk
      have hx' := elemAt_toList (Bal.inner d' items cs hlen hall) [] k x (by simp [elemAt?, Node.items, hx])
      simp only [truncRight]
      have hpl := preOf_length cs items k (by omega) hlen
      have hidx : idxOf (inner items cs) [] k = (preOf cs items k).length + (toList c).length := by
        rw [idxOf_inner_nil, sum_take_succ cs k c hc, hpl]; simp only [size]; omega
      refine ⟨by rw [hx, hx'], ?_, ?_, ?_⟩
      · rw [toList_inner, toList_inner, hidx, inter_split cs items k c hc hlen]
        have h1 : cs.take (k + 1) = cs.take k ++ [c] := by
          rw [List.take_add_one, hc]; simp
        rw [h1, inter_take_child cs items k c (by omega) hlen, take_middle _ _ _ _ (Nat.le_refl _)]
        simp
      · exact Bal.inner d' _ _ (by simp; omega) (fun z hz => hall z (List.mem_of_mem_take hz))
      · intro maxCap hcaps; cases hcaps with
        | inner _ _ h1 h2 =>
          exact Caps.inner _ _ (by simp; omega) (fun z hz => h2 z (List.mem_of_mem_take hz))
  | cons c p ih =>
    obtain ⟨m, hm, hk⟩ := hv
    cases n with
    | leaf cap is => simp at hm
    | inner is cs =>
      obtain ⟨d', rfl, hall⟩ := hb.inner_depth
      have hlen := hb.inner_len
      simp only [nodeAt?_inner_cons] at hm
      cases hc : cs[c]? with
      | none => simp [hc] at hm
      | some ch =>
        simp only [hc] at hm
        have hcl := lt_of_getElem? hc
        have hbch := hall ch (List.mem_of_getElem? hc)
        obtain ⟨i1, i2, i3, i4⟩ := ih hbch ⟨m, hm, hk⟩
        have hlt := idxOf_lt_size hbch p k ⟨m, hm, hk⟩
        have hpl := preOf_length cs is c (by omega) hlen
        simp only [truncRight, hc]
        rw [idxOf_inner_cons' hc, toList_inner, inter_split cs is c ch hc hlen, ← hpl]
        refine ⟨?_, ?_, ?_, ?_⟩
        · rw [i1, List.append_assoc, List.getElem?_append_right (Nat.le_add_right _ _), Nat.add_sub_cancel_left,
            List.getElem?_append_left (by simpa [size] using hlt)]
        · rw [toList_inner, inter_take_child cs is c _ hcl hlen, i2,
            take_middle _ _ _ _ (by simpa [size] using Nat.le_of_lt hlt)]
        · exact Bal.inner d' _ _ (by simp; omega) (fun z hz => by
            rcases List.mem_append.mp hz with h | h
            · exact hall z (List.mem_of_mem_take h)
            · simp at h; subst h; exact i3)
        · intro maxCap hcaps; cases hcaps with
          | inner _ _ h1 h2 =>
            exact Caps.inner _ _ (by simp; omega) (fun z hz => by
              rcases List.mem_append.mp hz with h | h
              · exact h2 z (List.mem_of_mem_take h)
              · simp at h; subst h; exact i4 maxCap (h2 ch (List.mem_of_getElem? hc)))

theorem inter_drop_child (cs : List (Node α)) (is : List α) (c : Nat) (ch tl : Node α) (hc : cs[c]? = some ch)
    (hlen : cs.length = is.length + 1) :
    inter (tl :: cs.drop (c + 1)) (is.drop c) = toList tl ++ postOf cs is c := by
  simp only [postOf]
  cases hd : is.drop c with
  | nil =>
    have hcl := lt_of_getElem? hc
    have : is.length ≤ c := by simpa using hd
    have : cs.drop (c + 1) = [] := by apply List.drop_of_length_le; omega
    simp [this]
  | cons s rest => simp

/-- right boundary: what follows the element at `(q, k)` stays -/
theorem truncLeft_spec {d : Nat} {n : Node α} (hb : Bal d n) (q : List Nat) (k : Nat) (hv : ValidElem n q k) :
    toList (truncLeft n q k) = (toList n).drop (idxOf n q k + 1) ∧ Bal d (truncLeft n q k) ∧
    (∀ maxCap, Caps maxCap n → Caps maxCap (truncLeft n q k)) := by
  induction q generalizing n d with
  | nil =>
    obtain ⟨m, hm, hk⟩ := hv
    simp at hm; subst hm
    cases hb with
    | leaf cap items =>
      simp only [truncLeft, toList_leaf, idxOf_leaf]
      refine ⟨trivial, Bal.leaf _ _, ?_⟩
      intro maxCap hc; cases hc with
      | leaf _ _ h1 h2 => exact Caps.leaf _ _ (by simp; omega) h2
    | inner d' items cs hlen hall =>
      simp only [Node.count] at hk
      obtain ⟨c, hc⟩ := getElem?_of_lt (l := cs) (i := k) (by omega)
      obtain ⟨x, hx⟩ := getElem?_of_lt hk
      simp only [truncLeft]
      have hpl := preOf_length cs items k (by omega) hlen
      have hidx : idxOf (inner items cs) [] k + 1 = (preOf cs items k ++ toList c).length + 1 := by
        rw [idxOf_inner_nil, sum_take_succ cs k c hc, List.length_append, hpl]; simp only [size]; omega
      have hd : items.drop k = x :: items.drop (k + 1) := by
        rw [List.drop_eq_getElem_cons hk]; congr 1
        rw [List.getElem?_eq_getElem hk] at hx; exact Option.some.inj hx
      refine ⟨?_, ?_, ?_⟩
      · rw [toList_inner, toList_inner, hidx, inter_split cs items k c hc hlen]
        simp only [postOf, hd]
        rw [List.drop_append, List.drop_of_length_le (Nat.le_succ _)]
        simp
      · exact Bal.inner d' _ _ (by simp; omega) (fun z hz => hall z (List.mem_of_mem_drop hz))
      · intro maxCap hcaps; cases hcaps with
        | inner _ _ h1 h2 =>
          exact Caps.inner _ _ (by simp; omega) (fun z hz => h2 z (List.mem_of_mem_drop hz))
  | cons c p ih =>
    obtain ⟨m, hm, hk⟩ := hv
    cases n with
    | leaf cap is => simp at hm
    | inner is cs =>
      obtain ⟨d', rfl, hall⟩ := hb.inner_depth
      have hlen := hb.inner_len
      simp only [nodeAt?_inner_cons] at hm
      cases hc : cs[c]? with
      | none => simp [hc] at hm
      | some ch =>
        simp only [hc] at hm
        have hcl := lt_of_getElem? hc
        have hbch := hall ch (List.mem_of_getElem? hc)
        obtain ⟨i2, i3, i4⟩ := ih hbch ⟨m, hm, hk⟩
        have hlt := idxOf_lt_size hbch p k ⟨m, hm, hk⟩
        have hpl := preOf_length cs is c (by omega) hlen
        simp only [truncLeft, hc]
        rw [idxOf_inner_cons' hc, ← hpl]
        refine ⟨?_, ?_, ?_⟩
        · rw [toList_inner, toList_inner, inter_split cs is c ch hc hlen, inter_drop_child cs is c ch _ hc hlen, i2]
          have : (preOf cs is c).length + idxOf ch p k + 1 = (preOf cs is c).length + (idxOf ch p k + 1) := by omega
          rw [this, drop_middle _ _ _ _ (by simp only [size] at hlt; omega)]
        · exact Bal.inner d' _ _ (by simp; omega) (fun z hz => by
            rcases List.mem_cons.mp hz with h | h
            · subst h; exact i3
            · exact hall z (List.mem_of_mem_drop h))
        · intro maxCap hcaps; cases hcaps with
          | inner _ _ h1 h2 =>
            exact Caps.inner _ _ (by simp; omega) (fun z hz => by
              rcases List.mem_cons.mp hz with h | h
              · subst h; exact i4 maxCap (h2 ch (List.mem_of_getElem? hc))
              · exact h2 z (List.mem_of_mem_drop h))

/-! ### the climb over leading zeros -/

/-- in-order index of the slot `(path, k)`: in a leaf the place before item `k`, in an internal node the place before
    child `k` -/
def slotIdx (n : Node α) (path : List Nat) (k : Nat) : Nat :=
  offsetOf n path + (match nodeAt? n path with
    | some (inner _ cs) => ((cs.take k).map (fun c => size c)).sum + k
    | _ => k)

theorem climbZero_spec {d : Nat} {n : Node α} (hb : Bal d n) (rq : List Nat) (k : Nat) (m : Node α)
    (hm : nodeAt? n rq.reverse = some m)
    (hk : k ≤ m.count) :
    ∃ m', nodeAt? n (climbZero rq k).1.reverse = some m' ∧ (climbZero rq k).2 ≤ m'.count ∧
      slotIdx n (climbZero rq k).1.reverse (climbZero rq k).2 = slotIdx n rq.reverse k ∧
      ((climbZero rq k).1 ≠ [] → 0 < (climbZero rq k).2) ∧
      ∃ suffix, rq.reverse = (climbZero rq k).1.reverse ++ suffix := by
  induction rq generalizing k m with
  | nil => exact ⟨m, by simpa [climbZero] using hm, by simpa [climbZero] using hk, by simp [climbZero],
      by simp [climbZero], [], by simp [climbZero]⟩
  | cons c rp ih =>
    simp only [climbZero]
    split
    · rename_i hk0
      subst hk0
      -- the parent is an internal node with child `c`
      simp only [List.reverse_cons] at hm
      rw [nodeAt?_append] at hm
      cases hp : nodeAt? n rp.reverse with
      | none => simp [hp] at hm
      | some mp =>
        simp only [hp] at hm
        cases mp with
        | leaf cap is => simp at hm
        | inner is cs =>
          simp only [nodeAt?_inner_cons] at hm
          cases hc : cs[c]? with
          | none => simp [hc] at hm
          | some ch =>
            simp only [hc, nodeAt?_nil] at hm
            have hcl := lt_of_getElem? hc
            have hmm : ch = m := Option.some.inj hm
            -- lengths: the child index is at most the count of a well-shaped node; we only need `c ≤ cs.length`
            have hlen := (hb.nodeAt hp).1.inner_len
            obtain ⟨m', e1, e2, e3, e4, suffix, e5⟩ := ih c (inner is cs) hp (by
              simp only [Node.count]; omega)
            refine ⟨m', e1, e2, ?_, e4, suffix ++ [c], by simp [e5]⟩
            rw [e3]
            simp only [slotIdx, List.reverse_cons, hp]
            rw [offsetOf_append n _ rp.reverse [c] hp, offsetOf_inner_cons' hc, nodeAt?_append, hp]
            simp only [nodeAt?_inner_cons, hc, nodeAt?_nil, offsetOf_nil]
            cases ch <;> simp
    · rename_i hk0
      exact ⟨m, hm, hk, rfl, fun _ => by omega, [], by simp⟩

/-! ### the two sides of `pvRemoveRange` inside the common parent -/

theorem preOf_succ (cs : List (Node α)) (is : List α) (a : Nat) (c : Node α) (x : α) (hc : cs[a]? = some c)
    (hx : is[a]? = some x) : preOf cs is (a + 1) = preOf cs is a ++ toList c ++ [x] := by
  induction cs generalizing is a with
  | nil => simp at hc
  | cons c0 cs ih =>
    cases is with
    | nil => simp at hx
    | cons s is' =>
      cases a with
      | zero => simp at hc hx; subst hc; subst hx; simp [preOf]
      | succ k =>
        have := ih is' k (by simpa using hc) (by simpa using hx)
        simp only [preOf] at this ⊢
        simp only [List.take_succ_cons, inter_cons_cons, this]
        simp

theorem preOf_eq_take (cs : List (Node α)) (is : List α) (k : Nat) (hk : k ≤ is.length)
    (hlen : cs.length = is.length + 1) :
    preOf cs is k = (inter cs is).take (((cs.take k).map (fun c => size c)).sum + k) := by
  obtain ⟨c, hc⟩ := getElem?_of_lt (l := cs) (i := k) (by omega)
  rw [inter_split cs is k c hc hlen, ← preOf_length cs is k hk hlen, List.append_assoc, List.take_left']
  rfl

theorem normLeaf_prefix (n : Node α) (p : List Nat) (i : Nat) :
    ∃ sfx, (normLeaf n ⟨p, i⟩).path = p ++ sfx ∧
      (∀ is cs, nodeAt? n p = some (inner is cs) → (∃ ch, cs[i]? = some ch) → ∃ s', sfx = i :: s') := by
  unfold normLeaf
  cases hm : nodeAt? n p with
  | none => exact ⟨[], by simp, fun _ _ h => by cases h⟩
  | some m =>
    cases m with
    | leaf cap is => exact ⟨[], by simp, fun _ _ h => by cases h⟩
    | inner is cs =>
      simp only
      cases hc : cs[i]? with
      | none => exact ⟨[], by simp, fun is' cs' h ⟨ch, hch⟩ => by cases h; rw [hc] at hch; cases hch⟩
      | some ch => exact ⟨i :: (rightPath ch).path, by simp, fun _ _ _ _ => ⟨_, rfl⟩⟩

/-- the left side: what it leaves in front of the removed range is exactly the first `i` elements -/
theorem rangeLeft_spec {dm : Nat} (items : List α) (cs : List (Node α)) (hb : Bal (dm+1) (inner items cs))
    (p1 : List Nat) (i1 : Nat) (hv : ValidElem (inner items cs) p1 i1) :
    (rangeLeft items cs p1 i1).1.length = items.length ∧ (rangeLeft items cs p1 i1).2.1.length = cs.length ∧
    (∀ x ∈ (rangeLeft items cs p1 i1).2.1, Bal dm x) ∧
    (∀ maxCap, Caps maxCap (inner items cs) → ∀ x ∈ (rangeLeft items cs p1 i1).2.1, Caps maxCap x) ∧
    (rangeLeft items cs p1 i1).2.2.1 ≤ cs.length ∧
    ((rangeLeft items cs p1 i1).2.2.1 ≤ items.length →
      preOf (rangeLeft items cs p1 i1).2.1 (rangeLeft items cs p1 i1).1 (rangeLeft items cs p1 i1).2.2.1 =
        (inter cs items).take (idxOf (inner items cs) p1 i1)) ∧
    (∀ idx, (rangeLeft items cs p1 i1).2.2.1 ≤ idx → (rangeLeft items cs p1 i1).2.1[idx]? = cs[idx]?) ∧
    (rangeLeft items cs p1 i1).1.drop (rangeLeft items cs p1 i1).2.2.1 = items.drop (rangeLeft items cs p1 i1).2.2.1 ∧
    idxOf (inner items cs) p1 i1 ≤
      ((cs.take (rangeLeft items cs p1 i1).2.2.1).map (fun c => size c)).sum + (rangeLeft items cs p1 i1).2.2.1 ∧
    (idxOf (inner items cs) p1 i1 =
        ((cs.take (rangeLeft items cs p1 i1).2.2.1).map (fun c => size c)).sum + (rangeLeft items cs p1 i1).2.2.1 ∨
      ∃ a, (rangeLeft items cs p1 i1).2.2.1 = a + 1 ∧
        ((cs.take a).map (fun c => size c)).sum + a < idxOf (inner items cs) p1 i1 ∧
        ((∃ q1, p1 = a :: q1) ∨ (p1 = [] ∧ i1 = a))) := by
  have hlen := hb.inner_len
  have hall := hb.inner_child
  obtain ⟨m, hm, hi⟩ := hv
  obtain ⟨hn1, lcap, lits, hn2, hn3⟩ := normLeaf_spec hb p1 i1 hm (Nat.le_of_lt hi)
  obtain ⟨sfx, hsfx, hsfx2⟩ := normLeaf_prefix (inner items cs) p1 i1
  generalize hnl : normLeaf (inner items cs) ⟨p1, i1⟩ = nl at hn1 hn2 hn3 hsfx
  have hslot : slotIdx (inner items cs) nl.path nl.idx = idxOf (inner items cs) p1 i1 := by
    rw [← hn1, idxOf_eq_offset _ _ nl.path nl.idx hn2]; simp [slotIdx, hn2]
  obtain ⟨m', c1, c2, c3, c4, suffix, c5⟩ := climbZero_spec hb nl.path.reverse nl.idx (leaf lcap lits)
    (by simpa using hn2) (by simpa [Node.count] using hn3)
  simp only [List.reverse_reverse] at c3 c5
  rw [hslot] at c3
  unfold rangeLeft
  rw [hnl]
  generalize hcz : climbZero nl.path.reverse nl.idx = cz at c1 c2 c3 c4 c5
  obtain ⟨rq, k⟩ := cz
  simp only at c1 c2 c3 c4 c5 ⊢
  cases hrq : rq.reverse with
  | nil =>
    simp only
    rw [hrq] at c1 c3
    simp only [nodeAt?_nil, Option.some.injEq] at c1
    subst c1
    simp only [Node.count] at c2
    have hi' : idxOf (inner items cs) p1 i1 = ((cs.take k).map (fun c => size c)).sum + k := by
      rw [← c3]; simp [slotIdx]
    refine ⟨trivial, trivial, hall, ?_, by omega, ?_, fun _ _ => trivial, trivial, by omega, Or.inl hi'⟩
    · intro maxCap hc; cases hc; assumption
    · intro hk; rw [hi']; exact preOf_eq_take cs items k hk hlen
  | cons a q =>
    simp only
    rw [hrq] at c1 c3 c5
    have hrne : rq ≠ [] := by intro h; rw [h] at hrq; simp at hrq
    have hkpos := c4 hrne
    simp only [nodeAt?_inner_cons] at c1
    cases hc : cs[a]? with
    | none => simp [hc] at c1
    | some ch =>
      simp only [hc] at c1 ⊢
      have hal := lt_of_getElem? hc
      have hbch := hall ch (List.mem_of_getElem? hc)
      have hve : ValidElem ch q (k - 1) := ⟨m', c1, by omega⟩
      obtain ⟨t1, t2, t3, t4⟩ := truncRight_spec hbch q (k - 1) hve
      have hu := idxOf_lt_size hbch q (k - 1) hve
      -- the index of the predecessor inside the child
      have hidx : idxOf (inner items cs) p1 i1 =
          ((cs.take a).map (fun c => size c)).sum + a + idxOf ch q (k - 1) + 1 := by
        rw [← c3]
        simp only [slotIdx, nodeAt?_inner_cons, hc, c1]
        rw [offsetOf_inner_cons' hc, idxOf_eq_offset ch _ q (k - 1) c1]
        cases m' with
        | leaf cap' is' => simp; omega
        | inner is' cs' =>
          simp only [idxOf_inner_nil]
          have : k - 1 + 1 = k := by omega
          rw [this]; omega
      obtain ⟨x, hx⟩ := getElem?_of_lt (l := toList ch) (i := idxOf ch q (k - 1)) (by simpa [size] using hu)
      rw [hx] at t1
      generalize htr : truncRight ch q (k - 1) = tr at t1 t2 t3 t4
      obtain ⟨ch', ox⟩ := tr
      simp only at t1 t2 t3 t4
      subst t1
      simp only
      -- where `a` comes from
      have horigin : (∃ q1, p1 = a :: q1) ∨ (p1 = [] ∧ i1 = a) := by
        rw [hsfx] at c5
        cases p1 with
        | nil =>
          right
          simp at hm; subst hm
          simp only [Node.count] at hi
          obtain ⟨ch0, hch0⟩ := getElem?_of_lt (l := cs) (i := i1) (by omega)
          obtain ⟨s', hs'⟩ := hsfx2 items cs (by simp) ⟨ch0, hch0⟩
          rw [hs'] at c5
          simp at c5
          exact ⟨rfl, c5.1⟩
        | cons c1' q1 =>
          left
          simp at c5
          exact ⟨q1, by rw [c5.1]⟩
      refine ⟨by simp, by simp, ?_, ?_, by omega, ?_, ?_, ?_, ?_, Or.inr ⟨a, rfl, by omega, horigin⟩⟩
      · intro y hy
        rcases List.mem_or_eq_of_mem_set hy with h | rfl
        · exact hall y h
        · exact t3
      · intro maxCap hcaps y hy
        cases hcaps with
        | inner _ _ h1 h2 =>
          rcases List.mem_or_eq_of_mem_set hy with h | rfl
          · exact h2 y h
          · exact t4 maxCap (h2 ch (List.mem_of_getElem? hc))
      · intro ha
        have hset : (cs.set a ch')[a]? = some ch' := by simp [hal]
        have hsetx : (items.set a x)[a]? = some x := by
          rw [List.getElem?_set_self (by omega)]
        rw [preOf_succ _ _ a ch' x hset hsetx]
        have hp : preOf (cs.set a ch') (items.set a x) a = preOf cs items a := by
          simp [preOf, List.take_set_of_le]
        rw [hp, t2, hidx, inter_split cs items a ch hc hlen]
        have hpl := preOf_length cs items a (by omega) hlen
        have : ((cs.take a).map (fun c => size c)).sum + a + idxOf ch q (k - 1) + 1 =
            (preOf cs items a).length + (idxOf ch q (k - 1) + 1) := by omega
        rw [this, take_middle _ _ _ _ (by simp only [size] at hu; omega), List.take_add_one, hx]
        simp
      · intro idx hidx'
        rw [List.getElem?_set_ne (by omega)]
      · rw [List.drop_set_of_lt (by omega)]
      · rw [hidx, sum_take_succ cs a ch hc]; omega

end Momo.BTree
