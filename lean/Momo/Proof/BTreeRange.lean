import Momo.Proof.BTreeMore
/-!
  C02, removal of an iterator range: `Remove(begin, end)` with `pvRemoveRange` (common parent, predecessor moved into
  the separator, truncation of the two boundary subtrees, two non-fast rebalancing passes) refines
  `take i ++ drop j` on the in-order list; `Remove(key)` for unique and multi keys. Core Lean only.
-/
namespace Momo.BTree
open Node
variable {α : Type}

/-! ### list lemmas -/

theorem take_middle (a b c : List α) (u : Nat) (hu : u ≤ b.length) :
    (a ++ b ++ c).take (a.length + u) = a ++ b.take u := by
  rw [List.append_assoc, take_length_add, List.take_append_of_le_length hu]

theorem drop_middle (a b c : List α) (u : Nat) (hu : u ≤ b.length) :
    (a ++ b ++ c).drop (a.length + u) = b.drop u ++ c := by
  rw [List.append_assoc, List.drop_append, List.drop_of_length_le (by omega), Nat.add_sub_cancel_left,
    List.drop_append_of_le_length hu]
  simp

/-! ### truncation of the boundary subtrees -/

theorem inter_take_child (cs : List (Node α)) (is : List α) (c : Nat) (tr : Node α) (hc : c < cs.length)
    (hlen : cs.length = is.length + 1) :
    inter (cs.take c ++ [tr]) (is.take c) = preOf cs is c ++ toList tr := by
  induction cs generalizing is c with
  | nil => simp at hc
  | cons c0 cs ih =>
    cases c with
    | zero => simp [preOf]
    | succ k =>
      cases is with
      | nil => simp at hlen; subst hlen; simp at hc
      | cons s is' =>
        have := ih is' k (by simpa using hc) (by simpa using hlen)
        simp only [List.take_succ_cons, List.cons_append, inter_cons_cons, this]
        simp [preOf]

/-- left boundary: what precedes the element at `(q, k)` stays, the element is handed out -/
theorem truncRight_spec {d : Nat} {n : Node α} (hb : Bal d n) (q : List Nat) (k : Nat) (hv : ValidElem n q k) :
    (truncRight n q k).2 = (toList n)[idxOf n q k]? ∧
    toList (truncRight n q k).1 = (toList n).take (idxOf n q k) ∧ Bal d (truncRight n q k).1 ∧
    (∀ maxCap, Caps maxCap n → Caps maxCap (truncRight n q k).1) := by
  induction q generalizing n d with
  | nil =>
    obtain ⟨m, hm, hk⟩ := hv
    simp at hm; subst hm
    cases hb with
    | leaf cap items =>
      simp only [Node.count] at hk
      simp only [truncRight, toList_leaf, idxOf_leaf]
      refine ⟨trivial, trivial, Bal.leaf _ _, ?_⟩
      intro maxCap hc; cases hc with
      | leaf _ _ h1 h2 => exact Caps.leaf _ _ (by simp; omega) h2
    | inner d' items cs hlen hall =>
      simp only [Node.count] at hk
      obtain ⟨c, hc⟩ := getElem?_of_lt (l := cs) (i := k) (by omega)
      obtain ⟨x, hx⟩ := getElem?_of_lt hk
      have hx' := elemAt_toList (Bal.inner d' items cs hlen hall) [] k x (by simp [elemAt?, Node.items, hx])
      simp only [truncRight]
      have hpl := preOf_length cs items k (by omega) hlen
      have hidx : idxOf (inner items cs) [] k = (preOf cs items k).length + (toList c).length := by
        rw [idxOf_inner_nil, sum_take_succ cs k c hc, hpl]; simp only [size]; omega
      refine ⟨by rw [hx, hx'], ?_, ?_, ?_⟩
      · rw [toList_inner, toList_inner, hidx, inter_split cs items k c hc hlen]
        have h1 : cs.take (k + 1) = cs.take k ++ [c] := by
          rw [List.take_add_one, hc]; simp
        rw [h1, inter_take_child cs items k c (by omega) hlen, take_middle _ _ _ _ (Nat.le_refl _)]
        simp
      · exact Bal.inner d' _ _ (by simp; omega) (fun z hz => hall z (List.mem_of_mem_take hz))
      · intro maxCap hcaps; cases hcaps with
        | inner _ _ h1 h2 =>
          exact Caps.inner _ _ (by simp; omega) (fun z hz => h2 z (List.mem_of_mem_take hz))
  | cons c p ih =>
    obtain ⟨m, hm, hk⟩ := hv
    cases n with
    | leaf cap is => simp at hm
    | inner is cs =>
      obtain ⟨d', rfl, hall⟩ := hb.inner_depth
      have hlen := hb.inner_len
      simp only [nodeAt?_inner_cons] at hm
      cases hc : cs[c]? with
      | none => simp [hc] at hm
      | some ch =>
        simp only [hc] at hm
        have hcl := lt_of_getElem? hc
        have hbch := hall ch (List.mem_of_getElem? hc)
        obtain ⟨i1, i2, i3, i4⟩ := ih hbch ⟨m, hm, hk⟩
        have hlt := idxOf_lt_size hbch p k ⟨m, hm, hk⟩
        have hpl := preOf_length cs is c (by omega) hlen
        simp only [truncRight, hc]
        rw [idxOf_inner_cons' hc, toList_inner, inter_split cs is c ch hc hlen, ← hpl]
        refine ⟨?_, ?_, ?_, ?_⟩
        · rw [i1, List.append_assoc, List.getElem?_append_right (Nat.le_add_right _ _), Nat.add_sub_cancel_left,
            List.getElem?_append_left (by simpa [size] using hlt)]
        · rw [toList_inner, inter_take_child cs is c _ hcl hlen, i2,
            take_middle _ _ _ _ (by simpa [size] using Nat.le_of_lt hlt)]
        · exact Bal.inner d' _ _ (by simp; omega) (fun z hz => by
            rcases List.mem_append.mp hz with h | h
            · exact hall z (List.mem_of_mem_take h)
            · simp at h; subst h; exact i3)
        · intro maxCap hcaps; cases hcaps with
          | inner _ _ h1 h2 =>
            exact Caps.inner _ _ (by simp; omega) (fun z hz => by
              rcases List.mem_append.mp hz with h | h
              · exact h2 z (List.mem_of_mem_take h)
              · simp at h; subst h; exact i4 maxCap (h2 ch (List.mem_of_getElem? hc)))

theorem inter_drop_child (cs : List (Node α)) (is : List α) (c : Nat) (ch tl : Node α) (hc : cs[c]? = some ch)
    (hlen : cs.length = is.length + 1) :
    inter (tl :: cs.drop (c + 1)) (is.drop c) = toList tl ++ postOf cs is c := by
  simp only [postOf]
  cases hd : is.drop c with
  | nil =>
    have hcl := lt_of_getElem? hc
    have : is.length ≤ c := by simpa using hd
    have : cs.drop (c + 1) = [] := by apply List.drop_of_length_le; omega
    simp [this]
  | cons s rest => simp

/-- right boundary: what follows the element at `(q, k)` stays -/
theorem truncLeft_spec {d : Nat} {n : Node α} (hb : Bal d n) (q : List Nat) (k : Nat) (hv : ValidElem n q k) :
    toList (truncLeft n q k) = (toList n).drop (idxOf n q k + 1) ∧ Bal d (truncLeft n q k) ∧
    (∀ maxCap, Caps maxCap n → Caps maxCap (truncLeft n q k)) := by
  induction q generalizing n d with
  | nil =>
    obtain ⟨m, hm, hk⟩ := hv
    simp at hm; subst hm
    cases hb with
    | leaf cap items =>
      simp only [truncLeft, toList_leaf, idxOf_leaf]
      refine ⟨trivial, Bal.leaf _ _, ?_⟩
      intro maxCap hc; cases hc with
      | leaf _ _ h1 h2 => exact Caps.leaf _ _ (by simp; omega) h2
    | inner d' items cs hlen hall =>
      simp only [Node.count] at hk
      obtain ⟨c, hc⟩ := getElem?_of_lt (l := cs) (i := k) (by omega)
      obtain ⟨x, hx⟩ := getElem?_of_lt hk
      simp only [truncLeft]
      have hpl := preOf_length cs items k (by omega) hlen
      have hidx : idxOf (inner items cs) [] k + 1 = (preOf cs items k ++ toList c).length + 1 := by
        rw [idxOf_inner_nil, sum_take_succ cs k c hc, List.length_append, hpl]; simp only [size]; omega
      have hd : items.drop k = x :: items.drop (k + 1) := by
        rw [List.drop_eq_getElem_cons hk]; congr 1
        rw [List.getElem?_eq_getElem hk] at hx; exact Option.some.inj hx
      refine ⟨?_, ?_, ?_⟩
      · rw [toList_inner, toList_inner, hidx, inter_split cs items k c hc hlen]
        simp only [postOf, hd]
        rw [List.drop_append, List.drop_of_length_le (Nat.le_succ _)]
        simp
      · exact Bal.inner d' _ _ (by simp; omega) (fun z hz => hall z (List.mem_of_mem_drop hz))
      · intro maxCap hcaps; cases hcaps with
        | inner _ _ h1 h2 =>
          exact Caps.inner _ _ (by simp; omega) (fun z hz => h2 z (List.mem_of_mem_drop hz))
  | cons c p ih =>
    obtain ⟨m, hm, hk⟩ := hv
    cases n with
    | leaf cap is => simp at hm
    | inner is cs =>
      obtain ⟨d', rfl, hall⟩ := hb.inner_depth
      have hlen := hb.inner_len
      simp only [nodeAt?_inner_cons] at hm
      cases hc : cs[c]? with
      | none => simp [hc] at hm
      | some ch =>
        simp only [hc] at hm
        have hcl := lt_of_getElem? hc
        have hbch := hall ch (List.mem_of_getElem? hc)
        obtain ⟨i2, i3, i4⟩ := ih hbch ⟨m, hm, hk⟩
        have hlt := idxOf_lt_size hbch p k ⟨m, hm, hk⟩
        have hpl := preOf_length cs is c (by omega) hlen
        simp only [truncLeft, hc]
        rw [idxOf_inner_cons' hc, ← hpl]
        refine ⟨?_, ?_, ?_⟩
        · rw [toList_inner, toList_inner, inter_split cs is c ch hc hlen, inter_drop_child cs is c ch _ hc hlen, i2]
          have : (preOf cs is c).length + idxOf ch p k + 1 = (preOf cs is c).length + (idxOf ch p k + 1) := by omega
          rw [this, drop_middle _ _ _ _ (by simp only [size] at hlt; omega)]
        · exact Bal.inner d' _ _ (by simp; omega) (fun z hz => by
            rcases List.mem_cons.mp hz with h | h
            · subst h; exact i3
            · exact hall z (List.mem_of_mem_drop h))
        · intro maxCap hcaps; cases hcaps with
          | inner _ _ h1 h2 =>
            exact Caps.inner _ _ (by simp; omega) (fun z hz => by
              rcases List.mem_cons.mp hz with h | h
              · subst h; exact i4 maxCap (h2 ch (List.mem_of_getElem? hc))
              · exact h2 z (List.mem_of_mem_drop h))

/-! ### the climb over leading zeros -/

/-- in-order index of the slot `(path, k)`: in a leaf the place before item `k`, in an internal node the place before
    child `k` -/
def slotIdx (n : Node α) (path : List Nat) (k : Nat) : Nat :=
  offsetOf n path + (match nodeAt? n path with
    | some (inner _ cs) => ((cs.take k).map (fun c => size c)).sum + k
    | _ => k)

theorem climbZero_spec {d : Nat} {n : Node α} (hb : Bal d n) (rq : List Nat) (k : Nat) (m : Node α)
    (hm : nodeAt? n rq.reverse = some m)
    (hk : k ≤ m.count) :
    ∃ m', nodeAt? n (climbZero rq k).1.reverse = some m' ∧ (climbZero rq k).2 ≤ m'.count ∧
      slotIdx n (climbZero rq k).1.reverse (climbZero rq k).2 = slotIdx n rq.reverse k ∧
      ((climbZero rq k).1 ≠ [] → 0 < (climbZero rq k).2) ∧
      ∃ suffix, rq.reverse = (climbZero rq k).1.reverse ++ suffix := by
  induction rq generalizing k m with
  | nil => exact ⟨m, by simpa [climbZero] using hm, by simpa [climbZero] using hk, by simp [climbZero],
      by simp [climbZero], [], by simp [climbZero]⟩
  | cons c rp ih =>
    simp only [climbZero]
    split
    · rename_i hk0
      subst hk0
      -- the parent is an internal node with child `c`
      simp only [List.reverse_cons] at hm
      rw [nodeAt?_append] at hm
      cases hp : nodeAt? n rp.reverse with
      | none => simp [hp] at hm
      | some mp =>
        simp only [hp] at hm
        cases mp with
        | leaf cap is => simp at hm
        | inner is cs =>
          simp only [nodeAt?_inner_cons] at hm
          cases hc : cs[c]? with
          | none => simp [hc] at hm
          | some ch =>
            simp only [hc, nodeAt?_nil] at hm
            have hcl := lt_of_getElem? hc
            have hmm : ch = m := Option.some.inj hm
            -- lengths: the child index is at most the count of a well-shaped node; we only need `c ≤ cs.length`
            have hlen := (hb.nodeAt hp).1.inner_len
            obtain ⟨m', e1, e2, e3, e4, suffix, e5⟩ := ih c (inner is cs) hp (by
              simp only [Node.count]; omega)
            refine ⟨m', e1, e2, ?_, e4, suffix ++ [c], by simp [e5]⟩
            rw [e3]
            simp only [slotIdx, List.reverse_cons, hp]
            rw [offsetOf_append n _ rp.reverse [c] hp, offsetOf_inner_cons' hc, nodeAt?_append, hp]
            simp only [nodeAt?_inner_cons, hc, nodeAt?_nil, offsetOf_nil]
            cases ch <;> simp
    · rename_i hk0
      exact ⟨m, hm, hk, rfl, fun _ => by omega, [], by simp⟩

/-! ### the two sides of `pvRemoveRange` inside the common parent -/

theorem preOf_succ (cs : List (Node α)) (is : List α) (a : Nat) (c : Node α) (x : α) (hc : cs[a]? = some c)
    (hx : is[a]? = some x) : preOf cs is (a + 1) = preOf cs is a ++ toList c ++ [x] := by
  induction cs generalizing is a with
  | nil => simp at hc
  | cons c0 cs ih =>
    cases is with
    | nil => simp at hx
    | cons s is' =>
      cases a with
      | zero => simp at hc hx; subst hc; subst hx; simp [preOf]
      | succ k =>
        have := ih is' k (by simpa using hc) (by simpa using hx)
        simp only [preOf] at this ⊢
        simp only [List.take_succ_cons, inter_cons_cons, this]
        simp

theorem preOf_eq_take (cs : List (Node α)) (is : List α) (k : Nat) (hk : k ≤ is.length)
    (hlen : cs.length = is.length + 1) :
    preOf cs is k = (inter cs is).take (((cs.take k).map (fun c => size c)).sum + k) := by
  obtain ⟨c, hc⟩ := getElem?_of_lt (l := cs) (i := k) (by omega)
  rw [inter_split cs is k c hc hlen, ← preOf_length cs is k hk hlen, List.append_assoc, List.take_left']
  rfl

theorem normLeaf_prefix (n : Node α) (p : List Nat) (i : Nat) :
    ∃ sfx, (normLeaf n ⟨p, i⟩).path = p ++ sfx ∧
      (∀ is cs, nodeAt? n p = some (inner is cs) → (∃ ch, cs[i]? = some ch) → ∃ s', sfx = i :: s') := by
  unfold normLeaf
  cases hm : nodeAt? n p with
  | none => exact ⟨[], by simp, fun _ _ h => by cases h⟩
  | some m =>
    cases m with
    | leaf cap is => exact ⟨[], by simp, fun _ _ h => by cases h⟩
    | inner is cs =>
      simp only
      cases hc : cs[i]? with
      | none => exact ⟨[], by simp, fun is' cs' h ⟨ch, hch⟩ => by cases h; rw [hc] at hch; cases hch⟩
      | some ch => exact ⟨i :: (rightPath ch).path, by simp, fun _ _ _ _ => ⟨_, rfl⟩⟩

/-- the left side: what it leaves in front of the removed range is exactly the first `i` elements -/
theorem rangeLeft_spec {dm : Nat} (items : List α) (cs : List (Node α)) (hb : Bal (dm+1) (inner items cs))
    (p1 : List Nat) (i1 : Nat) (hv : ValidElem (inner items cs) p1 i1) :
    (rangeLeft items cs p1 i1).1.length = items.length ∧ (rangeLeft items cs p1 i1).2.1.length = cs.length ∧
    (∀ x ∈ (rangeLeft items cs p1 i1).2.1, Bal dm x) ∧
    (∀ maxCap, Caps maxCap (inner items cs) → ∀ x ∈ (rangeLeft items cs p1 i1).2.1, Caps maxCap x) ∧
    (rangeLeft items cs p1 i1).2.2.1 ≤ cs.length ∧
    ((rangeLeft items cs p1 i1).2.2.1 ≤ items.length →
      preOf (rangeLeft items cs p1 i1).2.1 (rangeLeft items cs p1 i1).1 (rangeLeft items cs p1 i1).2.2.1 =
        (inter cs items).take (idxOf (inner items cs) p1 i1)) ∧
    (∀ idx, (rangeLeft items cs p1 i1).2.2.1 ≤ idx → (rangeLeft items cs p1 i1).2.1[idx]? = cs[idx]?) ∧
    (rangeLeft items cs p1 i1).1.drop (rangeLeft items cs p1 i1).2.2.1 = items.drop (rangeLeft items cs p1 i1).2.2.1 ∧
    idxOf (inner items cs) p1 i1 ≤
      ((cs.take (rangeLeft items cs p1 i1).2.2.1).map (fun c => size c)).sum + (rangeLeft items cs p1 i1).2.2.1 ∧
    (idxOf (inner items cs) p1 i1 =
        ((cs.take (rangeLeft items cs p1 i1).2.2.1).map (fun c => size c)).sum + (rangeLeft items cs p1 i1).2.2.1 ∨
      ∃ a, (rangeLeft items cs p1 i1).2.2.1 = a + 1 ∧
        ((cs.take a).map (fun c => size c)).sum + a < idxOf (inner items cs) p1 i1 ∧
        ((∃ q1, p1 = a :: q1) ∨ (p1 = [] ∧ i1 = a))) := by
  have hlen := hb.inner_len
  have hall := hb.inner_child
  obtain ⟨m, hm, hi⟩ := hv
  obtain ⟨hn1, lcap, lits, hn2, hn3⟩ := normLeaf_spec hb p1 i1 hm (Nat.le_of_lt hi)
  obtain ⟨sfx, hsfx, hsfx2⟩ := normLeaf_prefix (inner items cs) p1 i1
  generalize hnl : normLeaf (inner items cs) ⟨p1, i1⟩ = nl at hn1 hn2 hn3 hsfx
  have hslot : slotIdx (inner items cs) nl.path nl.idx = idxOf (inner items cs) p1 i1 := by
    rw [← hn1, idxOf_eq_offset _ _ nl.path nl.idx hn2]; simp [slotIdx, hn2]
  obtain ⟨m', c1, c2, c3, c4, suffix, c5⟩ := climbZero_spec hb nl.path.reverse nl.idx (leaf lcap lits)
    (by simpa using hn2) (by simpa [Node.count] using hn3)
  simp only [List.reverse_reverse] at c3 c5
  rw [hslot] at c3
  unfold rangeLeft
  rw [hnl]
  generalize hcz : climbZero nl.path.reverse nl.idx = cz at c1 c2 c3 c4 c5
  obtain ⟨rq, k⟩ := cz
  simp only at c1 c2 c3 c4 c5 ⊢
  cases hrq : rq.reverse with
  | nil =>
    simp only
    rw [hrq] at c1 c3
    simp only [nodeAt?_nil, Option.some.injEq] at c1
    subst c1
    simp only [Node.count] at c2
    have hi' : idxOf (inner items cs) p1 i1 = ((cs.take k).map (fun c => size c)).sum + k := by
      rw [← c3]; simp [slotIdx]
    refine ⟨trivial, trivial, hall, ?_, by omega, ?_, fun _ _ => trivial, trivial, by omega, Or.inl hi'⟩
    · intro maxCap hc; cases hc; assumption
    · intro hk; rw [hi']; exact preOf_eq_take cs items k hk hlen
  | cons a q =>
    simp only
    rw [hrq] at c1 c3 c5
    have hrne : rq ≠ [] := by intro h; rw [h] at hrq; simp at hrq
    have hkpos := c4 hrne
    simp only [nodeAt?_inner_cons] at c1
    cases hc : cs[a]? with
    | none => simp [hc] at c1
    | some ch =>
      simp only [hc] at c1 ⊢
      have hal := lt_of_getElem? hc
      have hbch := hall ch (List.mem_of_getElem? hc)
      have hve : ValidElem ch q (k - 1) := ⟨m', c1, by omega⟩
      obtain ⟨t1, t2, t3, t4⟩ := truncRight_spec hbch q (k - 1) hve
      have hu := idxOf_lt_size hbch q (k - 1) hve
      -- the index of the predecessor inside the child
      have hidx : idxOf (inner items cs) p1 i1 =
          ((cs.take a).map (fun c => size c)).sum + a + idxOf ch q (k - 1) + 1 := by
        rw [← c3]
        simp only [slotIdx, nodeAt?_inner_cons, hc, c1]
        rw [offsetOf_inner_cons' hc, idxOf_eq_offset ch _ q (k - 1) c1]
        cases m' with
        | leaf cap' is' => simp; omega
        | inner is' cs' =>
          simp only [idxOf_inner_nil]
          have : k - 1 + 1 = k := by omega
          rw [this]; omega
      obtain ⟨x, hx⟩ := getElem?_of_lt (l := toList ch) (i := idxOf ch q (k - 1)) (by simpa [size] using hu)
      rw [hx] at t1
      generalize htr : truncRight ch q (k - 1) = tr at t1 t2 t3 t4
      obtain ⟨ch', ox⟩ := tr
      simp only at t1 t2 t3 t4
      subst t1
      simp only
      -- where `a` comes from
      have horigin : (∃ q1, p1 = a :: q1) ∨ (p1 = [] ∧ i1 = a) := by
        rw [hsfx] at c5
        cases p1 with
        | nil =>
          right
          simp at hm; subst hm
          simp only [Node.count] at hi
          obtain ⟨ch0, hch0⟩ := getElem?_of_lt (l := cs) (i := i1) (by omega)
          obtain ⟨s', hs'⟩ := hsfx2 items cs (by simp) ⟨ch0, hch0⟩
          rw [hs'] at c5
          simp at c5
          exact ⟨rfl, c5.1⟩
        | cons c1' q1 =>
          left
          simp at c5
          exact ⟨q1, by rw [c5.1]⟩
      refine ⟨by simp, by simp, ?_, ?_, by omega, ?_, ?_, ?_, ?_, Or.inr ⟨a, rfl, by omega, horigin⟩⟩
      · intro y hy
        rcases List.mem_or_eq_of_mem_set hy with h | rfl
        · exact hall y h
        · exact t3
      · intro maxCap hcaps y hy
        cases hcaps with
        | inner _ _ h1 h2 =>
          rcases List.mem_or_eq_of_mem_set hy with h | rfl
          · exact h2 y h
          · exact t4 maxCap (h2 ch (List.mem_of_getElem? hc))
      · intro ha
        have hset : (cs.set a ch')[a]? = some ch' := by simp [hal]
        have hsetx : (items.set a x)[a]? = some x := by
          rw [List.getElem?_set_self (by omega)]
        rw [preOf_succ _ _ a ch' x hset hsetx]
        have hp : preOf (cs.set a ch') (items.set a x) a = preOf cs items a := by
          simp [preOf, List.take_set_of_le]
        rw [hp, t2, hidx, inter_split cs items a ch hc hlen]
        have hpl := preOf_length cs items a (by omega) hlen
        have : ((cs.take a).map (fun c => size c)).sum + a + idxOf ch q (k - 1) + 1 =
            (preOf cs items a).length + (idxOf ch q (k - 1) + 1) := by omega
        rw [this, take_middle _ _ _ _ (by simp only [size] at hu; omega), List.take_add_one, hx]
        simp
      · intro idx hidx'
        rw [List.getElem?_set_ne (by omega)]
      · rw [List.drop_set_of_lt (by omega)]
      · rw [hidx, sum_take_succ cs a ch hc]; omega

theorem inter_prefix (cs1 cs2 : List (Node α)) (is1 is2 : List α) (h : cs1.length = is1.length) :
    inter (cs1 ++ cs2) (is1 ++ is2) = inter cs1 is1 ++ inter cs2 is2 := by
  induction cs1 generalizing is1 with
  | nil =>
    have : is1 = [] := by simpa using h.symm
    subst this; simp
  | cons c cs ih =>
    cases is1 with
    | nil => simp at h
    | cons s is' => simp [ih is' (by simpa using h)]

/-- `pvRemoveRange` inside the common parent: the elements `i..j` go away, nothing else changes, and the reported
    `resNode` is a leaf whose first slot has index `i` -/
theorem removeRangeCom_spec {dm : Nat} (items : List α) (cs : List (Node α)) (hb : Bal (dm+1) (inner items cs))
    (p1 : List Nat) (i1 : Nat) (p2 : List Nat) (i2 : Nat) (hv1 : ValidElem (inner items cs) p1 i1)
    (hv2 : ValidElem (inner items cs) p2 i2)
    (hle : idxOf (inner items cs) p1 i1 ≤ idxOf (inner items cs) p2 i2)
    (hdiv : ∀ c1 q1 c2 q2, p1 = c1 :: q1 → p2 = c2 :: q2 → c1 ≠ c2) :
    toList (removeRangeCom items cs p1 i1 p2 i2).1 =
        (inter cs items).take (idxOf (inner items cs) p1 i1) ++ (inter cs items).drop (idxOf (inner items cs) p2 i2 + 1) ∧
    Bal (dm+1) (removeRangeCom items cs p1 i1 p2 i2).1 ∧
    (∃ cap its, nodeAt? (removeRangeCom items cs p1 i1 p2 i2).1 (removeRangeCom items cs p1 i1 p2 i2).2.2 =
        some (leaf cap its)) ∧
    offsetOf (removeRangeCom items cs p1 i1 p2 i2).1 (removeRangeCom items cs p1 i1 p2 i2).2.2 =
        idxOf (inner items cs) p1 i1 ∧
    (∀ maxCap, Caps maxCap (inner items cs) → Caps maxCap (removeRangeCom items cs p1 i1 p2 i2).1) := by
  have hlen := hb.inner_len
  have hall := hb.inner_child
  obtain ⟨l1, l2, l3, l4, l5, l6, l7, l8, l9, l10⟩ := rangeLeft_spec items cs hb p1 i1 hv1
  generalize hL : rangeLeft items cs p1 i1 = L at l1 l2 l3 l4 l5 l6 l7 l8 l9 l10
  obtain ⟨items1, cs1, a', reb⟩ := L
  simp only at l1 l2 l3 l4 l5 l6 l7 l8 l9 l10
  -- the right side: new children `cs2`, first staying index `b'`, and what it leaves behind
  have hright : ∃ cs2 b', rangeRight cs1 p2 i2 = (cs2, b') ∧ cs2.length = cs.length ∧ a' ≤ b' ∧ b' ≤ items.length ∧
      (∀ x ∈ cs2, Bal dm x) ∧ (∀ maxCap, Caps maxCap (inner items cs) → ∀ x ∈ cs2, Caps maxCap x) ∧
      cs2.take a' = cs1.take a' ∧
      inter (cs2.drop b') (items.drop b') = (inter cs items).drop (idxOf (inner items cs) p2 i2 + 1) := by
    obtain ⟨m2, hm2, hi2⟩ := hv2
    cases p2 with
    | nil =>
      simp at hm2; subst hm2
      simp only [Node.count] at hi2
      obtain ⟨c, hc⟩ := getElem?_of_lt (l := cs) (i := i2) (by omega)
      obtain ⟨x, hx⟩ := getElem?_of_lt hi2
      have hj : idxOf (inner items cs) [] i2 = ((cs.take (i2+1)).map (fun c => size c)).sum + i2 := by simp
      have hab : a' ≤ i2 + 1 := by
        apply Decidable.byContradiction; intro hc'
        have h1 := sum_take_mono cs (a := i2 + 1) (b := a') (by omega)
        rcases l10 with h | ⟨a, ha1, ha2, _⟩
        · omega
        · have h2 := sum_take_mono cs (a := i2 + 1) (b := a) (by omega)
          omega
      refine ⟨cs1, i2 + 1, rfl, l2, hab, by omega, l3, l4, rfl, ?_⟩
      have hcs : cs1.drop (i2 + 1) = cs.drop (i2 + 1) := by
        apply List.ext_getElem?
        intro n; rw [List.getElem?_drop, List.getElem?_drop]; exact l7 _ (by omega)
      rw [hcs, hj, sum_take_succ cs i2 c hc, inter_split cs items i2 c hc hlen]
      have hpl := preOf_length cs items i2 (by omega) hlen
      have hd : items.drop i2 = x :: items.drop (i2 + 1) := by
        rw [List.drop_eq_getElem_cons hi2]; congr 1
        rw [List.getElem?_eq_getElem hi2] at hx; exact Option.some.inj hx
      simp only [postOf, hd]
      have : ((cs.take i2).map (fun c => size c)).sum + size c + i2 + 1 = (preOf cs items i2 ++ toList c).length + 1 := by
        rw [List.length_append, hpl]; simp only [size]; omega
      rw [this, List.drop_append, List.drop_of_length_le (Nat.le_succ _)]
      simp
    | cons b q =>
      simp only [nodeAt?_inner_cons] at hm2
      cases hc : cs[b]? with
      | none => simp [hc] at hm2
      | some ch =>
        simp only [hc] at hm2
        have hbl := lt_of_getElem? hc
        have hbch := hall ch (List.mem_of_getElem? hc)
        have hve : ValidElem ch q i2 := ⟨m2, hm2, hi2⟩
        have hv := idxOf_lt_size hbch q i2 hve
        have hj : idxOf (inner items cs) (b :: q) i2 = ((cs.take b).map (fun c => size c)).sum + b + idxOf ch q i2 :=
          idxOf_inner_cons' hc q i2
        have hs := sum_take_succ cs b ch hc
        have hab : a' ≤ b := by
          apply Decidable.byContradiction; intro hc'
          rcases l10 with h | ⟨a, ha1, ha2, horigin⟩
          · have h1 := sum_take_mono cs (a := b + 1) (b := a') (by omega)
            omega
          · by_cases hab' : a = b
            · subst hab'
              rcases horigin with ⟨q1, hq1⟩ | ⟨hp1, hi1⟩
              · exact hdiv a q1 a q hq1 rfl rfl
              · -- begin is item `a` of the common parent, prev(end) lies in child `a` before it
                subst hp1; subst hi1
                simp only [idxOf_inner_nil] at hle
                omega
            · have h2 := sum_take_mono cs (a := b + 1) (b := a) (by omega)
              omega
        have hcs1b : cs1[b]? = some ch := by rw [l7 b hab]; exact hc
        obtain ⟨t1, t2, t3⟩ := truncLeft_spec hbch q i2 hve
        refine ⟨cs1.set b (truncLeft ch q i2), b, by simp [rangeRight, hcs1b], by simp [l2], hab, by omega, ?_, ?_,
          by rw [List.take_set_of_le hab], ?_⟩
        · intro y hy
          rcases List.mem_or_eq_of_mem_set hy with h | rfl
          · exact l3 y h
          · exact t2
        · intro maxCap hcaps y hy
          rcases List.mem_or_eq_of_mem_set hy with h | rfl
          · exact l4 maxCap hcaps y h
          · cases hcaps with
            | inner _ _ _ h2 => exact t3 maxCap (h2 ch (List.mem_of_getElem? hc))
        · have hdrop : (cs1.set b (truncLeft ch q i2)).drop b = truncLeft ch q i2 :: cs.drop (b + 1) := by
            rw [List.drop_eq_getElem_cons (by simp [l2]; omega)]
            simp only [List.getElem_set_self]
            congr 1
            rw [List.drop_set_of_lt (by omega)]
            apply List.ext_getElem?
            intro n; rw [List.getElem?_drop, List.getElem?_drop]; exact l7 _ (by omega)
          rw [hdrop, inter_drop_child cs items b ch _ hc hlen, t1, hj, inter_split cs items b ch hc hlen]
          have hpl := preOf_length cs items b (by omega) hlen
          have : ((cs.take b).map (fun c => size c)).sum + b + idxOf ch q i2 + 1 =
              (preOf cs items b).length + (idxOf ch q i2 + 1) := by omega
          rw [this, drop_middle _ _ _ _ (by simp only [size] at hv; omega)]
  obtain ⟨cs2, b', hR, r1, r2, r3, r4, r5, r6, r7⟩ := hright
  have ha'len : a' ≤ items.length := by omega
  have hpre := l6 ha'len
  have hitems : items1.drop b' = items.drop b' := by
    have : items1.drop b' = (items1.drop a').drop (b' - a') := by rw [List.drop_drop]; congr 1; omega
    rw [this, l8, List.drop_drop]; congr 1; omega
  unfold removeRangeCom
  rw [hL, hR]
  simp only
  have htk1 : (cs2.take a').length = (items1.take a').length := by simp [r1, l1]; omega
  have hnewlen : (cs2.take a' ++ cs2.drop b').length = (items1.take a' ++ items1.drop b').length + 1 := by
    simp [r1, l1]; omega
  have hget : (cs2.take a' ++ cs2.drop b')[a']? = cs2[b']? := by
    rw [List.getElem?_append_right (by simp [r1]; omega)]
    have : a' - (cs2.take a').length = 0 := by simp [r1]; omega
    rw [this, List.getElem?_drop]; simp
  obtain ⟨cb, hcb⟩ := getElem?_of_lt (l := cs2) (i := b') (by omega)
  have hbcb := r4 cb (List.mem_of_getElem? hcb)
  obtain ⟨⟨lcap, lits, hlp1⟩, hlp2⟩ := leftPath_spec hbcb
  have hlp3 : offsetOf cb (leftPath cb) = 0 := by
    have := idxOf_eq_offset cb _ (leftPath cb) 0 hlp1
    rw [hlp2] at this; simp at this; omega
  have hpreEq : inter (cs2.take a') (items1.take a') = (inter cs items).take (idxOf (inner items cs) p1 i1) := by
    rw [r6]; exact hpre
  refine ⟨?_, ?_, ⟨lcap, lits, ?_⟩, ?_, ?_⟩
  · rw [toList_inner, inter_prefix _ _ _ _ htk1, hpreEq, hitems, r7]
  · refine Bal.inner dm _ _ hnewlen ?_
    intro y hy
    rcases List.mem_append.mp hy with h | h
    · exact r4 y (List.mem_of_mem_take h)
    · exact r4 y (List.mem_of_mem_drop h)
  · rw [hcb]
    simp only
    rw [nodeAt?_inner_cons' (by rw [hget]; exact hcb)]; exact hlp1
  · rw [hcb]
    simp only
    rw [offsetOf_inner_cons' (by rw [hget]; exact hcb), hlp3]
    have h1 : (cs2.take a' ++ cs2.drop b').take a' = cs2.take a' := by
      rw [List.take_append_of_le_length (by simp [r1]; omega), List.take_take]; simp
    rw [h1]
    -- the number of elements in front of child `a'` is the length of the kept prefix
    have hpl : (inter (cs2.take a') (items1.take a')).length = ((cs2.take a').map (fun c => size c)).sum + a' := by
      have := preOf_length cs2 items1 a' (by omega) (by omega)
      simpa [preOf] using this
    rw [hpreEq] at hpl
    have hil : idxOf (inner items cs) p1 i1 ≤ (inter cs items).length := by
      have := idxOf_lt_size hb p1 i1 hv1
      simp only [size, toList_inner] at this; omega
    rw [List.length_take, Nat.min_eq_left hil] at hpl
    omega
  · intro maxCap hcaps
    have hc2 := r5 maxCap hcaps
    cases hcaps with
    | inner _ _ h1 _ =>
      refine Caps.inner _ _ (by simp [l1]; omega) ?_
      intro y hy
      rcases List.mem_append.mp hy with h | h
      · exact hc2 y (List.mem_of_mem_take h)
      · exact hc2 y (List.mem_of_mem_drop h)

/-! ### `pvGetCommonParent` and the whole `pvRemoveRange` -/

theorem removeRangeAt_spec {d : Nat} {n : Node α} (hb : Bal d n) (p1 : List Nat) (i1 : Nat) (p2 : List Nat) (i2 : Nat)
    (hv1 : ValidElem n p1 i1) (hv2 : ValidElem n p2 i2) (hle : idxOf n p1 i1 ≤ idxOf n p2 i2)
    (hns : ¬ (p1 = p2 ∧ ∃ cap its, nodeAt? n p1 = some (leaf cap its))) :
    toList (removeRangeAt n p1 i1 p2 i2).1 = (toList n).take (idxOf n p1 i1) ++ (toList n).drop (idxOf n p2 i2 + 1) ∧
    Bal d (removeRangeAt n p1 i1 p2 i2).1 ∧
    (∃ cap its, nodeAt? (removeRangeAt n p1 i1 p2 i2).1 (removeRangeAt n p1 i1 p2 i2).2.2 = some (leaf cap its)) ∧
    offsetOf (removeRangeAt n p1 i1 p2 i2).1 (removeRangeAt n p1 i1 p2 i2).2.2 = idxOf n p1 i1 ∧
    (∀ maxCap, Caps maxCap n → Caps maxCap (removeRangeAt n p1 i1 p2 i2).1) := by
  induction p1 generalizing n d p2 with
  | nil =>
    cases n with
    | leaf cap is =>
      exfalso; apply hns
      obtain ⟨m2, hm2, _⟩ := hv2
      cases p2 with
      | nil => exact ⟨rfl, cap, is, by simp⟩
      | cons c q => simp at hm2
    | inner items cs =>
      obtain ⟨d', rfl, hall⟩ := hb.inner_depth
      have : removeRangeAt (inner items cs) [] i1 p2 i2 = removeRangeCom items cs [] i1 p2 i2 := by
        cases p2 <;> simp [removeRangeAt]
      rw [this]
      have := removeRangeCom_spec items cs hb [] i1 p2 i2 hv1 hv2 hle (by intro c1 q1 c2 q2 h; cases h)
      simpa using this
  | cons c1 q1 ih =>
    cases n with
    | leaf cap is => obtain ⟨m1, hm1, _⟩ := hv1; simp at hm1
    | inner items cs =>
      obtain ⟨d', rfl, hall⟩ := hb.inner_depth
      have hlen := hb.inner_len
      cases p2 with
      | nil =>
        have : removeRangeAt (inner items cs) (c1 :: q1) i1 [] i2 = removeRangeCom items cs (c1 :: q1) i1 [] i2 := by
          simp [removeRangeAt]
        rw [this]
        have := removeRangeCom_spec items cs hb (c1 :: q1) i1 [] i2 hv1 hv2 hle
          (by intro _ _ c2 q2 _ h; cases h)
        simpa using this
      | cons c2 q2 =>
        by_cases hcc : c1 = c2
        · subst hcc
          obtain ⟨m1, hm1, hi1⟩ := hv1
          obtain ⟨m2, hm2, hi2⟩ := hv2
          simp only [nodeAt?_inner_cons] at hm1 hm2
          cases hc : cs[c1]? with
          | none => simp [hc] at hm1
          | some ch =>
            simp only [hc] at hm1 hm2
            have hcl := lt_of_getElem? hc
            have hbch := hall ch (List.mem_of_getElem? hc)
            have hve1 : ValidElem ch q1 i1 := ⟨m1, hm1, hi1⟩
            have hve2 : ValidElem ch q2 i2 := ⟨m2, hm2, hi2⟩
            rw [idxOf_inner_cons' hc, idxOf_inner_cons' hc] at hle
            obtain ⟨a1, a2, ⟨lcap, lits, a3⟩, a4, a5⟩ := ih hbch q2 hve1 hve2 (by omega) (by
              intro ⟨he, cap, its, hn⟩
              apply hns
              exact ⟨by rw [he], cap, its, by rw [nodeAt?_inner_cons' hc]; exact hn⟩)
            have hu1 := idxOf_lt_size hbch q1 i1 hve1
            have hu2 := idxOf_lt_size hbch q2 i2 hve2
            have hfun : removeRangeAt (inner items cs) (c1 :: q1) i1 (c1 :: q2) i2 =
                (inner items (cs.set c1 (removeRangeAt ch q1 i1 q2 i2).1),
                 (removeRangeAt ch q1 i1 q2 i2).2.1.map (c1 :: ·), c1 :: (removeRangeAt ch q1 i1 q2 i2).2.2) := by
              simp [removeRangeAt, hc]
            rw [hfun]
            simp only
            have hset : (cs.set c1 (removeRangeAt ch q1 i1 q2 i2).1)[c1]? = some (removeRangeAt ch q1 i1 q2 i2).1 := by
              simp [hcl]
            have hpl := preOf_length cs items c1 (by omega) hlen
            rw [idxOf_inner_cons' hc, idxOf_inner_cons' hc, ← hpl]
            refine ⟨?_, ?_, ⟨lcap, lits, ?_⟩, ?_, ?_⟩
            · rw [toList_inner, toList_inner, inter_set cs items c1 ch _ hc hlen, inter_split cs items c1 ch hc hlen, a1,
                take_middle _ _ _ _ (by simp only [size] at hu1; omega)]
              have : (preOf cs items c1).length + idxOf ch q2 i2 + 1 = (preOf cs items c1).length + (idxOf ch q2 i2 + 1) := by
                omega
              rw [this, drop_middle _ _ _ _ (by simp only [size] at hu2; omega)]
              simp
            · exact Bal.inner d' _ _ (by simpa using hlen) (fun y hy => by
                rcases List.mem_or_eq_of_mem_set hy with h | rfl
                · exact hall y h
                · exact a2)
            · rw [nodeAt?_inner_cons' hset]; exact a3
            · rw [offsetOf_inner_cons' hset, a4, List.take_set_of_le (Nat.le_refl _), hpl]
            · intro maxCap hcaps
              cases hcaps with
              | inner _ _ h1 h2 =>
                exact Caps.inner _ _ h1 (fun y hy => by
                  rcases List.mem_or_eq_of_mem_set hy with h | rfl
                  · exact h2 y h
                  · exact a5 maxCap (h2 ch (List.mem_of_getElem? hc)))
        · have : removeRangeAt (inner items cs) (c1 :: q1) i1 (c2 :: q2) i2 =
              removeRangeCom items cs (c1 :: q1) i1 (c2 :: q2) i2 := by
            simp [removeRangeAt, hcc]
          rw [this]
          have := removeRangeCom_spec items cs hb (c1 :: q1) i1 (c2 :: q2) i2 hv1 hv2 hle
            (by intro a b c e h1 h2; cases h1; cases h2; exact hcc)
          simpa using this

/-- `Remove(begin, end)` below a non-null root for `0 < remCount < mCount`: `b` = begin, `e` = prev(end) -/
theorem removeRange_spec (cfg : Cfg) {d : Nat} {r : Node α} (hb : Bal d r) (b e : Pos)
    (hvb : ValidElem r b.path b.idx) (hve : ValidElem r e.path e.idx)
    (hle : idxOf r b.path b.idx ≤ idxOf r e.path e.idx) :
    toList (removeRange cfg r b e).1 =
        (toList r).take (idxOf r b.path b.idx) ++ (toList r).drop (idxOf r e.path e.idx + 1) ∧
    (∃ d', Bal d' (removeRange cfg r b e).1) ∧
    idxOf (removeRange cfg r b e).1 (removeRange cfg r b e).2.path (removeRange cfg r b e).2.idx = idxOf r b.path b.idx ∧
    ValidPos (removeRange cfg r b e).1 (removeRange cfg r b e).2 ∧
    (Caps cfg.maxCap r → Caps cfg.maxCap (removeRange cfg r b e).1) := by
  -- the general path
  have hgen : (¬ (b.path = e.path ∧ ∃ cap its, nodeAt? r b.path = some (leaf cap its))) →
      toList (removeRangeGen cfg r b e).1 =
          (toList r).take (idxOf r b.path b.idx) ++ (toList r).drop (idxOf r e.path e.idx + 1) ∧
      (∃ d', Bal d' (removeRangeGen cfg r b e).1) ∧
      idxOf (removeRangeGen cfg r b e).1 (removeRangeGen cfg r b e).2.path (removeRangeGen cfg r b e).2.idx =
          idxOf r b.path b.idx ∧
      ValidPos (removeRangeGen cfg r b e).1 (removeRangeGen cfg r b e).2 ∧
      (Caps cfg.maxCap r → Caps cfg.maxCap (removeRangeGen cfg r b e).1) := by
    intro hns
    obtain ⟨a1, a2, ⟨lcap, lits, a3⟩, a4, a5⟩ := removeRangeAt_spec hb b.path b.idx e.path e.idx hvb hve hle hns
    unfold removeRangeGen
    generalize removeRangeAt r b.path b.idx e.path e.idx = R at a1 a2 a3 a4 a5
    obtain ⟨r1, reb, res⟩ := R
    simp only at a1 a2 a3 a4 a5 ⊢
    -- first pass (from rebNode1), if any
    have hfirst : ∃ d2 cap2 its2, toList (rebalanceFrom cfg r1 reb res).1 = toList r1 ∧
        Bal d2 (rebalanceFrom cfg r1 reb res).1 ∧
        nodeAt? (rebalanceFrom cfg r1 reb res).1 (rebalanceFrom cfg r1 reb res).2 = some (leaf cap2 its2) ∧
        offsetOf (rebalanceFrom cfg r1 reb res).1 (rebalanceFrom cfg r1 reb res).2 = offsetOf r1 res ∧
        (Caps cfg.maxCap r1 → Caps cfg.maxCap (rebalanceFrom cfg r1 reb res).1) := by
      cases reb with
      | none => exact ⟨d, lcap, lits, rfl, a2, a3, rfl, fun h => h⟩
      | some rp =>
        obtain ⟨x1, ⟨d2, x2⟩, x3, x4⟩ := rebalance_spec cfg false a2 rp res
        obtain ⟨cap2, its2, y1, _, y3⟩ := x3 lcap lits a3
        exact ⟨d2, cap2, its2, x1, x2, y1, y3, x4⟩
    obtain ⟨d2, cap2, its2, h2, h3, h4, h5, h6⟩ := hfirst
    generalize rebalanceFrom cfg r1 reb res = F at h2 h3 h4 h5 h6
    obtain ⟨r2, res2⟩ := F
    simp only at h2 h3 h4 h5 h6 ⊢
    obtain ⟨f1, f2, f3, f4, f5⟩ := remove_finish cfg false h3 res2 res2 0 cap2 its2 h4 (Nat.zero_le _)
    refine ⟨by rw [f1, h2, a1], f2, by rw [f3, h5, a4]; simp, f4, fun hc => f5 (h6 (a5 _ hc))⟩
  unfold removeRange
  obtain ⟨mb, hmb, hib⟩ := hvb
  cases mb with
  | inner is cs =>
    simp only [hmb]
    exact hgen (by intro ⟨_, cap, its, h⟩; rw [hmb] at h; cases h)
  | leaf cap items =>
    simp only [hmb]
    by_cases hpe : b.path = e.path
    · rw [if_pos hpe]
      obtain ⟨me, hme, hie⟩ := hve
      rw [← hpe, hmb] at hme
      cases hme
      simp only [Node.count] at hib hie
      have hbm := (hb.nodeAt hmb).1
      have hd0 := hbm.leaf_depth
      rw [← hpe] at hle
      rw [idxOf_eq_offset r _ b.path b.idx hmb, idxOf_eq_offset r _ b.path e.idx hmb] at hle
      simp only [idxOf_leaf] at hle
      obtain ⟨pre, post, e1, e2, e3, e4, e5, e6, e7⟩ := modifyAt_spec hb b.path hmb (cutItems b.idx e.idx)
        (by rw [hd0]; exact Bal.leaf _ _)
      simp only [cutItems] at e3 e5 e7
      obtain ⟨f1, f2, f3, f4, f5⟩ := remove_finish cfg true e4 b.path b.path b.idx cap
        (items.take b.idx ++ items.drop (e.idx + 1)) e5 (by simp; omega)
      refine ⟨?_, f2, ?_, f4, ?_⟩
      · rw [f1, e3, e1, ← hpe, idxOf_eq_offset r _ b.path b.idx hmb, idxOf_eq_offset r _ b.path e.idx hmb, ← e2]
        simp only [toList_leaf, idxOf_leaf]
        rw [take_middle _ _ _ _ (by omega)]
        have : pre.length + e.idx + 1 = pre.length + (e.idx + 1) := by omega
        rw [this, drop_middle _ _ _ _ (by omega)]
        simp
      · rw [f3, e6, idxOf_eq_offset r _ b.path b.idx hmb]; simp
      · intro hcaps
        apply f5
        apply e7 _ hcaps
        have hcm := capsAt hcaps b.path hmb
        cases hcm with
        | leaf _ _ h1 h2 => exact Caps.leaf _ _ (by simp; omega) h2
    · rw [if_neg hpe]
      exact hgen (by intro ⟨h, _⟩; exact hpe h)

/-! ### `Remove(begin, end)` and `Remove(key)` on the container -/

theorem tree_removeRange_spec (cfg : Cfg) (t : Tree α) (hw : t.WF cfg) (b e : Pos) (hvb : t.ValidPos b)
    (hve : t.ValidPos e) (hle : t.idxOf b ≤ t.idxOf e) :
    (Tree.removeRange cfg t b e (t.idxOf e - t.idxOf b)).1.toList =
        t.toList.take (t.idxOf b) ++ t.toList.drop (t.idxOf e) ∧
    (Tree.removeRange cfg t b e (t.idxOf e - t.idxOf b)).1.WF cfg ∧
    (Tree.removeRange cfg t b e (t.idxOf e - t.idxOf b)).1.idxOf (Tree.removeRange cfg t b e (t.idxOf e - t.idxOf b)).2 =
        t.idxOf b ∧
    (Tree.removeRange cfg t b e (t.idxOf e - t.idxOf b)).1.ValidPos (Tree.removeRange cfg t b e (t.idxOf e - t.idxOf b)).2 := by
  have hble := validPos_idx_le_len cfg t hw b hvb
  have hele := validPos_idx_le_len cfg t hw e hve
  unfold Tree.removeRange
  cases hr : t.root with
  | none =>
    have hl : t.toList = [] := by simp [Tree.toList, hr]
    have hb0 : t.idxOf b = 0 := by simp [Tree.idxOf, hr]
    simp only
    exact ⟨by rw [hl]; simp, hw, by rw [hb0]; simp [Tree.idxOf, hr], by simp [Tree.ValidPos, hr]⟩
  | some r =>
    simp only
    by_cases h0 : t.idxOf e - t.idxOf b = 0
    · rw [if_pos h0]
      have : t.idxOf e = t.idxOf b := by omega
      exact ⟨by rw [this]; simp, hw, this, hve⟩
    · rw [if_neg h0]
      by_cases hall : t.idxOf e - t.idxOf b = t.count
      · rw [if_pos hall]
        have hc := hw.count
        have hb0 : t.idxOf b = 0 := by omega
        have he0 : t.idxOf e = t.toList.length := by omega
        refine ⟨by rw [hb0, he0]; simp [Tree.toList], Tree.wf_empty cfg, by rw [hb0]; simp [Tree.idxOf],
          by simp [Tree.ValidPos]⟩
      · rw [if_neg hall]
        obtain ⟨d, hb⟩ := hw.bal r hr
        obtain ⟨p1, p2⟩ := tree_prev_spec cfg t hw e hve (by omega)
        have hvbe := validElem_of_idx_lt cfg t hw b hvb (by omega)
        unfold Tree.ValidElem at p2 hvbe
        unfold Tree.idxOf at p1 hle hble hele h0 hall ⊢
        unfold Tree.prev at p1 p2 ⊢
        unfold Tree.toList at hble hele ⊢
        simp only [hr] at p1 p2 hvbe hle hble hele h0 hall ⊢
        obtain ⟨a1, a2, a3, a4, a5⟩ := removeRange_spec cfg hb b (Node.prev r e) hvbe p2 (by omega)
        have hidx : idxOf r (Node.prev r e).path (Node.prev r e).idx + 1 = idxOf r e.path e.idx := p1
        refine ⟨by rw [a1, hidx], ⟨?_, ?_, ?_⟩, a3, a4⟩
        · simp only [Tree.toList, a1, hidx, List.length_append, List.length_take, List.length_drop]
          have hc := hw.count
          simp only [Tree.toList, hr] at hc
          omega
        · intro r' h; cases h; exact a2
        · intro r' h; cases h; exact a5 (hw.caps r hr)

theorem filter_eq_take_drop (p : α → Bool) (l : List α) (a b : Nat) (hab : a ≤ b) (hb : b ≤ l.length)
    (h1 : ∀ j y, j < a → l[j]? = some y → p y = true)
    (h2 : ∀ j y, a ≤ j → j < b → l[j]? = some y → p y = false)
    (h3 : ∀ j y, b ≤ j → l[j]? = some y → p y = true) : l.filter p = l.take a ++ l.drop b := by
  induction l generalizing a b with
  | nil => simp
  | cons x xs ih =>
    cases b with
    | zero =>
      have : a = 0 := by omega
      subst this
      simp only [List.take_zero, List.drop_zero, List.nil_append]
      apply List.filter_eq_self.mpr
      intro y hy
      obtain ⟨j, hj⟩ := List.getElem?_of_mem hy
      exact h3 j y (Nat.zero_le _) hj
    | succ b' =>
      cases a with
      | zero =>
        have hx := h2 0 x (Nat.le_refl _) (by omega) (by simp)
        simp only [List.filter_cons, hx, Bool.false_eq_true, if_false, List.take_zero, List.nil_append,
          List.drop_succ_cons]
        have := ih 0 b' (Nat.zero_le _) (by simpa using hb) (fun j y hj _ => by omega)
          (fun j y hj1 hj2 hy => h2 (j+1) y (by omega) (by omega) (by simpa using hy))
          (fun j y hj hy => h3 (j+1) y (by omega) (by simpa using hy))
        simpa using this
      | succ a' =>
        have hx := h1 0 x (by omega) (by simp)
        simp only [List.filter_cons, hx, if_true, List.take_succ_cons, List.drop_succ_cons, List.cons_append]
        congr 1
        exact ih a' b' (by omega) (by simpa using hb)
          (fun j y hj hy => h1 (j+1) y (by omega) (by simpa using hy))
          (fun j y hj1 hj2 hy => h2 (j+1) y (by omega) (by omega) (by simpa using hy))
          (fun j y hj hy => h3 (j+1) y (by omega) (by simpa using hy))

section removeKey
variable (lt : α → α → Bool)

/-- on a sorted sequence the elements equivalent to `k` are exactly those between the bounds -/
theorem filter_not_equiv (ho : Order lt) (l : List α) (k : α) (hs : l.Pairwise (fun a b => lt b a = false)) :
    l.filter (fun y => !equiv lt y k) = l.take (lowerIdx lt l k) ++ l.drop (upperIdx lt l k) := by
  obtain ⟨l1, l2, l3⟩ := lowerIdx_facts lt ho l k hs
  obtain ⟨u1, u2, u3⟩ := upperIdx_facts lt ho l k hs
  apply filter_eq_take_drop _ l _ _ (lowerIdx_le_upperIdx lt ho l k hs) u1
  · intro j y hj hy
    simp [equiv, l2 j y hj hy]
  · intro j y hj1 hj2 hy
    simp [equiv, l3 j y hj1 hy, u2 j y hj2 hy]
  · intro j y hj hy
    simp [equiv, u3 j y hj hy]

/-- the loop `while (!pvIsGreater(iter2, key)) { ++iter2; ++remCount; }` ends at the upper bound -/
theorem run_spec_upper (ho : Order lt) (cfg : Cfg) (t : Tree α) (hw : t.WF cfg)
    (hs : t.toList.Pairwise (fun a b => lt b a = false)) (k : α) (fuel : Nat) (pos : Pos) (hv : t.ValidPos pos)
    (hj : t.idxOf pos ≤ upperIdx lt t.toList k) (hf : upperIdx lt t.toList k ≤ t.idxOf pos + fuel) :
    t.idxOf (Tree.posAfterRun lt t k fuel pos) = upperIdx lt t.toList k ∧
    t.ValidPos (Tree.posAfterRun lt t k fuel pos) ∧
    Tree.runLen lt t k fuel pos = upperIdx lt t.toList k - t.idxOf pos := by
  obtain ⟨u1, u2, u3⟩ := upperIdx_facts lt ho t.toList k hs
  induction fuel generalizing pos with
  | zero => simp only [Tree.posAfterRun, Tree.runLen]; exact ⟨by omega, hv, by omega⟩
  | succ f ih =>
    have hg := isGreater_spec lt t cfg hw pos hv k
    simp only [Tree.posAfterRun, Tree.runLen]
    by_cases hlt : t.idxOf pos < upperIdx lt t.toList k
    · obtain ⟨y, hy⟩ := getElem?_of_lt (l := t.toList) (i := t.idxOf pos) (by omega)
      have := u2 _ y hlt hy
      rw [hy] at hg
      simp only [hg, this, Bool.false_eq_true, if_false]
      have hve := validElem_of_idx_lt cfg t hw pos hv (by omega)
      obtain ⟨n1, n2⟩ := tree_next_spec cfg t hw pos hve
      obtain ⟨i1, i2, i3⟩ := ih (t.next pos) n2 (by omega) (by omega)
      exact ⟨i1, i2, by rw [i3, n1]; omega⟩
    · have he : t.idxOf pos = upperIdx lt t.toList k := by omega
      have : Tree.isGreater lt t pos k = true := by
        rw [hg]
        cases hy : t.toList[t.idxOf pos]? with
        | none => rfl
        | some y => exact u3 _ y (by omega) hy
      simp only [this, if_true]
      exact ⟨he, hv, by omega⟩

/-- `Remove(key)`: the elements equivalent to the key go away, their number is returned -/
theorem tree_removeKey_spec (ho : Order lt) (cfg : Cfg) (t : Tree α) (hw : t.WF cfg)
    (hs : SortedBy lt cfg.multi t.toList) (k : α) :
    (Tree.removeKey lt cfg t k).1.toList = t.toList.filter (fun y => !equiv lt y k) ∧
    (Tree.removeKey lt cfg t k).1.WF cfg ∧
    (Tree.removeKey lt cfg t k).2 = upperIdx lt t.toList k - lowerIdx lt t.toList k := by
  have hsw := hs.weak ho
  obtain ⟨l1, l2⟩ := lowerBound_spec lt ho cfg t hw k hsw
  obtain ⟨f1, f2, f3⟩ := lowerIdx_facts lt ho t.toList k hsw
  obtain ⟨u1, u2, u3⟩ := upperIdx_facts lt ho t.toList k hsw
  have hle := lowerIdx_le_upperIdx lt ho t.toList k hsw
  have hg := isGreater_spec lt t cfg hw _ l2 k
  rw [l1] at hg
  rw [filter_not_equiv lt ho t.toList k hsw]
  unfold Tree.removeKey
  by_cases hgr : Tree.isGreater lt t (Tree.lowerBound lt cfg t k) k = true
  · rw [if_pos hgr]
    -- nothing is equivalent: the bounds coincide
    have hub : upperIdx lt t.toList k = lowerIdx lt t.toList k := by
      apply Nat.le_antisymm _ hle
      apply Decidable.byContradiction; intro hc
      obtain ⟨y, hy⟩ := getElem?_of_lt (l := t.toList) (i := lowerIdx lt t.toList k) (by omega)
      rw [hg, hy] at hgr
      have := u2 _ y (by omega) hy
      simp only at hgr
      rw [this] at hgr; cases hgr
    exact ⟨by rw [hub]; simp, hw, by rw [hub]; simp⟩
  · rw [if_neg hgr]
    have hlt : lowerIdx lt t.toList k < upperIdx lt t.toList k := by
      apply Decidable.byContradiction; intro hc
      apply hgr
      rw [hg]
      cases hy : t.toList[lowerIdx lt t.toList k]? with
      | none => rfl
      | some y => exact u3 _ y (by omega) hy
    cases hm : cfg.multi with
    | false =>
      simp only [Bool.not_false, if_true]
      have hkc := tree_keyCount_spec lt ho cfg t hw hs k
      have hcont : Tree.contains lt cfg t k = true := by
        unfold Tree.contains
        cases h : Tree.isGreater lt t (Tree.lowerBound lt cfg t k) k with
        | false => rfl
        | true => exact absurd h hgr
      unfold Tree.keyCount at hkc
      simp only [hm, Bool.false_eq_true, if_false, hcont, if_true] at hkc
      have hve := validElem_of_idx_lt cfg t hw _ l2 (by rw [l1]; omega)
      obtain ⟨r1, r2, _, _⟩ := tree_remove_spec cfg t hw _ hve
      rw [l1] at r1
      refine ⟨?_, r2, by omega⟩
      rw [r1, List.eraseIdx_eq_take_drop_succ]
      have : upperIdx lt t.toList k = lowerIdx lt t.toList k + 1 := by omega
      rw [this]
    | true =>
      simp only [Bool.not_true, Bool.false_eq_true, if_false]
      have hve := validElem_of_idx_lt cfg t hw _ l2 (by rw [l1]; omega)
      obtain ⟨n1, n2⟩ := tree_next_spec cfg t hw _ hve
      obtain ⟨q1, q2, q3⟩ := run_spec_upper lt ho cfg t hw hsw k t.count _ n2 (by rw [n1, l1]; omega)
        (by rw [n1, l1, hw.count]; omega)
      have hrem : Tree.runLen lt t k t.count (t.next (Tree.lowerBound lt cfg t k)) + 1 =
          t.idxOf (Tree.posAfterRun lt t k t.count (t.next (Tree.lowerBound lt cfg t k))) -
            t.idxOf (Tree.lowerBound lt cfg t k) := by
        rw [q3, q1, n1, l1]; omega
      rw [hrem]
      obtain ⟨a1, a2, _, _⟩ := tree_removeRange_spec cfg t hw _ _ l2 q2 (by rw [q1, l1]; omega)
      refine ⟨by rw [a1, q1, l1], a2, by rw [q1, l1]⟩

end removeKey

end Momo.BTree
