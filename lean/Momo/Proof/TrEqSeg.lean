import Momo.Translated
import Momo.Proof.SegMachine
/-!
  C16: `SegmentedArraySettings<sqrt|cnst>::GetSegItemIndexes / GetIndex / GetItemCount` as translated from the header
  are the machine-level model functions `segItem64 / getIndex64 / itemCount64`.
  The generated definitions (`Momo.Tr.*`, lean/Momo/Translated.lean) are rewritten by tools/translate.py from the current
  headers on every check; a changed function body makes the equalities below fail to elaborate.
-/
namespace Momo.TrEq
open Momo Momo.Seg

/-! ### C16 -/

theorem log2db64_lt (v : Nat) : log2db64 v < 64 := by
  unfold log2db64
  generalize (((smearU64 Extracted.log2Smear64 (UInt64.ofNat v) - (smearU64 Extracted.log2Smear64 (UInt64.ofNat v) >>> 1))
    * UInt64.ofNat Extracted.log2Mul64) >>> UInt64.ofNat Extracted.log2Shift64).toNat = i
  have h : ∀ x ∈ Extracted.log2Tab64, x < 64 := by decide
  unfold tab64
  simp only [Array.getD_eq_getD_getElem?, List.getElem?_toArray]
  cases hi : Extracted.log2Tab64[i]? with
  | none => simp
  | some x => simpa using h x (List.mem_of_getElem? hi)

theorem tr_sqrt_indexToLog (i1 : Nat) : Tr.segSqrt_pvIndexToLogItemCount i1 = sqrtIndexToLog64 i1 := by
  unfold Tr.segSqrt_pvIndexToLogItemCount sqrtIndexToLog64
  have := log2db64_lt i1
  rw [add64_of_lt (by omega)]

theorem tr_sqrt_segToLog (s : Nat) : Tr.segSqrt_pvSegIndexToLogItemCount s = sqrtSegToLog64 s := rfl

theorem tr_sqrt_getSegItemIndexes (L0 index : Nat) :
    Tr.segSqrt_GetSegItemIndexes L0 index = segItem64 .sqrt L0 index := by
  unfold Tr.segSqrt_GetSegItemIndexes segItem64
  simp only [tr_sqrt_indexToLog]
  rfl

theorem tr_sqrt_getIndex (L0 s o : Nat) : Tr.segSqrt_GetIndex L0 s o = getIndex64 .sqrt L0 s o := by
  unfold Tr.segSqrt_GetIndex getIndex64
  simp only [tr_sqrt_segToLog]
  rfl

theorem tr_sqrt_getItemCount (L0 s : Nat) (hL : L0 < 2 ^ 63) : Tr.segSqrt_GetItemCount L0 s = itemCount64 .sqrt L0 s := by
  unfold Tr.segSqrt_GetItemCount itemCount64
  simp only [tr_sqrt_segToLog]
  have : sqrtSegToLog64 s < 64 := log2db64_lt _
  rw [add64_of_lt (by omega)]

theorem tr_cnst_getSegItemIndexes (L0 index : Nat) : Tr.segCnst_GetSegItemIndexes L0 index = segItem64 .cnst L0 index := rfl
theorem tr_cnst_getIndex (L0 s o : Nat) : Tr.segCnst_GetIndex L0 s o = getIndex64 .cnst L0 s o := rfl

end Momo.TrEq
