import Momo.Translated.Wave2Meta
import Momo.Proof.TrEqHashMeta
/-!
  C12: the metadata writes of `BucketLimP4::AddCrt` (details/HashBucketLimP4.h) — the `switch` over `memPoolIndex` that area
  HashMeta had to leave out — as translated case by case (area Wave2Meta, lean/Momo/Translated/Wave2Meta.lean: one fragment per
  `case`, `pvAdd0` / `pvAdd<k>` / the in-place block, composed from the translated `pvSetHashProbe` / `pvCalcShortHash`) are the
  model's `P4.Bucket.addCrt`: every case writes the hash probe of the NEW index first, then the short hash at that index, and a
  grown bucket stores `memPoolIndex + 1`.
  The generated definitions are rewritten by tools/translate.py from the current headers on every check; a changed
  function body makes the equalities below fail to elaborate.
-/
namespace Momo.TrEq
open Momo Momo.Seg Momo.HashMeta

/-- the translated `switch (memPoolIndex)` of `AddCrt` (taken when `count == memPoolIndex`): `case 1`, `case 2`, `default` (asserted
    to be 3), each followed by `pvAdd<k>`, whose metadata part is the same code for every `k` -/
def trLimp4Grow (sh : Nat → Nat) (hc mpi h L p : Nat) : Nat × (Nat → Nat) :=
  match mpi with
  | 1 => Tr.limp4_pvAdd_meta (Tr.limp4_AddCrt_case1 sh true hc h L p) 1 h
  | 2 => Tr.limp4_pvAdd_meta (Tr.limp4_AddCrt_case2 sh true hc h L p) 2 h
  | _ => Tr.limp4_pvAdd_meta (Tr.limp4_AddCrt_case3 sh true hc h L p) 3 h

/-- `AddCrt` as written (all five paths) with `useHashCodePartGetter = true` -/
def trLimp4AddCrt (b : P4.Bucket) (h L p : Nat) : P4.Bucket :=
  if b.nonnull then
    if Tr.limp4_AddCrt_grows b.count b.mpi = true then
      { b with sh := (trLimp4Grow b.sh b.hc b.mpi h L p).2, mpi := (trLimp4Grow b.sh b.hc b.mpi h L p).1 }
    else { b with sh := Tr.limp4_AddCrt_inPlace b.sh true b.hc b.count h L p }
  else { b with sh := Tr.limp4_pvAdd0_meta (Tr.limp4_AddCrt_null b.sh true b.hc h L p) h, nonnull := true }

/-- **`BucketLimP4::AddCrt` as written = the model `P4.Bucket.addCrt`**, for a bucket with room (`count < hashCount`, `4 ≤ hashCount`),
    `logBucketCount ≤ 63`, and — on the growing path `count == memPoolIndex` — `memPoolIndex ∈ {1, 2, 3}` (the assertions
    `0 < count`, `count < maxCount ≤ 4` of the source) -/
theorem tr_limp4_addCrt (b : P4.Bucket) (h L p : Nat) (hL : L ≤ 63) (h4 : 4 ≤ b.hc) (hcnt : b.count < b.hc)
    (hmpi : b.nonnull = true → b.count = b.mpi → 1 ≤ b.mpi ∧ b.mpi ≤ 3) :
    trLimp4AddCrt b h L p = b.addCrt h L p := by
  unfold trLimp4AddCrt P4.Bucket.addCrt
  cases hn : b.nonnull
  · simp only [Bool.false_eq_true, if_false]
    unfold Tr.limp4_pvAdd0_meta Tr.limp4_AddCrt_null
    dsimp only
    rw [tr_limp4_setHashProbe _ _ _ _ _ _ (by omega) hL, tr_limp4_shortHash, upd_eq]
  · simp only [if_true]
    by_cases hg : b.count = b.mpi
    · obtain ⟨h1, h3⟩ := hmpi hn hg
      have hgt : Tr.limp4_AddCrt_grows b.count b.mpi = true := by simp [Tr.limp4_AddCrt_grows, hg]
      rw [if_pos hgt, if_pos hg]
      have hm : b.mpi = 1 ∨ b.mpi = 2 ∨ b.mpi = 3 := by omega
      rw [hg]
      rcases hm with hm | hm | hm <;> rw [hm] <;>
        simp only [trLimp4Grow, Tr.limp4_pvAdd_meta, Tr.limp4_AddCrt_case1, Tr.limp4_AddCrt_case2, Tr.limp4_AddCrt_case3] <;>
        rw [tr_limp4_setHashProbe _ _ _ _ _ _ (by omega) hL, tr_limp4_shortHash, upd_eq] <;> rfl
    · have hgt : ¬ (Tr.limp4_AddCrt_grows b.count b.mpi = true) := by simp [Tr.limp4_AddCrt_grows, hg]
      rw [if_neg hgt, if_neg hg]
      unfold Tr.limp4_AddCrt_inPlace
      dsimp only
      rw [tr_limp4_setHashProbe _ _ _ _ _ _ hcnt hL, tr_limp4_shortHash, upd_eq]

end Momo.TrEq
