import Momo.Proof.VerCore
/-!
  HashSet / HashMap (C15): every entry point either leaves (keys, capacity) of an object unchanged or increments
  the version cell of that object's crew; increments are monotone; a rejected call returns the world unchanged.
  Core Lean only.
-/
namespace Momo.Ver

/-- effect of one call on one object: the crew stays, its cell is incremented `n` times and `n > 0` whenever
    the keys or the capacity changed -/
def HEff (cs : Cells) (s : HSet) (cs' : Cells) (s' : HSet) : Prop :=
  s'.cell = s.cell ∧ ∃ n, cs' = bumpN cs s.cell n ∧ ((s'.keys ≠ s.keys ∨ s'.cap ≠ s.cap) → 0 < n)

/-- quiet effect: additionally no increment when nothing changed -/
def HEffQ (cs : Cells) (s : HSet) (cs' : Cells) (s' : HSet) : Prop :=
  s'.cell = s.cell ∧ ∃ n, cs' = bumpN cs s.cell n ∧ ((s'.keys ≠ s.keys ∨ s'.cap ≠ s.cap) → 0 < n) ∧
    ((s'.keys = s.keys ∧ s'.cap = s.cap) → n = 0)

theorem HEffQ.toEff {cs s cs' s'} (h : HEffQ cs s cs' s') : HEff cs s cs' s' :=
  ⟨h.1, h.2.choose, h.2.choose_spec.1, h.2.choose_spec.2.1⟩

theorem HEffQ.refl (cs : Cells) (s : HSet) : HEffQ cs s cs s :=
  ⟨rfl, 0, (bumpN_zero cs s.cell).symm, by simp, fun _ => rfl⟩

theorem bumpN_bumpN (cs : Cells) (c n m : Nat) : bumpN (bumpN cs c n) c m = bumpN cs c (n + m) := by
  funext i; simp only [bumpN]; split <;> omega

theorem HEff.trans {cs s cs1 s1 cs2 s2} (h1 : HEff cs s cs1 s1) (h2 : HEff cs1 s1 cs2 s2) : HEff cs s cs2 s2 := by
  obtain ⟨hc1, n1, e1, p1⟩ := h1
  obtain ⟨hc2, n2, e2, p2⟩ := h2
  refine ⟨hc2.trans hc1, n1 + n2, ?_, ?_⟩
  · rw [e2, e1, hc1, bumpN_bumpN]
  · intro hne
    by_cases hk : s1.keys ≠ s.keys ∨ s1.cap ≠ s.cap
    · have := p1 hk; omega
    · have hk' : s1.keys = s.keys ∧ s1.cap = s.cap := by
        constructor
        · exact Decidable.byContradiction fun h => hk (Or.inl h)
        · exact Decidable.byContradiction fun h => hk (Or.inr h)
      have : s2.keys ≠ s1.keys ∨ s2.cap ≠ s1.cap := by
        rcases hne with h | h
        · left; rw [hk'.1]; exact h
        · right; rw [hk'.2]; exact h
      have := p2 this; omega

namespace HSet

theorem addNew_eff (s : HSet) (cs : Cells) (k nc : Nat) : HEffQ cs s (s.addNew cs k nc).1 (s.addNew cs k nc).2.1 := by
  refine ⟨rfl, 1, rfl, fun _ => Nat.one_pos, ?_⟩
  intro h
  simp [addNew] at h

theorem insert_eff (s : HSet) (cs : Cells) (k nc : Nat) : HEffQ cs s (s.insert cs k nc).1 (s.insert cs k nc).2.1 := by
  unfold insert
  split
  · exact HEffQ.refl cs s
  · exact addNew_eff s cs k nc

theorem removeKey_eff (s : HSet) (cs : Cells) (k : Nat) : HEff cs s (s.removeKey cs k).1 (s.removeKey cs k).2.1 := by
  unfold removeKey
  split
  · exact ⟨rfl, 1, rfl, fun _ => Nat.one_pos⟩
  · exact (HEffQ.refl cs s).toEff

theorem erase_ne_of_mem {l : List Nat} {k : Nat} (h : k ∈ l) : l.erase k ≠ l := by
  intro e
  have := List.length_erase_of_mem h
  rw [e] at this
  have hp : 0 < l.length := List.length_pos_of_mem h
  omega

theorem removeKey_effQ (s : HSet) (cs : Cells) (k : Nat) : HEffQ cs s (s.removeKey cs k).1 (s.removeKey cs k).2.1 := by
  unfold removeKey
  split
  · rename_i hk
    refine ⟨rfl, 1, rfl, fun _ => Nat.one_pos, ?_⟩
    intro h
    have hm : k ∈ s.keys := by simpa using hk
    exact absurd h.1 (erase_ne_of_mem hm)
  · exact HEffQ.refl cs s

theorem filter_length_add (l : List Nat) (p : Nat → Bool) :
    (l.filter p).length + (l.filter (fun k => !p k)).length = l.length := by
  induction l with
  | nil => rfl
  | cons x xs ih => simp only [List.filter_cons]; cases p x <;> simp <;> omega

theorem filter_ne_of_pos {l : List Nat} {p : Nat → Bool} (h : 0 < (l.filter p).length) :
    l.filter (fun k => !p k) ≠ l := by
  intro e
  have h1 : (l.filter (fun k => !p k)).length = l.length := by rw [e]
  have h2 := filter_length_add l p
  omega

theorem removeIf_effQ (s : HSet) (cs : Cells) (m r : Nat) : HEffQ cs s (s.removeIf cs m r).1 (s.removeIf cs m r).2.1 := by
  refine ⟨rfl, (s.keys.filter (fun k => k % m == r)).length, rfl, ?_, ?_⟩
  · intro h
    simp only [removeIf] at h
    rcases h with h | h
    · apply Nat.pos_of_ne_zero
      intro hz
      apply h
      have : ∀ k ∈ s.keys, (k % m == r) = false := by
        intro k hk
        have := List.length_eq_zero_iff.mp hz
        have hf := List.filter_eq_nil_iff.mp this k hk
        simpa using hf
      apply List.filter_eq_self.mpr
      intro k hk
      simp [this k hk]
    · exact absurd rfl h
  · intro h
    simp only [removeIf] at h
    apply Decidable.byContradiction
    intro hn
    have hp : 0 < (s.keys.filter (fun k => k % m == r)).length := Nat.pos_of_ne_zero hn
    exact filter_ne_of_pos hp h.1

theorem clear_eff (s : HSet) (cs : Cells) (sh : Bool) : HEff cs s (s.clear cs sh).1 (s.clear cs sh).2 := by
  unfold clear
  split
  · exact (HEffQ.refl cs s).toEff
  · exact ⟨rfl, 1, rfl, fun _ => Nat.one_pos⟩

/-- `Clear(true)` is quiet: when it increments, the capacity drops to 0 -/
theorem clear_shrink_effQ (s : HSet) (cs : Cells) : HEffQ cs s (s.clear cs true).1 (s.clear cs true).2 := by
  unfold clear
  split
  · exact HEffQ.refl cs s
  · rename_i h
    refine ⟨rfl, 1, rfl, fun _ => Nat.one_pos, ?_⟩
    intro hh
    simp at hh
    simp at h
    exact absurd hh.2.symm h

theorem reserve_eff (s : HSet) (cs : Cells) (n nc : Nat) : HEff cs s (s.reserve cs n nc).1 (s.reserve cs n nc).2 := by
  unfold reserve
  split
  · exact (HEffQ.refl cs s).toEff
  · exact ⟨rfl, 1, rfl, fun _ => Nat.one_pos⟩

/-- `Reserve` is quiet provided the new capacity really covers the request (`CalcCapacity`'s loop, HashSet.h:698-705) -/
theorem reserve_effQ (s : HSet) (cs : Cells) (n nc : Nat) (hn : n ≤ nc) : HEffQ cs s (s.reserve cs n nc).1 (s.reserve cs n nc).2 := by
  unfold reserve
  split
  · exact HEffQ.refl cs s
  · rename_i h
    refine ⟨rfl, 1, rfl, fun _ => Nat.one_pos, ?_⟩
    intro hh
    simp at hh
    omega

theorem insertRange_eff (ks : List Nat) (nc : Nat) : ∀ (s : HSet) (cs : Cells),
    HEff cs s (s.insertRange cs ks nc).1 (s.insertRange cs ks nc).2 := by
  induction ks with
  | nil => intro s cs; exact (HEffQ.refl cs s).toEff
  | cons k ks ih =>
    intro s cs
    simp only [insertRange, List.foldl_cons]
    exact HEff.trans (insert_eff s cs k nc).toEff (ih _ _)

theorem add_eff {s : HSet} {cs : Cells} {h : HPos} {k nc : Nat} {r} (hr : s.add cs h k nc = some r) : HEffQ cs s r.1 r.2.1 := by
  unfold add at hr
  cases h1 : chk (h.kp.checkAt cs s.cell false) <;> simp [h1] at hr
  cases h2 : chk h.elem.isNone <;> simp [h2] at hr
  subst hr
  exact addNew_eff s cs k nc

theorem addExt_eff {s : HSet} {cs : Cells} {h : HPos} {ef : Bool} {k nc : Nat} {r} (hr : s.addExt cs h ef k nc = some r) :
    HEffQ cs s r.1 r.2.1 := by
  unfold addExt at hr
  cases h1 : chk (h.kp.checkAt cs s.cell false) <;> simp [h1] at hr
  cases h2 : chk h.elem.isNone <;> simp [h2] at hr
  cases h3 : chk ef <;> simp [h3] at hr
  subst hr
  exact addNew_eff s cs k nc

theorem insertExt_eff {s : HSet} {cs : Cells} {ef : Bool} {k nc : Nat} {r} (hr : s.insertExt cs ef k nc = some r) :
    HEffQ cs s r.1 r.2.1 := by
  unfold insertExt at hr
  cases h1 : chk ef <;> simp [h1] at hr
  subst hr
  exact insert_eff s cs k nc

theorem remove_eff {s : HSet} {cs : Cells} {h : HPos} {nx : Option Nat} {r} (hr : s.remove cs h nx = some r) :
    HEff cs s r.1 r.2.1 := by
  unfold remove at hr
  cases h1 : chk (s.cap != 0) <;> simp [h1] at hr
  cases h2 : chk (h.kp.checkAt cs s.cell false) <;> simp [h2] at hr
  cases h3 : h.elem <;> simp [h3] at hr
  subst hr
  exact ⟨rfl, 1, rfl, fun _ => Nat.one_pos⟩

theorem removeExt_eff {s : HSet} {cs : Cells} {h : HPos} {ef : Bool} {nx : Option Nat} {r}
    (hr : s.removeExt cs h ef nx = some r) : HEff cs s r.1 r.2.1 := by
  unfold removeExt at hr
  cases h1 : chk (!ef) <;> simp [h1] at hr
  exact remove_eff hr

theorem resetKey_cell {s : HSet} {cs : Cells} {h : HPos} {k : Nat} {s'} (hr : s.resetKey cs h k = some s') :
    s'.cell = s.cell ∧ s'.cap = s.cap ∧ s'.keys.length = s.keys.length := by
  unfold resetKey at hr
  cases h1 : chk (h.kp.checkAt cs s.cell false) <;> simp [h1] at hr
  cases h3 : h.elem <;> simp [h3] at hr
  subst hr
  simp

theorem mergeTo_eff (cs : Cells) (src dst : HSet) (nc : Nat) :
    (HSet.mergeTo cs src dst nc).2.1.cell = src.cell ∧ (HSet.mergeTo cs src dst nc).2.2.cell = dst.cell ∧
    ∃ n, (HSet.mergeTo cs src dst nc).1 = bumpN (bumpN cs src.cell n) dst.cell n ∧
      (((HSet.mergeTo cs src dst nc).2.1.keys ≠ src.keys ∨ (HSet.mergeTo cs src dst nc).2.1.cap ≠ src.cap ∨
        (HSet.mergeTo cs src dst nc).2.2.keys ≠ dst.keys ∨ (HSet.mergeTo cs src dst nc).2.2.cap ≠ dst.cap) → 0 < n) ∧
      (((HSet.mergeTo cs src dst nc).2.2.keys = dst.keys) → n = 0) := by
  unfold HSet.mergeTo
  simp only
  split
  · refine ⟨rfl, rfl, 0, ?_, by simp, fun _ => rfl⟩
    rw [bumpN_zero, bumpN_zero]
  · rename_i hne
    refine ⟨rfl, rfl, _, rfl, ?_, ?_⟩
    · intro _
      apply Nat.pos_of_ne_zero
      intro hz
      apply hne
      rw [List.length_eq_zero_iff.mp hz]; rfl
    · intro h
      exfalso
      apply hne
      simp only at h
      have hl := congrArg List.length h
      rw [List.length_append, List.length_reverse] at hl
      have hz : (List.filter (fun k => !dst.keys.contains k) src.keys).length = 0 := by omega
      rw [List.length_eq_zero_iff.mp hz]; rfl

end HSet

/-! ### the two-object world -/

namespace HWorld

/-- the two objects have distinct crews -/
def WF (w : HWorld) : Prop := w.a.cell ≠ w.b.cell

/-- keys and capacity of the object whose crew owns cell `c` -/
def shape (w : HWorld) (c : Nat) : Option (List Nat × Nat) :=
  if w.a.cell = c then some (w.a.keys, w.a.cap) else if w.b.cell = c then some (w.b.keys, w.b.cap) else none

theorem obj_cell_ne (w : HWorld) (hw : w.WF) (o : Bool) : (w.obj o).cell ≠ (w.obj (!o)).cell := by
  cases o <;> simp [obj] <;> first | exact hw | exact fun h => hw h.symm

/-- updating object `o` with an `HEff` effect: well-formedness, monotonicity, increment on change -/
theorem setObj_eff (w : HWorld) (hw : w.WF) (o : Bool) {cs' : Cells} {s' : HSet} (he : HEff w.cs (w.obj o) cs' s') :
    (w.setObj o cs' s').WF ∧ (∀ c, w.cs c ≤ (w.setObj o cs' s').cs c) ∧
    (∀ c, (w.setObj o cs' s').shape c ≠ w.shape c → w.cs c < (w.setObj o cs' s').cs c) ∧
    (w.setObj o cs' s').a.cell = w.a.cell ∧ (w.setObj o cs' s').b.cell = w.b.cell := by
  obtain ⟨hc, n, hn, hp⟩ := he
  cases o
  · simp only [obj, Bool.false_eq_true, ↓reduceIte] at hc hn hp
    simp only [setObj, Bool.false_eq_true, ↓reduceIte, WF, hc]
    refine ⟨hw, ?_, ?_, trivial, trivial⟩
    · intro c; rw [hn]; exact le_bumpN _ _ _ _
    · intro c hne
      simp only [shape, hc] at hne
      by_cases hca : w.a.cell = c
      · simp only [hca, ↓reduceIte, ne_eq, Option.some.injEq, Prod.mk.injEq, not_and] at hne
        have : s'.keys ≠ w.a.keys ∨ s'.cap ≠ w.a.cap := by
          by_cases hk : s'.keys = w.a.keys
          · right; exact hne hk
          · left; exact hk
        have hpos := hp this
        rw [hn, ← hca, bumpN_same]; omega
      · simp [hca] at hne
  · simp only [obj, ↓reduceIte] at hc hn hp
    simp only [setObj, ↓reduceIte, WF, hc]
    refine ⟨hw, ?_, ?_, trivial, trivial⟩
    · intro c; rw [hn]; exact le_bumpN _ _ _ _
    · intro c hne
      simp only [shape, hc] at hne
      by_cases hca : w.a.cell = c
      · simp [hca] at hne
      · by_cases hcb : w.b.cell = c
        · simp only [hca, ↓reduceIte, hcb, ne_eq, Option.some.injEq, Prod.mk.injEq, not_and] at hne
          have : s'.keys ≠ w.b.keys ∨ s'.cap ≠ w.b.cap := by
            by_cases hk : s'.keys = w.b.keys
            · right; exact hne hk
            · left; exact hk
          have hpos := hp this
          rw [hn, ← hcb, bumpN_same]; omega
        · simp [hca, hcb] at hne

/-- quiet version: no increment for a cell whose shape did not change -/
theorem setObj_effQ (w : HWorld) (hw : w.WF) (o : Bool) {cs' : Cells} {s' : HSet} (he : HEffQ w.cs (w.obj o) cs' s') :
    ∀ c, (w.setObj o cs' s').shape c = w.shape c → (w.setObj o cs' s').cs c = w.cs c := by
  obtain ⟨hc, n, hn, _, hq⟩ := he
  intro c hs
  cases o
  · simp only [obj, Bool.false_eq_true, ↓reduceIte] at hc hn hq
    simp only [setObj, Bool.false_eq_true, ↓reduceIte] at hs ⊢
    rw [hn]
    by_cases hca : w.a.cell = c
    · simp only [shape, hc, hca, ↓reduceIte, Option.some.injEq, Prod.mk.injEq] at hs
      rw [hq hs, bumpN_zero]
    · exact bumpN_other _ _ (fun h => hca h.symm)
  · simp only [obj, ↓reduceIte] at hc hn hq
    simp only [setObj, ↓reduceIte] at hs ⊢
    rw [hn]
    by_cases hcb : w.b.cell = c
    · have hca : ¬ w.a.cell = c := fun h => hw (h.trans hcb.symm)
      simp only [shape, hc, hca, hcb, ↓reduceIte, Option.some.injEq, Prod.mk.injEq] at hs
      rw [hq hs, bumpN_zero]
    · exact bumpN_other _ _ (fun h => hcb h.symm)

end HWorld

end Momo.Ver

namespace Momo.Ver
namespace HWorld

/-- facts about one step that the history theorems need -/
structure StepFacts (w w' : HWorld) : Prop where
  wf : w'.WF
  mono : ∀ c, w.cs c ≤ w'.cs c
  bump : ∀ c, w'.shape c ≠ w.shape c → w.cs c < w'.cs c

theorem StepFacts.refl (w : HWorld) (hw : w.WF) : StepFacts w w :=
  ⟨hw, fun _ => Nat.le_refl _, fun _ h => absurd rfl h⟩

theorem facts_of_eff (w : HWorld) (hw : w.WF) (o : Bool) {cs' : Cells} {s' : HSet} (he : HEff w.cs (w.obj o) cs' s') :
    StepFacts w (w.setObj o cs' s') :=
  let h := setObj_eff w hw o he
  ⟨h.1, h.2.1, h.2.2.1⟩

theorem shape_swap (w : HWorld) (hw : w.WF) (c : Nat) : ({ w with a := w.b, b := w.a } : HWorld).shape c = w.shape c := by
  simp only [shape]
  by_cases h1 : w.a.cell = c <;> by_cases h2 : w.b.cell = c <;> simp [h1, h2]
  exact absurd (h1.trans h2.symm) hw

theorem setObj_cs (w : HWorld) (o : Bool) (cs' : Cells) (s' : HSet) : (w.setObj o cs' s').cs = cs' := by
  cases o <;> rfl
theorem setObj_obj_same (w : HWorld) (o : Bool) (cs' : Cells) (s' : HSet) : (w.setObj o cs' s').obj o = s' := by
  cases o <;> rfl
theorem setObj_obj_other (w : HWorld) (o : Bool) (cs' : Cells) (s' : HSet) : (w.setObj o cs' s').obj (!o) = w.obj (!o) := by
  cases o <;> rfl

theorem shape_eq_obj (w : HWorld) (hw : w.WF) (o : Bool) (c : Nat) :
    w.shape c = if (w.obj o).cell = c then some ((w.obj o).keys, (w.obj o).cap)
                else if (w.obj (!o)).cell = c then some ((w.obj (!o)).keys, (w.obj (!o)).cap) else none := by
  cases o
  · rfl
  · simp only [shape, obj, ↓reduceIte, Bool.not_true, Bool.false_eq_true]
    by_cases h1 : w.a.cell = c <;> by_cases h2 : w.b.cell = c <;> simp [h1, h2]
    exact absurd (h1.trans h2.symm) hw

theorem WF_of_obj (w : HWorld) (o : Bool) (h : (w.obj o).cell ≠ (w.obj (!o)).cell) : w.WF := by
  cases o
  · exact h
  · exact fun e => h e.symm

/-- MergeTo: both objects are updated -/
theorem facts_mergeTo (w : HWorld) (hw : w.WF) (o : Bool) (nc : Nat) :
    StepFacts w ((w.setObj o (HSet.mergeTo w.cs (w.obj o) (w.obj (!o)) nc).1 (HSet.mergeTo w.cs (w.obj o) (w.obj (!o)) nc).2.1).setObj (!o)
      (HSet.mergeTo w.cs (w.obj o) (w.obj (!o)) nc).1 (HSet.mergeTo w.cs (w.obj o) (w.obj (!o)) nc).2.2) := by
  obtain ⟨hc1, hc2, n, hn, hp, _⟩ := HSet.mergeTo_eff w.cs (w.obj o) (w.obj (!o)) nc
  generalize HSet.mergeTo w.cs (w.obj o) (w.obj (!o)) nc = r at *
  have hne := obj_cell_ne w hw o
  generalize hw' : (w.setObj o r.1 r.2.1).setObj (!o) r.1 r.2.2 = w'
  have ho : w'.obj o = r.2.1 := by
    have := setObj_obj_other (w.setObj o r.1 r.2.1) (!o) r.1 r.2.2
    simp only [Bool.not_not] at this
    rw [← hw', this, setObj_obj_same]
  have ho' : w'.obj (!o) = r.2.2 := by rw [← hw']; exact setObj_obj_same _ _ _ _
  have hcs : w'.cs = r.1 := by rw [← hw']; exact setObj_cs _ _ _ _
  have hwf : w'.WF := by
    apply WF_of_obj w' o
    rw [ho, ho', hc1, hc2]; exact hne
  refine ⟨hwf, ?_, ?_⟩
  · intro c; rw [hcs, hn]
    exact Nat.le_trans (le_bumpN _ _ _ _) (le_bumpN _ _ _ _)
  · intro c hs
    rw [shape_eq_obj w' hwf o, shape_eq_obj w hw o, ho, ho', hc1, hc2] at hs
    rw [hcs, hn]
    by_cases h1 : (w.obj o).cell = c
    · simp only [h1, ↓reduceIte, ne_eq, Option.some.injEq, Prod.mk.injEq, not_and] at hs
      have hpos : 0 < n := by
        apply hp
        by_cases hk : r.2.1.keys = (w.obj o).keys
        · right; left; exact hs hk
        · left; exact hk
      have hc' : c ≠ (w.obj (!o)).cell := fun e => hne (h1.trans e)
      rw [bumpN_other _ _ hc', ← h1, bumpN_same]; omega
    · by_cases h2 : (w.obj (!o)).cell = c
      · simp only [h1, ↓reduceIte, h2, ne_eq, Option.some.injEq, Prod.mk.injEq, not_and] at hs
        have hpos : 0 < n := by
          apply hp
          by_cases hk : r.2.2.keys = (w.obj (!o)).keys
          · right; right; right; exact hs hk
          · right; right; left; exact hk
        rw [← h2, bumpN_same]
        have := le_bumpN w.cs (w.obj o).cell n (w.obj (!o)).cell
        omega
      · simp [h1, h2] at hs

/-- **every entry point** other than ResetKey: well-formedness, monotone counters, increment on every change of
    keys or capacity of any crew -/
theorem step_facts (w : HWorld) (hw : w.WF) (op : HOp) (hnr : ∀ o h k, op ≠ .resetKey o h k) :
    StepFacts w (w.step op).1 := by
  cases op with
  | find o k => exact StepFacts.refl w hw
  | begin_ o f => exact StepFacts.refl w hw
  | end_ o => exact StepFacts.refl w hw
  | makePos o => exact StepFacts.refl w hw
  | deref h => exact StepFacts.refl w hw
  | inc h n => exact StepFacts.refl w hw
  | checkIt o h ae => exact StepFacts.refl w hw
  | insert o k nc => exact facts_of_eff w hw o (HSet.insert_eff _ _ _ _).toEff
  | insertExt o ef k nc =>
    simp only [step]
    split
    · rename_i r hr; exact facts_of_eff w hw o (HSet.insertExt_eff hr).toEff
    · exact StepFacts.refl w hw
  | add o h k nc =>
    simp only [step]
    split
    · rename_i r hr; exact facts_of_eff w hw o (HSet.add_eff hr).toEff
    · exact StepFacts.refl w hw
  | addExt o h ef k nc =>
    simp only [step]
    split
    · rename_i r hr; exact facts_of_eff w hw o (HSet.addExt_eff hr).toEff
    · exact StepFacts.refl w hw
  | remove o h n =>
    simp only [step]
    split
    · rename_i r hr; exact facts_of_eff w hw o (HSet.remove_eff hr)
    · exact StepFacts.refl w hw
  | removeExt o h ef n =>
    simp only [step]
    split
    · rename_i r hr; exact facts_of_eff w hw o (HSet.removeExt_eff hr)
    · exact StepFacts.refl w hw
  | removeKey o k => exact facts_of_eff w hw o (HSet.removeKey_eff _ _ _)
  | removeIf o m r => exact facts_of_eff w hw o (HSet.removeIf_effQ _ _ _ _).toEff
  | resetKey o h k => exact absurd rfl (hnr o h k)
  | clear o sh => exact facts_of_eff w hw o (HSet.clear_eff _ _ _)
  | reserve o n nc => exact facts_of_eff w hw o (HSet.reserve_eff _ _ _ _)
  | insertRange o ks nc => exact facts_of_eff w hw o (HSet.insertRange_eff ks nc _ _)
  | swap =>
    refine ⟨fun e => hw e.symm, fun _ => Nat.le_refl _, ?_⟩
    intro c hs
    exact absurd (shape_swap w hw c) hs
  | mergeTo o nc => exact facts_mergeTo w hw o nc
  | mergeSelf o => exact StepFacts.refl w hw
  | bucketBounds o i bc => exact StepFacts.refl w hw
  | bucketIndex o => exact StepFacts.refl w hw

/-- ResetKey keeps every counter and the crew identities -/
theorem step_resetKey (w : HWorld) (hw : w.WF) (o : Bool) (h : HPos) (k : Nat) :
    (w.step (.resetKey o h k)).1.WF ∧ (w.step (.resetKey o h k)).1.cs = w.cs := by
  simp only [step]
  split
  · rename_i s hs
    have hc := (HSet.resetKey_cell hs).1
    cases o
    · simp only [obj, Bool.false_eq_true, ↓reduceIte] at hc
      simp [setObj, WF, hc]; exact hw
    · simp only [obj, ↓reduceIte] at hc
      simp [setObj, WF, hc]; exact hw
  · exact ⟨hw, rfl⟩

/-- a call that throws returns the world it was given -/
theorem step_reject_unchanged (w : HWorld) (op : HOp) (h : (w.step op).2 = none) : (w.step op).1 = w := by
  cases op <;> simp only [step] at h ⊢ <;> first | rfl | (split at h <;> simp_all) | simp_all

end HWorld
end Momo.Ver

namespace Momo.Ver
namespace HWorld

/-- **decidable rejection table**: a call is accepted (does not throw std::invalid_argument) exactly when the
    version check and the argument checks of the table pass -/
theorem accepts_iff (w : HWorld) (op : HOp) : (w.step op).2.isSome = (op.vcheck w && op.pre w) := by
  cases op with
  | deref h =>
    simp only [step, HOp.vcheck, HOp.pre, HPos.deref, Option.isSome_map]
    cases h.kp.check w.cs <;> simp [chk]
  | inc h n =>
    simp only [step, HOp.vcheck, HOp.pre, HPos.inc, HPos.deref, Option.isSome_map]
    cases h.kp.check w.cs <;> cases h.elem <;> simp [chk]
    cases h.movable <;> cases n <;> simp
  | checkIt o h ae =>
    simp only [step, HOp.vcheck, HOp.pre, HSet.checkIt, Option.isSome_map]
    cases h.kp.checkAt w.cs (w.obj o).cell ae <;> simp [chk]
  | insertExt o ef k nc =>
    simp only [step, HOp.vcheck, HOp.pre, HSet.insertExt]
    cases ef <;> simp [chk]
  | add o h k nc =>
    simp only [step, HOp.vcheck, HOp.pre, HSet.add]
    cases h.kp.checkAt w.cs (w.obj o).cell false <;> cases h.elem <;> simp [chk]
  | addExt o h ef k nc =>
    simp only [step, HOp.vcheck, HOp.pre, HSet.addExt]
    cases h.kp.checkAt w.cs (w.obj o).cell false <;> cases h.elem <;> cases ef <;> simp [chk]
  | remove o h n =>
    simp only [step, HOp.vcheck, HOp.pre, HSet.remove]
    cases h.kp.checkAt w.cs (w.obj o).cell false <;> cases h.elem <;> cases ((w.obj o).cap != 0) <;> simp [chk]
  | removeExt o h ef n =>
    simp only [step, HOp.vcheck, HOp.pre, HSet.removeExt, HSet.remove]
    cases h.kp.checkAt w.cs (w.obj o).cell false <;> cases h.elem <;> cases ef <;> cases ((w.obj o).cap != 0) <;> simp [chk]
  | resetKey o h k =>
    simp only [step, HOp.vcheck, HOp.pre, HSet.resetKey]
    cases h.kp.checkAt w.cs (w.obj o).cell false <;> cases h.elem <;> simp [chk]
  | bucketBounds o i bc =>
    simp only [step, HOp.vcheck, HOp.pre, Option.isSome_map]
    by_cases hi : i < bc <;> simp [chk, hi]
  | bucketIndex o =>
    simp only [step, HOp.vcheck, HOp.pre, Option.isSome_map]
    cases ((w.obj o).cap != 0) <;> simp [chk]
  | _ => simp [step, HOp.vcheck, HOp.pre]


theorem step_eq_of_reject (w : HWorld) (op : HOp) (h : (op.vcheck w && op.pre w) = false) : w.step op = (w, none) := by
  have h1 : (w.step op).2 = none := by
    have := accepts_iff w op
    rw [h] at this
    cases hh : (w.step op).2 with
    | none => rfl
    | some _ => rw [hh] at this; simp at this
  have h2 := step_reject_unchanged w op h1
  exact Prod.ext h2 h1

theorem vcheck_stale (w : HWorld) (op : HOp) (h : HPos) (hh : op.handle = some h) (hs : Stale h.kp w.cs) :
    op.vcheck w = false := by
  cases op <;> simp only [HOp.handle, Option.some.injEq, reduceCtorEq] at hh <;> subst hh <;>
    simp only [HOp.vcheck, hs.check, hs.checkAt]

/-- **stale handle**: every entry point that takes a handle rejects it once the crew's version moved
    (by 1 … 2^64-1 increments) since the handle was made, and the world is unchanged -/
theorem stale_rejected (w : HWorld) (op : HOp) (h : HPos) (hh : op.handle = some h) (hs : Stale h.kp w.cs) :
    w.step op = (w, none) :=
  step_eq_of_reject w op (by rw [vcheck_stale w op h hh hs]; rfl)

/-- **handle of another container**: an entry point of object `o` rejects a handle whose keeper points to a different crew -/
theorem foreign_rejected (w : HWorld) (op : HOp) (h : HPos) (o : Bool) (c' : Nat) (hh : op.handle = some h)
    (ht : op.target = some o) (hc : h.kp.cell = some c') (hne : c' ≠ (w.obj o).cell) : w.step op = (w, none) := by
  apply step_eq_of_reject
  have : op.vcheck w = false := by
    cases op <;> simp only [HOp.handle, HOp.target, Option.some.injEq, reduceCtorEq] at hh ht <;> subst hh <;> subst ht <;>
      simp only [HOp.vcheck, foreign_checkAt hc hne]
  rw [this]; rfl

/-- **default-constructed (end) iterator**: rejected by every entry point except `CheckIterator(iter, allowEmpty = true)` -/
theorem null_rejected (w : HWorld) (op : HOp) (h : HPos) (hh : op.handle = some h) (hc : h.kp.cell = none)
    (hne : ∀ o, op ≠ .checkIt o h true) : w.step op = (w, none) := by
  apply step_eq_of_reject
  have : op.vcheck w = false := by
    cases op with
    | checkIt o h' ae =>
      simp only [HOp.handle, Option.some.injEq] at hh; subst hh
      simp only [HOp.vcheck, null_checkAt w.cs _ _ hc]
      cases ae
      · rfl
      · exact absurd rfl (hne o)
    | deref h' => simp only [HOp.handle, Option.some.injEq] at hh; subst hh; simp only [HOp.vcheck, null_check w.cs hc]
    | inc h' n => simp only [HOp.handle, Option.some.injEq] at hh; subst hh; simp only [HOp.vcheck, null_check w.cs hc]
    | add o h' k nc => simp only [HOp.handle, Option.some.injEq] at hh; subst hh; simp only [HOp.vcheck, null_checkAt w.cs _ _ hc]
    | addExt o h' ef k nc => simp only [HOp.handle, Option.some.injEq] at hh; subst hh; simp only [HOp.vcheck, null_checkAt w.cs _ _ hc]
    | remove o h' n => simp only [HOp.handle, Option.some.injEq] at hh; subst hh; simp only [HOp.vcheck, null_checkAt w.cs _ _ hc]
    | removeExt o h' ef n => simp only [HOp.handle, Option.some.injEq] at hh; subst hh; simp only [HOp.vcheck, null_checkAt w.cs _ _ hc]
    | resetKey o h' k => simp only [HOp.handle, Option.some.injEq] at hh; subst hh; simp only [HOp.vcheck, null_checkAt w.cs _ _ hc]
    | _ => simp [HOp.handle] at hh
  rw [this]; rfl

/-- **no false positive**: a handle whose keeper is a snapshot of the current version of the crew it is used with
    is rejected only by the argument checks of the table -/
theorem fresh_accepted (w : HWorld) (op : HOp) (h : HPos) (hh : op.handle = some h)
    (hk : ∃ c, h.kp = snap w.cs c ∧ ∀ o, op.target = some o → c = (w.obj o).cell) :
    (w.step op).2.isSome = op.pre w := by
  rw [accepts_iff]
  obtain ⟨c, hk, hc⟩ := hk
  have : op.vcheck w = true := by
    cases op with
    | deref h' => simp only [HOp.handle, Option.some.injEq] at hh; subst hh; simp only [HOp.vcheck, hk, snap_check]
    | inc h' n => simp only [HOp.handle, Option.some.injEq] at hh; subst hh; simp only [HOp.vcheck, hk, snap_check]
    | checkIt o h' ae => simp only [HOp.handle, Option.some.injEq] at hh; subst hh; simp only [HOp.vcheck, hk, hc o rfl, snap_checkAt]
    | add o h' k nc => simp only [HOp.handle, Option.some.injEq] at hh; subst hh; simp only [HOp.vcheck, hk, hc o rfl, snap_checkAt]
    | addExt o h' ef k nc => simp only [HOp.handle, Option.some.injEq] at hh; subst hh; simp only [HOp.vcheck, hk, hc o rfl, snap_checkAt]
    | remove o h' n => simp only [HOp.handle, Option.some.injEq] at hh; subst hh; simp only [HOp.vcheck, hk, hc o rfl, snap_checkAt]
    | removeExt o h' ef n => simp only [HOp.handle, Option.some.injEq] at hh; subst hh; simp only [HOp.vcheck, hk, hc o rfl, snap_checkAt]
    | resetKey o h' k => simp only [HOp.handle, Option.some.injEq] at hh; subst hh; simp only [HOp.vcheck, hk, hc o rfl, snap_checkAt]
    | _ => simp [HOp.handle] at hh
  rw [this]; rfl

end HWorld
end Momo.Ver

namespace Momo.Ver

/-! ### quiet entry points: no increment without a change -/

namespace HSet

theorem insert_len (s : HSet) (cs : Cells) (k nc : Nat) :
    s.keys.length ≤ (s.insert cs k nc).2.1.keys.length ∧
    ((s.insert cs k nc).2.1.keys.length = s.keys.length → (s.insert cs k nc).1 = cs ∧ (s.insert cs k nc).2.1 = s) := by
  unfold insert
  split
  · exact ⟨Nat.le_refl _, fun _ => ⟨rfl, rfl⟩⟩
  · simp only [addNew, List.length_cons]
    exact ⟨Nat.le_succ _, fun h => absurd h (by omega)⟩

theorem insertRange_len (ks : List Nat) (nc : Nat) : ∀ (s : HSet) (cs : Cells),
    s.keys.length ≤ (s.insertRange cs ks nc).2.keys.length ∧
    ((s.insertRange cs ks nc).2.keys.length = s.keys.length → s.insertRange cs ks nc = (cs, s)) := by
  induction ks with
  | nil => intro s cs; exact ⟨Nat.le_refl _, fun _ => rfl⟩
  | cons k ks ih =>
    intro s cs
    simp only [insertRange, List.foldl_cons]
    have h1 := insert_len s cs k nc
    have h2 := ih (s.insert cs k nc).2.1 (s.insert cs k nc).1
    simp only [insertRange] at h2
    refine ⟨Nat.le_trans h1.1 h2.1, ?_⟩
    intro he
    have hl : (s.insert cs k nc).2.1.keys.length = s.keys.length := by omega
    have h3 := h1.2 hl
    rw [h2.2 (by omega), h3.1, h3.2]

theorem insertRange_effQ (ks : List Nat) (nc : Nat) (s : HSet) (cs : Cells) :
    HEffQ cs s (s.insertRange cs ks nc).1 (s.insertRange cs ks nc).2 := by
  obtain ⟨hc, n, hn, hp⟩ := insertRange_eff ks nc s cs
  refine ⟨hc, n, hn, hp, ?_⟩
  intro h
  have := (insertRange_len ks nc s cs).2 (by rw [h.1])
  rw [this] at hn
  have := congrFun hn s.cell
  simp only [bumpN_same] at this
  omega

/-- MergeTo moves nothing exactly when either key list is unchanged -/
theorem mergeTo_quiet (cs : Cells) (src dst : HSet) (nc : Nat)
    (h : (HSet.mergeTo cs src dst nc).2.1.keys = src.keys ∨ (HSet.mergeTo cs src dst nc).2.2.keys = dst.keys) :
    (HSet.mergeTo cs src dst nc).1 = cs := by
  unfold HSet.mergeTo at h ⊢
  simp only at h ⊢
  split
  · rfl
  · rename_i hne
    exfalso
    apply hne
    split at h
    · rename_i hh; exact absurd hh hne
    · simp only at h
      rcases h with h | h
      · have h2 := filter_length_add src.keys (fun k => dst.keys.contains k)
        rw [h] at h2
        have hz : (List.filter (fun k => !dst.keys.contains k) src.keys).length = 0 := by omega
        rw [List.length_eq_zero_iff.mp hz]; rfl
      · have hl := congrArg List.length h
        rw [List.length_append, List.length_reverse] at hl
        have hz : (List.filter (fun k => !dst.keys.contains k) src.keys).length = 0 := by omega
        rw [List.length_eq_zero_iff.mp hz]; rfl

end HSet

/-- entry points for which "nothing changed" implies "no version increment".  Excluded: `Clear(false)` (increments although
    an empty table with buckets keeps keys and capacity), `Remove(iter)` / `ResetKey` (always change an element),
    `Reserve` only under the guarantee `capacity ≤ new capacity` of HashSet.h:698-705 -/
def HOp.Quiet : HOp → Prop
  | .clear _ sh => sh = true
  | .reserve _ n nc => n ≤ nc
  | .resetKey _ _ _ => False
  | .remove _ _ _ => False
  | .removeExt _ _ _ _ => False
  | _ => True

namespace HWorld

theorem shape_cs_of_effQ (w : HWorld) (hw : w.WF) (o : Bool) {cs' : Cells} {s' : HSet} (he : HEffQ w.cs (w.obj o) cs' s')
    (c : Nat) (hs : (w.setObj o cs' s').shape c = w.shape c) : (w.setObj o cs' s').cs c = w.cs c :=
  setObj_effQ w hw o he c hs

/-- **no increment without a change** -/
theorem step_quiet (w : HWorld) (hw : w.WF) (op : HOp) (hq : op.Quiet) (c : Nat)
    (hs : (w.step op).1.shape c = w.shape c) : (w.step op).1.cs c = w.cs c := by
  cases op with
  | find o k => rfl
  | begin_ o f => rfl
  | end_ o => rfl
  | makePos o => rfl
  | deref h => rfl
  | inc h n => rfl
  | checkIt o h ae => rfl
  | insert o k nc => exact setObj_effQ w hw o (HSet.insert_eff _ _ _ _) c hs
  | insertExt o ef k nc =>
    simp only [step] at hs ⊢
    split at hs
    · rename_i r hr heq; exact setObj_effQ w hw o (HSet.insertExt_eff heq) c hs
    · rfl
  | add o h k nc =>
    simp only [step] at hs ⊢
    split at hs
    · rename_i r hr heq; exact setObj_effQ w hw o (HSet.add_eff heq) c hs
    · rfl
  | addExt o h ef k nc =>
    simp only [step] at hs ⊢
    split at hs
    · rename_i r hr heq; exact setObj_effQ w hw o (HSet.addExt_eff heq) c hs
    · rfl
  | remove o h n => exact absurd hq (by simp [HOp.Quiet])
  | removeExt o h ef n => exact absurd hq (by simp [HOp.Quiet])
  | removeKey o k => exact setObj_effQ w hw o (HSet.removeKey_effQ _ _ _) c hs
  | removeIf o m r => exact setObj_effQ w hw o (HSet.removeIf_effQ _ _ _ _) c hs
  | resetKey o h k => exact absurd hq (by simp [HOp.Quiet])
  | clear o sh =>
    simp only [HOp.Quiet] at hq; subst hq
    exact setObj_effQ w hw o (HSet.clear_shrink_effQ _ _) c hs
  | reserve o n nc => exact setObj_effQ w hw o (HSet.reserve_effQ _ _ _ _ hq) c hs
  | insertRange o ks nc => exact setObj_effQ w hw o (HSet.insertRange_effQ ks nc _ _) c hs
  | swap => rfl
  | mergeTo o nc =>
    simp only [step] at hs ⊢
    obtain ⟨hc1, hc2, n, hn, _, _⟩ := HSet.mergeTo_eff w.cs (w.obj o) (w.obj (!o)) nc
    have hq' := HSet.mergeTo_quiet w.cs (w.obj o) (w.obj (!o)) nc
    generalize HSet.mergeTo w.cs (w.obj o) (w.obj (!o)) nc = r at *
    have hne := obj_cell_ne w hw o
    generalize hw' : (w.setObj o r.1 r.2.1).setObj (!o) r.1 r.2.2 = w' at *
    have ho : w'.obj o = r.2.1 := by
      have := setObj_obj_other (w.setObj o r.1 r.2.1) (!o) r.1 r.2.2
      simp only [Bool.not_not] at this
      rw [← hw', this, setObj_obj_same]
    have ho' : w'.obj (!o) = r.2.2 := by rw [← hw']; exact setObj_obj_same _ _ _ _
    have hcs : w'.cs = r.1 := by rw [← hw']; exact setObj_cs _ _ _ _
    have hwf : w'.WF := by
      apply WF_of_obj w' o
      rw [ho, ho', hc1, hc2]; exact hne
    rw [shape_eq_obj w' hwf o, shape_eq_obj w hw o, ho, ho', hc1, hc2] at hs
    rw [hcs]
    by_cases h1 : (w.obj o).cell = c
    · simp only [h1, ↓reduceIte, Option.some.injEq, Prod.mk.injEq] at hs
      rw [hq' (Or.inl hs.1)]
    · by_cases h2 : (w.obj (!o)).cell = c
      · simp only [h1, ↓reduceIte, h2, Option.some.injEq, Prod.mk.injEq] at hs
        rw [hq' (Or.inr hs.1)]
      · rw [hn, bumpN_other _ _ (fun e => h2 e.symm), bumpN_other _ _ (fun e => h1 e.symm)]
  | mergeSelf o => rfl
  | bucketBounds o i bc => rfl
  | bucketIndex o => rfl

/-! ### histories -/

/-- run a history of calls -/
def run (w : HWorld) : List HOp → HWorld
  | [] => w
  | op :: ops => run (w.step op).1 ops

theorem step_wf_mono (w : HWorld) (hw : w.WF) (op : HOp) : (w.step op).1.WF ∧ ∀ c, w.cs c ≤ (w.step op).1.cs c := by
  by_cases h : ∃ o h k, op = .resetKey o h k
  · obtain ⟨o, hh, k, rfl⟩ := h
    have := step_resetKey w hw o hh k
    exact ⟨this.1, fun c => by rw [this.2]; exact Nat.le_refl _⟩
  · have := step_facts w hw op (fun o hh k e => h ⟨o, hh, k, e⟩)
    exact ⟨this.wf, this.mono⟩

theorem run_wf_mono (ops : List HOp) : ∀ (w : HWorld), w.WF → (w.run ops).WF ∧ ∀ c, w.cs c ≤ (w.run ops).cs c := by
  induction ops with
  | nil => intro w hw; exact ⟨hw, fun _ => Nat.le_refl _⟩
  | cons op ops ih =>
    intro w hw
    have h1 := step_wf_mono w hw op
    have h2 := ih _ h1.1
    exact ⟨h2.1, fun c => Nat.le_trans (h1.2 c) (h2.2 c)⟩

/-- every call of the history is rejected, or is a quiet entry point that left keys and capacity of crew `c` alone -/
def AllQuiet (c : Nat) : HWorld → List HOp → Prop
  | _, [] => True
  | w, op :: ops => ((w.step op).2 = none ∨ (op.Quiet ∧ (w.step op).1.shape c = w.shape c)) ∧ AllQuiet c (w.step op).1 ops

/-- some call of the history (other than ResetKey) changed keys or capacity of crew `c` -/
def SomeChange (c : Nat) : HWorld → List HOp → Prop
  | _, [] => False
  | w, op :: ops => ((∀ o h k, op ≠ .resetKey o h k) ∧ (w.step op).1.shape c ≠ w.shape c) ∨ SomeChange c (w.step op).1 ops

theorem run_quiet (c : Nat) (ops : List HOp) : ∀ (w : HWorld), w.WF → AllQuiet c w ops → (w.run ops).cs c = w.cs c := by
  induction ops with
  | nil => intro w _ _; rfl
  | cons op ops ih =>
    intro w hw hq
    have h1 := step_wf_mono w hw op
    simp only [run]
    rw [ih _ h1.1 hq.2]
    rcases hq.1 with hr | ⟨hq1, hs⟩
    · rw [step_reject_unchanged w op hr]
    · exact step_quiet w hw op hq1 c hs

theorem run_change (c : Nat) (ops : List HOp) : ∀ (w : HWorld), w.WF → SomeChange c w ops → w.cs c < (w.run ops).cs c := by
  induction ops with
  | nil => intro w _ h; exact absurd h (by simp [SomeChange])
  | cons op ops ih =>
    intro w hw hc
    have h1 := step_wf_mono w hw op
    have h2 := run_wf_mono ops _ h1.1
    simp only [run]
    rcases hc with ⟨hnr, hs⟩ | hc
    · have := (step_facts w hw op hnr).bump c hs
      exact Nat.lt_of_lt_of_le this (h2.2 c)
    · exact Nat.lt_of_le_of_lt (h1.2 c) (ih _ h1.1 hc)

end HWorld
end Momo.Ver

namespace Momo.Ver
namespace HWorld

theorem snap_eq_of_cell_eq {cs cs' : Cells} {c : Nat} (h : cs' c = cs c) : snap cs c = snap cs' c := by
  simp [snap, stored, h]

/-- a handle made in `w0`, used after a history in which some call changed the keys or the capacity of its crew -/
theorem history_stale_rejected (w0 : HWorld) (hw : w0.WF) (ops : List HOp) (c : Nat) (op : HOp) (h : HPos)
    (hh : op.handle = some h) (hk : h.kp = snap w0.cs c) (hc : SomeChange c w0 ops)
    (hlt : (w0.run ops).cs c < w0.cs c + W) : (w0.run ops).step op = (w0.run ops, none) :=
  stale_rejected _ op h hh (hk ▸ snap_stale (run_change c ops w0 hw hc) hlt)

/-- a handle made in `w0`, used after a history of rejected calls and of quiet calls that left its crew's keys and capacity alone -/
theorem history_fresh_accepted (w0 : HWorld) (hw : w0.WF) (ops : List HOp) (c : Nat) (op : HOp) (h : HPos)
    (hh : op.handle = some h) (hk : h.kp = snap w0.cs c) (hq : AllQuiet c w0 ops)
    (ht : ∀ o, op.target = some o → c = ((w0.run ops).obj o).cell) :
    ((w0.run ops).step op).2.isSome = op.pre (w0.run ops) :=
  fresh_accepted _ op h hh ⟨c, hk.trans (snap_eq_of_cell_eq (run_quiet c ops w0 hw hq)), ht⟩

end HWorld
end Momo.Ver
