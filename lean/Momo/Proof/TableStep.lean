import Momo.Proof.TableInit
/-!
  C07, index level: the general step lemmas. `MInv_transform`: what any operation may do to a multi index (every
  group loses some raws, gains raws with its key, new single-raw groups appear) keeps its invariant;
  `UInv_sub`: a unique index restricted to a part of the rows.
-/
namespace Momo.Table
open List

/-! ### generic list facts -/

theorem forall₂_filterMap_mem {α β : Type} {R : α → Option β → Prop} {l : List α} {opts : List (Option β)}
    (h : Forall₂ R l opts) {b : β} (hb : b ∈ opts.filterMap id) : ∃ a ∈ l, R a (some b) := by
  induction h with
  | nil => simp at hb
  | @cons a o l opts hao _ ih =>
    cases o with
    | none =>
      rw [filterMap_cons_none (f := id) rfl] at hb
      obtain ⟨a', ha', hr⟩ := ih hb
      exact ⟨a', mem_cons_of_mem _ ha', hr⟩
    | some b' =>
      rw [filterMap_cons_some (f := id) rfl] at hb
      rcases mem_cons.mp hb with e | e
      · subst e; exact ⟨a, mem_cons_self, hao⟩
      · obtain ⟨a', ha', hr⟩ := ih e
        exact ⟨a', mem_cons_of_mem _ ha', hr⟩

theorem forall₂_filterMap_pairwise {α β : Type} {R : α → Option β → Prop} {P : α → α → Prop} {Q : β → β → Prop}
    (hPQ : ∀ a1 a2 b1 b2, P a1 a2 → R a1 (some b1) → R a2 (some b2) → Q b1 b2)
    {l : List α} {opts : List (Option β)} (h : Forall₂ R l opts) (hp : l.Pairwise P) : (opts.filterMap id).Pairwise Q := by
  induction h with
  | nil => simp
  | @cons a o l opts hao hrest ih =>
    rw [pairwise_cons] at hp
    cases o with
    | none => rw [filterMap_cons_none (f := id) rfl]; exact ih hp.2
    | some b =>
      rw [filterMap_cons_some (f := id) rfl, pairwise_cons]
      refine ⟨?_, ih hp.2⟩
      intro b2 hb2
      obtain ⟨a2, ha2, hr2⟩ := forall₂_filterMap_mem hrest hb2
      exact hPQ a a2 b b2 (hp.1 a2 ha2) hao hr2

theorem forall₂_filterMap_perm {α β γ : Type} {R : α → Option β → Prop} (F : α → List γ) (G : β → List γ)
    (hnone : ∀ a, R a none → F a = []) (hsome : ∀ a b, R a (some b) → (G b).Perm (F a))
    {l : List α} {opts : List (Option β)} (h : Forall₂ R l opts) : ((opts.filterMap id).flatMap G).Perm (l.flatMap F) := by
  induction h with
  | nil => simp
  | @cons a o l opts hao _ ih =>
    cases o with
    | none =>
      rw [filterMap_cons_none (f := id) rfl, flatMap_cons, hnone a hao]; simpa using ih
    | some b =>
      rw [filterMap_cons_some (f := id) rfl, flatMap_cons, flatMap_cons]
      exact Perm.append (hsome a b hao) ih

/-- the relation between a group and what an operation makes of it: `keep` = the raws that stay, `add g` = the raws
    that join; `none` = the key is removed from the multi map -/
def GroupStep (addr : Nat → Nat) (keep : Nat → Bool) (add : Group → List Nat) (g : Group) : Option Group → Prop
  | none => g.members.filter keep = [] ∧ add g = []
  | some g' => g'.members.Perm (g.members.filter keep ++ add g) ∧ SegSorted addr g'.raws ∧ g'.h0 = g.h0

/-- **general step of a multi index**: every group keeps the raws `keep` accepts and gains the raws `add g` (which have
    the key of the group in the new store), new single-raw groups `ex` with keys no old group has are appended, the
    values of the kept raws are the same in the new store: the invariant holds for the new store -/
theorem MInv_transform (acc : Acc) {st st' : Store} {m : MIdx} (hm : MInv acc st m)
    (keep : Nat → Bool) (add : Group → List Nat) (ex : List Group) (opts : List (Option Group))
    (hvals : ∀ x ∈ ids st, keep x = true → valsOf st' x = valsOf st x)
    (hR : Forall₂ (GroupStep (addrOf st') keep add) m.groups opts)
    (hadd : ∀ g ∈ m.groups, ∀ x ∈ add g, keyEq m.cols (valsOf st g.key) (valsOf st' x) = true)
    (hex : ∀ e ∈ ex, e.raws = [] ∧ e.h0 = hashVals acc m.cols (valsOf st' e.key))
    (hexd : ∀ g ∈ m.groups, ∀ e ∈ ex, keyEq m.cols (valsOf st g.key) (valsOf st' e.key) = false)
    (hexp : (ex.map (·.key)).Pairwise (fun k1 k2 => keyEq m.cols (valsOf st' k1) (valsOf st' k2) = false))
    (hperm : (ids st').Perm (m.groups.flatMap (fun g => g.members.filter keep ++ add g) ++ ex.map (·.key))) :
    MInv acc st' { cols := m.cols, groups := opts.filterMap id ++ ex, kAdd := none, kRem := none } := by
  -- every member of a new group has the (old) key of the group it comes from
  have hmemkey : ∀ g ∈ m.groups, ∀ g', GroupStep (addrOf st') keep add g (some g') → ∀ x ∈ g'.members,
      keyEq m.cols (valsOf st g.key) (valsOf st' x) = true := by
    intro g hg g' hstep x hx
    rcases mem_append.mp (hstep.1.mem_iff.mp hx) with h | h
    · obtain ⟨hxg, hk⟩ := mem_filter.mp h
      rw [hvals x (hm.members_sub hg x hxg) hk]
      exact hm.member_key hg hxg
    · exact hadd g hg x h
  have hkeyself : ∀ g' : Group, g'.key ∈ g'.members := fun g' => by simp [Group.members]
  refine ⟨hm.colsNodup, ⟨rfl, rfl⟩, ?_, ?_, ?_, ?_, ?_⟩
  · -- perm
    show ((opts.filterMap id ++ ex).flatMap Group.members).Perm (ids st')
    refine Perm.trans ?_ hperm.symm
    rw [flatMap_append]
    apply Perm.append
    · exact forall₂_filterMap_perm (fun g => g.members.filter keep ++ add g) Group.members
        (fun a ha => by obtain ⟨h1, h2⟩ := ha; rw [h1, h2]; rfl) (fun a b hab => hab.1) hR
    · have : ∀ l : List Group, (∀ e ∈ l, e.raws = []) → l.flatMap Group.members = l.map (·.key) := by
        intro l
        induction l with
        | nil => intro _; rfl
        | cons e es ih =>
          intro h
          rw [flatMap_cons, map_cons, ih (fun e' he' => h e' (mem_cons_of_mem _ he'))]
          simp [Group.members, h e mem_cons_self]
      rw [this ex (fun e he => (hex e he).1)]
  · -- hash
    intro g' hg'
    show g'.h0 = hashVals acc m.cols (valsOf st' g'.key)
    rcases mem_append.mp (show g' ∈ opts.filterMap id ++ ex from hg') with h | h
    · obtain ⟨g, hg, hstep⟩ := forall₂_filterMap_mem hR h
      rw [hstep.2.2, hm.hash g hg]
      exact hashVals_congr acc m.cols _ _ (hmemkey g hg g' hstep _ (hkeyself g'))
    · exact (hex g' h).2
  · -- same
    intro g' hg' x hx
    show keyEq m.cols (valsOf st' g'.key) (valsOf st' x) = true
    rcases mem_append.mp (show g' ∈ opts.filterMap id ++ ex from hg') with h | h
    · obtain ⟨g, hg, hstep⟩ := forall₂_filterMap_mem hR h
      have h1 := hmemkey g hg g' hstep _ (hkeyself g')
      have h2 := hmemkey g hg g' hstep x (by simp [Group.members, hx])
      exact keyEq_trans _ _ _ _ (by rw [keyEq_symm]; exact h1) h2
    · rw [(hex g' h).1] at hx; simp at hx
  · -- distinct
    show ((opts.filterMap id ++ ex).map (·.key)).Pairwise _
    rw [map_append, pairwise_append]
    refine ⟨?_, hexp, ?_⟩
    · rw [pairwise_map]
      have hp : m.groups.Pairwise (fun g1 g2 => g1 ∈ m.groups ∧ g2 ∈ m.groups ∧
          keyEq m.cols (valsOf st g1.key) (valsOf st g2.key) = false) := by
        have := pairwise_map.mp hm.distinct
        exact this.imp_of_mem (fun ha hb hab => ⟨ha, hb, hab⟩)
      refine forall₂_filterMap_pairwise ?_ hR hp
      intro g1 g2 b1 b2 ⟨hg1, hg2, hd⟩ hs1 hs2
      have h1 := hmemkey g1 hg1 b1 hs1 _ (hkeyself b1)
      have h2 := hmemkey g2 hg2 b2 hs2 _ (hkeyself b2)
      -- if the new keys were equal the old ones would be
      by_contra hne
      have hne' : keyEq m.cols (valsOf st' b1.key) (valsOf st' b2.key) = true := by simpa using hne
      have : keyEq m.cols (valsOf st g1.key) (valsOf st g2.key) = true :=
        keyEq_trans _ _ _ _ (keyEq_trans _ _ _ _ h1 hne') (by rw [keyEq_symm]; exact h2)
      rw [hd] at this; exact absurd this (by simp)
    · intro a ha b hb
      obtain ⟨g', hg', rfl⟩ := mem_map.mp ha
      obtain ⟨e, he, rfl⟩ := mem_map.mp hb
      obtain ⟨g, hg, hstep⟩ := forall₂_filterMap_mem hR hg'
      have h1 := hmemkey g hg g' hstep _ (hkeyself g')
      rw [← keyEq_congr_left m.cols _ _ _ h1]
      exact hexd g hg e he
  · -- sorted
    intro g' hg'
    rcases mem_append.mp (show g' ∈ opts.filterMap id ++ ex from hg') with h | h
    · obtain ⟨g, hg, hstep⟩ := forall₂_filterMap_mem hR h
      exact hstep.2.1
    · rw [(hex g' h).1]; intro k hk; simp at hk

end Momo.Table
