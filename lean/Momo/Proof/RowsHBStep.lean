import Momo.Proof.RowsHBClock
/-!
  Lemmas for the row hand-off model (C19), part 8: what one step does to the clocks of the race detector
  (`hbStep_mono`: clocks only grow; `hbStep_last`: a block's last-access epoch changes only when it is accessed).
-/
namespace Momo.Rows

theorem touchAll_spec (hb : HB) (l : List (Tid × Row)) :
    (hb.touchAll l).vc = hb.vc ∧ (hb.touchAll l).headVC = hb.headVC ∧
    (∀ x, (hb.touchAll l).last x = hb.last x ∨ ∃ t, (t, x) ∈ l ∧ (hb.touchAll l).last x = some (t, hb.vc t t)) := by
  match l with
  | [] => exact ⟨rfl, rfl, fun x => Or.inl rfl⟩
  | [(t, r)] =>
    refine ⟨rfl, rfl, fun x => ?_⟩
    by_cases hx : x = r
    · subst hx; exact Or.inr ⟨t, by simp, (touch_spec hb t x).2.2.1⟩
    · exact Or.inl ((touch_spec hb t r).2.2.2 x hx)
  | _ :: _ :: _ => exact ⟨rfl, rfl, fun x => Or.inl rfl⟩

/-- clocks only grow -/
theorem hbStep_mono (s : St) (hb : HB) (a : Act) :
    (∀ t u, hb.vc t u ≤ (hbStep s hb a).vc t u) ∧ (∀ u, hb.headVC u ≤ (hbStep s hb a).headVC u) := by
  have refl : (∀ t u, hb.vc t u ≤ hb.vc t u) ∧ (∀ u, hb.headVC u ≤ hb.headVC u) := ⟨fun _ _ => Nat.le_refl _, fun _ => Nat.le_refl _⟩
  have acq : ∀ t, (∀ t' u, hb.vc t' u ≤ (hb.acquire t).vc t' u) ∧ (∀ u, hb.headVC u ≤ (hb.acquire t).headVC u) :=
    fun t => ⟨(acquire_spec hb t).1, fun u => by rw [(acquire_spec hb t).2.1]; exact Nat.le_refl _⟩
  have rm : ∀ t, (∀ t' u, hb.vc t' u ≤ (hb.rmw t).vc t' u) ∧ (∀ u, hb.headVC u ≤ (hb.rmw t).headVC u) :=
    fun t => ⟨(rmw_spec hb t).1, (rmw_spec hb t).2.1⟩
  have tch : ∀ l, (∀ t u, hb.vc t u ≤ (hb.touchAll l).vc t u) ∧ (∀ u, hb.headVC u ≤ (hb.touchAll l).headVC u) := by
    intro l; rw [(touchAll_spec hb l).1, (touchAll_spec hb l).2.1]; exact refl
  cases a with
  | newBegin => exact acq 0
  | exchange => exact rm 0
  | dLoad t => exact acq t
  | dCas t sp =>
    simp only [hbStep]
    split
    · split
      · exact rm t
      · exact acq t
    · exact refl
  | handoff r t u => exact ⟨(sync_spec hb t u).1, fun x => by rw [show (hbStep s hb (.handoff r t u)).headVC = hb.headVC from (sync_spec hb t u).2.1]; exact Nat.le_refl _⟩
  | grow r g => exact ⟨fun t u => by rw [show (hbStep s hb (.grow r g)).vc = hb.vc from rfl]; exact Nat.le_refl _, fun u => Nat.le_refl _⟩
  | takeBegin => exact tch (accesses s (.takeBegin))
  | walk g => exact tch (accesses s (.walk g))
  | walkEnd => exact tch (accesses s (.walkEnd))
  | alloc r g => exact tch (accesses s (.alloc r g))
  | add r => exact tch (accesses s (.add r))
  | extract i k => exact tch (accesses s (.extract i k))
  | remove i k g => exact tch (accesses s (.remove i k g))
  | dBegin t r => exact tch (accesses s (.dBegin t r))
  | dWrite t => exact tch (accesses s (.dWrite t))

/-- the last-access epoch of a block changes only when the block is accessed (or enters the pool as fresh memory), and
an accessing action leaves all clocks alone -/
theorem hbStep_last (s : St) (hb : HB) (a : Act) (x : Row) :
    (hbStep s hb a).last x = hb.last x ∨
    ∃ t, (hbStep s hb a).last x = some (t, hb.vc t t) ∧ (hbStep s hb a).vc = hb.vc ∧ (hbStep s hb a).headVC = hb.headVC ∧
      ((t, x) ∈ accesses s a ∨ (t = 0 ∧ ∃ g, a = .grow x g)) := by
  have tch : ∀ l, (hb.touchAll l).last x = hb.last x ∨
      ∃ t, (hb.touchAll l).last x = some (t, hb.vc t t) ∧ (hb.touchAll l).vc = hb.vc ∧ (hb.touchAll l).headVC = hb.headVC ∧
        ((t, x) ∈ l ∨ (t = 0 ∧ ∃ g, a = .grow x g)) := by
    intro l
    rcases (touchAll_spec hb l).2.2 x with h | ⟨t, ht, hl⟩
    · exact Or.inl h
    · exact Or.inr ⟨t, hl, (touchAll_spec hb l).1, (touchAll_spec hb l).2.1, Or.inl ht⟩
  cases a with
  | newBegin => exact Or.inl (congrFun (acquire_spec hb 0).2.2.1 x)
  | exchange => exact Or.inl (congrFun (rmw_spec hb 0).2.2.1 x)
  | dLoad t => exact Or.inl (congrFun (acquire_spec hb t).2.2.1 x)
  | dCas t sp =>
    simp only [hbStep]
    split
    · split
      · exact Or.inl (congrFun (rmw_spec hb t).2.2.1 x)
      · exact Or.inl (congrFun (acquire_spec hb t).2.2.1 x)
    · exact Or.inl rfl
  | handoff r t u => exact Or.inl (congrFun (sync_spec hb t u).2.2.1 x)
  | grow r g =>
    by_cases hx : x = r
    · subst hx
      exact Or.inr ⟨0, (touch_spec hb 0 x).2.2.1, rfl, rfl, Or.inr ⟨rfl, g, rfl⟩⟩
    · exact Or.inl ((touch_spec hb 0 r).2.2.2 x hx)
  | takeBegin => exact tch (accesses s (.takeBegin))
  | walk g => exact tch (accesses s (.walk g))
  | walkEnd => exact tch (accesses s (.walkEnd))
  | alloc r g => exact tch (accesses s (.alloc r g))
  | add r => exact tch (accesses s (.add r))
  | extract i k => exact tch (accesses s (.extract i k))
  | remove i k g => exact tch (accesses s (.remove i k g))
  | dBegin t r => exact tch (accesses s (.dBegin t r))
  | dWrite t => exact tch (accesses s (.dWrite t))

end Momo.Rows
