import Momo.Proof.TableIdxFind
import Momo.Proof.TableIdx
/-!
  C07 / F9, bucket level: the invariant of one unique hash index over the refined model and the single-column update
  (`DataIndexes::UpdateRaw(raw, offset, item, assigner)`): what the update leaves behind, depending on which entry
  `PrepareRemove` settled on.
-/
namespace Momo.TIdx
open Momo Momo.HT Momo.Probe
open Momo.Table (Row Store valsOf rowOf keyEq hashVals mixVals Acc)

/-- invariant of one unique hash index with respect to the rows `st` of the table: the hash set is a well-formed table
    (C01 invariant: every entry sits on the probe path of the hash code it was inserted under, within the bound of its
    home bucket), its entries are exactly the rows, every entry was inserted under the hash code of its row's CURRENT
    key, and no two rows have equal keys -/
structure IdxInv (bs : BSpec) (acc : Acc) (st : Store) (u : UH) : Prop where
  tinv : TableInv bs.sp u.hs u.t
  fresh : ∀ it ∈ traverse u.t, it.key < u.next
  raws : ((traverse u.t).map (·.val)).Perm (st.map (·.id))
  ids : (st.map (·.id)).Nodup
  stored : ∀ it ∈ traverse u.t, u.hs it.key = hashVals acc u.cols (valsOf st it.val)
  uniq : ∀ r1 ∈ st, ∀ r2 ∈ st, keyEq u.cols r1.vals r2.vals = true → r1.id = r2.id

/-! ### row store -/

theorem valsOf_mem (st : Store) (hn : (st.map (·.id)).Nodup) (r : Row) (hr : r ∈ st) : valsOf st r.id = r.vals := by
  have : rowOf st r.id = some r := by
    unfold rowOf
    apply find?_unique _ _ _ hr (by simp)
    intro x hx hxe
    exact List.inj_on_of_nodup_map hn hx hr (by simpa using hxe)
  unfold valsOf; rw [this]

theorem valsOf_assignCol (st : Store) (raw col v id : Nat) :
    valsOf (assignCol st raw col v) id = if id = raw then mixVals (valsOf st raw) col v else valsOf st id := by
  unfold valsOf rowOf assignCol
  rw [List.find?_map]
  have hc : ((fun r : Row => r.id == id) ∘ fun r : Row => if r.id = raw then { r with vals := r.vals.set col v } else r) =
      fun r : Row => r.id == id := by
    funext r; simp only [Function.comp]; split <;> rfl
  rw [hc]
  cases hf : st.find? (fun r => r.id == id) with
  | none =>
    simp only [Option.map_none]
    split
    · rename_i he; subst he; rw [hf]; simp [mixVals]
    · rfl
  | some r =>
    have hid : r.id = id := by simpa using List.find?_some hf
    simp only [Option.map_some]
    by_cases he : id = raw
    · subst he; rw [hf]; simp [hid, mixVals]
    · have : ¬ r.id = raw := by rw [hid]; exact he
      simp [this, he]

theorem assignCol_ids (st : Store) (raw col v : Nat) : (assignCol st raw col v).map (·.id) = st.map (·.id) := by
  unfold assignCol
  rw [List.map_map]
  apply List.map_congr_left
  intro r _; simp only [Function.comp]; split <;> rfl

/-! ### the C01 invariant depends on the hash function only through the keys present -/

theorem tableInv_congr (sp : Spec) (hf hf' : Nat → Nat) (t : Table) (hI : TableInv sp hf t)
    (hag : ∀ it ∈ traverse t, hf' it.key = hf it.key) : TableInv sp hf' t := by
  refine ⟨⟨?_, hI.core.nodup, hI.core.count, hI.core.capLe, hI.core.capNil⟩, hI.single⟩
  intro g hg
  have G := hI.core.gens g hg
  refine ⟨G.len, G.size, G.full, ?_, G.enc⟩
  intro i it hit
  have hmem : it ∈ traverse t := (mem_traverse t it).mpr ⟨g, hg, (mem_genItems sp g it).mpr ⟨i, hit⟩⟩
  have : homeOf hf' g it.key = homeOf hf g it.key := by unfold homeOf; rw [hag it hmem]
  rw [this]; exact G.place i it hit

/-! ### entries -/

theorem item_eq_of_key (t : Table) (hnd : ((traverse t).map (·.key)).Nodup) (a b : Item)
    (ha : a ∈ traverse t) (hb : b ∈ traverse t) (h : a.key = b.key) : a = b :=
  List.inj_on_of_nodup_map hnd ha hb h

theorem IdxInv.vals_nodup {bs : BSpec} {acc : Acc} {st : Store} {u : UH} (hI : IdxInv bs acc st u) :
    ((traverse u.t).map (·.val)).Nodup := hI.raws.nodup_iff.mpr hI.ids

theorem IdxInv.entry_of_row {bs : BSpec} {acc : Acc} {st : Store} {u : UH} (hI : IdxInv bs acc st u)
    (id : Nat) (hid : id ∈ st.map (·.id)) : ∃ it ∈ traverse u.t, it.val = id := by
  have := hI.raws.mem_iff.mpr hid
  obtain ⟨it, hit, hv⟩ := List.mem_map.mp this
  exact ⟨it, hit, hv⟩

theorem IdxInv.row_of_entry {bs : BSpec} {acc : Acc} {st : Store} {u : UH} (hI : IdxInv bs acc st u)
    (it : Item) (hit : it ∈ traverse u.t) : ∃ r ∈ st, r.id = it.val := by
  have := hI.raws.mem_iff.mp (List.mem_map.mpr ⟨it, hit, rfl⟩)
  obtain ⟨r, hr, hv⟩ := List.mem_map.mp this
  exact ⟨r, hr, hv⟩

/-- rows with equal keys are the same row, spoken through the store -/
theorem IdxInv.uniq_ids {bs : BSpec} {acc : Acc} {st : Store} {u : UH} (hI : IdxInv bs acc st u)
    (a b : Item) (ha : a ∈ traverse u.t) (hb : b ∈ traverse u.t)
    (h : keyEq u.cols (valsOf st a.val) (valsOf st b.val) = true) : a = b := by
  obtain ⟨r1, hr1, e1⟩ := hI.row_of_entry a ha
  obtain ⟨r2, hr2, e2⟩ := hI.row_of_entry b hb
  rw [← e1, ← e2, valsOf_mem st hI.ids r1 hr1, valsOf_mem st hI.ids r2 hr2] at h
  have := hI.uniq r1 hr1 r2 hr2 h
  exact List.inj_on_of_nodup_map hI.vals_nodup ha hb (by rw [← e1, ← e2, this])

/-- **lookups under the invariant**: the lookup of a hash code / key that exactly one entry `it0` answers to returns the
    position of that entry (the C01 completeness theorem carried over to lookups by row values) -/
theorem findTableP_entry (bs : BSpec) (hs : Nat → Nat) (t : Table) (hT : TableInv bs.sp hs t)
    (it0 : Item) (h0 : it0 ∈ traverse t) (eq : Nat → Bool) (heq0 : eq it0.val = true)
    (hu : ∀ it ∈ traverse t, eq it.val = true → it = it0) :
    ∃ pos, findTableP bs t (hs it0.key) (entPred bs hs (hs it0.key) eq) = some pos ∧
      itemAt bs.sp t pos = some it0 := by
  have hnd := hT.core.nodup
  have hcongr : findTableP bs t (hs it0.key) (entPred bs hs (hs it0.key) eq) =
      findTableP bs t (hs it0.key) (fun it => it.key == it0.key) := by
    apply findTableP_congr
    intro pos _
    unfold holds
    cases hi : itemAt bs.sp t pos with
    | none => rfl
    | some it =>
      simp only
      have hit : it ∈ traverse t := by
        have : holds bs.sp t (fun _ => true) pos = true := by unfold holds; rw [hi]
        obtain ⟨it', h1, _, h3⟩ := holds_item bs.sp t _ pos this
        rw [hi] at h1; cases h1; exact h3
      unfold entPred
      by_cases hk : it.key = it0.key
      · have := item_eq_of_key t hnd it it0 hit h0 hk
        subst this; simp [heq0]
      · have hne : eq it.val = false := by
          cases he : eq it.val with
          | false => rfl
          | true => exact absurd (congrArg Item.key (hu it hit he)) hk
        simp [hne, hk]
  rw [hcongr, findTableP_key bs hs t it0.key hnd]
  have hsome : (findTable bs.sp hs t it0.key).isSome :=
    (findTable_spec bs.sp hs t hT it0.key).mpr (List.mem_map.mpr ⟨it0, h0, rfl⟩)
  cases hf : findTable bs.sp hs t it0.key with
  | none => rw [hf] at hsome; simp at hsome
  | some r =>
    obtain ⟨gi, b, j⟩ := r
    obtain ⟨g, it, hg, hj, hk⟩ := findTable_some bs.sp hs t it0.key gi b j hf
    refine ⟨(gi, b, j), rfl, ?_⟩
    have hit : it ∈ traverse t :=
      (mem_traverse t it).mpr ⟨g, List.mem_of_getElem? hg, (mem_genItems bs.sp g it).mpr ⟨b, List.mem_of_getElem? hj⟩⟩
    have := item_eq_of_key t hnd it it0 hit h0 hk
    subst this
    unfold itemAt; simp only [hg]; exact hj

/-- `Find(Raw*)` of a row of a consistent index returns the position of its entry -/
theorem IdxInv.findRaw_row {bs : BSpec} {acc : Acc} {st : Store} {u : UH} (hI : IdxInv bs acc st u)
    (it0 : Item) (h0 : it0 ∈ traverse u.t) :
    ∃ pos, findRaw bs acc st u it0.val = some pos ∧ itemAt bs.sp u.t pos = some it0 := by
  unfold findRaw
  rw [← hI.stored it0 h0]
  exact findTableP_entry bs u.hs u.t hI.tinv it0 h0 _ (Momo.Table.keyEq_refl _ _)
    (fun it hit he => (hI.uniq_ids it0 it h0 hit he).symm)


/-! ### the single-column update -/

/-- hash code of the raw's key before the update -/
def hOldOf (acc : Acc) (st : Store) (u : UH) (raw : Nat) : Nat := hashVals acc u.cols (valsOf st raw)

/-- hash code of the raw's key after the update (`GetHashCode(HashMixedKey)`) -/
def hNewOf (acc : Acc) (st : Store) (u : UH) (raw col v : Nat) : Nat :=
  hashVals acc u.cols (mixVals (valsOf st raw) col v)

/-- insertion hash codes once `Add(hashMixedKey)` has made the entry `u.next` -/
def hs1Of (acc : Acc) (st : Store) (u : UH) (raw col v : Nat) : Nat → Nat :=
  fun e => if e = u.next then hashVals acc u.cols (mixVals (valsOf st raw) col v) else u.hs e

/-- the hash set as `Add(hashMixedKey)` leaves it (the raw is in it twice) -/
def t1Of (bs : BSpec) (acc : Acc) (st : Store) (u : UH) (raw col v : Nat) (f : Faults) : Table :=
  (add bs.sp (hs1Of acc st u raw col v) u.t ⟨u.next, raw⟩ f).1

/-- the index as `Add(hashMixedKey)` leaves it -/
def u1Of (bs : BSpec) (acc : Acc) (st : Store) (u : UH) (raw col v : Nat) (f : Faults) : UH :=
  { u with t := t1Of bs acc st u raw col v f, hs := hs1Of acc st u raw col v, next := u.next + 1, posAdd := some u.next }

/-- the test `PrepareRemove(raw)` applies to the entries it meets -/
def pred1Of (bs : BSpec) (acc : Acc) (st : Store) (u : UH) (raw col v : Nat) : Item → Bool :=
  entPred bs (hs1Of acc st u raw col v) (hOldOf acc st u raw) (fun id => keyEq u.cols (valsOf st raw) (valsOf st id))

theorem addMixed_added (bs : BSpec) (acc : Acc) (st : Store) (u : UH) (raw col v : Nat) (f : Faults)
    (h : (addMixed bs acc st u raw col v f).2 = .added) :
    findMixed bs acc st u raw col v = none ∧
    (add bs.sp (hs1Of acc st u raw col v) u.t ⟨u.next, raw⟩ f).2 = .ok ∧
    (addMixed bs acc st u raw col v f).1 = u1Of bs acc st u raw col v f := by
  unfold addMixed at h ⊢
  split at h
  · simp at h
  · rename_i hn
    simp only at h
    split at h
    · rename_i hok
      refine ⟨hn, hok, ?_⟩
      simp only
      rw [if_pos hok]; rfl
    · simp at h

theorem updCol_done (bs : BSpec) (acc : Acc) (st : Store) (u : UH) (raw col v : Nat) (f : Faults) (u' : UH) (st' : Store)
    (h : updCol bs acc st u raw col v f = .done u' st') :
    (addMixed bs acc st u raw col v f).2 = .added ∧
    u' = acceptRemove bs (acceptAdd (prepareRemove bs acc st (addMixed bs acc st u raw col v f).1 raw)) ∧
    st' = assignCol st raw col v := by
  unfold updCol at h
  generalize addMixed bs acc st u raw col v f = r at h ⊢
  obtain ⟨u1, res⟩ := r
  cases res with
  | dup id => simp at h
  | fail o => simp at h
  | added =>
    simp only [UpdRes.done.injEq] at h
    exact ⟨rfl, h.1.symm, h.2.symm⟩

theorem itemAt_some (sp : Spec) (t : Table) (gi b j : Nat) (it : Item) (h : itemAt sp t (gi, b, j) = some it) :
    ∃ g, t.gens[gi]? = some g ∧ (bkt sp g.bs b).items[j]? = some it := by
  unfold itemAt at h
  cases hg : t.gens[gi]? with
  | none => simp [hg] at h
  | some g => simp only [hg] at h; exact ⟨g, rfl, h⟩

theorem itemAt_mem (sp : Spec) (t : Table) (pos : Nat × Nat × Nat) (it : Item) (h : itemAt sp t pos = some it) :
    it ∈ traverse t := by
  obtain ⟨gi, b, j⟩ := pos
  obtain ⟨g, hg, hj⟩ := itemAt_some sp t gi b j it h
  exact (mem_traverse t it).mpr ⟨g, List.mem_of_getElem? hg, (mem_genItems sp g it).mpr ⟨b, List.mem_of_getElem? hj⟩⟩

theorem holds_of_itemAt (sp : Spec) (t : Table) (p : Item → Bool) (pos : Nat × Nat × Nat) (it : Item)
    (h : itemAt sp t pos = some it) : holds sp t p pos = p it := by
  unfold holds; rw [h]

section Upd
variable (bs : BSpec) (acc : Acc) (st : Store) (u : UH) (raw col v : Nat) (f : Faults)

/-- after `Add(hashMixedKey)`: a well-formed table with one more entry -/
theorem add_step (ok : SpecOK bs.sp) (hF : FaultsOK bs.sp f) (hI : IdxInv bs acc st u)
    (hok : (add bs.sp (hs1Of acc st u raw col v) u.t ⟨u.next, raw⟩ f).2 = .ok) :
    TableInv bs.sp (hs1Of acc st u raw col v) (t1Of bs acc st u raw col v f) ∧
    (traverse (t1Of bs acc st u raw col v f)).Perm (⟨u.next, raw⟩ :: traverse u.t) := by
  have hag : ∀ it ∈ traverse u.t, hs1Of acc st u raw col v it.key = u.hs it.key := fun it hit => by
    unfold hs1Of; simp [Nat.ne_of_lt (hI.fresh it hit)]
  have hT := tableInv_congr bs.sp u.hs (hs1Of acc st u raw col v) u.t hI.tinv hag
  exact add_ok bs.sp _ ok u.t ⟨u.next, raw⟩ f hT hF (fun x hx => Nat.ne_of_lt (hI.fresh x hx)) hok

/-- `Add(hashMixedKey)` took its "absent" branch: no row has the new key -/
theorem no_dup_key (hI : IdxInv bs acc st u) (hnone : findMixed bs acc st u raw col v = none)
    (r2 : Row) (hr2 : r2 ∈ st) (hk : keyEq u.cols (mixVals (valsOf st raw) col v) r2.vals = true) : False := by
  obtain ⟨it2, hit2, hv2⟩ := hI.entry_of_row r2.id (List.mem_map.mpr ⟨r2, hr2, rfl⟩)
  have hvals : valsOf st it2.val = r2.vals := by rw [hv2]; exact valsOf_mem st hI.ids r2 hr2
  have hh : u.hs it2.key = hashVals acc u.cols (mixVals (valsOf st raw) col v) := by
    rw [hI.stored it2 hit2, hvals]
    exact (Momo.Table.hashVals_congr acc u.cols _ _ hk).symm
  obtain ⟨pos, hpos, _⟩ := findTableP_entry bs u.hs u.t hI.tinv it2 hit2
    (fun id => keyEq u.cols (mixVals (valsOf st raw) col v) (valsOf st id)) (by simp only [hvals]; exact hk)
    (fun it hit he => by
      apply hI.uniq_ids it it2 hit hit2
      rw [hvals]
      exact Momo.Table.keyEq_trans u.cols _ _ _ (by rw [Momo.Table.keyEq_symm]; exact he) hk)
  unfold findMixed at hnone
  rw [hh] at hpos
  rw [hpos] at hnone; cases hnone

/-- which entries pass the test of `PrepareRemove(raw)`: the raw's old entry, and the new one when the short hashes agree -/
theorem pred1_class (hI : IdxInv bs acc st u)
    (hperm : (traverse (t1Of bs acc st u raw col v f)).Perm (⟨u.next, raw⟩ :: traverse u.t))
    (itO : Item) (hO : itO ∈ traverse u.t) (hOv : itO.val = raw)
    (it : Item) (hit : it ∈ traverse (t1Of bs acc st u raw col v f)) :
    pred1Of bs acc st u raw col v it =
      (it.key == itO.key || ((bs.short (hNewOf acc st u raw col v) == bs.short (hOldOf acc st u raw)) && it.key == u.next)) := by
  have hOlt := hI.fresh itO hO
  rcases List.mem_cons.mp (hperm.mem_iff.mp hit) with rfl | hin
  · -- the new entry
    have h1 : ((u.next : Nat) == itO.key) = false := by simp; omega
    unfold pred1Of entPred hs1Of hNewOf hOldOf
    simp [h1, Momo.Table.keyEq_refl]
  · have hlt := hI.fresh it hin
    have hne : (it.key == u.next) = false := by simp; omega
    have hhs : hs1Of acc st u raw col v it.key = u.hs it.key := by unfold hs1Of; simp [Nat.ne_of_lt hlt]
    unfold pred1Of entPred
    rw [hhs, hne]
    by_cases he : it = itO
    · subst he
      rw [hI.stored it hin, hOv]
      simp [hOldOf, Momo.Table.keyEq_refl]
    · have hk : (it.key == itO.key) = false := by
        cases hkk : it.key == itO.key with
        | false => rfl
        | true => exact absurd (item_eq_of_key u.t hI.tinv.core.nodup it itO hin hO (by simpa using hkk)) he
      have hq : keyEq u.cols (valsOf st raw) (valsOf st it.val) = false := by
        cases hqq : keyEq u.cols (valsOf st raw) (valsOf st it.val) with
        | false => rfl
        | true =>
          rw [← hOv] at hqq
          exact absurd (hI.uniq_ids itO it hO hin hqq).symm he
      simp [hk, hq]


/-- `PrepareRemove(raw)` after `Add(hashMixedKey)` always finds an entry of the raw: the old one, or - only when the short
    hashes agree - the one just added -/
theorem prepareRemove_finds (ok : SpecOK bs.sp) (hF : FaultsOK bs.sp f) (hI : IdxInv bs acc st u)
    (hok : (add bs.sp (hs1Of acc st u raw col v) u.t ⟨u.next, raw⟩ f).2 = .ok)
    (itO : Item) (hO : itO ∈ traverse u.t) (hOv : itO.val = raw) :
    ∃ pos it, findRaw bs acc st (u1Of bs acc st u raw col v f) raw = some pos ∧
      itemAt bs.sp (t1Of bs acc st u raw col v f) pos = some it ∧ it.val = raw ∧
      (it = itO ∨ ((bs.short (hNewOf acc st u raw col v) == bs.short (hOldOf acc st u raw)) = true ∧ it = ⟨u.next, raw⟩)) := by
  obtain ⟨hT1, hperm⟩ := add_step bs acc st u raw col v f ok hF hI hok
  have hO1 : itO ∈ traverse (t1Of bs acc st u raw col v f) := hperm.mem_iff.mpr (List.mem_cons_of_mem _ hO)
  have hN1 : (⟨u.next, raw⟩ : Item) ∈ traverse (t1Of bs acc st u raw col v f) := hperm.mem_iff.mpr List.mem_cons_self
  have hhsO : hs1Of acc st u raw col v itO.key = hOldOf acc st u raw := by
    unfold hs1Of hOldOf; simp only [Nat.ne_of_lt (hI.fresh itO hO), if_false]; rw [hI.stored itO hO, hOv]
  have hfr : findRaw bs acc st (u1Of bs acc st u raw col v f) raw =
      findTableP bs (t1Of bs acc st u raw col v f) (hOldOf acc st u raw) (pred1Of bs acc st u raw col v) := rfl
  have hsome : (findTableP bs (t1Of bs acc st u raw col v f) (hOldOf acc st u raw) (pred1Of bs acc st u raw col v)).isSome := by
    apply findTableP_mono bs _ _ (fun it => it.key == itO.key)
    · intro pos _ hh
      obtain ⟨it, hi, hp, hm⟩ := holds_item _ _ _ pos hh
      rw [holds_of_itemAt _ _ _ pos it hi, pred1_class bs acc st u raw col v f hI hperm itO hO hOv it hm]
      simp [hp]
    · rw [← hhsO, findTableP_key bs _ _ itO.key hT1.core.nodup]
      exact (findTable_spec bs.sp _ _ hT1 itO.key).mpr (List.mem_map.mpr ⟨itO, hO1, rfl⟩)
  cases hfp : findTableP bs (t1Of bs acc st u raw col v f) (hOldOf acc st u raw) (pred1Of bs acc st u raw col v) with
  | none => rw [hfp] at hsome; simp at hsome
  | some pos =>
    obtain ⟨hh, _⟩ := findTableP_sound bs _ _ _ pos hfp
    obtain ⟨it, hi, hp, hm⟩ := holds_item _ _ _ pos hh
    rw [pred1_class bs acc st u raw col v f hI hperm itO hO hOv it hm] at hp
    refine ⟨pos, it, by rw [hfr, hfp], hi, ?_⟩
    rcases Bool.or_eq_true _ _ |>.mp hp with h1 | h2
    · have := item_eq_of_key _ hT1.core.nodup it itO hm hO1 (by simpa using h1)
      exact ⟨by rw [this, hOv], Or.inl this⟩
    · obtain ⟨hs, hk⟩ := Bool.and_eq_true _ _ |>.mp h2
      have := item_eq_of_key _ hT1.core.nodup it ⟨u.next, raw⟩ hm hN1 (by simpa using hk)
      exact ⟨by rw [this], Or.inr ⟨hs, this⟩⟩

/-- `AcceptRemove()` at the position of an entry `it`: a well-formed table that lost exactly `it` -/
theorem remove_step (ok : SpecOK bs.sp) (hF : FaultsOK bs.sp f) (hI : IdxInv bs acc st u)
    (hok : (add bs.sp (hs1Of acc st u raw col v) u.t ⟨u.next, raw⟩ f).2 = .ok)
    (gi b j : Nat) (it : Item) (hi : itemAt bs.sp (t1Of bs acc st u raw col v f) (gi, b, j) = some it) :
    TableInv bs.sp (hs1Of acc st u raw col v) (removePos bs.sp (t1Of bs acc st u raw col v f) gi b j) ∧
    (it :: traverse (removePos bs.sp (t1Of bs acc st u raw col v f) gi b j)).Perm (⟨u.next, raw⟩ :: traverse u.t) := by
  obtain ⟨hT1, hperm⟩ := add_step bs acc st u raw col v f ok hF hI hok
  obtain ⟨g, hg, hj⟩ := itemAt_some _ _ gi b j it hi
  obtain ⟨i1, i2⟩ := removePos_spec bs.sp _ _ hT1 gi b j g it hg hj
  exact ⟨i1, i2.trans hperm⟩

/-- **what the update leaves**: with `it` the entry `PrepareRemove` settled on, the index is consistent with the updated rows
    iff every remaining entry of the raw was inserted under the NEW hash code -/
theorem upd_inv_iff (ok : SpecOK bs.sp) (hF : FaultsOK bs.sp f) (hI : IdxInv bs acc st u)
    (hnone : findMixed bs acc st u raw col v = none)
    (hok : (add bs.sp (hs1Of acc st u raw col v) u.t ⟨u.next, raw⟩ f).2 = .ok)
    (gi b j : Nat) (it : Item) (hi : itemAt bs.sp (t1Of bs acc st u raw col v f) (gi, b, j) = some it) (hv : it.val = raw)
    (u2 : UH) (hc : u2.cols = u.cols) (ht : u2.t = removePos bs.sp (t1Of bs acc st u raw col v f) gi b j)
    (hh : u2.hs = hs1Of acc st u raw col v) (hn : u2.next = u.next + 1) :
    IdxInv bs acc (assignCol st raw col v) u2 ↔
      (∀ it' ∈ traverse u2.t, it'.val = raw → hs1Of acc st u raw col v it'.key = hNewOf acc st u raw col v) := by
  obtain ⟨hT2, hperm2⟩ := remove_step bs acc st u raw col v f ok hF hI hok gi b j it hi
  rw [← ht] at hT2 hperm2
  have hmem : ∀ it' ∈ traverse u2.t, it' = ⟨u.next, raw⟩ ∨ it' ∈ traverse u.t := fun it' h' =>
    List.mem_cons.mp (hperm2.mem_iff.mp (List.mem_cons_of_mem _ h'))
  constructor
  · intro hI2 it' h' hv'
    have := hI2.stored it' h'
    rw [hh, hc, valsOf_assignCol, if_pos hv'] at this
    exact this
  · intro hcond
    refine ⟨by rw [hh]; exact hT2, ?_, ?_, by rw [assignCol_ids]; exact hI.ids, ?_, ?_⟩
    · intro it' h'
      rcases hmem it' h' with rfl | hin
      · rw [hn]; exact Nat.lt_succ_self _
      · rw [hn]; exact Nat.lt_succ_of_lt (hI.fresh it' hin)
    · rw [assignCol_ids]
      have := hperm2.map (·.val)
      simp only [List.map_cons, hv] at this
      exact (List.Perm.cons_inv this).trans hI.raws
    · intro it' h'
      by_cases hv' : it'.val = raw
      · rw [hh, hc, valsOf_assignCol, if_pos hv']; exact hcond it' h' hv'
      · rcases hmem it' h' with rfl | hin
        · exact absurd rfl hv'
        · rw [hh, hc, valsOf_assignCol, if_neg hv']
          have : hs1Of acc st u raw col v it'.key = u.hs it'.key := by
            unfold hs1Of; simp [Nat.ne_of_lt (hI.fresh it' hin)]
          rw [this]; exact hI.stored it' hin
    · intro r1' h1' r2' h2' hk
      obtain ⟨r1, hr1, rfl⟩ := List.mem_map.mp h1'
      obtain ⟨r2, hr2, rfl⟩ := List.mem_map.mp h2'
      rw [hc] at hk
      by_cases e1 : r1.id = raw <;> by_cases e2 : r2.id = raw
      · simp [e1, e2]
      · exfalso
        simp only [e1, e2, if_true, if_false] at hk
        have : r1.vals = valsOf st raw := by rw [← e1]; exact (valsOf_mem st hI.ids r1 hr1).symm
        rw [this] at hk
        exact no_dup_key bs acc st u raw col v hI hnone r2 hr2 hk
      · exfalso
        simp only [e1, e2, if_true, if_false] at hk
        have : r2.vals = valsOf st raw := by rw [← e2]; exact (valsOf_mem st hI.ids r2 hr2).symm
        rw [this, Momo.Table.keyEq_symm] at hk
        exact no_dup_key bs acc st u raw col v hI hnone r1 hr1 hk
      · simp only [e1, e2, if_false] at hk ⊢
        exact hI.uniq r1 hr1 r2 hr2 hk


/-- the entry `PrepareRemove` settles on, and the index the update returns, spelled out -/
theorem updCol_shape (ok : SpecOK bs.sp) (hF : FaultsOK bs.sp f) (hI : IdxInv bs acc st u)
    (hraw : raw ∈ st.map (·.id)) (u' : UH) (st' : Store) (hdone : updCol bs acc st u raw col v f = .done u' st') :
    ∃ itO gi b j it, itO ∈ traverse u.t ∧ itO.val = raw ∧
      findMixed bs acc st u raw col v = none ∧
      (add bs.sp (hs1Of acc st u raw col v) u.t ⟨u.next, raw⟩ f).2 = .ok ∧
      (addMixed bs acc st u raw col v f).1 = u1Of bs acc st u raw col v f ∧
      findRaw bs acc st (u1Of bs acc st u raw col v f) raw = some (gi, b, j) ∧
      itemAt bs.sp (t1Of bs acc st u raw col v f) (gi, b, j) = some it ∧ it.val = raw ∧
      (it = itO ∨ ((bs.short (hNewOf acc st u raw col v) == bs.short (hOldOf acc st u raw)) = true ∧ it = ⟨u.next, raw⟩)) ∧
      remTarget bs acc st u raw col v f = some it.key ∧
      st' = assignCol st raw col v ∧
      u'.cols = u.cols ∧ u'.t = removePos bs.sp (t1Of bs acc st u raw col v f) gi b j ∧
      u'.hs = hs1Of acc st u raw col v ∧ u'.next = u.next + 1 := by
  obtain ⟨hadd, hu', hst'⟩ := updCol_done bs acc st u raw col v f u' st' hdone
  obtain ⟨hnone, hok, hu1⟩ := addMixed_added bs acc st u raw col v f hadd
  obtain ⟨itO, hO, hOv⟩ := hI.entry_of_row raw hraw
  obtain ⟨pos, it, hfr, hi, hv, hcase⟩ := prepareRemove_finds bs acc st u raw col v f ok hF hI hok itO hO hOv
  obtain ⟨gi, b, j⟩ := pos
  rw [hu1] at hu'
  have hrem : remTarget bs acc st u raw col v f = some it.key := by
    unfold remTarget
    rw [hu1, hfr]
    show entAt bs (u1Of bs acc st u raw col v f) (gi, b, j) = some it.key
    unfold entAt
    have : (u1Of bs acc st u raw col v f).t = t1Of bs acc st u raw col v f := rfl
    rw [this, hi]; rfl
  refine ⟨itO, gi, b, j, it, hO, hOv, hnone, hok, hu1, hfr, hi, hv, hcase, hrem, hst', ?_, ?_, ?_, ?_⟩
  all_goals (subst hu'; unfold prepareRemove acceptAdd acceptRemove; simp only [hfr]; rfl)

/-- **F9 at theorem level, part 1**: the single-column update leaves a consistent index iff `PrepareRemove` did not settle on
    the entry that `Add(hashMixedKey)` had just made - or the two hash codes are equal, in which case the two entries are
    interchangeable -/
theorem updcol_correct_iff (ok : SpecOK bs.sp) (hF : FaultsOK bs.sp f) (hI : IdxInv bs acc st u)
    (hraw : raw ∈ st.map (·.id)) (u' : UH) (st' : Store) (hdone : updCol bs acc st u raw col v f = .done u' st') :
    IdxInv bs acc st' u' ↔
      (remTarget bs acc st u raw col v f ≠ some u.next ∨ hOldOf acc st u raw = hNewOf acc st u raw col v) := by
  obtain ⟨itO, gi, b, j, it, hO, hOv, hnone, hok, _, _, hi, hv, hcase, hrem, hst', hc, ht, hh, hn⟩ :=
    updCol_shape bs acc st u raw col v f ok hF hI hraw u' st' hdone
  subst hst'
  rw [upd_inv_iff bs acc st u raw col v f ok hF hI hnone hok gi b j it hi hv u' hc ht hh hn, hrem]
  obtain ⟨hT1, hperm⟩ := add_step bs acc st u raw col v f ok hF hI hok
  obtain ⟨_, hperm2⟩ := remove_step bs acc st u raw col v f ok hF hI hok gi b j it hi
  rw [← ht] at hperm2
  have hOlt := hI.fresh itO hO
  have hhsO : hs1Of acc st u raw col v itO.key = hOldOf acc st u raw := by
    unfold hs1Of hOldOf; simp only [Nat.ne_of_lt hOlt, if_false]; rw [hI.stored itO hO, hOv]
  have hhsN : hs1Of acc st u raw col v u.next = hNewOf acc st u raw col v := by unfold hs1Of hNewOf; simp
  have hnd1 : (traverse (t1Of bs acc st u raw col v f)).Nodup := List.Nodup.of_map _ hT1.core.nodup
  have hndc : ((⟨u.next, raw⟩ : Item) :: traverse u.t).Nodup := hperm.nodup_iff.mp hnd1
  have hnd2 : (it :: traverse u'.t).Nodup := hperm2.nodup_iff.mpr hndc
  have hOuniq : ∀ x ∈ traverse u.t, x.val = raw → x = itO := fun x hx hxv =>
    List.inj_on_of_nodup_map hI.vals_nodup hx hO (by rw [hxv, hOv])
  rcases hcase with rfl | ⟨_, rfl⟩
  · -- the old entry was removed: only the new entry holds the raw
    constructor
    · intro _; left; intro h; have : it.key = u.next := by simpa using h
      omega
    · intro _ x hx hxv
      rcases List.mem_cons.mp (hperm2.mem_iff.mp (List.mem_cons_of_mem _ hx)) with rfl | hin
      · exact hhsN
      · have := hOuniq x hin hxv
        subst this
        exact absurd hx (List.nodup_cons.mp hnd2).1
  · -- the new entry was removed: the old one stays, under the old hash code
    have hp3 : (traverse u'.t).Perm (traverse u.t) := List.Perm.cons_inv hperm2
    constructor
    · intro hcond; right
      have := hcond itO (hp3.mem_iff.mpr hO) hOv
      rw [hhsO] at this; exact this
    · rintro (h | h)
      · exact absurd rfl h
      · intro x hx hxv
        have := hOuniq x (hp3.mem_iff.mp hx) hxv
        subst this
        rw [hhsO]; exact h


/-- **F9 at theorem level, part 2 (when it strikes)**: `PrepareRemove` settles on the entry just added iff, in the table as
    `Add(hashMixedKey)` left it, the new entry is examined before the old one by the lookup of the OLD hash code and its
    stored short hash equals the old hash code's (`f9cond`, a decidable function of the bucket layout) -/
theorem remTarget_new_iff (ok : SpecOK bs.sp) (hF : FaultsOK bs.sp f) (hI : IdxInv bs acc st u)
    (hraw : raw ∈ st.map (·.id)) (u' : UH) (st' : Store) (hdone : updCol bs acc st u raw col v f = .done u' st')
    (itO : Item) (hO : itO ∈ traverse u.t) (hOv : itO.val = raw) :
    remTarget bs acc st u raw col v f = some u.next ↔
      f9cond bs (t1Of bs acc st u raw col v f) (hOldOf acc st u raw) (hNewOf acc st u raw col v) itO.key u.next = true := by
  obtain ⟨_, gi, b, j, it, _, _, _, hok, _, hfr, hi, _, _, hrem, _, _, _, _, _⟩ :=
    updCol_shape bs acc st u raw col v f ok hF hI hraw u' st' hdone
  obtain ⟨hT1, hperm⟩ := add_step bs acc st u raw col v f ok hF hI hok
  have hOlt := hI.fresh itO hO
  have hfind : (visitSeq bs (t1Of bs acc st u raw col v f) (hOldOf acc st u raw)).find?
      (holds bs.sp (t1Of bs acc st u raw col v f) (pred1Of bs acc st u raw col v)) = some (gi, b, j) := by
    have : findTableP bs (t1Of bs acc st u raw col v f) (hOldOf acc st u raw) (pred1Of bs acc st u raw col v) = some (gi, b, j) := hfr
    unfold findTableP at this
    split at this
    · cases this
    · exact this
  have h2 := find_two
    (holds bs.sp (t1Of bs acc st u raw col v f) (fun x => x.key == u.next))
    (holds bs.sp (t1Of bs acc st u raw col v f) (fun x => x.key == itO.key))
    (holds bs.sp (t1Of bs acc st u raw col v f) (pred1Of bs acc st u raw col v))
    (bs.short (hNewOf acc st u raw col v) == bs.short (hOldOf acc st u raw))
    (visitSeq bs (t1Of bs acc st u raw col v f) (hOldOf acc st u raw))
    (by
      intro pos _
      cases hip : itemAt bs.sp (t1Of bs acc st u raw col v f) pos with
      | none => unfold holds; simp [hip]
      | some x =>
        rw [holds_of_itemAt _ _ _ pos x hip, holds_of_itemAt _ _ _ pos x hip, holds_of_itemAt _ _ _ pos x hip,
          pred1_class bs acc st u raw col v f hI hperm itO hO hOv x (itemAt_mem _ _ pos x hip)])
    (by
      intro pos _ ⟨hA, hB⟩
      cases hip : itemAt bs.sp (t1Of bs acc st u raw col v f) pos with
      | none => unfold holds at hA; simp [hip] at hA
      | some x =>
        rw [holds_of_itemAt _ _ _ pos x hip] at hA hB
        have e1 : x.key = u.next := by simpa using hA
        have e2 : x.key = itO.key := by simpa using hB
        omega)
  have hrank : f9cond bs (t1Of bs acc st u raw col v f) (hOldOf acc st u raw) (hNewOf acc st u raw col v) itO.key u.next =
      ((bs.short (hNewOf acc st u raw col v) == bs.short (hOldOf acc st u raw)) &&
        before (firstIdx (visitSeq bs (t1Of bs acc st u raw col v f) (hOldOf acc st u raw))
                  (holds bs.sp (t1Of bs acc st u raw col v f) (fun x => x.key == u.next)))
               (firstIdx (visitSeq bs (t1Of bs acc st u raw col v f) (hOldOf acc st u raw))
                  (holds bs.sp (t1Of bs acc st u raw col v f) (fun x => x.key == itO.key)))) := rfl
  rw [hrank, ← h2, hrem, hfind]
  constructor
  · intro h
    refine ⟨(gi, b, j), rfl, ?_⟩
    rw [holds_of_itemAt _ _ _ _ it hi]; simpa using h
  · rintro ⟨x, hx, hA⟩
    cases hx
    rw [holds_of_itemAt _ _ _ _ it hi] at hA
    simpa using hA

/-- **sufficient condition**: if the lookup of the old hash code cannot meet the new entry before the old one (`f9cond` false:
    e.g. the short hashes differ, or the new entry's bucket is not on the old key's probe path within the bound), the update is
    correct -/
theorem updcol_safe (ok : SpecOK bs.sp) (hF : FaultsOK bs.sp f) (hI : IdxInv bs acc st u)
    (hraw : raw ∈ st.map (·.id)) (u' : UH) (st' : Store) (hdone : updCol bs acc st u raw col v f = .done u' st')
    (itO : Item) (hO : itO ∈ traverse u.t) (hOv : itO.val = raw)
    (hsafe : f9cond bs (t1Of bs acc st u raw col v f) (hOldOf acc st u raw) (hNewOf acc st u raw col v) itO.key u.next = false) :
    IdxInv bs acc st' u' := by
  apply (updcol_correct_iff bs acc st u raw col v f ok hF hI hraw u' st' hdone).mpr
  left
  intro h
  rw [(remTarget_new_iff bs acc st u raw col v f ok hF hI hraw u' st' hdone itO hO hOv).mp h] at hsafe
  cases hsafe


theorem holds_and (sp : Spec) (t : Table) (c : Bool) (p : Item → Bool) (pos : Nat × Nat × Nat) :
    holds sp t (fun it => c && p it) pos = (c && holds sp t p pos) := by
  unfold holds
  cases itemAt sp t pos <;> simp

/-- **the stale state (finding F9), exactly**: when `PrepareRemove` settled on the new entry, the hash set holds the same entries
    as before the update, each under the hash code it had - the raw's entry under the OLD hash code although the row now has the
    new key; every other row is still found by `Find(raw)`; the updated row itself is found under its new key only if its old
    entry happens to pass for it: equal short hashes and a position the lookup of the NEW hash code examines -/
theorem updcol_stale_state (ok : SpecOK bs.sp) (hF : FaultsOK bs.sp f) (hI : IdxInv bs acc st u)
    (hraw : raw ∈ st.map (·.id)) (u' : UH) (st' : Store) (hdone : updCol bs acc st u raw col v f = .done u' st')
    (itO : Item) (hO : itO ∈ traverse u.t) (hOv : itO.val = raw)
    (hf9 : remTarget bs acc st u raw col v f = some u.next) :
    (traverse u'.t).Perm (traverse u.t) ∧
    (∀ it ∈ traverse u'.t, u'.hs it.key = u.hs it.key) ∧
    (∀ id ∈ st.map (·.id), id ≠ raw →
      ∃ pos it, findRaw bs acc st' u' id = some pos ∧ itemAt bs.sp u'.t pos = some it ∧ it.val = id) ∧
    ((findRaw bs acc st' u' raw).isSome ↔
      ((bs.short (hOldOf acc st u raw) == bs.short (hNewOf acc st u raw col v)) = true ∧
        visitRank bs u'.t (hNewOf acc st u raw col v) itO.key ≠ none)) := by
  obtain ⟨itO', gi, b, j, it, hO', _, hnone, hok, _, _, hi, _, hcase, hrem, hst', hc, ht, hh, _⟩ :=
    updCol_shape bs acc st u raw col v f ok hF hI hraw u' st' hdone
  subst hst'
  have hOlt := hI.fresh itO' hO' 
  have hitk : it.key = u.next := by rw [hrem] at hf9; simpa using hf9
  have hitN : it = ⟨u.next, raw⟩ := by
    rcases hcase with h | ⟨_, h⟩
    · rw [h] at hitk; omega
    · exact h
  subst hitN
  obtain ⟨hT2, hperm2⟩ := remove_step bs acc st u raw col v f ok hF hI hok gi b j _ hi
  rw [← ht] at hT2 hperm2
  have hp3 : (traverse u'.t).Perm (traverse u.t) := List.Perm.cons_inv hperm2
  have hhs : ∀ x ∈ traverse u.t, hs1Of acc st u raw col v x.key = u.hs x.key := fun x hx => by
    unfold hs1Of; simp [Nat.ne_of_lt (hI.fresh x hx)]
  have hOuniq : ∀ x ∈ traverse u.t, x.val = raw → x = itO := fun x hx hxv =>
    List.inj_on_of_nodup_map hI.vals_nodup hx hO (by rw [hxv, hOv])
  have hvraw : valsOf (assignCol st raw col v) raw = mixVals (valsOf st raw) col v := by rw [valsOf_assignCol, if_pos rfl]
  have hvoth : ∀ id, id ≠ raw → valsOf (assignCol st raw col v) id = valsOf st id := fun id hne => by
    rw [valsOf_assignCol, if_neg hne]
  -- no other entry's row has the new key
  have hnokey : ∀ x ∈ traverse u.t, keyEq u.cols (mixVals (valsOf st raw) col v) (valsOf st x.val) = true → False := by
    intro x hx hk
    obtain ⟨r, hr, hrv⟩ := hI.row_of_entry x hx
    rw [← hrv, valsOf_mem st hI.ids r hr] at hk
    exact no_dup_key bs acc st u raw col v hI hnone r hr hk
  refine ⟨hp3, fun x hx => by rw [hh]; exact hhs x (hp3.mem_iff.mp hx), ?_, ?_⟩
  · intro id hid hne
    obtain ⟨it0, h0, hv0⟩ := hI.entry_of_row id hid
    have h0' : it0 ∈ traverse u'.t := hp3.mem_iff.mpr h0
    have hhash : hashVals acc u.cols (valsOf (assignCol st raw col v) id) = hs1Of acc st u raw col v it0.key := by
      rw [hhs it0 h0, hI.stored it0 h0, hv0, hvoth id hne]
    obtain ⟨pos, hpos, hat⟩ := findTableP_entry bs (hs1Of acc st u raw col v) u'.t hT2 it0 h0'
      (fun id' => keyEq u.cols (valsOf (assignCol st raw col v) id) (valsOf (assignCol st raw col v) id'))
      (by simp only [hv0]; exact Momo.Table.keyEq_refl _ _)
      (by
        intro x hx he
        have hxin := hp3.mem_iff.mp hx
        simp only [hvoth id hne] at he
        by_cases hxr : x.val = raw
        · exfalso
          rw [hxr, hvraw, Momo.Table.keyEq_symm] at he
          rw [← hv0] at he
          exact hnokey it0 h0 he
        · rw [hvoth x.val hxr, ← hv0] at he
          exact (hI.uniq_ids it0 x h0 hxin he).symm)
    refine ⟨pos, it0, ?_, hat, hv0⟩
    unfold findRaw
    rw [hh, hc, hhash]; exact hpos
  · have hfr : findRaw bs acc (assignCol st raw col v) u' raw =
        findTableP bs u'.t (hNewOf acc st u raw col v)
          (fun x => (bs.short (hOldOf acc st u raw) == bs.short (hNewOf acc st u raw col v)) && (x.key == itO.key)) := by
      unfold findRaw
      rw [hh, hc, hvraw]
      apply findTableP_congr
      intro pos _
      cases hip : itemAt bs.sp u'.t pos with
      | none => unfold holds; simp [hip]
      | some x =>
        rw [holds_of_itemAt _ _ _ pos x hip, holds_of_itemAt _ _ _ pos x hip]
        have hxin : x ∈ traverse u.t := hp3.mem_iff.mp (itemAt_mem _ _ pos x hip)
        unfold entPred
        by_cases hx : x = itO
        · subst hx
          rw [hhs x hxin, hI.stored x hxin, hOv]
          simp only [hvraw]
          simp [hOldOf, hNewOf, Momo.Table.keyEq_refl]
        · have hxr : x.val ≠ raw := fun h => hx (hOuniq x hxin h)
          have hk : (x.key == itO.key) = false := by
            cases hkk : x.key == itO.key with
            | false => rfl
            | true => exact absurd (item_eq_of_key u.t hI.tinv.core.nodup x itO hxin hO (by simpa using hkk)) hx
          have hq : keyEq u.cols (mixVals (valsOf st raw) col v) (valsOf (assignCol st raw col v) x.val) = false := by
            rw [hvoth x.val hxr]
            cases hqq : keyEq u.cols (mixVals (valsOf st raw) col v) (valsOf st x.val) with
            | false => rfl
            | true => exact (hnokey x hxin hqq).elim
          simp [hk, hq]
    rw [hfr]
    have hcnt : (u'.t.count == 0) = false := by
      have h1 := hT2.core.count
      have h2 := hp3.length_eq
      have h3 : 0 < (traverse u.t).length := List.length_pos_of_mem hO
      simp; omega
    unfold findTableP
    rw [hcnt]
    simp only [Bool.false_eq_true, if_false]
    rw [List.find?_isSome]
    unfold visitRank posOf
    simp only
    constructor
    · rintro ⟨pos, hpos, hh2⟩
      rw [holds_and] at hh2
      obtain ⟨hs', hA⟩ := Bool.and_eq_true _ _ |>.mp hh2
      refine ⟨hs', ?_⟩
      have : List.findIdx (holds bs.sp u'.t fun it => it.key == itO.key) (visitSeq bs u'.t (hNewOf acc st u raw col v)) <
          (visitSeq bs u'.t (hNewOf acc st u raw col v)).length := List.findIdx_lt_length.mpr ⟨pos, hpos, hA⟩
      rw [if_pos this]; simp
    · rintro ⟨hs', hr⟩
      split at hr
      · rename_i hlt
        obtain ⟨pos, hpos, hA⟩ := List.findIdx_lt_length.mp hlt
        exact ⟨pos, hpos, by rw [holds_and, hs', hA]; rfl⟩
      · exact absurd rfl hr

end Upd

end Momo.TIdx
