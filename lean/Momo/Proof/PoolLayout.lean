import Momo.Model.Pool
/-!
  Layout arithmetic of `MemPool` (C09): block-index recovery and the four adjustment steps of
  `pvNewBuffer`, for every base address.  Core `Int` lemmas and `omega` only.
-/
namespace Momo.Pool

/-- side conditions of a pool with several blocks per buffer (`pvCheckParams`): `S = A * k`, `k ≥ 2` -/
structure Multi (P : Params) (k : Int) : Prop where
  hA : 0 < P.A
  hk : 2 ≤ k
  hN : 1 ≤ P.N
  hS : P.S = P.A * k

/-- what `pvGetBlockIndex` needs of a buffer pointer: it is `A`-aligned, lies in an even `A`-slot of its
    `S`-period with room for one more slot, and its period number is a multiple of `N` -/
structure BufOK (P : Params) (buf : Int) : Prop where
  even : ((buf % P.S) / P.A) % 2 = 0
  room : buf % P.S + P.A < P.S
  aligned : buf % P.A = 0
  slot0 : (buf / P.S) % P.N = 0

namespace Multi
variable {P : Params} {k : Int} (h : Multi P k)
include h

theorem S_pos : 0 < P.S := by rw [h.hS]; exact Int.mul_pos h.hA (by have := h.hk; omega)

/-- every multiple of A, reduced mod S, is `A * j` with `0 ≤ j < k` -/
theorem mod_S_of_mul (u : Int) (hu : u % P.A = 0) :
    ∃ j, 0 ≤ j ∧ j < k ∧ u % P.S = P.A * j := by
  have hA := h.hA; have hS := h.S_pos
  have h1 : P.A ∣ u := Int.dvd_of_emod_eq_zero hu
  have h2 : P.A ∣ P.S := ⟨k, h.hS⟩
  have h3 : P.A ∣ u % P.S := by
    rw [Int.emod_def]
    exact Int.dvd_sub h1 (Int.dvd_trans h2 (Int.dvd_mul_right _ _))
  obtain ⟨j, hj⟩ := h3
  have hnn : 0 ≤ u % P.S := Int.emod_nonneg _ (by omega)
  have hlt : u % P.S < P.S := Int.emod_lt_of_pos _ hS
  refine ⟨j, ?_, ?_, hj⟩
  · apply Decidable.byContradiction; intro hneg
    have h5 : j ≤ -1 := by omega
    have h6 : P.A * j ≤ P.A * (-1) := Int.mul_le_mul_of_nonneg_left h5 (by omega)
    omega
  · apply Decidable.byContradiction; intro hge
    have h5 : k ≤ j := by omega
    have h6 : P.A * k ≤ P.A * j := Int.mul_le_mul_of_nonneg_left h5 (by omega)
    rw [h.hS] at hlt hj; omega

theorem ceilA_spec (x : Int) : ceilTo x P.A % P.A = 0 ∧ x ≤ ceilTo x P.A ∧ ceilTo x P.A < x + P.A := by
  have hA := h.hA
  unfold ceilTo
  refine ⟨Int.mul_emod_left _ _, ?_, ?_⟩
  · have := Int.emod_add_mul_ediv (x + P.A - 1) P.A
    have h2 := Int.emod_lt_of_pos (x + P.A - 1) hA
    have h3 : (x + P.A - 1) / P.A * P.A = P.A * ((x + P.A - 1) / P.A) := Int.mul_comm _ _
    omega
  · have := Int.emod_add_mul_ediv (x + P.A - 1) P.A
    have h2 := Int.emod_nonneg (x + P.A - 1) (by omega : P.A ≠ 0)
    have h3 : (x + P.A - 1) / P.A * P.A = P.A * ((x + P.A - 1) / P.A) := Int.mul_comm _ _
    omega
/-- canonical decomposition of an A-aligned address: u = S*q + A*j, 0 ≤ j < k -/
theorem decomp (u : Int) (hu : u % P.A = 0) :
    ∃ q j, 0 ≤ j ∧ j < k ∧ u = P.S * q + P.A * j ∧ u / P.S = q ∧ u % P.S = P.A * j := by
  obtain ⟨j, hj0, hjk, hj⟩ := h.mod_S_of_mul u hu
  refine ⟨u / P.S, j, hj0, hjk, ?_, rfl, hj⟩
  have := Int.emod_add_mul_ediv u P.S
  rw [hj] at this
  have h2 : P.S * (u / P.S) = P.S * (u / P.S) := rfl
  omega

/-- div/mod of a recomposed address -/
theorem recomp (q j : Int) (hj0 : 0 ≤ j) (hjk : j < k) :
    (P.S * q + P.A * j) / P.S = q ∧ (P.S * q + P.A * j) % P.S = P.A * j := by
  have hA := h.hA; have hS := h.S_pos
  have hlt : P.A * j < P.S := by
    rw [h.hS]; exact Int.mul_lt_mul_of_pos_left hjk hA
  have hnn : 0 ≤ P.A * j := Int.mul_nonneg (by omega) hj0
  have e : P.S * q + P.A * j = P.A * j + q * P.S := by rw [Int.mul_comm P.S q]; omega
  constructor
  · rw [e, Int.add_mul_ediv_right _ _ (by omega), Int.ediv_eq_zero_of_lt hnn hlt]; omega
  · rw [e, Int.add_mul_emod_self_right, Int.emod_eq_of_lt hnn hlt]

theorem mulA_div (j : Int) : (P.A * j) / P.A = j := by
  have hA := h.hA
  rw [Int.mul_comm, Int.mul_ediv_cancel _ (by omega)]

theorem mulA_mod (j : Int) : (P.A * j) % P.A = 0 := Int.mul_emod_right _ _

/-- after steps 2 and 3 the address is `S*q + A*j` with `j` even and `j + 1 < k` -/
theorem steps23 (u0 : Int) (h0 : u0 % P.A = 0) :
    ∃ q j, 0 ≤ j ∧ j % 2 = 0 ∧ j + 1 < k ∧ step3 P (step2 P u0) = P.S * q + P.A * j ∧
      u0 ≤ step3 P (step2 P u0) ∧ step3 P (step2 P u0) ≤ u0 + (1 + k % 2) * P.A := by
  have hA := h.hA; have hk := h.hk; have hS := h.S_pos
  obtain ⟨q0, j0, hj0, hj0k, hu0, _, hm0⟩ := h.decomp u0 h0
  -- step 2
  have h2A : (P.A * j0) % (2 * P.A) = P.A * (j0 % 2) := by
    have : 2 * P.A = P.A * 2 := by omega
    rw [this, Int.mul_emod_mul_of_pos _ _ hA]
  have hs2 : step2 P u0 = P.S * q0 + P.A * (j0 + j0 % 2) := by
    unfold step2; rw [hm0, h2A, hu0, Int.mul_add]; omega
  -- normalise: either j0 + j0%2 < k, or it equals k (wrap to next S block)
  have hcase : j0 + j0 % 2 < k ∨ j0 + j0 % 2 = k := by omega
  rcases hcase with hlt | heq
  · -- j1 = j0 + j0 % 2, even, < k
    have hj1 : 0 ≤ j0 + j0 % 2 := by omega
    obtain ⟨hd1, hm1⟩ := h.recomp q0 (j0 + j0 % 2) hj1 hlt
    by_cases h3 : j0 + j0 % 2 + 1 = k
    · -- step 3 fires: (u1 + A) % S = 0
      have hSk : P.S = P.A * k := h.hS
      have hAk : P.A * k = P.A * (j0 + j0 % 2) + P.A := by
        rw [← h3, Int.mul_add P.A (j0 + j0 % 2) 1]; omega
      have hu1A : step2 P u0 + P.A = P.S * (q0 + 1) + P.A * 0 := by
        rw [hs2, Int.mul_add P.S q0 1]; omega
      have hfire : (step2 P u0 + P.A) % P.S = 0 := by
        rw [hu1A]; have := (h.recomp (q0+1) 0 (by omega) (by omega)).2; simpa using this
      refine ⟨q0 + 1, 0, by omega, by omega, by omega, ?_, ?_, ?_⟩
      · unfold step3; rw [if_pos hfire, hu1A]
      · unfold step3; rw [if_pos hfire, hs2, hu0]
        have : 0 ≤ P.A * (j0 % 2) := Int.mul_nonneg (by omega) (by omega)
        rw [Int.mul_add]; omega
      · unfold step3; rw [if_pos hfire, hs2, hu0, Int.mul_add]
        -- k = j1 + 1 with j1 even ⇒ k odd ⇒ k % 2 = 1
        have hkodd : k % 2 = 1 := by omega
        rw [hkodd]
        have hb : P.A * (j0 % 2) ≤ P.A * 1 := Int.mul_le_mul_of_nonneg_left (by omega) (by omega)
        have : (1 + 1) * P.A = P.A * 1 + P.A := by omega
        omega
    · have hnf : ¬ (step2 P u0 + P.A) % P.S = 0 := by
        intro hz
        have hu1A : step2 P u0 + P.A = P.S * q0 + P.A * (j0 + j0 % 2 + 1) := by
          rw [hs2, Int.mul_add P.A (j0 + j0 % 2) 1]; omega
        rw [hu1A, (h.recomp q0 (j0 + j0 % 2 + 1) (by omega) (by omega)).2] at hz
        have : 0 < P.A * (j0 + j0 % 2 + 1) := Int.mul_pos hA (by omega)
        omega
      refine ⟨q0, j0 + j0 % 2, by omega, by omega, by omega, ?_, ?_, ?_⟩
      · unfold step3; rw [if_neg hnf, hs2]
      · unfold step3; rw [if_neg hnf, hs2, hu0, Int.mul_add]
        have : 0 ≤ P.A * (j0 % 2) := Int.mul_nonneg (by omega) (by omega)
        omega
      · unfold step3; rw [if_neg hnf, hs2, hu0, Int.mul_add]
        have hb : P.A * (j0 % 2) ≤ P.A * 1 := Int.mul_le_mul_of_nonneg_left (by omega) (by omega)
        have hc : 0 ≤ (k % 2) * P.A := Int.mul_nonneg (by omega) (by omega)
        have : (1 + k % 2) * P.A = P.A * 1 + (k % 2) * P.A := by rw [Int.add_mul]; omega
        omega
  · -- wrap: u1 = S*(q0+1) + 0
    have hu1 : step2 P u0 = P.S * (q0 + 1) + P.A * 0 := by
      rw [hs2, heq, h.hS, Int.mul_add]; omega
    have hnf : ¬ (step2 P u0 + P.A) % P.S = 0 := by
      intro hz
      have hu1A : step2 P u0 + P.A = P.S * (q0 + 1) + P.A * 1 := by rw [hu1]; omega
      rw [hu1A, (h.recomp (q0+1) 1 (by omega) (by omega)).2] at hz
      omega
    refine ⟨q0 + 1, 0, by omega, by omega, by omega, ?_, ?_, ?_⟩
    · unfold step3; rw [if_neg hnf, hu1]
    · unfold step3; rw [if_neg hnf, hs2, hu0, Int.mul_add]
      have : 0 ≤ P.A * (j0 % 2) := Int.mul_nonneg (by omega) (by omega)
      omega
    · unfold step3; rw [if_neg hnf, hs2, hu0, Int.mul_add]
      have hb : P.A * (j0 % 2) ≤ P.A * 1 := Int.mul_le_mul_of_nonneg_left (by omega) (by omega)
      have hc : 0 ≤ (k % 2) * P.A := Int.mul_nonneg (by omega) (by omega)
      have : (1 + k % 2) * P.A = P.A * 1 + (k % 2) * P.A := by rw [Int.add_mul]; omega
      omega
/-- `pvNewBuffer`: for every base address the first block is A-aligned, is `getBlock buf i0` for the
    `(i0, buf)` that `pvGetBlockIndex` computes, `-N < i0 ≤ 0`, `buf` satisfies `BufOK`,
    and the block starts at most `(3 + k%2)·A - 1` bytes after `base`. -/
theorem firstBlock_ok (base : Int) :
    let b := firstBlock P base
    b % P.A = 0 ∧ -P.N < blockIdx P b ∧ blockIdx P b ≤ 0 ∧ BufOK P (blockBuf P b) ∧
      getBlock P (blockBuf P b) (blockIdx P b) = b ∧ base ≤ blockBuf P b + (if blockIdx P b = 0 then 0 else blockIdx P b * P.S) ∧
      base ≤ b ∧ b < base + (3 + k % 2) * P.A ∧
      b + (if blockIdx P b = 0 then 0 else P.A) ≤ ceilTo base P.A + (2 + k % 2) * P.A := by
  have hA := h.hA; have hk := h.hk; have hS := h.S_pos; have hN := h.hN
  obtain ⟨hc0, hc1, hc2⟩ := h.ceilA_spec base
  obtain ⟨q, j, hj0, hjev, hjk, hu2, hlo, hhi⟩ := h.steps23 (ceilTo base P.A) hc0
  have hSk : P.S = P.A * k := h.hS
  obtain ⟨hd2, hm2⟩ := h.recomp q j hj0 (by omega)
  intro b
  have hb : b = step4 P (step3 P (step2 P (ceilTo base P.A))) := rfl
  rw [hu2] at hb hlo hhi
  have hhi' : (1 + k % 2) * P.A + P.A + P.A = (3 + k % 2) * P.A := by
    rw [Int.add_mul, Int.add_mul]; omega
  have hhi2 : (1 + k % 2) * P.A + P.A = (2 + k % 2) * P.A := by
    rw [Int.add_mul, Int.add_mul]; omega
  by_cases h4 : q % P.N = 0
  · -- step 4 fires: b = u2 + A, index 0, buffer = u2
    have hb' : b = P.S * q + P.A * (j + 1) := by
      rw [hb]; unfold step4; rw [hd2, if_pos h4, Int.mul_add P.A j 1]; omega
    obtain ⟨hd3, hm3⟩ := h.recomp q (j + 1) (by omega) (by omega)
    have hdir : blockDir P b = 1 := by
      unfold blockDir; rw [hb', hm3, h.mulA_div]; omega
    have hidx : blockIdx P b = 0 := by
      unfold blockIdx; rw [hdir, hb', hd3, h4]; simp
    have hbuf : blockBuf P b = P.S * q + P.A * j := by
      unfold blockBuf; rw [hidx, hdir, hb', Int.mul_add P.A j 1]; simp; omega
    have hAj : (P.A * (j + 1)) % P.A = 0 := h.mulA_mod _
    refine ⟨?_, by omega, by omega, ?_, ?_, ?_, ?_, ?_, ?_⟩
    · rw [hb', Int.add_emod, hAj, hSk, Int.mul_assoc, h.mulA_mod]; simp
    · rw [hbuf]
      refine ⟨?_, ?_, ?_, ?_⟩
      · rw [hm2, h.mulA_div]; exact hjev
      · rw [hm2, hSk]
        have : P.A * j + P.A = P.A * (j + 1) := by rw [Int.mul_add]; omega
        rw [this]; exact Int.mul_lt_mul_of_pos_left (by omega) hA
      · rw [Int.add_emod, h.mulA_mod, hSk, Int.mul_assoc, h.mulA_mod]; simp
      · rw [hd2]; exact h4
    · unfold getBlock; rw [hidx, hbuf, hb', Int.mul_add P.A j 1]; simp; omega
    · rw [hidx, hbuf]; simp; omega
    · rw [hb', Int.mul_add P.A j 1]; omega
    · rw [hb', Int.mul_add P.A j 1]; omega
    · rw [if_pos hidx, hb', Int.mul_add P.A j 1]; omega
  · -- step 4 does not fire: b = u2, negative index
    have hb' : b = P.S * q + P.A * j := by
      rw [hb]; unfold step4; rw [hd2, if_neg h4]
    have hdir : blockDir P b = 0 := by
      unfold blockDir; rw [hb', hm2, h.mulA_div]; exact hjev
    have hmN0 : 0 ≤ q % P.N := Int.emod_nonneg _ (by omega)
    have hmN1 : q % P.N < P.N := Int.emod_lt_of_pos _ (by omega)
    have hidx : blockIdx P b = q % P.N - P.N := by
      unfold blockIdx; rw [hdir, hb', hd2]; simp
    have hqN : q = P.N * (q / P.N) + q % P.N := by
      have := Int.emod_add_mul_ediv q P.N; omega
    -- buffer = S * (N * (q / N + 1)) + A * j
    have hbuf : blockBuf P b = P.S * (P.N * (q / P.N + 1)) + P.A * j := by
      unfold blockBuf; rw [hidx, hdir, hb']; simp
      have e1 : P.S * (P.N * (q / P.N + 1)) = P.S * (P.N * (q / P.N)) + P.S * P.N := by
        rw [Int.mul_add P.N, Int.mul_one, Int.mul_add]
      have e2 : (q % P.N - P.N) * P.S = P.S * (q % P.N) - P.S * P.N := by
        rw [Int.sub_mul, Int.mul_comm (q % P.N), Int.mul_comm P.N]
      have e3 : P.S * q = P.S * (P.N * (q / P.N)) + P.S * (q % P.N) := by
        rw [← Int.mul_add]; congr 1
      rw [e1, e2]; omega
    obtain ⟨hd3, hm3⟩ := h.recomp (P.N * (q / P.N + 1)) j hj0 (by omega)
    refine ⟨?_, by omega, by omega, ?_, ?_, ?_, ?_, ?_, ?_⟩
    · rw [hb', Int.add_emod, h.mulA_mod, hSk, Int.mul_assoc, h.mulA_mod]; simp
    · rw [hbuf]
      refine ⟨?_, ?_, ?_, ?_⟩
      · rw [hm3, h.mulA_div]; exact hjev
      · rw [hm3, hSk]
        have : P.A * j + P.A = P.A * (j + 1) := by rw [Int.mul_add]; omega
        rw [this]; exact Int.mul_lt_mul_of_pos_left (by omega) hA
      · rw [Int.add_emod, h.mulA_mod, hSk, Int.mul_assoc, h.mulA_mod]; simp
      · rw [hd3]; exact Int.mul_emod_right _ _
    · unfold getBlock
      have hneg : ¬ (0 ≤ blockIdx P b) := by omega
      rw [if_neg hneg]
      unfold blockBuf; rw [hdir]; simp
    · have hne : blockIdx P b ≠ 0 := by omega
      rw [if_neg hne]
      unfold blockBuf; rw [hdir]; simp; omega
    · rw [hb']; omega
    · rw [hb']; omega
    · have hne : blockIdx P b ≠ 0 := by omega
      rw [if_neg hne, hb']; omega

theorem recover_neg (buf i : Int) (hb0 : BufOK P buf) (hi : -P.N ≤ i) (hi2 : i < 0) :
    blockIdx P (getBlock P buf i) = i ∧ blockBuf P (getBlock P buf i) = buf := by
  have hS := h.S_pos
  have hb : getBlock P buf i = buf + i * P.S := by simp [getBlock]; omega
  have hmod : (buf + i * P.S) % P.S = buf % P.S := Int.add_mul_emod_self_right ..
  have hdiv : (buf + i * P.S) / P.S = buf / P.S + i := Int.add_mul_ediv_right _ _ (by omega)
  have hdir : blockDir P (buf + i * P.S) = 0 := by simp [blockDir, hmod, hb0.even]
  have hidx : blockIdx P (buf + i * P.S) = i := by
    simp only [blockIdx, hdir, hdiv, if_true]
    have : (buf / P.S + i) % P.N = P.N + i := by
      have h0 := hb0.slot0
      have hN := h.hN
      rw [Int.add_emod, h0, Int.zero_add, Int.emod_emod_of_dvd _ (Int.dvd_refl _)]
      have : i % P.N = (i + P.N) % P.N := by simp
      rw [this, Int.emod_eq_of_lt (by omega) (by omega)]; omega
    omega
  rw [hb]
  refine ⟨hidx, ?_⟩
  simp [blockBuf, hidx, hdir]

theorem recover_nonneg (buf i : Int) (hb0 : BufOK P buf) (hi : 0 ≤ i) (hi2 : i < P.N) :
    blockIdx P (getBlock P buf i) = i ∧ blockBuf P (getBlock P buf i) = buf := by
  have hS := h.S_pos
  have hA := h.hA
  have hb : getBlock P buf i = (buf + P.A) + i * P.S := by simp [getBlock, hi]; omega
  have hr0 : 0 ≤ buf % P.S := Int.emod_nonneg _ (by omega)
  have hbA : (buf + P.A) % P.S = buf % P.S + P.A := by
    have e : buf + P.A = (buf % P.S + P.A) + (buf / P.S) * P.S := by
      have := Int.emod_add_mul_ediv buf P.S
      rw [Int.mul_comm] at this; omega
    rw [e, Int.add_mul_emod_self_right, Int.emod_eq_of_lt (by omega) hb0.room]
  have hbAd : (buf + P.A) / P.S = buf / P.S := by
    have e : buf + P.A = (buf % P.S + P.A) + (buf / P.S) * P.S := by
      have := Int.emod_add_mul_ediv buf P.S
      rw [Int.mul_comm] at this; omega
    rw [e, Int.add_mul_ediv_right _ _ (by omega), Int.ediv_eq_zero_of_lt (by omega) hb0.room]; omega
  have hmod : ((buf + P.A) + i * P.S) % P.S = buf % P.S + P.A := by
    rw [Int.add_mul_emod_self_right, hbA]
  have hdiv : ((buf + P.A) + i * P.S) / P.S = buf / P.S + i := by
    rw [Int.add_mul_ediv_right _ _ (by omega), hbAd]
  have hdir : blockDir P ((buf + P.A) + i * P.S) = 1 := by
    simp only [blockDir, hmod]
    have : (buf % P.S + P.A) / P.A = (buf % P.S) / P.A + 1 := by
      rw [Int.add_ediv_of_dvd_right (Int.dvd_refl _), Int.ediv_self (by omega)]
    rw [this]; have := hb0.even; omega
  have hidx : blockIdx P ((buf + P.A) + i * P.S) = i := by
    simp only [blockIdx, hdir, hdiv]
    have : (buf / P.S + i) % P.N = i := by
      rw [Int.add_emod, hb0.slot0, Int.zero_add, Int.emod_emod_of_dvd _ (Int.dvd_refl _),
        Int.emod_eq_of_lt hi hi2]
    simp [this]
  rw [hb]
  refine ⟨hidx, ?_⟩
  simp [blockBuf, hidx, hdir]

end Multi
end Momo.Pool
