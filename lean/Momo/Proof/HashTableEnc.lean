import Momo.Model.HashTable
import Momo.Proof.ProbeAdd
/-!
  C01/C11, part 1: the search-bound encoders of the hash-table model, for probes of ANY size.

  `Momo/Proof/Probe.lean` proves `MP2.upd_ok` / `upd3_ok` for probes `< 2^64` (what C13 states).
  The table invariant must hold for every generation size `2^L` the model can reach, so the
  fuel-independent facts are proved here: the pair produced by `shrinkLoop` always rounds upwards,
  whether or not the fuel sufficed.
-/
namespace Momo.Probe

/-- whatever the fuel, the result is the input shifted right by the number of steps taken -/
theorem shrinkLoop_div (lim : Nat) (fuel m e : Nat) :
    e ≤ (shrinkLoop lim fuel m e).2 ∧
    (shrinkLoop lim fuel m e).1 = m / 2 ^ ((shrinkLoop lim fuel m e).2 - e) := by
  induction fuel generalizing m e with
  | zero => simp [shrinkLoop]
  | succ f ih =>
    simp only [shrinkLoop]
    split
    · obtain ⟨a, c⟩ := ih (m / 2) (e + 1)
      refine ⟨by omega, ?_⟩
      rw [c]
      have : (shrinkLoop lim f (m / 2) (e + 1)).2 - e
          = ((shrinkLoop lim f (m / 2) (e + 1)).2 - (e + 1)) + 1 := by omega
      rw [this, Nat.pow_succ, Nat.div_div_eq_div_mul, Nat.mul_comm]
    · simp

/-- if the loop stopped before the fuel ran out, it stopped because the mantissa fits -/
theorem shrinkLoop_lt (lim : Nat) (fuel m e : Nat)
    (h : (shrinkLoop lim fuel m e).2 - e < fuel) : (shrinkLoop lim fuel m e).1 < lim := by
  induction fuel generalizing m e with
  | zero => omega
  | succ f ih =>
    simp only [shrinkLoop] at h ⊢
    split
    · rename_i hm
      simp only [hm, if_true] at h
      have := (shrinkLoop_div lim f (m / 2) (e + 1)).1
      exact ih (m / 2) (e + 1) (by omega)
    · rename_i hm; simp; omega

/-- the rounded pair always covers `p` -/
theorem shrink_cover' (lim fuel p : Nat) (hp : 0 < p) :
    p ≤ ((shrinkLoop lim fuel (p - 1) 0).1 + 1) * 2 ^ (shrinkLoop lim fuel (p - 1) 0).2 := by
  obtain ⟨_, c⟩ := shrinkLoop_div lim fuel (p - 1) 0
  simp only [Nat.sub_zero] at c
  generalize shrinkLoop lim fuel (p - 1) 0 = r at *
  have h1 := Nat.lt_mul_div_succ (p - 1) (Nat.two_pow_pos r.2)
  rw [c]
  have h3 : 2 ^ r.2 * ((p - 1) / 2 ^ r.2 + 1) = ((p - 1) / 2 ^ r.2 + 1) * 2 ^ r.2 := Nat.mul_comm _ _
  omega

/-- the part of `MP2.Ok` that the soundness of the `probe ≤ 255` fast path needs -/
def MP2.Ok' (s : MP2) : Prop := s.e = 0 ∨ 256 ≤ s.dec

theorem MP2.init_ok' : MP2.Ok' ⟨0, 0⟩ := Or.inl rfl

/-- Open2N2 `UpdateMaxProbe`, any probe value: the bound covers the probe and never shrinks -/
theorem MP2.upd_ok' (s : MP2) (p : Nat) (hs : s.Ok') :
    (s.upd p).Ok' ∧ p ≤ (s.upd p).dec ∧ s.dec ≤ (s.upd p).dec := by
  unfold MP2.upd
  simp only [Extracted.open2n2FastLimit, Extracted.open2n2MantLimit]
  split
  · rename_i h
    refine ⟨hs, ?_, Nat.le_refl _⟩
    rcases h with h | h <;> omega
  · rename_i h
    have hp0 : 0 < p := by omega
    have hgt : s.dec < p := by omega
    split
    · rename_i h255
      have he : s.e = 0 := by
        rcases hs with h0 | h256
        · exact h0
        · omega
      refine ⟨Or.inl he, ?_, ?_⟩
      · simp [MP2.dec, he]
      · simp only [MP2.dec, he] at hgt ⊢; simp at hgt ⊢; omega
    · rename_i h255
      have hdec := shrink_cover' 255 64 p hp0
      generalize shrinkLoop 255 64 (p - 1) 0 = r at *
      refine ⟨Or.inr ?_, ?_, ?_⟩
      · simp only [MP2.dec]; omega
      · simpa [MP2.dec] using hdec
      · simp only [MP2.dec] at hgt ⊢; omega

theorem enc3_spec' (p : Nat) (hp : 0 < p) : enc3 p = infProbeExp ∨ p ≤ dec3 (enc3 p) := by
  unfold enc3
  simp only [Extracted.openN1MantLimit, Extracted.openN1ExpLimit]
  have hdec := shrink_cover' 7 64 p hp
  have hlt := shrinkLoop_lt 7 64 (p - 1) 0
  generalize shrinkLoop 7 64 (p - 1) 0 = r at *
  split
  · rename_i h31
    right
    have a : r.1 < 7 := hlt (by omega)
    rw [or_shift3 _ _ (by omega), dec3_eq]
    have h1 : (r.1 + 1 + 8 * r.2) % 8 = r.1 + 1 := by omega
    have h2 : (r.1 + 1 + 8 * r.2) / 8 = r.2 := by omega
    rw [h1, h2]; exact hdec
  · left; rfl

/-- OpenN1 / Open8 `UpdateMaxProbe` for a legal displacement `p < 2^L` (any `L`) -/
theorem upd3_cover (L b p : Nat) (hp : p < 2 ^ L) :
    p ≤ getMax3 L (upd3 b p) ∧ getMax3 L b ≤ getMax3 L (upd3 b p) := by
  unfold upd3
  split
  · rename_i h0; subst h0; exact ⟨Nat.zero_le _, Nat.le_refl _⟩
  · split
    · rename_i h0 h
      refine ⟨?_, Nat.le_refl _⟩
      unfold getMax3
      split
      · omega
      · rcases h with h | h
        · contradiction
        · exact h
    · rename_i h0 h
      have hp0 : 0 < p := by omega
      have hnb : b ≠ infProbeExp := fun hh => h (Or.inl hh)
      have hlt : dec3 b < p := by omega
      have hold : getMax3 L b = dec3 b := by simp [getMax3, hnb]
      rw [hold]
      rcases enc3_spec' p hp0 with hinf | hge
      · rw [hinf]; simp only [getMax3, if_true]; omega
      · unfold getMax3; split <;> omega

end Momo.Probe

namespace Momo.HT
open Momo Momo.Probe

/-- encoder state of a bucket is well formed (only Open2N2 has a state with an invariant) -/
def BstOK (sp : Spec) (b : Bucket) : Prop :=
  sp.bound = .mp2 → MP2.Ok' ⟨b.bst.1, b.bst.2⟩

theorem emptyBucket_bstOK (sp : Spec) : BstOK sp (emptyBucket sp) := fun _ => Or.inl rfl

@[simp] theorem updProbe_items (sp : Spec) (b : Bucket) (p : Nat) : (updProbe sp b p).items = b.items := by
  unfold updProbe; split <;> rfl

@[simp] theorem updProbe_wasFull (sp : Spec) (b : Bucket) (p : Nat) :
    (updProbe sp b p).wasFull = b.wasFull := by
  unfold updProbe; split <;> rfl

/-- `UpdateMaxProbe(p)` for every bound kind: afterwards the bound covers `p`, it never shrinks,
    and the encoder state stays well formed. `p = 0` is all the UnlimP bucket ever records. -/
theorem updProbe_spec (sp : Spec) (L : Nat) (b : Bucket) (p : Nat) (hp : p < 2 ^ L)
    (hz : sp.bound = .zero → p = 0) (hb : BstOK sp b) :
    BstOK sp (updProbe sp b p) ∧ p ≤ maxProbe sp L (updProbe sp b p) ∧
    maxProbe sp L b ≤ maxProbe sp L (updProbe sp b p) := by
  unfold BstOK maxProbe updProbe at *
  cases hk : sp.bound with
  | none => simp only [hk] at *; exact ⟨(fun h => by cases h), (by omega), Nat.le_refl _⟩
  | zero => simp only [hk] at *; exact ⟨(fun h => by cases h), (by have := hz trivial; omega), Nat.le_refl _⟩
  | mp2 =>
    simp only [hk] at *
    obtain ⟨a, c, d⟩ := MP2.upd_ok' ⟨b.bst.1, b.bst.2⟩ p (hb trivial)
    exact ⟨fun _ => a, c, d⟩
  | mp3 =>
    simp only [hk] at *
    obtain ⟨c, d⟩ := upd3_cover L b.bst.1 p hp
    exact ⟨(fun h => by cases h), c, d⟩

end Momo.HT
