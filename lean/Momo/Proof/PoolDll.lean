import Momo.Model.Pool
/-!
  Pointer level of `MemPool` (C09): the `prev`/`next` surgery of `pvDeleteBuffer`, `pvMoveBufferToHead`,
  `pvNewBlock` and `MergeFrom` implements the list operations of the state machine.
-/
namespace Momo.Pool

/-- first element of `l`, or `n` -/
def headOr (l : List Int) (n : Option Int) : Option Int :=
  match l with | [] => n | b :: _ => some b
/-- last element of `l`, or `p` -/
def lastOr : List Int → Option Int → Option Int
  | [], p => p
  | a :: t, _ => lastOr t (some a)

/-- the buffers of `l` form a doubly linked segment in heap `h`, entered from `p` and left to `n` -/
def Seg (h : Heap) : Option Int → List Int → Option Int → Prop
  | _, [], _ => True
  | p, a :: t, n => (h a).prev = p ∧ (h a).next = headOr t n ∧ Seg h (some a) t n

/-- a complete, well-formed doubly linked list -/
def IsDll (h : Heap) (l : List Int) : Prop := l.Nodup ∧ Seg h none l none

@[simp] theorem headOr_nil (n) : headOr [] n = n := rfl
@[simp] theorem headOr_cons (a t n) : headOr (a :: t) n = some a := rfl
@[simp] theorem lastOr_nil (p) : lastOr [] p = p := rfl
@[simp] theorem lastOr_cons (a t p) : lastOr (a :: t) p = lastOr t (some a) := rfl

theorem headOr_append (l1 l2 : List Int) (n) : headOr (l1 ++ l2) n = headOr l1 (headOr l2 n) := by
  cases l1 <;> simp

theorem lastOr_append (l1 l2 : List Int) (p) : lastOr (l1 ++ l2) p = lastOr l2 (lastOr l1 p) := by
  induction l1 generalizing p with
  | nil => simp
  | cons a t ih => simp [ih]

theorem lastOr_snoc (l : List Int) (x : Int) (p) : lastOr (l ++ [x]) p = some x := by
  rw [lastOr_append]; simp

theorem Seg_append (h : Heap) (l1 l2 : List Int) (p n : Option Int) :
    Seg h p (l1 ++ l2) n ↔ Seg h p l1 (headOr l2 n) ∧ Seg h (lastOr l1 p) l2 n := by
  induction l1 generalizing p with
  | nil => simp [Seg]
  | cons a t ih =>
    simp only [List.cons_append, Seg, ih, lastOr_cons, headOr_append]
    constructor
    · rintro ⟨h1, h2, h3, h4⟩; exact ⟨⟨h1, h2, h3⟩, h4⟩
    · rintro ⟨⟨h1, h2, h3⟩, h4⟩; exact ⟨h1, h2, h3, h4⟩

theorem Seg_congr {h h' : Heap} {l : List Int} (hl : ∀ x ∈ l, h' x = h x) (p n) :
    Seg h p l n → Seg h' p l n := by
  induction l generalizing p with
  | nil => simp [Seg]
  | cons a t ih =>
    intro ⟨h1, h2, h3⟩
    refine ⟨by rw [hl a (by simp)]; exact h1, by rw [hl a (by simp)]; exact h2, ?_⟩
    exact ih (fun x hx => hl x (by simp [hx])) _ h3

@[simp] theorem setPrev_same (h : Heap) (b v) : (setPrev h b v b) = ⟨v, (h b).next⟩ := by simp [setPrev]
@[simp] theorem setNext_same (h : Heap) (b v) : (setNext h b v b) = ⟨(h b).prev, v⟩ := by simp [setNext]
theorem setPrev_other (h : Heap) (b v x) (hx : x ≠ b) : setPrev h b v x = h x := by simp [setPrev, hx]
theorem setNext_other (h : Heap) (b v x) (hx : x ≠ b) : setNext h b v x = h x := by simp [setNext, hx]

/-- redirecting the `prev` of the first buffer of a segment -/
theorem Seg_setPrev_head (h : Heap) (x : Int) (t : List Int) (p n v) (hx : x ∉ t) :
    Seg h p (x :: t) n → Seg (setPrev h x v) v (x :: t) n := by
  intro ⟨_, h2, h3⟩
  refine ⟨by simp, by simpa using h2, ?_⟩
  exact Seg_congr (fun y hy => setPrev_other h x v y (fun e => hx (e ▸ hy))) _ _ h3

/-- redirecting the `next` of the last buffer of a segment -/
theorem Seg_setNext_last (h : Heap) (l : List Int) (x : Int) (p n v) (hx : x ∉ l) :
    Seg h p (l ++ [x]) n → Seg (setNext h x v) p (l ++ [x]) v := by
  rw [Seg_append, Seg_append]
  intro ⟨h1, h2, _, _⟩
  refine ⟨Seg_congr (fun y hy => setNext_other h x v y (fun e => hx (e ▸ hy))) _ _ h1, ?_, ?_, trivial⟩
  · simpa using h2
  · simp

theorem snoc_cases (l : List Int) : l = [] ∨ ∃ l' x, l = l' ++ [x] := by
  induction l with
  | nil => exact Or.inl rfl
  | cons a t ih =>
    right
    rcases ih with rfl | ⟨l', x, rfl⟩
    · exact ⟨[], a, rfl⟩
    · exact ⟨a :: l', x, rfl⟩

theorem lastOr_mem (l : List Int) (x : Int) (p : Option Int) (hl : l ≠ []) (h : lastOr l p = some x) : x ∈ l := by
  rcases snoc_cases l with rfl | ⟨l', y, rfl⟩
  · exact absurd rfl hl
  · rw [lastOr_snoc] at h; cases h; simp

theorem lastOr_none_mem (l : List Int) (x : Int) (h : lastOr l none = some x) : x ∈ l := by
  cases l with
  | nil => simp at h
  | cons a t => exact lastOr_mem _ _ _ (by simp) h

theorem headOr_none_mem (l : List Int) (x : Int) (h : headOr l none = some x) : x ∈ l := by
  cases l with
  | nil => simp at h
  | cons a t => simp at h; simp [h]

theorem setNextOpt_other (h : Heap) (o : Option Int) (v) (x : Int) (hx : ∀ b, o = some b → x ≠ b) :
    setNextOpt h o v x = h x := by
  cases o with
  | none => rfl
  | some b => exact setNext_other h b v x (hx b rfl)

theorem setPrevOpt_other (h : Heap) (o : Option Int) (v) (x : Int) (hx : ∀ b, o = some b → x ≠ b) :
    setPrevOpt h o v x = h x := by
  cases o with
  | none => rfl
  | some b => exact setPrev_other h b v x (hx b rfl)

/-- redirect the `next` of the last buffer of a (possibly empty) segment -/
theorem Seg_setNextOpt_last (h : Heap) (l : List Int) (p n v) (hnd : l.Nodup) :
    Seg h p l n → Seg (setNextOpt h (lastOr l none) v) p l v := by
  rcases snoc_cases l with rfl | ⟨l', x, rfl⟩
  · intro _; trivial
  · rw [lastOr_snoc]
    have hx : x ∉ l' := by
      have := List.nodup_append.mp hnd
      intro hm; exact this.2.2 x hm x (by simp) rfl
    exact Seg_setNext_last h l' x p n v hx

/-- redirect the `prev` of the first buffer of a (possibly empty) segment -/
theorem Seg_setPrevOpt_head (h : Heap) (l : List Int) (p n v) (hnd : l.Nodup) :
    Seg h p l n → Seg (setPrevOpt h (headOr l none) v) v l n := by
  cases l with
  | nil => intro _; trivial
  | cons x t =>
    have hx : x ∉ t := (List.nodup_cons.mp hnd).1
    exact Seg_setPrev_head h x t p n v hx

/-- **`pvDeleteBuffer` (643-648) unlinks exactly the given buffer.** -/
theorem ptrUnlink_split (h : Heap) (l1 l2 : List Int) (b : Int) (hd : IsDll h (l1 ++ b :: l2)) :
    IsDll (ptrUnlink h b) (l1 ++ l2) ∧ ∀ x, x ∉ l1 ++ b :: l2 → ptrUnlink h b x = h x := by
  obtain ⟨hnd, hs⟩ := hd
  rw [Seg_append] at hs
  obtain ⟨hs1, hbp, hbn, hs2⟩ := hs
  simp only [headOr_cons] at hs1
  have hnd' := List.nodup_append.mp hnd
  have hnd1 : l1.Nodup := hnd'.1
  have hnd2 : l2.Nodup := (List.nodup_cons.mp hnd'.2.1).2
  have hdisj : ∀ x ∈ l1, ∀ y ∈ l2, x ≠ y := fun x hx y hy => hnd'.2.2 x hx y (by simp [hy])
  unfold ptrUnlink
  rw [hbp, hbn]
  -- last of l1 and head of l2, as the code reads them from `b`
  have e1 : lastOr l1 none = lastOr l1 none := rfl
  refine ⟨⟨?_, ?_⟩, ?_⟩
  · exact List.nodup_append.mpr ⟨hnd1, hnd2, hdisj⟩
  · rw [Seg_append]
    constructor
    · -- l1 keeps its shape, its last `next` now points to the head of l2
      apply Seg_congr (h := setNextOpt h (lastOr l1 none) (headOr l2 none))
      · intro x hx
        apply setPrevOpt_other
        intro y hy e
        exact hdisj x hx y (headOr_none_mem _ _ hy) e
      · have := Seg_setNextOpt_last h l1 none (some b) (headOr l2 none) hnd1 hs1
        exact this
    · have hs2' : Seg (setNextOpt h (lastOr l1 none) (headOr l2 none)) (some b) l2 none := by
        apply Seg_congr _ _ _ hs2
        intro x hx
        apply setNextOpt_other
        intro y hy e
        exact hdisj y (lastOr_none_mem _ _ hy) x hx e.symm
      exact Seg_setPrevOpt_head _ l2 (some b) none (lastOr l1 none) hnd2 hs2'
  · intro x hx
    rw [setPrevOpt_other, setNextOpt_other]
    · intro y hy e; exact hx (by rw [e]; simp [lastOr_none_mem _ _ hy])
    · intro y hy e; exact hx (by rw [e]; simp [headOr_none_mem _ _ hy])

theorem Seg_setPrev_notin {h : Heap} {l : List Int} {p n} (b : Int) (v) (hb : b ∉ l) :
    Seg h p l n → Seg (setPrev h b v) p l n :=
  Seg_congr (fun x hx => setPrev_other h b v x (fun e => hb (e ▸ hx))) p n

theorem Seg_setNext_notin {h : Heap} {l : List Int} {p n} (b : Int) (v) (hb : b ∉ l) :
    Seg h p l n → Seg (setNext h b v) p l n :=
  Seg_congr (fun x hx => setNext_other h b v x (fun e => hb (e ▸ hx))) p n

theorem Seg_setNextOpt_notin {h : Heap} {l : List Int} {p n} (o : Option Int) (v)
    (hb : ∀ b, o = some b → b ∉ l) : Seg h p l n → Seg (setNextOpt h o v) p l n :=
  Seg_congr (fun x hx => setNextOpt_other h o v x (fun b hb' e => hb b hb' (e ▸ hx))) p n

theorem Seg_setPrevOpt_notin {h : Heap} {l : List Int} {p n} (o : Option Int) (v)
    (hb : ∀ b, o = some b → b ∉ l) : Seg h p l n → Seg (setPrevOpt h o v) p l n :=
  Seg_congr (fun x hx => setPrevOpt_other h o v x (fun b hb' e => hb b hb' (e ▸ hx))) p n

/-- **`pvMoveBufferToHead` (654-672).** In a well-formed list `X ++ b :: Y ++ head :: Z` the code moves `b`
    to the place just before `head` (it then becomes the head) and touches nothing outside the list. -/
theorem ptrMoveToHead_split (h : Heap) (X Y Z : List Int) (b hd : Int)
    (hdll : IsDll h (X ++ b :: (Y ++ hd :: Z))) :
    ∃ h', ptrMoveToHead h hd b = some h' ∧ IsDll h' (X ++ (Y ++ b :: hd :: Z)) ∧
      ∀ x, x ∉ X ++ b :: (Y ++ hd :: Z) → h' x = h x := by
  obtain ⟨hnd, hs⟩ := hdll
  rcases snoc_cases Y with rfl | ⟨Y', yl, rfl⟩
  · -- `b` is the buffer before the head: nothing to do
    have hs' := hs
    rw [Seg_append] at hs'
    obtain ⟨_, _, _, hhd, _⟩ := hs'
    refine ⟨h, ?_, ⟨by simpa using hnd, by simpa using hs⟩, fun _ _ => rfl⟩
    unfold ptrMoveToHead; rw [hhd]; simp
  · -- Y = Y' ++ [yl], its first element y0
    have hY : ∃ y0 Yt, Y' ++ [yl] = y0 :: Yt := by
      cases Y' with
      | nil => exact ⟨yl, [], rfl⟩
      | cons a t => exact ⟨a, t ++ [yl], rfl⟩
    obtain ⟨y0, Yt, hY⟩ := hY
    have hs' := hs
    rw [Seg_append] at hs'
    obtain ⟨hsX, hbp, hbn, hrest⟩ := hs'
    rw [Seg_append] at hrest
    obtain ⟨hsY, hhdp, hhdn, hsZ⟩ := hrest
    simp only [headOr_cons, lastOr_cons, lastOr_snoc] at hsX hbp hbn hsY hhdp hhdn hsZ
    rw [headOr_append, hY] at hbn; simp only [headOr_cons] at hbn
    have hbyl : b ≠ yl := by grind
    refine ⟨setNext (setPrev (setNext (setPrev (setNextOpt (setPrev h y0 (lastOr X none)) (lastOr X none) (some y0))
      b (some yl)) b (some hd)) hd (some b)) yl (some b), ?_, ?_, ?_⟩
    · unfold ptrMoveToHead; rw [hhdp]; simp only [hbyl, if_false, hbn, hbp]
    · refine ⟨by grind, ?_⟩
      rw [Seg_append, Seg_append]
      refine ⟨?_, ?_, ?_, ?_, ?_⟩
      · -- X
        simp only [headOr_append, hY, headOr_cons]
        apply Seg_setNext_notin yl _ (by grind)
        apply Seg_setPrev_notin hd _ (by grind)
        apply Seg_setNext_notin b _ (by grind)
        apply Seg_setPrev_notin b _ (by grind)
        have := Seg_setNextOpt_last (setPrev h y0 (lastOr X none)) X none (some b) (some y0) (by grind)
          (Seg_setPrev_notin y0 _ (by grind) hsX)
        exact this
      · -- Y
        simp only [headOr_cons]
        have h1 : Seg (setPrev h y0 (lastOr X none)) (lastOr X none) (Y' ++ [yl]) (some hd) := by
          rw [hY]; rw [hY] at hsY
          exact Seg_setPrev_head h y0 Yt _ _ _ (by grind) hsY
        have h2 := Seg_setNextOpt_notin (lastOr X none) (some y0)
          (by intro y hy; have := lastOr_none_mem X y hy; grind) h1
        have h5 := Seg_setPrev_notin hd (some b) (by grind)
          (Seg_setNext_notin b (some hd) (by grind) (Seg_setPrev_notin b (some yl) (by grind) h2))
        exact Seg_setNext_last _ Y' yl _ _ (some b) (by grind) h5
      · -- prev of b
        have e1 : b ≠ hd := by grind
        rw [lastOr_snoc, setNext_other _ _ _ _ hbyl, setPrev_other _ _ _ _ e1]
        simp
      · -- next of b
        have e1 : b ≠ hd := by grind
        rw [setNext_other _ _ _ _ hbyl, setPrev_other _ _ _ _ e1]
        simp
      · -- hd :: Z
        have e1 : hd ≠ yl := by grind
        have e2 : hd ≠ b := by grind
        have e3 : hd ≠ y0 := by grind
        refine ⟨?_, ?_, ?_⟩
        · rw [setNext_other _ _ _ _ e1]; simp
        · rw [setNext_other _ _ _ _ e1]
          simp only [setPrev_same]
          rw [setNext_other _ _ _ _ e2, setPrev_other _ _ _ _ e2]
          rw [setNextOpt_other _ _ _ _ (by intro y hy; have := lastOr_none_mem X y hy; grind)]
          rw [setPrev_other _ _ _ _ e3]
          exact hhdn
        · apply Seg_setNext_notin yl _ (by grind)
          apply Seg_setPrev_notin hd _ (by grind)
          apply Seg_setNext_notin b _ (by grind)
          apply Seg_setPrev_notin b _ (by grind)
          apply Seg_setNextOpt_notin _ _ (by intro y hy; have := lastOr_none_mem X y hy; grind)
          apply Seg_setPrev_notin y0 _ (by grind)
          exact hsZ
    · intro x hx
      have e1 : x ≠ yl := by grind
      have e2 : x ≠ hd := by grind
      have e3 : x ≠ b := by grind
      have e4 : x ≠ y0 := by grind
      rw [setNext_other _ _ _ _ e1, setPrev_other _ _ _ _ e2, setNext_other _ _ _ _ e3, setPrev_other _ _ _ _ e3,
        setNextOpt_other _ _ _ _ (by intro y hy; have := lastOr_none_mem X y hy; grind), setPrev_other _ _ _ _ e4]

/-- two well-formed doubly linked lists over disjoint sets of buffers in one heap -/
def TwoLists (h : Heap) (l1 l2 : List Int) : Prop :=
  (l1 ++ l2).Nodup ∧ Seg h none l1 none ∧ Seg h none l2 none

/-- **one round of the first loop of `MergeFrom` (408-422).** The buffer before the other head moves to the
    place just before this head. -/
theorem ptrMergeStep_split (h : Heap) (X Z U W : List Int) (th oh bf : Int)
    (hl : TwoLists h (X ++ th :: Z) (U ++ bf :: oh :: W)) :
    TwoLists (ptrMergeStep h th oh bf) (X ++ bf :: th :: Z) (U ++ oh :: W) ∧
    ∀ x, x ∉ (X ++ th :: Z) ++ (U ++ bf :: oh :: W) → ptrMergeStep h th oh bf x = h x := by
  obtain ⟨hnd, hs1, hs2⟩ := hl
  rw [Seg_append] at hs1 hs2
  obtain ⟨hsX, hthp, hthn, hsZ⟩ := hs1
  obtain ⟨hsU, hbfp, hbfn, hohp, hohn, hsW⟩ := hs2
  simp only [headOr_cons] at hsX hsU hbfn hohn
  have hLX : ∀ y, lastOr X none = some y → y ∈ X := fun y hy => lastOr_none_mem X y hy
  have hLU : ∀ y, lastOr U none = some y → y ∈ U := fun y hy => lastOr_none_mem U y hy
  have e_th_oh : th ≠ oh := by grind
  have e_th_bf : th ≠ bf := by grind
  have e_oh_bf : oh ≠ bf := by grind
  have hthp1 : ((setPrev (setNextOpt h (h bf).prev (some oh)) oh (h bf).prev) th).prev = lastOr X none := by
    rw [setPrev_other _ _ _ _ e_th_oh, setNextOpt_other _ _ _ _ (by rw [hbfp]; intro y hy; have := hLU y hy; grind)]
    exact hthp
  unfold ptrMergeStep
  simp only [hthp1]
  rw [hbfp]
  refine ⟨⟨by grind, ?_, ?_⟩, ?_⟩
  · -- this list: X ++ bf :: th :: Z
    rw [Seg_append]
    refine ⟨?_, ?_, ?_, ?_, ?_, ?_⟩
    · simp only [headOr_cons]
      apply Seg_setPrev_notin th _ (by grind)
      have h0 : Seg (setNext (setPrev (setPrev (setNextOpt h (lastOr U none) (some oh)) oh (lastOr U none)) bf (lastOr X none)) bf (some th))
          none X (some th) := by
        apply Seg_setNext_notin bf _ (by grind)
        apply Seg_setPrev_notin bf _ (by grind)
        apply Seg_setPrev_notin oh _ (by grind)
        apply Seg_setNextOpt_notin _ _ (by intro y hy; have := hLU y hy; grind)
        exact hsX
      exact Seg_setNextOpt_last _ X none (some th) (some bf) (by grind) h0
    · rw [setPrev_other _ _ _ _ e_th_bf.symm, setNextOpt_other _ _ _ _ (by intro y hy; have := hLX y hy; grind)]
      simp
    · rw [setPrev_other _ _ _ _ e_th_bf.symm, setNextOpt_other _ _ _ _ (by intro y hy; have := hLX y hy; grind)]
      simp
    · simp
    · simp only [setPrev_same]
      rw [setNextOpt_other _ _ _ _ (by intro y hy; have := hLX y hy; grind), setNext_other _ _ _ _ e_th_bf,
        setPrev_other _ _ _ _ e_th_bf, setPrev_other _ _ _ _ e_th_oh,
        setNextOpt_other _ _ _ _ (by intro y hy; have := hLU y hy; grind)]
      exact hthn
    · apply Seg_setPrev_notin th _ (by grind)
      apply Seg_setNextOpt_notin _ _ (by intro y hy; have := hLX y hy; grind)
      apply Seg_setNext_notin bf _ (by grind)
      apply Seg_setPrev_notin bf _ (by grind)
      apply Seg_setPrev_notin oh _ (by grind)
      apply Seg_setNextOpt_notin _ _ (by intro y hy; have := hLU y hy; grind)
      exact hsZ
  · -- other list: U ++ oh :: W
    rw [Seg_append]
    refine ⟨?_, ?_, ?_, ?_⟩
    · simp only [headOr_cons]
      apply Seg_setPrev_notin th _ (by grind)
      apply Seg_setNextOpt_notin _ _ (by intro y hy; have := hLX y hy; grind)
      apply Seg_setNext_notin bf _ (by grind)
      apply Seg_setPrev_notin bf _ (by grind)
      apply Seg_setPrev_notin oh _ (by grind)
      exact Seg_setNextOpt_last h U none (some bf) (some oh) (by grind) hsU
    · rw [setPrev_other _ _ _ _ e_th_oh.symm, setNextOpt_other _ _ _ _ (by intro y hy; have := hLX y hy; grind),
        setNext_other _ _ _ _ e_oh_bf, setPrev_other _ _ _ _ e_oh_bf]
      simp
    · rw [setPrev_other _ _ _ _ e_th_oh.symm, setNextOpt_other _ _ _ _ (by intro y hy; have := hLX y hy; grind),
        setNext_other _ _ _ _ e_oh_bf, setPrev_other _ _ _ _ e_oh_bf]
      simp only [setPrev_same]
      rw [setNextOpt_other _ _ _ _ (by intro y hy; have := hLU y hy; grind)]
      exact hohn
    · apply Seg_setPrev_notin th _ (by grind)
      apply Seg_setNextOpt_notin _ _ (by intro y hy; have := hLX y hy; grind)
      apply Seg_setNext_notin bf _ (by grind)
      apply Seg_setPrev_notin bf _ (by grind)
      apply Seg_setPrev_notin oh _ (by grind)
      apply Seg_setNextOpt_notin _ _ (by intro y hy; have := hLU y hy; grind)
      exact hsW
  · intro x hx
    have e1 : x ≠ th := by grind
    have e2 : x ≠ bf := by grind
    have e3 : x ≠ oh := by grind
    rw [setPrev_other _ _ _ _ e1, setNextOpt_other _ _ _ _ (by intro y hy; have := hLX y hy; grind),
      setNext_other _ _ _ _ e2, setPrev_other _ _ _ _ e2, setPrev_other _ _ _ _ e3,
      setNextOpt_other _ _ _ _ (by intro y hy; have := hLU y hy; grind)]

/-- the first loop of `MergeFrom` moves every buffer standing before the other head, nearest first, to the
    place before this head: the list view is `mergeMoveFull` -/
theorem ptrMergeLoop_spec (th oh : Int) (Z W : List Int) :
    ∀ (pre2 pre1 : List Int) (h : Heap) (fuel : Nat), pre2.length ≤ fuel →
      TwoLists h (pre1.reverse ++ th :: Z) (pre2.reverse ++ oh :: W) →
      TwoLists (ptrMergeLoop th oh fuel h) ((mergeMoveFull pre2 pre1).reverse ++ th :: Z) (oh :: W) ∧
      ∀ x, x ∉ (pre1.reverse ++ th :: Z) ++ (pre2.reverse ++ oh :: W) → ptrMergeLoop th oh fuel h x = h x := by
  intro pre2
  induction pre2 with
  | nil =>
    intro pre1 h fuel _ hl
    have hp : (h oh).prev = none := by
      obtain ⟨_, _, hs2⟩ := hl
      simp only [List.reverse_nil, List.nil_append] at hs2
      exact hs2.1
    have : ptrMergeLoop th oh fuel h = h := by
      cases fuel with
      | zero => rfl
      | succ f => simp [ptrMergeLoop, hp]
    rw [this]
    exact ⟨by simpa [mergeMoveFull] using hl, fun _ _ => rfl⟩
  | cons bf rest ih =>
    intro pre1 h fuel hf hl
    cases fuel with
    | zero => simp at hf
    | succ f =>
      have hl' : TwoLists h (pre1.reverse ++ th :: Z) (rest.reverse ++ bf :: oh :: W) := by
        simpa [List.reverse_cons, List.append_assoc] using hl
      have hp : (h oh).prev = some bf := by
        obtain ⟨_, _, hs2⟩ := hl'
        rw [Seg_append] at hs2
        exact hs2.2.2.2.1
      obtain ⟨hstep, hframe⟩ := ptrMergeStep_split h pre1.reverse Z rest.reverse W th oh bf hl'
      have hstep' : TwoLists (ptrMergeStep h th oh bf) ((bf :: pre1).reverse ++ th :: Z) (rest.reverse ++ oh :: W) := by
        simpa [List.reverse_cons, List.append_assoc] using hstep
      obtain ⟨h1, h2⟩ := ih (bf :: pre1) (ptrMergeStep h th oh bf) f (by simpa using hf) hstep'
      simp only [ptrMergeLoop, hp]
      refine ⟨by simpa [mergeMoveFull] using h1, ?_⟩
      intro x hx
      rw [h2 x (by simp only [List.reverse_cons, List.append_assoc, List.mem_append, List.mem_cons,
                  List.mem_reverse, List.mem_nil_iff, or_false] at hx ⊢; grind)]
      exact hframe x (by simp only [List.reverse_cons, List.append_assoc, List.mem_append, List.mem_cons,
                  List.mem_reverse, List.mem_nil_iff, or_false] at hx ⊢; grind)

theorem mem_mergeMoveFull (x : Int) : ∀ (a b : List Int), x ∈ mergeMoveFull a b ↔ x ∈ a ∨ x ∈ b := by
  intro a
  induction a with
  | nil => intro b; simp [mergeMoveFull]
  | cons c cs ih => intro b; simp only [mergeMoveFull, ih, List.mem_cons]; grind

/-- `ptrLast` walks to the end of a segment that ends in `none` -/
theorem ptrLast_spec (h : Heap) : ∀ (t : List Int) (a : Int) (p : Option Int) (fuel : Nat), t.length ≤ fuel →
    Seg h p (a :: t) none → some (ptrLast fuel h a) = lastOr (a :: t) p := by
  intro t
  induction t with
  | nil =>
    intro a p fuel _ hs
    have hn : (h a).next = none := hs.2.1
    cases fuel with
    | zero => rfl
    | succ f => simp [ptrLast, hn]
  | cons b t ih =>
    intro a p fuel hf hs
    cases fuel with
    | zero => simp at hf
    | succ f =>
      have hn : (h a).next = some b := hs.2.1
      simp only [ptrLast, hn, lastOr_cons]
      exact ih b (some a) f (by simpa using hf) hs.2.2

/-- **pointer-level `MergeFrom` (406-433) keeps a well-formed doubly linked list containing exactly the buffers
    of both pools**: if both pools have a well-formed list with a head (`pre.reverse ++ head :: post`) over
    disjoint buffers, the heap afterwards holds the single list
    `(mergeMoveFull pre2 pre1).reverse ++ thisHead :: post1 ++ otherHead :: post2`,
    and no buffer outside the two lists is touched. -/
theorem ptrMergeFrom_refines (h : Heap) (pre1 post1 pre2 post2 : List Int) (th oh : Int) (fuel : Nat)
    (hf1 : pre2.length ≤ fuel) (hf2 : post1.length ≤ fuel)
    (hl : TwoLists h (pre1.reverse ++ th :: post1) (pre2.reverse ++ oh :: post2)) :
    IsDll (ptrMergeFrom fuel h th oh)
      (((mergeMoveFull pre2 pre1).reverse ++ th :: post1) ++ oh :: post2) ∧
    ∀ x, x ∉ (pre1.reverse ++ th :: post1) ++ (pre2.reverse ++ oh :: post2) → ptrMergeFrom fuel h th oh x = h x := by
  obtain ⟨⟨hnd, hs1, hs2⟩, hframe⟩ := ptrMergeLoop_spec th oh post1 post2 pre2 pre1 h fuel hf1 hl
  have hX : ∀ x ∈ (mergeMoveFull pre2 pre1).reverse, x ∈ pre2 ∨ x ∈ pre1 := by
    intro x hx; exact (mem_mergeMoveFull x pre2 pre1).mp (List.mem_reverse.mp hx)
  unfold ptrMergeFrom
  generalize ptrMergeLoop th oh fuel h = h1 at *
  generalize (mergeMoveFull pre2 pre1).reverse = X at *
  -- the last buffer of this list
  have hs1' := hs1
  rw [Seg_append] at hs1'
  have hlast := ptrLast_spec h1 post1 th (lastOr X none) fuel hf2 hs1'.2
  obtain ⟨L, lst, hL⟩ : ∃ L lst, X ++ th :: post1 = L ++ [lst] := by
    rcases snoc_cases (X ++ th :: post1) with e | ⟨L, x, e⟩
    · simp at e
    · exact ⟨L, x, e⟩
  have hlst : ptrLast fuel h1 th = lst := by
    have : lastOr (X ++ th :: post1) none = some lst := by rw [hL, lastOr_snoc]
    rw [lastOr_append] at this
    rw [this] at hlast
    exact Option.some.inj hlast
  rw [hlst]
  have hnd' : (L ++ [lst] ++ oh :: post2).Nodup := by rw [← hL]; exact hnd
  refine ⟨⟨hnd, ?_⟩, ?_⟩
  · rw [hL, Seg_append]
    constructor
    · simp only [headOr_cons]
      apply Seg_setPrev_notin oh _ (by grind)
      rw [hL] at hs1
      exact Seg_setNext_last h1 L lst none none (some oh) (by grind) hs1
    · rw [lastOr_snoc]
      have h2 : Seg (setNext h1 lst (some oh)) none (oh :: post2) none :=
        Seg_setNext_notin lst _ (by grind) hs2
      exact Seg_setPrev_head _ oh post2 none none (some lst) (by grind) h2
  · intro x hx
    have hmem : lst ∈ X ++ th :: post1 := by rw [hL]; simp
    have hxl : x ≠ lst := by
      intro e; subst e
      apply hx
      simp only [List.mem_append, List.mem_cons, List.mem_reverse] at hmem ⊢
      rcases hmem with hm | hm | hm
      · rcases hX _ hm with h' | h'
        · exact Or.inr (Or.inl h')
        · exact Or.inl (Or.inl h')
      · exact Or.inl (Or.inr (Or.inl hm))
      · exact Or.inl (Or.inr (Or.inr hm))
    have hxo : x ≠ oh := by
      intro e; apply hx; simp [e]
    rw [setPrev_other _ _ _ _ hxo, setNext_other _ _ _ _ hxl]
    exact hframe x hx

/-- **`pvNewBuffer` 627-628 + `pvNewBlock` 528-529**: a new buffer is linked behind the last buffer -/
theorem ptrAppend_refines (h : Heap) (L : List Int) (hd nb : Int) (hdll : IsDll h (L ++ [hd]))
    (hnb : nb ∉ L ++ [hd]) :
    IsDll (ptrAppend (ptrInit h nb) hd nb) (L ++ [hd] ++ [nb]) ∧
    ∀ x, x ∉ L ++ [hd] ++ [nb] → ptrAppend (ptrInit h nb) hd nb x = h x := by
  obtain ⟨hnd, hs⟩ := hdll
  have e1 : hd ≠ nb := by grind
  have hndL : hd ∉ L := by grind
  unfold ptrAppend ptrInit
  refine ⟨⟨by grind, ?_⟩, ?_⟩
  · rw [Seg_append]
    constructor
    · simp only [headOr_cons]
      apply Seg_setPrev_notin nb _ (by grind)
      apply Seg_setNext_last _ L hd none none (some nb) hndL
      apply Seg_setNext_notin nb _ hnb
      apply Seg_setPrev_notin nb _ hnb
      exact hs
    · rw [lastOr_snoc]
      refine ⟨by simp, ?_, trivial⟩
      simp only [setPrev_same, headOr_nil]
      rw [setNext_other _ _ _ _ e1.symm]
      simp
  · intro x hx
    have e2 : x ≠ nb := by grind
    have e3 : x ≠ hd := by grind
    rw [setPrev_other _ _ _ _ e2, setNext_other _ _ _ _ e3, setNext_other _ _ _ _ e2, setPrev_other _ _ _ _ e2]

end Momo.Pool
