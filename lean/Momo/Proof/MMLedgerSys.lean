import Momo.Proof.MMLedgerOps
/-!
  C03 / C04 for `momo::HashMultiMap`, part 3: `Clear`, destructor, constructors, copy, `Remove(pairFilter)`, pool traffic, and
  the system of two multimaps: every operation keeps the ledger on the books (`step_ok`), whole histories (`run_ok`), the end
  of a history leaves nothing (`finish_clean`), a failing strongly exception-safe operation changes nothing (`step_strong`).
-/
namespace Momo.MML
open Momo Momo.HT Momo.Ledger Momo.MMap Momo.HTL

/-! ### `Clear`, destructor -/

theorem clearArrays_led (cfg : Cfg) (FB : List Blk) (FE : List Nat) : ∀ (l : VBs) (w : W),
    Led w ((vHeaps l).map (blkOf cfg.h) ++ FB) (vObjs l ++ FE) → Led (clearArrays cfg l w) FB FE := by
  intro l
  induction l with
  | nil => intro w h; simpa [vHeaps, vObjs, clearArrays] using h
  | cons p r ih =>
    intro w h
    obtain ⟨k, b⟩ := p
    simp only [clearArrays]
    apply ih
    apply vbRemoveAll_led cfg b w
    simpa [vHeaps_cons, vObjs_cons, hbk, List.append_assoc] using h

/-- `pvClearValueArrays`: what is left is the key table, the value crew and the frame -/
theorem clearValuesL_led (cfg : Cfg) (st : St) (w : W) (FB : List Blk) (FE : List Nat)
    (h : Led w (st.blocks cfg ++ FB) (st.elems ++ FE)) :
    Led (clearValuesL cfg st w) (st.kt.blocks cfg.h ++ ((optL st.vcrew).map (fun b => (b, cfg.h.mgr, cfg.vsz)) ++ FB))
      (st.kt.elems ++ FE) := by
  unfold clearValuesL
  apply freeAllBufs_led cfg.h
  apply clearArrays_led cfg
  refine h.perm ?_ ?_
  · simp only [St.blocks, vblocks_eq, vblk]; perm_count
  · simp only [St.elems]; perm_count

theorem HTL_clearL_books (cfg : HTL.Cfg) (st : HTL.St) (w : W) (hb : HTL.BooksOK st) :
    HTL.BooksOK (HTL.clearL cfg st true w).1 ∧ (HTL.clearL cfg st true w).1.arrs = [] ∧ (HTL.clearL cfg st true w).1.params = none ∧
    (HTL.clearL cfg st true w).1.bufs = [] ∧ (HTL.clearL cfg st true w).1.els = [] ∧ (HTL.clearL cfg st true w).1.crew = st.crew := by
  unfold HTL.clearL
  cases harr : st.arrs with
  | nil =>
    obtain ⟨n1, n2, n3⟩ := hb.nil harr
    exact ⟨hb, harr, n1, n2, n3, rfl⟩
  | cons a older =>
    simp only [if_true]
    have hg : st.t.gens ≠ [] := by
      intro hc; have := hb.len; rw [hc, harr] at this; simp at this
    refine ⟨⟨?_, fun _ => ⟨rfl, rfl, rfl⟩⟩, by simp⟩
    cases hgs : st.t.gens with
    | nil => exact absurd hgs hg
    | cons g rest => simp [clear, hgs, emptyTable]

theorem clearL_led (cfg : Cfg) (st : St) (w : W) (FB : List Blk) (FE : List Nat) (hb : HTL.BooksOK st.kt)
    (h : Led w (st.blocks cfg ++ FB) (st.elems ++ FE)) :
    Led (clearL cfg st w).2 ((clearL cfg st w).1.blocks cfg ++ FB) ((clearL cfg st w).1.elems ++ FE) ∧
    HTL.BooksOK (clearL cfg st w).1.kt := by
  have h1 := clearValuesL_led cfg st w FB FE h
  have h2 := HTL.clearL_led cfg.h st.kt true _ _ _ hb.nil h1
  refine ⟨?_, (HTL_clearL_books cfg.h st.kt _ hb).1⟩
  unfold clearL
  refine h2.perm ?_ ?_
  · simp [St.blocks, vblocks_eq, vblk, vHeaps]
  · simp [St.elems, vObjs]

/-- **after `Clear` the container holds its two crew blocks and nothing else, no key and no value is alive** -/
theorem clearL_books (cfg : Cfg) (st : St) (w : W) (hb : HTL.BooksOK st.kt) :
    (clearL cfg st w).1.blocks cfg = (optL st.kt.crew).map (fun b => (b, cfg.h.mgr, cfg.h.csz)) ++
      (optL st.vcrew).map (fun b => (b, cfg.h.mgr, cfg.vsz)) ∧ (clearL cfg st w).1.elems = [] := by
  obtain ⟨_, c1, c2, c3, c4, c5⟩ := HTL_clearL_books cfg.h st.kt (clearValuesL cfg st w) hb
  unfold clearL
  simp [St.blocks, St.elems, HTL.St.blocks_eq, HTL.St.elems, vblocks_eq, vblk, vHeaps, vObjs, c1, c2, c3, c4, c5, optL]

theorem freeCrew_led (cfg : Cfg) (c : Option Nat) (w : W) (FB : List Blk) (E : List Nat)
    (h : Led w ((optL c).map (fun b => (b, cfg.h.mgr, cfg.vsz)) ++ FB) E) : Led (freeCrew cfg c w) FB E := by
  cases c with
  | none => simpa [freeCrew, optL] using h
  | some b =>
    simp only [freeCrew]
    exact Led.free (b := b) (m := cfg.h.mgr) (n := cfg.vsz) (by simpa [optL] using h)

theorem destroyL_led (cfg : Cfg) (st : St) (w : W) (FB : List Blk) (FE : List Nat) (hb : HTL.BooksOK st.kt)
    (h : Led w (st.blocks cfg ++ FB) (st.elems ++ FE)) : Led (destroyL cfg st w) FB FE := by
  have h1 := clearValuesL_led cfg st w FB FE h
  have h2 : Led (freeCrew cfg st.vcrew (clearValuesL cfg st w)) (st.kt.blocks cfg.h ++ FB) (st.kt.elems ++ FE) :=
    freeCrew_led cfg _ _ _ _ (h1.perm (by perm_count) (List.Perm.refl _))
  exact HTL.destroyL_led cfg.h st.kt _ FB FE hb.nil h2

/-! ### constructors -/

/-- what a constructor does to the ledger: a failed one leaves it as it was -/
def CtorPost (cfg : Cfg) (FB : List Blk) (FE : List Nat) : Option St × W → Prop
  | (none, w') => Led w' FB FE
  | (some st', w') => Led w' (st'.blocks cfg ++ FB) (st'.elems ++ FE) ∧ HTL.BooksOK st'.kt

theorem newL_led (cfg : Cfg) (f : Flt) (w : W) (FB : List Blk) (FE : List Nat) (h : Led w FB FE) :
    CtorPost cfg FB FE (newL cfg f w) := by
  have hn := HTL.newL_led cfg.h f.k w FB FE h
  unfold newL
  cases hnew : HTL.newL cfg.h f.k w with
  | mk o w0 =>
    rw [hnew] at hn
    cases o with
    | none => exact hn
    | some kt =>
      obtain ⟨n1, n2⟩ := hn
      simp only
      split
      · exact HTL.destroyL_led cfg.h kt w0 FB FE n2.nil n1
      · obtain ⟨a1, a2⟩ := n1.alloc cfg.h.mgr cfg.vsz
        refine ⟨?_, n2⟩
        rw [a2]
        refine a1.perm ?_ ?_
        · simp only [St.blocks, vblocks_eq, vblk, vHeaps, optL]; simp; perm_count
        · simp [St.elems, vObjs]

theorem copyGo_led (cfg : Cfg) (hf : Nat → Nat) (src : VBs) (f : Nat → Flt) (FB : List Blk) (FE : List Nat)
    (hs : ∀ k, ∀ e ∈ (getV src k).objs, e ∈ FE) :
    ∀ (items : List Item) (n : Nat) (st : St) (w : W), HTL.BooksOK st.kt → Led w (st.blocks cfg ++ FB) (st.elems ++ FE) →
      Led (copyGo cfg hf src f items n st w).2.1 ((copyGo cfg hf src f items n st w).1.blocks cfg ++ FB)
        ((copyGo cfg hf src f items n st w).1.elems ++ FE) ∧ HTL.BooksOK (copyGo cfg hf src f items n st w).1.kt := by
  intro items
  induction items with
  | nil => intro n st w hb h; exact ⟨h, hb⟩
  | cons it r ih =>
    intro n st w hb h
    simp only [copyGo]
    have h1 := vbCopy_led cfg (getV src it.key) (f n).v w _ _
      (fun e he => List.mem_append_right _ (hs it.key e he)) h
    cases hr : vbCopy cfg (getV src it.key) (f n).v w with
    | mk o w1 =>
      rw [hr] at h1
      cases o with
      | none =>
        simp only
        exact ⟨by simpa [VPost, hbk, optL] using h1, hb⟩
      | some b =>
        simp only
        have h1' : Led w1 (hbk cfg b ++ (st.blocks cfg ++ FB)) (b.objs ++ (st.elems ++ FE)) := h1
        have h2 : Led w1 (st.kt.blocks cfg.h ++ (st.vblocks cfg ++ (hbk cfg b ++ FB))) (st.kt.elems ++ (vObjs st.vbs ++ (b.objs ++ FE))) :=
          h1'.perm (by simp only [St.blocks]; perm_count) (by simp only [St.elems]; perm_count)
        obtain ⟨a1, a2⟩ := HTL.insertL_led cfg.h hf st.kt it .fresh (f n).k w1 _ _ _ hb (crSpec_fresh cfg.h _) h2
        generalize HTL.insertL cfg.h hf st.kt it .fresh (f n).k w1 = q at a1 a2 ⊢
        obtain ⟨kt1, w2, o⟩ := q
        by_cases ho : o = .done .ok
        · subst ho
          obtain ⟨b1, b2⟩ := a2 rfl
          simp only at b1 b2 ⊢
          apply ih
          · exact b2
          · refine b1.perm ?_ ?_
            · simp only [St.blocks, vblocks_eq, vblk, vHeaps_cons, hbk, List.map_append]; perm_count
            · simp only [St.elems, vObjs_cons]; perm_count
        · obtain ⟨b1, b2⟩ := a1 ho
          simp only at b1 b2
          subst b1
          have h3 : Led w2 (hbk cfg b ++ (st.blocks cfg ++ FB)) (b.objs ++ (st.elems ++ FE)) :=
            b2.perm (by simp only [St.blocks]; perm_count) (by simp only [St.elems]; perm_count)
          have h4 := vbRemoveAll_led cfg b w2 _ _ h3
          cases o with
          | done oc => cases oc <;> first | exact absurd rfl ho | exact ⟨h4, hb⟩
          | no => exact ⟨h4, hb⟩
          | user => exact ⟨h4, hb⟩

theorem copyL_led (cfg : Cfg) (hf : Nat → Nat) (src : St) (f0 : Flt) (f : Nat → Flt) (w : W) (FB : List Blk) (FE : List Nat)
    (hs : ∀ k, ∀ e ∈ (getV src.vbs k).objs, e ∈ FE) (h : Led w FB FE) : CtorPost cfg FB FE (copyL cfg hf src f0 f w) := by
  have hn := newL_led cfg f0 w FB FE h
  unfold copyL
  cases hnew : newL cfg f0 w with
  | mk o w0 =>
    rw [hnew] at hn
    cases o with
    | none => exact hn
    | some st0 =>
      obtain ⟨n1, n2⟩ := hn
      simp only
      obtain ⟨r1, r2, r3⟩ := HTL.reserveL_led cfg.h hf st0.kt src.kt.t.count f0.k w0 _ _ n2 (kt_out n1)
      generalize HTL.reserveL cfg.h hf st0.kt src.kt.t.count f0.k w0 = q at r1 r2 r3 ⊢
      obtain ⟨kt1, w1, o⟩ := q
      simp only at r2 r3
      have h0 : Led w1 (({ st0 with kt := kt1 } : St).blocks cfg ++ FB) (({ st0 with kt := kt1 } : St).elems ++ FE) := kt_in _ r2
      cases o with
      | ok =>
        simp only
        have h0' : Led w1 (({ st0 with kt := kt1, count := src.count } : St).blocks cfg ++ FB)
            (({ st0 with kt := kt1, count := src.count } : St).elems ++ FE) := h0
        obtain ⟨g1, g2⟩ := copyGo_led cfg hf src.vbs f FB FE hs (traverse src.kt.t) 0 _ w1 r3 h0'
        generalize copyGo cfg hf src.vbs f (traverse src.kt.t) 0 { st0 with kt := kt1, count := src.count } w1 = q2 at g1 g2 ⊢
        obtain ⟨st2, w2, thr⟩ := q2
        cases thr with
        | false => exact ⟨g1, g2⟩
        | true => exact destroyL_led cfg st2 w2 FB FE g2 g1
      | full => exact destroyL_led cfg _ w1 FB FE r3 h0
      | badAlloc => exact destroyL_led cfg _ w1 FB FE r3 h0
      | invalid => exact destroyL_led cfg _ w1 FB FE r3 h0

/-! ### `Remove(pairFilter)` -/

theorem removeIfKey_led (cfg : Cfg) (p : Nat → Bool) (fl : Nat → VFlt) (FB : List Blk) (FE : List Nat) :
    ∀ (fuel : Nat) (b : VB) (i n : Nat) (w : W), Led w (hbk cfg b ++ FB) (b.objs ++ FE) →
      Led (removeIfKey cfg p fl fuel b i n w).2.1 (hbk cfg (removeIfKey cfg p fl fuel b i n w).1 ++ FB)
        ((removeIfKey cfg p fl fuel b i n w).1.objs ++ FE) := by
  intro fuel
  induction fuel with
  | zero => intro b i n w h; exact h
  | succ fuel ih =>
    intro b i n w h
    simp only [removeIfKey]
    split
    · exact h
    · split
      · have h1 := vbRemoveAt_led cfg b i (fl n) w FB FE h
        cases hr : vbRemoveAt cfg b i (fl n) w with
        | mk o w1 =>
          rw [hr] at h1
          cases o with
          | none => exact h1
          | some b1 => exact ih b1 i (n + 1) w1 h1
      · exact ih b (i + 1) n w h

theorem removeIfGo_led (cfg : Cfg) (p : Nat → Nat → Bool) (fl : Nat → VFlt) (FB : List Blk) (FE : List Nat) :
    ∀ (ks : List Nat) (st : St) (n : Nat) (w : W), HTL.BooksOK st.kt → Led w (st.blocks cfg ++ FB) (st.elems ++ FE) →
      Led (removeIfGo cfg p fl ks st n w).2.1 ((removeIfGo cfg p fl ks st n w).1.blocks cfg ++ FB)
        ((removeIfGo cfg p fl ks st n w).1.elems ++ FE) ∧ HTL.BooksOK (removeIfGo cfg p fl ks st n w).1.kt := by
  intro ks
  induction ks with
  | nil => intro st n w hb h; exact ⟨h, hb⟩
  | cons k r ih =>
    intro st n w hb h
    simp only [removeIfGo]
    cases hl : lookV st.vbs k with
    | none => exact ih st n w hb h
    | some b =>
      simp only
      have hg : getV st.vbs k = b := by simp [getV, hl]
      have h0 := key_out (cfg := cfg) k h
      rw [hg] at h0
      have h1 := removeIfKey_led cfg (p k) fl _ _ b.arr.count b 0 n w h0
      generalize removeIfKey cfg (p k) fl b.arr.count b 0 n w = q at h1 ⊢
      obtain ⟨b1, w1, n1, thr⟩ := q
      have h2 := key_in (cfg := cfg) (st := st) k b1 (st.count - (n1 - n)) h1
      cases thr with
      | true => exact ⟨h2, hb⟩
      | false => exact ih _ n1 w1 hb h2

/-! ### pool traffic -/

theorem poolTraffic_led (cfg : Cfg) (st : St) (p : HTL.PoolT) (w : W) (FB : List Blk) (E : List Nat)
    (h : Led w (st.blocks cfg ++ FB) E) :
    Led (poolTraffic cfg st p w).2 ((poolTraffic cfg st p w).1.blocks cfg ++ FB) E ∧
    (poolTraffic cfg st p w).1.kt = st.kt ∧ (poolTraffic cfg st p w).1.elems = st.elems := by
  unfold poolTraffic
  split
  · exact ⟨h, rfl, rfl⟩
  · refine ⟨?_, rfl, rfl⟩
    have h1 : Led w (st.pbufs.map (blkOf cfg.h) ++ (st.kt.blocks cfg.h ++ vblk cfg st.vcrew (vHeaps st.vbs) [] ++ FB)) E :=
      h.perm (by simp only [St.blocks, vblocks_eq, vblk]; perm_count) (List.Perm.refl _)
    have h2 := getBufs_led cfg.h _ E p.gets st.pbufs w h1
    have h3 := freeBufs_led cfg.h _ E p.frees _ _ h2
    exact h3.perm (by simp only [St.blocks, vblocks_eq, vblk]; perm_count) (List.Perm.refl _)

theorem ktTraffic_led (cfg : Cfg) (st : St) (p : HTL.PoolT) (w : W) (FB : List Blk) (E : List Nat)
    (hb : HTL.BooksOK st.kt) (h : Led w (st.blocks cfg ++ FB) E) :
    Led (ktTraffic cfg st p w).2 ((ktTraffic cfg st p w).1.blocks cfg ++ FB) E ∧ HTL.BooksOK (ktTraffic cfg st p w).1.kt ∧
    (ktTraffic cfg st p w).1.elems = st.elems := by
  have h0 : Led w (st.kt.blocks cfg.h ++ (st.vblocks cfg ++ FB)) E := by simpa [St.blocks, List.append_assoc] using h
  obtain ⟨h1, _, h3, _⟩ := HTL.poolTraffic_led cfg.h st.kt p w _ E h0
  refine ⟨?_, HTL.poolTraffic_books cfg.h st.kt p w hb, ?_⟩
  · simpa [ktTraffic, St.blocks, St.vblocks, List.append_assoc] using h1
  · simp only [ktTraffic, St.elems, HTL.St.elems, h3]

theorem swap_led {w : W} {B1 B2 : List Blk} {E : List Nat} (h : Led w (B1 ++ B2) E) : Led w (B2 ++ B1) E :=
  h.perm (by perm_count) (List.Perm.refl _)

/-! ### the system -/

/-- the monitor has accepted everything so far and holds exactly what A and B own; the key tables' books are well-formed -/
structure SysOK (cfg : Cfg) (s : Sys) : Prop where
  led : Led s.w (s.blocks cfg) s.elems
  a : HTL.BooksOK s.a.kt
  b : HTL.BooksOK s.b.kt

theorem led_nil {w : W} {B : List Blk} {E : List Nat} (h : Led w (B ++ []) (E ++ [])) : Led w B E := by simpa using h
theorem led_nil' {w : W} {B : List Blk} {E : List Nat} (h : Led w B E) : Led w (B ++ []) (E ++ []) := by simpa using h

theorem sysOK_init (cfg : Cfg) : SysOK cfg (Sys.init cfg) := by
  have h0 : Led ({} : W) [] [] := Led.init
  have ha := newL_led cfg {} {} [] [] h0
  unfold Sys.init
  cases hna : newL cfg {} {} with
  | mk oa wa =>
    rw [hna] at ha
    cases oa with
    | none =>
      have hb := newL_led cfg {} wa [] [] ha
      cases hnb : newL cfg {} wa with
      | mk ob wb =>
        rw [hnb] at hb
        cases ob with
        | none =>
          have hb' : Led wb [] [] := hb
          exact ⟨by simpa [Sys.blocks, Sys.elems, St.blocks, St.elems, St.vblocks, HTL.St.blocks_eq, HTL.St.elems, optL, vHeaps, vObjs] using hb',
            BooksOK.init, BooksOK.init⟩
        | some stb =>
          obtain ⟨b1, b2⟩ := hb
          refine ⟨?_, BooksOK.init, b2⟩
          simpa [Sys.blocks, Sys.elems, St.blocks, St.elems, St.vblocks, HTL.St.blocks_eq, HTL.St.elems, optL, vHeaps, vObjs] using b1
    | some sta =>
      obtain ⟨a1, a2⟩ := ha
      have hb := newL_led cfg {} wa _ _ (led_nil a1)
      cases hnb : newL cfg {} wa with
      | mk ob wb =>
        rw [hnb] at hb
        cases ob with
        | none =>
          refine ⟨?_, a2, BooksOK.init⟩
          have hb' : Led wb (sta.blocks cfg) sta.elems := hb
          simpa [Sys.blocks, Sys.elems, St.blocks, St.elems, St.vblocks, HTL.St.blocks_eq, HTL.St.elems, optL, vHeaps, vObjs] using hb'
        | some stb =>
          obtain ⟨b1, b2⟩ := hb
          refine ⟨?_, a2, b2⟩
          simp only [Sys.blocks, Sys.elems, Option.getD_some]
          exact b1.perm (by perm_count) (by perm_count)

/-- A's part of the system with B as the frame, and back -/
theorem sys_a {cfg : Cfg} {s : Sys} (h : Led s.w (s.blocks cfg) s.elems) :
    Led s.w (s.a.blocks cfg ++ s.b.blocks cfg) (s.a.elems ++ s.b.elems) := h

theorem sys_b {cfg : Cfg} {s : Sys} (h : Led s.w (s.blocks cfg) s.elems) :
    Led s.w (s.b.blocks cfg ++ s.a.blocks cfg) (s.b.elems ++ s.a.elems) :=
  h.perm (by simp only [Sys.blocks]; perm_count) (by simp only [Sys.elems]; perm_count)

theorem back_b {cfg : Cfg} {a b : St} {w : W} (h : Led w (b.blocks cfg ++ a.blocks cfg) (b.elems ++ a.elems)) :
    Led w (a.blocks cfg ++ b.blocks cfg) (a.elems ++ b.elems) :=
  h.perm (by perm_count) (by perm_count)

/-- **every operation keeps the ledger on the books**, under every fault record -/
theorem step_ok (cfg : Cfg) (hf : Nat → Nat) (s : Sys) (op : Op) (h : SysOK cfg s) : SysOK cfg (step cfg hf s op).1 := by
  obtain ⟨hl, ha, hb⟩ := h
  cases op with
  | add toB k tg v f =>
    simp only [step]
    split
    · have r := addL_led cfg hf s.b k tg v f s.w _ _ hb (sys_b hl)
      exact ⟨back_b r.led, ha, r.books⟩
    · have r := addL_led cfg hf s.a k tg v f s.w _ _ ha (sys_a hl)
      exact ⟨r.led, r.books, hb⟩
  | addAt k v f =>
    have r := addAtL_led cfg hf s.a k v f s.w _ _ ha (sys_a hl)
    exact ⟨r.led, r.books, hb⟩
  | insertKey k tg f =>
    have r := insertKeyL_led cfg hf s.a k tg f s.w _ _ ha (sys_a hl)
    exact ⟨r.led, r.books, hb⟩
  | removeValue k i f =>
    have r := removeValueL_led cfg hf s.a k i f s.w _ _ ha (sys_a hl)
    exact ⟨r.led, r.books, hb⟩
  | removeIf m r fl =>
    have q := removeIfGo_led cfg (fun k v => (k + v) % m == r) fl _ _ ((traverse s.a.kt.t).map (·.key)) s.a 0 s.w ha (sys_a hl)
    exact ⟨q.1, q.2, hb⟩
  | removeValues k =>
    have r := removeValuesL_led cfg hf s.a k s.w _ _ ha (sys_a hl)
    exact ⟨r.1, r.2, hb⟩
  | removeKey k f =>
    have r := removeKeyL_led cfg hf s.a k f s.w _ _ ha (sys_a hl)
    exact ⟨r.led, r.books, hb⟩
  | resetKey k tg =>
    obtain ⟨r1, r2, r3, r4, r5⟩ := resetKeyL_led cfg hf s.a k tg s.w _ _ (sys_a hl)
    simp only [step]
    refine ⟨r1, ?_, hb⟩
    refine ⟨?_, fun hc => ?_⟩
    · rw [r2, ha.len]
      simp only [resetKeyL]
      split
      · simp only [htSetTag]
        split <;> simp
      · rfl
    · rw [r2] at hc
      rw [r3, r4, r5]
      exact ha.nil hc
  | clear =>
    have r := clearL_led cfg s.a s.w _ _ ha (sys_a hl)
    exact ⟨r.1, r.2, hb⟩
  | copyTo f0 f =>
    simp only [step]
    have hs : ∀ k, ∀ e ∈ (getV s.a.vbs k).objs, e ∈ s.elems := by
      intro k e he
      have := (vObjs_split s.a.vbs k).mem_iff.mpr (List.mem_append_left _ he)
      exact List.mem_append_left _ (List.mem_append_right _ this)
    have hc := copyL_led cfg hf s.a f0 f s.w _ _ hs hl
    cases hcp : copyL cfg hf s.a f0 f s.w with
    | mk o w1 =>
      rw [hcp] at hc
      cases o with
      | none => exact ⟨hc, ha, hb⟩
      | some st =>
        obtain ⟨c1, c2⟩ := hc
        simp only
        have h1 : Led w1 (s.b.blocks cfg ++ (s.a.blocks cfg ++ st.blocks cfg)) (s.b.elems ++ (s.a.elems ++ st.elems)) :=
          c1.perm (by simp only [Sys.blocks]; perm_count) (by simp only [Sys.elems]; perm_count)
        exact ⟨destroyL_led cfg s.b w1 _ _ hb h1, ha, c2⟩
  | moveTo f =>
    simp only [step]
    have h2 := destroyL_led cfg s.b s.w _ _ hb (sys_b hl)
    have hn := newL_led cfg f (destroyL cfg s.b s.w) _ _ h2
    cases hnew : newL cfg f (destroyL cfg s.b s.w) with
    | mk o w2 =>
      rw [hnew] at hn
      cases o with
      | none =>
        simp only
        refine ⟨?_, BooksOK.init, ha⟩
        have hn' : Led w2 (s.a.blocks cfg) s.a.elems := hn
        simpa [Sys.blocks, Sys.elems, St.blocks, St.elems, St.vblocks, HTL.St.blocks_eq, HTL.St.elems, optL, vHeaps, vObjs] using hn'
      | some st =>
        obtain ⟨n1, n2⟩ := hn
        exact ⟨n1, n2, ha⟩
  | swap => exact ⟨sys_b hl, hb, ha⟩

theorem stepT_ok (cfg : Cfg) (hf : Nat → Nat) (s : Sys) (o : OpT) (h : SysOK cfg s) : SysOK cfg (stepT cfg hf s o).1 := by
  obtain ⟨hl, ha, hb⟩ := step_ok cfg hf s o.op h
  simp only [stepT]
  generalize (step cfg hf s o.op).1 = r at hl ha hb ⊢
  obtain ⟨p1, p2, p3⟩ := poolTraffic_led cfg r.a o.pa r.w (r.b.blocks cfg) _ (sys_a hl)
  obtain ⟨q1, q2, q3⟩ := poolTraffic_led cfg r.b o.pb (poolTraffic cfg r.a o.pa r.w).2
    ((poolTraffic cfg r.a o.pa r.w).1.blocks cfg) _ (swap_led p1)
  have ha1 : HTL.BooksOK (poolTraffic cfg r.a o.pa r.w).1.kt := by rw [p2]; exact ha
  have hb1 : HTL.BooksOK (poolTraffic cfg r.b o.pb (poolTraffic cfg r.a o.pa r.w).2).1.kt := by rw [q2]; exact hb
  obtain ⟨r1, r2, r3⟩ := ktTraffic_led cfg (poolTraffic cfg r.a o.pa r.w).1 o.ka (poolTraffic cfg r.b o.pb (poolTraffic cfg r.a o.pa r.w).2).2
    ((poolTraffic cfg r.b o.pb (poolTraffic cfg r.a o.pa r.w).2).1.blocks cfg) _ ha1 (swap_led q1)
  obtain ⟨t1, t2, t3⟩ := ktTraffic_led cfg (poolTraffic cfg r.b o.pb (poolTraffic cfg r.a o.pa r.w).2).1 o.kb _ _ _ hb1 (swap_led r1)
  refine ⟨?_, r2, t2⟩
  simp only [Sys.blocks, Sys.elems, r3, t3, p3, q3]
  exact swap_led t1

theorem run_ok (cfg : Cfg) (hf : Nat → Nat) : ∀ (ops : List OpT) (s : Sys), SysOK cfg s → SysOK cfg (run cfg hf s ops) := by
  intro ops
  induction ops with
  | nil => intro s h; exact h
  | cons o r ih => intro s h; exact ih _ (stepT_ok cfg hf s o h)

/-- the end of a history: B and A are destroyed - nothing is left -/
theorem finish_clean (cfg : Cfg) (s : Sys) (h : SysOK cfg s) : Led (finish cfg s) [] [] := by
  obtain ⟨hl, ha, hb⟩ := h
  unfold finish
  have h2 := destroyL_led cfg s.b s.w _ _ hb (sys_b hl)
  exact destroyL_led cfg s.a _ [] [] ha (led_nil' h2)

/-! ### strong guarantee -/

def Out.failed : Out → Bool
  | .res (.done .ok) => false
  | .res .no => false
  | .res _ => true
  | .threw => true
  | _ => false

/-- the strongly exception-safe operations of `HashMultiMap` (all but `Remove(pairFilter)`; `moveTo` is two operations: a move assignment and the construction of a new container) -/
def Op.strong : Op → Bool
  | .removeIf _ _ _ => false
  | .moveTo _ => false
  | _ => true

/-- **C04 for the multimap: a failing strongly exception-safe operation leaves both containers - contents and books - exactly
    as they were** (and by `step_ok` the ledger then holds exactly these books: nothing leaked, nothing destroyed) -/
theorem step_strong (cfg : Cfg) (hf : Nat → Nat) (s : Sys) (op : Op) (h : SysOK cfg s) (hs : op.strong = true)
    (hf' : (step cfg hf s op).2.failed = true) :
    (step cfg hf s op).1.a = s.a ∧ (step cfg hf s op).1.b = s.b := by
  obtain ⟨hl, ha, hb⟩ := h
  cases op with
  | add toB k tg v f =>
    cases toB with
    | true =>
      have r := addL_led cfg hf s.b k tg v f s.w _ _ hb (sys_b hl)
      refine ⟨rfl, r.strong ?_⟩
      intro hc; simp [step, hc, Out.failed] at hf'
    | false =>
      have r := addL_led cfg hf s.a k tg v f s.w _ _ ha (sys_a hl)
      refine ⟨r.strong ?_, rfl⟩
      intro hc; simp [step, hc, Out.failed] at hf'
  | addAt k v f =>
    have r := addAtL_led cfg hf s.a k v f s.w _ _ ha (sys_a hl)
    refine ⟨r.strong ?_, rfl⟩
    intro hc; simp [step, hc, Out.failed] at hf'
  | insertKey k tg f =>
    have r := insertKeyL_led cfg hf s.a k tg f s.w _ _ ha (sys_a hl)
    refine ⟨r.strong ?_, rfl⟩
    intro hc; simp [step, hc, Out.failed] at hf'
  | removeValue k i f =>
    have r := removeValueL_led cfg hf s.a k i f s.w _ _ ha (sys_a hl)
    refine ⟨r.strong ?_, rfl⟩
    intro hc; simp [step, hc, Out.failed] at hf'
  | removeIf m r fl => simp [Op.strong] at hs
  | removeValues k => simp [step, Out.failed] at hf'
  | removeKey k f =>
    have r := removeKeyL_led cfg hf s.a k f s.w _ _ ha (sys_a hl)
    refine ⟨r.strong ?_, rfl⟩
    intro hc; simp [step, hc, Out.failed] at hf'
  | resetKey k tg => simp [step, Out.failed] at hf'
  | clear => simp [step, Out.failed] at hf'
  | copyTo f0 f =>
    simp only [step] at hf' ⊢
    cases hcp : copyL cfg hf s.a f0 f s.w with
    | mk o w1 =>
      rw [hcp] at hf'
      cases o with
      | none => exact ⟨rfl, rfl⟩
      | some st => simp [Out.failed] at hf'
  | moveTo f => simp [Op.strong] at hs
  | swap => simp [step, Out.failed] at hf'

end Momo.MML
