import Momo.Proof.HTLedgerSys
import Momo.Proof.HashTableSummary
/-!
  C03 / C04 for the hash family, part 5: the books agree with the table.

  * the table of every ledger-layer operation IS the table of the hash-table model of C01 / C11 under the corresponding
    `Faults` (`addL_table`, `reserveL_table`, `clearL_table`, `removeAtL_table`, `copyL_table`), so every theorem of
    Props/C01.lean and Props/C11.lean speaks about it;
  * `Consistent`: the table satisfies the C01 invariant, the books hold exactly one element object per stored item (same
    keys), one bucket-array block of the right size per generation, and the `BucketParams` block iff a table exists;
    it is preserved by every operation.
-/
namespace Momo.HTL
open Momo Momo.HT Momo.Ledger

/-! ### the generations that survive a migration keep their sizes -/

theorem drainGen_L (sp : Spec) (hf : Nat → Nat) (stop : Option Nat) :
    ∀ (fuel : Nat) (head g : Gen) (moved : Nat),
      (drainGen sp hf fuel head g moved stop).1.L = head.L ∧ (drainGen sp hf fuel head g moved stop).2.1.L = g.L := by
  intro fuel
  induction fuel with
  | zero => intro head g moved; simp [drainGen]
  | succ n ih =>
    intro head g moved
    simp only [drainGen]
    split
    · exact ⟨rfl, rfl⟩
    · split
      · exact ⟨rfl, rfl⟩
      · split
        · exact ⟨rfl, rfl⟩
        · split
          · exact ⟨rfl, rfl⟩
          · rename_i head' idx hadd
            obtain ⟨i1, i2⟩ := ih head' _ (moved + 1)
            exact ⟨i1.trans (addNogrowGen_L sp head head' _ _ idx hadd), i2⟩

theorem relocGens_L (sp : Spec) (hf : Nat → Nat) (head : Gen) (stop : Option Nat) :
    ∀ (olds : List Gen) (moved : Nat),
      (relocGens sp hf head olds moved stop).1.L = head.L ∧
      (relocGens sp hf head olds moved stop).2.1.map (·.L) =
        (olds.map (·.L)).take (relocGens sp hf head olds moved stop).2.1.length := by
  intro olds
  induction olds with
  | nil => intro moved; simp [relocGens]
  | cons g rest ih =>
    intro moved
    simp only [relocGens]
    obtain ⟨i1, i2⟩ := ih moved
    generalize relocGens sp hf head rest moved stop = r1 at i1 i2 ⊢
    obtain ⟨head1, rest1, moved1, stopped1⟩ := r1
    simp only at i1 i2 ⊢
    split
    · refine ⟨i1, ?_⟩
      simp only [List.map_cons, List.length_cons, List.take_succ_cons, i2]
    · obtain ⟨d1, d2⟩ := drainGen_L sp hf stop (genCount g + 1) head1 g moved1
      generalize drainGen sp hf (genCount g + 1) head1 g moved1 stop = r2 at d1 d2 ⊢
      obtain ⟨head2, g2, moved2, stopped2⟩ := r2
      simp only at d1 d2 ⊢
      split
      · exact ⟨d1.trans i1, by simp [d2]⟩
      · exact ⟨d1.trans i1, by simp⟩

theorem relocate_L (sp : Spec) (hf : Nat → Nat) (t : Table) (stop : Option Nat) :
    (relocate sp hf t stop).gens.map (·.L) = (t.gens.map (·.L)).take (relocate sp hf t stop).gens.length := by
  unfold relocate
  cases hg : t.gens with
  | nil => simp [hg]
  | cons head olds =>
    simp only
    obtain ⟨i1, i2⟩ := relocGens_L sp hf head stop olds 0
    generalize relocGens sp hf head olds 0 stop = r at i1 i2 ⊢
    obtain ⟨head', olds', moved', stopped'⟩ := r
    simp only at i1 i2 ⊢
    simp only [List.map_cons, List.length_cons, List.take_succ_cons, i1, i2]

/-! ### the tables are those of the hash-table model -/

theorem addCoreG_table (cfg : Cfg) (hf : Nat → Nat) (st : St) (it : Item) (crT : Bool) (crRun : W → Nat × W) (f : Flt) (w : W) :
    (addCoreG cfg hf st it crT crRun f w).1.t = (addPhase1 cfg.sp hf st.t it (toFaults cfg st crT f)).1 ∧
    (addCoreG cfg hf st it crT crRun f w).2.2 = (addPhase1 cfg.sp hf st.t it (toFaults cfg st crT f)).2 := by
  unfold addCoreG addPrepL addPhase1 HT.addHead toFaults
  simp only
  by_cases h1 : st.t.count < st.t.cap
  · simp only [h1, decide_true, Bool.true_or, if_true]
    cases hg : st.t.gens with
    | nil => simp
    | cons g rest =>
      simp only
      cases crT with
      | true => simp
      | false =>
        simp only [Bool.false_eq_true, if_false]
        cases hadd : addNogrowGen cfg.sp g (hf it.key) it with
        | none => simp
        | some r => simp
  · simp only [h1, decide_false, Bool.false_or, if_false, Bool.not_false, Bool.true_and]
    cases hgl : growLog cfg.sp st.t with
    | none => simp
    | some nl =>
    have hD : growLogD cfg.sp st.t = nl := by unfold growLogD; rw [hgl]; rfl
    simp only [Option.isNone_some, Bool.false_eq_true, if_false, hD]
    cases hgr : f.grow with
    | true =>
      simp only [Bool.true_and, Bool.true_or, if_true]
      by_cases h2 : (cfg.sp.overloadIfCannotGrow && !st.t.gens.isEmpty) = true
      · simp only [h2, if_true]
        cases hg : st.t.gens with
        | nil => simp
        | cons g rest =>
          simp only
          cases crT with
          | true => simp
          | false =>
            simp only [Bool.false_eq_true, if_false]
            cases hadd : addNogrowGen cfg.sp g (hf it.key) it with
            | none => simp
            | some r => simp
      · simp only [h2]; simp
    | false =>
      simp only [Bool.false_and, Bool.false_eq_true, if_false, Bool.false_or]
      by_cases h3 : (st.t.gens.isEmpty && f.params) = true
      · simp only [h3, if_true]
        simp only [Bool.and_eq_true] at h3
        obtain ⟨h4, h5⟩ := h3
        simp [h4]
      · simp only [h3]
        cases crT with
        | true => simp
        | false =>
          simp only [Bool.false_eq_true, if_false]
          cases hadd : addNogrowGen cfg.sp (emptyGen cfg.sp nl) (hf it.key) it with
          | none => simp
          | some r => simp

theorem setE_keys (els : Els) (k e : Nat) : (setE els k e).map Prod.fst = els.map Prod.fst := by
  induction els with
  | nil => rfl
  | cons p r ih =>
    obtain ⟨k0, e0⟩ := p
    simp only [setE]
    split
    · rfl
    · simp [ih]

theorem moveAll_keys (cfg : Cfg) : ∀ (ks : List Nat) (els : Els) (w : W),
    (moveAll cfg ks els w).1.map Prod.fst = els.map Prod.fst := by
  intro ks
  induction ks with
  | nil => intro els w; rfl
  | cons k r ih =>
    intro els w
    simp only [moveAll]
    split
    · exact ih els w
    · rw [ih, setE_keys]

theorem relocGo_keys (cfg : Cfg) : ∀ (olds : List (Nat × Nat)) (ks : List (List Nat)) (n dead : Nat) (els : Els) (w : W),
    (relocGo cfg olds ks n dead els w).1.map Prod.fst = els.map Prod.fst := by
  intro olds
  induction olds with
  | nil => intro ks n dead els w; rfl
  | cons a rest ih =>
    intro ks n dead els w
    cases dead with
    | zero => simp only [relocGo]; exact moveAll_keys cfg _ els w
    | succ d => simp only [relocGo]; rw [ih, moveAll_keys]

theorem relocL_keys (cfg : Cfg) (hf : Nat → Nat) (st : St) (stop : Option Nat) (w : W) :
    (relocL cfg hf st stop w).1.els.map Prod.fst = st.els.map Prod.fst := by
  unfold relocL
  exact relocGo_keys cfg _ _ _ _ _ _

/-- the faults of the hash-table model that a fault record stands for never stop a migration that cannot throw -/
theorem toFaults_ok (cfg : Cfg) (st : St) (crT : Bool) (f : Flt) : FaultsOK cfg.sp (toFaults cfg st crT f) := by
  intro h
  simp [toFaults, h]

theorem finishL_table (cfg : Cfg) (hf : Nat → Nat) (st : St) (f : Flt) (w : W) :
    (finishL cfg hf st f w).1.t =
      (if st.t.gens.length > 1 then relocate cfg.sp hf st.t (if cfg.sp.nothrowReloc then none else f.mig) else st.t) ∧
    (finishL cfg hf st f w).1.els.map Prod.fst = st.els.map Prod.fst ∧
    (finishL cfg hf st f w).1.params = st.params ∧ (finishL cfg hf st f w).1.crew = st.crew ∧
    (finishL cfg hf st f w).1.bufs = st.bufs := by
  by_cases h : st.t.gens.length > 1
  · simp only [finishL, h, if_true]
    exact ⟨rfl, relocL_keys cfg hf st f.mig w, rfl, rfl, rfl⟩
  · simp [finishL, h]

theorem finishL_arrs (cfg : Cfg) (hf : Nat → Nat) (st : St) (f : Flt) (w : W) (hb : st.arrs.length = st.t.gens.length) :
    (finishL cfg hf st f w).1.arrs = st.arrs.take (finishL cfg hf st f w).1.t.gens.length := by
  by_cases h : st.t.gens.length > 1
  · simp only [finishL, h, if_true]
    rfl
  · simp only [finishL, h, if_false]
    rw [List.take_of_length_le (by omega)]

/-- **the table of `pvAdd` is the table of the hash-table model** under the faults the record stands for -/
theorem addL_table (cfg : Cfg) (hf : Nat → Nat) (st : St) (it : Item) (cr : Creator) (f : Flt) (w : W) :
    (addL cfg hf st it cr f w).1.t = (add cfg.sp hf st.t it (toFaults cfg st (cr.throws cfg f) f)).1 ∧
    (addL cfg hf st it cr f w).2.2 = (add cfg.sp hf st.t it (toFaults cfg st (cr.throws cfg f) f)).2 := by
  obtain ⟨c1, c2⟩ := addCoreG_table cfg hf st it (cr.throws cfg f) (cr.run cfg) f w
  rw [add_eq]
  unfold addL addCoreL addFinish
  have hstop : (toFaults cfg st (cr.throws cfg f) f).relocStop = (if cfg.sp.nothrowReloc then none else f.mig) := rfl
  rw [hstop]
  generalize addPhase1 cfg.sp hf st.t it (toFaults cfg st (cr.throws cfg f) f) = r1 at c1 c2 ⊢
  generalize addCoreG cfg hf st it (cr.throws cfg f) (cr.run cfg) f w = r at c1 c2 ⊢
  obtain ⟨st1, w1, out⟩ := r
  obtain ⟨t1', out1⟩ := r1
  simp only at c1 c2
  subst c2
  cases out with
  | ok =>
    simp only
    obtain ⟨t1, _⟩ := finishL_table cfg hf st1 f w1
    rw [t1, c1]
    by_cases hlen : t1'.gens.length > 1 <;> simp [hlen]
  | full => simp only; exact ⟨c1, trivial⟩
  | badAlloc => simp only; exact ⟨c1, trivial⟩
  | invalid => simp only; exact ⟨c1, trivial⟩

/-! ### the books agree with the table -/

/-- sizes: one bucket-array block of `pvGetBufferSize(logCount)` bytes per generation, in the same order; the `BucketParams`
    block exists iff a table exists -/
structure Shape (cfg : Cfg) (st : St) : Prop where
  sizes : st.arrs.map Prod.snd = st.t.gens.map (fun g => cfg.arrSize g.L)
  params : st.params.isSome = !st.t.gens.isEmpty

/-- **the books agree with the table**: the table satisfies the invariant of C01, the books hold exactly one element object
    per stored item (the same keys), and `Shape` -/
structure Consistent (cfg : Cfg) (hf : Nat → Nat) (st : St) : Prop where
  inv : TableInv cfg.sp hf st.t
  keys : (st.els.map Prod.fst).Perm ((traverse st.t).map (·.key))
  shape : Shape cfg st

theorem Shape.len {cfg : Cfg} {st : St} (h : Shape cfg st) : st.arrs.length = st.t.gens.length := by
  have := congrArg List.length h.sizes
  simpa using this

theorem Shape.init (cfg : Cfg) (c : Option Nat) : Shape cfg ({ crew := c } : St) := ⟨rfl, rfl⟩

theorem Consistent.init (cfg : Cfg) (hf : Nat → Nat) (c : Option Nat) : Consistent cfg hf ({ crew := c } : St) :=
  ⟨emptyTable_inv cfg.sp hf, List.Perm.refl _, Shape.init cfg c⟩

/-- the number of element objects on the books is the container's count -/
theorem Consistent.count {cfg : Cfg} {hf : Nat → Nat} {st : St} (h : Consistent cfg hf st) : st.elems.length = st.t.count := by
  have := h.keys.length_eq
  simp only [List.length_map] at this
  rw [h.inv.core.count, St.elems, List.length_map, this]

def PrepShape (cfg : Cfg) (st : St) : (St × W × Outcome) ⊕ (St × W) → Prop
  | .inl r => r.1 = st ∧ r.2.2 ≠ .ok
  | .inr r => Shape cfg r.1 ∧ r.1.els = st.els ∧ r.1.t.gens ≠ []

theorem addPrepL_shape (cfg : Cfg) (hf : Nat → Nat) (st : St) (it : Item) (crT : Bool) (f : Flt) (w : W) (hs : Shape cfg st) :
    PrepShape cfg st (addPrepL cfg hf st it crT f w) := by
  unfold addPrepL
  split
  · exact ⟨rfl, by simp⟩
  split
  · cases hg : st.t.gens with
    | nil => exact ⟨rfl, by simp⟩
    | cons g rest =>
      simp only
      cases crT with
      | true => exact ⟨rfl, by simp⟩
      | false =>
        simp only [Bool.false_eq_true, if_false]
        cases hadd : addNogrowGen cfg.sp g (hf it.key) it with
        | none => exact ⟨rfl, by simp⟩
        | some r =>
          obtain ⟨g', idx⟩ := r
          refine ⟨⟨?_, ?_⟩, rfl, by simp⟩
          · have := hs.sizes
            rw [hg] at this
            simp only [List.map_cons] at this ⊢
            rw [this, addNogrowGen_L cfg.sp g g' _ _ idx hadd]
          · have := hs.params
            rw [hg] at this
            simpa using this
  · split
    · exact ⟨rfl, by simp⟩
    · split
      · exact ⟨rfl, by simp⟩
      · simp only
        cases hfirst : st.t.gens.isEmpty with
        | false =>
          simp only [Bool.false_eq_true, if_false]
          split
          · refine ⟨rfl, ?_⟩
            show (if crT = true then Outcome.badAlloc else Outcome.full) ≠ .ok
            split <;> simp
          · rename_i g' idx hsome
            have hadd : addNogrowGen cfg.sp (emptyGen cfg.sp (growLogD cfg.sp st.t)) (hf it.key) it = some (g', idx) := by
              cases crT with
              | false => simpa using hsome
              | true => simp at hsome
            refine ⟨⟨?_, ?_⟩, rfl, by simp⟩
            · simp only [List.map_cons, hs.sizes, addNogrowGen_L cfg.sp _ g' _ _ idx hadd, emptyGen_L]
            · have := hs.params
              rw [hfirst] at this
              simpa using this
        | true =>
          simp only [if_true]
          split
          · refine ⟨rfl, ?_⟩
            show (if crT = true then Outcome.badAlloc else Outcome.full) ≠ .ok
            split <;> simp
          · rename_i g' idx hsome
            have hadd : addNogrowGen cfg.sp (emptyGen cfg.sp (growLogD cfg.sp st.t)) (hf it.key) it = some (g', idx) := by
              cases crT with
              | false => simpa using hsome
              | true => simp at hsome
            refine ⟨⟨?_, ?_⟩, rfl, by simp⟩
            · simp only [List.map_cons, hs.sizes, addNogrowGen_L cfg.sp _ g' _ _ idx hadd, emptyGen_L]
            · simp

theorem addCoreG_shape (cfg : Cfg) (hf : Nat → Nat) (st : St) (it : Item) (crT : Bool) (crRun : W → Nat × W) (f : Flt) (w : W)
    (hs : Shape cfg st) (hok : (addCoreG cfg hf st it crT crRun f w).2.2 = .ok) :
    Shape cfg (addCoreG cfg hf st it crT crRun f w).1 ∧
    (addCoreG cfg hf st it crT crRun f w).1.els.map Prod.fst = it.key :: st.els.map Prod.fst ∧
    (addCoreG cfg hf st it crT crRun f w).1.t.gens ≠ [] := by
  have hp := addPrepL_shape cfg hf st it crT f w hs
  unfold addCoreG at hok ⊢
  cases hprep : addPrepL cfg hf st it crT f w with
  | inl r =>
    rw [hprep] at hp hok
    exact absurd hok hp.2
  | inr r =>
    rw [hprep] at hp
    obtain ⟨st1, w1⟩ := r
    obtain ⟨p1, p2, p3⟩ := hp
    simp only at p1 p2 p3 ⊢
    exact ⟨⟨p1.sizes, p1.params⟩, by simp [p2], p3⟩

theorem finishL_shape (cfg : Cfg) (hf : Nat → Nat) (st : St) (f : Flt) (w : W) (hs : Shape cfg st) (hne : st.t.gens ≠ []) :
    Shape cfg (finishL cfg hf st f w).1 := by
  obtain ⟨t1, _, t3, _, _⟩ := finishL_table cfg hf st f w
  have ha := finishL_arrs cfg hf st f w hs.len
  refine ⟨?_, ?_⟩
  · rw [ha, t1]
    by_cases hlen : st.t.gens.length > 1
    · simp only [hlen, if_true]
      have hL := relocate_L cfg.sp hf st.t (if cfg.sp.nothrowReloc = true then none else f.mig)
      rw [List.map_take, hs.sizes]
      have : (relocate cfg.sp hf st.t (if cfg.sp.nothrowReloc = true then none else f.mig)).gens.map (fun g => cfg.arrSize g.L)
          = ((relocate cfg.sp hf st.t (if cfg.sp.nothrowReloc = true then none else f.mig)).gens.map (·.L)).map cfg.arrSize := by
        simp [List.map_map, Function.comp_def]
      rw [this, hL, List.map_take]
      simp [List.map_map, Function.comp_def]
    · simp only [hlen, if_false]
      rw [List.take_of_length_le (by rw [hs.len])]
      exact hs.sizes
  · rw [t3, t1, hs.params]
    by_cases hlen : st.t.gens.length > 1
    · simp only [hlen, if_true]
      have := (relocate_length cfg.sp hf st.t (if cfg.sp.nothrowReloc = true then none else f.mig)).2 hne
      have e1 : st.t.gens.isEmpty = false := by
        cases hg : st.t.gens with
        | nil => exact absurd hg hne
        | cons a r => rfl
      have e2 : (relocate cfg.sp hf st.t (if cfg.sp.nothrowReloc = true then none else f.mig)).gens.isEmpty = false := by
        cases hg : (relocate cfg.sp hf st.t (if cfg.sp.nothrowReloc = true then none else f.mig)).gens with
        | nil => rw [hg] at this; simp at this
        | cons a r => rfl
      rw [e1, e2]
    · simp only [hlen, if_false]

/-- **`pvAdd` keeps the books consistent with the table** -/
theorem addL_cons (cfg : Cfg) (hf : Nat → Nat) (ok : SpecOK cfg.sp) (st : St) (it : Item) (cr : Creator) (f : Flt) (w : W)
    (hc : Consistent cfg hf st) (hk : ∀ x ∈ traverse st.t, x.key ≠ it.key)
    (hok : (addL cfg hf st it cr f w).2.2 = .ok) : Consistent cfg hf (addL cfg hf st it cr f w).1 := by
  obtain ⟨t1, t2⟩ := addL_table cfg hf st it cr f w
  have hok' : (add cfg.sp hf st.t it (toFaults cfg st (cr.throws cfg f) f)).2 = .ok := by rw [← t2]; exact hok
  obtain ⟨i1, i2⟩ := add_ok cfg.sp hf ok st.t it _ hc.inv (toFaults_ok cfg st _ f) hk hok'
  -- the books
  unfold addL addCoreL at hok t1 ⊢
  have hsh := addCoreG_shape cfg hf st it (cr.throws cfg f) (cr.run cfg) f w hc.shape
  generalize addCoreG cfg hf st it (cr.throws cfg f) (cr.run cfg) f w = r at hsh hok t1 ⊢
  obtain ⟨st1, w1, out⟩ := r
  cases out with
  | ok =>
    simp only at hsh hok t1 ⊢
    obtain ⟨s1, s2, s3⟩ := hsh trivial
    obtain ⟨_, k2, _⟩ := finishL_table cfg hf st1 f w1
    refine ⟨by rw [t1]; exact i1, ?_, finishL_shape cfg hf st1 f w1 s1 s3⟩
    rw [k2, s2, t1]
    exact ((hc.keys.cons it.key).trans (by simp)).trans (i2.map (·.key)).symm
  | full => simp at hok
  | badAlloc => simp at hok
  | invalid => simp at hok

/-- a failed `pvAdd` returns the same container -/
theorem addL_fail_same (cfg : Cfg) (hf : Nat → Nat) (st : St) (it : Item) (cr : Creator) (f : Flt) (w : W) (hs : Shape cfg st)
    (hne : (addL cfg hf st it cr f w).2.2 ≠ .ok) : (addL cfg hf st it cr f w).1 = st := by
  have hp := addPrepL_shape cfg hf st it (cr.throws cfg f) f w hs
  unfold addL addCoreL addCoreG at hne ⊢
  cases hprep : addPrepL cfg hf st it (cr.throws cfg f) f w with
  | inl r =>
    rw [hprep] at hp
    obtain ⟨st1, w1, out⟩ := r
    obtain ⟨p1, p2⟩ := hp
    simp only at p1 p2 ⊢
    cases out with
    | ok => exact absurd rfl p2
    | full => exact p1
    | badAlloc => exact p1
    | invalid => exact p1
  | inr r =>
    rw [hprep] at hne
    simp at hne

/-- **`pvInsert` keeps the books consistent with the table** (whatever the outcome) -/
theorem insertL_cons (cfg : Cfg) (hf : Nat → Nat) (ok : SpecOK cfg.sp) (st : St) (it : Item) (cr : Creator) (f : Flt) (w : W)
    (hc : Consistent cfg hf st) : Consistent cfg hf (insertL cfg hf st it cr f w).1 := by
  by_cases hfl : (f.hashThrows || f.eqThrows) = true
  · simp only [insertL, hfl, if_true]; exact hc
  · cases hfind : findTable cfg.sp hf st.t it.key with
    | some p => simp only [insertL, hfl, hfind]; exact hc
    | none =>
      simp only [insertL, hfl, hfind]
      by_cases hok : (addL cfg hf st it cr f w).2.2 = .ok
      · exact addL_cons cfg hf ok st it cr f w hc (findTable_none cfg.sp hf st.t hc.inv it.key hfind) hok
      · rw [addL_fail_same cfg hf st it cr f w hc.shape hok]; exact hc

/-! ### removal and extraction -/

theorem dropE_keys (els : Els) (k : Nat) : (dropE els k).map Prod.fst = (els.map Prod.fst).erase k := by
  induction els with
  | nil => rfl
  | cons p r ih =>
    obtain ⟨k0, e0⟩ := p
    by_cases h : k0 = k
    · subst h; simp [dropE]
    · simp only [dropE, h, if_false, List.map_cons, ih]
      rw [List.erase_cons_tail (by simpa using h)]

theorem removePos_L (sp : Spec) (t : Table) (gi b j : Nat) :
    (removePos sp t gi b j).gens.map (·.L) = t.gens.map (·.L) := by
  simp only [removePos]
  apply List.ext_getElem?
  intro i
  simp only [List.getElem?_map, List.getElem?_modify]
  by_cases h : gi = i
  · subst h
    cases t.gens[gi]? <;> simp
  · simp [h]

theorem removePos_isEmpty (sp : Spec) (t : Table) (gi b j : Nat) :
    (removePos sp t gi b j).gens.isEmpty = t.gens.isEmpty := by
  have := removePos_gens_length sp t gi b j
  cases h1 : (removePos sp t gi b j).gens <;> cases h2 : t.gens <;> simp_all

theorem itemAt_some {cfg : Cfg} {t : Table} {gi b j : Nat} {x : Item} (h : itemAt cfg t gi b j = some x) :
    ∃ g, t.gens[gi]? = some g ∧ (bkt cfg.sp g.bs b).items[j]? = some x := by
  unfold itemAt at h
  cases hg : t.gens[gi]? with
  | none => simp [hg] at h
  | some g => exact ⟨g, rfl, by simpa [hg] using h⟩

theorem lastAt_some {cfg : Cfg} {t : Table} {gi b : Nat} {l : Item} (h : lastAt cfg t gi b = some l) :
    ∃ g, t.gens[gi]? = some g ∧ l ∈ (bkt cfg.sp g.bs b).items := by
  unfold lastAt at h
  cases hg : t.gens[gi]? with
  | none => simp [hg] at h
  | some g =>
    refine ⟨g, rfl, ?_⟩
    simp only [hg] at h
    exact List.mem_of_getLast? h

theorem mem_traverse_of_bkt {sp : Spec} {t : Table} {gi b : Nat} {g : Gen} {x : Item} (hg : t.gens[gi]? = some g)
    (hx : x ∈ (bkt sp g.bs b).items) : x ∈ traverse t :=
  (mem_traverse t x).mpr ⟨g, List.mem_of_getElem? hg, (mem_genItems sp g x).mpr ⟨b, hx⟩⟩

/-- the key of every stored item is on the books -/
theorem Consistent.look {cfg : Cfg} {hf : Nat → Nat} {st : St} (hc : Consistent cfg hf st) {x : Item} (hx : x ∈ traverse st.t) :
    ∃ e, lookE st.els x.key = some e :=
  lookE_isSome_of_mem (hc.keys.mem_iff.mpr (List.mem_map.mpr ⟨x, hx, rfl⟩))

/-- the table loses the item at the position, the books its key (the other keys keep or swap their objects) -/
theorem removePos_cons (cfg : Cfg) (hf : Nat → Nat) (st : St) (gi b j : Nat) (x : Item) (els' : Els)
    (hc : Consistent cfg hf st) (hx : itemAt cfg st.t gi b j = some x)
    (hk : els'.map Prod.fst = (st.els.map Prod.fst).erase x.key) :
    Consistent cfg hf { st with t := removePos cfg.sp st.t gi b j, els := els' } := by
  obtain ⟨g, hg, hj⟩ := itemAt_some hx
  obtain ⟨i1, i2⟩ := removePos_spec cfg.sp hf st.t hc.inv gi b j g x hg hj
  refine ⟨i1, ?_, ⟨?_, ?_⟩⟩
  · simp only
    rw [hk]
    have h1 : (st.els.map Prod.fst).Perm (x.key :: (traverse (removePos cfg.sp st.t gi b j)).map (·.key)) :=
      hc.keys.trans (i2.map (·.key)).symm
    have h2 := h1.erase x.key
    simpa using h2
  · simp only
    rw [hc.shape.sizes]
    have := removePos_L cfg.sp st.t gi b j
    have h2 : ∀ l : List Gen, l.map (fun g => cfg.arrSize g.L) = (l.map (·.L)).map cfg.arrSize := by
      intro l; simp [List.map_map, Function.comp_def]
    rw [h2, h2, this]
  · simp only
    rw [hc.shape.params, removePos_isEmpty]

theorem removeAtL_cons (cfg : Cfg) (hf : Nat → Nat) (st : St) (gi b j : Nat) (f : Flt) (w : W) (hc : Consistent cfg hf st) :
    Consistent cfg hf (removeAtL cfg st gi b j f w).1 := by
  unfold removeAtL
  split
  · rename_i x l hx hl
    obtain ⟨g, hg, hj⟩ := itemAt_some hx
    obtain ⟨g2, hg2, hl2⟩ := lastAt_some hl
    have hxm : x ∈ traverse st.t := mem_traverse_of_bkt hg (List.mem_of_getElem? hj)
    have hlm : l ∈ traverse st.t := mem_traverse_of_bkt hg2 hl2
    obtain ⟨d, hd⟩ := hc.look hxm
    obtain ⟨s, hs⟩ := hc.look hlm
    simp only [hd, hs]
    split
    · exact hc
    · apply removePos_cons cfg hf st gi b j x _ hc hx
      split
      · exact dropE_keys _ _
      · rw [setE_keys, dropE_keys]
  · exact hc

def ExtCons (cfg : Cfg) (hf : Nat → Nat) (st : St) : St × W × Option Nat → Prop
  | (st', _, some _) => Consistent cfg hf st'
  | (st', _, none) => st' = st

theorem extractAtL_cons (cfg : Cfg) (hf : Nat → Nat) (st : St) (gi b j : Nat) (f : Flt) (w : W) (hc : Consistent cfg hf st) :
    ExtCons cfg hf st (extractAtL cfg st gi b j f w) := by
  unfold extractAtL
  split
  · rename_i x l hx hl
    obtain ⟨g, hg, hj⟩ := itemAt_some hx
    obtain ⟨g2, hg2, hl2⟩ := lastAt_some hl
    have hxm : x ∈ traverse st.t := mem_traverse_of_bkt hg (List.mem_of_getElem? hj)
    have hlm : l ∈ traverse st.t := mem_traverse_of_bkt hg2 hl2
    obtain ⟨d, hd⟩ := hc.look hxm
    obtain ⟨s, hs⟩ := hc.look hlm
    simp only [hd, hs]
    split
    · split
      · rfl
      · exact removePos_cons cfg hf st gi b j x _ hc hx (dropE_keys _ _)
    · split
      · exact removePos_cons cfg hf st gi b j x _ hc hx (by rw [setE_keys, dropE_keys])
      · split
        · rfl
        · split
          · rfl
          · exact removePos_cons cfg hf st gi b j x _ hc hx (by rw [setE_keys, dropE_keys])
  · rfl

theorem removeKeyL_cons (cfg : Cfg) (hf : Nat → Nat) (st : St) (k : Nat) (f : Flt) (w : W) (hc : Consistent cfg hf st) :
    Consistent cfg hf (removeKeyL cfg hf st k f w).1 := by
  unfold removeKeyL
  split
  · exact hc
  · split
    · exact hc
    · exact removeAtL_cons cfg hf st _ _ _ f w hc

theorem removeIfGo_cons (cfg : Cfg) (hf : Nat → Nat) (pred : Item → Bool) (f : Nat → Flt) :
    ∀ (ps : List (Nat × Nat × Nat)) (st : St) (w : W) (n : Nat), Consistent cfg hf st →
      Consistent cfg hf (removeIfGo cfg pred f ps st w n).1 := by
  intro ps
  induction ps with
  | nil => intro st w n hc; exact hc
  | cons p r ih =>
    intro st w n hc
    obtain ⟨gi, b, j⟩ := p
    simp only [removeIfGo]
    split
    · exact ih st w n hc
    · split
      · have := removeAtL_cons cfg hf st gi b j (f n) w hc
        split
        · exact this
        · exact ih _ _ _ this
      · exact ih st w n hc

/-! ### `Reserve`, `Clear` -/

/-- **the table of `Reserve` is the table of the hash-table model** -/
theorem reserveL_table (cfg : Cfg) (hf : Nat → Nat) (st : St) (c : Nat) (f : Flt) (w : W) :
    (reserveL cfg hf st c f w).1.t = (reserve cfg.sp hf st.t c (toFaults cfg st false f)).1 ∧
    (reserveL cfg hf st c f w).2.2 = (reserve cfg.sp hf st.t c (toFaults cfg st false f)).2 := by
  unfold reserveL reserve
  by_cases h1 : c ≤ st.t.cap
  · simp [h1]
  · simp only [h1, if_false]
    cases hgr : f.grow with
    | true => simp [toFaults, hgr]
    | false =>
      simp only [Bool.false_eq_true, if_false]
      by_cases h3 : (st.t.gens.isEmpty && f.params) = true
      · simp [toFaults, hgr, h3]
      · have h3' : (st.t.gens.isEmpty && f.params) = false := by simpa using h3
        simp only [h3, if_false, toFaults, hgr, Bool.or_self, Bool.false_eq_true]
        generalize reserve.grow cfg.sp c 64 (newLog cfg.sp st.t) = nl
        refine ⟨?_, ?_⟩
        · rw [(finishL_table cfg hf _ f _).1]
          simp only [List.length_cons]
          split <;> rfl
        · split <;> rfl

theorem reserveL_cons (cfg : Cfg) (hf : Nat → Nat) (ok : SpecOK cfg.sp) (st : St) (c : Nat) (f : Flt) (w : W)
    (hc : Consistent cfg hf st) : Consistent cfg hf (reserveL cfg hf st c f w).1 := by
  obtain ⟨t1, _⟩ := reserveL_table cfg hf st c f w
  obtain ⟨i1, i2, _⟩ := reserve_spec cfg.sp hf ok st.t c _ hc.inv (toFaults_ok cfg st false f)
  refine ⟨by rw [t1]; exact i1, ?_, ?_⟩
  · rw [t1]
    refine List.Perm.trans ?_ (i2.map (·.key)).symm
    refine List.Perm.trans ?_ hc.keys
    unfold reserveL
    split
    · exact List.Perm.refl _
    · split
      · exact List.Perm.refl _
      · simp only
        split
        · exact List.Perm.refl _
        · rw [(finishL_table cfg hf _ f _).2.1]
  · unfold reserveL
    split
    · exact hc.shape
    · split
      · exact hc.shape
      · simp only
        split
        · exact hc.shape
        · apply finishL_shape
          · refine ⟨by simp [hc.shape.sizes], ?_⟩
            cases hfirst : st.t.gens.isEmpty with
            | true => simp
            | false =>
              have := hc.shape.params
              rw [hfirst] at this
              simpa using this
          · simp

theorem clearL_cons (cfg : Cfg) (hf : Nat → Nat) (ok : SpecOK cfg.sp) (st : St) (shrink : Bool) (w : W)
    (hc : Consistent cfg hf st) : Consistent cfg hf (clearL cfg st shrink w).1 := by
  obtain ⟨i1, i2⟩ := clear_spec cfg.sp hf ok st.t shrink hc.inv
  unfold clearL
  cases harr : st.arrs with
  | nil => exact hc
  | cons a older =>
    have hg : st.t.gens ≠ [] := by
      intro h0; have := hc.shape.len; rw [harr, h0] at this; simp at this
    cases hgs : st.t.gens with
    | nil => exact absurd hgs hg
    | cons g rest =>
      cases shrink with
      | true =>
        simp only [if_true]
        refine ⟨i1, by simp [i2], ⟨?_, ?_⟩⟩ <;> simp [clear, hgs, emptyTable]
      | false =>
        simp only [Bool.false_eq_true, if_false]
        refine ⟨i1, by simp [i2], ⟨?_, ?_⟩⟩
        · have := hc.shape.sizes
          rw [harr, hgs] at this
          simp only [List.map_cons, List.cons.injEq] at this
          simp [clear, hgs, this.1]
        · have := hc.shape.params
          rw [hgs] at this
          simpa [clear, hgs] using this

/-! ### copy construction -/

theorem copyItems_gen (cfg : Cfg) (hf : Nat → Nat) (src : Els) :
    ∀ (items : List Item) (g : Gen) (els : Els) (w : W),
      (copyItems cfg hf src items g els w).1 = items.foldl (fun g it => match addNogrowGen cfg.sp g (hf it.key) it with
        | some (g', _) => g' | none => g) g := by
  intro items
  induction items with
  | nil => intro g els w; rfl
  | cons it r ih =>
    intro g els w
    simp only [copyItems, List.foldl_cons]
    cases hadd : addNogrowGen cfg.sp g (hf it.key) it with
    | none => simp only; exact ih g els w
    | some p =>
      obtain ⟨g', idx⟩ := p
      cases hl : lookE src it.key with
      | none => simp only; exact ih _ _ _
      | some e => simp only; exact ih _ _ _

theorem copyItems_keys (cfg : Cfg) (hf : Nat → Nat) (ok : SpecOK cfg.sp) (src : Els) :
    ∀ (items : List Item) (g : Gen) (els : Els) (w : W), GenInv cfg.sp hf g →
      (els.map Prod.fst).Perm ((genItems g).map (·.key)) →
      ((copyItems cfg hf src items g els w).2.1.map Prod.fst).Perm ((genItems (copyItems cfg hf src items g els w).1).map (·.key)) := by
  intro items
  induction items with
  | nil => intro g els w _ h; exact h
  | cons it r ih =>
    intro g els w hI h
    simp only [copyItems]
    cases hadd : addNogrowGen cfg.sp g (hf it.key) it with
    | none => simp only; exact ih g els w hI h
    | some p =>
      obtain ⟨g', idx⟩ := p
      obtain ⟨a1, a2, _⟩ := addNogrowGen_inv cfg.sp hf ok g g' it idx hI hadd
      have hk : (it.key :: els.map Prod.fst).Perm ((genItems g').map (·.key)) :=
        (h.cons it.key).trans (by simpa using (a2.map (·.key)).symm)
      cases hl : lookE src it.key with
      | none => simp only; exact ih _ _ _ a1 (by simpa using hk)
      | some e => simp only; exact ih _ _ _ a1 (by simpa using hk)

def CtorCons (cfg : Cfg) (hf : Nat → Nat) : Option St × W → Prop
  | (none, _) => True
  | (some st', _) => Consistent cfg hf st'

theorem newL_cons (cfg : Cfg) (hf : Nat → Nat) (f : Flt) (w : W) : CtorCons cfg hf (newL cfg f w) := by
  unfold newL
  split
  · exact Consistent.init cfg hf none
  · split
    · trivial
    · exact Consistent.init cfg hf _

/-- **copy construction keeps the books consistent**: the new table is `HT.copyOf`, one new element object per item -/
theorem copyL_cons (cfg : Cfg) (hf : Nat → Nat) (ok : SpecOK cfg.sp) (src : St) (f : Flt) (w : W)
    (hc : Consistent cfg hf src) (hfit : CopyFits cfg.sp src.t) : CtorCons cfg hf (copyL cfg hf src f w) := by
  have hn := newL_cons cfg hf f w
  unfold copyL
  cases hnew : newL cfg f w with
  | mk o w0 =>
    rw [hnew] at hn
    cases o with
    | none => trivial
    | some st0 =>
      simp only
      have hst0 : st0.arrs = [] ∧ st0.params = none ∧ st0.bufs = [] ∧ st0.els = [] := by
        unfold newL at hnew
        split at hnew
        · cases hnew; exact ⟨rfl, rfl, rfl, rfl⟩
        · split at hnew
          · cases hnew
          · cases hnew; exact ⟨rfl, rfl, rfl, rfl⟩
      split
      · exact hn
      · rename_i hcount
        split
        · trivial
        · split
          · trivial
          · cases hcs : f.copyStop with
            | some n => trivial
            | none =>
              simp only
              obtain ⟨i1, i2⟩ := copyOf_spec cfg.sp hf ok src.t hc.inv hfit
              have hL3 := (foldl_add_spec cfg.sp hf ok (traverse src.t) (emptyGen cfg.sp (copyOf.pick cfg.sp src.t 64 cfg.sp.logStart))
                  (emptyGen_inv cfg.sp hf ok _) (by
                    rcases hfit with h | h
                    · exact Or.inl h
                    · right; rw [← hc.inv.core.count]; simpa [copyLog] using h)).2.2
              generalize hL : copyOf.pick cfg.sp src.t 64 cfg.sp.logStart = L at hL3 ⊢
              have htab : ∀ (els : Els) (w' : W), copyOf cfg.sp hf src.t =
                  { gens := [(copyItems cfg hf src.els (traverse src.t) (emptyGen cfg.sp L) els w').1],
                    count := src.t.count, cap := capacityOf cfg.sp L } := by
                intro els w'
                rw [copyItems_gen]
                unfold copyOf
                simp only [hcount, Bool.false_eq_true, if_false, hL]
                rfl
              have hk := fun w' => copyItems_keys cfg hf ok src.els (traverse src.t) (emptyGen cfg.sp L) [] w'
                (emptyGen_inv cfg.sp hf ok _) (by simp)
              refine ⟨by rw [← htab]; exact i1, ?_, ⟨?_, rfl⟩⟩
              · have e : ∀ g : Gen, traverse { gens := [g], count := src.t.count, cap := capacityOf cfg.sp L } = genItems g := by
                  intro g; simp [traverse_eq_gensItems]
                rw [e]
                exact hk _
              · simp only [List.map_cons, List.map_nil]
                rw [copyItems_gen]
                have : ∀ a b : Nat, a = b → [cfg.arrSize b] = [cfg.arrSize a] := by intro a b h; rw [h]
                exact this _ _ hL3

theorem extractKeyL_cons (cfg : Cfg) (hf : Nat → Nat) (st : St) (k : Nat) (f : Flt) (w : W) (hc : Consistent cfg hf st) :
    Consistent cfg hf (extractKeyL cfg hf st k f w).1 := by
  unfold extractKeyL
  split
  · exact hc
  · split
    · exact hc
    · rename_i gi b j _
      have he := extractAtL_cons cfg hf st gi b j f w hc
      generalize extractAtL cfg st gi b j f w = r at he ⊢
      obtain ⟨st1, w1, oh⟩ := r
      cases oh with
      | none =>
        have : st1 = st := he
        subst this
        cases itemAt cfg st1.t gi b j <;> exact hc
      | some hhh =>
        have : Consistent cfg hf st1 := he
        cases itemAt cfg st.t gi b j <;> exact this

/-! ### `MergeTo` -/

theorem addPrepL_inr_table (cfg : Cfg) (hf : Nat → Nat) (st : St) (it : Item) (crT : Bool) (f : Flt) (w : W) (st1 : St) (w1 : W)
    (h : addPrepL cfg hf st it crT f w = .inr (st1, w1)) :
    st1.t = (addPhase1 cfg.sp hf st.t it (toFaults cfg st crT f)).1 ∧
    (addPhase1 cfg.sp hf st.t it (toFaults cfg st crT f)).2 = .ok := by
  have := addCoreG_table cfg hf st it crT (fun w => (0, w)) f w
  unfold addCoreG at this
  rw [h] at this
  exact ⟨this.1, this.2.symm⟩

theorem mergeStepL_cons (cfg : Cfg) (hf : Nat → Nat) (ok : SpecOK cfg.sp) (src dst : St) (gi b j : Nat) (f : Flt) (w : W)
    (hs : Consistent cfg hf src) (hd : Consistent cfg hf dst) :
    Consistent cfg hf (mergeStepL cfg hf src dst gi b j f w).1 ∧ Consistent cfg hf (mergeStepL cfg hf src dst gi b j f w).2.1 := by
  unfold mergeStepL
  split
  · exact ⟨hs, hd⟩
  · rename_i x hx
    split
    · exact ⟨hs, hd⟩
    · split
      · exact ⟨hs, hd⟩
      · rename_i hnone
        have hp := addPrepL_shape cfg hf dst x (extractAtL cfg src gi b j f w).2.2.isNone f w hd.shape
        cases hprep : addPrepL cfg hf dst x (extractAtL cfg src gi b j f w).2.2.isNone f w with
        | inl r =>
          rw [hprep] at hp
          obtain ⟨dst1, w1, out⟩ := r
          obtain ⟨p1, _⟩ := hp
          simp only at p1 ⊢
          subst p1
          exact ⟨hs, hd⟩
        | inr r =>
          rw [hprep] at hp
          obtain ⟨dst1, w1⟩ := r
          obtain ⟨p1, p2, p3⟩ := hp
          obtain ⟨q1, q2⟩ := addPrepL_inr_table cfg hf dst x _ f w dst1 w1 hprep
          simp only at p1 p2 p3 ⊢
          have he := extractAtL_cons cfg hf src gi b j f w1 hs
          cases hext : extractAtL cfg src gi b j f w1 with
          | mk src1 rest =>
            obtain ⟨w2, oh⟩ := rest
            rw [hext] at he
            cases oh with
            | none => exact ⟨hs, hd⟩
            | some hh =>
              simp only
              refine ⟨he, ?_⟩
              -- the destination: its table is `HT.add`, its books got the key of the moved item
              have hk := findTable_none cfg.sp hf dst.t hd.inv x.key hnone
              have hadd : (add cfg.sp hf dst.t x (toFaults cfg dst (extractAtL cfg src gi b j f w).2.2.isNone f)).2 = .ok := by
                rw [add_eq]; unfold addFinish; rw [q2]; simp only; split <;> rfl
              obtain ⟨i1, i2⟩ := add_ok cfg.sp hf ok dst.t x _ hd.inv (toFaults_ok cfg dst _ f) hk hadd
              have htab : (finishL cfg hf { dst1 with els := (x.key, hh) :: dst1.els } f w2).1.t =
                  (add cfg.sp hf dst.t x (toFaults cfg dst (extractAtL cfg src gi b j f w).2.2.isNone f)).1 := by
                rw [(finishL_table cfg hf _ f w2).1, add_eq]
                unfold addFinish
                rw [q2]
                simp only
                rw [← q1]
                have hstop : (toFaults cfg dst (extractAtL cfg src gi b j f w).2.2.isNone f).relocStop =
                    (if cfg.sp.nothrowReloc then none else f.mig) := rfl
                rw [hstop]
                by_cases hlen : dst1.t.gens.length > 1 <;> simp [hlen]
              refine ⟨by rw [htab]; exact i1, ?_, ?_⟩
              · rw [(finishL_table cfg hf _ f w2).2.1, htab]
                simp only [List.map_cons, p2]
                exact ((hd.keys.cons x.key).trans (by simp)).trans (i2.map (·.key)).symm
              · exact finishL_shape cfg hf _ f w2 ⟨p1.sizes, p1.params⟩ p3

theorem mergeGo_cons (cfg : Cfg) (hf : Nat → Nat) (ok : SpecOK cfg.sp) (f : Nat → Flt) :
    ∀ (ps : List (Nat × Nat × Nat)) (src dst : St) (w : W) (n : Nat), Consistent cfg hf src → Consistent cfg hf dst →
      Consistent cfg hf (mergeGo cfg hf f ps src dst w n).1 ∧ Consistent cfg hf (mergeGo cfg hf f ps src dst w n).2.1 := by
  intro ps
  induction ps with
  | nil => intro src dst w n hs hd; exact ⟨hs, hd⟩
  | cons p r ih =>
    intro src dst w n hs hd
    obtain ⟨gi, b, j⟩ := p
    simp only [mergeGo]
    obtain ⟨m1, m2⟩ := mergeStepL_cons cfg hf ok src dst gi b j (f n) w hs hd
    generalize mergeStepL cfg hf src dst gi b j (f n) w = q at m1 m2 ⊢
    obtain ⟨src1, dst1, w1, moved, threw⟩ := q
    cases threw with
    | true => exact ⟨m1, m2⟩
    | false => exact ih _ _ _ _ m1 m2

/-! ### the system -/

/-- side condition of the hash-table model's copy constructor (Props/C01.lean `C01_copy_fits`: holds whenever the count does not
    exceed the capacity of `2^(logStart+63)` buckets) -/
def OpFits (cfg : Cfg) (s : Sys) : Op → Prop
  | .copyTo _ => CopyFits cfg.sp s.a.t
  | _ => True

structure SysCons (cfg : Cfg) (hf : Nat → Nat) (s : Sys) : Prop where
  a : Consistent cfg hf s.a
  b : Consistent cfg hf s.b

theorem step_cons (cfg : Cfg) (hf : Nat → Nat) (ok : SpecOK cfg.sp) (s : Sys) (op : Op) (h : SysCons cfg hf s)
    (hfit : OpFits cfg s op) : SysCons cfg hf (step cfg hf s op).1 := by
  obtain ⟨ha, hb⟩ := h
  cases op with
  | ins toB k v f =>
    simp only [step]
    cases toB with
    | false => exact ⟨insertL_cons cfg hf ok s.a _ _ f s.w ha, hb⟩
    | true => exact ⟨ha, insertL_cons cfg hf ok s.b _ _ f s.w hb⟩
  | rem k f => exact ⟨removeKeyL_cons cfg hf s.a k f s.w ha, hb⟩
  | remIf m r f => exact ⟨removeIfGo_cons cfg hf _ f _ s.a s.w 0 ha, hb⟩
  | reserve c f => exact ⟨reserveL_cons cfg hf ok s.a c f s.w ha, hb⟩
  | clear sh => exact ⟨clearL_cons cfg hf ok s.a sh s.w ha, hb⟩
  | ext k f =>
    simp only [step]
    cases hh : s.h with
    | some p => exact ⟨ha, hb⟩
    | none =>
      simp only
      exact ⟨extractKeyL_cons cfg hf s.a k f s.w ha, hb⟩
  | reins f =>
    simp only [step]
    cases hh : s.h with
    | none => exact ⟨ha, hb⟩
    | some p =>
      obtain ⟨it, e⟩ := p
      exact ⟨insertL_cons cfg hf ok s.a it _ f s.w ha, hb⟩
  | copyTo f =>
    simp only [step]
    have hc := copyL_cons cfg hf ok s.a f s.w ha hfit
    cases hcp : copyL cfg hf s.a f s.w with
    | mk o w1 =>
      rw [hcp] at hc
      cases o with
      | none => exact ⟨ha, hb⟩
      | some st => exact ⟨ha, hc⟩
  | moveTo f =>
    simp only [step]
    have hn := newL_cons cfg hf f (destroyL cfg s.b s.w)
    cases hnew : newL cfg f (destroyL cfg s.b s.w) with
    | mk o w2 =>
      rw [hnew] at hn
      cases o with
      | none => exact ⟨Consistent.init cfg hf none, ha⟩
      | some st => exact ⟨hn, ha⟩
  | swap => exact ⟨hb, ha⟩
  | mergeTo f =>
    simp only [step, mergeToL]
    obtain ⟨m1, m2⟩ := mergeGo_cons cfg hf ok f (posList s.a.t) s.a s.b s.w 0 ha hb
    exact ⟨m1, m2⟩
  | dropHandle =>
    simp only [step]
    cases hh : s.h with
    | none => exact ⟨ha, hb⟩
    | some p => obtain ⟨it, e⟩ := p; exact ⟨ha, hb⟩

theorem poolTraffic_cons (cfg : Cfg) (hf : Nat → Nat) (st : St) (p : PoolT) (w : W) (hc : Consistent cfg hf st) :
    Consistent cfg hf (poolTraffic cfg st p w).1 := by
  unfold poolTraffic
  split
  · exact ⟨hc.inv, hc.keys, ⟨hc.shape.sizes, hc.shape.params⟩⟩
  · exact hc

theorem stepT_cons (cfg : Cfg) (hf : Nat → Nat) (ok : SpecOK cfg.sp) (s : Sys) (o : OpT) (h : SysCons cfg hf s)
    (hfit : OpFits cfg s o.op) : SysCons cfg hf (stepT cfg hf s o).1 := by
  obtain ⟨ha, hb⟩ := step_cons cfg hf ok s o.op h hfit
  unfold stepT
  exact ⟨poolTraffic_cons cfg hf _ _ _ ha, poolTraffic_cons cfg hf _ _ _ hb⟩

/-- every copy of the history fits (the side condition of C01's own history theorem) -/
def RunFits (cfg : Cfg) (hf : Nat → Nat) : Sys → List OpT → Prop
  | _, [] => True
  | s, o :: ops => OpFits cfg s o.op ∧ RunFits cfg hf (stepT cfg hf s o).1 ops

theorem run_cons (cfg : Cfg) (hf : Nat → Nat) (ok : SpecOK cfg.sp) :
    ∀ (ops : List OpT) (s : Sys), SysCons cfg hf s → RunFits cfg hf s ops → SysCons cfg hf (run cfg hf s ops) := by
  intro ops
  induction ops with
  | nil => intro s h _; exact h
  | cons o r ih => intro s h hf'; exact ih _ (stepT_cons cfg hf ok s o h hf'.1) hf'.2

theorem sysCons_init (cfg : Cfg) (hf : Nat → Nat) : SysCons cfg hf (Sys.init cfg) := by
  unfold Sys.init newL
  by_cases hc : cfg.csz = 0
  · simp only [hc, if_true, Option.getD_some]
    exact ⟨Consistent.init cfg hf none, Consistent.init cfg hf none⟩
  · simp only [hc, if_false, Bool.false_eq_true, Option.getD_some]
    exact ⟨Consistent.init cfg hf _, Consistent.init cfg hf _⟩

end Momo.HTL
