import Momo.Proof.RowsOwn
/-!
  Lemmas for the row hand-off model (C19), part 5: how the right to touch a block (`Holds`) changes in one step —
  backwards (`Holds_step_back`: where a right comes from) and forwards (`Holds_step_fwd`: where it goes).
-/
namespace Momo.Rows


theorem removeAt_perm {l : List Row} {i : Nat} {r : Row} (keep : Bool) (h : l[i]? = some r) :
    l.Perm (r :: removeAt l i keep) := by
  unfold removeAt; cases keep
  · simpa using swapRemove_perm l i r h
  · simpa using eraseIdx_perm l i r h

theorem mem_of_mem_removeAt {l : List Row} {i : Nat} {r x : Row} {keep : Bool} (h : l[i]? = some r)
    (hx : x ∈ removeAt l i keep) : x ∈ l :=
  (removeAt_perm keep h).mem_iff.mpr (List.mem_cons_of_mem _ hx)

theorem mem_removeAt_or {l : List Row} {i : Nat} {r x : Row} (keep : Bool) (h : l[i]? = some r)
    (hx : x ∈ l) : x = r ∨ x ∈ removeAt l i keep := by
  have := (removeAt_perm keep h).mem_iff.mp hx
  simpa using this

/-- where the right to touch block `x` after a step comes from -/
theorem Holds_step_back {s s' : St} {a : Act} (hs : Step s a s') (hI : RInv s) {u : Tid} {x : Row}
    (h : Holds s' u x) :
    Holds s u x ∨ (a = .exchange ∧ u = 0 ∧ x ∈ s.L) ∨ (∃ t, a = .handoff x t u ∧ (x, t) ∈ s.det) ∨
      (∃ g, a = .grow x g ∧ u = 0 ∧ x ∉ places s) := by
  cases hs with
  | newBegin hm => exact Or.inl h
  | takeBegin hm => exact Or.inl h
  | walkEnd b hm hc => exact Or.inl h
  | exchange b hm =>
    rcases h with ⟨h0, hp | hp | hp⟩ | h | h
    · exact Or.inl (Or.inl ⟨h0, Or.inl hp⟩)
    · exact Or.inl (Or.inl ⟨h0, Or.inr (Or.inl hp)⟩)
    · exact Or.inr (Or.inl ⟨rfl, h0, hp⟩)
    · exact Or.inl (Or.inr (Or.inl h))
    · exact Or.inl (Or.inr (Or.inr h))
  | walk b c g hm hc =>
    have hW := W_of_cur hI hc
    rcases h with ⟨h0, hp | hp | hp⟩ | h | h
    · rcases List.mem_cons.mp hp with rfl | hp
      · exact Or.inl (Or.inl ⟨h0, Or.inr (Or.inr (by rw [hW]; simp))⟩)
      · exact Or.inl (Or.inl ⟨h0, Or.inl hp⟩)
    · exact Or.inl (Or.inl ⟨h0, Or.inr (Or.inl hp)⟩)
    · exact Or.inl (Or.inl ⟨h0, Or.inr (Or.inr (List.mem_of_mem_tail hp))⟩)
    · exact Or.inl (Or.inr (Or.inl h))
    · exact Or.inl (Or.inr (Or.inr h))
  | grow r g hm hr =>
    rcases h with ⟨h0, hp | hp | hp⟩ | h | h
    · rcases List.mem_cons.mp hp with rfl | hp
      · exact Or.inr (Or.inr (Or.inr ⟨g, rfl, h0, hr⟩))
      · exact Or.inl (Or.inl ⟨h0, Or.inl hp⟩)
    · exact Or.inl (Or.inl ⟨h0, Or.inr (Or.inl hp)⟩)
    · exact Or.inl (Or.inl ⟨h0, Or.inr (Or.inr hp)⟩)
    · exact Or.inl (Or.inr (Or.inl h))
    · exact Or.inl (Or.inr (Or.inr h))
  | alloc r g hm hr =>
    rcases h with ⟨h0, hp | hp | hp⟩ | h | h
    · exact Or.inl (Or.inl ⟨h0, Or.inl (List.mem_of_mem_erase hp)⟩)
    · exact Or.inl (Or.inl ⟨h0, Or.inr (Or.inl hp)⟩)
    · exact Or.inl (Or.inl ⟨h0, Or.inr (Or.inr hp)⟩)
    · rcases List.mem_cons.mp h with h | h
      · cases h; exact Or.inl (Or.inl ⟨rfl, Or.inl hr⟩)
      · exact Or.inl (Or.inr (Or.inl h))
    · exact Or.inl (Or.inr (Or.inr h))
  | add r hm hd =>
    rcases h with ⟨h0, hp | hp | hp⟩ | h | h
    · exact Or.inl (Or.inl ⟨h0, Or.inl hp⟩)
    · rcases List.mem_append.mp hp with hp | hp
      · exact Or.inl (Or.inl ⟨h0, Or.inr (Or.inl hp)⟩)
      · have : x = r := by simpa using hp
        subst this; subst h0; exact Or.inl (Or.inr (Or.inl hd))
    · exact Or.inl (Or.inl ⟨h0, Or.inr (Or.inr hp)⟩)
    · exact Or.inl (Or.inr (Or.inl (List.mem_of_mem_erase h)))
    · exact Or.inl (Or.inr (Or.inr h))
  | extract i keep r hm hi =>
    rcases h with ⟨h0, hp | hp | hp⟩ | h | h
    · exact Or.inl (Or.inl ⟨h0, Or.inl hp⟩)
    · exact Or.inl (Or.inl ⟨h0, Or.inr (Or.inl (mem_of_mem_removeAt hi hp))⟩)
    · exact Or.inl (Or.inl ⟨h0, Or.inr (Or.inr hp)⟩)
    · rcases List.mem_cons.mp h with h | h
      · cases h; exact Or.inl (Or.inl ⟨rfl, Or.inr (Or.inl (List.mem_of_getElem? hi))⟩)
      · exact Or.inl (Or.inr (Or.inl h))
    · exact Or.inl (Or.inr (Or.inr h))
  | remove i keep g r hm hi =>
    rcases h with ⟨h0, hp | hp | hp⟩ | h | h
    · rcases List.mem_cons.mp hp with rfl | hp
      · exact Or.inl (Or.inl ⟨h0, Or.inr (Or.inl (List.mem_of_getElem? hi))⟩)
      · exact Or.inl (Or.inl ⟨h0, Or.inl hp⟩)
    · exact Or.inl (Or.inl ⟨h0, Or.inr (Or.inl (mem_of_mem_removeAt hi hp))⟩)
    · exact Or.inl (Or.inl ⟨h0, Or.inr (Or.inr hp)⟩)
    · exact Or.inl (Or.inr (Or.inl h))
    · exact Or.inl (Or.inr (Or.inr h))
  | handoff r t u' hd hu =>
    rcases h with ⟨h0, hp⟩ | h | h
    · exact Or.inl (Or.inl ⟨h0, hp⟩)
    · rcases List.mem_cons.mp h with h | h
      · cases h; exact Or.inr (Or.inr (Or.inl ⟨t, rfl, hd⟩))
      · exact Or.inl (Or.inr (Or.inl (List.mem_of_mem_erase h)))
    · exact Or.inl (Or.inr (Or.inr h))
  | dBegin t r hpc hd =>
    rcases h with ⟨h0, hp⟩ | h | ⟨pc, hq, hr⟩
    · exact Or.inl (Or.inl ⟨h0, hp⟩)
    · exact Or.inl (Or.inr (Or.inl (List.mem_of_mem_erase h)))
    · rcases getElem?_setPC hq with ⟨rfl, rfl⟩ | ⟨_, hq⟩
      · cases hr; exact Or.inl (Or.inr (Or.inl hd))
      · exact Or.inl (Or.inr (Or.inr ⟨pc, hq, hr⟩))
  | dLoad t r hpc =>
    rcases h with ⟨h0, hp⟩ | h | ⟨pc, hq, hr⟩
    · exact Or.inl (Or.inl ⟨h0, hp⟩)
    · exact Or.inl (Or.inr (Or.inl h))
    · rcases getElem?_setPC hq with ⟨rfl, rfl⟩ | ⟨_, hq⟩
      · cases hr; exact Or.inl (Or.inr (Or.inr ⟨_, hpc, rfl⟩))
      · exact Or.inl (Or.inr (Or.inr ⟨pc, hq, hr⟩))
  | dWrite t r h' hpc =>
    rcases h with ⟨h0, hp⟩ | h | ⟨pc, hq, hr⟩
    · exact Or.inl (Or.inl ⟨h0, hp⟩)
    · exact Or.inl (Or.inr (Or.inl h))
    · rcases getElem?_setPC hq with ⟨rfl, rfl⟩ | ⟨_, hq⟩
      · cases hr; exact Or.inl (Or.inr (Or.inr ⟨_, hpc, rfl⟩))
      · exact Or.inl (Or.inr (Or.inr ⟨pc, hq, hr⟩))
  | dCasOk t r h' hpc hh =>
    rcases h with ⟨h0, hp⟩ | h | ⟨pc, hq, hr⟩
    · exact Or.inl (Or.inl ⟨h0, hp⟩)
    · exact Or.inl (Or.inr (Or.inl h))
    · rcases getElem?_setPC hq with ⟨rfl, rfl⟩ | ⟨_, hq⟩
      · cases hr
      · exact Or.inl (Or.inr (Or.inr ⟨pc, hq, hr⟩))
  | dCasFail t r h' sp hpc =>
    rcases h with ⟨h0, hp⟩ | h | ⟨pc, hq, hr⟩
    · exact Or.inl (Or.inl ⟨h0, hp⟩)
    · exact Or.inl (Or.inr (Or.inl h))
    · rcases getElem?_setPC hq with ⟨rfl, rfl⟩ | ⟨_, hq⟩
      · cases hr; exact Or.inl (Or.inr (Or.inr ⟨_, hpc, rfl⟩))
      · exact Or.inl (Or.inr (Or.inr ⟨pc, hq, hr⟩))



theorem setPC_self {s : St} {t : Tid} {pc q : PC} (h : s.thr[t]? = some q) : (setPC s t pc)[t]? = some pc := by
  unfold setPC; rw [List.getElem?_set_self (lt_length_of_getElem? h)]

theorem setPC_ne {s : St} {t u : Tid} {pc : PC} (h : u ≠ t) : (setPC s t pc)[u]? = s.thr[u]? := by
  unfold setPC; rw [List.getElem?_set_ne (fun e => h e.symm)]

/-- a thread that could keep a `PC` with the row through a step of thread `t'` -/
theorem thr_keep {s : St} {t t' : Tid} {pc pc' q : PC} {x : Row} (hq : s.thr[t]? = some q) (hx : q.row = some x)
    (hpc : s.thr[t']? = some pc) (hrow : pc'.row = pc.row) :
    ∃ p, (setPC s t' pc')[t]? = some p ∧ p.row = some x := by
  by_cases ht : t = t'
  · subst ht
    rw [hq] at hpc; cases hpc
    exact ⟨pc', setPC_self hq, by rw [hrow, hx]⟩
  · exact ⟨q, by rw [setPC_ne ht]; exact hq, hx⟩

/-- what happens to the right to touch block `x` in a step -/
theorem Holds_step_fwd {s s' : St} {a : Act} (hs : Step s a s') (hI : RInv s) {t : Tid} {x : Row}
    (h : Holds s t x) :
    Holds s' t x ∨ (a = .dCas t false ∧ x ∈ s'.L ∧ x ∉ s.L) ∨ (∃ u, a = .handoff x t u ∧ Holds s' u x) := by
  have hnp := Holds_not_published hI h
  cases hs with
  | newBegin hm => exact Or.inl h
  | takeBegin hm => exact Or.inl h
  | walkEnd b hm hc => exact Or.inl h
  | exchange b hm =>
    have hW : s.W = [] := hI.walkW (by intro b'; rw [hm]; simp)
    rcases h with ⟨h0, hp | hp | hp⟩ | h | h
    · exact Or.inl (Or.inl ⟨h0, Or.inl hp⟩)
    · exact Or.inl (Or.inl ⟨h0, Or.inr (Or.inl hp)⟩)
    · rw [hW] at hp; cases hp
    · exact Or.inl (Or.inr (Or.inl h))
    · exact Or.inl (Or.inr (Or.inr h))
  | walk b c g hm hc =>
    have hW := W_of_cur hI hc
    rcases h with ⟨h0, hp | hp | hp⟩ | h | h
    · exact Or.inl (Or.inl ⟨h0, Or.inl (List.mem_cons_of_mem _ hp)⟩)
    · exact Or.inl (Or.inl ⟨h0, Or.inr (Or.inl hp)⟩)
    · rw [hW] at hp
      rcases List.mem_cons.mp hp with rfl | hp
      · exact Or.inl (Or.inl ⟨h0, Or.inl (by simp)⟩)
      · exact Or.inl (Or.inl ⟨h0, Or.inr (Or.inr hp)⟩)
    · exact Or.inl (Or.inr (Or.inl h))
    · exact Or.inl (Or.inr (Or.inr h))
  | grow r g hm hr =>
    rcases h with ⟨h0, hp | hp | hp⟩ | h | h
    · exact Or.inl (Or.inl ⟨h0, Or.inl (List.mem_cons_of_mem _ hp)⟩)
    · exact Or.inl (Or.inl ⟨h0, Or.inr (Or.inl hp)⟩)
    · exact Or.inl (Or.inl ⟨h0, Or.inr (Or.inr hp)⟩)
    · exact Or.inl (Or.inr (Or.inl h))
    · exact Or.inl (Or.inr (Or.inr h))
  | alloc r g hm hr =>
    rcases h with ⟨h0, hp | hp | hp⟩ | h | h
    · by_cases hx : x = r
      · subst hx; subst h0; exact Or.inl (Or.inr (Or.inl (by simp)))
      · exact Or.inl (Or.inl ⟨h0, Or.inl ((List.mem_erase_of_ne hx).mpr hp)⟩)
    · exact Or.inl (Or.inl ⟨h0, Or.inr (Or.inl hp)⟩)
    · exact Or.inl (Or.inl ⟨h0, Or.inr (Or.inr hp)⟩)
    · exact Or.inl (Or.inr (Or.inl (List.mem_cons_of_mem _ h)))
    · exact Or.inl (Or.inr (Or.inr h))
  | add r hm hd =>
    rcases h with ⟨h0, hp | hp | hp⟩ | h | h
    · exact Or.inl (Or.inl ⟨h0, Or.inl hp⟩)
    · exact Or.inl (Or.inl ⟨h0, Or.inr (Or.inl (List.mem_append_left _ hp))⟩)
    · exact Or.inl (Or.inl ⟨h0, Or.inr (Or.inr hp)⟩)
    · by_cases hx : (x, t) = (r, 0)
      · cases hx; exact Or.inl (Or.inl ⟨rfl, Or.inr (Or.inl (by simp))⟩)
      · exact Or.inl (Or.inr (Or.inl ((List.mem_erase_of_ne hx).mpr h)))
    · exact Or.inl (Or.inr (Or.inr h))
  | extract i keep r hm hi =>
    rcases h with ⟨h0, hp | hp | hp⟩ | h | h
    · exact Or.inl (Or.inl ⟨h0, Or.inl hp⟩)
    · rcases mem_removeAt_or keep hi hp with rfl | hp
      · subst h0; exact Or.inl (Or.inr (Or.inl (by simp)))
      · exact Or.inl (Or.inl ⟨h0, Or.inr (Or.inl hp)⟩)
    · exact Or.inl (Or.inl ⟨h0, Or.inr (Or.inr hp)⟩)
    · exact Or.inl (Or.inr (Or.inl (List.mem_cons_of_mem _ h)))
    · exact Or.inl (Or.inr (Or.inr h))
  | remove i keep g r hm hi =>
    rcases h with ⟨h0, hp | hp | hp⟩ | h | h
    · exact Or.inl (Or.inl ⟨h0, Or.inl (List.mem_cons_of_mem _ hp)⟩)
    · rcases mem_removeAt_or keep hi hp with rfl | hp
      · exact Or.inl (Or.inl ⟨h0, Or.inl (by simp)⟩)
      · exact Or.inl (Or.inl ⟨h0, Or.inr (Or.inl hp)⟩)
    · exact Or.inl (Or.inl ⟨h0, Or.inr (Or.inr hp)⟩)
    · exact Or.inl (Or.inr (Or.inl h))
    · exact Or.inl (Or.inr (Or.inr h))
  | handoff r t' u hd hu =>
    rcases h with ⟨h0, hp⟩ | h | h
    · exact Or.inl (Or.inl ⟨h0, hp⟩)
    · by_cases hx : (x, t) = (r, t')
      · cases hx; exact Or.inr (Or.inr ⟨u, rfl, Or.inr (Or.inl (by simp))⟩)
      · exact Or.inl (Or.inr (Or.inl (List.mem_cons_of_mem _ ((List.mem_erase_of_ne hx).mpr h))))
    · exact Or.inl (Or.inr (Or.inr h))
  | dBegin t' r hpc hd =>
    rcases h with ⟨h0, hp⟩ | h | ⟨q, hq, hx⟩
    · exact Or.inl (Or.inl ⟨h0, hp⟩)
    · by_cases hxe : (x, t) = (r, t')
      · cases hxe; exact Or.inl (Or.inr (Or.inr ⟨_, setPC_self hpc, rfl⟩))
      · exact Or.inl (Or.inr (Or.inl ((List.mem_erase_of_ne hxe).mpr h)))
    · have ht : t ≠ t' := by
        intro e; subst e; rw [hq] at hpc; cases hpc; cases hx
      exact Or.inl (Or.inr (Or.inr ⟨q, by rw [setPC_ne ht]; exact hq, hx⟩))
  | dLoad t' r hpc =>
    rcases h with ⟨h0, hp⟩ | h | ⟨q, hq, hx⟩
    · exact Or.inl (Or.inl ⟨h0, hp⟩)
    · exact Or.inl (Or.inr (Or.inl h))
    · exact Or.inl (Or.inr (Or.inr (thr_keep hq hx hpc rfl)))
  | dWrite t' r h' hpc =>
    rcases h with ⟨h0, hp⟩ | h | ⟨q, hq, hx⟩
    · exact Or.inl (Or.inl ⟨h0, hp⟩)
    · exact Or.inl (Or.inr (Or.inl h))
    · exact Or.inl (Or.inr (Or.inr (thr_keep hq hx hpc rfl)))
  | dCasFail t' r h' sp hpc =>
    rcases h with ⟨h0, hp⟩ | h | ⟨q, hq, hx⟩
    · exact Or.inl (Or.inl ⟨h0, hp⟩)
    · exact Or.inl (Or.inr (Or.inl h))
    · exact Or.inl (Or.inr (Or.inr (thr_keep hq hx hpc rfl)))
  | dCasOk t' r h' hpc hh =>
    rcases h with ⟨h0, hp⟩ | h | ⟨q, hq, hx⟩
    · exact Or.inl (Or.inl ⟨h0, hp⟩)
    · exact Or.inl (Or.inr (Or.inl h))
    · by_cases ht : t = t'
      · subst ht
        rw [hq] at hpc; cases hpc; cases hx
        exact Or.inr (Or.inl ⟨rfl, by simp, hnp⟩)
      · exact Or.inl (Or.inr (Or.inr ⟨q, by rw [setPC_ne ht]; exact hq, hx⟩))


end Momo.Rows
