import Momo.Proof.HashTableInv
/-!
  C01/C11, part 4: `pvAddNogrow` on one generation — port of prototype A.9 to the model.
  The insertion keeps `GenInv`, adds exactly the new item, and reports "Hash table is full"
  iff every bucket is full (C13's probe-sequence surjectivity).
-/
namespace Momo.HT
open Momo Momo.Probe

theorem maxProbe_congr (sp : Spec) (L : Nat) (b b' : Bucket) (h : b.bst = b'.bst) :
    maxProbe sp L b = maxProbe sp L b' := by
  unfold maxProbe; rw [h]

theorem BstOK_congr (sp : Spec) (b b' : Bucket) (h : b.bst = b'.bst) (hb : BstOK sp b) : BstOK sp b' := by
  unfold BstOK at *; rw [← h]; exact hb

theorem isFull_congr (sp : Spec) (b b' : Bucket) (h : b.items = b'.items) : isFull sp b = isFull sp b' := by
  unfold isFull; rw [h]

/-! ### the slot search -/

theorem findSlot_some (sp : Spec) (g : Gen) (home : Nat) :
    ∀ fuel j p idx, findSlot sp g fuel j (pseq sp g.L home j) = some (p, idx) →
      idx = pseq sp g.L home p ∧ j ≤ p ∧ (j < 2 ^ g.L → p < 2 ^ g.L) ∧
      isFull sp (bkt sp g.bs idx) = false ∧
      ∀ q, j ≤ q → q < p → isFull sp (bkt sp g.bs (pseq sp g.L home q)) = true := by
  intro fuel
  induction fuel with
  | zero => intro j p idx h; simp [findSlot] at h
  | succ f ih =>
    intro j p idx h
    simp only [findSlot] at h
    split at h
    · rename_i hnf
      simp only [Option.some.injEq, Prod.mk.injEq] at h
      obtain ⟨rfl, rfl⟩ := h
      exact ⟨rfl, Nat.le_refl _, id, by simpa using hnf, fun q h1 h2 => by omega⟩
    · rename_i hfull
      split at h
      · simp at h
      · rename_i hlt
        rw [pseq_succ] at h
        obtain ⟨e, hle, hb, hl, hall⟩ := ih (j + 1) p idx h
        refine ⟨e, by omega, fun _ => hb (by omega), hl, ?_⟩
        intro q h1 h2
        by_cases hq : q = j
        · subst hq; simpa using hfull
        · exact hall q (by omega) h2

theorem findSlot_none (sp : Spec) (g : Gen) (home : Nat) :
    ∀ fuel j, findSlot sp g fuel j (pseq sp g.L home j) = none → 2 ^ g.L ≤ fuel + j →
      ∀ q, j ≤ q → q < 2 ^ g.L → isFull sp (bkt sp g.bs (pseq sp g.L home q)) = true := by
  intro fuel
  induction fuel with
  | zero => intro j _ hf q h1 h2; omega
  | succ f ih =>
    intro j h hf q h1 h2
    simp only [findSlot] at h
    split at h
    · simp at h
    · rename_i hfull
      have hfj : isFull sp (bkt sp g.bs (pseq sp g.L home j)) = true := by simpa using hfull
      split at h
      · have : q = j := by omega
        subst this; exact hfj
      · rw [pseq_succ] at h
        by_cases hq : q = j
        · subst hq; exact hfj
        · exact ih (j + 1) h (by omega) q (by omega) h2

/-! ### the insertion -/

theorem addNogrowGen_L (sp : Spec) (g g' : Gen) (h : Nat) (it : Item) (idx : Nat)
    (hadd : addNogrowGen sp g h it = some (g', idx)) : g'.L = g.L := by
  unfold addNogrowGen at hadd
  simp only at hadd
  split at hadd
  · simp at hadd
  · simp only [Option.some.injEq, Prod.mk.injEq] at hadd
    obtain ⟨rfl, _⟩ := hadd; rfl

/-- **`pvAddNogrow` keeps the generation invariant and adds exactly the new item** — for every
    probing rule, `WasFull` rule and bound encoder that `SpecOK` allows, and every hash function -/
theorem addNogrowGen_inv (sp : Spec) (hf : Nat → Nat) (ok : SpecOK sp) (g g' : Gen) (it : Item)
    (idx : Nat) (hI : GenInv sp hf g) (hadd : addNogrowGen sp g (hf it.key) it = some (g', idx)) :
    GenInv sp hf g' ∧ (genItems g').Perm (it :: genItems g) ∧ g'.L = g.L := by
  have hL := addNogrowGen_L sp g g' _ it idx hadd
  unfold addNogrowGen at hadd
  simp only at hadd
  split at hadd
  · simp at hadd
  · rename_i p idx' hfs
    simp only [Option.some.injEq, Prod.mk.injEq] at hadd
    obtain ⟨hg', rfl⟩ := hadd
    have hfs' : findSlot sp g (2 ^ g.L) 0 (pseq sp g.L (homeOf hf g it.key) 0) = some (p, idx') := by
      rw [pseq_zero]; exact hfs
    obtain ⟨hidx, _, hplt, hroom, hfull⟩ := findSlot_some sp g (homeOf hf g it.key) _ 0 p idx' hfs'
    have hplt := hplt (Nat.two_pow_pos _)
    have hhome : homeOf hf g it.key < g.bs.length := by rw [hI.len]; exact homeOf_lt hf g _
    have hidxlt : idx' < g.bs.length := by
      rw [hidx, hI.len]; exact pseq_lt sp g.L _ p (homeOf_lt hf g _)
    -- p = 0 for the bucket kind that never probes
    have hz : sp.bound = .zero → p = 0 := by
      intro hb
      have hu := ok.zeroUnl hb
      cases p with
      | zero => rfl
      | succ p' =>
        have := hfull 0 (Nat.le_refl _) (by omega)
        simp [isFull, hu] at this
    set home := homeOf hf g it.key with hhomedef
    set bs1 := updBkt sp g.bs idx' (pushItem sp it) with hbs1
    set bs2 := updBkt sp bs1 home (fun b => updProbe sp b p) with hbs2
    have hhome1 : home < bs1.length := by rw [hbs1, updBkt_length]; exact hhome
    have B1 : ∀ i, bkt sp bs1 i = if idx' = i then pushItem sp it (bkt sp g.bs i) else bkt sp g.bs i :=
      fun i => bkt_updBkt sp _ _ _ _ hidxlt
    have B2 : ∀ i, bkt sp bs2 i = if home = i then updProbe sp (bkt sp bs1 i) p else bkt sp bs1 i :=
      fun i => bkt_updBkt sp _ _ _ _ hhome1
    have items2 : ∀ i, (bkt sp bs2 i).items
        = if idx' = i then (bkt sp g.bs i).items ++ [it] else (bkt sp g.bs i).items := by
      intro i; rw [B2, B1]
      by_cases h1 : home = i <;> by_cases h2 : idx' = i <;> simp [h1, h2]
    have wfeq : ∀ i, (bkt sp bs2 i).wasFull = (bkt sp bs1 i).wasFull := by
      intro i; rw [B2]; by_cases h1 : home = i <;> simp [h1]
    have wf2 : ∀ i, (bkt sp g.bs i).wasFull = true → (bkt sp bs2 i).wasFull = true := by
      intro i hi; rw [wfeq, B1]
      by_cases h2 : idx' = i <;> simp [h2, pushItem_wasFull, hi]
    have bst1 : ∀ i, (bkt sp bs1 i).bst = (bkt sp g.bs i).bst := by
      intro i; rw [B1]; by_cases h2 : idx' = i <;> simp [h2]
    have encs := fun i => BstOK_congr sp _ _ (bst1 i).symm (hI.enc i)
    have hups := updProbe_spec sp g.L (bkt sp bs1 home) p hplt hz (encs home)
    have bd2 : ∀ i, maxProbe sp g.L (bkt sp g.bs i) ≤ maxProbe sp g.L (bkt sp bs2 i) := by
      intro i; rw [B2, maxProbe_congr sp g.L _ _ (bst1 i).symm]
      by_cases h1 : home = i
      · subst h1; simp only [if_true]; exact hups.2.2
      · simp [h1]
    have bdhome : p ≤ maxProbe sp g.L (bkt sp bs2 home) := by
      rw [B2]; simp only [if_true]; exact hups.2.1
    have inv' : GenInv sp hf { g with bs := bs2 } := by
      refine ⟨?_, ?_, ?_, ?_, ?_⟩
      · show bs2.length = 2 ^ g.L
        rw [hbs2, updBkt_length, hbs1, updBkt_length]; exact hI.len
      · intro hu i
        show (bkt sp bs2 i).items.length ≤ sp.maxCount
        rw [items2]
        by_cases h2 : idx' = i
        · subst h2
          simp only [if_true, List.length_append, List.length_singleton]
          simp only [isFull, hu] at hroom
          simp at hroom; omega
        · simp only [h2, if_false]; exact hI.size hu i
      · intro i hi
        show (bkt sp bs2 i).wasFull = true
        have hi' : isFull sp (bkt sp bs2 i) = true := hi
        by_cases h2 : idx' = i
        · subst h2
          rw [wfeq, B1]; simp only [if_true, pushItem_wasFull]
          unfold isFull at hi'
          rw [items2] at hi'
          simp only [if_true, List.length_append, List.length_singleton, Bool.and_eq_true,
            Bool.not_eq_true', decide_eq_true_eq] at hi'
          have := ok.fullLe hi'.1
          simp [hi'.1]; right; omega
        · have : isFull sp (bkt sp bs2 i) = isFull sp (bkt sp g.bs i) :=
            isFull_congr sp _ _ (by rw [items2]; simp [h2])
          rw [this] at hi'
          exact wf2 i (hI.full i hi')
      · intro i x hx
        show ∃ p', i = pseq sp g.L (homeOf hf g x.key) p' ∧
          p' ≤ maxProbe sp g.L (bkt sp bs2 (homeOf hf g x.key)) ∧
          ∀ q, q < p' → (bkt sp bs2 (pseq sp g.L (homeOf hf g x.key) q)).wasFull = true
        have hx' : x ∈ (bkt sp bs2 i).items := hx
        rw [items2] at hx'
        have old : x ∈ (bkt sp g.bs i).items → ∃ p', i = pseq sp g.L (homeOf hf g x.key) p' ∧
            p' ≤ maxProbe sp g.L (bkt sp bs2 (homeOf hf g x.key)) ∧
            ∀ q, q < p' → (bkt sp bs2 (pseq sp g.L (homeOf hf g x.key) q)).wasFull = true := by
          intro hxo
          obtain ⟨p', e, hp', hq'⟩ := hI.place i x hxo
          exact ⟨p', e, Nat.le_trans hp' (bd2 _), fun q hlt => wf2 _ (hq' q hlt)⟩
        by_cases h2 : idx' = i
        · subst h2
          simp only [if_true, List.mem_append, List.mem_singleton] at hx'
          rcases hx' with hx' | hx'
          · exact old hx'
          · subst hx'
            refine ⟨p, hidx, bdhome, ?_⟩
            intro q hq
            exact wf2 _ (hI.full _ (hfull q (Nat.zero_le _) hq))
        · simp only [h2, if_false] at hx'; exact old hx'
      · intro i
        show BstOK sp (bkt sp bs2 i)
        rw [B2]
        by_cases h1 : home = i
        · subst h1; simp only [if_true]; exact hups.1
        · simp only [h1, if_false]; exact encs i
    have hperm : (genItems { g with bs := bs2 }).Perm (it :: genItems g) := by
      have e1 : genItems { g with bs := bs2 } = genItems { g with bs := bs1 } :=
        genItems_upd_same sp { g with bs := bs1 } home (fun b => updProbe sp b p) (by simp)
      rw [e1]
      exact genItems_upd_add sp g idx' (pushItem sp it) it hidxlt (by simp [List.perm_append_singleton])
    rw [← hg'] at hL ⊢
    exact ⟨inv', hperm, rfl⟩

/-- **"Hash table is full" iff every bucket is full** (C11; uses C13's surjectivity of the probe
    sequence) -/
theorem addNogrowGen_none_iff (sp : Spec) (g : Gen) (h : Nat) (it : Item) :
    addNogrowGen sp g h it = none ↔ ∀ b, b < 2 ^ g.L → isFull sp (bkt sp g.bs b) = true := by
  have hh : start g.L h < 2 ^ g.L := start_lt _ _
  constructor
  · intro hnone b hb
    unfold addNogrowGen at hnone
    simp only at hnone
    split at hnone
    · rename_i hfs
      have hfs' : findSlot sp g (2 ^ g.L) 0 (pseq sp g.L (start g.L h) 0) = none := by
        rw [pseq_zero]; exact hfs
      obtain ⟨p, hp, rfl⟩ := pseq_surj sp g.L _ b hh hb
      exact findSlot_none sp g _ _ 0 hfs' (by omega) p (Nat.zero_le _) hp
    · simp at hnone
  · intro hall
    unfold addNogrowGen
    simp only
    split
    · rfl
    · rename_i p idx hfs
      have hfs' : findSlot sp g (2 ^ g.L) 0 (pseq sp g.L (start g.L h) 0) = some (p, idx) := by
        rw [pseq_zero]; exact hfs
      obtain ⟨hidx, _, hplt, hroom, _⟩ := findSlot_some sp g _ _ 0 p idx hfs'
      have := hall idx (by rw [hidx]; exact pseq_lt sp g.L _ p hh)
      rw [hroom] at this; cases this

/-! ### counting: a generation whose buckets are all full holds `2^L · maxCount` items -/

theorem sum_lengths_ge (bs : List Bucket) (m : Nat) (h : ∀ b ∈ bs, m ≤ b.items.length) :
    bs.length * m ≤ (bs.map (·.items.length)).sum := by
  induction bs with
  | nil => simp
  | cons b rest ih =>
    simp only [List.length_cons, List.map_cons, List.sum_cons]
    have := h b (by simp)
    have := ih (fun b hb => h b (by simp [hb]))
    rw [Nat.add_mul]; omega

theorem genCount_of_all_full (sp : Spec) (g : Gen) (hlen : g.bs.length = 2 ^ g.L)
    (hall : ∀ b, b < 2 ^ g.L → isFull sp (bkt sp g.bs b) = true) :
    sp.unlimited = false ∧ 2 ^ g.L * sp.maxCount ≤ genCount g := by
  have h0 := hall 0 (Nat.two_pow_pos _)
  have hu : sp.unlimited = false := by
    unfold isFull at h0; cases hunl : sp.unlimited <;> simp_all
  refine ⟨hu, ?_⟩
  unfold genCount
  rw [← hlen]
  apply sum_lengths_ge
  intro b hb
  obtain ⟨i, hi, rfl⟩ := (mem_bs_iff sp g.bs b).mp hb
  have := hall i (by omega)
  unfold isFull at this
  simpa [hu] using this

/-- while the generation is not completely full the insertion succeeds -/
theorem addNogrowGen_isSome (sp : Spec) (g : Gen) (h : Nat) (it : Item) (hlen : g.bs.length = 2 ^ g.L)
    (hroom : sp.unlimited = true ∨ genCount g < 2 ^ g.L * sp.maxCount) :
    (addNogrowGen sp g h it).isSome := by
  cases hadd : addNogrowGen sp g h it with
  | some _ => rfl
  | none =>
    obtain ⟨hu, hge⟩ := genCount_of_all_full sp g hlen ((addNogrowGen_none_iff sp g h it).mp hadd)
    rcases hroom with h1 | h1
    · rw [hu] at h1; cases h1
    · omega

theorem genCount_emptyGen (sp : Spec) (L : Nat) : genCount (emptyGen sp L) = 0 := by
  rw [genCount_eq]; simp

/-- a fresh bucket array always accepts an item -/
theorem addNogrowGen_emptyGen_isSome (sp : Spec) (ok : SpecOK sp) (L h : Nat) (it : Item) :
    (addNogrowGen sp (emptyGen sp L) h it).isSome := by
  apply addNogrowGen_isSome sp _ h it (by simp [emptyGen])
  cases hu : sp.unlimited
  · right; rw [genCount_emptyGen]
    exact Nat.mul_pos (Nat.two_pow_pos _) ok.maxPos
  · left; rfl

end Momo.HT
