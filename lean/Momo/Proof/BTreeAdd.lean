import Momo.Proof.BTreeIter
/-!
  C02, insertion at a position: `pvAdd` (in place, `pvAddGrow`, `pvAddSplit` with cascading split and a new root)
  refines `List.insertIdx` at the in-order index of the iterator, for every capacity function; structure and
  capacities are preserved; the returned iterator denotes the new element. Core Lean only.
-/
namespace Momo.BTree
open Node
variable {α : Type}

/-! ### list lemmas -/

theorem insertIdx_eq_take_drop (l : List α) (i : Nat) (x : α) (h : i ≤ l.length) :
    l.insertIdx i x = l.take i ++ x :: l.drop i := by
  induction l generalizing i with
  | nil => have : i = 0 := by simpa using h
           subst this; simp
  | cons y ys ih =>
    cases i with
    | zero => simp
    | succ j => simp [List.insertIdx_succ_cons, ih j (by simpa using h)]

theorem insertIdx_append_right (a b : List α) (k : Nat) (x : α) :
    (a ++ b).insertIdx (a.length + k) x = a ++ b.insertIdx k x := by
  induction a with
  | nil => simp
  | cons y ys ih =>
    have : (y :: ys).length + k = (ys.length + k) + 1 := by simp; omega
    rw [this]; simp [List.insertIdx_succ_cons, ih]

theorem insertIdx_append_left (b c : List α) (k : Nat) (x : α) (h : k ≤ b.length) :
    (b ++ c).insertIdx k x = b.insertIdx k x ++ c := by
  induction b generalizing k with
  | nil => have : k = 0 := by simpa using h
           subst this; simp
  | cons y ys ih =>
    cases k with
    | zero => simp
    | succ j => simp [List.insertIdx_succ_cons, ih j (by simpa using h)]

theorem insertIdx_middle (a b c : List α) (k : Nat) (x : α) (h : k ≤ b.length) :
    (a ++ b ++ c).insertIdx (a.length + k) x = a ++ b.insertIdx k x ++ c := by
  rw [List.append_assoc, insertIdx_append_right, insertIdx_append_left b c k x h, List.append_assoc]

theorem sum_take_split (cs : List (Node α)) (a k : Nat) :
    ((cs.take (a + k)).map (fun c => size c)).sum =
      ((cs.take a).map (fun c => size c)).sum + (((cs.drop a).take k).map (fun c => size c)).sum := by
  rw [List.take_add]; simp

/-! ### cutting an over-full node -/

theorem inter_cut (cs : List (Node α)) (is : List α) (m : Nat) (sep : α) (hlen : cs.length = is.length + 1)
    (hm : is[m]? = some sep) :
    inter (cs.take (m+1)) (is.take m) ++ sep :: inter (cs.drop (m+1)) (is.drop (m+1)) = inter cs is := by
  induction cs generalizing is m with
  | nil => simp at hlen
  | cons c cs ih =>
    cases is with
    | nil => simp at hm
    | cons s is' =>
      cases m with
      | zero =>
        simp at hm; subst hm
        cases cs with
        | nil => simp at hlen
        | cons c1 cs' => simp
      | succ k =>
        have := ih is' k (by simpa using hlen) (by simpa using hm)
        simp only [List.take_succ_cons, List.drop_succ_cons, inter_cons_cons, List.append_assoc, List.cons_append]
        rw [this]

/-- index of a position in the left half of a cut internal node -/
theorem idxOf_cut_left (cs : List (Node α)) (is : List α) (m j : Nat) (q : List Nat) (i : Nat) (hj : j ≤ m) :
    idxOf (inner (is.take m) (cs.take (m+1))) (j :: q) i = idxOf (inner is cs) (j :: q) i := by
  have h1 : (cs.take (m+1)).take j = cs.take j := by rw [List.take_take]; congr 1; omega
  have h2 : (cs.take (m+1))[j]? = cs[j]? := by rw [List.getElem?_take]; simp <;> omega
  simp only [idxOf_inner_cons, h1, h2]

/-- index of a position in the right half of a cut internal node -/
theorem idxOf_cut_right (cs : List (Node α)) (is : List α) (m j : Nat) (q : List Nat) (i : Nat)
    (hj : m < j) (hm : m < is.length) (hlen : cs.length = is.length + 1) :
    size (inner (is.take m) (cs.take (m+1))) + 1 + idxOf (inner (is.drop (m+1)) (cs.drop (m+1))) ((j - (m+1)) :: q) i =
      idxOf (inner is cs) (j :: q) i := by
  have hs := size_inner (is.take m) (cs.take (m+1)) (by simp; omega)
  have h1 := sum_take_split cs (m+1) (j - (m+1))
  have h2 : m + 1 + (j - (m+1)) = j := by omega
  rw [h2] at h1
  have h3 : (cs.drop (m+1))[j - (m+1)]? = cs[j]? := by rw [List.getElem?_drop, h2]
  have h4 : (is.take m).length = m := by simp; omega
  simp only [idxOf_inner_cons, h3, hs, h1, h4]
  omega

/-! ### results -/

def AddRes.toList : AddRes α → List α
  | .ok n _ => Node.toList n
  | .split l s r _ _ => Node.toList l ++ s :: Node.toList r

/-- in-order index of the new element inside the result -/
def AddRes.posIdx : AddRes α → Nat
  | .ok n q => idxOf n q.path q.idx
  | .split l _ r right q => if right then size l + 1 + idxOf r q.path q.idx else idxOf l q.path q.idx

def AddRes.Bal (d : Nat) : AddRes α → Prop
  | .ok n _ => BTree.Bal d n
  | .split l _ r _ _ => BTree.Bal d l ∧ BTree.Bal d r

def AddRes.Caps (maxCap : Nat) : AddRes α → Prop
  | .ok n _ => BTree.Caps maxCap n
  | .split l _ r _ _ => BTree.Caps maxCap l ∧ BTree.Caps maxCap r

/-- the position names an element of the result -/
def AddRes.PosValid : AddRes α → Prop
  | .ok n q => ValidElem n q.path q.idx
  | .split l _ r right q => if right then ValidElem r q.path q.idx else ValidElem l q.path q.idx

/-! ### capacities and the split point -/

theorem leafCap_bounds (cfg : Cfg) (ia count : Nat) (h : count ≤ cfg.maxCap) :
    count ≤ leafCap cfg ia count ∧ leafCap cfg ia count ≤ cfg.maxCap := by
  unfold leafCap
  split
  · exact ⟨h, Nat.le_refl _⟩
  · have h1 : cfg.step * min ((cfg.maxCap - count) / cfg.step) (lastLeafPool cfg) ≤ cfg.maxCap - count := by
      calc cfg.step * min ((cfg.maxCap - count) / cfg.step) (lastLeafPool cfg)
          ≤ cfg.step * ((cfg.maxCap - count) / cfg.step) := Nat.mul_le_mul_left _ (Nat.min_le_left _ _)
        _ ≤ cfg.maxCap - count := Nat.mul_div_le _ _
    omega

theorem splitIdx_lt (count i : Nat) (h : 0 < count) : splitIdx count i < count := by
  unfold splitIdx
  simp only [Extracted.treeSplitDivisor, Extracted.treeSplitModulus]
  split <;> omega

/-! ### the leaf -/

theorem addLeaf_spec (cfg : Cfg) (ia cap : Nat) (items : List α) (i : Nat) (x : α) (hi : i ≤ items.length)
    (hmax : 0 < cfg.maxCap) :
    (addLeaf cfg ia cap items i x).toList = items.insertIdx i x ∧ (addLeaf cfg ia cap items i x).Bal 0 ∧
    (addLeaf cfg ia cap items i x).posIdx = i ∧ (addLeaf cfg ia cap items i x).PosValid := by
  have hlenall : (items.insertIdx i x).length = items.length + 1 := List.length_insertIdx_of_le_length hi x
  unfold addLeaf
  split
  · refine ⟨by simp [AddRes.toList], Bal.leaf _ _, by simp [AddRes.posIdx], ?_⟩
    exact ⟨leaf cap (items.insertIdx i x), by simp, by simp [Node.count, hlenall]; omega⟩
  · split
    · refine ⟨by simp [AddRes.toList], Bal.leaf _ _, by simp [AddRes.posIdx], ?_⟩
      refine ⟨_, nodeAt?_nil _, ?_⟩
      simp [Node.count, hlenall]; omega
    · rename_i hfull1 hfull2
      have hcount : 0 < items.length := by omega
      have hs := splitIdx_lt items.length i hcount
      split
      · rename_i hle
        obtain ⟨sep, hsep⟩ := getElem?_of_lt (l := items.insertIdx i x) (i := splitIdx items.length i + 1) (by omega)
        simp only [hsep]
        refine ⟨?_, ⟨Bal.leaf _ _, Bal.leaf _ _⟩, by simp [AddRes.posIdx], ?_⟩
        · simp only [AddRes.toList, toList_leaf]
          have hd : (items.insertIdx i x).drop (splitIdx items.length i + 1) =
              sep :: (items.insertIdx i x).drop (splitIdx items.length i + 2) := by
            have hlt : splitIdx items.length i + 1 < (items.insertIdx i x).length := lt_of_getElem? hsep
            rw [List.drop_eq_getElem_cons hlt]
            congr 1
            rw [List.getElem?_eq_getElem hlt] at hsep; exact Option.some.inj hsep
          rw [← hd, List.take_append_drop]
        · simp only [AddRes.PosValid, Bool.false_eq_true, if_false]
          refine ⟨_, nodeAt?_nil _, ?_⟩
          simp [Node.count, hlenall]; omega
      · rename_i hnle
        obtain ⟨sep, hsep⟩ := getElem?_of_lt (l := items.insertIdx i x) (i := splitIdx items.length i) (by omega)
        simp only [hsep]
        refine ⟨?_, ⟨Bal.leaf _ _, Bal.leaf _ _⟩, ?_, ?_⟩
        · simp only [AddRes.toList, toList_leaf]
          have hd : (items.insertIdx i x).drop (splitIdx items.length i) =
              sep :: (items.insertIdx i x).drop (splitIdx items.length i + 1) := by
            have hlt : splitIdx items.length i < (items.insertIdx i x).length := lt_of_getElem? hsep
            rw [List.drop_eq_getElem_cons hlt]
            congr 1
            rw [List.getElem?_eq_getElem hlt] at hsep; exact Option.some.inj hsep
          rw [← hd, List.take_append_drop]
        · simp only [AddRes.posIdx, if_true, size, toList_leaf, idxOf_leaf, List.length_take, hlenall]
          omega
        · simp only [AddRes.PosValid, if_true]
          refine ⟨_, nodeAt?_nil _, ?_⟩
          simp [Node.count, hlenall]; omega

theorem addLeaf_caps (cfg : Cfg) (ia cap : Nat) (items : List α) (i : Nat) (x : α) (hi : i ≤ items.length)
    (hmax : 0 < cfg.maxCap) (hc : Caps cfg.maxCap (leaf cap items)) :
    (addLeaf cfg ia cap items i x).Caps cfg.maxCap := by
  have hlenall : (items.insertIdx i x).length = items.length + 1 := List.length_insertIdx_of_le_length hi x
  cases hc with
  | leaf _ _ h1 h2 =>
  unfold addLeaf
  split
  · exact Caps.leaf _ _ (by rw [hlenall]; omega) h2
  · split
    · rename_i _ hlt
      have := leafCap_bounds cfg ia (items.length + 1) (by omega)
      exact Caps.leaf _ _ (by rw [hlenall]; exact this.1) this.2
    · rename_i hfull1 hfull2
      have hcount : 0 < items.length := by omega
      have hs := splitIdx_lt items.length i hcount
      have hle : items.length ≤ cfg.maxCap := by omega
      split
      · obtain ⟨sep, hsep⟩ := getElem?_of_lt (l := items.insertIdx i x) (i := splitIdx items.length i + 1) (by omega)
        simp only [hsep]
        have b1 := leafCap_bounds cfg ia (splitIdx items.length i + 1) (by omega)
        have b2 := leafCap_bounds cfg ia (items.length - splitIdx items.length i - 1) (by omega)
        exact ⟨Caps.leaf _ _ (by simp [hlenall]; omega) b1.2, Caps.leaf _ _ (by simp [hlenall]; omega) b2.2⟩
      · obtain ⟨sep, hsep⟩ := getElem?_of_lt (l := items.insertIdx i x) (i := splitIdx items.length i) (by omega)
        simp only [hsep]
        have b1 := leafCap_bounds cfg ia (splitIdx items.length i) (by omega)
        have b2 := leafCap_bounds cfg ia (items.length - splitIdx items.length i) (by omega)
        exact ⟨Caps.leaf _ _ (by simp [hlenall]; omega) b1.2, Caps.leaf _ _ (by simp [hlenall]; omega) b2.2⟩

/-! ### an internal node whose child was replaced by `l sep r` -/

/-- the children list after child `c` was split -/
def splitChildren (cs : List (Node α)) (c : Nat) (l r : Node α) : List (Node α) := cs.take c ++ l :: r :: cs.drop (c + 1)

theorem splitChildren_length (cs : List (Node α)) (c : Nat) (l r : Node α) (hc : c < cs.length) :
    (splitChildren cs c l r).length = cs.length + 1 := by
  simp [splitChildren]; omega

theorem inter_splitChildren (cs : List (Node α)) (is : List α) (c : Nat) (ch l r : Node α) (sep : α)
    (hc : cs[c]? = some ch) (hlen : cs.length = is.length + 1) :
    inter (splitChildren cs c l r) (is.insertIdx c sep) =
      preOf cs is c ++ (toList l ++ sep :: toList r) ++ postOf cs is c := by
  induction cs generalizing is c with
  | nil => simp at hc
  | cons c0 cs ih =>
    cases c with
    | zero =>
      cases is with
      | nil => simp at hlen; subst hlen; simp [splitChildren, preOf, postOf]
      | cons s is' => simp [splitChildren, preOf, postOf]
    | succ k =>
      cases is with
      | nil => simp at hlen; subst hlen; simp at hc
      | cons s is' =>
        have := ih is' k (by simpa using hc) (by simpa using hlen)
        simp only [splitChildren] at this ⊢
        simp only [List.take_succ_cons, List.drop_succ_cons, List.cons_append, List.insertIdx_succ_cons,
          inter_cons_cons, this]
        simp [preOf, postOf]

theorem splitChildren_getElem_lt (cs : List (Node α)) (c j : Nat) (l r : Node α) (hj : j < c) (hc : c < cs.length) :
    (splitChildren cs c l r)[j]? = cs[j]? := by
  simp only [splitChildren]
  rw [List.getElem?_append_left (by simp; omega), List.getElem?_take]; simp [hj]

theorem splitChildren_getElem_left (cs : List (Node α)) (c : Nat) (l r : Node α) (hc : c < cs.length) :
    (splitChildren cs c l r)[c]? = some l := by
  have h : (cs.take c).length = c := by simp; omega
  simp only [splitChildren]
  rw [List.getElem?_append_right (by omega), h]; simp

theorem splitChildren_getElem_right (cs : List (Node α)) (c : Nat) (l r : Node α) (hc : c < cs.length) :
    (splitChildren cs c l r)[c + 1]? = some r := by
  have h : (cs.take c).length = c := by simp; omega
  simp only [splitChildren]
  rw [List.getElem?_append_right (by omega), h]
  have : c + 1 - c = 1 := by omega
  rw [this]; simp

theorem splitChildren_take (cs : List (Node α)) (c : Nat) (l r : Node α) (hc : c < cs.length) :
    (splitChildren cs c l r).take c = cs.take c := by
  simp only [splitChildren]
  rw [List.take_append_of_le_length (by simp; omega), List.take_take]; simp

theorem splitChildren_take_succ (cs : List (Node α)) (c : Nat) (l r : Node α) (hc : c < cs.length) :
    (splitChildren cs c l r).take (c + 1) = cs.take c ++ [l] := by
  simp only [splitChildren]
  have h : (cs.take c).length = c := by simp; omega
  rw [List.take_append, h, List.take_take]
  have h1 : min (c + 1) c = c := by omega
  have h2 : c + 1 - c = 1 := by omega
  rw [h1, h2]; simp

theorem splitChildren_mem (cs : List (Node α)) (c : Nat) (l r : Node α) (x : Node α)
    (hx : x ∈ splitChildren cs c l r) : x ∈ cs ∨ x = l ∨ x = r := by
  simp only [splitChildren, List.mem_append, List.mem_cons] at hx
  rcases hx with hx | rfl | rfl | hx
  · exact Or.inl (List.mem_of_mem_take hx)
  · exact Or.inr (Or.inl rfl)
  · exact Or.inr (Or.inr rfl)
  · exact Or.inl (List.mem_of_mem_drop hx)

/-- the node `inner (is.insertIdx c sep) (splitChildren cs c l r)` seen from the new element below `l` (`right = false`)
    or `r`: its index is the index the child result reports, shifted by what precedes child `c` -/
theorem idxOf_splitChildren (cs : List (Node α)) (is : List α) (c : Nat) (l r : Node α) (sep : α) (right : Bool)
    (q : Pos) (hc : c < cs.length) :
    idxOf (inner (is.insertIdx c sep) (splitChildren cs c l r)) ((if right then c + 1 else c) :: q.path) q.idx =
      ((cs.take c).map (fun ch => size ch)).sum + c +
        (if right then size l + 1 + idxOf r q.path q.idx else idxOf l q.path q.idx) := by
  cases right with
  | false =>
    simp only [Bool.false_eq_true, if_false]
    rw [idxOf_inner_cons' (splitChildren_getElem_left cs c l r hc), splitChildren_take cs c l r hc]
  | true =>
    simp only [if_true]
    rw [idxOf_inner_cons' (splitChildren_getElem_right cs c l r hc), splitChildren_take_succ cs c l r hc]
    simp; omega

theorem addInner_spec (cfg : Cfg) {d : Nat} (items : List α) (cs : List (Node α)) (c : Nat) (ch l r : Node α) (sep : α)
    (right : Bool) (q : Pos) (hb : Bal (d+1) (inner items cs)) (hc : cs[c]? = some ch) (hmax : 0 < cfg.maxCap)
    (hl : Bal d l) (hr : Bal d r) (hq : if right then ValidElem r q.path q.idx else ValidElem l q.path q.idx) :
    (addInner cfg items cs c l sep r right q).toList =
        preOf cs items c ++ (toList l ++ sep :: toList r) ++ postOf cs items c ∧
    (addInner cfg items cs c l sep r right q).Bal (d+1) ∧
    (addInner cfg items cs c l sep r right q).posIdx =
        ((cs.take c).map (fun ch => size ch)).sum + c +
          (if right then size l + 1 + idxOf r q.path q.idx else idxOf l q.path q.idx) ∧
    (addInner cfg items cs c l sep r right q).PosValid := by
  have hlen := hb.inner_len
  have hall := hb.inner_child
  have hcl : c < cs.length := lt_of_getElem? hc
  have hci : c ≤ items.length := by omega
  have hlen' : (splitChildren cs c l r).length = (items.insertIdx c sep).length + 1 := by
    rw [splitChildren_length cs c l r hcl, List.length_insertIdx_of_le_length hci]; omega
  have hlenI : (items.insertIdx c sep).length = items.length + 1 := List.length_insertIdx_of_le_length hci sep
  have hall' : ∀ x ∈ splitChildren cs c l r, Bal d x := by
    intro x hx
    rcases splitChildren_mem cs c l r x hx with h | rfl | rfl
    · exact hall x h
    · exact hl
    · exact hr
  have htl := inter_splitChildren cs items c ch l r sep hc hlen
  have hidx := idxOf_splitChildren cs items c l r sep right q hcl
  -- the node at the head of the new element's path
  have hnode : ∀ (m : Nat), ∃ n', (splitChildren cs c l r)[if right then c + 1 else c]? = some n' ∧
      ValidElem n' q.path q.idx := by
    intro _
    cases right with
    | false => exact ⟨l, by simpa using splitChildren_getElem_left cs c l r hcl, by simpa using hq⟩
    | true => exact ⟨r, by simpa using splitChildren_getElem_right cs c l r hcl, by simpa using hq⟩
  obtain ⟨n', hn', hvn'⟩ := hnode 0
  have hci' : (if right then c + 1 else c) ≤ c + 1 := by split <;> omega
  have hci'' : c ≤ (if right then c + 1 else c) := by split <;> omega
  have hfold : cs.take c ++ l :: r :: cs.drop (c + 1) = splitChildren cs c l r := rfl
  unfold addInner
  simp only [hfold]
  split
  · -- room in this node
    refine ⟨by simpa [AddRes.toList] using htl, ?_, by simpa [AddRes.posIdx] using hidx, ?_⟩
    · exact Bal.inner d _ _ hlen' hall'
    · obtain ⟨m, hm1, hm2⟩ := hvn'
      exact ⟨m, by rw [nodeAt?_inner_cons' hn']; exact hm1, hm2⟩
  · rename_i hfull
    have hcount : 0 < items.length := by omega
    have hs := splitIdx_lt items.length c hcount
    split
    · rename_i hle
      obtain ⟨sep', hsep'⟩ := getElem?_of_lt (l := items.insertIdx c sep) (i := splitIdx items.length c + 1) (by omega)
      simp only [hsep']
      have hcut := inter_cut (splitChildren cs c l r) (items.insertIdx c sep) (splitIdx items.length c + 1) sep' hlen' hsep'
      refine ⟨?_, ⟨?_, ?_⟩, ?_, ?_⟩
      · simp only [AddRes.toList, toList_inner]; rw [hcut, htl]
      · exact Bal.inner d _ _ (by simp [hlenI, splitChildren_length cs c l r hcl]; omega)
          (fun x hx => hall' x (List.mem_of_mem_take hx))
      · exact Bal.inner d _ _ (by simp [hlenI, splitChildren_length cs c l r hcl]; omega)
          (fun x hx => hall' x (List.mem_of_mem_drop hx))
      · simp only [AddRes.posIdx, Bool.false_eq_true, if_false]
        rw [idxOf_cut_left _ _ _ _ _ _ (by omega), hidx]
      · simp only [AddRes.PosValid, Bool.false_eq_true, if_false]
        obtain ⟨m, hm1, hm2⟩ := hvn'
        refine ⟨m, ?_, hm2⟩
        have : (List.take (splitIdx items.length c + 1 + 1) (splitChildren cs c l r))[if right then c + 1 else c]? = some n' := by
          rw [List.getElem?_take]; simp only [hn']; simp; omega
        rw [nodeAt?_inner_cons' this]; exact hm1
    · rename_i hnle
      obtain ⟨sep', hsep'⟩ := getElem?_of_lt (l := items.insertIdx c sep) (i := splitIdx items.length c) (by omega)
      simp only [hsep']
      have hcut := inter_cut (splitChildren cs c l r) (items.insertIdx c sep) (splitIdx items.length c) sep' hlen' hsep'
      refine ⟨?_, ⟨?_, ?_⟩, ?_, ?_⟩
      · simp only [AddRes.toList, toList_inner]; rw [hcut, htl]
      · exact Bal.inner d _ _ (by simp [hlenI, splitChildren_length cs c l r hcl]; omega)
          (fun x hx => hall' x (List.mem_of_mem_take hx))
      · exact Bal.inner d _ _ (by simp [hlenI, splitChildren_length cs c l r hcl]; omega)
          (fun x hx => hall' x (List.mem_of_mem_drop hx))
      · simp only [AddRes.posIdx, if_true]
        rw [idxOf_cut_right _ _ _ _ _ _ (by omega) (by omega) hlen', hidx]
      · simp only [AddRes.PosValid, if_true]
        obtain ⟨m, hm1, hm2⟩ := hvn'
        refine ⟨m, ?_, hm2⟩
        have : (List.drop (splitIdx items.length c + 1) (splitChildren cs c l r))[(if right then c + 1 else c) - (splitIdx items.length c + 1)]? = some n' := by
          rw [List.getElem?_drop]
          have : splitIdx items.length c + 1 + ((if right then c + 1 else c) - (splitIdx items.length c + 1)) =
              (if right then c + 1 else c) := by omega
          rw [this]; exact hn'
        rw [nodeAt?_inner_cons' this]; exact hm1

theorem addInner_caps (cfg : Cfg) (items : List α) (cs : List (Node α)) (c : Nat) (l r : Node α) (sep : α)
    (right : Bool) (q : Pos) (hcaps : Caps cfg.maxCap (inner items cs)) (hc : c < cs.length)
    (hlen : cs.length = items.length + 1) (hmax : 0 < cfg.maxCap)
    (hl : Caps cfg.maxCap l) (hr : Caps cfg.maxCap r) :
    (addInner cfg items cs c l sep r right q).Caps cfg.maxCap := by
  cases hcaps with
  | inner _ _ h1 hall =>
  have hci : c ≤ items.length := by omega
  have hlenI : (items.insertIdx c sep).length = items.length + 1 := List.length_insertIdx_of_le_length hci sep
  have hall' : ∀ x ∈ splitChildren cs c l r, Caps cfg.maxCap x := by
    intro x hx
    rcases splitChildren_mem cs c l r x hx with h | rfl | rfl
    · exact hall x h
    · exact hl
    · exact hr
  have hfold : cs.take c ++ l :: r :: cs.drop (c + 1) = splitChildren cs c l r := rfl
  unfold addInner
  simp only [hfold]
  split
  · exact Caps.inner _ _ (by rw [hlenI]; omega) hall'
  · rename_i hfull
    have hcount : 0 < items.length := by omega
    have hs := splitIdx_lt items.length c hcount
    split
    · obtain ⟨sep', hsep'⟩ := getElem?_of_lt (l := items.insertIdx c sep) (i := splitIdx items.length c + 1) (by omega)
      simp only [hsep']
      exact ⟨Caps.inner _ _ (by simp [hlenI]; omega) (fun x hx => hall' x (List.mem_of_mem_take hx)),
             Caps.inner _ _ (by simp [hlenI]; omega) (fun x hx => hall' x (List.mem_of_mem_drop hx))⟩
    · obtain ⟨sep', hsep'⟩ := getElem?_of_lt (l := items.insertIdx c sep) (i := splitIdx items.length c) (by omega)
      simp only [hsep']
      exact ⟨Caps.inner _ _ (by simp [hlenI]; omega) (fun x hx => hall' x (List.mem_of_mem_take hx)),
             Caps.inner _ _ (by simp [hlenI]; omega) (fun x hx => hall' x (List.mem_of_mem_drop hx))⟩

/-! ### the descent -/

/-- `pvAdd` at a leaf slot: list refinement, structure, index and validity of the returned position -/
theorem addAt_spec (cfg : Cfg) (ia : Nat) (x : α) (hmax : 0 < cfg.maxCap) {d : Nat} {n : Node α} (hb : Bal d n)
    (path : List Nat) (i cap : Nat) (items : List α) (hm : nodeAt? n path = some (leaf cap items))
    (hi : i ≤ items.length) :
    (addAt cfg ia x n path i).toList = (toList n).insertIdx (idxOf n path i) x ∧
    (addAt cfg ia x n path i).Bal d ∧
    (addAt cfg ia x n path i).posIdx = idxOf n path i ∧
    (addAt cfg ia x n path i).PosValid := by
  induction path generalizing n d with
  | nil =>
    simp at hm; subst hm
    have hd := hb.leaf_depth; subst hd
    simpa [addAt] using addLeaf_spec cfg ia cap items i x hi hmax
  | cons c p ih =>
    cases n with
    | leaf cap' is => simp at hm
    | inner is cs =>
      obtain ⟨d', rfl, hall⟩ := hb.inner_depth
      have hlen := hb.inner_len
      simp only [nodeAt?_inner_cons] at hm
      cases hc : cs[c]? with
      | none => simp [hc] at hm
      | some ch =>
        simp only [hc] at hm
        have hcl := lt_of_getElem? hc
        have hbch := hall ch (List.mem_of_getElem? hc)
        obtain ⟨h1, h2, h3, h4⟩ := ih hbch hm
        have hk : idxOf ch p i ≤ (toList ch).length := by
          have := idxOf_eq_offset ch _ p i hm
          -- index of a leaf slot is at most the size: offset + i ≤ size
          have hle := leafSlot_le hbch p i cap items hm hi
          simpa [size] using hle
        simp only [addAt, hc]
        rw [idxOf_inner_cons' hc, toList_inner, inter_split cs is c ch hc hlen]
        have hprelen := preOf_length cs is c (by omega) hlen
        cases hres : addAt cfg ia x ch p i with
        | ok ch' q =>
          rw [hres] at h1 h2 h3 h4
          simp only [AddRes.toList, AddRes.Bal, AddRes.posIdx, AddRes.PosValid] at h1 h2 h3 h4
          simp only [liftRes, AddRes.toList, AddRes.Bal, AddRes.posIdx, AddRes.PosValid, toList_inner]
          refine ⟨?_, ?_, ?_, ?_⟩
          · rw [inter_set cs is c ch ch' hc hlen, h1, ← hprelen, insertIdx_middle _ _ _ _ _ hk]
          · exact Bal.inner d' _ _ (by simpa using hlen) (fun y hy => by
              rcases List.mem_or_eq_of_mem_set hy with h | rfl
              · exact hall y h
              · exact h2)
          · have hset : (cs.set c ch')[c]? = some ch' := by simp [hcl]
            rw [idxOf_inner_cons' hset, h3]; simp [List.take_set_of_le]
          · obtain ⟨m, hm1, hm2⟩ := h4
            have hset : (cs.set c ch')[c]? = some ch' := by simp [hcl]
            exact ⟨m, by rw [nodeAt?_inner_cons' hset]; exact hm1, hm2⟩
        | split l sep r right q =>
          rw [hres] at h1 h2 h3 h4
          simp only [AddRes.toList, AddRes.Bal, AddRes.posIdx, AddRes.PosValid] at h1 h2 h3 h4
          obtain ⟨g1, g2, g3, g4⟩ := addInner_spec cfg is cs c ch l r sep right q hb hc hmax h2.1 h2.2 h4
          simp only [liftRes]
          refine ⟨?_, g2, ?_, g4⟩
          · rw [g1, h1, ← hprelen, insertIdx_middle _ _ _ _ _ hk]
          · rw [g3, h3]
where
  leafSlot_le {d : Nat} {n : Node α} (hb : Bal d n) (path : List Nat) (i cap : Nat) (items : List α)
      (hm : nodeAt? n path = some (leaf cap items)) (hi : i ≤ items.length) : idxOf n path i ≤ size n := by
    by_cases h : i < items.length
    · exact Nat.le_of_lt (idxOf_lt_size hb path i ⟨leaf cap items, hm, by simpa [Node.count] using h⟩)
    · have : i = (leaf cap items).count := by simp [Node.count]; omega
      have hc := climb_spec hb path hm
      rw [this]
      cases hcl : climb n path with
      | some q => rw [← (hc.1 q hcl).2]; exact Nat.le_of_lt (idxOf_lt_size hb _ _ (hc.1 q hcl).1)
      | none => exact Nat.le_of_eq (hc.2 hcl)

theorem addAt_caps (cfg : Cfg) (ia : Nat) (x : α) (hmax : 0 < cfg.maxCap) {d : Nat} {n : Node α} (hb : Bal d n)
    (hcaps : Caps cfg.maxCap n) (path : List Nat) (i cap : Nat) (items : List α)
    (hm : nodeAt? n path = some (leaf cap items)) (hi : i ≤ items.length) :
    (addAt cfg ia x n path i).Caps cfg.maxCap := by
  induction path generalizing n d with
  | nil =>
    simp at hm; subst hm
    simpa [addAt] using addLeaf_caps cfg ia cap items i x hi hmax hcaps
  | cons c p ih =>
    cases n with
    | leaf cap' is => simp at hm
    | inner is cs =>
      obtain ⟨d', rfl, hall⟩ := hb.inner_depth
      have hlen := hb.inner_len
      simp only [nodeAt?_inner_cons] at hm
      cases hc : cs[c]? with
      | none => simp [hc] at hm
      | some ch =>
        simp only [hc] at hm
        have hcl := lt_of_getElem? hc
        have hcapsAll : ∀ y ∈ cs, Caps cfg.maxCap y := by cases hcaps; assumption
        have hcapsI : is.length ≤ cfg.maxCap := by cases hcaps; assumption
        have h := ih (hall ch (List.mem_of_getElem? hc)) (hcapsAll ch (List.mem_of_getElem? hc)) hm
        simp only [addAt, hc]
        cases hres : addAt cfg ia x ch p i with
        | ok ch' q =>
          rw [hres] at h
          simp only [liftRes, AddRes.Caps] at h ⊢
          exact Caps.inner _ _ hcapsI (fun y hy => by
            rcases List.mem_or_eq_of_mem_set hy with h' | rfl
            · exact hcapsAll y h'
            · exact h)
        | split l sep r right q =>
          rw [hres] at h
          simp only [liftRes]
          exact addInner_caps cfg is cs c l r sep right q hcaps hcl hlen hmax h.1 h.2

/-! ### the root -/

/-- `pvAdd(iter, x)` on a non-null root, for an element position or `GetEnd()`: the in-order list gets `x` at the
    iterator's index, the tree stays balanced (one level higher when the root splits), the returned iterator names
    the new element at that index -/
theorem addRoot_spec (cfg : Cfg) (x : α) (hmax : 0 < cfg.maxCap) {d : Nat} {r m : Node α} (hb : Bal d r)
    (pos : Pos) (hm : nodeAt? r pos.path = some m) (hi : pos.idx ≤ m.count) :
    toList (addRoot cfg x r pos).1 = (toList r).insertIdx (idxOf r pos.path pos.idx) x ∧
    (Bal d (addRoot cfg x r pos).1 ∨ Bal (d+1) (addRoot cfg x r pos).1) ∧
    idxOf (addRoot cfg x r pos).1 (addRoot cfg x r pos).2.path (addRoot cfg x r pos).2.idx = idxOf r pos.path pos.idx ∧
    ValidElem (addRoot cfg x r pos).1 (addRoot cfg x r pos).2.path (addRoot cfg x r pos).2.idx := by
  obtain ⟨hn1, cap, items, hn2, hn3⟩ := normLeaf_spec hb pos.path pos.idx hm hi
  have hpp : (⟨pos.path, pos.idx⟩ : Pos) = pos := rfl
  rw [hpp] at hn1 hn2 hn3
  obtain ⟨h1, h2, h3, h4⟩ := addAt_spec cfg (innerCount r) x hmax hb (normLeaf r pos).path (normLeaf r pos).idx cap items hn2 hn3
  unfold addRoot
  cases hres : addAt cfg (innerCount r) x r (normLeaf r pos).path (normLeaf r pos).idx with
  | ok n q =>
    rw [hres] at h1 h2 h3 h4
    simp only [AddRes.toList, AddRes.Bal, AddRes.posIdx, AddRes.PosValid] at h1 h2 h3 h4
    exact ⟨by rw [h1, hn1], Or.inl h2, by rw [h3, hn1], h4⟩
  | split l sep rr right q =>
    rw [hres] at h1 h2 h3 h4
    simp only [AddRes.toList, AddRes.Bal, AddRes.posIdx, AddRes.PosValid] at h1 h2 h3 h4
    simp only
    refine ⟨by simp [← h1, ← hn1], Or.inr (Bal.inner d [sep] [l, rr] (by simp) (by simp [h2.1, h2.2])), ?_, ?_⟩
    · rw [← hn1, ← h3]
      cases right with
      | false => simp
      | true => simp
    · cases right with
      | false =>
        obtain ⟨m', hm1, hm2⟩ := (by simpa using h4 : ValidElem l q.path q.idx)
        exact ⟨m', by simp [hm1], hm2⟩
      | true =>
        obtain ⟨m', hm1, hm2⟩ := (by simpa using h4 : ValidElem rr q.path q.idx)
        exact ⟨m', by simp [hm1], hm2⟩

theorem addRoot_caps (cfg : Cfg) (x : α) (hmax : 0 < cfg.maxCap) {d : Nat} {r m : Node α} (hb : Bal d r)
    (hcaps : Caps cfg.maxCap r) (pos : Pos) (hm : nodeAt? r pos.path = some m) (hi : pos.idx ≤ m.count) :
    Caps cfg.maxCap (addRoot cfg x r pos).1 := by
  obtain ⟨_, cap, items, hn2, hn3⟩ := normLeaf_spec hb pos.path pos.idx hm hi
  have hpp : (⟨pos.path, pos.idx⟩ : Pos) = pos := rfl
  rw [hpp] at hn2 hn3
  have h := addAt_caps cfg (innerCount r) x hmax hb hcaps (normLeaf r pos).path (normLeaf r pos).idx cap items hn2 hn3
  unfold addRoot
  cases hres : addAt cfg (innerCount r) x r (normLeaf r pos).path (normLeaf r pos).idx with
  | ok n q => rw [hres] at h; exact h
  | split l sep rr right q =>
    rw [hres] at h
    exact Caps.inner _ _ (by simp; omega) (by
      intro y hy
      simp at hy
      rcases hy with rfl | rfl
      · exact h.1
      · exact h.2)

end Momo.BTree
