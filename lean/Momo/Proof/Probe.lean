import Momo.Model.Probe
/-! Lemmas about the max-probe encoders (core Lean only). -/
namespace Momo.Probe

theorem shrinkLoop_spec (lim : Nat) (fuel m e : Nat) (hf : m < 2 ^ fuel * lim) :
    let r := shrinkLoop lim fuel m e
    r.1 < lim ∧ e ≤ r.2 ∧ r.1 = m / 2 ^ (r.2 - e) ∧ (lim ≤ m → e < r.2) := by
  induction fuel generalizing m e with
  | zero => simp [shrinkLoop] at *; omega
  | succ f ih =>
    simp only [shrinkLoop]
    split
    · have h2 : m / 2 < 2 ^ f * lim := by
        have : 2 ^ (f+1) * lim = 2 * (2 ^ f * lim) := by rw [Nat.pow_succ]; ac_rfl
        omega
      obtain ⟨a, b, c, _⟩ := ih (m / 2) (e + 1) h2
      refine ⟨a, by omega, ?_, fun _ => by omega⟩
      rw [c]
      have : (shrinkLoop lim f (m / 2) (e + 1)).2 - e = ((shrinkLoop lim f (m / 2) (e + 1)).2 - (e+1)) + 1 := by omega
      rw [this, Nat.pow_succ, Nat.div_div_eq_div_mul, Nat.mul_comm]
    · simp; omega

/-- the rounded pair `(m, e)` produced from `p - 1` covers `p` -/
theorem shrink_cover (lim p : Nat) (_hl : 0 < lim) (hp : 0 < p) (hf : p - 1 < 2 ^ 64 * lim) :
    let r := shrinkLoop lim 64 (p - 1) 0
    r.1 < lim ∧ p ≤ (r.1 + 1) * 2 ^ r.2 ∧ (lim ≤ p - 1 → 0 < r.2) ∧ (p - 1 < lim → r.2 = 0 ∧ r.1 = p - 1) := by
  obtain ⟨a, _, c, d⟩ := shrinkLoop_spec lim 64 (p - 1) 0 hf
  simp only [Nat.sub_zero] at c
  intro r
  refine ⟨a, ?_, d, ?_⟩
  · have h1 := Nat.lt_mul_div_succ (p - 1) (Nat.two_pow_pos r.2)
    have hc : r.1 = (p - 1) / 2 ^ r.2 := c
    rw [hc]
    have h3 : 2 ^ r.2 * ((p - 1) / 2 ^ r.2 + 1) = ((p - 1) / 2 ^ r.2 + 1) * 2 ^ r.2 := Nat.mul_comm _ _
    omega
  · intro hlt
    have : r = (p - 1, 0) := by
      show shrinkLoop lim 64 (p - 1) 0 = _
      simp [shrinkLoop]; omega
    simp [this]

/-- invariant that makes the fast path of Open2N2 sound: a non-zero exponent means the bound is
    already ≥ 256, so `probe ≤ 255` can only be taken when the exponent is 0 -/
def MP2.Ok (s : MP2) : Prop := s.m ≤ 255 ∧ (s.e = 0 ∨ 256 ≤ s.dec)

theorem MP2.init_ok : MP2.init.Ok := by simp [MP2.Ok, MP2.init]

theorem MP2.upd_ok (s : MP2) (p : Nat) (hs : s.Ok) (hp : p < 2 ^ 64) :
    (s.upd p).Ok ∧ p ≤ (s.upd p).dec ∧ s.dec ≤ (s.upd p).dec := by
  unfold MP2.upd
  simp only [Extracted.open2n2FastLimit, Extracted.open2n2MantLimit]
  split
  · rename_i h
    refine ⟨hs, ?_, Nat.le_refl _⟩
    rcases h with h | h <;> omega
  · rename_i h
    have hp0 : 0 < p := by omega
    have hgt : s.dec < p := by omega
    split
    · rename_i h255
      have he : s.e = 0 := by
        rcases hs.2 with h0 | h256
        · exact h0
        · omega
      refine ⟨⟨h255, Or.inl he⟩, ?_, ?_⟩
      · simp [MP2.dec, he]
      · simp only [MP2.dec, he] at hgt ⊢; simp at hgt ⊢; omega
    · rename_i h255
      have hfuel : p - 1 < 2 ^ 64 * 255 := by omega
      obtain ⟨a, hdec, d, _⟩ := shrink_cover 255 p (by decide) hp0 hfuel
      have he : 0 < (shrinkLoop 255 64 (p - 1) 0).2 := d (by omega)
      generalize shrinkLoop 255 64 (p - 1) 0 = r at *
      refine ⟨⟨by simp; omega, Or.inr ?_⟩, ?_, ?_⟩
      · simp only [MP2.dec]; omega
      · simpa [MP2.dec] using hdec
      · simp only [MP2.dec] at hgt ⊢; omega

/-- when the loop has shifted at least once, the value before the last shift was still ≥ lim -/
theorem shrinkLoop_last (lim : Nat) (fuel m e : Nat) :
    let r := shrinkLoop lim fuel m e
    e ≤ r.2 ∧ (e < r.2 → lim ≤ m / 2 ^ (r.2 - e - 1)) := by
  induction fuel generalizing m e with
  | zero => simp [shrinkLoop]
  | succ f ih =>
    simp only [shrinkLoop]
    split
    · rename_i hm
      obtain ⟨a, b⟩ := ih (m / 2) (e + 1)
      refine ⟨by omega, fun _ => ?_⟩
      by_cases h1 : (shrinkLoop lim f (m / 2) (e + 1)).2 = e + 1
      · rw [h1]; simpa using hm
      · have hb := b (by omega)
        rw [Nat.div_div_eq_div_mul, ← Nat.pow_succ'] at hb
        have : (shrinkLoop lim f (m / 2) (e + 1)).2 - (e + 1) - 1 + 1 = (shrinkLoop lim f (m / 2) (e + 1)).2 - e - 1 := by omega
        rw [Nat.succ_eq_add_one, this] at hb; exact hb
    · simp

/-- the byte state of Open2N2 really fits its fields: mantissa in a byte, exponent in 6 bits
    (`mState[1]` keeps the item count in its two low bits) -/
theorem MP2.upd_fits (s : MP2) (p : Nat) (hs : s.m ≤ 255 ∧ s.e ≤ 57) (hp : p < 2 ^ 64) :
    (s.upd p).m ≤ 255 ∧ (s.upd p).e ≤ 57 := by
  unfold MP2.upd
  simp only [Extracted.open2n2FastLimit, Extracted.open2n2MantLimit]
  split
  · exact hs
  · split
    · exact ⟨by assumption, hs.2⟩
    · rename_i h0 h255
      obtain ⟨a, _, _, _⟩ := shrinkLoop_spec 255 64 (p - 1) 0 (by omega)
      obtain ⟨_, hl⟩ := shrinkLoop_last 255 64 (p - 1) 0
      generalize shrinkLoop 255 64 (p - 1) 0 = r at *
      refine ⟨by simp; omega, ?_⟩
      simp only
      apply Decidable.byContradiction
      intro hcon
      have h58 : 58 ≤ r.2 := by omega
      have h := hl (by omega)
      simp only [Nat.sub_zero] at h
      have hpow : (2:Nat) ^ 57 ≤ 2 ^ (r.2 - 1) := Nat.pow_le_pow_right (by decide) (by omega)
      have hlt : (p - 1) / 2 ^ (r.2 - 1) < 255 := by
        apply Nat.div_lt_of_lt_mul
        have : (2:Nat) ^ 64 ≤ 2 ^ 57 * 255 := by decide
        have h2 : 2 ^ 57 * 255 ≤ 2 ^ (r.2 - 1) * 255 := Nat.mul_le_mul_right _ hpow
        omega
      omega

/-! ### OpenN1 / Open8 -/

theorem or_shift3 (a e : Nat) (ha : a < 8) : a ||| (e <<< 3) = a + 8 * e := by
  rw [Nat.or_comm, ← Nat.shiftLeft_add_eq_or_of_lt (by simpa using ha), Nat.shiftLeft_eq]
  omega

theorem dec3_eq (b : Nat) : dec3 b = (b % 8) * 2 ^ (b / 8) := by
  unfold dec3
  have h : b &&& Extracted.openN1MantMask = b % 8 := Nat.and_two_pow_sub_one_eq_mod b 3
  rw [h, Nat.shiftLeft_eq, Nat.shiftRight_eq_div_pow]

theorem enc3_spec (p : Nat) (hp : 0 < p) (hp64 : p < 2 ^ 64) :
    enc3 p = infProbeExp ∨ (enc3 p < 256 ∧ p ≤ dec3 (enc3 p)) := by
  unfold enc3
  simp only [Extracted.openN1MantLimit, Extracted.openN1ExpLimit]
  obtain ⟨a, hdec, _, _⟩ := shrink_cover 7 p (by decide) hp (by omega)
  generalize shrinkLoop 7 64 (p - 1) 0 = r at *
  split
  · rename_i h31
    right
    rw [or_shift3 _ _ (by omega)]
    refine ⟨by omega, ?_⟩
    rw [dec3_eq]
    have h1 : (r.1 + 1 + 8 * r.2) % 8 = r.1 + 1 := by omega
    have h2 : (r.1 + 1 + 8 * r.2) / 8 = r.2 := by omega
    rw [h1, h2]; exact hdec
  · left; rfl

/-- one update: the bound covers `p` (as long as `p` is a legal probe, `p < 2^L`),
    never shrinks, and the state stays a byte -/
theorem upd3_ok (L b p : Nat) (hb : b < 256) (hp : p < 2 ^ L) (hL : L ≤ 64) :
    upd3 b p < 256 ∧ p ≤ getMax3 L (upd3 b p) ∧
    (getMax3 L b ≤ 2 ^ L - 1 → getMax3 L b ≤ getMax3 L (upd3 b p)) := by
  have hp64 : p < 2 ^ 64 := Nat.lt_of_lt_of_le hp (Nat.pow_le_pow_right (by decide) hL)
  unfold upd3
  split
  · rename_i h0; subst h0
    exact ⟨hb, Nat.zero_le _, fun _ => Nat.le_refl _⟩
  · split
    · rename_i h0 h
      refine ⟨hb, ?_, fun _ => Nat.le_refl _⟩
      unfold getMax3
      split
      · omega
      · rcases h with h | h
        · contradiction
        · exact h
    · rename_i h0 h
      have hp0 : 0 < p := by omega
      have hnb : b ≠ infProbeExp := fun hh => h (Or.inl hh)
      have hlt : dec3 b < p := by omega
      rcases enc3_spec p hp0 hp64 with hinf | ⟨h256, hge⟩
      · rw [hinf]
        refine ⟨by decide, ?_, ?_⟩
        · simp [getMax3]; omega
        · intro hle; simpa [getMax3] using hle
      · refine ⟨h256, ?_, ?_⟩
        · unfold getMax3; split <;> omega
        · intro _
          simp only [getMax3, hnb, if_false]
          split <;> omega

/-! ### masks are remainders -/

theorem and_mask (x L : Nat) : x &&& (2 ^ L - 1) = x % 2 ^ L := Nat.and_two_pow_sub_one_eq_mod x L

theorem start_lt (L h : Nat) : start L h < 2 ^ L := by
  unfold start; rw [and_mask]; exact Nat.mod_lt _ (Nat.two_pow_pos L)

theorem seqLin_closed (L home p : Nat) (hh : home < 2 ^ L) : seqLin L home p = (home + p) % 2 ^ L := by
  induction p with
  | zero => simp [seqLin, Nat.mod_eq_of_lt hh]
  | succ q ih =>
    simp only [seqLin, nextLin, and_mask, ih]
    rw [Nat.mod_add_mod]; rfl

/-- linear probing visits every bucket within the first `2^L` probes -/
theorem seqLin_surj (L home b : Nat) (hh : home < 2 ^ L) (hb : b < 2 ^ L) :
    ∃ p, p < 2 ^ L ∧ seqLin L home p = b := by
  refine ⟨(b + 2 ^ L - home) % 2 ^ L, Nat.mod_lt _ (Nat.two_pow_pos L), ?_⟩
  rw [seqLin_closed L home _ hh, Nat.add_mod_mod]
  have : home + (b + 2 ^ L - home) = b + 2 ^ L := by omega
  rw [this, Nat.add_mod_right, Nat.mod_eq_of_lt hb]

end Momo.Probe
