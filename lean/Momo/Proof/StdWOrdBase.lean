import Momo.Proof.StdWrapFlags
import Momo.Model.StdWrapOps
/-!
  Lemmas for the C06 history theorem, ordered containers, part 1: the declarative notions of the specification
  (`lowerPos`, `upperPos`, `findPos`, `hasKey`, `countKey` — first element such that …, number of elements such that …)
  coincide on sorted sequences with the search results of the native tree (`lb`, `ub`) the wrapper model uses; order
  is preserved by every way the sequences are changed.
-/
namespace Momo.StdW
open Momo.StdWrap List
open Momo.StdSpec hiding Item

theorem lowerPos_eq (k : Nat) (xs : List Item) : lowerPos k xs = lb k xs := by
  induction xs with
  | nil => simp [lowerPos, lb]
  | cons e t ih =>
    unfold lowerPos at ih ⊢
    simp only [findIdx_cons, lb]
    by_cases h : e.1 < k
    · simp [h, ih]
    · simp [h]

theorem upperPos_eq (k : Nat) (xs : List Item) : upperPos k xs = ub k xs := by
  induction xs with
  | nil => simp [upperPos, ub]
  | cons e t ih =>
    unfold upperPos at ih ⊢
    simp only [findIdx_cons, ub]
    by_cases h : k < e.1
    · simp [h]
    · simp [h, ih]

theorem putAt_eq (xs : List Item) (p : Nat) (x : Item) : putAt xs p x = insertAt xs p x := rfl

theorem hasKey_iff (k : Nat) (xs : List Item) : hasKey k xs = true ↔ ∃ e ∈ xs, e.1 = k := by
  simp [hasKey]

theorem hasKey_eq (xs : List Item) (hs : Sorted xs) (k : Nat) : hasKey k xs = decide (lb k xs < ub k xs) := by
  rw [Bool.eq_iff_iff, hasKey_iff, decide_eq_true_iff, present_iff xs hs k]

theorem lb_lt_length_of_present (k : Nat) (xs : List Item) (h : lb k xs < ub k xs) : lb k xs < xs.length := by
  have := ub_le_length k xs; omega

theorem findPos_present (xs : List Item) (hs : Sorted xs) (k : Nat) (h : lb k xs < ub k xs) :
    findPos k xs = lb k xs := by
  have hl := lb_lt_length_of_present k xs h
  unfold findPos
  rw [findIdx_eq hl]
  refine ⟨?_, ?_⟩
  · have := keyAt_lb_present xs hs k h
    simp only [keyAt, getElem?_eq_getElem hl, Option.getD_some] at this
    simp [this]
  · intro j hj
    have := lb_lt k xs j hj
    simp only [keyAt, getElem?_eq_getElem (show j < xs.length by omega), Option.getD_some] at this
    simp; omega

theorem findPos_absent (xs : List Item) (hs : Sorted xs) (k : Nat) (h : ¬ lb k xs < ub k xs) :
    findPos k xs = xs.length := by
  unfold findPos
  rw [findIdx_eq_length]
  intro e he
  have : ¬ ∃ e ∈ xs, e.1 = k := fun hh => h ((present_iff xs hs k).mpr hh)
  simp only [beq_eq_false_iff_ne, ne_eq]
  intro hk; exact this ⟨e, he, hk⟩

theorem findPos_eq (xs : List Item) (hs : Sorted xs) (k : Nat) :
    findPos k xs = if lb k xs < ub k xs then lb k xs else xs.length := by
  by_cases h : lb k xs < ub k xs
  · rw [if_pos h]; exact findPos_present xs hs k h
  · rw [if_neg h]; exact findPos_absent xs hs k h

theorem lb_zero_of_ge (k : Nat) (t : List Item) (h : ∀ e ∈ t, k ≤ e.1) : lb k t = 0 := by
  cases t with
  | nil => simp [lb]
  | cons e t => have := h e (by simp); simp [lb]; omega

theorem ub_zero_of_gt (k : Nat) (t : List Item) (h : ∀ e ∈ t, k < e.1) : ub k t = 0 := by
  cases t with
  | nil => simp [ub]
  | cons e t => have := h e (by simp); simp [ub]; omega

theorem countKey_eq (xs : List Item) (hs : Sorted xs) (k : Nat) : countKey k xs = ub k xs - lb k xs := by
  induction xs with
  | nil => simp [countKey, lb, ub]
  | cons e t ih =>
    have hs' : Sorted t := (pairwise_cons.mp hs).2
    have hhd : ∀ a ∈ t, e.1 ≤ a.1 := (pairwise_cons.mp hs).1
    have ih := ih hs'
    unfold countKey at ih ⊢
    simp only [countP_cons, lb, ub]
    by_cases h1 : e.1 < k
    · have h2 : ¬ k < e.1 := by omega
      have h3 : (e.1 == k) = false := by simp; omega
      simp [h1, h2, h3, ih]
    · by_cases h2 : k < e.1
      · have h3 : (e.1 == k) = false := by simp; omega
        have hu : ub k t = 0 := ub_zero_of_gt k t (fun a ha => by have := hhd a ha; omega)
        have hl := lb_le_ub k t
        simp [h1, h2, h3, ih]; omega
      · have h3 : (e.1 == k) = true := by simp; omega
        have hl : lb k t = 0 := lb_zero_of_ge k t (fun a ha => by have := hhd a ha; omega)
        simp [h1, h2, h3, ih, hl]

/-! ### order is kept -/

/-- the order invariant of a container: strictly ascending keys, or non-descending for the `multi` containers -/
def SortedK (multi : Bool) (xs : List Item) : Prop := if multi then Sorted xs else StrictSorted xs

theorem SortedK.sorted {multi : Bool} {xs : List Item} (h : SortedK multi xs) : Sorted xs := by
  unfold SortedK at h
  cases multi with
  | true => simpa using h
  | false => exact strict_sorted xs (by simpa using h)

theorem SortedK.strict {xs : List Item} (h : SortedK false xs) : StrictSorted xs := by simpa [SortedK] using h

theorem sortedK_nil (multi : Bool) : SortedK multi [] := by
  unfold SortedK; split <;> simp [Sorted, StrictSorted]

theorem sortedK_sublist {multi : Bool} {xs ys : List Item} (h : SortedK multi xs) (hsub : ys.Sublist xs) : SortedK multi ys := by
  unfold SortedK at h ⊢
  split
  · rename_i hm; rw [if_pos hm] at h; exact Pairwise.sublist hsub h
  · rename_i hm; rw [if_neg hm] at h; exact Pairwise.sublist hsub h

theorem take_drop_sublist (xs : List Item) (p q : Nat) (h : p ≤ q) : (xs.take p ++ xs.drop q).Sublist xs := by
  have h1 : xs = xs.take p ++ xs.drop p := (take_append_drop p xs).symm
  have h2 : (xs.drop q).Sublist (xs.drop p) := by
    have : xs.drop q = (xs.drop p).drop (q - p) := by rw [drop_drop]; congr 1; omega
    rw [this]; exact drop_sublist _ _
  calc (xs.take p ++ xs.drop q).Sublist (xs.take p ++ xs.drop p) := Sublist.append_left h2 _
    _ = xs := h1.symm

/-- replacing the mapped value of one element keeps the keys, hence the order -/
theorem sortedK_set {multi : Bool} {xs : List Item} (h : SortedK multi xs) (i : Nat) (y : Item)
    (hk : i < xs.length → y.1 = keyAt xs i) : SortedK multi (xs.set i y) := by
  have hmap : (xs.set i y).map (·.1) = xs.map (·.1) := by
    by_cases hi : i < xs.length
    · apply ext_getElem (by simp)
      intro j h1 h2
      simp only [getElem_map, getElem_set]
      split
      · rename_i hij; subst hij
        have := hk hi
        simp only [keyAt, getElem?_eq_getElem hi, Option.getD_some] at this
        exact this
      · rfl
    · rw [set_eq_of_length_le (by omega)]
  unfold SortedK Sorted StrictSorted at h ⊢
  have e1 : ∀ l : List Item, l.Pairwise (fun a b => a.1 ≤ b.1) ↔ (l.map (·.1)).Pairwise (· ≤ ·) := by
    intro l; rw [pairwise_map]
  have e2 : ∀ l : List Item, l.Pairwise (fun a b => a.1 < b.1) ↔ (l.map (·.1)).Pairwise (· < ·) := by
    intro l; rw [pairwise_map]
  split
  · rename_i hm; rw [if_pos hm] at h; rw [e1, hmap, ← e1]; exact h
  · rename_i hm; rw [if_neg hm] at h; rw [e2, hmap, ← e2]; exact h

end Momo.StdW
