import Momo.Proof.BTreeFaultOps
/-!
  C10 for the B-tree family: `Insert(begin, end)` under every fault schedule. Whatever step throws — a comparison of the
  shortcut test, of a search, an allocation of a Relocator, the copy of an element —, the container is exactly what the
  fault-free `Insert` of a *prefix* of the range produces (node structure included), and the ledger moved with it.
  Core Lean only.
-/
namespace Momo.BTreeF
open Momo Momo.BTree Momo.BTree.Node
variable {α : Type}

local macro "triv" : tactic => `(tactic| first | rfl | trivial | simp)

theorem Frame.of_led_eq {w0 w w' : W} {ft ft' : FTree α} (he : w0.led = w.led) (h : Frame w0 ft w' ft') : Frame w ft w' ft' := by
  unfold Frame at *; rw [← he]; exact h

section
variable (lt : α → α → Bool)

/-- one round of the loop of the fault-free `Insert(begin, end)` -/
def igStep (cfg : Cfg) (t : Tree α) (pos : Pos) (prevKey x : α) : Tree α × Pos :=
  if lt x prevKey || !Tree.isGreater lt t (t.next pos) x then ((Tree.insert lt cfg t x).1, (Tree.insert lt cfg t x).2.1)
  else if cfg.multi || lt prevKey x then ((t.add cfg (t.next pos) x).1, (t.add cfg (t.next pos) x).2)
  else (t, pos)

theorem go_cons (cfg : Cfg) (t : Tree α) (pos : Pos) (prevKey x : α) (xs : List α) (hk : t.elemAt? pos = some prevKey) :
    Tree.insertRange.go lt cfg (x :: xs) t pos =
      Tree.insertRange.go lt cfg xs (igStep lt cfg t pos prevKey x).1 (igStep lt cfg t pos prevKey x).2 := by
  simp only [Tree.insertRange.go, hk, igStep]
  split
  · rfl
  · split <;> rfl

theorem igStep_spec (ho : Order lt) (cfg : Cfg) (hmax : 0 < cfg.maxCap) (t : Tree α) (hw : t.WF cfg)
    (hs : SortedBy lt cfg.multi t.toList) (pos : Pos) (hv : t.ValidElem pos) (prevKey x : α)
    (hk1 : t.elemAt? pos = some prevKey) :
    (igStep lt cfg t pos prevKey x).1.WF cfg ∧ SortedBy lt cfg.multi (igStep lt cfg t pos prevKey x).1.toList ∧
    (igStep lt cfg t pos prevKey x).1.ValidElem (igStep lt cfg t pos prevKey x).2 := by
  obtain ⟨pk, hk1', hk2⟩ := tree_elemAt_spec cfg t hw pos hv
  rw [hk1] at hk1'; cases hk1'
  obtain ⟨n1, n2⟩ := tree_next_spec cfg t hw pos hv
  have hg := isGreater_spec lt t cfg hw (t.next pos) n2 x
  rw [n1] at hg
  unfold igStep
  by_cases hA : (lt x prevKey || !Tree.isGreater lt t (t.next pos) x) = true
  · rw [if_pos hA]
    obtain ⟨_, _, j3, j4, j5, _⟩ := tree_insert_insert1 lt ho cfg hmax t hw hs x
    exact ⟨j3, j4, j5⟩
  · rw [if_neg hA]
    simp only [Bool.or_eq_true, Bool.not_eq_true', not_or, Bool.not_eq_true, Bool.not_eq_false] at hA
    obtain ⟨hx1, hx2⟩ := hA
    by_cases hB : (cfg.multi || lt prevKey x) = true
    · rw [if_pos hB]
      have hnext : ∀ y, t.toList[t.idxOf pos + 1]? = some y → lt x y = true := by
        intro y hy; rw [hy] at hg; simp only at hg; rw [← hg]; exact hx2
      have hins := insert1_after_prev lt ho cfg.multi t.toList (t.idxOf pos) prevKey x hs hk2 hx1 hnext
        (by simpa [Bool.or_eq_true] using hB)
      obtain ⟨a1, a2, a3, a4⟩ := tree_add_spec cfg hmax t hw (t.next pos) n2 x
      rw [n1] at a1
      have hsorted : SortedBy lt cfg.multi (t.add cfg (t.next pos) x).1.toList := by
        rw [a1, ← hins]; exact insert1_sorted lt ho cfg.multi _ x hs
      exact ⟨a2, hsorted, a4⟩
    · rw [if_neg hB]
      exact ⟨hw, hs, hv⟩

/-- the loop of `Insert(begin, end)` under faults stops at a prefix of the fault-free loop -/
theorem insertRangeF_go_spec (S : Sched) (ic : ICfg α) (cfg : Cfg) (hmax : 0 < cfg.maxCap) (ho : Order lt) (xs : List α)
    (ft : FTree α) (hw : ft.WF cfg) (hs : SortedBy lt cfg.multi ft.tree.toList) (pos : Pos) (hv : ft.tree.ValidElem pos)
    (w : W) {t : Bool} {ft' : FTree α} {w' : W} (h : insertRangeF.go S ic cfg lt xs ft pos w = (t, ft', w')) :
    ∃ j, j ≤ xs.length ∧ ft'.tree = Tree.insertRange.go lt cfg (xs.take j) ft.tree pos ∧ (t = false → j = xs.length) ∧
      ft'.WF cfg ∧ Frame w ft w' ft' := by
  induction xs generalizing ft pos w with
  | nil =>
    simp only [insertRangeF.go, Prod.mk.injEq] at h
    obtain ⟨rfl, rfl, rfl⟩ := h
    exact ⟨0, Nat.le_refl _, rfl, fun _ => rfl, hw, Frame.refl _ _⟩
  | cons x xs ih =>
    obtain ⟨prevKey, hk1, hk2⟩ := tree_elemAt_spec cfg ft.tree hw.tree pos hv
    obtain ⟨s1, s2, s3⟩ := igStep_spec lt ho cfg hmax ft.tree hw.tree hs pos hv prevKey x hk1
    obtain ⟨n1, n2⟩ := tree_next_spec cfg ft.tree hw.tree pos hv
    -- stopping before `x` is done: the empty prefix
    have stop : ∀ (ft1 : FTree α) (w1 : W), ft1.tree = ft.tree → ft1.WF cfg → Frame w ft w1 ft1 →
        ∃ j, j ≤ (x :: xs).length ∧ ft1.tree = Tree.insertRange.go lt cfg ((x :: xs).take j) ft.tree pos ∧
          (true = false → j = (x :: xs).length) ∧ ft1.WF cfg ∧ Frame w ft w1 ft1 :=
      fun ft1 w1 e1 e2 e3 => ⟨0, Nat.zero_le _, (by simpa [Tree.insertRange.go] using e1), fun hh => (by cases hh), e2, e3⟩
    -- going on after `x` is done
    have goOn : ∀ (ft1 : FTree α) (p1 : Pos) (w1 : W), ft1.tree = (igStep lt cfg ft.tree pos prevKey x).1 →
        p1 = (igStep lt cfg ft.tree pos prevKey x).2 → ft1.WF cfg → Frame w ft w1 ft1 →
        insertRangeF.go S ic cfg lt xs ft1 p1 w1 = (t, ft', w') →
        ∃ j, j ≤ (x :: xs).length ∧ ft'.tree = Tree.insertRange.go lt cfg ((x :: xs).take j) ft.tree pos ∧
          (t = false → j = (x :: xs).length) ∧ ft'.WF cfg ∧ Frame w ft w' ft' := by
      intro ft1 p1 w1 e1 e2 e3 e4 hgo
      obtain ⟨j, j1, j2, j3, j4, j5⟩ := ih ft1 e3 (by rw [e1]; exact s2) p1 (by rw [e1, e2]; exact s3) w1 hgo
      refine ⟨j + 1, by simp; omega, ?_, fun hh => (by simp [j3 hh]), j4, e4.trans j5⟩
      rw [List.take_succ_cons, go_cons lt cfg ft.tree pos prevKey x _ hk1, j2, e1, e2]
    simp only [insertRangeF.go, hk1] at h
    by_cases hf1 : S.cmp w.cmpN = true
    · simp only [hf1, if_true, Prod.mk.injEq] at h
      obtain ⟨rfl, rfl, rfl⟩ := h
      exact stop ft w.tickCmp rfl hw rfl
    · simp only [hf1, Bool.false_eq_true, if_false] at h
      -- the branch that calls `InsertVar`
      have viaInsert : ∀ (w0 : W), w0.led = w.led →
          (lt x prevKey || !Tree.isGreater lt ft.tree (ft.tree.next pos) x) = true →
          (match insertF S ic cfg lt ft x (copyCreator S) () w0 with
            | (true, _, ft1, _, _, w1) => (true, ft1, w1)
            | (false, _, ft1, p, _, w1) => insertRangeF.go S ic cfg lt xs ft1 p w1) = (t, ft', w') →
          ∃ j, j ≤ (x :: xs).length ∧ ft'.tree = Tree.insertRange.go lt cfg ((x :: xs).take j) ft.tree pos ∧
            (t = false → j = (x :: xs).length) ∧ ft'.WF cfg ∧ Frame w ft w' ft' := by
        intro w0 hw0 hA h2
        cases hi : insertF S ic cfg lt ft x (copyCreator S) () w0 with
        | mk t1 rest =>
          obtain ⟨u, ft1, p1, ins1, w1⟩ := rest
          obtain ⟨a1, a2, a3⟩ := insertF_spec S ic cfg hmax lt ho ft hw hs x (copyCreator S) () _ (copyCreator_spec S) w0 hi
          have hfr := Frame.of_led_eq hw0 (insertF_frame S ic cfg hmax lt ho ft hw hs x w0 hi)
          rw [hi] at h2
          cases t1 with
          | true =>
            simp only [Prod.mk.injEq] at h2
            obtain ⟨rfl, rfl, rfl⟩ := h2
            exact stop ft1 w1 (a1 rfl).1 a3 hfr
          | false =>
            simp only at h2
            obtain ⟨b1, b2, _⟩ := a2 rfl
            exact goOn ft1 p1 w1 (by rw [b1]; simp [igStep, hA]) (by rw [b2]; simp [igStep, hA]) a3 hfr h2
      -- the branch that calls `pvAdd` right behind the previous element
      have viaAdd : ∀ (w0 : W), w0.led = w.led →
          (lt x prevKey || !Tree.isGreater lt ft.tree (ft.tree.next pos) x) = false →
          (cfg.multi || lt prevKey x) = true →
          (match addF S ic cfg ft (ft.tree.next pos) x (copyCreator S) () w0 with
            | (true, _, ft1, _, w1) => (true, ft1, w1)
            | (false, _, ft1, p, w1) => insertRangeF.go S ic cfg lt xs ft1 p w1) = (t, ft', w') →
          ∃ j, j ≤ (x :: xs).length ∧ ft'.tree = Tree.insertRange.go lt cfg ((x :: xs).take j) ft.tree pos ∧
            (t = false → j = (x :: xs).length) ∧ ft'.WF cfg ∧ Frame w ft w' ft' := by
        intro w0 hw0 hA hB h2
        cases hi : addF S ic cfg ft (ft.tree.next pos) x (copyCreator S) () w0 with
        | mk t1 rest =>
          obtain ⟨u, ft1, p1, w1⟩ := rest
          obtain ⟨a1, a2, a3⟩ := addF_spec S ic cfg hmax ft hw _ n2 x (copyCreator S) () _ (copyCreator_spec S) w0 hi
          have hfr := Frame.of_led_eq hw0 (addF_frame S ic cfg hmax ft hw _ n2 x w0 hi)
          rw [hi] at h2
          cases t1 with
          | true =>
            simp only [Prod.mk.injEq] at h2
            obtain ⟨rfl, rfl, rfl⟩ := h2
            exact stop ft1 w1 (a1 rfl).1 a3 hfr
          | false =>
            simp only at h2
            obtain ⟨b1, b2, _⟩ := a2 rfl
            exact goOn ft1 p1 w1 (by rw [b1]; simp [igStep, hA, hB]) (by rw [b2]; simp [igStep, hA, hB]) a3 hfr h2
      by_cases hlt1 : lt x prevKey = true
      · simp only [hlt1, if_true] at h
        exact viaInsert w.tickCmp rfl (by simp [hlt1]) h
      · simp only [hlt1, Bool.false_eq_true, if_false] at h
        have hlt1' : lt x prevKey = false := by simpa using hlt1
        obtain ⟨g1, g2, _⟩ := isGreaterF_spec S lt ft.tree (ft.tree.next pos) x w.tickCmp
        cases hig : isGreaterF S lt ft.tree (ft.tree.next pos) x w.tickCmp with
        | mk o w1 =>
          rw [hig] at h g1 g2
          simp only at g1 g2
          have hw1 : w1.led = w.led := by rw [g1]; rfl
          cases o with
          | none =>
            simp only [Prod.mk.injEq] at h
            obtain ⟨rfl, rfl, rfl⟩ := h
            exact stop ft w1 rfl hw (by unfold Frame; rw [hw1])
          | some b =>
            have hb := g2 b rfl
            cases b with
            | false =>
              simp only at h
              exact viaInsert w1 hw1 (by simp [hlt1', ← hb]) h
            | true =>
              simp only at h
              have hA : (lt x prevKey || !Tree.isGreater lt ft.tree (ft.tree.next pos) x) = false := by
                simp [hlt1', ← hb]
              by_cases hm : cfg.multi = true
              · simp only [hm, if_true] at h
                exact viaAdd w1 hw1 hA (by simp [hm]) h
              · simp only [hm, Bool.false_eq_true, if_false] at h
                have hm' : cfg.multi = false := by simpa using hm
                by_cases hf2 : S.cmp w1.cmpN = true
                · simp only [hf2, if_true, Prod.mk.injEq] at h
                  obtain ⟨rfl, rfl, rfl⟩ := h
                  exact stop ft w1.tickCmp rfl hw (by unfold Frame; rw [tickCmp_led, hw1])
                · simp only [hf2, Bool.false_eq_true, if_false] at h
                  by_cases hlt2 : lt prevKey x = true
                  · simp only [hlt2, if_true] at h
                    exact viaAdd w1.tickCmp (by rw [tickCmp_led, hw1]) hA (by simp [hlt2]) h
                  · simp only [hlt2, Bool.false_eq_true, if_false] at h
                    have hlt2' : lt prevKey x = false := by simpa using hlt2
                    exact goOn ft pos w1.tickCmp (by simp [igStep, hA, hm', hlt2']) (by simp [igStep, hA, hm', hlt2']) hw
                      (by unfold Frame; rw [tickCmp_led, hw1]) h

/-- **`Insert(begin, end)` under every fault schedule** (basic guarantee, in its strongest form): the container is what the
    fault-free `Insert` of a prefix `xs.take j` of the range gives — all of the range when nothing was thrown —, it is
    well-formed, and the ledger moved exactly with what it owns -/
theorem insertRangeF_spec (S : Sched) (ic : ICfg α) (cfg : Cfg) (hmax : 0 < cfg.maxCap) (ho : Order lt) (ft : FTree α)
    (hw : ft.WF cfg) (hs : SortedBy lt cfg.multi ft.tree.toList) (xs : List α) (w : W) {t : Bool} {ft' : FTree α} {w' : W}
    (h : insertRangeF S ic cfg lt ft xs w = (t, ft', w')) :
    ∃ j, j ≤ xs.length ∧ ft'.tree = Tree.insertRange lt cfg ft.tree (xs.take j) ∧ (t = false → j = xs.length) ∧
      ft'.WF cfg ∧ Frame w ft w' ft' := by
  cases xs with
  | nil =>
    simp only [insertRangeF, Prod.mk.injEq] at h
    obtain ⟨rfl, rfl, rfl⟩ := h
    exact ⟨0, Nat.le_refl _, rfl, fun _ => rfl, hw, Frame.refl _ _⟩
  | cons x xs =>
    simp only [insertRangeF] at h
    cases hi : insertF S ic cfg lt ft x (copyCreator S) () w with
    | mk t1 rest =>
      obtain ⟨u, ft1, p1, ins1, w1⟩ := rest
      obtain ⟨a1, a2, a3⟩ := insertF_spec S ic cfg hmax lt ho ft hw hs x (copyCreator S) () _ (copyCreator_spec S) w hi
      have hfr := insertF_frame S ic cfg hmax lt ho ft hw hs x w hi
      rw [hi] at h
      cases t1 with
      | true =>
        simp only [Prod.mk.injEq] at h
        obtain ⟨rfl, rfl, rfl⟩ := h
        exact ⟨0, Nat.zero_le _, (by simpa [Tree.insertRange] using (a1 rfl).1), fun hh => (by cases hh), a3, hfr⟩
      | false =>
        simp only at h
        obtain ⟨b1, b2, _⟩ := a2 rfl
        obtain ⟨_, _, j3, j4, j5, _⟩ := tree_insert_insert1 lt ho cfg hmax ft.tree hw.tree hs x
        obtain ⟨j, k1, k2, k3, k4, k5⟩ := insertRangeF_go_spec lt S ic cfg hmax ho xs ft1 a3 (by rw [b1]; exact j4) p1
          (by rw [b1, b2]; exact j5) w1 h
        refine ⟨j + 1, by simp; omega, ?_, fun hh => (by simp [k3 hh]), k4, hfr.trans k5⟩
        rw [List.take_succ_cons, k2, b1, b2]
        simp [Tree.insertRange]

end

end Momo.BTreeF
