import Momo.Proof.BTreeFaultMerge
/-!
  C10 / C04 for the B-tree family: `pvMergeFast` with its roll-back, the dispatch of `MergeTo(TreeSet&)`, and the copy
  constructor with its roll-back, under every fault schedule. Core Lean only.
-/
namespace Momo.BTreeF
open Momo Momo.BTree Momo.BTree.Node
variable {α : Type}

local macro "triv" : tactic => `(tactic| first | rfl | trivial | simp)

/-! ### `pvMergeFast` -/

theorem createInners_spec (S : Sched) (n : Nat) (w : W) :
    (createInners S n w).2.2.led = { w.led with inners := w.led.inners + (createInners S n w).1 } ∧
    ((createInners S n w).2.1 = false → (createInners S n w).1 = n) := by
  induction n generalizing w with
  | zero => simp [createInners]
  | succ n ih =>
    simp only [createInners]
    by_cases hf : S.alloc w.allocN = true
    · simp only [hf, if_true]
      exact ⟨(by simp), fun hh => (by cases hh)⟩
    · simp only [hf, Bool.false_eq_true, if_false]
      obtain ⟨a, b⟩ := ih (w.tickAlloc.addInners 1)
      cases hc : createInners S n (w.tickAlloc.addInners 1) with
      | mk d rest =>
        obtain ⟨t, w'⟩ := rest
        rw [hc] at a b
        simp only at a b ⊢
        refine ⟨?_, fun hh => (by rw [b hh])⟩
        rw [a]; apply Ledger.ext' <;> simp <;> omega

/-- `pvMergeFast` under faults: thrown (a wrapper could not be created, or the separator's relocation threw): the wrappers
    made so far are destroyed, the ledger is the old one; returned: the fault-free root, the ledger moved by the node difference -/
theorem mergeFastF_spec (S : Sched) (ic : ICfg α) (cfg : Cfg) (r1 r2 : Node α) (w : W) {t : Bool} {root : Node α} {w' : W}
    (h : mergeFastF S ic cfg r1 r2 w = (t, root, w')) :
    (t = true → w'.led = w.led) ∧
    (t = false → root = mergeFast cfg r1 r2 ∧
      w'.led = { w.led with leaves := w.led.leaves + ((leafCount (mergeFast cfg r1 r2) : Int) - leafCount r1 - leafCount r2),
                            inners := w.led.inners + ((innerCount (mergeFast cfg r1 r2) : Int) - innerCount r1 - innerCount r2) }) := by
  unfold mergeFastF at h
  obtain ⟨a, b⟩ := createInners_spec S (mergeFastCreates cfg r1 r2) w
  cases hc : createInners S (mergeFastCreates cfg r1 r2) w with
  | mk d rest =>
    obtain ⟨t1, w1⟩ := rest
    rw [hc] at h a b
    simp only at a b
    cases t1 with
    | true =>
      simp only [Prod.mk.injEq] at h
      obtain ⟨rfl, rfl, rfl⟩ := h
      refine ⟨fun _ => ?_, fun hh => (by cases hh)⟩
      rw [addInners_led, a]; apply Ledger.ext' <;> simp <;> omega
    | false =>
      simp only at h
      by_cases hf : (!ic.reloc && S.ctor w1.ctorN) = true
      · simp only [hf, if_true, Prod.mk.injEq] at h
        obtain ⟨rfl, rfl, rfl⟩ := h
        refine ⟨fun _ => ?_, fun hh => (by cases hh)⟩
        rw [addInners_led, tickCtor_led, a]; apply Ledger.ext' <;> simp <;> omega
      · simp only [hf, Bool.false_eq_true, if_false, Prod.mk.injEq] at h
        obtain ⟨rfl, rfl, rfl⟩ := h
        refine ⟨fun hh => (by cases hh), fun _ => ⟨rfl, ?_⟩⟩
        have hl : (if ic.reloc = true then w1 else w1.tickCtor).led = w1.led := by split <;> rfl
        simp only [addInners_led, addLeaves_led, hl, a]
        apply Ledger.ext' <;> simp <;> omega

/-! ### `MergeTo(TreeSet&)` -/

section
variable (lt : α → α → Bool)

theorem toList_nil_of_count_zero (cfg : Cfg) (t : Tree α) (hw : t.WF cfg) (h : t.count = 0) : t.toList = [] := by
  have := hw.count; rw [h] at this; exact List.eq_nil_of_length_eq_zero this.symm

theorem sortedBy_nil (multi : Bool) : SortedBy lt multi ([] : List α) := by
  unfold SortedBy; split <;> simp

/-- the destination of a fast merge or of the swap into an empty destination, and the emptied source -/
theorem takeOver (cfg : Cfg) (w w' : W) (src dst : FTree α) (hi : MergeInv lt cfg src dst) (root : Node α) (l : List α)
    (hl : toList root = l) (hp : l.Perm (src.tree.toList ++ dst.tree.toList)) (hsub : dst.tree.toList.Sublist l)
    (hwf : Tree.WF cfg ({ root := some root, count := dst.tree.count + src.tree.count } : Tree α))
    (hs : SortedBy lt cfg.multi l) (hpd : dst.params = true)
    (hled : w'.led = { w.led with leaves := w.led.leaves + ((leafCount root : Int) - src.leaves - dst.leaves),
                                  inners := w.led.inners + ((innerCount root : Int) - src.inners - dst.inners) }) :
    MergeOut lt cfg w src dst w' { src with tree := { root := none, count := 0 } }
      { dst with tree := { root := some root, count := dst.tree.count + src.tree.count } } := by
  have hlen := hp.length_eq
  refine ⟨⟨⟨Tree.wf_empty cfg, fun hh => absurd rfl hh⟩, ⟨hwf, fun _ => hpd⟩, sortedBy_nil lt _, by
      show SortedBy lt cfg.multi (toList root); rw [hl]; exact hs⟩, ?_, ?_, ?_, ?_⟩
  · show (([] : List α) ++ toList root).Perm _
    rw [hl]; simpa using hp
  · show ([] : List α).Sublist _
    exact List.nil_sublist _
  · show dst.tree.toList.Sublist (toList root)
    rw [hl]; exact hsub
  · unfold Frame2
    rw [hled]
    have e1 : ({ src with tree := { root := none, count := 0 } } : FTree α).own =
        { leaves := 0, inners := 0, items := 0, aux := 0, params := if src.params then 1 else 0, crews := 0 } := by
      apply Ledger.ext' <;> simp [FTree.own, FTree.leaves, FTree.inners, Tree.toList]
    have e2 : ({ dst with tree := { root := some root, count := dst.tree.count + src.tree.count } } : FTree α).own =
        { leaves := leafCount root, inners := innerCount root, items := l.length, aux := 0,
          params := if dst.params then 1 else 0, crews := 0 } := by
      apply Ledger.ext' <;> simp [FTree.own, FTree.leaves, FTree.inners, Tree.toList, hl]
    rw [e1, e2]
    rw [List.length_append] at hlen
    apply Ledger.ext' <;> simp <;> omega

/-- **`MergeTo(TreeSet&)` under every fault schedule** -/
theorem mergeToF_spec (S : Sched) (ic : ICfg α) (hu : ic.unsafeRepl = false) (cfg : Cfg) (hmax : 0 < cfg.maxCap)
    (ho : Order lt) (src dst : FTree α) (hi : MergeInv lt cfg src dst) (w : W)
    {t : Bool} {src' dst' : FTree α} {w' : W} (h : mergeToF S ic cfg lt src dst w = (t, src', dst', w')) :
    MergeOut lt cfg w src dst w' src' dst' ∧
    (t = false → dst'.tree.toList =
      (if ic.statefulTraits then src.tree.toList.foldl (Spec.insert1 lt cfg.multi) dst.tree.toList
       else Spec.merge lt cfg.multi src.tree.toList dst.tree.toList)) := by
  unfold mergeToF at h
  by_cases hst : ic.statefulTraits = true
  · simp only [hst, if_true] at h ⊢
    exact mergeGenericF_spec lt S ic hu cfg hmax ho src dst hi w h
  · simp only [hst, Bool.false_eq_true, if_false] at h ⊢
    have hws := hi.ws.tree
    have hwd := hi.wd.tree
    by_cases hs0 : src.tree.count = 0
    · rw [if_pos hs0] at h
      simp only [Prod.mk.injEq] at h
      obtain ⟨rfl, rfl, rfl, rfl⟩ := h
      have : src.tree.toList = [] := toList_nil_of_count_zero cfg _ hws hs0
      exact ⟨MergeOut.refl lt cfg _ _ rfl _ _ hi, fun _ => (by simp [Spec.merge, this])⟩
    · rw [if_neg hs0] at h
      have hsne : src.tree.toList ≠ [] := by
        intro hh; apply hs0; rw [hws.count, hh]; rfl
      obtain ⟨a, ha⟩ : ∃ a, src.tree.toList.getLast? = some a := by
        cases hh : src.tree.toList.getLast? with
        | none => exact absurd (List.getLast?_eq_none_iff.mp hh) hsne
        | some a => exact ⟨a, rfl⟩
      obtain ⟨rs, hrs, hrsl⟩ := toList_ne_nil_root src.tree hsne
      obtain ⟨ds, hbs⟩ := hws.bal rs hrs
      by_cases hd0 : dst.tree.count = 0
      · rw [if_pos hd0] at h
        have hdl : dst.tree.toList = [] := toList_nil_of_count_zero cfg _ hwd hd0
        obtain ⟨q1, q2, q3, q4, _⟩ := ensureParams_spec S dst w
        cases he : ensureParams S dst w with
        | mk t0 rest0 =>
          obtain ⟨dst1, w1⟩ := rest0
          rw [he] at h q1 q2 q3 q4
          simp only at h q1 q2 q3 q4
          cases t0 with
          | true =>
            simp only [Prod.mk.injEq] at h
            obtain ⟨rfl, rfl, rfl, rfl⟩ := h
            have := q4 rfl; subst this
            refine ⟨MergeOut.refl lt cfg _ _ ?_ _ _ hi, fun hh => (by cases hh)⟩
            rw [q2]; apply Ledger.ext' <;> simp
          | false =>
            simp only [Prod.mk.injEq] at h
            obtain ⟨rfl, rfl, rfl, rfl⟩ := h
            have hp1 := q3 rfl
            refine ⟨?_, fun _ => (by simp [Spec.merge, hdl, ha])⟩
            have hl1 : dst1.leaves = dst.leaves := by simp [FTree.leaves, q1]
            have hi1 : dst1.inners = dst.inners := by simp [FTree.inners, q1]
            have hw1 : w1.led = { w.led with params := w.led.params + (1 - (if dst.params then 1 else 0)) } := by
              rw [q2]; apply Ledger.ext' <;> simp [hl1, hi1, hp1] <;> omega
            have o1 : ({ src with tree := { root := none, count := 0 } } : FTree α).own =
                { leaves := 0, inners := 0, items := 0, aux := 0, params := if src.params then 1 else 0, crews := 0 } := by
              apply Ledger.ext' <;> simp [FTree.own, FTree.leaves, FTree.inners, Tree.toList]
            have o2 : ({ tree := src.tree, params := true } : FTree α).own =
                { leaves := src.leaves, inners := src.inners, items := src.tree.toList.length, aux := 0, params := 1, crews := 0 } := by
              apply Ledger.ext' <;> simp [FTree.own, FTree.leaves, FTree.inners]
            have o3 : dst.tree.toList.length = 0 := by rw [hdl]; rfl
            refine ⟨⟨⟨Tree.wf_empty cfg, fun hh => absurd rfl hh⟩, ⟨hws, fun _ => rfl⟩, sortedBy_nil lt _, hi.ss⟩, ?_, ?_, ?_, ?_⟩
            · show (([] : List α) ++ src.tree.toList).Perm _
              rw [hdl]; simp
            · show ([] : List α).Sublist _
              exact List.nil_sublist _
            · rw [hdl]; exact List.nil_sublist _
            · unfold Frame2
              rw [o1, o2]
              simp only [addInners_led, addLeaves_led, hw1]
              apply Ledger.ext' <;> simp [o3] <;> omega
      · rw [if_neg hd0] at h
        have hdne : dst.tree.toList ≠ [] := by
          intro hh; apply hd0; rw [hwd.count, hh]; rfl
        obtain ⟨rd, hrd, hrdl⟩ := toList_ne_nil_root dst.tree hdne
        obtain ⟨dd, hbd⟩ := hwd.bal rd hrd
        have e1 := node_last_elem hbs (by rw [hrsl]; exact hsne)
        have e2 := node_first_elem hbd (by rw [hrdl]; exact hdne)
        have e3 := node_last_elem hbd (by rw [hrdl]; exact hdne)
        have e4 := node_first_elem hbs (by rw [hrsl]; exact hsne)
        rw [hrsl] at e1 e4; rw [hrdl] at e2 e3
        obtain ⟨b, hb⟩ : ∃ b, dst.tree.toList.head? = some b := by
          cases hh : dst.tree.toList.head? with
          | none => exact absurd (List.head?_eq_none_iff.mp hh) hdne
          | some b => exact ⟨b, rfl⟩
        obtain ⟨c, hc⟩ : ∃ c, dst.tree.toList.getLast? = some c := by
          cases hh : dst.tree.toList.getLast? with
          | none => exact absurd (List.getLast?_eq_none_iff.mp hh) hdne
          | some c => exact ⟨c, rfl⟩
        obtain ⟨d0, hd⟩ : ∃ d0, src.tree.toList.head? = some d0 := by
          cases hh : src.tree.toList.head? with
          | none => exact absurd (List.head?_eq_none_iff.mp hh) hsne
          | some d0 => exact ⟨d0, rfl⟩
        simp only [hrs, hrd, e1, e2, e3, e4, ha, hb, hc, hd] at h
        have hspec : Spec.merge lt cfg.multi src.tree.toList dst.tree.toList =
            (if Spec.ordered lt cfg.multi a b then src.tree.toList ++ dst.tree.toList
             else if Spec.ordered lt cfg.multi c d0 then dst.tree.toList ++ src.tree.toList
             else src.tree.toList.foldl (Spec.insert1 lt cfg.multi) dst.tree.toList) := by
          simp only [Spec.merge, ha, hb, hc, hd]
        have hordEq : ∀ u v, Spec.ordered lt cfg.multi u v = Tree.isOrderedItems lt cfg u v := fun u v => rfl
        rw [hspec, hordEq, hordEq]
        have hcs := hws.count
        have hcd := hwd.count
        have hpd : dst.params = true := hi.wd.params (by rw [hrd]; simp)
        have hsl : src.leaves = leafCount rs := by simp [FTree.leaves, hrs]
        have hsi : src.inners = innerCount rs := by simp [FTree.inners, hrs]
        have hdl' : dst.leaves = leafCount rd := by simp [FTree.leaves, hrd]
        have hdi : dst.inners = innerCount rd := by simp [FTree.inners, hrd]
        obtain ⟨o1a, o1b⟩ := isOrderedF_spec lt S cfg a b w
        cases hio : isOrderedF S lt cfg a b w with
        | mk o1 w1 =>
          rw [hio] at h o1a o1b
          simp only at o1a o1b
          cases o1 with
          | none =>
            simp only [Prod.mk.injEq] at h
            obtain ⟨rfl, rfl, rfl, rfl⟩ := h
            exact ⟨MergeOut.refl lt cfg _ _ o1a _ _ hi, fun hh => (by cases hh)⟩
          | some r1 =>
            have hr1 := o1b r1 rfl
            subst hr1
            cases h1 : Tree.isOrderedItems lt cfg a b with
            | true =>
              simp only [h1] at h
              obtain ⟨m1, ⟨dm, m2⟩, m3⟩ := mergeFast_spec cfg hmax hbs hbd (by rw [hrsl]; exact hsne) (by rw [hrdl]; exact hdne)
              rw [hrsl, hrdl] at m1
              cases hmf : mergeFastF S ic cfg rs rd w1 with
              | mk t2 rest2 =>
                obtain ⟨root, w2⟩ := rest2
                obtain ⟨f1, f2⟩ := mergeFastF_spec S ic cfg rs rd w1 hmf
                rw [hmf] at h
                cases t2 with
                | true =>
                  simp only [Prod.mk.injEq] at h
                  obtain ⟨rfl, rfl, rfl, rfl⟩ := h
                  exact ⟨MergeOut.refl lt cfg _ _ (by rw [f1 rfl, o1a]) _ _ hi, fun hh => (by cases hh)⟩
                | false =>
                  simp only [Prod.mk.injEq] at h
                  obtain ⟨rfl, rfl, rfl, rfl⟩ := h
                  obtain ⟨g1, g2⟩ := f2 rfl
                  subst g1
                  refine ⟨?_, fun _ => (by show toList (mergeFast cfg rs rd) = _; rw [m1]; simp)⟩
                  refine takeOver lt cfg w w2 src dst hi _ _ m1 (List.Perm.refl _) (List.sublist_append_right _ _) ⟨?_, ?_, ?_⟩
                    (sortedBy_append lt ho cfg.multi _ _ a b hi.ss hi.sd ha hb ((isOrderedItems_iff lt cfg a b).mp h1)) hpd ?_
                  · rw [toList_mk, m1, List.length_append]; simp only; omega
                  · intro r hh; cases hh; exact ⟨dm, m2⟩
                  · intro r hh; cases hh; exact m3 (hws.caps rs hrs) (hwd.caps rd hrd)
                  · rw [g2, o1a]; apply Ledger.ext' <;> simp [hsl, hsi, hdl', hdi] <;> omega
            | false =>
              simp only [h1] at h
              obtain ⟨o2a, o2b⟩ := isOrderedF_spec lt S cfg c d0 w1
              cases hio2 : isOrderedF S lt cfg c d0 w1 with
              | mk o2 w2 =>
                rw [hio2] at h o2a o2b
                simp only at o2a o2b
                cases o2 with
                | none =>
                  simp only [Prod.mk.injEq] at h
                  obtain ⟨rfl, rfl, rfl, rfl⟩ := h
                  exact ⟨MergeOut.refl lt cfg _ _ (by rw [o2a, o1a]) _ _ hi, fun hh => (by cases hh)⟩
                | some r2 =>
                  have hr2 := o2b r2 rfl
                  subst hr2
                  cases h2 : Tree.isOrderedItems lt cfg c d0 with
                  | true =>
                    simp only [h2] at h
                    obtain ⟨m1, ⟨dm, m2⟩, m3⟩ := mergeFast_spec cfg hmax hbd hbs (by rw [hrdl]; exact hdne) (by rw [hrsl]; exact hsne)
                    rw [hrsl, hrdl] at m1
                    cases hmf : mergeFastF S ic cfg rd rs w2 with
                    | mk t2 rest2 =>
                      obtain ⟨root, w3⟩ := rest2
                      obtain ⟨f1, f2⟩ := mergeFastF_spec S ic cfg rd rs w2 hmf
                      rw [hmf] at h
                      cases t2 with
                      | true =>
                        simp only [Prod.mk.injEq] at h
                        obtain ⟨rfl, rfl, rfl, rfl⟩ := h
                        exact ⟨MergeOut.refl lt cfg _ _ (by rw [f1 rfl, o2a, o1a]) _ _ hi, fun hh => (by cases hh)⟩
                      | false =>
                        simp only [Prod.mk.injEq] at h
                        obtain ⟨rfl, rfl, rfl, rfl⟩ := h
                        obtain ⟨g1, g2⟩ := f2 rfl
                        subst g1
                        refine ⟨?_, fun _ => (by show toList (mergeFast cfg rd rs) = _; rw [m1]; simp)⟩
                        refine takeOver lt cfg w w3 src dst hi _ _ m1 List.perm_append_comm (List.sublist_append_left _ _) ⟨?_, ?_, ?_⟩
                          (sortedBy_append lt ho cfg.multi _ _ c d0 hi.sd hi.ss hc hd ((isOrderedItems_iff lt cfg c d0).mp h2)) hpd ?_
                        · rw [toList_mk, m1, List.length_append]; simp only; omega
                        · intro r hh; cases hh; exact ⟨dm, m2⟩
                        · intro r hh; cases hh; exact m3 (hwd.caps rd hrd) (hws.caps rs hrs)
                        · rw [g2, o2a, o1a]; apply Ledger.ext' <;> simp [hsl, hsi, hdl', hdi] <;> omega
                  | false =>
                    simp only [h2, Bool.false_eq_true, if_false] at h ⊢
                    have hw2 : w2.led = w.led := by rw [o2a, o1a]
                    split at h
                    · obtain ⟨x1, x2⟩ := mergeGenericF_spec lt S ic hu cfg hmax ho src dst hi w2 h
                      exact ⟨⟨x1.inv, x1.perm, x1.subS, x1.subD, Frame2.of_led_eq hw2 x1.frame⟩, x2⟩
                    · obtain ⟨x1, x2⟩ := mergeLinearF_spec lt S ic hu cfg hmax ho src dst hi w2 h
                      exact ⟨⟨x1.inv, x1.perm, x1.subS, x1.subD, Frame2.of_led_eq hw2 x1.frame⟩, x2⟩

end

/-! ### list facts about stable insertion used by the property statements -/

theorem upperIdx_le (lt : α → α → Bool) (l : List α) (x : α) : upperIdx lt l x ≤ l.length := by
  unfold upperIdx; exact (List.takeWhile_sublist _).length_le

theorem insert1_facts (lt : α → α → Bool) (multi : Bool) (l : List α) (x : α) :
    l.Sublist (Spec.insert1 lt multi l x) ∧ (∀ z ∈ Spec.insert1 lt multi l x, z ∈ l ∨ z = x) := by
  unfold Spec.insert1
  split
  · exact ⟨List.Sublist.refl _, fun z hz => Or.inl hz⟩
  · refine ⟨sublist_insertIdx l _ x (upperIdx_le lt l x), fun z hz => ?_⟩
    have := (List.perm_insertIdx x l (upperIdx_le lt l x)).mem_iff.mp hz
    simpa [or_comm] using this

theorem foldl_insert1_facts (lt : α → α → Bool) (multi : Bool) (ys l : List α) :
    l.Sublist (ys.foldl (Spec.insert1 lt multi) l) ∧ (∀ z ∈ ys.foldl (Spec.insert1 lt multi) l, z ∈ l ∨ z ∈ ys) := by
  induction ys generalizing l with
  | nil => exact ⟨List.Sublist.refl _, fun z hz => Or.inl hz⟩
  | cons y ys ih =>
    obtain ⟨a, b⟩ := insert1_facts lt multi l y
    obtain ⟨c, d⟩ := ih (Spec.insert1 lt multi l y)
    refine ⟨a.trans c, fun z hz => ?_⟩
    rcases d z hz with h | h
    · rcases b z h with h' | h'
      · exact Or.inl h'
      · exact Or.inr (by simp [h'])
    · exact Or.inr (by simp [h])

end Momo.BTreeF
