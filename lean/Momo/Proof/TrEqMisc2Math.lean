import Momo.Translated
import Momo.Translated.Misc
import Momo.Proof.SegMachine
/-!
  C16: `UIntMath::pvLog2` (8-byte and 4-byte de Bruijn variants, tables included) and `UIntMath::Log2` as translated
  from Utility.h (area Misc, lean/Momo/Translated/Misc.lean) are the machine-word models `log2db64` / `log2db32` of
  `Momo/Model/Seg.lean` — this closes the gap left by the base table, whose translations of the `SegmentedArraySettings`
  helpers *call* the hand-written `Seg.log2db64`. Also `SegmentedArraySettings<cnst>::GetItemCount`.
  The generated definitions are rewritten by tools/translate.py from the current headers on every check; a changed
  function body (a table entry, a shift, the multiplier) makes the equalities below fail to elaborate.
-/
namespace Momo.TrEq
open Momo Momo.Seg

theorem tab64_getD (i : Nat) : tab64.getD i 0 = Extracted.log2Tab64.getD i 0 := by
  unfold tab64
  simp [Array.getD_eq_getD_getElem?, List.getD_eq_getElem?_getD]

theorem tab32_getD (i : Nat) : tab32.getD i 0 = Extracted.log2Tab32.getD i 0 := by
  unfold tab32
  simp [Array.getD_eq_getD_getElem?, List.getD_eq_getElem?_getD]

/-- `pvLog2` for `sizeof(UInt) == 8` as translated (table literal, six smear lines, isolate, multiply, shift, index)
    is the machine-word model, for every `size_t` argument (0 included). -/
theorem tr_pvLog2_64 (v : Nat) (hv : v < 2 ^ 64) : Tr.um_pvLog2_64 v = log2db64 v := by
  rw [log2db64_eq_nat]
  unfold Tr.um_pvLog2_64 log2nat64
  rw [tab64_getD, w64_of_lt hv]
  simp only [smear, Extracted.log2Smear64, List.foldl, Extracted.log2Mul64, Extracted.log2Shift64]
  rw [sub64_of_le (Nat.shiftRight_le _ _)]
  rfl

/-- `Log2(value) { return pvLog2(value); }` -/
theorem tr_Log2 (v : Nat) (hv : v < 2 ^ 64) : Tr.um_Log2 v = log2db64 v := tr_pvLog2_64 v hv

/-- `pvLog2` for `sizeof(UInt) == 4` as translated (`uint32_t` arithmetic: the product wraps mod 2^32) -/
theorem tr_pvLog2_32 (v : Nat) (hv : v < 2 ^ 32) : Tr.um_pvLog2_32 v = log2db32 v := by
  rw [log2db32_eq_nat]
  unfold Tr.um_pvLog2_32 log2nat32
  rw [tab32_getD, w32_of_lt hv]
  simp only [smear, Extracted.log2Smear32, List.foldl, Extracted.log2Mul32, Extracted.log2Shift32]
  rfl

theorem w64_lt (n : Nat) : w64 n < 2 ^ 64 := by
  rw [w64_eq]; exact Nat.mod_lt _ (by decide)

/-- the translated `pvIndexToLogItemCount` (base table; it calls `Seg.log2db64`) is its own text with the call of
    `UIntMath<>::Log2` resolved to the *translated* `Log2` -/
theorem tr_sqrt_indexToLog_um (i1 : Nat) (h : i1 < 2 ^ 64) :
    Tr.segSqrt_pvIndexToLogItemCount i1 = (add64 (Tr.um_Log2 i1) 1) / 2 := by
  rw [tr_Log2 i1 h]; rfl

/-- the same for `pvSegIndexToLogItemCount` (its argument `(segIndex * 2 + 4) / 3` is always a `size_t`) -/
theorem tr_sqrt_segToLog_um (s : Nat) :
    Tr.segSqrt_pvSegIndexToLogItemCount s = Tr.um_Log2 ((add64 (mul64 s 2) 4) / 3) := by
  have : add64 (mul64 s 2) 4 / 3 < 2 ^ 64 := by
    have := w64_lt (mul64 s 2 + 4)
    unfold add64
    omega
  rw [tr_Log2 _ this]; rfl

theorem tr_cnst_getItemCount (L0 s : Nat) : Tr.segCnst_GetItemCount L0 = itemCount64 .cnst L0 s := rfl

end Momo.TrEq
