import Momo.Proof.ColumnsDfs
/-!
# `GetVertices` and the graph built by `pvFillAddends` / `pvAddEdges` — lemmas for C18

* `vertices_lt`, `vertices_ne`: for `logVertexCount ≥ 4` and `codeParam ≤ 255` the two vertices are
  distinct and below `2^logVertexCount` (so `Graph::AddEdges`' extra check holds and no array index
  is out of range).
* `place`, `endOf`, `alignOf`: the layout of the new items (`UIntMath::Ceil`).
* `newEdges_eq`, `buildGraph_eq`: the graph of one attempt is `oldEdges` over
  `columns ++ place items totalSize`.
* `oldEdges_mem`: its edges are exactly the two directed edges per column record.
* `oldEdges_count`: it uses two `Graph::Edge` records per column record.
-/
namespace Momo.Col

/-! ## GetVertices -/

theorem xor_one_ne (x : Nat) : x ^^^ 1 ≠ x := by
  intro h
  have h2 : x ^^^ (x ^^^ 1) = x ^^^ x := by rw [h]
  rw [← Nat.xor_assoc, Nat.xor_self, Nat.zero_xor] at h2
  cases h2

theorem pow_min_le (L : Nat) (hL : Extracted.colLogVertexMin ≤ L) : 16 ≤ 2 ^ L := by
  have : 2 ^ Extracted.colLogVertexMin ≤ 2 ^ L := Nat.pow_le_pow_right (by decide) hL
  simpa [Extracted.colLogVertexMin] using this

theorem vertex1_lt (c : Cfg) (code param : Nat) (hL : Extracted.colLogVertexMin ≤ c.L)
    (hp : param ≤ Extracted.colMaxCodeParam) : vertex1 c code param < 2 ^ c.L := by
  have h16 := pow_min_le c.L hL
  unfold vertex1
  apply Nat.xor_lt_two_pow
  · apply Nat.and_lt_two_pow; omega
  · simp only [Extracted.colParamShift, Extracted.colMaxCodeParam, Nat.shiftRight_eq_div_pow] at hp ⊢
    omega

theorem vertex2raw_lt (c : Cfg) (code param : Nat) (hL : Extracted.colLogVertexMin ≤ c.L) :
    vertex2raw c code param < 2 ^ c.L := by
  have h16 := pow_min_le c.L hL
  unfold vertex2raw
  apply Nat.xor_lt_two_pow
  · apply Nat.and_lt_two_pow; omega
  · have : param &&& Extracted.colParamMask ≤ Extracted.colParamMask := Nat.and_le_right
    simp only [Extracted.colParamMask] at this ⊢
    omega

/-- both vertices index into the `2^L` addends / edge lists -/
theorem vertices_lt (c : Cfg) (code param : Nat) (hL : Extracted.colLogVertexMin ≤ c.L)
    (hp : param ≤ Extracted.colMaxCodeParam) :
    (getVertices c code param).1 < c.N ∧ (getVertices c code param).2 < c.N := by
  have h16 := pow_min_le c.L hL
  unfold getVertices Cfg.N
  refine ⟨vertex1_lt c code param hL hp, ?_⟩
  apply Nat.xor_lt_two_pow (vertex2raw_lt c code param hL)
  split <;> omega

/-- `MOMO_EXTRA_CHECK(vertex1 != vertex2)` of `Graph::AddEdges` always holds -/
theorem vertices_ne (c : Cfg) (code param : Nat) :
    (getVertices c code param).1 ≠ (getVertices c code param).2 := by
  unfold getVertices
  simp only
  split
  · rename_i h
    rw [h]
    exact fun h2 => xor_one_ne _ h2.symm
  · rename_i h
    simpa using h

/-! ## Layout of the new items -/

/-- the column records `pvAddEdges` lays out for the new items, starting at `off` -/
def place : List Item → Nat → List ColRec
  | [], _ => []
  | it :: its, off => ⟨it.code, ceil off it.align, it.size, it.align⟩ :: place its (ceil off it.align + it.size)

/-- `offset` after `pvAddEdges` -/
def endOf : List Item → Nat → Nat
  | [], off => off
  | it :: its, off => endOf its (ceil off it.align + it.size)

/-- `maxAlignment` after `pvAddEdges` -/
def alignOf : List Item → Nat → Nat
  | [], al => al
  | it :: its, al => alignOf its (max al it.align)

theorem oldEdges_append (c : Cfg) (param : Nat) (rs ss : List ColRec) (g : Adj) :
    oldEdges c param (rs ++ ss) g = oldEdges c param ss (oldEdges c param rs g) := by
  induction rs generalizing g with
  | nil => rfl
  | cons r rs ih => simp only [List.cons_append, oldEdges]; exact ih _

theorem newEdges_eq (c : Cfg) (param : Nat) (items : List Item) (g : Adj) (off al : Nat) :
    newEdges c param items g off al = (oldEdges c param (place items off) g, endOf items off, alignOf items al) := by
  induction items generalizing g off al with
  | nil => rfl
  | cons it its ih => simp only [newEdges, place, oldEdges, endOf, alignOf]; exact ih _ _ _

theorem buildGraph_eq (c : Cfg) (st : State) (items : List Item) (param : Nat) :
    buildGraph c st items param =
      (oldEdges c param (st.columns ++ place items st.totalSize) (Array.replicate c.N []),
       endOf items st.totalSize, alignOf items st.alignment) := by
  unfold buildGraph
  rw [newEdges_eq, oldEdges_append]

/-! ## Edges of the graph -/

theorem adj_getD_set (g : Adj) (i j : Nat) (x : List Edge) :
    (g.setIfInBounds i x).getD j [] = if i = j ∧ i < g.size then x else g.getD j [] := by
  simp only [Array.getD_eq_getD_getElem?, Array.getElem?_setIfInBounds]
  by_cases h : i = j
  · subst h
    by_cases h2 : i < g.size
    · simp [h2]
    · simp [h2]
  · simp [h]

theorem addEdge_size (g : Adj) (v1 v2 val : Nat) : (addEdge g v1 v2 val).size = g.size := by
  simp [addEdge]

theorem addEdge_mem (g : Adj) (v1 v2 val w : Nat) (e : Edge) (h1 : v1 < g.size) :
    e ∈ (addEdge g v1 v2 val).getD w [] ↔ (w = v1 ∧ e = ⟨v2, val⟩) ∨ e ∈ g.getD w [] := by
  unfold addEdge
  rw [adj_getD_set]
  by_cases h : v1 = w
  · subst h
    simp [h1]
  · have : ¬ (v1 = w ∧ v1 < g.size) := fun hh => h hh.1
    rw [if_neg this]
    constructor
    · exact Or.inr
    · rintro (⟨hw, _⟩ | hm)
      · exact absurd hw.symm h
      · exact hm

theorem addEdges_size (g : Adj) (v1 v2 val : Nat) : (addEdges g v1 v2 val).size = g.size := by
  simp [addEdges, addEdge_size]

theorem addEdges_mem (g : Adj) (v1 v2 val w : Nat) (e : Edge) (h1 : v1 < g.size) (h2 : v2 < g.size) :
    e ∈ (addEdges g v1 v2 val).getD w [] ↔
      (w = v1 ∧ e = ⟨v2, val⟩) ∨ (w = v2 ∧ e = ⟨v1, val⟩) ∨ e ∈ g.getD w [] := by
  unfold addEdges
  rw [addEdge_mem _ _ _ _ _ _ (by rw [addEdge_size]; exact h2), addEdge_mem _ _ _ _ _ _ h1]
  constructor
  · rintro (h | h | h)
    · exact Or.inr (Or.inl h)
    · exact Or.inl h
    · exact Or.inr (Or.inr h)
  · rintro (h | h | h)
    · exact Or.inr (Or.inl h)
    · exact Or.inl h
    · exact Or.inr (Or.inr h)

/-- the two directed edges a column record contributes -/
def IsEdgeOf (c : Cfg) (param : Nat) (r : ColRec) (w : Nat) (e : Edge) : Prop :=
  (w = (getVertices c r.code param).1 ∧ e = ⟨(getVertices c r.code param).2, r.offset⟩) ∨
  (w = (getVertices c r.code param).2 ∧ e = ⟨(getVertices c r.code param).1, r.offset⟩)

theorem oldEdges_size (c : Cfg) (param : Nat) (rs : List ColRec) (g : Adj) :
    (oldEdges c param rs g).size = g.size := by
  induction rs generalizing g with
  | nil => rfl
  | cons r rs ih => simp only [oldEdges]; rw [ih, addEdges_size]

theorem oldEdges_mem (c : Cfg) (param : Nat) (hL : Extracted.colLogVertexMin ≤ c.L)
    (hp : param ≤ Extracted.colMaxCodeParam) (rs : List ColRec) (g : Adj) (hg : g.size = c.N)
    (w : Nat) (e : Edge) :
    e ∈ (oldEdges c param rs g).getD w [] ↔ e ∈ g.getD w [] ∨ ∃ r ∈ rs, IsEdgeOf c param r w e := by
  induction rs generalizing g with
  | nil => simp [oldEdges]
  | cons r rs ih =>
    have hv := vertices_lt c r.code param hL hp
    simp only [oldEdges]
    rw [ih _ (by rw [addEdges_size]; exact hg), addEdges_mem _ _ _ _ _ _ (hg ▸ hv.1) (hg ▸ hv.2)]
    constructor
    · rintro ((h | h | h) | ⟨r', hr', h⟩)
      · exact Or.inr ⟨r, by simp, Or.inl h⟩
      · exact Or.inr ⟨r, by simp, Or.inr h⟩
      · exact Or.inl h
      · exact Or.inr ⟨r', by simp [hr'], h⟩
    · rintro (h | ⟨r', hr', h⟩)
      · exact Or.inl (Or.inr (Or.inr h))
      · rcases List.mem_cons.mp hr' with rfl | hr'
        · rcases h with h | h
          · exact Or.inl (Or.inl h)
          · exact Or.inl (Or.inr (Or.inl h))
        · exact Or.inr ⟨r', hr', h⟩

theorem replicate_adj_getD (n w : Nat) : (Array.replicate n ([] : List Edge)).getD w [] = [] := by
  simp only [Array.getD_eq_getD_getElem?, Array.getElem?_replicate]
  split <;> rfl

/-- the graph of one attempt is well formed when `B` bounds every recorded / placed offset -/
theorem graph_ok (c : Cfg) (param : Nat) (hL : Extracted.colLogVertexMin ≤ c.L)
    (hp : param ≤ Extracted.colMaxCodeParam) (rs : List ColRec) (B : Nat) (hB : ∀ r ∈ rs, r.offset ≤ B) :
    GOK (oldEdges c param rs (Array.replicate c.N [])) c.N B := by
  refine ⟨by rw [oldEdges_size]; simp, ?_⟩
  intro w e he
  rw [oldEdges_mem c param hL hp rs _ (by simp)] at he
  rcases he with he | ⟨r, hr, he⟩
  · rw [replicate_adj_getD] at he; cases he
  · have hv := vertices_lt c r.code param hL hp
    rcases he with ⟨_, rfl⟩ | ⟨_, rfl⟩
    · exact ⟨hv.2, hB r hr⟩
    · exact ⟨hv.1, hB r hr⟩

/-! ## Capacity of the edge storage -/

/-- number of `Graph::Edge` records in use (`mEdgeNumber`) -/
def edgeCount (g : Adj) : Nat := (g.toList.map List.length).sum

theorem sum_set_length (l : List (List Edge)) (i : Nat) (x : List Edge) (h : i < l.length) :
    ((l.set i x).map List.length).sum + l[i].length = (l.map List.length).sum + x.length := by
  induction l generalizing i with
  | nil => simp at h
  | cons y ys ih =>
    cases i with
    | zero => simp; omega
    | succ j =>
      simp only [List.length_cons] at h
      have := ih j (by omega)
      simp only [List.set_cons_succ, List.map_cons, List.sum_cons, List.getElem_cons_succ]
      omega

theorem addEdge_count (g : Adj) (v1 v2 val : Nat) (h : v1 < g.size) :
    edgeCount (addEdge g v1 v2 val) = edgeCount g + 1 := by
  unfold edgeCount addEdge
  rw [Array.toList_setIfInBounds]
  have hl : v1 < g.toList.length := by simpa using h
  have hs := sum_set_length g.toList v1 (⟨v2, val⟩ :: g.getD v1 []) hl
  have hg : g.getD v1 [] = g.toList[v1] := by
    simp [Array.getD_eq_getD_getElem?, h]
  rw [hg] at hs ⊢
  simp only [List.length_cons] at hs
  omega

theorem addEdges_count (g : Adj) (v1 v2 val : Nat) (h1 : v1 < g.size) (h2 : v2 < g.size) :
    edgeCount (addEdges g v1 v2 val) = edgeCount g + 2 := by
  unfold addEdges
  rw [addEdge_count _ _ _ _ (by rw [addEdge_size]; exact h2), addEdge_count _ _ _ _ h1]

theorem oldEdges_count (c : Cfg) (param : Nat) (hL : Extracted.colLogVertexMin ≤ c.L)
    (hp : param ≤ Extracted.colMaxCodeParam) (rs : List ColRec) (g : Adj) (hg : g.size = c.N) :
    edgeCount (oldEdges c param rs g) = edgeCount g + 2 * rs.length := by
  induction rs generalizing g with
  | nil => simp [oldEdges]
  | cons r rs ih =>
    have hv := vertices_lt c r.code param hL hp
    simp only [oldEdges]
    rw [ih _ (by rw [addEdges_size]; exact hg), addEdges_count _ _ _ _ (hg ▸ hv.1) (hg ▸ hv.2)]
    simp only [List.length_cons]
    omega

theorem edgeCount_replicate (n : Nat) : edgeCount (Array.replicate n []) = 0 := by
  unfold edgeCount
  induction n with
  | zero => rfl
  | succ k ih => simp [Array.replicate_succ] at ih ⊢

end Momo.Col
