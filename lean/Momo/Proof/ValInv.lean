import Momo.Proof.ValHeap
/-!
  The ownership invariant of the value-semantics model (C14) and its preservation by every step:
  every block an object refers to is live, was allocated by the manager the object holds, and is referred
  to by no other object. `Frame`: a step touches only the objects it names and the blocks they own.
-/
namespace Momo.Val

/-- what must hold between one object and the heap -/
structure ContOk (H : Heap) (c : Cont) : Prop where
  nodup : c.owned.Nodup
  /-- every block it refers to is live and was allocated by the manager the object holds now -/
  live : ∀ h ∈ c.owned, ∃ cell, H.get h = some cell ∧ c.mgr = some cell.mgr
  /-- an object whose crew pointer is null holds nothing in its internal buffer either -/
  nullInl : c.mgr = none → c.inl = []

/-- well-formed world: no dangling handle, no manager mismatch, no block shared by two objects -/
structure WF (w : World) : Prop where
  fresh : ∀ h, w.heap.next ≤ h → w.heap.get h = none
  ok : ∀ i c, w.objs i = some c → ContOk w.heap c
  disj : ∀ i j c d, i ≠ j → w.objs i = some c → w.objs j = some d → ∀ h, h ∈ c.owned → h ∉ d.owned

/-- `w'` differs from `w` only in the slots `ws` and in blocks that the other objects do not own -/
def Frame (w w' : World) (ws : List Nat) : Prop :=
  ∀ x, x ∉ ws → w'.objs x = w.objs x ∧ ∀ c, w.objs x = some c → ∀ h ∈ c.owned, w'.heap.get h = w.heap.get h

@[simp] theorem upd_same (f : Nat → Option Cont) (i : Nat) (c : Option Cont) : upd f i c i = c := by simp [upd]
theorem upd_other (f : Nat → Option Cont) {i j : Nat} (c : Option Cont) (h : j ≠ i) : upd f i c j = f j := by simp [upd, h]

theorem WF.init : WF World.init :=
  ⟨fun _ _ => rfl, fun _ _ h => by simp [World.init] at h, fun _ _ _ _ _ h => by simp [World.init] at h⟩

theorem WF.owned_lt {w : World} (wf : WF w) {i : Nat} {c : Cont} (hc : w.objs i = some c) {h : Nat}
    (hh : h ∈ c.owned) : h < w.heap.next := by
  obtain ⟨cell, hg, _⟩ := (wf.ok i c hc).live h hh
  apply Decidable.byContradiction; intro hn
  rw [wf.fresh h (by omega)] at hg; cases hg

theorem ContOk.of_agree {H H' : Heap} {c : Cont} (ok : ContOk H c)
    (ag : ∀ h ∈ c.owned, H'.get h = H.get h) : ContOk H' c :=
  ⟨ok.nodup, fun h hh => by rw [ag h hh]; exact ok.live h hh, ok.nullInl⟩

theorem Frame.refl (w : World) (ws : List Nat) : Frame w w ws := fun _ _ => ⟨rfl, fun _ _ _ _ => rfl⟩

theorem Frame.trans {w w1 w2 : World} {A B : List Nat} (f1 : Frame w w1 A) (f2 : Frame w1 w2 B) :
    Frame w w2 (A ++ B) := by
  intro x hx
  have hA : x ∉ A := fun h => hx (List.mem_append.mpr (Or.inl h))
  have hB : x ∉ B := fun h => hx (List.mem_append.mpr (Or.inr h))
  obtain ⟨e1, g1⟩ := f1 x hA
  obtain ⟨e2, g2⟩ := f2 x hB
  refine ⟨e2.trans e1, fun c hc h hh => ?_⟩
  rw [g2 c (e1.trans hc) h hh, g1 c hc h hh]

theorem Frame.mono {w w' : World} {A B : List Nat} (f : Frame w w' A) (hAB : ∀ x, x ∈ A → x ∈ B) : Frame w w' B :=
  fun x hx => f x (fun h => hx (hAB x h))

/-- what an untouched object holds is unchanged -/
theorem contents_agree {H H' : Heap} {c : Cont} (ag : ∀ h ∈ c.owned, H'.get h = H.get h) :
    contents H' c = contents H c ∧ layout H' c = layout H c := by
  have : layout H' c = layout H c := by
    unfold layout
    apply List.map_congr_left
    intro h hh
    unfold itemsAt
    rw [ag h (List.mem_append.mpr (Or.inr hh))]
  exact ⟨by unfold contents; rw [this], this⟩

theorem Frame.contents {w w' : World} {ws : List Nat} (f : Frame w w' ws) {x : Nat} (hx : x ∉ ws) {c : Cont}
    (hc : w.objs x = some c) : w'.objs x = some c ∧ contents w'.heap c = contents w.heap c := by
  obtain ⟨e, g⟩ := f x hx
  exact ⟨e.trans hc, (contents_agree (g c hc)).1⟩

/-! ### generic ways to change a world -/

/-- replace (or create) one object, possibly with a new heap -/
theorem WF.update_slot {w : World} (wf : WF w) (i : Nat) (c' : Cont) (H' : Heap)
    (hfresh : ∀ h, H'.next ≤ h → H'.get h = none)
    (hother : ∀ j d, j ≠ i → w.objs j = some d → ∀ h ∈ d.owned, H'.get h = w.heap.get h)
    (hok : ContOk H' c')
    (hdisj : ∀ j d, j ≠ i → w.objs j = some d → ∀ h ∈ c'.owned, h ∉ d.owned) :
    WF ⟨H', upd w.objs i (some c')⟩ ∧ Frame w ⟨H', upd w.objs i (some c')⟩ [i] := by
  refine ⟨⟨hfresh, ?_, ?_⟩, ?_⟩
  · intro x c hc
    dsimp only at hc ⊢
    by_cases hx : x = i
    · subst hx; simp at hc; subst hc; exact hok
    · rw [upd_other _ _ hx] at hc
      exact (wf.ok x c hc).of_agree (hother x c hx hc)
  · intro x y c d hxy hc hd h hh
    dsimp only at hc hd
    by_cases hx : x = i
    · subst hx; simp at hc; subst hc
      have hy : y ≠ x := fun e => hxy e.symm
      rw [upd_other _ _ hy] at hd
      exact hdisj y d hy hd h hh
    · rw [upd_other _ _ hx] at hc
      by_cases hy : y = i
      · subst hy; simp at hd; subst hd
        intro hh'; exact hdisj x c hx hc h hh' hh
      · rw [upd_other _ _ hy] at hd
        exact wf.disj x y c d hxy hc hd h hh
  · intro x hx
    have hx : x ≠ i := by simpa using hx
    exact ⟨upd_other _ _ hx, fun c hc h hh => hother x c hx hc h hh⟩

/-- let one object die -/
theorem WF.kill_slot {w : World} (wf : WF w) (i : Nat) (H' : Heap)
    (hfresh : ∀ h, H'.next ≤ h → H'.get h = none)
    (hother : ∀ j d, j ≠ i → w.objs j = some d → ∀ h ∈ d.owned, H'.get h = w.heap.get h) :
    WF ⟨H', upd w.objs i none⟩ ∧ Frame w ⟨H', upd w.objs i none⟩ [i] := by
  refine ⟨⟨hfresh, ?_, ?_⟩, ?_⟩
  · intro x c hc
    dsimp only at hc ⊢
    by_cases hx : x = i
    · subst hx; simp at hc
    · rw [upd_other _ _ hx] at hc
      exact (wf.ok x c hc).of_agree (hother x c hx hc)
  · intro x y c d hxy hc hd h hh
    dsimp only at hc hd
    by_cases hx : x = i
    · subst hx; simp at hc
    · rw [upd_other _ _ hx] at hc
      by_cases hy : y = i
      · subst hy; simp at hd
      · rw [upd_other _ _ hy] at hd
        exact wf.disj x y c d hxy hc hd h hh
  · intro x hx
    have hx : x ≠ i := by simpa using hx
    exact ⟨upd_other _ _ hx, fun c hc h hh => hother x c hx hc h hh⟩

/-- rename the objects -/
theorem WF.rename {w : World} (wf : WF w) (σ : Nat → Nat) (inj : ∀ x y, σ x = σ y → x = y) :
    WF ⟨w.heap, fun x => w.objs (σ x)⟩ :=
  ⟨wf.fresh, fun x c hc => wf.ok (σ x) c hc,
   fun x y c d hxy hc hd => wf.disj (σ x) (σ y) c d (fun e => hxy (inj x y e)) hc hd⟩

end Momo.Val
