import Momo.Proof.BTreeBasic
/-!
  C02, iterators: `operator++` raises the in-order index of an element position by one, `operator--` lowers it by one,
  `GetBegin()` has index 0, `GetEnd()` has index `size`; hence forward traversal with the modelled iterator yields the
  in-order list and backward traversal its reverse. Core Lean only.
-/
namespace Momo.BTree
open Node
variable {α : Type}

/-- number of elements that precede the subtree at `path` -/
def offsetOf : Node α → List Nat → Nat
  | _, [] => 0
  | leaf _ _, _ :: _ => 0
  | inner _ cs, c :: p => ((cs.take c).map (fun ch => size ch)).sum + c +
      (match cs[c]? with
       | some ch => offsetOf ch p
       | none => 0)

@[simp] theorem offsetOf_nil (n : Node α) : offsetOf n [] = 0 := by cases n <;> simp [offsetOf]

@[simp] theorem offsetOf_inner_cons (is : List α) (cs : List (Node α)) (c : Nat) (p : List Nat) :
    offsetOf (inner is cs) (c :: p) = ((cs.take c).map (fun ch => size ch)).sum + c +
      (match cs[c]? with
       | some ch => offsetOf ch p
       | none => 0) := by cases h : cs[c]? <;> simp [offsetOf, h]

theorem offsetOf_inner_cons' {is : List α} {cs : List (Node α)} {c : Nat} {ch : Node α} (hc : cs[c]? = some ch)
    (p : List Nat) :
    offsetOf (inner is cs) (c :: p) = ((cs.take c).map (fun ch => size ch)).sum + c + offsetOf ch p := by
  simp [hc]

/-- index of a position below the node at `p` = elements before that node + index inside it -/
theorem idxOf_append (r m : Node α) (p q : List Nat) (j : Nat) (h : nodeAt? r p = some m) :
    idxOf r (p ++ q) j = offsetOf r p + idxOf m q j := by
  induction p generalizing r with
  | nil => simp at h; subst h; simp
  | cons c p ih =>
    cases r with
    | leaf cap is => simp at h
    | inner is cs =>
      simp only [nodeAt?_inner_cons] at h
      cases hc : cs[c]? with
      | none => simp [hc] at h
      | some ch =>
        simp only [hc] at h
        rw [List.cons_append, idxOf_inner_cons' hc, offsetOf_inner_cons' hc, ih ch h]
        omega

theorem idxOf_eq_offset (r m : Node α) (p : List Nat) (j : Nat) (h : nodeAt? r p = some m) :
    idxOf r p j = offsetOf r p + idxOf m [] j := by
  simpa using idxOf_append r m p [] j h

/-- index of the slot at the end of a node = its size -/
theorem idxOf_count {d : Nat} {m : Node α} (hb : Bal d m) : idxOf m [] m.count = size m := by
  cases hb with
  | leaf cap items => simp [Node.count, size]
  | inner d items cs hlen hall => simpa [Node.count] using idxOf_end items cs hlen

theorem sum_take_le (cs : List (Node α)) (i : Nat) :
    ((cs.take i).map (fun c => size c)).sum ≤ (cs.map (fun c => size c)).sum := by
  induction cs generalizing i with
  | nil => simp
  | cons c cs ih => cases i with
    | zero => simp
    | succ j => simp only [List.take_succ_cons, List.map_cons, List.sum_cons]; have := ih j; omega

/-- an element position has an index below the size -/
theorem idxOf_lt_size {d : Nat} {r : Node α} (hb : Bal d r) (path : List Nat) (i : Nat) (h : ValidElem r path i) :
    idxOf r path i < size r := by
  induction path generalizing r d with
  | nil =>
    obtain ⟨m, hm, hi⟩ := h
    simp at hm; subst hm
    cases hb with
    | leaf cap items => simpa [Node.count, size] using hi
    | inner d items cs hlen hall =>
      simp only [Node.count] at hi
      rw [idxOf_inner_nil, size_inner items cs hlen]
      have := sum_take_le cs (i+1); omega
  | cons c p ih =>
    obtain ⟨m, hm, hi⟩ := h
    cases r with
    | leaf cap is => simp at hm
    | inner is cs =>
      obtain ⟨d', rfl, hall⟩ := hb.inner_depth
      have hlen := hb.inner_len
      simp only [nodeAt?_inner_cons] at hm
      cases hc : cs[c]? with
      | none => simp [hc] at hm
      | some ch =>
        simp only [hc] at hm
        have := ih (hall ch (List.mem_of_getElem? hc)) ⟨m, hm, hi⟩
        have hcl := lt_of_getElem? hc
        rw [idxOf_inner_cons' hc, size_inner is cs hlen]
        have h1 := sum_take_succ cs c ch hc
        have h2 := sum_take_le cs (c+1)
        omega

/-! ### `pvMove` / `pvMoveIf` -/

/-- the climb of `pvMove` from the slot at the end of the node at `path`: the position found is an element with the
    same in-order index; if the climb leaves the tree the slot is at the very end -/
theorem climb_spec {d : Nat} {r m : Node α} (hb : Bal d r) (path : List Nat) (hm : nodeAt? r path = some m) :
    (∀ q, climb r path = some q → ValidElem r q.path q.idx ∧ idxOf r q.path q.idx = idxOf r path m.count) ∧
    (climb r path = none → idxOf r path m.count = size r) := by
  induction path generalizing r d with
  | nil =>
    simp at hm; subst hm
    constructor
    · intro q hq; cases r <;> simp [climb] at hq
    · intro _; exact idxOf_count hb
  | cons c p ih =>
    cases r with
    | leaf cap is => simp at hm
    | inner is cs =>
      obtain ⟨d', rfl, hall⟩ := hb.inner_depth
      have hlen := hb.inner_len
      simp only [nodeAt?_inner_cons] at hm
      cases hc : cs[c]? with
      | none => simp [hc] at hm
      | some ch =>
        simp only [hc] at hm
        have hcl := lt_of_getElem? hc
        obtain ⟨ih1, ih2⟩ := ih (hall ch (List.mem_of_getElem? hc)) hm
        simp only [climb, hc]
        cases hcl' : climb ch p with
        | some q =>
          obtain ⟨hv, hidx⟩ := ih1 q hcl'
          simp only
          constructor
          · intro q' hq'; cases hq'
            obtain ⟨m', hm1, hm2⟩ := hv
            exact ⟨⟨m', by simp [hc, hm1], hm2⟩, by simp [hc, hidx]⟩
          · intro h; cases h
        | none =>
          have hsz := ih2 hcl'
          simp only
          constructor
          · intro q' hq'
            split at hq'
            · rename_i hlt
              cases hq'
              refine ⟨⟨inner is cs, by simp, by simpa [Node.count] using hlt⟩, ?_⟩
              dsimp only
              rw [idxOf_inner_nil, idxOf_inner_cons' hc, hsz, sum_take_succ cs c ch hc]; omega
            · cases hq'
          · intro h
            split at h
            · cases h
            · rename_i hnlt
              have hce : c = is.length := by omega
              rw [idxOf_inner_cons' hc, hsz, size_inner is cs hlen]
              have h1 := sum_take_succ cs c ch hc
              have h2 : cs.take (c+1) = cs := List.take_of_length_le (by omega)
              rw [h2] at h1; omega

/-- a position is an element position or `GetEnd()` -/
def ValidPos (r : Node α) (q : Pos) : Prop := ValidElem r q.path q.idx ∨ q = endPos r

theorem idxOf_endPos {d : Nat} {r : Node α} (hb : Bal d r) : idxOf r (endPos r).path (endPos r).idx = size r := by
  simpa [endPos] using idxOf_count hb

/-- `pvMoveIf` keeps the in-order index of a slot and yields an element position or `GetEnd()` -/
theorem moveIf_spec {d : Nat} {r m : Node α} (hb : Bal d r) (path : List Nat) (i : Nat)
    (hm : nodeAt? r path = some m) (hi : i ≤ m.count) :
    idxOf r (moveIf r ⟨path, i⟩).path (moveIf r ⟨path, i⟩).idx = idxOf r path i ∧ ValidPos r (moveIf r ⟨path, i⟩) := by
  unfold moveIf
  simp only [countAt, hm]
  split
  · rename_i he
    subst he
    obtain ⟨h1, h2⟩ := climb_spec hb path hm
    cases hc : climb r path with
    | some q =>
      obtain ⟨hv, hidx⟩ := h1 q hc
      exact ⟨by simpa using hidx, Or.inl (by simpa using hv)⟩
    | none =>
      have := h2 hc
      simp only [Option.getD_none]
      exact ⟨by rw [this]; exact idxOf_endPos hb, Or.inr rfl⟩
  · rename_i hne
    have hne' : i ≠ m.count := hne
    exact ⟨rfl, Or.inl ⟨m, hm, by dsimp only; omega⟩⟩

/-! ### leftmost and rightmost leaf -/

theorem leftPath_spec {d : Nat} {n : Node α} (hb : Bal d n) :
    (∃ cap items, nodeAt? n (leftPath n) = some (leaf cap items)) ∧ idxOf n (leftPath n) 0 = 0 := by
  induction hb with
  | leaf cap items => exact ⟨⟨cap, items, by simp [leftPath]⟩, by simp⟩
  | inner d items cs hlen hall ih =>
    cases cs with
    | nil => simp at hlen
    | cons c cs' =>
      obtain ⟨⟨cap, its, h1⟩, h2⟩ := ih c (by simp)
      simp only [leftPath, leftPathHead]
      exact ⟨⟨cap, its, by simp [h1]⟩, by simp [h2]⟩

theorem rightPath_spec {d : Nat} {n : Node α} (hb : Bal d n) :
    (∃ cap items, nodeAt? n (rightPath n).path = some (leaf cap items) ∧ (rightPath n).idx = items.length) ∧
    idxOf n (rightPath n).path (rightPath n).idx = size n := by
  induction hb with
  | leaf cap items => exact ⟨⟨cap, items, by simp [rightPath]⟩, by simp [rightPath, size]⟩
  | inner d items cs hlen hall ih =>
    obtain ⟨c, hc⟩ := getElem?_of_lt (l := cs) (i := items.length) (by omega)
    obtain ⟨⟨cap, its, h1, h1'⟩, h2⟩ := ih c (List.mem_of_getElem? hc)
    simp only [rightPath, rightPathAt_eq, hc]
    refine ⟨⟨cap, its, by simp [hc, h1], h1'⟩, ?_⟩
    rw [idxOf_inner_cons' hc, h2, size_inner items cs hlen]
    have h3 := sum_take_succ cs items.length c hc
    have h4 : cs.take (items.length + 1) = cs := List.take_of_length_le (by omega)
    rw [h4] at h3; omega

/-! ### `operator++` -/

theorem idxOf_leaf_succ (r : Node α) (path : List Nat) (i : Nat) (cap : Nat) (items : List α)
    (hm : nodeAt? r path = some (leaf cap items)) : idxOf r path (i + 1) = idxOf r path i + 1 := by
  rw [idxOf_eq_offset r _ path (i+1) hm, idxOf_eq_offset r _ path i hm]; simp; omega

/-- `operator++` on an element position: the index grows by one, the result is an element position or `GetEnd()` -/
theorem next_spec {d : Nat} {r : Node α} (hb : Bal d r) (path : List Nat) (i : Nat) (h : ValidElem r path i) :
    idxOf r (next r ⟨path, i⟩).path (next r ⟨path, i⟩).idx = idxOf r path i + 1 ∧ ValidPos r (next r ⟨path, i⟩) := by
  obtain ⟨m, hm, hi⟩ := h
  unfold next
  simp only [hm]
  cases m with
  | leaf cap items =>
    simp only
    obtain ⟨h1, h2⟩ := moveIf_spec hb path (i+1) hm (by simp only [Node.count] at hi ⊢; omega)
    exact ⟨by rw [h1, idxOf_leaf_succ r path i cap items hm], h2⟩
  | inner items cs =>
    simp only
    have hbm := (hb.nodeAt hm).1
    obtain ⟨d', hd', hall⟩ := hbm.inner_depth
    have hlen := hbm.inner_len
    simp only [Node.count] at hi
    obtain ⟨ch, hc⟩ := getElem?_of_lt (l := cs) (i := i + 1) (by omega)
    simp only [hc]
    obtain ⟨⟨cap, its, hl1⟩, hl2⟩ := leftPath_spec (hall ch (List.mem_of_getElem? hc))
    have hnode : nodeAt? r (path ++ (i + 1) :: leftPath ch) = some (leaf cap its) := by
      rw [nodeAt?_append, hm]; simp [hc, hl1]
    obtain ⟨h1, h2⟩ := moveIf_spec hb (path ++ (i + 1) :: leftPath ch) 0 hnode (Nat.zero_le _)
    refine ⟨?_, h2⟩
    rw [h1, idxOf_append r _ path _ 0 hm, idxOf_eq_offset r _ path i hm, idxOf_inner_cons' hc, hl2, idxOf_inner_nil]
    omega

/-- `GetBegin()`: index 0, an element position or `GetEnd()` -/
theorem beginPos_spec {d : Nat} {r : Node α} (hb : Bal d r) :
    idxOf r (beginPos r).path (beginPos r).idx = 0 ∧ ValidPos r (beginPos r) := by
  obtain ⟨⟨cap, its, hl1⟩, hl2⟩ := leftPath_spec hb
  obtain ⟨h1, h2⟩ := moveIf_spec hb (leftPath r) 0 hl1 (Nat.zero_le _)
  exact ⟨by unfold beginPos; rw [h1, hl2], h2⟩

/-! ### `operator--` -/

/-- `normLeaf` keeps the index and yields a leaf slot -/
theorem normLeaf_spec {d : Nat} {r m : Node α} (hb : Bal d r) (path : List Nat) (i : Nat)
    (hm : nodeAt? r path = some m) (hi : i ≤ m.count) :
    idxOf r (normLeaf r ⟨path, i⟩).path (normLeaf r ⟨path, i⟩).idx = idxOf r path i ∧
    ∃ cap items, nodeAt? r (normLeaf r ⟨path, i⟩).path = some (leaf cap items) ∧
      (normLeaf r ⟨path, i⟩).idx ≤ items.length := by
  unfold normLeaf
  simp only [hm]
  cases m with
  | leaf cap items => exact ⟨rfl, cap, items, hm, by simpa [Node.count] using hi⟩
  | inner items cs =>
    simp only
    have hbm := (hb.nodeAt hm).1
    obtain ⟨d', hd', hall⟩ := hbm.inner_depth
    have hlen := hbm.inner_len
    simp only [Node.count] at hi
    obtain ⟨ch, hc⟩ := getElem?_of_lt (l := cs) (i := i) (by omega)
    simp only [hc]
    obtain ⟨⟨cap, its, hr1, hr1'⟩, hr2⟩ := rightPath_spec (hall ch (List.mem_of_getElem? hc))
    refine ⟨?_, cap, its, ?_, by omega⟩
    · rw [idxOf_append r _ path _ _ hm, idxOf_eq_offset r _ path i hm, idxOf_inner_cons' hc, hr2, idxOf_inner_nil,
        sum_take_succ cs i ch hc]
      omega
    · rw [nodeAt?_append, hm]; simp [hc, hr1]

/-- the climb of `operator--` from the slot at the start of the node at `path` -/
theorem climbLeft_spec {d : Nat} {r m : Node α} (hb : Bal d r) (path : List Nat) (hm : nodeAt? r path = some m) :
    (∀ q, climbLeft r path = some q → q.idx > 0 ∧ ValidElem r q.path (q.idx - 1) ∧
        idxOf r q.path (q.idx - 1) + 1 = offsetOf r path) ∧
    (climbLeft r path = none → offsetOf r path = 0) := by
  induction path generalizing r d with
  | nil =>
    constructor
    · intro q hq; cases r <;> simp [climbLeft] at hq
    · intro _; simp
  | cons c p ih =>
    cases r with
    | leaf cap is => simp at hm
    | inner is cs =>
      obtain ⟨d', rfl, hall⟩ := hb.inner_depth
      have hlen := hb.inner_len
      simp only [nodeAt?_inner_cons] at hm
      cases hc : cs[c]? with
      | none => simp [hc] at hm
      | some ch =>
        simp only [hc] at hm
        have hcl := lt_of_getElem? hc
        obtain ⟨ih1, ih2⟩ := ih (hall ch (List.mem_of_getElem? hc)) hm
        simp only [climbLeft, hc, offsetOf_inner_cons]
        cases hcl' : climbLeft ch p with
        | some q =>
          obtain ⟨hpos, hv, hidx⟩ := ih1 q hcl'
          simp only
          constructor
          · intro q' hq'; cases hq'
            obtain ⟨m', hm1, hm2⟩ := hv
            refine ⟨hpos, ⟨m', by simp [hc, hm1], hm2⟩, ?_⟩
            simp only [idxOf_inner_cons, hc]; omega
          · intro h; cases h
        | none =>
          have hz := ih2 hcl'
          simp only
          constructor
          · intro q' hq'
            split at hq'
            · rename_i hgt
              cases hq'
              refine ⟨hgt, ⟨inner is cs, by simp, by simp only [Node.count]; omega⟩, ?_⟩
              have : c - 1 + 1 = c := by omega
              dsimp only
              rw [idxOf_inner_nil, this, hz]; omega
            · cases hq'
          · intro h
            split at h
            · cases h
            · rename_i hng
              have : c = 0 := by omega
              subst this; simp [hz]

/-- `operator--` on an element position or `GetEnd()` whose index is positive: the index drops by one and the result
    is an element position -/
theorem prev_spec {d : Nat} {r m : Node α} (hb : Bal d r) (path : List Nat) (i : Nat)
    (hm : nodeAt? r path = some m) (hi : i ≤ m.count) (hpos : 0 < idxOf r path i) :
    idxOf r (prev r ⟨path, i⟩).path (prev r ⟨path, i⟩).idx + 1 = idxOf r path i ∧
    ValidElem r (prev r ⟨path, i⟩).path (prev r ⟨path, i⟩).idx := by
  obtain ⟨hn1, cap, items, hn2, hn3⟩ := normLeaf_spec hb path i hm hi
  unfold prev
  split
  · rename_i hgt
    refine ⟨?_, ⟨leaf cap items, hn2, by simp only [Node.count]; omega⟩⟩
    have := idxOf_leaf_succ r (normLeaf r ⟨path, i⟩).path ((normLeaf r ⟨path, i⟩).idx - 1) cap items hn2
    have h2 : (normLeaf r ⟨path, i⟩).idx - 1 + 1 = (normLeaf r ⟨path, i⟩).idx := by omega
    rw [h2] at this
    simp only
    omega
  · rename_i hng
    have hz : (normLeaf r ⟨path, i⟩).idx = 0 := by omega
    obtain ⟨h1, h2⟩ := climbLeft_spec hb (normLeaf r ⟨path, i⟩).path hn2
    have hoff : idxOf r path i = offsetOf r (normLeaf r ⟨path, i⟩).path := by
      rw [← hn1, idxOf_eq_offset r _ _ _ hn2, hz]; simp
    cases hc : climbLeft r (normLeaf r ⟨path, i⟩).path with
    | some q =>
      obtain ⟨_, hv, hidx⟩ := h1 q hc
      exact ⟨by simp only; omega, hv⟩
    | none =>
      have := h2 hc
      omega

/-! ### element positions are determined by their in-order index -/

theorem sum_take_mono (cs : List (Node α)) {a b : Nat} (h : a ≤ b) :
    ((cs.take a).map (fun c => size c)).sum ≤ ((cs.take b).map (fun c => size c)).sum := by
  induction cs generalizing a b with
  | nil => simp
  | cons c cs ih =>
    cases a with
    | zero => simp
    | succ a' =>
      cases b with
      | zero => omega
      | succ b' =>
        simp only [List.take_succ_cons, List.map_cons, List.sum_cons]
        have := ih (a := a') (b := b') (by omega); omega

theorem idxOf_inj {d : Nat} {r : Node α} (hb : Bal d r) :
    ∀ (p : List Nat) (i : Nat) (p' : List Nat) (i' : Nat), ValidElem r p i → ValidElem r p' i' →
      idxOf r p i = idxOf r p' i' → p = p' ∧ i = i' := by
  induction hb with
  | leaf cap items =>
    intro p i p' i' h h' he
    obtain ⟨m, hm, _⟩ := h
    obtain ⟨m', hm', _⟩ := h'
    cases p with
    | cons _ _ => simp at hm
    | nil => cases p' with
      | cons _ _ => simp at hm'
      | nil => exact ⟨rfl, by simpa using he⟩
  | inner d items cs hlen hall ih =>
    -- facts about one child position
    have child : ∀ (c : Nat) (q : List Nat) (j : Nat), ValidElem (inner items cs) (c :: q) j →
        ∃ ch, cs[c]? = some ch ∧ ValidElem ch q j ∧ idxOf ch q j < size ch ∧
          idxOf (inner items cs) (c :: q) j = ((cs.take c).map (fun c => size c)).sum + c + idxOf ch q j := by
      intro c q j h
      obtain ⟨m, hm, hj⟩ := h
      simp only [nodeAt?_inner_cons] at hm
      cases hc : cs[c]? with
      | none => simp [hc] at hm
      | some ch =>
        simp only [hc] at hm
        have hv : ValidElem ch q j := ⟨m, hm, hj⟩
        exact ⟨ch, rfl, hv, idxOf_lt_size (hall ch (List.mem_of_getElem? hc)) q j hv, by simp [hc]⟩
    intro p i p' i' h h' he
    cases p with
    | nil =>
      cases p' with
      | nil =>
        simp only [idxOf_inner_nil] at he
        refine ⟨rfl, ?_⟩
        rcases Nat.lt_trichotomy i i' with hlt | heq | hgt
        · have := sum_take_mono cs (a := i+1) (b := i'+1) (by omega); omega
        · exact heq
        · have := sum_take_mono cs (a := i'+1) (b := i+1) (by omega); omega
      | cons c q =>
        obtain ⟨ch, hc, _, hlt, hidx⟩ := child c q i' h'
        rw [hidx, idxOf_inner_nil] at he
        have hs := sum_take_succ cs c ch hc
        by_cases hci : c ≤ i
        · have := sum_take_mono cs (a := c+1) (b := i+1) (by omega); omega
        · have := sum_take_mono cs (a := i+1) (b := c) (by omega); omega
    | cons c q =>
      obtain ⟨ch, hc, hv, hlt, hidx⟩ := child c q i h
      cases p' with
      | nil =>
        rw [hidx, idxOf_inner_nil] at he
        have hs := sum_take_succ cs c ch hc
        by_cases hci : c ≤ i'
        · have := sum_take_mono cs (a := c+1) (b := i'+1) (by omega); omega
        · have := sum_take_mono cs (a := i'+1) (b := c) (by omega); omega
      | cons c' q' =>
        obtain ⟨ch', hc', hv', hlt', hidx'⟩ := child c' q' i' h'
        rw [hidx, hidx'] at he
        have hs := sum_take_succ cs c ch hc
        have hs' := sum_take_succ cs c' ch' hc'
        rcases Nat.lt_trichotomy c c' with hlt2 | heq | hgt2
        · have := sum_take_mono cs (a := c+1) (b := c') (by omega); omega
        · subst heq
          rw [hc] at hc'; cases hc'
          have := ih ch (List.mem_of_getElem? hc) q i q' i' hv hv' (by omega)
          exact ⟨by rw [this.1], this.2⟩
        · have := sum_take_mono cs (a := c'+1) (b := c) (by omega); omega

/-! ### traversal -/

theorem validElem_elemAt {r : Node α} {path : List Nat} {i : Nat} (h : ValidElem r path i) :
    ∃ x, elemAt? r ⟨path, i⟩ = some x := by
  obtain ⟨m, hm, hi⟩ := h
  simp only [elemAt?, hm]
  cases m with
  | leaf cap items => exact getElem?_of_lt (by simpa [Node.count, Node.items] using hi)
  | inner items cs => exact getElem?_of_lt (by simpa [Node.count, Node.items] using hi)

theorem validElem_ne_end {r : Node α} {q : Pos} (h : ValidElem r q.path q.idx) : q ≠ endPos r := by
  intro he
  obtain ⟨m, hm, hi⟩ := h
  rw [he] at hm hi
  simp [endPos] at hm hi
  subst hm; omega

/-- the forward loop started at a position with index `k` yields the in-order list from `k` on -/
theorem traverse_go {d : Nat} {r : Node α} (hb : Bal d r) (count : Nat) (fuel : Nat) (q : Pos)
    (hv : ValidPos r q) (hf : size r ≤ idxOf r q.path q.idx + fuel) :
    Tree.traverse.go ⟨some r, count⟩ fuel q = (toList r).drop (idxOf r q.path q.idx) := by
  induction fuel generalizing q with
  | zero =>
    rcases hv with hv | rfl
    · have := idxOf_lt_size hb q.path q.idx hv; omega
    · simp [Tree.traverse.go, idxOf_endPos hb, size]
  | succ f ih =>
    rcases hv with hv | rfl
    · have hne := validElem_ne_end hv
      obtain ⟨x, hx⟩ := validElem_elemAt hv
      have hx' := elemAt_toList hb q.path q.idx x hx
      obtain ⟨hn1, hn2⟩ := next_spec hb q.path q.idx hv
      simp only [Tree.traverse.go, Tree.endPos, hne, if_false, Tree.elemAt?, hx, Tree.next]
      rw [ih (next r q) hn2 (by rw [hn1]; omega), hn1]
      have hlt : idxOf r q.path q.idx < (toList r).length := lt_of_getElem? hx'
      rw [List.drop_eq_getElem_cons hlt]
      congr 1
      rw [List.getElem?_eq_getElem hlt] at hx'; exact (Option.some.inj hx').symm
    · simp [Tree.traverse.go, Tree.endPos, idxOf_endPos hb, size]

/-- forward traversal with the modelled iterator = in-order list -/
theorem traverse_eq {d : Nat} {r : Node α} (hb : Bal d r) (count : Nat) (hcount : count = size r) :
    Tree.traverse ⟨some r, count⟩ = toList r := by
  obtain ⟨h1, h2⟩ := beginPos_spec hb
  unfold Tree.traverse
  simp only [Tree.beginPos]
  rw [traverse_go hb count count (beginPos r) h2 (by omega), h1]; simp

/-- the backward loop started at a position with index `k` yields the first `k` elements in reverse -/
theorem traverseBack_go {d : Nat} {r : Node α} (hb : Bal d r) (count : Nat) (fuel : Nat) (q : Pos)
    (hv : ValidPos r q) (hf : idxOf r q.path q.idx ≤ fuel) :
    Tree.traverseBack.go ⟨some r, count⟩ fuel q = ((toList r).take (idxOf r q.path q.idx)).reverse := by
  have hslot : ∃ m, nodeAt? r q.path = some m ∧ q.idx ≤ m.count := by
    rcases hv with hv | rfl
    · exact hv.slot
    · exact ⟨r, by simp [endPos], by simp [endPos]⟩
  obtain ⟨m, hm, hi⟩ := hslot
  obtain ⟨hb1, hb2⟩ := beginPos_spec hb
  induction fuel generalizing q m with
  | zero =>
    have : idxOf r q.path q.idx = 0 := by omega
    simp [Tree.traverseBack.go, this]
  | succ f ih =>
    by_cases hz : idxOf r q.path q.idx = 0
    · -- index 0: the position is `GetBegin()`
      have hqb : q = beginPos r := by
        -- both have index 0 and are valid positions; positions with equal index are equal only up to the model's
        -- normal form, so decide by cases instead: an element position with index 0 is reached from begin
        rcases hv with hv | rfl
        · rcases hb2 with hbv | hbe
          · have := idxOf_inj hb q.path q.idx _ _ hv hbv (by rw [hz, hb1])
            cases q; cases hq : beginPos r; simp_all
          · have := idxOf_lt_size hb q.path q.idx hv
            have h0 := idxOf_endPos hb
            rw [← hbe, hb1] at h0; omega
        · rcases hb2 with hbv | hbe
          · have := idxOf_lt_size hb _ _ hbv
            have h0 := idxOf_endPos hb
            omega
          · exact hbe.symm
      simp [Tree.traverseBack.go, Tree.beginPos, hqb, hb1]
    · have hpos : 0 < idxOf r q.path q.idx := by omega
      obtain ⟨hp1, hp2⟩ := prev_spec hb q.path q.idx hm hi hpos
      have hne : q ≠ beginPos r := by intro he; rw [he, hb1] at hz; exact hz rfl
      obtain ⟨x, hx⟩ := validElem_elemAt hp2
      have hx' := elemAt_toList hb _ _ x hx
      simp only [Tree.traverseBack.go, Tree.beginPos, hne, if_false, Tree.prev, Tree.elemAt?]
      have hpq : (⟨(prev r q).path, (prev r q).idx⟩ : Pos) = prev r q := rfl
      have hqq : (⟨q.path, q.idx⟩ : Pos) = q := rfl
      rw [hqq] at hx hp1 hp2
      simp only [hx]
      obtain ⟨m', hm', hi'⟩ := hp2
      rw [ih (prev r q) (Or.inl ⟨m', hm', hi'⟩) (by omega) m' hm' (Nat.le_of_lt hi')]
      have hlt : idxOf r (prev r q).path (prev r q).idx < (toList r).length := lt_of_getElem? hx'
      have : idxOf r q.path q.idx = idxOf r (prev r q).path (prev r q).idx + 1 := by omega
      rw [this, List.take_add_one, hx']
      simp

end Momo.BTree
