import Momo.Proof.HashTableMerge
/-!
  C01/C11, part 9: the abstract side — association lists without duplicate keys — and the glue
  between "the traversal is a rearrangement of the abstract contents" and lookups.
-/
namespace Momo.HT
open Momo Momo.Probe

/-- keys of an association list -/
def akeys (l : List Item) : List Nat := l.map (·.key)

/-- the abstract map's lookup -/
def lookup (l : List Item) (k : Nat) : Option Nat := (l.find? (fun it => it.key == k)).map (·.val)

/-- what `Find` reports: the value stored at the position `pvFind` returns (as the harness reads it) -/
def findVal (sp : Spec) (hf : Nat → Nat) (t : Table) (k : Nat) : Option Nat :=
  match findTable sp hf t k with
  | some (gi, b, j) => some ((bkt sp (t.gens.getD gi default).bs b).items.getD j default).val
  | none => none

theorem find?_of_mem_nodup (l : List Item) (it : Item) (hn : (akeys l).Nodup) (h : it ∈ l) :
    l.find? (fun x => x.key == it.key) = some it := by
  induction l with
  | nil => simp at h
  | cons a as ih =>
    simp only [akeys, List.map_cons, List.nodup_cons] at hn
    rcases List.mem_cons.mp h with rfl | h'
    · simp
    · have hne : a.key ≠ it.key := by
        intro e; exact hn.1 (e ▸ List.mem_map.mpr ⟨it, h', rfl⟩)
      simp only [List.find?_cons, beq_iff_eq, hne, if_false]
      have : (a.key == it.key) = false := by simpa using hne
      rw [this]
      exact ih hn.2 h'

theorem lookup_of_mem (l : List Item) (it : Item) (hn : (akeys l).Nodup) (h : it ∈ l) :
    lookup l it.key = some it.val := by
  unfold lookup; rw [find?_of_mem_nodup l it hn h]; rfl

theorem lookup_none (l : List Item) (k : Nat) (h : ∀ x ∈ l, x.key ≠ k) : lookup l k = none := by
  unfold lookup
  have : l.find? (fun it => it.key == k) = none := by
    rw [List.find?_eq_none]; intro x hx; simpa using h x hx
  rw [this]; rfl

theorem lookup_perm (l l' : List Item) (k : Nat) (hn : (akeys l').Nodup) (hp : l.Perm l') :
    lookup l k = lookup l' k := by
  have hn' : (akeys l).Nodup := nodup_keys_perm hp hn
  by_cases h : ∃ x ∈ l, x.key = k
  · obtain ⟨x, hx, rfl⟩ := h
    rw [lookup_of_mem l x hn' hx, lookup_of_mem l' x hn ((hp.mem_iff).mp hx)]
  · have h1 : ∀ x ∈ l, x.key ≠ k := fun x hx e => h ⟨x, hx, e⟩
    have h2 : ∀ x ∈ l', x.key ≠ k := fun x hx e => h ⟨x, (hp.mem_iff).mpr hx, e⟩
    rw [lookup_none l k h1, lookup_none l' k h2]

/-- the item `pvFind` points at, as the harness reads it -/
theorem found_item (sp : Spec) (hf : Nat → Nat) (t : Table) (k gi b j : Nat)
    (h : findTable sp hf t k = some (gi, b, j)) :
    ∃ g, t.gens[gi]? = some g ∧
      (bkt sp g.bs b).items[j]? = some ((bkt sp (t.gens.getD gi default).bs b).items.getD j default) ∧
      ((bkt sp (t.gens.getD gi default).bs b).items.getD j default).key = k ∧
      ((bkt sp (t.gens.getD gi default).bs b).items.getD j default) ∈ traverse t := by
  obtain ⟨g, it, hg, hj, hk⟩ := findTable_some sp hf t k gi b j h
  have e1 : t.gens.getD gi default = g := by simp [List.getD_eq_getElem?_getD, hg]
  have e2 : (bkt sp g.bs b).items.getD j default = it := by simp [List.getD_eq_getElem?_getD, hj]
  rw [e1, e2]
  refine ⟨g, hg, hj, hk, (mem_traverse t it).mpr ⟨g, List.mem_of_getElem? hg, ?_⟩⟩
  exact (mem_genItems sp g it).mpr ⟨b, List.mem_of_getElem? hj⟩

/-- **every lookup returns the value the abstract map holds** -/
theorem findVal_eq (sp : Spec) (hf : Nat → Nat) (t : Table) (hI : TableInv sp hf t) (k : Nat) :
    findVal sp hf t k = lookup (traverse t) k := by
  unfold findVal
  cases h : findTable sp hf t k with
  | none =>
    simp only
    rw [lookup_none _ _ (findTable_none sp hf t hI k h)]
  | some pos =>
    obtain ⟨gi, b, j⟩ := pos
    simp only
    obtain ⟨g, _, _, hk, hmem⟩ := found_item sp hf t k gi b j h
    rw [← hk, lookup_of_mem _ _ hI.core.nodup hmem]

theorem mem_akeys_perm {l l' : List Item} (hp : l.Perm l') (k : Nat) : k ∈ akeys l ↔ k ∈ akeys l' :=
  (hp.map (·.key)).mem_iff

/-- removing the item with a given key from a duplicate-free association list -/
theorem perm_filter_of_cons (A l' : List Item) (it : Item) (hn : (akeys A).Nodup)
    (hp : (it :: l').Perm A) : l'.Perm (A.filter (fun x => x.key != it.key)) := by
  have hn' : (akeys (it :: l')).Nodup := nodup_keys_perm hp hn
  simp only [akeys, List.map_cons, List.nodup_cons] at hn'
  have h1 : ((it :: l').filter (fun x => x.key != it.key)).Perm (A.filter (fun x => x.key != it.key)) :=
    hp.filter _
  have h2 : (it :: l').filter (fun x => x.key != it.key) = l' := by
    simp only [List.filter_cons, bne_self_eq_false, Bool.false_eq_true, if_false]
    rw [List.filter_eq_self]
    intro x hx
    have : x.key ≠ it.key := fun e => hn'.1 (e ▸ List.mem_map.mpr ⟨x, hx, rfl⟩)
    simpa using this
  rw [h2] at h1; exact h1

theorem filter_congr_keys (l B B' : List Item) (hp : B.Perm B') :
    l.filter (fun x => decide (x.key ∈ B.map (·.key))) = l.filter (fun x => decide (x.key ∈ akeys B')) ∧
    l.filter (fun x => !decide (x.key ∈ B.map (·.key))) = l.filter (fun x => !decide (x.key ∈ akeys B')) := by
  have : ∀ x : Item, decide (x.key ∈ B.map (·.key)) = decide (x.key ∈ akeys B') := by
    intro x
    have := mem_akeys_perm hp x.key
    unfold akeys at this
    simp only [akeys]; exact decide_eq_decide.mpr this
  constructor
  · apply List.filter_congr; intro x _; exact this x
  · apply List.filter_congr; intro x _; rw [this x]

end Momo.HT
