import Momo.Proof.ValXfer
/-!
  Move assignment of the stdish wrappers (C14): `mNested = pvCreate…(std::move(right), alloc)` with
  `alloc = (propagate ? right : *this).get_allocator()`; steal when the allocators are equal, element-wise otherwise.
-/
namespace Momo.Val

/-- the steps after the temporary has been created -/
def assignTail (cfg : Cfg) (i : Nat) : List Prim :=
  if cfg.k.arrayStyle then [.destroy i, .move i cfg.t1, .destroy cfg.t1]
  else [.move cfg.t1 cfg.t2, .swap cfg.t1 i, .destroy cfg.t1, .destroy cfg.t2]

theorem assignTail_eq (cfg : Cfg) (i : Nat) (hiT : i ≠ tmpT cfg) :
    assignTail cfg i = nativeMoveAssign cfg i (tmpT cfg) ++ [Prim.destroy (tmpT cfg)] := by
  unfold assignTail tmpT nativeMoveAssign
  unfold tmpT at hiT
  rcases Bool.eq_false_or_eq_true cfg.k.arrayStyle with hk | hk
  · simp only [hk, if_true] at hiT ⊢
    simp [hiT]
  · simp [hk]

theorem wMoveAssign_expand (cfg : Cfg) (w : World) (i j : Nat) (a : Mgr) (lay : Lay) (keep : Nat) (hij : i ≠ j)
    (ha : allocOf w (if cfg.isEmpty || cfg.pocma then j else i) = some a) :
    expand cfg w (.wMoveAssign i j lay keep) = (createFrom w (tmpT cfg) j a lay keep).map (· ++ assignTail cfg i) := by
  simp only [expand, hij, if_false, ha, tmpT, assignTail]
  rcases Bool.eq_false_or_eq_true cfg.k.arrayStyle with hk | hk <;> simp [hk]

/-- **`i = std::move(j)` of a stdish wrapper**, `a` = the allocator the propagation trait selects -/
theorem wMoveAssign_spec (cfg : Cfg) {w w1 : World} {evs : List Ev} (wf : WF w) (i j : Nat) (hij : i ≠ j)
    (ci cj : Cont) (mi mj : Mgr) (hi : w.objs i = some ci) (hj : w.objs j = some cj)
    (hmi : ci.mgr = some mi) (hmj : cj.mgr = some mj) (lay : Lay) (keep : Nat) (a : Mgr)
    (ha : a = if cfg.isEmpty || cfg.pocma then mj else mi)
    (h : step cfg w (.wMoveAssign i j lay keep) = some (w1, evs)) :
    WF w1 ∧
    (mj = a →
      w1.objs i = some cj ∧ contents w1.heap cj = contents w.heap cj ∧ w1.objs j = some (nullOf cfg.k cj) ∧
      (cfg.k.movable = true → ∀ e, Ev.copy e ∉ evs) ∧ (∀ m h, Ev.alloc m h ∉ evs) ∧
      (∀ m h, Ev.free m h ∈ evs → m = mi ∧ h ∈ ci.owned)) ∧
    (mj ≠ a →
      (∃ t, w1.objs i = some t ∧ t.mgr = some a ∧ usable cfg.k t = true ∧
          contents w1.heap t = lay.inl ++ lay.cells.flatten ∧ (∀ h ∈ t.owned, w.heap.next ≤ h)) ∧
      (∃ cj', w1.objs j = some cj' ∧ cj'.mgr = some mj ∧ cj'.aux = cj.aux ∧ contents w1.heap cj' = []) ∧
      (∃ rest, evs.filter isXfer = xferEvs cfg.k (contents w.heap cj) ++ rest) ∧
      (cfg.k.movable = true → ∀ e, Ev.copy e ∉ evs) ∧
      (∀ m h, Ev.alloc m h ∈ evs → m = a ∧ w.heap.next ≤ h) ∧
      (∀ m h, Ev.free m h ∈ evs → (m = mj ∧ h ∈ cj.body) ∨ (m = mi ∧ h ∈ ci.owned))) ∧
    (∀ x c, x ≠ i → x ≠ j → x ≠ tmpT cfg → w.objs x = some c → w1.objs x = some c ∧ contents w1.heap c = contents w.heap c) := by
  have wf1 := (step_sound cfg wf _ h).1
  have hal : allocOf w (if cfg.isEmpty || cfg.pocma then j else i) = some a := by
    rw [ha]; split <;> simp [allocOf, hi, hj, hmi, hmj]
  have halj : allocOf w j = some mj := by simp [allocOf, hj, hmj]
  simp only [step, wMoveAssign_expand cfg w i j a lay keep hij hal] at h
  cases hc : createFrom w (tmpT cfg) j a lay keep with
  | none => simp [hc] at h
  | some qs =>
    simp only [hc, Option.map_some] at h
    obtain ⟨wA, e1, e2, hA, hB, rfl⟩ := run_append h
    simp only [createFrom, halj] at hc
    have hji : j ≠ i := fun e => hij e.symm
    by_cases hst : mj = a
    · -- equal allocators: the nested container is moved
      simp only [hst, if_true, Option.some.injEq] at hc
      subst hc
      rw [run_single] at hA
      obtain ⟨wfA, _⟩ := prim_sound cfg.k wf _ hA
      obtain ⟨s, hs, hT, rfl, rfl⟩ := move_inv hA
      rw [hj] at hs; cases hs
      have hiT : i ≠ tmpT cfg := by intro e; rw [← e, hi] at hT; cases hT
      have hjT : j ≠ tmpT cfg := by intro e; rw [← e, hj] at hT; cases hT
      rw [assignTail_eq cfg i hiT] at hB
      obtain ⟨g1, _, g3, g4, g5, _, g7, g8, g9⟩ := assignFromTemp_spec cfg wfA i (tmpT cfg) hiT ci cj
        (by simp [upd, hiT, hij, hi]) (by simp [upd]) hB
      refine ⟨wf1, fun _ => ⟨g1, g3, ?_, ?_, ?_, ?_⟩, fun hne => absurd hst hne, ?_⟩
      · rw [g4 j hji hjT]; simp [upd, hjT]
      · intro hm e he
        rcases List.mem_append.mp he with he | he
        · exact copy_not_mem_relocEvs cfg.k hm _ e he
        · exact g7 hm e he
      · intro m h he
        rcases List.mem_append.mp he with he | he
        · exact alloc_not_mem_relocEvs cfg.k _ m h he
        · exact g8 m h he
      · intro m h he
        rcases List.mem_append.mp he with he | he
        · exact absurd he (free_not_mem_relocEvs cfg.k _ m h)
        · obtain ⟨q1, q2⟩ := g9 m h he
          rw [hmi] at q1; cases q1; exact ⟨rfl, q2⟩
      · intro x c hxi hxj hxT hc
        have hxA : (upd (upd w.objs j (some (nullOf cfg.k cj))) (tmpT cfg) (some cj)) x = some c := by
          simp [upd, hxT, hxj, hc]
        exact ⟨by rw [g4 x hxi hxT]; exact hxA, g5 x c hxi hxA⟩
    · -- unequal allocators: element by element
      simp only [hst, if_false, Option.some.injEq] at hc
      subst hc
      obtain ⟨wfA, hT, hjT, ⟨t, htA, htm, htu, htc, htf⟩, ⟨cj', hcA, hcm, hca, _, hcc⟩, hoth, hcon, hx, hAl, hFr⟩ :=
        xferUnequal_spec cfg.k wf (tmpT cfg) j a mj lay keep cj hj hmj hA
      have hiT : i ≠ tmpT cfg := by intro e; rw [← e, hi] at hT; cases hT
      have hAi : wA.objs i = some ci := by rw [hoth i hij hiT]; exact hi
      rw [assignTail_eq cfg i hiT] at hB
      obtain ⟨g1, _, g3, g4, g5, g6, g7, g8, g9⟩ := assignFromTemp_spec cfg wfA i (tmpT cfg) hiT ci t hAi htA hB
      have hfresh_ci : ∀ h ∈ ci.owned, h < w.heap.next := fun h hh => wf.owned_lt hi hh
      refine ⟨wf1, fun he => absurd he hst, fun _ => ⟨⟨t, g1, htm, htu, by rw [g3, htc], htf⟩, ⟨cj', ?_, hcm, hca, ?_⟩,
        ⟨(e2.filter isXfer), by rw [filter_isXfer_append, hx]⟩, ?_, ?_, ?_⟩, ?_⟩
      · rw [g4 j hji hjT]; exact hcA
      · rw [g5 j cj' hji hcA]; exact hcc
      · intro hmv e he
        rcases List.mem_append.mp he with he | he
        · have : Ev.copy e ∈ e1.filter isXfer := List.mem_filter.mpr ⟨he, rfl⟩
          rw [hx] at this
          obtain ⟨x, _, hxe⟩ := List.mem_map.mp this
          simp [hmv] at hxe
        · exact g7 hmv e he
      · intro m h he
        rcases List.mem_append.mp he with he | he
        · exact hAl m h he
        · exact absurd he (g8 m h)
      · intro m h he
        rcases List.mem_append.mp he with he | he
        · exact Or.inl (hFr m h he)
        · obtain ⟨q1, q2⟩ := g9 m h he
          rw [hmi] at q1; cases q1; exact Or.inr ⟨rfl, q2⟩
      · intro x c hxi hxj hxT hc
        have hxA : wA.objs x = some c := by rw [hoth x hxj hxT]; exact hc
        exact ⟨by rw [g4 x hxi hxT]; exact hxA, by rw [g5 x c hxi hxA]; exact hcon x c hxj hxT hc⟩

end Momo.Val
