import Momo.Proof.ArrFaultBasic
/-!
  C04 / C10, lemmas part 5: the representation invariant of the fault-free results for *arbitrary* cells (live or
  moved-from), and the two summary theorems over all operations (`strong_step`, `basic_step`).
-/
namespace Momo.ArrF
set_option linter.unusedSimpArgs false
set_option linter.unusedVariables false
open Momo Momo.Arr
open FM (throw tryCatch)
variable {α β γ : Type}

theorem addBackGrowCrt_wf (cfg : Cfg) (s : State α) (mv : Bool) (item : Ref α) :
    WF cfg (addBackGrowCrt cfg s mv item).1 := by
  unfold addBackGrowCrt
  have hge := growCapacity_ge cfg.growOnReserve (capacity cfg s) (s.cells.length + 1) false false
  apply (reset_wf cfg s _ _ _).1
  split <;> simp [taken_length] <;> omega

theorem addBackCrt_wf (cfg : Cfg) (s : State α) (mv : Bool) (item : Ref α) (w : WF cfg s) :
    WF cfg (addBackCrt cfg s mv item).1 := by
  unfold addBackCrt
  split
  · exact wf_with_cells w _ (by simp [taken_length]; omega)
  · exact addBackGrowCrt_wf cfg s mv item

theorem addBackCopy_wf (cfg : Cfg) (s : State α) (item : Ref α) (w : WF cfg s) :
    WF cfg (addBackCopy cfg s item).1 := by
  unfold addBackCopy
  split
  · exact wf_with_cells w _ (by simp; omega)
  · split
    · obtain ⟨w', hc⟩ := grow_wf cfg s (s.cells.length + 1) false w (by omega)
      have := grow_cells cfg s (s.cells.length + 1) false (by omega)
      exact wf_with_cells w' _ (by simp [this]; omega)
    · exact addBackGrowCrt_wf cfg s false item

theorem addBackMoveOp_wf (cfg : Cfg) (s : State α) (item : Ref α) (w : WF cfg s) :
    WF cfg (addBackMoveOp cfg s item).1 := by
  unfold addBackMoveOp
  split
  · exact wf_with_cells w _ (by simp [moveFrom_length]; omega)
  · split
    · obtain ⟨w', hc⟩ := grow_wf cfg s (s.cells.length + 1) false w (by omega)
      have := grow_cells cfg s (s.cells.length + 1) false (by omega)
      exact wf_with_cells w' _ (by simp [moveFrom_length, this]; omega)
    · exact addBackGrowCrt_wf cfg s true item

theorem setCount_wf (cfg : Cfg) (s : State α) (count : Nat) (item : Ref α) (w : WF cfg s) :
    WF cfg (setCount cfg s count item).1 := by
  unfold setCount
  split
  · exact wf_with_cells w _ (by simp; have := w.count_le; omega)
  · split
    · exact wf_with_cells w _ (by simp; omega)
    · have hge := growCapacity_ge cfg.growOnReserve (capacity cfg s) count true false
      exact (reset_wf cfg s _ _ (by simp; omega)).1

theorem reserve_wf (cfg : Cfg) (s : State α) (n : Nat) (w : WF cfg s) : WF cfg (reserve cfg s n).1 := by
  unfold reserve
  split
  · exact (grow_wf cfg s n true w (by have := w.count_le; omega)).1
  · exact w

theorem shrink_wf (cfg : Cfg) (s : State α) (n : Nat) (w : WF cfg s) : WF cfg (shrink cfg s n).1 := by
  unfold shrink
  split
  · exact w
  · exact (moveTo_wf cfg s _ _ w (Nat.le_max_right _ _) (Nat.le_max_right _ _)).1

theorem newFrom_wf (cfg : Cfg) (n : Nat) (xs : Cells α) (o : Bool) (h : xs.length ≤ n) :
    WF cfg { (withCells (newCap cfg n) (fun _ => xs)).1 with oracle := o } := by
  unfold withCells newCap
  split
  · rename_i hn
    refine ⟨by simpa [capacity] using h, ?_, ?_, ?_⟩ <;> simp
    · intro _; exact hn
    · omega
  · rename_i hn
    by_cases hp : cfg.intCap > 0
    · refine ⟨by simp [State.init, capacity, hp]; omega, ?_, ?_, ?_⟩ <;> simp [State.init, hp]
    · have h0 : xs.length = 0 := by omega
      refine ⟨by simp [State.init, capacity, hp, h0], ?_, ?_, ?_⟩ <;> simp [State.init, hp]
      omega

theorem copyAssign_wf (cfg : Cfg) (dst src : State α) : WF cfg (copyAssign cfg dst src).1 := by
  unfold copyAssign copyCtor
  exact newFrom_wf cfg _ _ _ (by simp)

/-- preconditions of the operations (the `MOMO_CHECK`s of the interface) -/
def FOp.pre (cfg : Cfg) (s : State α) : FOp α → Prop
  | .insertCrt index _ _ => index ≤ s.cells.length
  | .insertMove index _ => index ≤ s.cells.length
  | .insertN index _ _ => index ≤ s.cells.length
  | .insertRange index _ => index ≤ s.cells.length
  | .remove index count => index + count ≤ s.cells.length
  | _ => True

/-- how many items an operation may add -/
def FOp.maxAdd : FOp α → Nat
  | .insertCrt .. => 1
  | .insertMove .. => 1
  | .insertN _ count _ => count
  | .insertRange _ xs => xs.length
  | _ => 0

theorem valid_of_strong {cfg : Cfg} {rest : List Nat} {k : Nat} {y : Sys α} {s' : State α} (w : WF cfg s')
    (h : y.arr = s' ∧ Frame cfg rest y ∧ y.objs = s'.cells.length + k ∧ y.bad = false) : Valid cfg rest k y :=
  ⟨h.1 ▸ w, h.2.1, by rw [h.2.2.1, h.1], h.2.2.2⟩

/-- **strong operations, every fault schedule**: success with the fault-free state (valid, ledger exact) or an
    exception with array and ledger unchanged -/
theorem strong_step (cfg : Cfg) (thr : Thr) (rest : List Nat) (k : Nat) (op : FOp α) (hop : op.strong = true)
    (x : Sys α) (v : Valid cfg rest k x) (hpre : op.pre cfg x.arr) :
    Post (stepF cfg thr op) x
      (fun _ y => y.arr = (pureStep cfg x.arr op).1 ∧ Valid cfg rest k y)
      (fun y => y.core = x.core) := by
  cases op with
  | addBackCopy item =>
    apply Post.mono (addBackCopyF_strong cfg thr rest k item x v.wf v.owns) _ (fun _ h => h)
    exact fun _ y h => ⟨h.1, valid_of_strong (addBackCopy_wf cfg x.arr item v.wf) h⟩
  | addBackMove item =>
    apply Post.mono (addBackMoveF_strong cfg thr rest k item x v.wf v.owns) _ (fun _ h => h)
    exact fun _ y h => ⟨h.1, valid_of_strong (addBackMoveOp_wf cfg x.arr item v.wf) h⟩
  | addBackCrt mv item =>
    apply Post.mono (addBackCrtF_strong cfg thr rest k mv item x v.wf v.owns) _ (fun _ h => h)
    exact fun _ y h => ⟨h.1, valid_of_strong (addBackCrt_wf cfg x.arr mv item v.wf) h⟩
  | setCount count item =>
    apply Post.mono (setCountF_strong cfg thr rest k count item x v.wf v.owns) _ (fun _ h => h)
    exact fun _ y h => ⟨h.1, valid_of_strong (setCount_wf cfg x.arr count item v.wf) h⟩
  | reserve n =>
    apply Post.mono (reserveF_strong cfg thr rest k n x v.wf v.owns) _ (fun _ h => h)
    exact fun _ y h => ⟨h.1, valid_of_strong (reserve_wf cfg x.arr n v.wf) h⟩
  | shrink n =>
    apply Post.mono (shrinkF_strong cfg thr rest k n x v.wf v.owns) _ (fun _ h => h)
    exact fun _ y h => ⟨h.1, valid_of_strong (shrink_wf cfg x.arr n v.wf) h⟩
  | copyAssign src =>
    apply Post.mono (copyAssignF_strong cfg thr rest k src x v.owns) _ (fun _ h => h)
    exact fun _ y h => ⟨h.1, valid_of_strong (copyAssign_wf cfg x.arr src) h⟩
  | insertCrt _ _ _ => simp [FOp.strong] at hop
  | insertMove _ _ => simp [FOp.strong] at hop
  | insertN _ _ _ => simp [FOp.strong] at hop
  | insertRange _ _ => simp [FOp.strong] at hop
  | remove _ _ => simp [FOp.strong] at hop
  | removeIf _ => simp [FOp.strong] at hop

/-- **every operation, every fault schedule** keeps the array valid and the ledger exact; a completed operation
    yields the fault-free state; a failed one leaves the count between the old and the intended one -/
theorem basic_step (cfg : Cfg) (thr : Thr) (rest : List Nat) (k : Nat) (op : FOp α)
    (x : Sys α) (v : Valid cfg rest k x) (hpre : op.pre cfg x.arr) :
    Post (stepF cfg thr op) x
      (fun _ y => y.arr = (pureStep cfg x.arr op).1 ∧ Valid cfg rest k y)
      (fun y => Valid cfg rest k y ∧ x.arr.cells.length ≤ y.arr.cells.length ∧
        y.arr.cells.length ≤ x.arr.cells.length + op.maxAdd) := by
  by_cases hop : op.strong = true
  · apply Post.mono (strong_step cfg thr rest k op hop x v hpre) (fun _ _ h => h)
    intro y hy
    have := (core_eq_iff _ _).mp hy
    exact ⟨valid_of_core v hy, by rw [this.1]; omega, by rw [this.1]; omega⟩
  · cases op with
    | insertCrt index mv item => exact insertCrtF_basic cfg thr rest k index mv item x v hpre
    | insertMove index item => exact insertMoveF_basic cfg thr rest k index item x v hpre
    | insertN index count item => exact insertNF_basic cfg thr rest k index count item x v hpre
    | insertRange index xs => exact insertRangeF_basic cfg thr rest k index xs x v hpre
    | remove index count => exact removeF_basic cfg thr rest k index count x v hpre
    | removeIf p =>
      show Post (removeIfF cfg thr p >>= fun _ => pure ()) x _ _
      apply Post.bind' _ _ (removeIfF_basic cfg thr rest k p x v)
      · rintro y ⟨vy, hl⟩
        exact ⟨vy, by omega, by omega⟩
      · rintro r y ⟨ya, _, vy⟩
        simp only [post_pure]
        exact ⟨ya, vy⟩
    | addBackCopy _ => simp [FOp.strong] at hop
    | addBackMove _ => simp [FOp.strong] at hop
    | addBackCrt _ _ => simp [FOp.strong] at hop
    | setCount _ _ => simp [FOp.strong] at hop
    | reserve _ => simp [FOp.strong] at hop
    | shrink _ => simp [FOp.strong] at hop
    | copyAssign _ => simp [FOp.strong] at hop

/-- **constructors, every fault schedule**: `Array(const Array&, bool shrink)`, `Array(count, item)`,
    `Array(begin, end)`: the new object is the fault-free one and the ledger gained exactly its block and its items,
    or (exception) the ledger is as before: nothing allocated, nothing constructed -/
theorem ctor_step (cfg : Cfg) (thr : Thr) (cap0 : Nat) (xs : List (Cell α)) (x : Sys α) (hx : xs.length ≤ cap0) :
    Post (newFromF cfg thr cap0 xs) x
      (fun _ y => y.arr = (withCells (newCap cfg cap0) (fun _ => xs)).1 ∧ WF cfg y.arr ∧
        y.blocks = ownBlocks cfg y.arr ++ x.blocks ∧ y.objs = x.objs + y.arr.cells.length ∧ y.bad = x.bad)
      (fun y => y.blocks = x.blocks ∧ y.objs = x.objs ∧ y.bad = x.bad) := by
  apply Post.mono (newFromF_spec cfg thr cap0 xs x) _ (fun _ h => h)
  rintro _ y ⟨ya, yb, yo, ybad⟩
  have w := newFrom_wf cfg cap0 xs (withCells (newCap cfg cap0) (fun _ => xs)).1.oracle hx
  refine ⟨ya, ya ▸ w, yb, ?_, ybad⟩
  rw [yo, ya]; rfl

end Momo.ArrF
