import Momo.Proof.MMapInv
/-!
  C08, part 5: traversal and the std-style wrapper.
  * `MM.pairs` (the storage-order sequence of pairs) contains every pair `(k, v)` exactly as often as
    `v` occurs in the abstract value list of `k`; its length is `mValueCount`;
  * the pair iterator (`GetBegin`, `operator++` with `pvMove` skipping value-less keys) enumerates `pairs`;
  * two multimaps have the same multiset of pairs iff their abstract maps agree key by key up to the
    order of the values — value-less keys play no role;
  * the wrapper's `count`, `equal_range`, `erase`, `erase_if`, `operator==` are functions of that multiset.
-/
namespace Momo.MMap
open Momo

/-! ### counting lemmas -/

theorem count_pair_map (k k' v : Nat) (l : List Nat) :
    (l.map (fun x => (k', x))).count (k, v) = if k' = k then l.count v else 0 := by
  induction l with
  | nil => simp
  | cons x xs ih =>
    simp only [List.map_cons, List.count_cons, ih]
    by_cases e : k' = k
    · subst e; simp
    · have : ((k', x) == (k, v)) = false := by simp [e]
      simp [e, this]

theorem count_filter_ite {α : Type} [BEq α] [LawfulBEq α] (p : α → Bool) (a : α) (l : List α) :
    (l.filter p).count a = if p a = true then l.count a else 0 := by
  induction l with
  | nil => simp
  | cons x xs ih =>
    by_cases hx : p x = true
    · simp only [List.filter_cons, hx, if_true, List.count_cons, ih]
      by_cases e : x == a
      · have : x = a := by simpa using e
        subst this; simp [hx]
      · simp [e]
    · have hx' : p x = false := by simpa using hx
      simp only [List.filter_cons, hx', Bool.false_eq_true, if_false]
      rw [ih]
      by_cases e : x == a
      · have : x = a := by simpa using e
        subst this; simp [hx']
      · simp [List.count_cons, e]

theorem perm_of_count_le {α : Type} [BEq α] [LawfulBEq α] :
    ∀ (l₁ l₂ : List α), (∀ a, l₁.count a ≤ l₂.count a) → l₁.length = l₂.length → l₁.Perm l₂ := by
  intro l₁
  induction l₁ with
  | nil => intro l₂ _ hl; have : l₂ = [] := List.length_eq_zero_iff.mp hl.symm; subst this; exact List.Perm.refl _
  | cons x xs ih =>
    intro l₂ hc hl
    have hx : x ∈ l₂ := by
      have := hc x
      simp only [List.count_cons_self] at this
      exact List.count_pos_iff.mp (by omega)
    have hp := List.perm_cons_erase hx
    refine List.Perm.trans ?_ hp.symm
    refine List.Perm.cons x (ih (l₂.erase x) ?_ ?_)
    · intro a
      have := hc a
      rw [List.count_erase]
      by_cases e : x == a
      · have e' : x = a := by simpa using e
        subst e'
        simp only [List.count_cons_self] at this
        simp; omega
      · simp only [List.count_cons, e] at this
        simp [e]; omega
    · rw [List.length_erase_of_mem hx]; simp at hl; omega

section
variable {σ : Type} (K : KeyMap σ) (L : K.Lawful) (mf : Nat)

/-- the abstract value list of a key (`[]` for an absent key as well) -/
def MM.vals (m : MM σ) (k : Nat) : List Nat := (MM.abs K m k).getD []

def pairsOf (arrs : List (Nat × VArr)) (ks : List Nat) : List (Nat × Nat) :=
  ks.flatMap (fun k => (getArr arrs k).bounds.map (fun v => (k, v)))

theorem MM.pairs_eq (m : MM σ) : MM.pairs K m = pairsOf m.arrs (K.keys m.km) := rfl

theorem pairsOf_count (arrs : List (Nat × VArr)) (ks : List Nat) (hn : ks.Nodup) (k v : Nat) :
    (pairsOf arrs ks).count (k, v) = if k ∈ ks then (getArr arrs k).bounds.count v else 0 := by
  induction ks with
  | nil => simp [pairsOf]
  | cons x xs ih =>
    simp only [List.nodup_cons] at hn
    simp only [pairsOf, List.flatMap_cons, List.count_append, count_pair_map] at ih ⊢
    rw [ih hn.2]
    by_cases e : x = k
    · subst e; simp [hn.1]
    · have : k ≠ x := fun h => e h.symm
      simp [e, this]

/-- **every pair exactly once**: `(k, v)` occurs in the traversal as often as `v` occurs in the
    abstract value list of `k` -/
theorem MM.pairs_count (m : MM σ) (hI : MM.Inv K L mf m) (k v : Nat) :
    (MM.pairs K m).count (k, v) = (MM.vals K m k).count v := by
  rw [MM.pairs_eq, pairsOf_count _ _ (L.nodup _ hI.km)]
  simp only [MM.vals, MM.abs]
  split <;> simp

theorem pairsOf_length (arrs : List (Nat × VArr)) (ks : List Nat) :
    (pairsOf arrs ks).length = (ks.map (fun k => (getArr arrs k).bounds.length)).sum := by
  induction ks with
  | nil => rfl
  | cons x xs ih => simp only [pairsOf, List.flatMap_cons, List.length_append, List.length_map, List.map_cons,
      List.sum_cons] at ih ⊢; rw [ih]

/-- **total = sum over keys**: the traversal has exactly `GetCount()` pairs -/
theorem MM.pairs_length (m : MM σ) (hI : MM.Inv K L mf m) : (MM.pairs K m).length = m.count := by
  rw [MM.pairs_eq, pairsOf_length, hI.total]

theorem pairsOf_filter_key (arrs : List (Nat × VArr)) (ks : List Nat) (hn : ks.Nodup) (k : Nat) :
    (pairsOf arrs ks).filter (fun e => e.1 == k) =
      if k ∈ ks then (getArr arrs k).bounds.map (fun v => (k, v)) else [] := by
  induction ks with
  | nil => simp [pairsOf]
  | cons x xs ih =>
    simp only [List.nodup_cons] at hn
    simp only [pairsOf, List.flatMap_cons, List.filter_append] at ih ⊢
    rw [ih hn.2]
    by_cases e : x = k
    · subst e
      have : ((getArr arrs x).bounds.map (fun v => (x, v))).filter (fun e => e.1 == x)
          = (getArr arrs x).bounds.map (fun v => (x, v)) := by
        apply List.filter_eq_self.mpr; intro a ha
        obtain ⟨v, _, rfl⟩ := List.mem_map.mp ha; simp
      simp [this, hn.1]
    · have : ((getArr arrs x).bounds.map (fun v => (x, v))).filter (fun e => e.1 == k) = [] := by
        apply List.filter_eq_nil_iff.mpr; intro a ha
        obtain ⟨v, _, rfl⟩ := List.mem_map.mp ha; simpa using e
      have e' : k ≠ x := fun h => e h.symm
      simp [this, e']

/-! ### the multiset of pairs versus the abstract map -/

/-- two multimaps (over any two lawful key maps) hold the same multiset of pairs iff for every key
    their value lists are rearrangements of each other; a value-less key and an absent key are the same -/
theorem MM.pairs_perm_iff {σ₂ : Type} (K₂ : KeyMap σ₂) (L₂ : K₂.Lawful)
    (m1 : MM σ) (m2 : MM σ₂) (h1 : MM.Inv K L mf m1) (h2 : MM.Inv K₂ L₂ mf m2) :
    (MM.pairs K m1).Perm (MM.pairs K₂ m2) ↔ ∀ k, (MM.vals K m1 k).Perm (MM.vals K₂ m2 k) := by
  rw [List.perm_iff_count]
  constructor
  · intro h k
    rw [List.perm_iff_count]; intro v
    have := h (k, v)
    rwa [MM.pairs_count K L mf m1 h1, MM.pairs_count K₂ L₂ mf m2 h2] at this
  · intro h a
    obtain ⟨k, v⟩ := a
    rw [MM.pairs_count K L mf m1 h1, MM.pairs_count K₂ L₂ mf m2 h2]
    exact (List.perm_iff_count.mp (h k)) v

theorem MM.vals_of_mem {m : MM σ} {k : Nat} (hk : k ∈ K.keys m.km) : MM.vals K m k = (getArr m.arrs k).bounds := by
  simp [MM.vals, MM.abs, hk]

theorem MM.vals_of_not_mem {m : MM σ} {k : Nat} (hk : k ∉ K.keys m.km) : MM.vals K m k = [] := by
  simp [MM.vals, MM.abs, hk]

theorem MM.vals_eq_bounds (m : MM σ) (hI : MM.Inv K L mf m) (k : Nat) : MM.vals K m k = (getArr m.arrs k).bounds := by
  by_cases hk : k ∈ K.keys m.km
  · exact MM.vals_of_mem K hk
  · rw [MM.vals_of_not_mem K hk, hI.absent k hk]; rfl

/-- the pairs of one key, in order -/
theorem MM.pairs_filter_key (m : MM σ) (hI : MM.Inv K L mf m) (k : Nat) :
    (MM.pairs K m).filter (fun e => e.1 == k) = (MM.vals K m k).map (fun v => (k, v)) := by
  rw [MM.pairs_eq, pairsOf_filter_key _ _ (L.nodup _ hI.km)]
  by_cases hk : k ∈ K.keys m.km
  · rw [if_pos hk, MM.vals_of_mem K hk]
  · rw [if_neg hk, MM.vals_of_not_mem K hk]; rfl

/-! ### wrapper: count, equal_range -/

/-- **`count(key)`** is the number of pairs with that key -/
theorem MM.wCount_eq (hmf : mf < Extracted.abMaxFastLimit) (m : MM σ) (hI : MM.Inv K L mf m) (k : Nat) :
    MM.wCount K m k = ((MM.pairs K m).filter (fun e => e.1 == k)).length := by
  rw [MM.pairs_filter_key K L mf m hI, List.length_map]
  unfold MM.wCount
  by_cases hh : K.has m.km k = true
  · have hk := (L.has_iff _ k hI.km).mp hh
    rw [if_pos hh, MM.vals_of_mem K hk, (hI.wf k).bounds_eq hmf, (hI.wf k).count_eq hmf]
  · have hk : k ∉ K.keys m.km := fun e => hh ((L.has_iff _ k hI.km).mpr e)
    rw [if_neg hh, MM.vals_of_not_mem K hk]; rfl

/-- **`equal_range(key)`** yields exactly the pairs with that key (in storage order) -/
theorem MM.wRange_eq (m : MM σ) (hI : MM.Inv K L mf m) (k : Nat) :
    MM.wRange K m k = ((MM.pairs K m).filter (fun e => e.1 == k)).map (·.2) := by
  rw [MM.pairs_filter_key K L mf m hI, List.map_map]
  have : ((fun x : Nat × Nat => x.2) ∘ fun v => (k, v)) = id := rfl
  rw [this, List.map_id]
  unfold MM.wRange
  by_cases hh : K.has m.km k = true
  · have hk := (L.has_iff _ k hI.km).mp hh
    rw [if_pos hh, MM.vals_of_mem K hk]
  · have hk : k ∉ K.keys m.km := fun e => hh ((L.has_iff _ k hI.km).mpr e)
    rw [if_neg hh, MM.vals_of_not_mem K hk]

/-! ### wrapper: erase -/

/-- **`erase(key)`** returns the number of pairs with the key and leaves exactly the other pairs -/
theorem MM.wEraseKey_spec (hmf : mf < Extracted.abMaxFastLimit) (m : MM σ) (hI : MM.Inv K L mf m) (k : Nat) :
    MM.Inv K L mf (MM.wEraseKey K m k).1 ∧
    (MM.wEraseKey K m k).2 = ((MM.pairs K m).filter (fun e => e.1 == k)).length ∧
    (MM.pairs K (MM.wEraseKey K m k).1).Perm ((MM.pairs K m).filter (fun e => e.1 != k)) := by
  obtain ⟨i1, i2, i3, _⟩ := MM.removeKey_spec K L mf hmf m hI k
  refine ⟨i1, ?_, ?_⟩
  · show (MM.removeKey K m k).2 = _
    rw [i3, MM.pairs_filter_key K L mf m hI, List.length_map]; rfl
  · show (MM.pairs K (MM.removeKey K m k).1).Perm _
    rw [List.perm_iff_count]
    intro a
    obtain ⟨k', v⟩ := a
    rw [MM.pairs_count K L mf _ i1, count_filter_ite, MM.pairs_count K L mf m hI]
    simp only [MM.vals, i2, AMap.removeKey]
    by_cases e : k' = k
    · subst e; simp
    · simp [e]

/-- **`erase(iterator)`** (value removal by position): exactly the addressed pair leaves the multiset;
    the key stays when other values remain, and leaves with its last value -/
theorem MM.wEraseAt_spec (hmf : mf < Extracted.abMaxFastLimit) (m : MM σ) (hI : MM.Inv K L mf m)
    (k i : Nat) (v : Nat) (hk : k ∈ K.keys m.km) (hv : (getArr m.arrs k).bounds[i]? = some v) :
    MM.Inv K L mf (MM.wEraseAt K m k i) ∧
    (MM.pairs K (MM.wEraseAt K m k i)).Perm ((MM.pairs K m).erase (k, v)) := by
  have hi : i < (getArr m.arrs k).bounds.length := by
    rcases List.getElem?_eq_some_iff.mp hv with ⟨h, _⟩; exact h
  have hvi : (getArr m.arrs k).bounds[i] = v := by
    rcases List.getElem?_eq_some_iff.mp hv with ⟨_, h⟩; exact h
  have hcnt : (getArr m.arrs k).count = (getArr m.arrs k).bounds.length := by
    rw [(hI.wf k).bounds_eq hmf, (hI.wf k).count_eq hmf]
  have hmemv : v ∈ (getArr m.arrs k).bounds := List.mem_of_getElem? hv
  unfold MM.wEraseAt
  by_cases hone : (getArr m.arrs k).count = 1
  · -- the key goes
    rw [if_pos hone]
    obtain ⟨i1, i2, _, _⟩ := MM.removeKey_spec K L mf hmf m hI k
    refine ⟨i1, ?_⟩
    have hsingle : (getArr m.arrs k).bounds = [v] := by
      rw [hcnt] at hone
      match hb : (getArr m.arrs k).bounds, hone with
      | [x], _ => rw [hb] at hmemv; simp at hmemv; rw [hmemv]
    rw [List.perm_iff_count]
    intro a
    obtain ⟨k', v'⟩ := a
    rw [MM.pairs_count K L mf _ i1, List.count_erase, MM.pairs_count K L mf m hI]
    simp only [MM.vals, i2, AMap.removeKey]
    by_cases e : k' = k
    · subst e
      simp only [if_true, Option.getD_none, List.count_nil, MM.abs_of_mem K hk, Option.getD_some, hsingle]
      by_cases e2 : v' = v
      · subst e2; simp
      · have : ((k', v) == (k', v')) = false := by simp; exact fun h => e2 h.symm
        simp [this, List.count_cons]
        exact fun h => e2 h.symm
    · have : ((k, v) == (k', v')) = false := by simp; exact fun h _ => e h.symm
      simp [e, this]
  · rw [if_neg hone]
    obtain ⟨i1, i2, _⟩ := MM.removeValue_spec K L mf hmf m hI k i false hk hi
    refine ⟨i1, ?_⟩
    -- the values of k: swapRemove l i ~ l.erase l[i]
    have hsr : (v :: swapRemove (getArr m.arrs k).bounds i).Perm (getArr m.arrs k).bounds := by
      obtain ⟨A, B, hAB, hA⟩ := split_at (getArr m.arrs k).bounds i v hv
      rw [hAB, ← hA]
      rcases List.eq_nil_or_concat B with rfl | ⟨B', x, rfl⟩
      · rw [swapRemove_last]; exact (List.perm_append_singleton v A).symm
      · rw [List.concat_eq_append, swapRemove_mid]
        refine List.Perm.trans ?_ List.perm_middle.symm
        refine List.Perm.cons v (List.Perm.append_left A ?_)
        simpa using (List.perm_append_singleton x B').symm
    rw [List.perm_iff_count]
    intro a
    obtain ⟨k', v'⟩ := a
    rw [MM.pairs_count K L mf _ i1, List.count_erase, MM.pairs_count K L mf m hI]
    simp only [MM.vals, i2, AMap.removeValue]
    by_cases e : k' = k
    · subst e
      simp only [if_true, MM.abs_of_mem K hk, Option.map_some, Option.getD_some]
      have := (List.perm_iff_count.mp hsr) v'
      simp only [List.count_cons] at this
      by_cases e2 : v' = v
      · subst e2; simp at this ⊢; omega
      · have b1 : ((k', v) == (k', v')) = false := by simp; exact fun h => e2 h.symm
        have b2 : (v == v') = false := by simp; exact fun h => e2 h.symm
        simp [b1, b2] at this ⊢; omega
    · have : ((k, v) == (k', v')) = false := by simp; exact fun h _ => e h.symm
      simp [e, this]

/-! ### wrapper: erase_if -/

theorem MM.vals_removeIf (m : MM σ) (p : Nat → Nat → Bool) (k : Nat) :
    ((AMap.removeIf (MM.abs K m) p k).getD []) = swapFilter (p k) (MM.vals K m k).length (MM.vals K m k) 0 := by
  simp only [AMap.removeIf, MM.vals]
  cases MM.abs K m k with
  | none => simp [swapFilter]
  | some l => simp

/-- **`erase_if`** (and the native `Remove(pairFilter)`): exactly the pairs that satisfy the predicate
    leave the multiset, and their number is returned -/
theorem MM.removeIf_pairs (hmf : mf < Extracted.abMaxFastLimit) (m : MM σ) (hI : MM.Inv K L mf m)
    (p : Nat → Nat → Bool) :
    MM.Inv K L mf (MM.removeIf K m p).1 ∧
    (MM.pairs K (MM.removeIf K m p).1).Perm ((MM.pairs K m).filter (fun e => !p e.1 e.2)) ∧
    (MM.removeIf K m p).2 = (MM.pairs K m).countP (fun e => p e.1 e.2) := by
  obtain ⟨i1, i2, i3, _⟩ := MM.removeIf_spec K L mf hmf m hI p
  refine ⟨i1, ?_, ?_⟩
  · rw [List.perm_iff_count]
    intro a
    obtain ⟨k, v⟩ := a
    rw [MM.pairs_count K L mf _ i1, count_filter_ite, MM.pairs_count K L mf m hI]
    have := MM.vals_removeIf K m p k
    simp only [MM.vals] at this ⊢
    rw [i2, this, (List.perm_iff_count.mp (swapFilter_all_perm (p k) _)) v, count_filter_ite]
  · rw [i3, MM.pairs_eq, pairsOf, List.countP_flatMap]
    congr 1
    apply List.map_congr_left
    intro k _
    simp only [Function.comp, List.countP_map]
    rfl

/-! ### wrapper: operator== -/

theorem MM.mem_keys_of_vals_ne {m : MM σ} {k : Nat} (h : MM.vals K m k ≠ []) : k ∈ K.keys m.km := by
  apply Decidable.byContradiction
  intro hk; exact h (MM.vals_of_not_mem K hk)

/-- **`operator==`** answers `true` exactly when both containers hold the same multiset of pairs —
    value-less keys, key order and value order have no influence (the two containers may even sit on
    different key-map implementations) -/
theorem MM.wEq_iff (hmf : mf < Extracted.abMaxFastLimit)
    (m1 m2 : MM σ) (h1 : MM.Inv K L mf m1) (h2 : MM.Inv K L mf m2) :
    MM.wEq K m1 m2 = true ↔ (MM.pairs K m1).Perm (MM.pairs K m2) := by
  have hc : ∀ (m : MM σ), MM.Inv K L mf m → ∀ k, (getArr m.arrs k).count = (getArr m.arrs k).bounds.length := by
    intro m hI k; rw [(hI.wf k).bounds_eq hmf, (hI.wf k).count_eq hmf]
  constructor
  · intro h
    simp only [MM.wEq, Bool.and_eq_true, beq_iff_eq, List.all_eq_true, Bool.or_eq_true] at h
    obtain ⟨hcount, hall⟩ := h
    apply perm_of_count_le
    · intro a
      obtain ⟨k, v⟩ := a
      rw [MM.pairs_count K L mf m1 h1, MM.pairs_count K L mf m2 h2]
      by_cases hk : k ∈ K.keys m1.km
      · rcases hall k hk with h0 | ⟨⟨hh, _⟩, hperm⟩
        · rw [hc m1 h1] at h0
          have : (getArr m1.arrs k).bounds = [] := List.length_eq_zero_iff.mp h0
          rw [MM.vals_of_mem K hk, this]; simp
        · have hk2 := (L.has_iff _ k h2.km).mp hh
          rw [MM.vals_of_mem K hk, MM.vals_of_mem K hk2]
          exact Nat.le_of_eq ((List.perm_iff_count.mp (List.isPerm_iff.mp hperm)) v)
      · rw [MM.vals_of_not_mem K hk]; simp
    · rw [MM.pairs_length K L mf m1 h1, MM.pairs_length K L mf m2 h2]; exact hcount
  · intro h
    have hv := (MM.pairs_perm_iff K L mf K L m1 m2 h1 h2).mp h
    simp only [MM.wEq, Bool.and_eq_true, beq_iff_eq, List.all_eq_true, Bool.or_eq_true]
    refine ⟨?_, ?_⟩
    · rw [← MM.pairs_length K L mf m1 h1, ← MM.pairs_length K L mf m2 h2]; exact h.length_eq
    · intro k hk
      by_cases h0 : (getArr m1.arrs k).count = 0
      · exact Or.inl h0
      · right
        have hne : MM.vals K m1 k ≠ [] := by
          rw [MM.vals_of_mem K hk]; intro e; rw [hc m1 h1, e] at h0; exact h0 rfl
        have hne2 : MM.vals K m2 k ≠ [] := fun e => hne (by have := hv k; rw [e] at this; exact this.eq_nil)
        have hk2 := MM.mem_keys_of_vals_ne K hne2
        have hp := hv k
        rw [MM.vals_of_mem K hk, MM.vals_of_mem K hk2] at hp
        refine ⟨⟨(L.has_iff _ k h2.km).mpr hk2, ?_⟩, List.isPerm_iff.mpr hp⟩
        rw [hc m1 h1, hc m2 h2]; exact hp.length_eq

/-! ### the pair iterator enumerates `pairs` -/

theorem skipEmpty_eq_itMove (arrs : List (Nat × VArr)) (ks : List Nat) : skipEmpty arrs ks = itMove arrs ks 0 := by
  cases ks with
  | nil => rfl
  | cons k rest =>
    simp only [skipEmpty, itMove]
    by_cases h : (getArr arrs k).count = 0
    · have h' : ¬ (0 ≠ (getArr arrs k).count) := by omega
      simp [h]
    · have h' : 0 ≠ (getArr arrs k).count := by omega
      simp [h, h']

/-- what is still ahead of the iterator position (key iterator `ks`, value index `i`) -/
def remPairs (arrs : List (Nat × VArr)) : List Nat → Nat → List (Nat × Nat)
  | [], _ => []
  | k :: rest, i => ((getArr arrs k).bounds.drop i).map (fun v => (k, v)) ++ pairsOf arrs rest

theorem remPairs_zero (arrs : List (Nat × VArr)) (ks : List Nat) : remPairs arrs ks 0 = pairsOf arrs ks := by
  cases ks with
  | nil => rfl
  | cons k rest => simp [remPairs, pairsOf]

theorem iterFrom_end (arrs : List (Nat × VArr)) (fuel i : Nat) : iterFrom arrs fuel ([], i) = [] := by
  cases fuel <;> simp [iterFrom, itDeref]

theorem iterFrom_spec (arrs : List (Nat × VArr))
    (hc : ∀ k, (getArr arrs k).count = (getArr arrs k).bounds.length) :
    ∀ (ks : List Nat) (n i fuel : Nat),
      (∀ k rest, ks = k :: rest → i + n = (getArr arrs k).bounds.length) →
      (remPairs arrs ks i).length ≤ fuel →
      iterFrom arrs fuel (itMove arrs ks i) = remPairs arrs ks i := by
  intro ks
  induction ks with
  | nil => intro n i fuel _ _; simp [itMove, iterFrom_end, remPairs]
  | cons k rest ih =>
    intro n
    induction n with
    | zero =>
      intro i fuel hi hf
      have hik : i = (getArr arrs k).bounds.length := by simpa using hi k rest rfl
      have h1 : itMove arrs (k :: rest) i = itMove arrs rest 0 := by
        simp only [itMove, hc k, hik, ne_eq, not_true_eq_false, if_false]
        exact skipEmpty_eq_itMove arrs rest
      have h2 : remPairs arrs (k :: rest) i = remPairs arrs rest 0 := by
        rw [remPairs_zero]
        show ((getArr arrs k).bounds.drop i).map _ ++ pairsOf arrs rest = _
        rw [hik]; simp
      rw [h1, h2]
      cases hr : rest with
      | nil => simp [itMove, iterFrom_end, remPairs]
      | cons k' rest' =>
        rw [← hr]
        refine ih (getArr arrs k').bounds.length 0 fuel ?_ (by rw [← h2]; exact hf)
        intro k'' r'' e
        rw [hr] at e
        simp only [List.cons.injEq] at e
        rw [← e.1]; simp
    | succ n ihn =>
      intro i fuel hi hf
      have hik : i + (n + 1) = (getArr arrs k).bounds.length := hi k rest rfl
      have hlt : i < (getArr arrs k).bounds.length := by omega
      have h1 : itMove arrs (k :: rest) i = (k :: rest, i) := by
        have : i ≠ (getArr arrs k).count := by rw [hc k]; omega
        simp [itMove, this]
      have hdrop : (getArr arrs k).bounds.drop i = (getArr arrs k).bounds[i] :: (getArr arrs k).bounds.drop (i + 1) :=
        List.drop_eq_getElem_cons hlt
      have h2 : remPairs arrs (k :: rest) i = (k, (getArr arrs k).bounds[i]) :: remPairs arrs (k :: rest) (i + 1) := by
        show ((getArr arrs k).bounds.drop i).map _ ++ pairsOf arrs rest = _
        rw [hdrop]; rfl
      rw [h2] at hf
      rw [h1, h2]
      cases fuel with
      | zero => simp at hf
      | succ f =>
        simp only [iterFrom, itDeref, List.getElem?_eq_getElem hlt, Option.map_some]
        congr 1
        exact ihn (i + 1) f (fun k' r' e => by
          simp only [List.cons.injEq] at e; rw [← e.1]; omega) (by simp only [List.length_cons] at hf; omega)

/-- **traversal visits every pair exactly once**: `GetBegin()` followed by `operator++` until the end
    yields exactly the storage-order sequence `pairs` (value-less keys are stepped over) -/
theorem MM.iterAll_eq (hmf : mf < Extracted.abMaxFastLimit) (m : MM σ) (hI : MM.Inv K L mf m) :
    MM.iterAll K m = MM.pairs K m := by
  have hc : ∀ k, (getArr m.arrs k).count = (getArr m.arrs k).bounds.length := by
    intro k; rw [(hI.wf k).bounds_eq hmf, (hI.wf k).count_eq hmf]
  unfold MM.iterAll
  rw [MM.pairs_eq, ← remPairs_zero]
  cases hk : K.keys m.km with
  | nil => simp [itMove, iterFrom_end, remPairs]
  | cons k rest =>
    refine iterFrom_spec m.arrs hc (k :: rest) (getArr m.arrs k).bounds.length 0 (m.count + 1) ?_ ?_
    · intro k' r' e; simp only [List.cons.injEq] at e; rw [← e.1]; simp
    · rw [remPairs_zero, ← hk, ← MM.pairs_eq, MM.pairs_length K L mf m hI]; omega

/-! ### wrapper: erase(first, last) -/

theorem pairsOf_fst_mem (arrs : List (Nat × VArr)) (ks : List Nat) (e : Nat × Nat) (h : e ∈ pairsOf arrs ks) :
    e.1 ∈ ks := by
  simp only [pairsOf, List.mem_flatMap, List.mem_map] at h
  obtain ⟨k, hk, v, _, rfl⟩ := h
  exact hk

/-- the traversal splits around the group of a present key -/
theorem pairsOf_split (arrs : List (Nat × VArr)) (ks : List Nat) (hn : ks.Nodup) (k : Nat) (hk : k ∈ ks) :
    ∃ P Q, pairsOf arrs ks = P ++ ((getArr arrs k).bounds.map (fun v => (k, v)) ++ Q) ∧
      (∀ e ∈ P, e.1 ≠ k) ∧ (∀ e ∈ Q, e.1 ≠ k) := by
  obtain ⟨A, B, rfl⟩ := List.append_of_mem hk
  have hA : k ∉ A := by
    intro h; have := List.nodup_append.mp hn; exact this.2.2 k h k (by simp) rfl
  have hB : k ∉ B := by
    have := (List.nodup_append.mp hn).2.1; exact (List.nodup_cons.mp this).1
  refine ⟨pairsOf arrs A, pairsOf arrs B, by simp [pairsOf], ?_, ?_⟩
  · intro e he h; exact hA (h ▸ pairsOf_fst_mem arrs A e he)
  · intro e he h; exact hB (h ▸ pairsOf_fst_mem arrs B e he)

theorem groupStart_split (P G Q : List (Nat × Nat)) (k : Nat) (hP : ∀ e ∈ P, e.1 ≠ k)
    (hG : ∀ e ∈ G, e.1 = k) (hne : G ≠ []) : groupStart (P ++ (G ++ Q)) k = P.length := by
  unfold groupStart
  rw [List.takeWhile_append_of_pos (by intro a ha; simpa using hP a ha)]
  cases G with
  | nil => exact absurd rfl hne
  | cons g G' =>
    have : (g.1 != k) = false := by simpa using hG g (by simp)
    simp [this]

/-- **`erase(first, last)`**: when the range is accepted, exactly the pairs in `[i, j)` of the traversal
    leave the multiset; a refused range (`none` = `std::invalid_argument`) changes nothing by definition.
    The accepted ranges are: empty, one element, exactly the group of one key, the whole container. -/
theorem MM.wEraseRange_spec (hmf : mf < Extracted.abMaxFastLimit) (m m' : MM σ) (hI : MM.Inv K L mf m)
    (i j : Nat) (h : MM.wEraseRange K m i j = some m') :
    MM.Inv K L mf m' ∧ (MM.pairs K m').Perm ((MM.pairs K m).take i ++ (MM.pairs K m).drop j) := by
  unfold MM.wEraseRange at h
  by_cases hij : i = j
  · subst hij
    simp only [if_true, Option.some.injEq] at h; subst h
    exact ⟨hI, by simp⟩
  · simp only [hij, if_false] at h
    cases hget : (MM.pairs K m)[i]? with
    | none => rw [hget] at h; cases h
    | some kv =>
      obtain ⟨k, v0⟩ := kv
      rw [hget] at h
      simp only at h
      have hilt : i < (MM.pairs K m).length := by
        rcases List.getElem?_eq_some_iff.mp hget with ⟨hh, _⟩; exact hh
      have hmemp : (k, v0) ∈ MM.pairs K m := List.mem_of_getElem? hget
      have hk : k ∈ K.keys m.km := pairsOf_fst_mem m.arrs _ _ hmemp
      obtain ⟨P, Q, hsplit, hP, hQ⟩ := pairsOf_split m.arrs (K.keys m.km) (L.nodup _ hI.km) k hk
      rw [← MM.pairs_eq] at hsplit
      have hcnt : (getArr m.arrs k).count = (getArr m.arrs k).bounds.length := by
        rw [(hI.wf k).bounds_eq hmf, (hI.wf k).count_eq hmf]
      -- position i lies inside the group of k
      have hPi : P.length ≤ i := by
        apply Decidable.byContradiction; intro hlt
        have hlt : i < P.length := by omega
        have : (MM.pairs K m)[i]? = P[i]? := by rw [hsplit, List.getElem?_append_left hlt]
        rw [this] at hget
        exact hP _ (List.mem_of_getElem? hget) rfl
      have hiG : i - P.length < (getArr m.arrs k).bounds.length := by
        apply Decidable.byContradiction; intro hge
        have hge : (getArr m.arrs k).bounds.length ≤ i - P.length := by omega
        have : (MM.pairs K m)[i]? = Q[i - P.length - (getArr m.arrs k).bounds.length]? := by
          rw [hsplit, List.getElem?_append_right hPi, List.getElem?_append_right (by simpa using hge)]
          simp
        rw [this] at hget
        exact hQ _ (List.mem_of_getElem? hget) rfl
      have hvi : (getArr m.arrs k).bounds[i - P.length]? = some v0 := by
        have : (MM.pairs K m)[i]? = ((getArr m.arrs k).bounds.map (fun v => (k, v)))[i - P.length]? := by
          rw [hsplit, List.getElem?_append_right hPi, List.getElem?_append_left (by simpa using hiG)]
        rw [this, List.getElem?_map] at hget
        cases hb : (getArr m.arrs k).bounds[i - P.length]? with
        | none => rw [hb] at hget; cases hget
        | some x => rw [hb] at hget; simp at hget; rw [hget]
      have hGne : (getArr m.arrs k).bounds.map (fun v => (k, v)) ≠ [] := by
        intro e; have := congrArg List.length e; simp only [List.length_map, List.length_nil] at this; omega
      have hgs : groupStart (MM.pairs K m) k = P.length := by
        rw [hsplit]
        exact groupStart_split P _ Q k hP (by intro e he; obtain ⟨v, _, rfl⟩ := List.mem_map.mp he; rfl) hGne
      rw [hgs] at h
      by_cases hj1 : j = i + 1
      · -- one element
        simp only [hj1, if_true, Option.some.injEq] at h; subst h
        obtain ⟨i1, i2⟩ := MM.wEraseAt_spec K L mf hmf m hI k (i - P.length) v0 hk hvi
        refine ⟨i1, i2.trans ?_⟩
        subst hj1
        have hx : (MM.pairs K m)[i] = (k, v0) := by
          rcases List.getElem?_eq_some_iff.mp hget with ⟨_, hh⟩; exact hh
        have hdec : MM.pairs K m = (MM.pairs K m).take i ++ (k, v0) :: (MM.pairs K m).drop (i + 1) := by
          rw [← hx]; simp
        have hp2 : ((k, v0) :: (MM.pairs K m).erase (k, v0)).Perm
            ((k, v0) :: ((MM.pairs K m).take i ++ (MM.pairs K m).drop (i + 1))) :=
          (List.perm_cons_erase hmemp).symm.trans (by
            conv => lhs; rw [hdec]
            exact List.perm_middle)
        exact (List.perm_cons _).mp hp2
      · simp only [hj1, if_false] at h
        by_cases hgrp : i = P.length ∧ j = i + (getArr m.arrs k).count
        · -- the whole group of one key
          simp only [hgrp, and_self, if_true, Option.some.injEq] at h
          subst h
          obtain ⟨e1, e2, e3⟩ := MM.wEraseKey_spec K L mf hmf m hI k
          refine ⟨e1, e3.trans ?_⟩
          obtain ⟨hi', hj'⟩ := hgrp
          rw [hcnt] at hj'
          subst hi'
          subst hj'
          have hf : (MM.pairs K m).filter (fun e => e.1 != k) = P ++ Q := by
            rw [hsplit, List.filter_append, List.filter_append]
            have a1 : P.filter (fun e => e.1 != k) = P :=
              List.filter_eq_self.mpr (fun e he => by simpa using hP e he)
            have a2 : Q.filter (fun e => e.1 != k) = Q :=
              List.filter_eq_self.mpr (fun e he => by simpa using hQ e he)
            have a3 : ((getArr m.arrs k).bounds.map (fun v => (k, v))).filter (fun e => e.1 != k) = [] :=
              List.filter_eq_nil_iff.mpr (fun e he => by obtain ⟨v, _, rfl⟩ := List.mem_map.mp he; simp)
            rw [a1, a2, a3]; simp
          rw [hf, hsplit]
          have t1 : (P ++ ((getArr m.arrs k).bounds.map (fun v => (k, v)) ++ Q)).take P.length = P := by simp
          have t2 : (P ++ ((getArr m.arrs k).bounds.map (fun v => (k, v)) ++ Q)).drop
              (P.length + (getArr m.arrs k).bounds.length) = Q := by
            rw [← List.drop_drop]
            simp
          rw [t1, t2]
        · simp only [hgrp, if_false] at h
          by_cases hall : i = 0 ∧ j = (MM.pairs K m).length
          · simp only [hall, and_self, if_true, Option.some.injEq] at h
            subst h
            obtain ⟨c1, c2⟩ := MM.clear_spec K L mf m hI
            refine ⟨c1, ?_⟩
            obtain ⟨hi0, hjl⟩ := hall
            subst hi0; subst hjl
            have : MM.pairs K (MM.clear K m) = [] := by
              have := L.clear_ok m.km hI.km
              simp [MM.pairs, MM.clear, this.2]
            rw [this]; simp
          · simp only [hall, if_false] at h
            cases h

end

end Momo.MMap
