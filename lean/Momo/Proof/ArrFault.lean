import Momo.Model.ArrFault
import Momo.Proof.ArrOps
/-!
  C04 / C10, lemmas part 1: outcome predicate `Post` for the exception+state monad of `Momo/Model/ArrFault.lean`,
  specifications of the primitives and of `Array::Data` (`Reallocate`, `Reset`, `pvGrow`) under every fault schedule.
  All specifications speak about the *core* of the system state (array, ledger); the fault schedule and the trace
  of memory-manager calls are universally quantified.
-/
namespace Momo.ArrF
set_option linter.unusedSimpArgs false
set_option linter.unusedVariables false
open Momo Momo.Arr
open FM (throw tryCatch)
variable {α β γ : Type}

/-- what the theorems speak about: the array and the ledger -/
structure Core (α : Type) where
  arr : State α
  blocks : List Nat
  objs : Nat
  bad : Bool

def Sys.core (x : Sys α) : Core α := ⟨x.arr, x.blocks, x.objs, x.bad⟩

@[simp] theorem core_arr (x : Sys α) : x.core.arr = x.arr := rfl
@[simp] theorem core_blocks (x : Sys α) : x.core.blocks = x.blocks := rfl
@[simp] theorem core_objs (x : Sys α) : x.core.objs = x.objs := rfl
@[simp] theorem core_bad (x : Sys α) : x.core.bad = x.bad := rfl

theorem core_eq_iff (x y : Sys α) :
    y.core = x.core ↔ y.arr = x.arr ∧ y.blocks = x.blocks ∧ y.objs = x.objs ∧ y.bad = x.bad := by
  cases x; cases y; simp [Sys.core]

theorem core_eq_mk (y : Sys α) (a : State α) (b : List Nat) (o : Nat) (bd : Bool) :
    y.core = Core.mk a b o bd ↔ y.arr = a ∧ y.blocks = b ∧ y.objs = o ∧ y.bad = bd := by
  cases y; simp [Sys.core]

/-- outcome predicate: `Q` after normal completion, `E` after an exception -/
def Post (m : FM α β) (x : Sys α) (Q : β → Sys α → Prop) (E : Sys α → Prop) : Prop :=
  match m.run x with
  | (.ok b, y) => Q b y
  | (.threw, y) => E y

theorem Post.bind {m : FM α β} {f : β → FM α γ} {x : Sys α} {Q : γ → Sys α → Prop} {E : Sys α → Prop}
    (Q' : β → Sys α → Prop) (h1 : Post m x Q' E) (h2 : ∀ b y, Q' b y → Post (f b) y Q E) :
    Post (m >>= f) x Q E := by
  show Post (FM.bind m f) x Q E
  unfold Post FM.bind
  unfold Post at h1
  split at h1
  · rename_i b y hm
    simp only [hm]
    exact h2 b y h1
  · rename_i y hm
    simp only [hm]
    exact h1

/-- `bind` where the first part may end with a different exceptional condition -/
theorem Post.bind' {m : FM α β} {f : β → FM α γ} {x : Sys α} {Q : γ → Sys α → Prop} {E : Sys α → Prop}
    (Q' : β → Sys α → Prop) (E' : Sys α → Prop) (h1 : Post m x Q' E') (hE : ∀ y, E' y → E y)
    (h2 : ∀ b y, Q' b y → Post (f b) y Q E) : Post (m >>= f) x Q E := by
  show Post (FM.bind m f) x Q E
  unfold Post FM.bind
  unfold Post at h1
  split at h1
  · rename_i b y hm
    simp only [hm]
    exact h2 b y h1
  · rename_i y hm
    simp only [hm]
    exact hE y h1

theorem Post.tryCatch {m h : FM α β} {x : Sys α} {Q : β → Sys α → Prop} {E : Sys α → Prop}
    (E' : Sys α → Prop) (h1 : Post m x Q E') (h2 : ∀ y, E' y → Post h y Q E) :
    Post (tryCatch m h) x Q E := by
  unfold Post FM.tryCatch
  unfold Post at h1
  split at h1
  · rename_i b y hm
    simp only [hm]
    exact h1
  · rename_i y hm
    simp only [hm]
    exact h2 y h1

theorem Post.mono {m : FM α β} {x : Sys α} {Q Q' : β → Sys α → Prop} {E E' : Sys α → Prop}
    (h : Post m x Q E) (hQ : ∀ b y, Q b y → Q' b y) (hE : ∀ y, E y → E' y) : Post m x Q' E' := by
  unfold Post at *
  generalize m.run x = r at *
  obtain ⟨r, y⟩ := r
  cases r
  · exact hQ _ _ h
  · exact hE _ h

@[simp] theorem post_pure (b : β) (x : Sys α) (Q : β → Sys α → Prop) (E : Sys α → Prop) :
    Post (pure b : FM α β) x Q E ↔ Q b x := Iff.rfl

@[simp] theorem post_pure_bind (b : β) (f : β → FM α γ) (x : Sys α) (Q : γ → Sys α → Prop) (E : Sys α → Prop) :
    Post (pure b >>= f) x Q E ↔ Post (f b) x Q E := by
  show Post (FM.bind (FM.pure b) f) x Q E ↔ _
  unfold Post FM.bind FM.pure
  rfl

@[simp] theorem post_bind_assoc {δ : Type} (m : FM α β) (f : β → FM α γ) (g : γ → FM α δ) (x : Sys α)
    (Q : δ → Sys α → Prop) (E : Sys α → Prop) :
    Post ((m >>= f) >>= g) x Q E ↔ Post (m >>= fun b => f b >>= g) x Q E := by
  show Post (FM.bind (FM.bind m f) g) x Q E ↔ Post (FM.bind m (fun b => FM.bind (f b) g)) x Q E
  unfold Post FM.bind
  dsimp only
  generalize m.run x = r
  obtain ⟨r, y⟩ := r
  cases r <;> rfl

@[simp] theorem post_throw (x : Sys α) (Q : β → Sys α → Prop) (E : Sys α → Prop) :
    Post (throw : FM α β) x Q E ↔ E x := Iff.rfl

/-- a step that always completes -/
theorem post_bind_ok {m : FM α β} {f : β → FM α γ} {x y : Sys α} {b : β} (h : m.run x = (.ok b, y))
    (Q : γ → Sys α → Prop) (E : Sys α → Prop) : Post (m >>= f) x Q E ↔ Post (f b) y Q E := by
  show Post (FM.bind m f) x Q E ↔ _
  unfold Post FM.bind
  simp only [h]

@[simp] theorem post_getArr_bind (f : State α → FM α γ) (x : Sys α) (Q : γ → Sys α → Prop) (E : Sys α → Prop) :
    Post (getArr >>= f) x Q E ↔ Post (f x.arr) x Q E := post_bind_ok rfl Q E

@[simp] theorem post_setArr_bind (s : State α) (f : Unit → FM α γ) (x : Sys α) (Q : γ → Sys α → Prop) (E : Sys α → Prop) :
    Post (setArr s >>= f) x Q E ↔ Post (f ()) { x with arr := s } Q E := post_bind_ok rfl Q E

@[simp] theorem post_setArr (s : State α) (x : Sys α) (Q : Unit → Sys α → Prop) (E : Sys α → Prop) :
    Post (setArr s) x Q E ↔ Q () { x with arr := s } := Iff.rfl

@[simp] theorem post_modifyCells_bind (g : Cells α → Cells α) (f : Unit → FM α γ) (x : Sys α) (Q : γ → Sys α → Prop)
    (E : Sys α → Prop) :
    Post (modifyCells g >>= f) x Q E ↔ Post (f ()) { x with arr := { x.arr with cells := g x.arr.cells } } Q E :=
  post_bind_ok rfl Q E

@[simp] theorem post_modifyCells (g : Cells α → Cells α) (x : Sys α) (Q : Unit → Sys α → Prop) (E : Sys α → Prop) :
    Post (modifyCells g) x Q E ↔ Q () { x with arr := { x.arr with cells := g x.arr.cells } } := Iff.rfl

@[simp] theorem post_born_bind (f : Unit → FM α γ) (x : Sys α) (Q : γ → Sys α → Prop) (E : Sys α → Prop) :
    Post (born >>= f) x Q E ↔ Post (f ()) { x with objs := x.objs + 1 } Q E := post_bind_ok rfl Q E

@[simp] theorem post_born (x : Sys α) (Q : Unit → Sys α → Prop) (E : Sys α → Prop) :
    Post born x Q E ↔ Q () { x with objs := x.objs + 1 } := Iff.rfl

@[simp] theorem post_destroyObjs_bind (k : Nat) (f : Unit → FM α γ) (x : Sys α) (Q : γ → Sys α → Prop) (E : Sys α → Prop) :
    Post (destroyObjs k >>= f) x Q E ↔
      Post (f ()) { x with objs := x.objs - k, bad := x.bad || decide (x.objs < k) } Q E := post_bind_ok rfl Q E

@[simp] theorem post_destroyObjs (k : Nat) (x : Sys α) (Q : Unit → Sys α → Prop) (E : Sys α → Prop) :
    Post (destroyObjs k) x Q E ↔ Q () { x with objs := x.objs - k, bad := x.bad || decide (x.objs < k) } := Iff.rfl

@[simp] theorem post_deallocB_bind (n : Nat) (f : Unit → FM α γ) (x : Sys α) (Q : γ → Sys α → Prop) (E : Sys α → Prop) :
    Post (deallocB n >>= f) x Q E ↔
      Post (f ()) { x with blocks := x.blocks.erase n, bad := x.bad || !x.blocks.contains n,
                           evs := x.evs ++ [.did (.dealloc n)] } Q E := post_bind_ok rfl Q E

@[simp] theorem post_deallocB (n : Nat) (x : Sys α) (Q : Unit → Sys α → Prop) (E : Sys α → Prop) :
    Post (deallocB n) x Q E ↔
      Q () { x with blocks := x.blocks.erase n, bad := x.bad || !x.blocks.contains n,
                    evs := x.evs ++ [.did (.dealloc n)] } := Iff.rfl

@[simp] theorem post_inplaceB_bind (o n : Nat) (ok : Bool) (f : Unit → FM α γ) (x : Sys α) (Q : γ → Sys α → Prop)
    (E : Sys α → Prop) :
    Post (inplaceB o n ok >>= f) x Q E ↔
      Post (f ()) { x with blocks := if ok then n :: x.blocks.erase o else x.blocks,
                           bad := x.bad || (ok && !x.blocks.contains o), evs := x.evs ++ [.did (.inplace o n ok)] } Q E :=
  post_bind_ok rfl Q E

@[simp] theorem post_undo (k : Nat) (x : Sys α) (Q : β → Sys α → Prop) (E : Sys α → Prop) :
    Post (undo k : FM α β) x Q E ↔ E { x with objs := x.objs - k, bad := x.bad || decide (x.objs < k) } := by
  unfold undo
  simp

/-! ### fallible primitives -/

theorem tick_spec (b : Bool) (x : Sys α) :
    Post (tick b) x (fun _ y => y.core = x.core) (fun y => y.core = x.core) := by
  unfold Post tick
  cases b <;> simp
  by_cases hf : (nextFault x.faults).1 = true <;> simp [hf, Sys.core]

theorem construct_spec (b : Bool) (x : Sys α) :
    Post (construct b) x (fun _ y => y.core = { x.core with objs := x.objs + 1 }) (fun y => y.core = x.core) := by
  unfold construct
  apply Post.bind (fun _ y => y.core = x.core) (tick_spec b x)
  intro _ y h
  rw [core_eq_iff] at h
  simp [Sys.core, h]

/-- a constructor that cannot throw -/
theorem construct_false_spec (x : Sys α) :
    Post (construct false) x (fun _ y => y.core = { x.core with objs := x.objs + 1 }) (fun _ => False) := by
  unfold construct
  have h : (tick false : FM α Unit).run x = (.ok (), x) := rfl
  rw [post_bind_ok h]
  simp [Sys.core]

theorem allocB_spec (n : Nat) (x : Sys α) :
    Post (allocB n) x (fun _ y => y.core = { x.core with blocks := n :: x.blocks }) (fun y => y.core = x.core) := by
  unfold Post allocB
  by_cases hf : (nextFault x.faults).1 = true <;> simp [hf, Sys.core]

theorem reallocB_spec (o n : Nat) (x : Sys α) :
    Post (reallocB o n) x
      (fun _ y => y.core = { x.core with blocks := if o = n then x.blocks else n :: x.blocks.erase o,
                                         bad := x.bad || (decide (o ≠ n) && !x.blocks.contains o) })
      (fun y => y.core = x.core) := by
  unfold Post reallocB
  by_cases h : o = n
  · simp [h, Sys.core]
  · by_cases hf : (nextFault x.faults).1 = true <;> simp [hf, Sys.core, h]

theorem ctorLoop_spec (b : Bool) : ∀ (n done : Nat) (x : Sys α),
    Post (ctorLoop b n done) x
      (fun r y => done ≤ r.1 ∧ r.1 ≤ done + n ∧ (r.2 = false → r.1 = done + n) ∧
        y.core = { x.core with objs := x.objs + (r.1 - done) })
      (fun _ => False)
  | 0, done, x => by simp [ctorLoop, Post, FM.pure, Sys.core]
  | n+1, done, x => by
    have hc := construct_spec b x
    unfold Post at hc
    unfold ctorLoop Post
    cases hm : (construct b).run x with
    | mk r y =>
      rw [hm] at hc
      cases r with
      | ok u =>
        simp only [hm] at hc ⊢
        have ih := ctorLoop_spec b n (done + 1) y
        unfold Post at ih
        cases hz : (ctorLoop b n (done + 1)).run y with
        | mk r z =>
          rw [hz] at ih
          cases r with
          | ok r =>
            simp only at ih ⊢
            obtain ⟨h1, h2, h3, h4⟩ := ih
            refine ⟨by omega, by omega, fun h => by have := h3 h; omega, ?_⟩
            have hy : y.objs = x.objs + 1 := by
              have := congrArg Core.objs hc
              simpa using this
            rw [h4, hc]
            simp [Sys.core]
            omega
          | threw => exact ih.elim
      | threw =>
        simp only [hm] at hc ⊢
        rw [hc]
        simp [Sys.core]

/-- `ctorLoop` from 0: `r.1` objects were built -/
theorem ctorLoop_spec0 (b : Bool) (n : Nat) (x : Sys α) :
    Post (ctorLoop b n 0) x
      (fun r y => r.1 ≤ n ∧ (r.2 = false → r.1 = n) ∧ y.arr = x.arr ∧ y.blocks = x.blocks ∧ y.objs = x.objs + r.1 ∧ y.bad = x.bad)
      (fun _ => False) := by
  apply Post.mono (ctorLoop_spec b n 0 x) _ (fun _ h => h)
  rintro ⟨k, f⟩ y ⟨_, h2, h3, h4⟩
  simp only [core_eq_mk, core_arr, core_blocks, core_bad] at h4
  refine ⟨by omega, fun h => by have := h3 h; omega, h4.1, h4.2.1, by have := h4.2.2.1; omega, h4.2.2.2⟩

/-- closes the side goals about the `bad` flag and the object count: the flag is set only by an impossible comparison -/
macro "ledger" : tactic =>
  `(tactic| first
    | omega
    | (intros; omega)
    | (simp only [Bool.or_eq_left_iff_imp, Bool.or_assoc, decide_eq_true_eq, Bool.or_eq_true]; intros; omega)
    | (simp; intros; omega))

/-! ### ledger of one `Array::Data` -/

theorem own_of_gt {cfg : Cfg} {s : State α} (h : capacity cfg s > cfg.intCap) : ownBlocks cfg s = [s.cap] := by
  simp [ownBlocks, h]

theorem own_of_le {cfg : Cfg} {s : State α} (h : capacity cfg s ≤ cfg.intCap) : ownBlocks cfg s = [] := by
  simp [ownBlocks]; omega

/-- an array whose capacity differs from the internal capacity has external storage -/
theorem _root_.Momo.Arr.WF.ext_of_ne {cfg : Cfg} {s : State α} (w : WF cfg s) (h : capacity cfg s ≠ cfg.intCap) :
    s.internal = false ∧ s.cap > cfg.intCap ∧ capacity cfg s = s.cap := by
  have hi : s.internal = false := by
    cases hi : s.internal
    · rfl
    · simp [capacity, hi] at h
  have hc : capacity cfg s = s.cap := by simp [capacity, hi]
  refine ⟨hi, ?_, hc⟩
  by_cases h0 : s.cap = 0
  · have := w.null_only hi h0
    omega
  · exact w.ext_gt hi h0

theorem erase_own (c : Nat) (rest : List Nat) : ([c] ++ rest).erase c = rest := by simp

theorem bad_after_build (bad : Bool) (objs k j : Nat) (h : j ≤ k) : (bad || decide (objs + k < j)) = bad := by
  have : ¬ (objs + k < j) := by omega
  simp [this]

/-! ### `ItemTraits::Relocate` as an items creator -/

theorem relocateF_spec (cfg : Cfg) (thr : Thr) (x : Sys α) :
    Post (relocateF cfg thr) x (fun cs y => cs = x.arr.cells ∧ y.core = x.core) (fun y => y.core = x.core) := by
  unfold relocateF
  simp only [post_getArr_bind]
  split
  · simp
  · split
    · simp
    · rename_i hnr hlen
      apply Post.bind _ (Post.mono (ctorLoop_spec0 thr.copy (x.arr.cells.length - 1) x) (fun _ _ h => h) (fun _ h => h.elim))
      rintro ⟨n, f⟩ y ⟨h2, h3, ha, hb, ho, hbad⟩
      simp only at h2 h3 ho
      cases f
      · -- all copies built
        have hn : n = x.arr.cells.length - 1 := h3 rfl
        subst hn
        simp only [Bool.false_eq_true, ↓reduceIte]
        apply Post.bind (fun _ z => z.core = { y.core with objs := y.objs + 1 })
        · apply Post.tryCatch _ (construct_spec _ y)
          intro z hz
          simp only [core_eq_iff] at hz
          obtain ⟨za, zb, zo, zbad⟩ := hz
          simp only [post_undo, core_eq_iff, za, zb, zo, zbad, ha, hb, ho, hbad, true_and]
          exact ⟨by ledger, by ledger⟩
        · intro _ z hz
          simp only [core_eq_mk, core_arr, core_blocks, core_bad] at hz
          obtain ⟨za, zb, zo, zbad⟩ := hz
          simp only [post_destroyObjs_bind, post_pure, core_eq_iff, za, zb, zo, zbad, ha, hb, ho, hbad, true_and]
          exact ⟨by ledger, by ledger⟩
      · simp only [↓reduceIte, post_undo, core_eq_iff, ha, hb, ho, hbad, true_and]
        exact ⟨by ledger, by ledger⟩

/-! ### `Data::Reallocate`, `Data::Reset`, `pvGrow` -/

/-- the ledger agrees with the array: the outstanding blocks are the array's own block and `rest` -/
def Frame (cfg : Cfg) (rest : List Nat) (x : Sys α) : Prop := x.blocks = ownBlocks cfg x.arr ++ rest

theorem own_ext {cfg : Cfg} (s : State α) (c : Nat) (hc : c > cfg.intCap) (hi : s.internal = false) :
    ownBlocks cfg { s with cap := c } = [c] := by
  apply own_of_gt
  simp [capacity, hi]
  exact hc

theorem reallocateF_spec (cfg : Cfg) (lin exp : Nat) (x : Sys α) (rest : List Nat) (w : WF cfg x.arr)
    (hb : Frame cfg rest x) :
    Post (reallocateF cfg lin exp) x
      (fun ok y => ok = (reallocate cfg x.arr lin exp).1 ∧ y.arr = (reallocate cfg x.arr lin exp).2.1 ∧
        Frame cfg rest y ∧ y.objs = x.objs ∧ y.bad = x.bad)
      (fun y => y.core = x.core) := by
  unfold reallocateF reallocate Frame at *
  simp only [post_getArr_bind]
  split
  · simp [hb]
  · rename_i hne
    obtain ⟨hi, hgt, hcap⟩ := w.ext_of_ne hne
    have hown : ownBlocks cfg x.arr = [x.arr.cap] := own_of_gt (by omega)
    rw [hown] at hb
    split
    · simp [hb, hown]
    · rename_i hle
      simp only [Bool.or_eq_true, decide_eq_true_eq, not_or, Nat.not_le] at hle
      have hre : ∀ (x' : Sys α), x'.arr = x.arr → x'.blocks = x.blocks → x'.objs = x.objs → x'.bad = x.bad →
          Post (do reallocB x.arr.cap exp; setArr { x.arr with cap := exp }; pure true) x'
            (fun ok y => ok = true ∧ y.arr = { x.arr with cap := exp } ∧
              y.blocks = ownBlocks cfg y.arr ++ rest ∧ y.objs = x.objs ∧ y.bad = x.bad)
            (fun y => y.core = x.core) := by
        intro x' ha hbl ho hbd
        apply Post.bind' _ _ (reallocB_spec _ _ _)
        · intro y hy
          simp only [core_eq_iff] at hy ⊢
          simp only [hy, ha, hbl, ho, hbd, and_self]
        · intro _ y hy
          simp only [core_eq_mk, core_arr, core_blocks, core_bad, core_objs] at hy
          obtain ⟨ya, yb, yo, ybad⟩ := hy
          simp only [post_setArr_bind, post_pure, true_and]
          rw [own_ext _ _ hle.2 hi]
          refine ⟨?_, by omega, ?_⟩
          · rw [yb, hbl, hb]
            split
            · rename_i h; simp [h]
            · simp
          · rw [ybad, hbl, hb, hbd]; simp
      split
      · split
        · simp [hb, hown]
        · split
          · simp only [post_inplaceB_bind, post_setArr_bind, post_pure, true_and]
            rw [own_ext _ _ hle.1 hi, hb]
            simp
          · simp only [post_inplaceB_bind]
            split
            · exact hre _ rfl (by simp) rfl (by simp)
            · simp [hb, hown]
      · split
        · exact hre _ rfl rfl rfl rfl
        · simp [hb, hown]

theorem resetF_spec (cfg : Cfg) (newCap : Nat) (creator : FM α (Cells α)) (x : Sys α) (rest : List Nat)
    (newCells : Cells α) (d : Nat) (w : WF cfg x.arr) (hb : Frame cfg rest x)
    (hext : newCap ≤ cfg.intCap → cfg.intCap > 0 → capacity cfg x.arr > cfg.intCap)
    (hd0 : newCap ≤ cfg.intCap → cfg.intCap = 0 → d = 0)
    (hc : ∀ z : Sys α, z.arr = x.arr → z.objs = x.objs → z.bad = x.bad →
      Post creator z
        (fun cs z' => cs = newCells ∧ z'.arr = z.arr ∧ z'.blocks = z.blocks ∧ z'.objs = z.objs + d ∧ z'.bad = z.bad)
        (fun z' => z'.core = z.core)) :
    Post (resetF cfg newCap creator) x
      (fun _ y => y.arr = (reset cfg x.arr newCap newCells).1 ∧ Frame cfg rest y ∧ y.objs = x.objs + d ∧ y.bad = x.bad)
      (fun y => y.core = x.core) := by
  unfold resetF reset Frame at *
  simp only [post_getArr_bind]
  split
  · rename_i hgt
    apply Post.bind' _ _ (allocB_spec newCap x) (fun _ h => h)
    intro _ y hy
    simp only [core_eq_mk, core_arr, core_blocks, core_bad, core_objs] at hy
    obtain ⟨ya, yb, yo, ybad⟩ := hy
    apply Post.bind (fun cs z => cs = newCells ∧ z.arr = x.arr ∧ z.blocks = newCap :: x.blocks ∧ z.objs = x.objs + d ∧ z.bad = x.bad)
    · apply Post.tryCatch _ (Post.mono (hc y ya yo ybad) _ (fun _ h => h))
      · intro z hz
        simp only [core_eq_iff] at hz
        obtain ⟨za, zb, zo, zbad⟩ := hz
        simp only [post_deallocB_bind, post_throw, core_eq_iff, za, zb, zo, zbad, ya, yb, yo, ybad, true_and]
        simp
      · rintro cs z ⟨h1, h2, h3, h4, h5⟩
        exact ⟨h1, h2.trans ya, h3.trans yb, by omega, h5.trans ybad⟩
    · rintro cs z ⟨rfl, za, zb, zo, zbad⟩
      have hnew : ownBlocks cfg { x.arr with cells := cs, cap := newCap, internal := false } = [newCap] := by
        apply own_of_gt; simp [capacity]; exact hgt
      split
      · rename_i hcapgt
        have hown : ownBlocks cfg x.arr = [x.arr.cap] := own_of_gt hcapgt
        simp only [post_deallocB_bind, post_setArr, true_and, hnew, zo, zbad, zb, hb, hown]
        refine ⟨?_, ?_⟩
        · by_cases h : newCap = x.arr.cap <;> simp [h, List.erase_cons]
        · simp
      · rename_i hcaple
        have hown : ownBlocks cfg x.arr = [] := own_of_le (by omega)
        simp only [post_pure_bind, post_setArr, true_and, hnew, zo, zbad, zb, hb, hown]
        simp
  · rename_i hle
    split
    · rename_i hpos
      have hcapgt := hext (by omega) hpos
      have hown : ownBlocks cfg x.arr = [x.arr.cap] := own_of_gt hcapgt
      apply Post.bind' _ _ (hc x rfl rfl rfl) (fun _ h => h)
      rintro cs z ⟨rfl, za, zb, zo, zbad⟩
      have hnew : ownBlocks cfg { x.arr with cells := cs, internal := true } = [] := by
        apply own_of_le; simp [capacity]
      simp only [post_deallocB_bind, post_setArr, true_and, hnew, zo, zbad, zb, hb, hown]
      simp
    · rename_i h0
      have hd : d = 0 := hd0 (by omega) (by omega)
      have hnew : ownBlocks cfg ({ x.arr with cells := [], cap := 0, internal := false } : State α) = [] := by
        apply own_of_le; simp [capacity]
      split
      · rename_i hcapgt
        have hown : ownBlocks cfg x.arr = [x.arr.cap] := own_of_gt hcapgt
        simp only [post_deallocB_bind, post_setArr, true_and, hnew, hb, hown, hd]
        simp
      · have hown : ownBlocks cfg x.arr = [] := own_of_le (by omega)
        simp only [post_pure_bind, post_setArr, true_and, hnew, hb, hown, hd]
        simp

/-- the relocating creator in the form `resetF_spec` wants -/
theorem relocate_creator (cfg : Cfg) (thr : Thr) (x : Sys α) :
    ∀ z : Sys α, z.arr = x.arr → z.objs = x.objs → z.bad = x.bad →
      Post (relocateF cfg thr) z
        (fun cs z' => cs = x.arr.cells ∧ z'.arr = z.arr ∧ z'.blocks = z.blocks ∧ z'.objs = z.objs + 0 ∧ z'.bad = z.bad)
        (fun z' => z'.core = z.core) := by
  intro z ha _ _
  apply Post.mono (relocateF_spec cfg thr z) _ (fun _ h => h)
  rintro cs z' ⟨h1, h2⟩
  simp only [core_eq_iff] at h2
  exact ⟨by rw [h1, ha], h2.1, h2.2.1, by omega, h2.2.2.2⟩

theorem moveToF_spec (cfg : Cfg) (thr : Thr) (lin exp : Nat) (x : Sys α) (rest : List Nat) (w : WF cfg x.arr)
    (hb : Frame cfg rest x) (hext : exp ≤ cfg.intCap → cfg.intCap > 0 → capacity cfg x.arr > cfg.intCap) :
    Post (moveToF cfg thr lin exp) x
      (fun _ y => y.arr = (moveTo cfg x.arr lin exp).1 ∧ Frame cfg rest y ∧ y.objs = x.objs ∧ y.bad = x.bad)
      (fun y => y.core = x.core) := by
  unfold moveToF moveTo
  apply Post.bind' _ _ (reallocateF_spec cfg lin exp x rest w hb) (fun _ h => h)
  rintro ok y ⟨rfl, ya, yf, yo, ybad⟩
  split
  · rename_i h
    simp only [h, ↓reduceIte, post_pure]
    exact ⟨ya, yf, yo, ybad⟩
  · rename_i h
    simp only [h, Bool.false_eq_true, ↓reduceIte]
    have hs : (reallocate cfg x.arr lin exp).2.1 = x.arr := by
      rcases reallocate_cases cfg x.arr lin exp with ⟨_, h2⟩ | ⟨h1, _⟩
      · exact h2
      · exact absurd h1 h
    rw [hs] at ya
    have := resetF_spec cfg exp (relocateF cfg thr) y rest x.arr.cells 0 (ya ▸ w) yf (by rw [ya]; exact hext) (fun _ _ => rfl)
      (by
        have := relocate_creator cfg thr x
        intro z h1 h2 h3
        exact this z (h1.trans ya) (h2.trans yo) (h3.trans ybad))
    apply Post.mono this
    · rintro _ z ⟨za, zf, zo, zbad⟩
      exact ⟨by rw [za, ya], zf, by omega, zbad.trans ybad⟩
    · intro z hz
      simp only [core_eq_iff] at hz ⊢
      obtain ⟨za, zb, zo, zbad⟩ := hz
      have hbx : y.blocks = x.blocks := by
        unfold Frame at yf hb; rw [yf, hb, ya]
      exact ⟨za.trans ya, zb.trans hbx, zo.trans yo, zbad.trans ybad⟩

theorem growF_spec (cfg : Cfg) (thr : Thr) (minNew : Nat) (r : Bool) (x : Sys α) (rest : List Nat) (w : WF cfg x.arr)
    (hb : Frame cfg rest x) (hpos : capacity cfg x.arr < minNew) :
    Post (growF cfg thr minNew r) x
      (fun _ y => y.arr = (grow cfg x.arr minNew r).1 ∧ Frame cfg rest y ∧ y.objs = x.objs ∧ y.bad = x.bad)
      (fun y => y.core = x.core) := by
  unfold growF grow
  simp only [post_getArr_bind]
  apply moveToF_spec cfg thr _ _ x rest w hb
  intro h1 _
  have := growCapacity_ge cfg.growOnReserve (capacity cfg x.arr) minNew r false
  have := w.cap_ge
  omega

end Momo.ArrF
