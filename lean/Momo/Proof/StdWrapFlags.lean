import Momo.Proof.StdWrapHint
/-!
  Lemmas for C06, part 4: `find` / `at` on the ordered maps and the association-list lemmas behind
  `try_emplace` / `insert_or_assign` of unordered_map.
-/
namespace Momo.StdWrap
open List

theorem found_iff (xs : List Item) (hs : Sorted xs) (k : Nat) :
    (lb k xs < xs.length ∧ ¬ k < keyAt xs (lb k xs)) ↔ lb k xs < ub k xs := by
  have hub := ub_le_length k xs
  constructor
  · intro ⟨h1, h2⟩
    have := lt_at_iff k xs hs (lb k xs) h1
    apply Decidable.byContradiction; intro hn
    exact h2 (this.mpr (by omega))
  · intro h
    refine ⟨by omega, ?_⟩
    have := ub_le k xs (lb k xs) h; omega

theorem ordFind_spec (xs : List Item) (hs : Sorted xs) (k : Nat) :
    ordFind xs k = if lb k xs < ub k xs then lb k xs else xs.length := by
  unfold ordFind
  by_cases h : lb k xs < ub k xs
  · rw [if_pos ((found_iff xs hs k).mpr h), if_pos h]
  · rw [if_neg (fun hh => h ((found_iff xs hs k).mp hh)), if_neg h]

theorem mapAt_none_iff (xs : List Item) (hs : Sorted xs) (k : Nat) :
    mapAt xs k = none ↔ ¬ ∃ e ∈ xs, e.1 = k := by
  rw [← present_iff xs hs k]
  unfold mapAt
  rw [ordFind_spec xs hs k]
  have hub := ub_le_length k xs
  by_cases h : lb k xs < ub k xs
  · have : lb k xs ≠ xs.length := by omega
    simp [h, this]
  · simp [h]

theorem keyAt_lb_present (xs : List Item) (hs : Sorted xs) (k : Nat) (h : lb k xs < ub k xs) :
    keyAt xs (lb k xs) = k := by
  have hub := ub_le_length k xs
  have h1 := lb_ge k xs hs (lb k xs) (Nat.le_refl _) (by omega)
  have h2 := ub_le k xs (lb k xs) h
  omega

theorem lookup_append_single (m : List Item) (k v k' : Nat) :
    (m ++ [(k, v)]).lookup k' = match m.lookup k' with | some w => some w | none => if k' = k then some v else none := by
  induction m with
  | nil => simp [lookup]
  | cons e t ih =>
    obtain ⟨a, b⟩ := e
    by_cases h : k' = a
    · subst h; simp [lookup]
    · have : (k' == a) = false := by simpa using h
      simp only [cons_append, lookup, this]; exact ih

theorem lookup_assign (m : List Item) (k v k' : Nat) :
    (assign m k v).lookup k' = if k' = k then (m.lookup k).map (fun _ => v) else m.lookup k' := by
  induction m with
  | nil => simp [assign, lookup]
  | cons e t ih =>
    obtain ⟨a, b⟩ := e
    unfold assign at ih ⊢
    simp only [map_cons]
    by_cases ha : a = k
    · subst ha
      by_cases h : k' = a
      · subst h; simp [lookup]
      · have : (k' == a) = false := by simpa using h
        simp only [if_true, lookup, this, ih, h, if_false]
    · simp only [ha, if_false]
      by_cases h : k' = a
      · subst h; simp [lookup, ha]
      · have : (k' == a) = false := by simpa using h
        simp only [lookup, this, ih]
        by_cases hk : k' = k
        · subst hk; have : (k' == a) = false := by simpa using h
          simp [this]
        · simp [hk]

theorem ordEqualRange_spec (xs : List Item) (hs : StrictSorted xs) (k : Nat) :
    ordEqualRange false xs k = (lb k xs, ub k xs) := by
  have hsr := strict_sorted xs hs
  have h1 := lb_le_ub k xs
  have h2 := ub_le_lb_succ k xs hs
  have h3 := ub_le_length k xs
  have hf := found_iff xs hsr k
  unfold ordEqualRange
  simp only [Bool.false_eq_true, if_false]
  by_cases hc : lb k xs = xs.length ∨ k < keyAt xs (lb k xs)
  · rw [if_pos hc]
    have : ¬ lb k xs < ub k xs := by
      intro hlt
      have := hf.mpr hlt
      rcases hc with hc | hc
      · omega
      · exact this.2 hc
    congr 1; omega
  · rw [if_neg hc]
    have hlt : lb k xs < ub k xs := hf.mp ⟨by
      have := lb_le_length k xs
      apply Decidable.byContradiction; intro hn; exact hc (Or.inl (by omega)), fun hk => hc (Or.inr hk)⟩
    congr 1; omega

theorem insertNode_unique (xs : List Item) (hs : StrictSorted xs) (x : Item) :
    insertNode false xs (some x) =
      (if lb x.1 xs < ub x.1 xs then (xs, lb x.1 xs, false, some x) else (insertAt xs (lb x.1 xs) x, lb x.1 xs, true, none)) := by
  unfold insertNode treeInsert
  simp only [treeFind_unique xs hs x.1]
  split <;> simp

end Momo.StdWrap
