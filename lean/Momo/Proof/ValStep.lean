import Momo.Proof.ValInv
/-!
  Every primitive step of the value-semantics model preserves the ownership invariant `WF` and changes only
  the objects it names (`Frame`); hence every run and every special member function does (C14).
-/
namespace Momo.Val

/-- the objects a step may change -/
def Prim.writes : Prim → List Nat
  | .new i _ => [i]
  | .copy j _ _ => [j]
  | .move j i => [i, j]
  | .swap i j => [i, j]
  | .destroy i => [i]
  | .clear i _ => [i]
  | .setLayout i _ _ _ _ => [i]

theorem fresh_allocCells {w : World} (wf : WF w) (m : Mgr) (ls : List (List Elem)) :
    ∀ h, (allocCells m ls w.heap).2.next ≤ h → (allocCells m ls w.heap).2.get h = none := by
  intro h hh
  rw [allocCells_next] at hh
  exact allocCells_get_fresh m ls w.heap wf.fresh h hh

theorem fresh_freeCells {H : Heap} (hf : ∀ h, H.next ≤ h → H.get h = none) (hs : List Nat) :
    ∀ h, (freeCells hs H).next ≤ h → (freeCells hs H).get h = none := by
  intro h hh
  rw [freeCells_next] at hh
  rw [freeCells_get]; split
  · rfl
  · exact hf h hh

theorem fresh_emptyCells {H : Heap} (hf : ∀ h, H.next ≤ h → H.get h = none) (hs : List Nat) :
    ∀ h, (emptyCells hs H).next ≤ h → (emptyCells hs H).get h = none := by
  intro h hh
  rw [emptyCells_next] at hh
  rw [emptyCells_get, hf h hh]; split <;> rfl

/-! ### new -/
theorem new_sound (k : Kind) {w : World} (wf : WF w) (i : Nat) (m : Mgr) (hi : w.objs i = none) :
    let r := allocCells m (List.replicate k.auxCount []) w.heap
    WF ⟨r.2, upd w.objs i (some ⟨some m, r.1, [], [], 0⟩)⟩ ∧
    Frame w ⟨r.2, upd w.objs i (some ⟨some m, r.1, [], [], 0⟩)⟩ [i] := by
  intro r
  apply wf.update_slot i _ r.2 (fresh_allocCells wf m _)
  · intro j d _ hd h hh
    exact allocCells_get_old m _ w.heap h (wf.owned_lt hd hh)
  · refine ⟨by simpa [Cont.owned] using allocCells_fst_nodup m _ w.heap, ?_, by simp⟩
    intro h hh
    have hh : h ∈ r.1 := by simpa [Cont.owned] using hh
    obtain ⟨cell, hg, hm⟩ := allocCells_get_mem m _ w.heap h hh
    exact ⟨cell, hg, by simp [hm]⟩
  · intro j d _ hd h hh hh'
    have hh : h ∈ r.1 := by simpa [Cont.owned] using hh
    have := (mem_allocCells_fst.mp hh).1
    have := wf.owned_lt hd hh'
    omega

/-! ### copy -/
theorem copy_sound (k : Kind) {w : World} (wf : WF w) (j : Nat) (m : Mgr) (inl : List Elem) (ls : List (List Elem)) (cap : Nat) :
    let ra := allocCells m (List.replicate k.auxCount []) w.heap
    let rb := allocCells m ls ra.2
    WF ⟨rb.2, upd w.objs j (some ⟨some m, ra.1, inl, rb.1, cap⟩)⟩ ∧
    Frame w ⟨rb.2, upd w.objs j (some ⟨some m, ra.1, inl, rb.1, cap⟩)⟩ [j] := by
  intro ra rb
  have hnext : ra.2.next = w.heap.next + k.auxCount := by
    simpa using allocCells_next m (List.replicate k.auxCount []) w.heap
  have hfa : ∀ h, ra.2.next ≤ h → ra.2.get h = none := fresh_allocCells wf m _
  apply wf.update_slot j _ rb.2
  · intro h hh
    rw [allocCells_next] at hh
    exact allocCells_get_fresh m ls ra.2 hfa h hh
  · intro x d _ hd h hh
    have hlt := wf.owned_lt hd hh
    rw [allocCells_get_old m ls ra.2 h (by omega)]
    exact allocCells_get_old m _ w.heap h hlt
  · refine ⟨?_, ?_, by simp⟩
    · show (ra.1 ++ rb.1).Nodup
      rw [List.nodup_append]
      refine ⟨allocCells_fst_nodup m _ _, allocCells_fst_nodup m _ _, ?_⟩
      intro a ha b hb
      have h1 := (mem_allocCells_fst.mp ha).2
      have h2 := (mem_allocCells_fst.mp hb).1
      simp only [List.length_replicate] at h1
      omega
    · intro h hh
      have hh : h ∈ ra.1 ∨ h ∈ rb.1 := by simpa [Cont.owned] using hh
      rcases hh with hh | hh
      · obtain ⟨cell, hg, hm⟩ := allocCells_get_mem m _ w.heap h hh
        have hlt := (mem_allocCells_fst.mp hh).2
        simp only [List.length_replicate] at hlt
        refine ⟨cell, ?_, by simp [hm]⟩
        rw [allocCells_get_old m ls ra.2 h (by omega)]; exact hg
      · obtain ⟨cell, hg, hm⟩ := allocCells_get_mem m ls ra.2 h hh
        exact ⟨cell, hg, by simp [hm]⟩
  · intro x d _ hd h hh hh'
    have hlt := wf.owned_lt hd hh'
    have hh : h ∈ ra.1 ∨ h ∈ rb.1 := by simpa [Cont.owned] using hh
    rcases hh with hh | hh
    · have := (mem_allocCells_fst.mp hh).1; omega
    · have := (mem_allocCells_fst.mp hh).1; omega

/-! ### move -/
theorem nullOf_owned (k : Kind) (s : Cont) : (nullOf k s).owned = [] := rfl

theorem move_sound (k : Kind) {w : World} (wf : WF w) (j i : Nat) (s : Cont) (hj : w.objs j = none) (hi : w.objs i = some s) :
    WF ⟨w.heap, upd (upd w.objs i (some (nullOf k s))) j (some s)⟩ ∧
    Frame w ⟨w.heap, upd (upd w.objs i (some (nullOf k s))) j (some s)⟩ [i, j] := by
  have hij : i ≠ j := by intro e; subst e; rw [hj] at hi; cases hi
  obtain ⟨wf1, f1⟩ := wf.update_slot i (nullOf k s) w.heap wf.fresh (fun _ _ _ _ _ _ => rfl)
    ⟨by simp [nullOf_owned], by simp [nullOf_owned], fun _ => rfl⟩ (by simp [nullOf_owned])
  obtain ⟨wf2, f2⟩ := wf1.update_slot j s w.heap wf.fresh (fun _ _ _ _ _ _ => rfl) (wf.ok i s hi) (by
    intro x d hx hd h hh
    dsimp only at hd
    by_cases hxi : x = i
    · subst hxi; simp at hd; subst hd; simp [nullOf_owned]
    · rw [upd_other _ _ hxi] at hd
      exact wf.disj i x s d (fun e => hxi e.symm) hi hd h hh)
  exact ⟨wf2, f1.trans f2⟩

/-! ### swap -/
theorem swap_sound {w : World} (wf : WF w) (i j : Nat) (a b : Cont) (hi : w.objs i = some a) (hj : w.objs j = some b) :
    WF ⟨w.heap, upd (upd w.objs i (some b)) j (some a)⟩ ∧
    Frame w ⟨w.heap, upd (upd w.objs i (some b)) j (some a)⟩ [i, j] := by
  have e : upd (upd w.objs i (some b)) j (some a) = fun x => w.objs (if x = i then j else if x = j then i else x) := by
    funext x
    by_cases hxj : x = j
    · subst hxj
      by_cases hxi : x = i
      · subst hxi; simp [hi]
      · simp [upd, hxi, hi]
    · by_cases hxi : x = i
      · subst hxi; simp [upd, hxj, hj]
      · simp [upd, hxi, hxj]
  constructor
  · rw [e]
    apply wf.rename
    intro x y hxy
    by_cases h1 : x = i <;> by_cases h2 : y = i <;> by_cases h3 : x = j <;> by_cases h4 : y = j <;> simp_all
  · intro x hx
    have hxi : x ≠ i := fun h => hx (by simp [h])
    have hxj : x ≠ j := fun h => hx (by simp [h])
    exact ⟨by simp [upd, hxi, hxj], fun _ _ _ _ => rfl⟩

/-! ### destroy -/
theorem destroy_sound {w : World} (wf : WF w) (i : Nat) (c : Cont) (hi : w.objs i = some c) :
    WF ⟨freeCells c.owned w.heap, upd w.objs i none⟩ ∧ Frame w ⟨freeCells c.owned w.heap, upd w.objs i none⟩ [i] := by
  apply wf.kill_slot i _ (fresh_freeCells wf.fresh _)
  intro x d hx hd h hh
  rw [freeCells_get]
  have : h ∉ c.owned := fun hc => wf.disj i x c d (fun e => hx e.symm) hi hd h hc hh
  simp [this]

theorem destroy_null_sound {w : World} (wf : WF w) (i : Nat) :
    WF ⟨w.heap, upd w.objs i none⟩ ∧ Frame w ⟨w.heap, upd w.objs i none⟩ [i] :=
  wf.kill_slot i _ wf.fresh (fun _ _ _ _ _ _ => rfl)

/-! ### clear -/
theorem clear_sound {w : World} (wf : WF w) (i keep : Nat) (c : Cont) (hi : w.objs i = some c) (cap : Nat) :
    let H' := freeCells (c.body.drop keep) (emptyCells (c.body.take keep) w.heap)
    let c' : Cont := { c with inl := [], body := c.body.take keep, cap := cap }
    WF ⟨H', upd w.objs i (some c')⟩ ∧ Frame w ⟨H', upd w.objs i (some c')⟩ [i] := by
  intro H' c'
  have hget : ∀ h, h ∉ c.body → H'.get h = w.heap.get h := by
    intro h hh
    have h1 : h ∉ c.body.drop keep := fun e => hh (List.mem_of_mem_drop e)
    have h2 : h ∉ c.body.take keep := fun e => hh (List.mem_of_mem_take e)
    show (freeCells _ (emptyCells _ _)).get h = _
    rw [freeCells_get, emptyCells_get]; simp [h1, h2]
  have hnd := (wf.ok i c hi).nodup
  have hnd' : (c.aux ++ c.body).Nodup := hnd
  rw [List.nodup_append] at hnd'
  obtain ⟨_, hbody, haux⟩ := hnd'
  apply wf.update_slot i c' H'
  · exact fresh_freeCells (fresh_emptyCells wf.fresh _) _
  · intro x d hx hd h hh
    apply hget
    intro hb
    exact wf.disj i x c d (fun e => hx e.symm) hi hd h (List.mem_append.mpr (Or.inr hb)) hh
  · refine ⟨?_, ?_, fun _ => rfl⟩
    · show (c.aux ++ c.body.take keep).Nodup
      exact List.Nodup.sublist (List.Sublist.append_left (List.take_sublist keep c.body) c.aux) hnd
    · intro h hh
      have hh : h ∈ c.aux ∨ h ∈ c.body.take keep := by simpa [Cont.owned] using hh
      rcases hh with hh | hh
      · have hnb : h ∉ c.body := fun hb => haux h hh h hb rfl
        rw [hget h hnb]
        exact (wf.ok i c hi).live h (List.mem_append.mpr (Or.inl hh))
      · have hb : h ∈ c.body := List.mem_of_mem_take hh
        obtain ⟨cell, hg, hm⟩ := (wf.ok i c hi).live h (List.mem_append.mpr (Or.inr hb))
        have hnd : h ∉ c.body.drop keep := by
          intro hd
          have := hbody
          rw [← List.take_append_drop keep c.body, List.nodup_append] at this
          exact this.2.2 h hh h hd rfl
        refine ⟨⟨cell.mgr, []⟩, ?_, hm⟩
        show (freeCells _ (emptyCells _ _)).get h = _
        rw [freeCells_get, emptyCells_get]; simp [hnd, hh, hg]
  · intro x d hx hd h hh
    have hh : h ∈ c.aux ∨ h ∈ c.body.take keep := by simpa [Cont.owned] using hh
    apply wf.disj i x c d (fun e => hx e.symm) hi hd h
    rcases hh with hh | hh
    · exact List.mem_append.mpr (Or.inl hh)
    · exact List.mem_append.mpr (Or.inr (List.mem_of_mem_take hh))

/-! ### setLayout -/
theorem setLayout_sound {w : World} (wf : WF w) (i : Nat) (c : Cont) (m : Mgr) (hi : w.objs i = some c) (hm : c.mgr = some m)
    (inl : List Elem) (cells : List (List Elem)) (cap : Nat) :
    let r := allocCells m cells (freeCells c.body w.heap)
    let c' : Cont := { c with inl := inl, body := r.1, cap := cap }
    WF ⟨r.2, upd w.objs i (some c')⟩ ∧ Frame w ⟨r.2, upd w.objs i (some c')⟩ [i] := by
  intro r c'
  have hnext : (freeCells c.body w.heap).next = w.heap.next := freeCells_next _ _
  have hff := fresh_freeCells wf.fresh c.body
  have hnd' : (c.aux ++ c.body).Nodup := (wf.ok i c hi).nodup
  rw [List.nodup_append] at hnd'
  obtain ⟨hauxnd, _, haux⟩ := hnd'
  have hold : ∀ h, h < w.heap.next → h ∉ c.body → r.2.get h = w.heap.get h := by
    intro h hlt hb
    show (allocCells m cells (freeCells c.body w.heap)).2.get h = _
    rw [allocCells_get_old m cells _ h (by omega), freeCells_get]; simp [hb]
  apply wf.update_slot i c' r.2
  · intro h hh
    have : (freeCells c.body w.heap).next + cells.length ≤ h := by
      have e := allocCells_next m cells (freeCells c.body w.heap)
      have hh' : (allocCells m cells (freeCells c.body w.heap)).2.next ≤ h := hh
      omega
    exact allocCells_get_fresh m cells _ hff h this
  · intro x d hx hd h hh
    apply hold h (wf.owned_lt hd hh)
    intro hb
    exact wf.disj i x c d (fun e => hx e.symm) hi hd h (List.mem_append.mpr (Or.inr hb)) hh
  · refine ⟨?_, ?_, fun e => by simp [c', hm] at e⟩
    · show (c.aux ++ r.1).Nodup
      rw [List.nodup_append]
      refine ⟨hauxnd, allocCells_fst_nodup m cells _, ?_⟩
      intro a ha b hb
      have h1 := wf.owned_lt hi (List.mem_append.mpr (Or.inl ha))
      have h2 := (mem_allocCells_fst.mp hb).1
      omega
    · intro h hh
      have hh : h ∈ c.aux ∨ h ∈ r.1 := by simpa [Cont.owned] using hh
      rcases hh with hh | hh
      · have hnb : h ∉ c.body := fun hb => haux h hh h hb rfl
        have hlt := wf.owned_lt hi (List.mem_append.mpr (Or.inl hh))
        rw [hold h hlt hnb]
        exact (wf.ok i c hi).live h (List.mem_append.mpr (Or.inl hh))
      · obtain ⟨cell, hg, hmm⟩ := allocCells_get_mem m cells _ h hh
        exact ⟨cell, hg, by rw [hmm]; exact hm⟩
  · intro x d hx hd h hh hh'
    have hh : h ∈ c.aux ∨ h ∈ r.1 := by simpa [Cont.owned] using hh
    rcases hh with hh | hh
    · exact wf.disj i x c d (fun e => hx e.symm) hi hd h (List.mem_append.mpr (Or.inl hh)) hh'
    · have h1 := wf.owned_lt hd hh'
      have h2 := (mem_allocCells_fst.mp hh).1
      omega

/-! ### every primitive step -/
theorem prim_sound (k : Kind) {w w' : World} {evs : List Ev} (wf : WF w) (p : Prim)
    (h : p.exec k w = some (w', evs)) : WF w' ∧ Frame w w' p.writes := by
  cases p with
  | new i m =>
    simp only [Prim.exec] at h
    split at h
    · cases h
    · rename_i hi
      simp only [Option.some.injEq, Prod.mk.injEq] at h
      obtain ⟨rfl, _⟩ := h
      exact new_sound k wf i m hi
  | copy j i m =>
    simp only [Prim.exec] at h
    split at h
    · rename_i s hj hi
      split at h
      · cases h
      · split at h
        · simp only [Option.some.injEq, Prod.mk.injEq] at h
          obtain ⟨rfl, _⟩ := h
          have := copy_sound k wf j m (contents w.heap s) [] 0
          simpa [allocCells, Prim.writes] using this
        · simp only [Option.some.injEq, Prod.mk.injEq] at h
          obtain ⟨rfl, _⟩ := h
          exact copy_sound k wf j m [] _ _
    · cases h
  | move j i =>
    simp only [Prim.exec] at h
    split at h
    · rename_i s hj hi
      simp only [Option.some.injEq, Prod.mk.injEq] at h
      obtain ⟨rfl, _⟩ := h
      exact move_sound k wf j i s hj hi
    · cases h
  | swap i j =>
    simp only [Prim.exec] at h
    split at h
    · rename_i a b hi hj
      simp only [Option.some.injEq, Prod.mk.injEq] at h
      obtain ⟨rfl, _⟩ := h
      exact swap_sound wf i j a b hi hj
    · cases h
  | destroy i =>
    simp only [Prim.exec] at h
    split at h
    · cases h
    · rename_i c hi
      split at h
      · split at h
        · simp only [Option.some.injEq, Prod.mk.injEq] at h
          obtain ⟨rfl, _⟩ := h
          exact destroy_null_sound wf i
        · cases h
      · simp only [Option.some.injEq, Prod.mk.injEq] at h
        obtain ⟨rfl, _⟩ := h
        exact destroy_sound wf i c hi
  | clear i keep =>
    simp only [Prim.exec] at h
    split at h
    · cases h
    · rename_i c hi
      split at h
      · split at h
        · simp only [Option.some.injEq, Prod.mk.injEq] at h
          obtain ⟨rfl, _⟩ := h
          exact ⟨wf, Frame.refl _ _⟩
        · cases h
      · simp only [Option.some.injEq, Prod.mk.injEq] at h
        obtain ⟨rfl, _⟩ := h
        exact clear_sound wf i keep c hi _
  | setLayout i inl cells cap src =>
    simp only [Prim.exec] at h
    split at h
    · cases h
    · rename_i c hi
      split at h
      · cases h
      · rename_i m hm
        split at h
        · simp only [Option.some.injEq, Prod.mk.injEq] at h
          obtain ⟨rfl, _⟩ := h
          exact setLayout_sound wf i c m hi hm inl cells cap
        · cases h

def writesAll (ps : List Prim) : List Nat := ps.flatMap Prim.writes

theorem run_sound (k : Kind) {w w' : World} {evs : List Ev} (wf : WF w) (ps : List Prim)
    (h : run k w ps = some (w', evs)) : WF w' ∧ Frame w w' (writesAll ps) := by
  induction ps generalizing w evs with
  | nil =>
    simp only [run, Option.some.injEq, Prod.mk.injEq] at h
    obtain ⟨rfl, _⟩ := h
    exact ⟨wf, Frame.refl _ _⟩
  | cons p ps ih =>
    simp only [run] at h
    split at h
    · cases h
    · rename_i w1 e1 h1
      split at h
      · cases h
      · rename_i w2 e2 h2
        simp only [Option.some.injEq, Prod.mk.injEq] at h
        obtain ⟨rfl, _⟩ := h
        obtain ⟨wf1, f1⟩ := prim_sound k wf p h1
        obtain ⟨wf2, f2⟩ := ih wf1 h2
        exact ⟨wf2, by simpa [writesAll] using f1.trans f2⟩

/-! ### the special member functions -/

/-- the objects an operation may change (the temporaries included) -/
def Op.writes (cfg : Cfg) : Op → List Nat
  | .new i _ => [i]
  | .copyCtor j _ => [j]
  | .copyCtorM j _ _ => [j]
  | .moveCtor j i => [i, j]
  | .swap i j => [i, j, cfg.t1]
  | .copyAssign i _ => [i, cfg.t1]
  | .moveAssign i j => [i, j, cfg.t1]
  | .destroy i => [i]
  | .clear i _ => [i]
  | .mutate i _ _ _ => [i]
  | .wMoveCtorA j i _ _ _ => [i, j]
  | .wCopyAssign i _ => [i, cfg.t1, cfg.t2]
  | .wMoveAssign i j _ _ => [i, j, cfg.t1, cfg.t2]

theorem createFrom_writes {w : World} {j i : Nat} {a : Mgr} {lay : Lay} {keep : Nat} {ps : List Prim}
    (h : createFrom w j i a lay keep = some ps) : ∀ x, x ∈ writesAll ps → x = i ∨ x = j := by
  unfold createFrom at h
  split at h
  · cases h
  · split at h <;> (cases h; intro x hx; simp [writesAll, Prim.writes] at hx; omega)

theorem expand_writes (cfg : Cfg) (w : World) (op : Op) (ps : List Prim) (h : expand cfg w op = some ps) :
    ∀ x, x ∈ writesAll ps → x ∈ op.writes cfg := by
  cases op with
  | new i m => cases h; simp [writesAll, Prim.writes, Op.writes]
  | copyCtor j i =>
    simp only [expand] at h; split at h
    · cases h
    · cases h; simp [writesAll, Prim.writes, Op.writes]
  | copyCtorM j i m => cases h; simp [writesAll, Prim.writes, Op.writes]
  | moveCtor j i => cases h; simp [writesAll, Prim.writes, Op.writes]
  | swap i j =>
    simp only [expand, nativeSwap] at h
    split at h
    · split at h <;> (cases h; intro x hx; simp [writesAll, Prim.writes, Op.writes] at hx ⊢ <;> omega)
    · cases h; simp [writesAll, Prim.writes, Op.writes]
  | copyAssign i j =>
    simp only [expand] at h
    split at h
    · cases h; simp [writesAll]
    · split at h
      · cases h
      · split at h <;> (cases h; intro x hx; simp [writesAll, Prim.writes, Op.writes] at hx ⊢ <;> omega)
  | moveAssign i j =>
    simp only [expand, nativeMoveAssign] at h
    split at h
    · split at h <;> (cases h; intro x hx; simp [writesAll, Prim.writes, Op.writes] at hx ⊢ <;> omega)
    · cases h; intro x hx; simp [writesAll, Prim.writes, Op.writes] at hx ⊢; omega
  | destroy i => cases h; simp [writesAll, Prim.writes, Op.writes]
  | clear i keep => cases h; simp [writesAll, Prim.writes, Op.writes]
  | mutate i inl cells cap => cases h; simp [writesAll, Prim.writes, Op.writes]
  | wMoveCtorA j i a lay keep =>
    simp only [expand] at h
    intro x hx
    have := createFrom_writes h x hx
    simp [Op.writes]; omega
  | wCopyAssign i j =>
    simp only [expand] at h
    split at h
    · cases h; simp [writesAll]
    · split at h
      · cases h
      · split at h <;> (cases h; intro x hx; simp [writesAll, Prim.writes, Op.writes] at hx ⊢ <;> omega)
  | wMoveAssign i j lay keep =>
    simp only [expand] at h
    split at h
    · cases h; simp [writesAll]
    · split at h
      · cases h
      · split at h
        · rename_i a _ _
          cases hc : createFrom w cfg.t1 j a lay keep with
          | none => simp [hc] at h
          | some qs =>
            simp only [hc, Option.map_some, Option.some.injEq] at h
            subst h
            intro x hx
            simp only [writesAll, List.flatMap_append, List.mem_append] at hx
            rcases hx with hx | hx
            · have := createFrom_writes hc x hx; simp [Op.writes]; omega
            · simp [Prim.writes] at hx; simp [Op.writes]; omega
        · rename_i a _ _
          cases hc : createFrom w cfg.t2 j a lay keep with
          | none => simp [hc] at h
          | some qs =>
            simp only [hc, Option.map_some, Option.some.injEq] at h
            subst h
            intro x hx
            simp only [writesAll, List.flatMap_append, List.mem_append] at hx
            rcases hx with hx | hx
            · have := createFrom_writes hc x hx; simp [Op.writes]; omega
            · simp [Prim.writes] at hx; simp [Op.writes]; omega

/-- **every operation keeps the world well-formed and touches only the objects it names** -/
theorem step_sound (cfg : Cfg) {w w' : World} {evs : List Ev} (wf : WF w) (op : Op)
    (h : step cfg w op = some (w', evs)) : WF w' ∧ Frame w w' (op.writes cfg) := by
  unfold step at h
  split at h
  · cases h
  · rename_i ps hps
    obtain ⟨wf', f⟩ := run_sound cfg.k wf ps h
    exact ⟨wf', f.mono (expand_writes cfg w op ps hps)⟩

theorem runOps_sound (cfg : Cfg) {w w' : World} (wf : WF w) (ops : List Op) (h : runOps cfg w ops = some w') :
    WF w' ∧ Frame w w' (ops.flatMap (Op.writes cfg)) := by
  induction ops generalizing w with
  | nil => simp only [runOps, Option.some.injEq] at h; subst h; exact ⟨wf, Frame.refl _ _⟩
  | cons op ops ih =>
    simp only [runOps] at h
    split at h
    · cases h
    · rename_i w1 e1 h1
      obtain ⟨wf1, f1⟩ := step_sound cfg wf op h1
      obtain ⟨wf2, f2⟩ := ih wf1 h
      exact ⟨wf2, by simpa using f1.trans f2⟩

end Momo.Val
