import Momo.Proof.StdWUnoOps
/-!
  Lemmas for the C06 history theorem, `unordered_multimap`, part 1: the flat traversal (`MM.pairs`) of a table
  key -> value array with distinct keys, and what the native operations do to it.
-/
namespace Momo.StdW
open Momo.StdWrap List
open Momo.StdSpec hiding Item

def KeysNodup (m : MM) : Prop := (m.map (·.1)).Nodup

theorem keysNodup_nil : KeysNodup [] := by simp [KeysNodup]

theorem KeysNodup.tail {e : Nat × List Nat} {t : MM} (h : KeysNodup (e :: t)) : KeysNodup t ∧ e.1 ∉ t.map (·.1) := by
  unfold KeysNodup at h ⊢; simp only [map_cons, nodup_cons] at h; exact ⟨h.2, h.1⟩

theorem KeysNodup.perm {m m' : MM} (h : KeysNodup m) (hp : m'.Perm m) : KeysNodup m' :=
  (Perm.nodup_iff (Perm.map (fun e : Nat × List Nat => e.1) hp)).mpr h

theorem KeysNodup.filter {m : MM} (h : KeysNodup m) (p : Nat × List Nat → Bool) : KeysNodup (m.filter p) :=
  Nodup.sublist (Sublist.map (fun e : Nat × List Nat => e.1) filter_sublist) h

theorem pairs_nil : MM.pairs [] = [] := rfl

theorem pairs_cons (e : Nat × List Nat) (t : MM) : MM.pairs (e :: t) = e.2.map (fun v => (e.1, v)) ++ MM.pairs t := by
  simp [MM.pairs]

theorem pairs_append (a b : MM) : MM.pairs (a ++ b) = MM.pairs a ++ MM.pairs b := by
  simp [MM.pairs]

theorem pairs_perm {m m' : MM} (h : m'.Perm m) : (MM.pairs m').Perm (MM.pairs m) := Perm.flatMap_right _ h

theorem count_eq_length (m : MM) : MM.count m = (MM.pairs m).length := by
  induction m with
  | nil => rfl
  | cons e t ih =>
    rw [pairs_cons]
    simp only [MM.count, map_cons, sum_cons, length_append, length_map] at ih ⊢
    rw [ih]

theorem mem_pairs_key {m : MM} {x : Item} (h : x ∈ MM.pairs m) : x.1 ∈ m.map (·.1) := by
  induction m with
  | nil => simp [pairs_nil] at h
  | cons e t ih =>
    rw [pairs_cons, mem_append] at h
    rcases h with h | h
    · obtain ⟨v, _, rfl⟩ := mem_map.mp h; simp
    · simp only [map_cons, mem_cons]; exact Or.inr (ih h)

theorem filter_key_absent (t : MM) (k : Nat) (h : k ∉ t.map (·.1)) : (MM.pairs t).filter (fun e => e.1 == k) = [] := by
  rw [filter_eq_nil_iff]
  intro x hx
  have := mem_pairs_key hx
  simp only [beq_iff_eq]
  intro hk; exact h (hk ▸ this)

theorem lookup_absent (t : MM) (k : Nat) (h : k ∉ t.map (·.1)) : t.lookup k = none := by
  rw [lookup_eq_none_iff]
  intro e he
  simp only [bne_iff_ne, ne_eq]
  intro hk; exact h (mem_map.mpr ⟨e, he, hk.symm⟩)

/-- the pairs with key `k`, in traversal order, are the values of `k`'s array -/
theorem pairs_filter_key (m : MM) (hn : KeysNodup m) (k : Nat) :
    (MM.pairs m).filter (fun e => e.1 == k) = ((m.lookup k).getD []).map (fun v => (k, v)) := by
  induction m with
  | nil => simp [pairs_nil]
  | cons e t ih =>
    obtain ⟨hn', he⟩ := hn.tail
    obtain ⟨k', vs⟩ := e
    rw [pairs_cons, filter_append]
    by_cases hk : k = k'
    · subst hk
      have h1 : (vs.map (fun v => (k, v))).filter (fun e => e.1 == k) = vs.map (fun v => (k, v)) := by
        rw [filter_eq_self]; intro x hx; obtain ⟨v, _, rfl⟩ := mem_map.mp hx; simp
      simp [h1, filter_key_absent t k he, lookup]
    · have h1 : (vs.map (fun v => (k', v))).filter (fun e => e.1 == k) = [] := by
        rw [filter_eq_nil_iff]; intro x hx; obtain ⟨v, _, rfl⟩ := mem_map.mp hx; simp; exact fun h => hk h.symm
      have h2 : (k == k') = false := by simpa using hk
      simp only [h1, nil_append, lookup, h2]
      exact ih hn'

theorem count_lookup (m : MM) (hn : KeysNodup m) (k : Nat) : ((m.lookup k).getD []).length = countKey k (MM.pairs m) := by
  unfold countKey
  rw [countP_eq_length_filter, pairs_filter_key m hn k, length_map]

theorem hasKey_lookup (m : MM) (hn : KeysNodup m) (k : Nat) :
    decide (0 < ((m.lookup k).getD []).length) = hasKey k (MM.pairs m) := by
  rw [count_lookup m hn k, Bool.eq_iff_iff, decide_eq_true_iff, hasKey_iff']
  unfold countKey
  rw [countP_pos_iff]
  simp

theorem pairs_removeKey (m : MM) (k : Nat) : MM.pairs (mmRemoveKey m k) = (MM.pairs m).filter (fun e => e.1 != k) := by
  unfold mmRemoveKey
  induction m with
  | nil => simp [pairs_nil]
  | cons e t ih =>
    obtain ⟨k', vs⟩ := e
    by_cases hk : k' = k
    · subst hk
      have h1 : (vs.map (fun v => (k', v))).filter (fun e => e.1 != k') = [] := by
        rw [filter_eq_nil_iff]; intro x hx; obtain ⟨v, _, rfl⟩ := mem_map.mp hx; simp
      simp [pairs_cons, filter_append, h1, ih]
    · have h1 : (vs.map (fun v => (k', v))).filter (fun e => e.1 != k) = vs.map (fun v => (k', v)) := by
        rw [filter_eq_self]; intro x hx; obtain ⟨v, _, rfl⟩ := mem_map.mp hx; simpa using hk
      have h2 : (k' != k) = true := by simpa using hk
      simp [pairs_cons, filter_append, h1, h2, ih]

/-- `erase_if`: the values go, every key stays -/
theorem pairs_removeIf (m : MM) (f : Nat → Bool) :
    MM.pairs (m.map (fun e => (e.1, e.2.filter (fun _ => f e.1)))) = (MM.pairs m).filter (fun e => f e.1) ∧
    (m.map (fun e => (e.1, e.2.filter (fun _ => f e.1)))).map (·.1) = m.map (·.1) := by
  induction m with
  | nil => simp [pairs_nil]
  | cons e t ih =>
    obtain ⟨k', vs⟩ := e
    refine ⟨?_, by simp [map_map]⟩
    rw [map_cons, pairs_cons, pairs_cons, filter_append, ih.1]
    congr 1
    by_cases hf : f k' = true
    · simp [hf, filter_map, Function.comp_def]
    · simp [hf, filter_map, Function.comp_def]

/-! ### one key's entry: splitting the table -/

theorem lookup_split (m : MM) (hn : KeysNodup m) (k : Nat) (vs : List Nat) (h : m.lookup k = some vs) :
    ∃ m1 m2, m = m1 ++ (k, vs) :: m2 ∧ k ∉ m1.map (·.1) ∧ k ∉ m2.map (·.1) := by
  induction m with
  | nil => simp at h
  | cons e t ih =>
    obtain ⟨hn', he⟩ := hn.tail
    obtain ⟨k', vs'⟩ := e
    by_cases hk : k = k'
    · subst hk
      simp only [lookup, beq_self_eq_true, Option.some.injEq] at h
      subst h
      exact ⟨[], t, rfl, by simp, he⟩
    · have h2 : (k == k') = false := by simpa using hk
      simp only [lookup, h2] at h
      obtain ⟨m1, m2, e1, e2, e3⟩ := ih hn' h
      refine ⟨(k', vs') :: m1, m2, by rw [e1]; rfl, ?_, e3⟩
      simp only [map_cons, mem_cons, not_or]; exact ⟨hk, e2⟩

theorem pairs_split (m1 m2 : MM) (k : Nat) (vs : List Nat) :
    MM.pairs (m1 ++ (k, vs) :: m2) = MM.pairs m1 ++ (vs.map (fun v => (k, v)) ++ MM.pairs m2) := by
  rw [pairs_append, pairs_cons]

theorem no_key_pairs (t : MM) (k : Nat) (h : k ∉ t.map (·.1)) : ∀ x ∈ MM.pairs t, x.1 ≠ k := by
  intro x hx hk; exact h (hk ▸ mem_pairs_key hx)

theorem map_update_split (m1 m2 : MM) (k : Nat) (vs : List Nat) (g : List Nat → List Nat)
    (h1 : k ∉ m1.map (·.1)) (h2 : k ∉ m2.map (·.1)) :
    (m1 ++ (k, vs) :: m2).map (fun e => if e.1 == k then (e.1, g e.2) else e) = m1 ++ (k, g vs) :: m2 := by
  have hid : ∀ (t : MM), k ∉ t.map (·.1) → t.map (fun e => if e.1 == k then (e.1, g e.2) else e) = t := by
    intro t ht
    have : ∀ e ∈ t, (fun e : Nat × List Nat => if e.1 == k then (e.1, g e.2) else e) e = e := by
      intro e he
      have : e.1 ≠ k := fun hk => ht (mem_map.mpr ⟨e, he, hk⟩)
      simp [this]
    rw [map_congr_left this, map_id']
  rw [map_append, map_cons, hid m1 h1, hid m2 h2]; simp

theorem keys_split_update (m1 m2 : MM) (k : Nat) (vs vs' : List Nat) :
    (m1 ++ (k, vs') :: m2).map (·.1) = (m1 ++ (k, vs) :: m2).map (·.1) := by simp

/-- `Add(key, value)`: one more pair, keys stay distinct -/
theorem mmAdd_rel (m : MM) (hn : KeysNodup m) (x : Item) :
    (MM.pairs (mmAdd m x)).Perm (MM.pairs m ++ [x]) ∧ KeysNodup (mmAdd m x) := by
  unfold mmAdd
  cases hl : m.lookup x.1 with
  | none =>
    simp only [Option.isSome_none, Bool.false_eq_true, if_false]
    refine ⟨by rw [pairs_append]; simp [pairs_cons, pairs_nil], ?_⟩
    unfold KeysNodup at hn ⊢
    rw [map_append, nodup_append]
    refine ⟨hn, by simp, ?_⟩
    intro a ha b hb
    simp only [map_cons, map_nil, mem_singleton] at hb; subst hb
    intro hab; subst hab
    obtain ⟨e, he, hk⟩ := mem_map.mp ha
    have := (lookup_eq_none_iff.mp hl) e he
    simp [hk] at this
  | some vs =>
    obtain ⟨m1, m2, e1, e2, e3⟩ := lookup_split m hn x.1 vs hl
    simp only [Option.isSome_some, if_true]
    rw [e1, map_update_split m1 m2 x.1 vs (· ++ [x.2]) e2 e3, pairs_split, pairs_split]
    refine ⟨?_, ?_⟩
    · simp only [map_append, map_cons, map_nil, append_assoc]
      refine Perm.append_left _ (Perm.append_left _ ?_)
      exact (perm_append_comm (l₁ := [(x.1, x.2)]) (l₂ := MM.pairs m2)).trans (by simp)
    · unfold KeysNodup at hn ⊢; rw [keys_split_update m1 m2 x.1 vs]; rw [e1] at hn; exact hn

theorem mmAddMany_rel (ys : List Item) : ∀ (m : MM), KeysNodup m →
    (MM.pairs (ys.foldl mmAdd m)).Perm (MM.pairs m ++ ys) ∧ KeysNodup (ys.foldl mmAdd m) := by
  induction ys with
  | nil => intro m hn; simp [hn]
  | cons y t ih =>
    intro m hn
    obtain ⟨h1, h2⟩ := mmAdd_rel m hn y
    obtain ⟨h3, h4⟩ := ih _ h2
    refine ⟨?_, h4⟩
    simp only [foldl_cons]
    exact h3.trans (by simpa using Perm.append_right t h1)

/-! ### removing one value -/

theorem set_perm_cons_eraseIdx (l : List Nat) (i : Nat) (a : Nat) (h : i < l.length) : (l.set i a).Perm (a :: l.eraseIdx i) := by
  induction l generalizing i with
  | nil => simp at h
  | cons x t ih =>
    cases i with
    | zero => simp
    | succ j =>
      simp only [set_cons_succ, eraseIdx_cons_succ]
      have := ih j (by simpa using h)
      exact (Perm.cons x this).trans (Perm.swap a x _)

/-- `AssignAnywayValue(last, slot); RemoveBack`: the array loses exactly the value of that slot -/
theorem arrRemoveAt_perm (vs : List Nat) (i : Nat) (h : i < vs.length) : (arrRemoveAt vs i).Perm (vs.eraseIdx i) := by
  unfold arrRemoveAt
  have hne : vs ≠ [] := by intro h0; subst h0; simp at h
  obtain ⟨init, last, rfl⟩ : ∃ init last, vs = init ++ [last] := ⟨vs.dropLast, vs.getLast hne, (dropLast_concat_getLast hne).symm⟩
  simp only [getLast?_append, getLast?_singleton, Option.some_or, Option.getD_some, length_append, length_singleton] at h ⊢
  by_cases hi : i < init.length
  · rw [set_append_left _ _ hi, dropLast_concat, eraseIdx_append_of_lt_length hi]
    exact (set_perm_cons_eraseIdx init i last hi).trans (perm_append_comm (l₁ := [last]))
  · have hi' : i = init.length := by omega
    subst hi'
    rw [set_append_right _ _ (Nat.le_refl _)]
    simp [eraseIdx_append_of_length_le]

theorem map_pair_erase (k v : Nat) (vs : List Nat) :
    (vs.map (fun w => (k, w))).erase (k, v) = (vs.erase v).map (fun w => (k, w)) := by
  induction vs with
  | nil => simp
  | cons w t ih =>
    by_cases hw : w = v
    · subst hw; simp
    · have h1 : ((k, w) == (k, v)) = false := by simp [hw]
      have h2 : (w == v) = false := by simpa using hw
      simp only [map_cons, erase_cons, h1, h2, Bool.false_eq_true, if_false, cond_false]
      rw [ih]

theorem erase_not_mem_append (l1 l2 : List Item) (x : Item) (h : x ∉ l1) : (l1 ++ l2).erase x = l1 ++ l2.erase x := by
  rw [erase_append]; simp [h]

/-- `erase(where)`: exactly one pair equal to the one denoted leaves the multiset, keys stay distinct -/
theorem wmEraseElem_rel (m : MM) (hn : KeysNodup m) (x : Item) (hx : x ∈ MM.pairs m) :
    (MM.pairs (wmEraseElem m x)).Perm ((MM.pairs m).erase x) ∧ KeysNodup (wmEraseElem m x) := by
  obtain ⟨k, v⟩ := x
  have hfil := pairs_filter_key m hn k
  have hmem : (k, v) ∈ (MM.pairs m).filter (fun e => e.1 == k) := mem_filter.mpr ⟨hx, by simp⟩
  rw [hfil] at hmem
  obtain ⟨v', hv', hvv⟩ := mem_map.mp hmem
  have hv : v ∈ (m.lookup k).getD [] := by simp only [Prod.mk.injEq, true_and] at hvv; exact hvv ▸ hv'
  cases hl : m.lookup k with
  | none => rw [hl] at hv; simp at hv
  | some vs =>
    rw [hl] at hv
    simp only [Option.getD_some] at hv
    obtain ⟨m1, m2, e1, e2, e3⟩ := lookup_split m hn k vs hl
    have hP1 : (k, v) ∉ MM.pairs m1 := fun hh => no_key_pairs m1 k e2 _ hh rfl
    unfold wmEraseElem
    simp only [hl, Option.getD_some]
    by_cases hc : vs.length = 1
    · simp only [hc, if_true]
      refine ⟨?_, hn.filter _⟩
      rw [pairs_removeKey]
      obtain ⟨w, rfl⟩ : ∃ w, vs = [w] := by
        match vs, hc with
        | [w], _ => exact ⟨w, rfl⟩
      have hwv : w = v := by simp at hv; exact hv.symm
      subst hwv
      rw [e1, pairs_split, erase_not_mem_append _ _ _ hP1]
      have f1 : (MM.pairs m1).filter (fun e => e.1 != k) = MM.pairs m1 := by
        rw [filter_eq_self]; intro y hy; simpa using no_key_pairs m1 k e2 y hy
      have f2 : (MM.pairs m2).filter (fun e => e.1 != k) = MM.pairs m2 := by
        rw [filter_eq_self]; intro y hy; simpa using no_key_pairs m2 k e3 y hy
      simp [filter_append, f1, f2]
    · simp only [hc, if_false]
      unfold mmRemoveValue
      rw [e1, map_update_split m1 m2 k vs (fun l => arrRemoveAt l (l.idxOf v)) e2 e3, pairs_split, pairs_split,
        erase_not_mem_append _ _ _ hP1]
      refine ⟨Perm.append_left _ ?_, ?_⟩
      · have hmemv : (k, v) ∈ vs.map (fun w => (k, w)) := mem_map.mpr ⟨v, hv, rfl⟩
        rw [erase_append, if_pos hmemv, map_pair_erase, erase_eq_eraseIdx_of_idxOf rfl]
        exact Perm.append_right _ ((arrRemoveAt_perm vs _ (idxOf_lt_length_of_mem hv)).map _)
      · unfold KeysNodup at hn ⊢; rw [keys_split_update m1 m2 k vs]; rw [e1] at hn; exact hn

end Momo.StdW
