import Momo.Translated.HashMeta
import Momo.Proof.SegMachine
import Momo.Proof.HashMetaChain
import Momo.Proof.TrEqHashProbe
/-!
  C12: the hash-metadata functions of `BucketLimP4`, `BucketOpen2N2`, `BucketOne` as translated from the headers
  (`Momo.Tr.*`, lean/Momo/Translated/HashMeta.lean, rewritten by tools/translate.py from the current headers on every
  check) compute the model functions of `Momo/Model/HashMeta.lean` the C12 theorems are about. A changed function body
  makes the equalities below fail to elaborate.
  Hypotheses (all true in the C++): table sizes `2^L` with `L ≤ 63`, bucket indices `< 2^L`, metadata bytes `< 256`,
  element positions inside the byte arrays (`index < hashCount`, `count < maxCount`).
-/
namespace Momo.TrEq
open Momo Momo.Seg Momo.HashMeta

theorem segw64_eq (n : Nat) : Seg.w64 n = HashMeta.w64 n := by
  rw [Seg.w64_eq]; rfl

theorem shl64_eq (a s : Nat) : shl64 a s = HashMeta.w64 (a <<< s) := by
  unfold shl64; exact segw64_eq _

/-- `a - b` on `size_t` written the way the model writes it -/
theorem sub64_eq (a b : Nat) (ha : a < 2 ^ 64) (hb : b ≤ 2 ^ 64) : sub64 a b = HashMeta.w64 (a + (2 ^ 64 - b)) := by
  unfold sub64 HashMeta.w64
  split
  · omega
  · rw [Seg.w64_eq]; congr 1; omega

theorem upd_eq (a : Nat → Nat) (i v : Nat) : Tr.upd a i v = HashMeta.upd a i v := rfl

theorem w64_mod256 (y : Nat) : Seg.w64 y % 256 = y % 256 := by
  rw [Seg.w64_eq]; exact Nat.mod_mod_of_dvd y (by decide : 256 ∣ 2 ^ 64)

theorem sub2 (hc index : Nat) (hi : index < hc) : sub64 (sub64 hc 1) index = hc - 1 - index := by
  rw [sub64_of_le (a := hc) (b := 1) (by omega), sub64_of_le (by omega)]

theorem or3_lt (a b c : Nat) (ha : a < 256) (hb : b < 256) (hc : c < 256) : (a ||| b ||| c) < 256 :=
  Nat.or_lt_two_pow (n := 8) (Nat.or_lt_two_pow (n := 8) ha hb) hc

/-! ### BucketLimP4 -/

theorem tr_limp4_shortHash (h : Nat) : Tr.limp4_pvCalcShortHash h = P4.shortHash h := rfl

theorem tr_limp4_probeShift (L : Nat) (hL : L ≤ 63) : Tr.limp4_pvGetProbeShift L = P4.probeShift L := by
  unfold Tr.limp4_pvGetProbeShift P4.probeShift
  rw [add64_of_lt (by simp only [Extracted.limp4LogAddend]; omega)]

/-- the byte `pvSetHashProbe` computes -/
theorem limp4_byte_eq (h L p : Nat) :
    (if p < shl64 1 (P4.probeShift L) then
        ((Extracted.limp4MaskEmpty ||| (shl64 (h >>> L) (P4.probeShift L)) % 256) ||| (p % 256))
      else Extracted.limp4EmptyHashProbe) % 256 = P4.encByte h L p := by
  have hps := P4.probeShift_lt L
  unfold P4.encByte
  rw [shl64_one (by omega)]
  simp only [P4.maskEmpty, P4.emptyHashProbe, u8]
  split
  · unfold shl64; rw [w64_mod256]
    exact Nat.mod_eq_of_lt (or3_lt _ _ _ (by decide) (Nat.mod_lt _ (by decide)) (Nat.mod_lt _ (by decide)))
  · rfl

/-- **`BucketLimP4::pvSetHashProbe` as written = the model `P4.setHashProbe`** (`useHashCodePartGetter = true`) -/
theorem tr_limp4_setHashProbe (sh : Nat → Nat) (hc index h L p : Nat) (hi : index < hc) (hL : L ≤ 63) :
    Tr.limp4_pvSetHashProbe sh true hc index h L p = P4.setHashProbe hc sh index h L p := by
  unfold Tr.limp4_pvSetHashProbe P4.setHashProbe
  dsimp only
  rw [sub2 hc index hi, tr_limp4_probeShift L hL]
  simp only [Bool.not_true, Bool.false_or, decide_eq_true_eq]
  split
  · rfl
  · rw [limp4_byte_eq]; rfl

/-- without the part getter `pvSetHashProbe` writes nothing -/
theorem tr_limp4_setHashProbe_off (sh : Nat → Nat) (hc index h L p : Nat) :
    Tr.limp4_pvSetHashProbe sh false hc index h L p = sh := by
  unfold Tr.limp4_pvSetHashProbe; simp

theorem tr_limp4_getCount (sh : Nat → Nat) : Tr.limp4_pvGetCount sh = P4.countOf sh := by
  unfold Tr.limp4_pvGetCount P4.countOf
  simp only [decide_eq_true_eq, P4.maskEmpty, ge_iff_le]
  by_cases h1 : Extracted.limp4MaskEmpty ≤ sh 1
  · simp only [h1, if_true]
  · simp only [h1, if_false]
    by_cases h2 : sh 2 < Extracted.limp4MaskEmpty <;> by_cases h3 : sh 3 < Extracted.limp4MaskEmpty <;>
      simp only [h2, h3, if_true, if_false] <;> decide

theorem tr_limp4_isFull (b : P4.Bucket) (hm : 0 < b.maxCount) : Tr.limp4_IsFull b.sh b.maxCount = b.isFull := by
  unfold Tr.limp4_IsFull P4.Bucket.isFull
  rw [sub64_of_le (by omega)]

/-- the `useFullGetter` flag -/
theorem limp4_useFull_eq (byte L L' : Nat) (hb : byte < 256) (hL : L ≤ 63) (hL' : L' ≤ 63) :
    (decide ((add64 byte 1) % 256 ≤ Extracted.limp4MaskEmpty) ||
      decide ((add64 L Extracted.limp4LogAddend) / Extracted.limp4LogStep ≠ (add64 L' Extracted.limp4LogAddend) / Extracted.limp4LogStep))
      = P4.useFull byte L L' := by
  unfold P4.useFull P4.group u8
  rw [add64_of_lt (by omega), add64_of_lt (by simp only [Extracted.limp4LogAddend]; omega),
    add64_of_lt (by simp only [Extracted.limp4LogAddend]; omega)]
  simp only [P4.maskEmpty, bne, ne_eq, decide_not]
  congr 1

/-- **`BucketLimP4::GetHashCodePart` as written = the model `P4.getHashCodePart`** on the bytes of the element at
position `index` (hash-probe byte `mShortHashes[hashCount-1-index]`, short hash `mShortHashes[index]`) -/
theorem tr_limp4_getHashCodePart (sh : Nat → Nat) (hc index full idx L L' : Nat) (hi : index < hc)
    (hb : sh (hc - 1 - index) < 256) (hidx : idx < 2 ^ L) (hL : L ≤ 63) (hL' : L' ≤ 63) :
    Tr.limp4_GetHashCodePart sh true hc index full idx L L'
      = P4.getHashCodePart (sh (hc - 1 - index)) (sh index) idx L L' full := by
  have h63 : (2:Nat) ^ L ≤ 2 ^ 63 := Nat.pow_le_pow_right (by decide) hL
  have hps := P4.probeShift_lt L
  unfold Tr.limp4_GetHashCodePart P4.getHashCodePart
  dsimp only
  rw [sub2 hc index hi]
  simp only [Bool.not_true, Bool.false_eq_true, if_false]
  rw [limp4_useFull_eq _ L L' hb hL hL']
  cases hu : P4.useFull (sh (hc - 1 - index)) L L'
  · simp only [Bool.false_eq_true, if_false]
    unfold P4.decode
    have hge : 128 ≤ sh (hc - 1 - index) := by
      simp only [P4.useFull, Bool.or_eq_false_iff, u8, P4.maskEmpty, Extracted.limp4MaskEmpty] at hu
      have := of_decide_eq_false hu.1
      omega
    rw [tr_limp4_probeShift L hL, shl64_one (by omega), shl64_one (by omega), sub64_of_le (Nat.two_pow_pos _),
      sub64_of_le (Nat.two_pow_pos _), add64_of_lt (by omega)]
    have hpr : sh (hc - 1 - index) &&& (2 ^ P4.probeShift L - 1) ≤ 2 ^ 64 := by
      have := @Nat.and_le_left (sh (hc - 1 - index)) (2 ^ P4.probeShift L - 1); omega
    rw [sub64_eq _ _ (by omega) hpr, sub64_of_le (by simp only [Extracted.limp4MaskEmpty]; omega), shl64_eq, shl64_eq]
    rfl
  · rfl

/-- **the `else` block of `BucketLimP4::Remove` as written = the model's byte compaction `P4.removeBytes`** -/
theorem tr_limp4_removeBytes (sh : Nat → Nat) (hc count index : Nat) (hc1 : 1 ≤ count) (hch : count ≤ hc) (hi : index < hc) :
    Tr.limp4_Remove_compact sh true hc count index = P4.removeBytes hc sh count index := by
  unfold Tr.limp4_Remove_compact P4.removeBytes
  dsimp only
  rw [sub2 hc index hi, sub64_of_le (a := count) (b := 1) (by omega), sub64_of_le (a := hc) (b := count) (by omega)]
  simp only [Bool.true_and, decide_eq_true_eq, ge_iff_le, upd_eq, P4.emptyHashProbe]


/-! ### BucketOpen2N2 (`useHashCodePartGetter = true`) -/

theorem tr_open2n2_shortHash (h : Nat) : Tr.open2n2_pvCalcShortHash h = O2.shortHash h := rfl

theorem tr_open2n2_probeShift (L : Nat) (hL : L ≤ 63) : Tr.open2n2_pvGetProbeShift L = O2.probeShift L := by
  unfold Tr.open2n2_pvGetProbeShift O2.probeShift
  simp only [Extracted.open2n2LogAddend, Extracted.open2n2ProbeShiftExtra]
  rw [add64_of_lt (a := L) (b := 6) (by omega), add64_of_lt (by omega)]

theorem tr_open2n2_getCount (s1 : Nat) : Tr.open2n2_pvGetCount s1 = s1 % 4 :=
  Nat.and_two_pow_sub_one_eq_mod s1 2

theorem tr_open2n2_isFull (b : O2.Bucket) : Tr.open2n2_IsFull b.sh = b.isFull := rfl

/-- **`BucketOpen2N2::AddCrt` as written (metadata) = the model `O2.Bucket.addCrt`**: `mState[1] = s1` holds the count in
its two low bits (the other six are the max-probe exponent of C13 and are not touched) -/
theorem tr_open2n2_addCrt (b : O2.Bucket) (s1 h L p : Nat) (hs : s1 < 256) (hcnt : s1 % 4 = b.cnt) (hlt : b.cnt < b.maxCount)
    (hm : b.maxCount ≤ 3) (hL : L ≤ 63) :
    (Tr.open2n2_AddCrt b.sh b.hp s1 true b.maxCount h L p).1 = (b.addCrt h L p).sh ∧
    (Tr.open2n2_AddCrt b.sh b.hp s1 true b.maxCount h L p).2.1 = (b.addCrt h L p).hp ∧
    (Tr.open2n2_AddCrt b.sh b.hp s1 true b.maxCount h L p).2.2 % 4 = (b.addCrt h L p).cnt ∧
    (Tr.open2n2_AddCrt b.sh b.hp s1 true b.maxCount h L p).2.2 / 4 = s1 / 4 ∧
    (Tr.open2n2_AddCrt b.sh b.hp s1 true b.maxCount h L p).2.2 < 256 := by
  have hps := O2.probeShift_lt L
  unfold Tr.open2n2_AddCrt O2.Bucket.addCrt
  dsimp only
  rw [tr_open2n2_getCount, hcnt, sub2 b.maxCount b.cnt hlt, tr_open2n2_probeShift L hL, shl64_one (by omega)]
  simp only [if_true, decide_eq_true_eq, upd_eq, tr_open2n2_shortHash]
  refine ⟨trivial, ?_, by omega, by omega, by omega⟩
  unfold O2.encByte
  split
  · simp only [u8]
    congr 1
    rw [Nat.or_mod_two_pow (n := 8), Nat.or_mod_two_pow (n := 8)]
    congr 1
    unfold shl64; exact w64_mod256 _
  · rfl

/-- **`BucketOpen2N2::Remove` as written (metadata) = the model `O2.Bucket.remove`** -/
theorem tr_open2n2_remove (b : O2.Bucket) (s1 index : Nat) (hs : s1 < 256) (hcnt : s1 % 4 = b.cnt) (h1 : 1 ≤ b.cnt)
    (hle : b.cnt ≤ b.maxCount) :
    (Tr.open2n2_Remove b.sh b.hp s1 true b.maxCount index).1 = (b.remove index).sh ∧
    (Tr.open2n2_Remove b.sh b.hp s1 true b.maxCount index).2.1 = (b.remove index).hp ∧
    (Tr.open2n2_Remove b.sh b.hp s1 true b.maxCount index).2.2 % 4 = (b.remove index).cnt ∧
    (Tr.open2n2_Remove b.sh b.hp s1 true b.maxCount index).2.2 / 4 = s1 / 4 ∧
    (Tr.open2n2_Remove b.sh b.hp s1 true b.maxCount index).2.2 < 256 := by
  unfold Tr.open2n2_Remove O2.Bucket.remove
  dsimp only
  rw [tr_open2n2_getCount, hcnt, sub64_of_le hle]
  simp only [if_true, upd_eq]
  refine ⟨trivial, trivial, ?_, ?_, ?_⟩ <;> omega

theorem open2n2_useFull_eq (byte L L' : Nat) (hL : L ≤ 63) (hL' : L' ≤ 63) :
    (decide (byte = Extracted.open2n2EmptyHashProbe) ||
      decide ((add64 L Extracted.open2n2LogAddend) / Extracted.open2n2LogStep ≠ (add64 L' Extracted.open2n2LogAddend) / Extracted.open2n2LogStep))
      = O2.useFull byte L L' := by
  unfold O2.useFull O2.group
  rw [add64_of_lt (by simp only [Extracted.open2n2LogAddend]; omega), add64_of_lt (by simp only [Extracted.open2n2LogAddend]; omega)]
  simp only [O2.emptyHashProbe, bne, ne_eq, decide_not]
  congr 1

theorem probe2_small (p : Nat) (hp : p < 256) : O2.probe2 p < 2 ^ 16 := by
  unfold O2.probe2
  split
  · have : p / 2 * (p + 1) ≤ 128 * 256 := Nat.mul_le_mul (by omega) (by omega)
    omega
  · have : p * ((p + 1) / 2) ≤ 256 * 128 := Nat.mul_le_mul (by omega) (by omega)
    omega

/-- **`BucketOpen2N2::GetHashCodePart` as written = the model `O2.getHashCodePart`** on the bytes of position `index` -/
theorem tr_open2n2_getHashCodePart (sh hp : Nat → Nat) (index full idx L L' : Nat) (hb : hp index < 256)
    (hidx : idx < 2 ^ 64) (hL : L ≤ 63) (hL' : L' ≤ 63) :
    Tr.open2n2_GetHashCodePart sh hp true index full idx L L'
      = O2.getHashCodePart (hp index) (sh index) idx L L' full := by
  have hps := O2.probeShift_lt L
  unfold Tr.open2n2_GetHashCodePart O2.getHashCodePart
  dsimp only
  simp only [Bool.not_true, Bool.false_eq_true, if_false]
  rw [open2n2_useFull_eq _ L L' hL hL']
  cases hu : O2.useFull (hp index) L L'
  · simp only [Bool.false_eq_true, if_false]
    unfold O2.decode
    rw [tr_open2n2_probeShift L hL, shl64_one (by omega), shl64_one (by omega), sub64_of_le (Nat.two_pow_pos _),
      sub64_of_le (Nat.two_pow_pos _)]
    have hpr : hp index &&& (2 ^ O2.probeShift L - 1) < 256 := by
      have := @Nat.and_le_left (hp index) (2 ^ O2.probeShift L - 1); omega
    generalize hp index &&& (2 ^ O2.probeShift L - 1) = pr at hpr
    have h2 := probe2_small pr hpr
    have e2 : (if decide (pr % 2 = 0) then mul64 (pr / 2) (add64 pr 1) else mul64 pr (add64 pr 1 / 2)) = O2.probe2 pr := by
      unfold O2.probe2 at h2 ⊢
      rw [add64_of_lt (by omega)]
      simp only [decide_eq_true_eq]
      split
      · rename_i h0; rw [if_pos h0] at h2; exact mul64_of_lt (by omega)
      · rename_i h0; rw [if_neg h0] at h2; exact mul64_of_lt (by omega)
    rw [e2, sub64_eq _ _ hidx (by omega), shl64_eq, shl64_eq]
    rfl
  · rfl

/-! ### BucketOne -/

theorem or1_lt (x k : Nat) (hk : 0 < k) : (x % 2 ^ k ||| 1) < 2 ^ k :=
  Nat.or_lt_two_pow (Nat.mod_lt _ (Nat.two_pow_pos k)) (Nat.one_lt_two_pow (by omega))

/-- `pvGetHashState` for the state widths 1, 2, 4 (first overload) and 8 (second overload) -/
theorem tr_one_hashState1 (h : Nat) : Tr.one_pvGetHashState1 h = One.hashState 1 h := by
  unfold Tr.one_pvGetHashState1 One.hashState
  have e : mul64 (sub64 8 1) 8 = (8 - 1) * 8 := by decide
  simp only [e]
  exact Nat.mod_eq_of_lt (or1_lt _ 8 (by decide))

theorem tr_one_hashState2 (h : Nat) : Tr.one_pvGetHashState2 h = One.hashState 2 h := by
  unfold Tr.one_pvGetHashState2 One.hashState
  have e : mul64 (sub64 8 2) 8 = (8 - 2) * 8 := by decide
  simp only [e]
  exact Nat.mod_eq_of_lt (or1_lt _ 16 (by decide))

theorem tr_one_hashState4 (h : Nat) : Tr.one_pvGetHashState4 h = One.hashState 4 h := by
  unfold Tr.one_pvGetHashState4 One.hashState
  have e : mul64 (sub64 8 4) 8 = (8 - 4) * 8 := by decide
  simp only [e]
  rfl

theorem tr_one_hashState8 (h : Nat) : Tr.one_pvGetHashState8 h = One.hashState 8 h := by
  unfold Tr.one_pvGetHashState8 One.hashState
  rw [shl64_eq]; rfl

theorem tr_one_getHashCodePart (stateSize state full : Nat) :
    Tr.one_GetHashCodePart state stateSize full = One.getHashCodePart stateSize state full := by
  unfold Tr.one_GetHashCodePart One.getHashCodePart
  simp only [decide_eq_true_eq]

/-! ### table level: `pvAddNogrow` / `pvRelocateItems` for one element, run with the translated functions -/

/-- the `GetNextBucketIndex` of the bucket kind -/
def trNext : Kind → NextFn
  | .limp4 => .limp4
  | .open2 => .open2n2
  | .one8 => .base

theorem trNext_quad (k : Kind) : (trNext k).quad = k.quad := by cases k <;> rfl

/-- short hash / hash state stored by `AddCrt`, by the translated functions -/
def trShort : Kind → Nat → Nat
  | .limp4, c => Tr.limp4_pvCalcShortHash c
  | .open2, c => Tr.open2n2_pvCalcShortHash c
  | .one8, c => Tr.one_pvGetHashState8 c

/-- hash-probe byte stored by `AddCrt`, by the translated functions: LimP4 — `pvSetHashProbe(0, …)` on an empty bucket with four
    metadata bytes writes byte 3; Open2N2 — `AddCrt` on an empty bucket with `maxCount = 1` writes `hashProbes[0]` -/
def trEnc : Kind → Nat → Nat → Nat → Nat
  | .limp4, c, L, p => Tr.limp4_pvSetHashProbe (fun _ => 255) true 4 0 c L p 3
  | .open2, c, L, p => (Tr.open2n2_AddCrt (fun _ => O2.emptyShortHash) (fun _ => 0) 0 true 1 c L p).2.1 0
  | .one8, _, _, _ => 0

theorem trShort_eq (k : Kind) (c : Nat) : trShort k c = k.short c := by
  cases k
  · rfl
  · rfl
  · exact tr_one_hashState8 c

theorem trEnc_eq (k : Kind) (c L p : Nat) (hL : L ≤ 63) : trEnc k c L p = k.enc c L p := by
  cases k
  · simp only [trEnc, Kind.enc]
    rw [tr_limp4_setHashProbe _ 4 0 c L p (by decide) hL]
    simp [P4.setHashProbe, upd]
  · simp only [trEnc, Kind.enc]
    have := (tr_open2n2_addCrt (O2.Bucket.new 1) 0 c L p (by decide) rfl (by decide) (by decide) hL).2.1
    simp only [O2.Bucket.new] at this
    rw [this]
    simp [O2.Bucket.addCrt, upd]
  · rfl

/-- `pvAddNogrow` for one element, by the translated functions -/
def trPlace (k : Kind) (L : Nat) (isFull : Nat → Bool) (code : Nat) : Option Placed :=
  match trAddProbe (trNext k) L isFull code with
  | none => none
  | some (p, idx) => some { L := L, start := Tr.base_GetStartBucketIndex code (shl64 1 L), probe := p, idx := idx,
                            short := trShort k code, byte := trEnc k code L p }

theorem trPlace_eq (k : Kind) (L : Nat) (isFull : Nat → Bool) (code : Nat) (hL : L ≤ 63) :
    trPlace k L isFull code = place k L isFull code := by
  unfold trPlace place
  rw [trAddProbe_eq _ L isFull code hL, trNext_quad]
  cases Probe.addProbe k.quad L isFull (Probe.start L code) with
  | none => rfl
  | some pi =>
    obtain ⟨p, idx⟩ := pi
    simp only [shl64_one (show L < 64 by omega), tr_start, trShort_eq, trEnc_eq k code L p hL]

/-- `bucket.GetHashCodePart(hashCodeFullGetter, iter, i, logCount, newLogCount)` of `pvRelocateItems`, by the translated functions, on
    the bytes of the element: LimP4 — position 0 of a bucket with four metadata bytes; Open2N2 — position 0 -/
def trCodeOf (k : Kind) (st : Placed) (L' full : Nat) : Nat :=
  match k with
  | .limp4 => Tr.limp4_GetHashCodePart (Tr.upd (Tr.upd (fun _ => 255) 3 st.byte) 0 st.short) true 4 0 full st.idx st.L L'
  | .open2 => Tr.open2n2_GetHashCodePart (fun _ => st.short) (fun _ => st.byte) true 0 full st.idx st.L L'
  | .one8 => Tr.one_GetHashCodePart st.short 8 full

/-- a placement made by `pvAddNogrow`: the bucket index is inside the table, the byte is a byte -/
def WFPlaced (st : Placed) : Prop := st.idx < 2 ^ st.L ∧ st.byte < 256

theorem trCodeOf_eq (k : Kind) (st : Placed) (L' full : Nat) (hw : WFPlaced st) (hL : st.L ≤ 63) (hL' : L' ≤ 63) :
    trCodeOf k st L' full = codeOf k st L' full := by
  obtain ⟨hidx, hb⟩ := hw
  cases k
  · simp only [trCodeOf, codeOf]
    rw [tr_limp4_getHashCodePart _ 4 0 full st.idx st.L L' (by decide) (by simpa [Tr.upd] using hb) hidx hL hL']
    simp [Tr.upd]
  · simp only [trCodeOf, codeOf]
    have h63 : (2:Nat) ^ st.L ≤ 2 ^ 63 := Nat.pow_le_pow_right (by decide) hL
    rw [tr_open2n2_getHashCodePart _ _ 0 full st.idx st.L L' hb (by omega) hL hL']
  · simp only [trCodeOf, codeOf]
    exact tr_one_getHashCodePart 8 st.short full

theorem enc_lt (k : Kind) (c L p : Nat) : k.enc c L p < 256 := by
  cases k
  · have := (P4.encByte_ge c L p).2; simp only [Kind.enc]; omega
  · simp only [Kind.enc, O2.encByte, u8, O2.emptyHashProbe, Extracted.open2n2EmptyHashProbe]; split <;> omega
  · simp [Kind.enc]

theorem place_wf (k : Kind) (L : Nat) (isFull : Nat → Bool) (code : Nat) (st : Placed) (h : place k L isFull code = some st) :
    WFPlaced st ∧ st.L = L := by
  unfold place at h
  have hspec := Probe.addProbe_spec k.quad L isFull (Probe.start L code)
  cases hadd : Probe.addProbe k.quad L isFull (Probe.start L code) with
  | none => rw [hadd] at h; cases h
  | some pi =>
    obtain ⟨p, idx⟩ := pi
    rw [hadd] at h hspec
    simp only [Option.some.injEq] at h
    subst h
    refine ⟨⟨?_, enc_lt k code L p⟩, rfl⟩
    simp only
    rw [hspec.2.1]
    exact seqOf_lt k.quad L _ p (Probe.start_lt L code)

/-- a chain of growth steps, every re-insertion made by the translated functions with the code of the translated `GetHashCodePart` -/
def trChainPart (k : Kind) (full : Nat) : Option Placed → List (Nat × (Nat → Bool)) → Option Placed
  | st, [] => st
  | none, _ :: _ => none
  | some st, (L', isFull) :: rest => trChainPart k full (trPlace k L' isFull (trCodeOf k st L' full)) rest

/-- the same chain with the hash recomputed at every step (translated `pvAddNogrow` only) -/
def trChainFull (k : Kind) (full : Nat) : Option Placed → List (Nat × (Nat → Bool)) → Option Placed
  | st, [] => st
  | none, _ :: _ => none
  | some _, (L', isFull) :: rest => trChainFull k full (trPlace k L' isFull full) rest

theorem trChainPart_eq (k : Kind) (full : Nat) (steps : List (Nat × (Nat → Bool))) :
    ∀ (L : Nat) (o : Option Placed), (∀ st, o = some st → WFPlaced st ∧ st.L = L) → L ≤ 57 → GrowthChain 57 L steps →
      trChainPart k full o steps = chainPart k full o steps := by
  induction steps with
  | nil => intro L o _ _ _; rfl
  | cons s rest ih =>
    intro L o ho hL hch
    obtain ⟨L', f⟩ := s
    obtain ⟨hlt, hL', hrest⟩ := hch
    cases o with
    | none => rfl
    | some st =>
      obtain ⟨hw, hstL⟩ := ho st rfl
      simp only [trChainPart, chainPart, relocate]
      rw [trCodeOf_eq k st L' full hw (by omega) (by omega), trPlace_eq k L' f _ (by omega)]
      exact ih L' _ (fun st' h' => place_wf k L' f _ st' h') hL' hrest

theorem trChainFull_eq (k : Kind) (full : Nat) (steps : List (Nat × (Nat → Bool))) :
    ∀ (L : Nat) (o : Option Placed), GrowthChain 57 L steps →
      trChainFull k full o steps = chainFull k full o steps := by
  induction steps with
  | nil => intro L o _; rfl
  | cons s rest ih =>
    intro L o hch
    obtain ⟨L', f⟩ := s
    obtain ⟨_, hL', hrest⟩ := hch
    cases o with
    | none => rfl
    | some st =>
      simp only [trChainFull, chainFull, rehash]
      rw [trPlace_eq k L' f _ (by omega)]
      exact ih L' _ hrest

theorem place_probe_lt (k : Kind) (L : Nat) (isFull : Nat → Bool) (code : Nat) (st : Placed) (h : place k L isFull code = some st) :
    st.probe < 2 ^ st.L ∧ st.L = L := by
  unfold place at h
  have hspec := Probe.addProbe_spec k.quad L isFull (Probe.start L code)
  cases hadd : Probe.addProbe k.quad L isFull (Probe.start L code) with
  | none => rw [hadd] at h; cases h
  | some pi =>
    obtain ⟨p, idx⟩ := pi
    rw [hadd] at h hspec
    simp only [Option.some.injEq] at h
    subst h
    exact ⟨hspec.1, rfl⟩

/-- wherever a chain of growths leaves the element: a table of at most `2^57` buckets, displacement below the bucket count -/
theorem chainPart_bounds (k : Kind) (full : Nat) (steps : List (Nat × (Nat → Bool))) :
    ∀ (L : Nat) (o : Option Placed), (∀ st, o = some st → st.probe < 2 ^ st.L ∧ st.L = L) → L ≤ 57 → GrowthChain 57 L steps →
      ∀ st, chainPart k full o steps = some st → st.probe < 2 ^ st.L ∧ st.L ≤ 57 := by
  induction steps with
  | nil => intro L o ho hL _ st hst; simp only [chainPart] at hst; obtain ⟨a, b⟩ := ho st hst; exact ⟨a, by omega⟩
  | cons s rest ih =>
    intro L o ho hL hch st hst
    obtain ⟨L', f⟩ := s
    obtain ⟨hlt, hL', hrest⟩ := hch
    cases o with
    | none => simp [chainPart] at hst
    | some st0 =>
      simp only [chainPart, relocate] at hst
      exact ih L' _ (fun st' h' => place_probe_lt k L' f _ st' h') hL' hrest st hst

end Momo.TrEq
