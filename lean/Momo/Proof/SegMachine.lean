import Momo.Proof.SegIdeal
/-!
  The machine-level functions (64-bit wrap-around, de Bruijn `Log2`, shifts and masks — the C++ as written)
  compute the ideal functions whenever `index1 = (index >> L0) + 1` does not wrap. Core Lean only.
-/
namespace Momo.Seg
open Momo

/-- the 64-bit hypothesis: the index is a `size_t` and `(index >> L0) + 1` does not wrap -/
def Fits (L0 index : Nat) : Prop := index < 2 ^ 64 ∧ index / 2 ^ L0 + 1 < 2 ^ 64

/-- `Fits` excludes exactly one point of the `size_t` range: `L0 = 0`, `index = 2^64 - 1` (finding F14) -/
theorem fits_iff (L0 index : Nat) :
    Fits L0 index ↔ index < 2 ^ 64 ∧ ¬ (L0 = 0 ∧ index = 2 ^ 64 - 1) := by
  unfold Fits
  constructor
  · rintro ⟨h1, h2⟩
    refine ⟨h1, ?_⟩
    rintro ⟨rfl, rfl⟩
    simp at h2
  · rintro ⟨h1, h2⟩
    refine ⟨h1, ?_⟩
    by_cases hL : L0 = 0
    · subst hL
      simp at h2 ⊢
      omega
    · have h2L : 2 ≤ 2 ^ L0 := by
        have := two_pow_pred (k := L0) (by omega)
        have := Nat.two_pow_pos (L0 - 1); omega
      have : index / 2 ^ L0 ≤ index / 2 := Nat.div_le_div_left h2L (by decide)
      omega

/-! ### elementary 64-bit facts -/

theorem add64_of_lt {a b : Nat} (h : a + b < 2 ^ 64) : add64 a b = a + b := w64_of_lt h

theorem sub64_of_le {a b : Nat} (h : b ≤ a) : sub64 a b = a - b := by
  unfold sub64; rw [if_pos h]

theorem shl64_of_lt {a s : Nat} (h : a * 2 ^ s < 2 ^ 64) : shl64 a s = a * 2 ^ s := by
  unfold shl64; rw [Nat.shiftLeft_eq]; exact w64_of_lt h

theorem mul64_of_lt {a b : Nat} (h : a * b < 2 ^ 64) : mul64 a b = a * b := w64_of_lt h

theorem shl64_one {s : Nat} (h : s < 64) : shl64 1 s = 2 ^ s := by
  rw [shl64_of_lt] <;> rw [Nat.one_mul]
  exact Nat.pow_lt_pow_right (by decide) h

theorem mask64_eq {n : Nat} (h : n < 64) : mask64 n = 2 ^ n - 1 := by
  unfold mask64
  rw [shl64_one h, sub64_of_le (Nat.two_pow_pos n)]

theorem and_mask64 (x : Nat) {n : Nat} (h : n < 64) : x &&& mask64 n = x % 2 ^ n := by
  rw [mask64_eq h, Nat.and_two_pow_sub_one_eq_mod]

/-! ### sqrt sizing -/

theorem sqrtIndexToLog64_eq (i1 : Nat) (h0 : 1 ≤ i1) (h : i1 < 2 ^ 64) : sqrtIndexToLog64 i1 = logItem i1 := by
  unfold sqrtIndexToLog64 logItem
  rw [log2db64_eq i1 (by omega) h]

theorem logItem_le (i1 : Nat) (h0 : 1 ≤ i1) (h : i1 < 2 ^ 64) : logItem i1 ≤ 32 := by
  rw [logItem_def]
  have : Nat.log2 i1 < 64 := (Nat.log2_lt (by omega)).mpr h
  omega

theorem sqrtSegToLog64_eq (s : Nat) (h : s * 2 + 4 < 2 ^ 64) : sqrtSegToLog64 s = segLog s := by
  unfold sqrtSegToLog64
  show log2db64 (add64 (mul64 s 2) 4 / 3) = segLog s
  rw [mul64_of_lt (by omega), add64_of_lt h, segLog_def]
  exact log2db64_eq _ (by omega) (by omega)

theorem segLog_lt (s : Nat) (h : s * 2 + 4 < 2 ^ 64) : segLog s < 64 := by
  rw [segLog_def]
  exact (Nat.log2_lt (by omega)).mpr (by omega)

/-- `index = GetIndex(seg, 0) + offset`, so the offset never exceeds the index -/
theorem sqrt_offset_le (L0 index : Nat) : (getSeg .sqrt L0 index).2 ≤ index := by
  have h := sqrt_roundtrip L0 index
  rw [sqrt_affine] at h
  omega

/-- segment index of an index whose `index1` fits 64 bits is far below 2^62 -/
theorem sqrt_seg_small (L0 index : Nat) (hw : index / 2 ^ L0 + 1 < 2 ^ 64) :
    (getSeg .sqrt L0 index).1 < 2 ^ 34 ∧
    1 ≤ (index / 2 ^ L0 + 1) / 2 ^ logItem (index / 2 ^ L0 + 1) ∧
    (index / 2 ^ L0 + 1) / 2 ^ logItem (index / 2 ^ L0 + 1) + 2 ^ logItem (index / 2 ^ L0 + 1) < 2 ^ 35 := by
  rw [getSeg_sqrt]
  show (index / 2 ^ L0 + 1) / 2 ^ logItem (index / 2 ^ L0 + 1) + 2 ^ logItem (index / 2 ^ L0 + 1) - 2 < 2 ^ 34 ∧ _
  generalize hi1 : index / 2 ^ L0 + 1 = i1 at *
  have h1 : 1 ≤ i1 := by rw [← hi1]; exact Nat.le_add_left 1 _
  have hk := logItem_le i1 h1 hw
  rcases logItem_class i1 h1 with ⟨hk0, rfl⟩ | ⟨hk1, lo, hi⟩
  · rw [hk0]; decide
  · generalize logItem i1 = k at *
    obtain ⟨q1, q2⟩ := quot_range i1 k hk1 lo hi
    have hp : 2 ^ k ≤ 2 ^ 32 := Nat.pow_le_pow_right (by decide) hk
    have := Nat.two_pow_pos (k - 1)
    omega

theorem segItem64_sqrt_eq (L0 index : Nat) (hL : L0 < 64) (hf : Fits L0 index) :
    segItem64 .sqrt L0 index = getSeg .sqrt L0 index := by
  obtain ⟨hi, hw⟩ := hf
  have hoff := sqrt_offset_le L0 index
  obtain ⟨_, hq1, hq2⟩ := sqrt_seg_small L0 index hw
  rw [getSeg_sqrt] at hoff ⊢
  have hoff' : ((index / 2 ^ L0 + 1) % 2 ^ logItem (index / 2 ^ L0 + 1)) * 2 ^ L0 + index % 2 ^ L0 ≤ index := hoff
  clear hoff
  unfold segItem64
  simp only [Nat.shiftRight_eq_div_pow]
  have e1 : add64 (index / 2 ^ L0) 1 = index / 2 ^ L0 + 1 := add64_of_lt hw
  rw [e1]
  have h1 : 1 ≤ index / 2 ^ L0 + 1 := Nat.le_add_left 1 _
  generalize index / 2 ^ L0 + 1 = i1 at *
  rw [sqrtIndexToLog64_eq i1 h1 hw]
  have hk := logItem_le i1 h1 hw
  generalize logItem i1 = k at *
  have hk64 : k < 64 := by omega
  rw [and_mask64 _ hL, and_mask64 _ hk64, shl64_one hk64]
  have hpk := Nat.two_pow_pos k
  have e4 : shl64 (i1 % 2 ^ k) L0 = i1 % 2 ^ k * 2 ^ L0 :=
    shl64_of_lt (Nat.lt_of_le_of_lt (Nat.le_trans (Nat.le_add_right _ _) hoff') hi)
  rw [e4]
  generalize i1 / 2 ^ k = q at *
  generalize i1 % 2 ^ k * 2 ^ L0 = A at *
  generalize index % 2 ^ L0 = r at *
  have e2 : add64 q (2 ^ k) = q + 2 ^ k := add64_of_lt (by omega)
  have e3 : sub64 (q + 2 ^ k) 2 = q + 2 ^ k - 2 := sub64_of_le (by omega)
  have e5 : add64 A r = A + r := add64_of_lt (by omega)
  rw [e2, e5]
  show (sub64 (q + 2 ^ k) 2, A + r) = _
  rw [e3]

/-- `index1` rebuilt by `GetIndex` -/
theorem sqrt_index1 (L0 s o : Nat) :
    getIndex .sqrt L0 s o / 2 ^ L0 + 1 = (s + 2 - 2 ^ segLog s) * 2 ^ segLog s + o / 2 ^ L0 := by
  have hp := Nat.two_pow_pos L0
  have hpk := Nat.two_pow_pos (segLog s)
  obtain ⟨q1, _, _⟩ := seg_quot s
  have hq1 : 1 ≤ s + 2 - 2 ^ segLog s := by omega
  have hqp : 1 ≤ (s + 2 - 2 ^ segLog s) * 2 ^ segLog s :=
    Nat.le_trans hpk (Nat.le_mul_of_pos_left _ hq1)
  have hm : o % 2 ^ L0 < 2 ^ L0 := Nat.mod_lt _ hp
  rw [getIndex_sqrt, Nat.add_comm _ (o % 2 ^ L0), Nat.add_mul_div_right _ _ hp, Nat.div_eq_of_lt hm]
  generalize o / 2 ^ L0 = d
  generalize (s + 2 - 2 ^ segLog s) * 2 ^ segLog s = B at *
  omega

theorem getIndex64_sqrt_eq (L0 s o : Nat) (hL : L0 < 64) (hs : s * 2 + 4 < 2 ^ 64)
    (hf : Fits L0 (getIndex .sqrt L0 s o)) : getIndex64 .sqrt L0 s o = getIndex .sqrt L0 s o := by
  obtain ⟨hi, hw⟩ := hf
  rw [sqrt_index1] at hw
  have hk := segLog_lt s hs
  obtain ⟨q1, _, q3⟩ := seg_quot s
  have hpk := Nat.two_pow_pos (segLog s)
  have hp := Nat.two_pow_pos L0
  have hq1 : 1 ≤ s + 2 - 2 ^ segLog s := by omega
  have hqp : 1 ≤ (s + 2 - 2 ^ segLog s) * 2 ^ segLog s :=
    Nat.le_trans hpk (Nat.le_mul_of_pos_left _ hq1)
  rw [getIndex_sqrt] at hi ⊢
  unfold getIndex64
  simp only [Nat.shiftRight_eq_div_pow]
  show add64 (shl64 (sub64 (add64 (shl64 (sub64 (add64 s 2) (shl64 1 (sqrtSegToLog64 s))) (sqrtSegToLog64 s))
    (o / 2 ^ L0)) 1) L0) (o &&& mask64 L0) = _
  rw [sqrtSegToLog64_eq s hs, shl64_one hk, and_mask64 _ hL]
  have e1 : add64 s 2 = s + 2 := add64_of_lt (by omega)
  have e2 : sub64 (s + 2) (2 ^ segLog s) = s + 2 - 2 ^ segLog s := sub64_of_le (by omega)
  rw [e1, e2]
  have hB : (s + 2 - 2 ^ segLog s) * 2 ^ segLog s < 2 ^ 64 := Nat.lt_of_le_of_lt (Nat.le_add_right _ _) hw
  rw [shl64_of_lt hB]
  generalize (s + 2 - 2 ^ segLog s) * 2 ^ segLog s = B at *
  generalize o / 2 ^ L0 = d at *
  have e3 : add64 B d = B + d := add64_of_lt hw
  have e4 : sub64 (B + d) 1 = B + d - 1 := sub64_of_le (by omega)
  rw [e3, e4]
  have hC : (B + d - 1) * 2 ^ L0 < 2 ^ 64 := Nat.lt_of_le_of_lt (Nat.le_add_right _ _) hi
  rw [shl64_of_lt hC]
  exact add64_of_lt hi

theorem itemCount64_sqrt_eq (L0 s : Nat) (hs : s * 2 + 4 < 2 ^ 64) (hk : segLog s + L0 < 64) :
    itemCount64 .sqrt L0 s = itemCount .sqrt L0 s := by
  unfold itemCount64
  simp only []
  rw [sqrtSegToLog64_eq s hs, shl64_one hk, itemCount_sqrt]

/-! ### constant sizing -/

theorem segItem64_cnst_eq (L0 index : Nat) (hL : L0 < 64) :
    segItem64 .cnst L0 index = getSeg .cnst L0 index := by
  unfold segItem64 getSeg
  simp only []
  rw [Nat.shiftRight_eq_div_pow, and_mask64 _ hL]

theorem getIndex64_cnst_eq (L0 s o : Nat) (hf : getIndex .cnst L0 s o < 2 ^ 64) :
    getIndex64 .cnst L0 s o = getIndex .cnst L0 s o := by
  have hf' : s * 2 ^ L0 + o < 2 ^ 64 := hf
  unfold getIndex64 getIndex
  simp only []
  rw [shl64_of_lt (by omega), add64_of_lt hf']

theorem itemCount64_cnst_eq (L0 s : Nat) (hL : L0 < 64) : itemCount64 .cnst L0 s = itemCount .cnst L0 s := by
  unfold itemCount64 itemCount
  simp only []
  exact shl64_one hL

/-! ### both sizings -/

theorem segItem64_eq (f : Func) (L0 index : Nat) (hL : L0 < 64) (hf : Fits L0 index) :
    segItem64 f L0 index = getSeg f L0 index := by
  cases f
  · exact segItem64_sqrt_eq L0 index hL hf
  · exact segItem64_cnst_eq L0 index hL

/-- `GetIndex(GetSegItemIndexes(index)) = index` on the machine functions -/
theorem roundtrip64 (f : Func) (L0 index : Nat) (hL : L0 < 64) (hf : Fits L0 index) :
    getIndex64 f L0 (segItem64 f L0 index).1 (segItem64 f L0 index).2 = index := by
  rw [segItem64_eq f L0 index hL hf]
  have hr := (sizing_lawful f L0).roundtrip index
  have hr' : getIndex f L0 (getSeg f L0 index).1 (getSeg f L0 index).2 = index := hr
  cases f
  · rw [getIndex64_sqrt_eq L0 _ _ hL (by have := (sqrt_seg_small L0 index hf.2).1; omega) (by rw [hr']; exact hf)]
    exact hr'
  · rw [getIndex64_cnst_eq L0 _ _ (by rw [hr']; exact hf.1)]
    exact hr'

/-- the segment size the machine functions report for the segment of a `size_t` index (`L0 ≤ 31`) -/
theorem itemCount64_getSeg (f : Func) (L0 index : Nat) (hL : L0 ≤ 31) (hf : Fits L0 index) :
    itemCount64 f L0 (getSeg f L0 index).1 = itemCount f L0 (getSeg f L0 index).1 := by
  cases f
  · have hs := (sqrt_seg_small L0 index hf.2).1
    apply itemCount64_sqrt_eq _ _ (by omega)
    rw [segLog_getSeg]
    have := logItem_le (index / 2 ^ L0 + 1) (Nat.le_add_left 1 _) hf.2
    omega
  · exact itemCount64_cnst_eq L0 _ (by omega)

/-- `GetSegItemIndexes(GetIndex(seg, offset)) = (seg, offset)` on the machine functions, for every slot
    whose index is a `size_t` (and `index1` does not wrap) -/
theorem inverse64 (f : Func) (L0 s o : Nat) (hL : L0 < 64) (ho : o < itemCount f L0 s)
    (hs : s * 2 + 4 < 2 ^ 64) (hf : Fits L0 (getIndex f L0 s o)) :
    segItem64 f L0 (getIndex64 f L0 s o) = (s, o) := by
  have hinv : getSeg f L0 (getIndex f L0 s o) = (s, o) := (sizing_lawful f L0).inverse s o ho
  cases f
  · rw [getIndex64_sqrt_eq L0 s o hL hs hf, segItem64_sqrt_eq L0 _ hL hf]; exact hinv
  · rw [getIndex64_cnst_eq L0 s o hf.1, segItem64_cnst_eq L0 _ hL]; exact hinv

/-- **F14**: at the one excluded point the machine functions do not round-trip —
    `GetSegItemIndexes(2^64-1)` of the sqrt sizing with `logInitialItemCount = 0` yields segment `2^32 - 2`,
    offset 0, and `GetIndex` of that is `2^62 - 1`. -/
theorem f14_point :
    segItem64 .sqrt 0 (2 ^ 64 - 1) = (2 ^ 32 - 2, 0) ∧ getIndex64 .sqrt 0 (2 ^ 32 - 2) 0 = 2 ^ 62 - 1 := by
  decide +kernel

end Momo.Seg
