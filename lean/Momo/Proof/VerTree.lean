import Momo.Proof.VerHash
/-!
  TreeSet / TreeMap (C15): every entry point either leaves (keys, root, node params) of an object unchanged or
  increments the version cell of that object's crew; quiet entry points do not increment without a change;
  rejection table; stale / foreign / null / fresh corollaries; histories.  Core Lean only.
-/
namespace Momo.Ver

/-- what iterators of a tree depend on: the sorted keys and the presence of root node / node params -/
def TSet.shapeOf (s : TSet) : List Nat × Bool × Bool := (s.keys, s.root, s.params)

def TEff (cs : Cells) (s : TSet) (cs' : Cells) (s' : TSet) : Prop :=
  s'.cell = s.cell ∧ ∃ n, cs' = bumpN cs s.cell n ∧ (s'.shapeOf ≠ s.shapeOf → 0 < n)

def TEffQ (cs : Cells) (s : TSet) (cs' : Cells) (s' : TSet) : Prop :=
  s'.cell = s.cell ∧ ∃ n, cs' = bumpN cs s.cell n ∧ (s'.shapeOf ≠ s.shapeOf → 0 < n) ∧ (s'.shapeOf = s.shapeOf → n = 0)

theorem TEffQ.toEff {cs s cs' s'} (h : TEffQ cs s cs' s') : TEff cs s cs' s' :=
  ⟨h.1, h.2.choose, h.2.choose_spec.1, h.2.choose_spec.2.1⟩

theorem TEffQ.refl (cs : Cells) (s : TSet) : TEffQ cs s cs s :=
  ⟨rfl, 0, (bumpN_zero cs s.cell).symm, fun h => absurd rfl h, fun _ => rfl⟩

/-- one increment together with a real change -/
theorem TEffQ.one {cs cs' : Cells} {s s' : TSet} (hcs : cs' = bump cs s.cell) (hc : s'.cell = s.cell)
    (hne : s'.shapeOf ≠ s.shapeOf) : TEffQ cs s cs' s' :=
  ⟨hc, 1, hcs, fun _ => Nat.one_pos, fun h => absurd h hne⟩

theorem TEff.one {cs cs' : Cells} {s s' : TSet} (hcs : cs' = bump cs s.cell) (hc : s'.cell = s.cell) : TEff cs s cs' s' :=
  ⟨hc, 1, hcs, fun _ => Nat.one_pos⟩

theorem TEff.trans {cs s cs1 s1 cs2 s2} (h1 : TEff cs s cs1 s1) (h2 : TEff cs1 s1 cs2 s2) : TEff cs s cs2 s2 := by
  obtain ⟨hc1, n1, e1, p1⟩ := h1
  obtain ⟨hc2, n2, e2, p2⟩ := h2
  refine ⟨hc2.trans hc1, n1 + n2, ?_, ?_⟩
  · rw [e2, e1, hc1, bumpN_bumpN]
  · intro hne
    by_cases hk : s1.shapeOf = s.shapeOf
    · have : s2.shapeOf ≠ s1.shapeOf := by rw [hk]; exact hne
      have := p2 this; omega
    · have := p1 hk; omega

theorem shape_ne_of_len {s s' : TSet} (h : s'.keys.length ≠ s.keys.length) : s'.shapeOf ≠ s.shapeOf := by
  intro e
  simp only [TSet.shapeOf, Prod.mk.injEq] at e
  exact h (by rw [e.1])

theorem length_insertAt (keys : List Nat) (i k : Nat) : (insertAt keys i k).length = keys.length + 1 := by
  simp only [insertAt, List.length_append, List.length_take, List.length_cons, List.length_drop]
  omega

theorem upperIdx_le (keys : List Nat) (k : Nat) : upperIdx keys k ≤ keys.length := List.length_filter_le _ _
theorem lowerIdx_le_upperIdx (keys : List Nat) (k : Nat) : lowerIdx keys k ≤ upperIdx keys k := by
  unfold lowerIdx upperIdx
  induction keys with
  | nil => simp
  | cons x xs ih =>
    simp only [List.filter_cons]
    by_cases h1 : x < k
    · have h2 : x ≤ k := Nat.le_of_lt h1
      simp [h1, h2]; exact ih
    · by_cases h2 : x ≤ k
      · simp [h1, h2]; omega
      · simp [h1, h2]; exact ih

theorem lowerIdx_lt_of_mem {keys : List Nat} {k : Nat} (h : k ∈ keys) : lowerIdx keys k < upperIdx keys k := by
  unfold lowerIdx upperIdx
  induction keys with
  | nil => simp at h
  | cons x xs ih =>
    simp only [List.filter_cons]
    rcases List.mem_cons.mp h with rfl | h'
    · have := lowerIdx_le_upperIdx xs k
      unfold lowerIdx upperIdx at this
      simp; omega
    · have := ih h'
      by_cases h1 : x < k
      · have h2 : x ≤ k := Nat.le_of_lt h1
        simp [h1, h2]; exact this
      · by_cases h2 : x ≤ k
        · simp [h1, h2]; omega
        · simp [h1, h2]; exact this

namespace TSet

theorem addAt_effQ (s : TSet) (cs : Cells) (i k : Nat) : TEffQ cs s (s.addAt cs i k).1 (s.addAt cs i k).2.1 := by
  refine TEffQ.one (by rfl) (by rfl) ?_
  apply shape_ne_of_len
  simp only [addAt, length_insertAt]; omega

theorem insert_effQ (s : TSet) (cs : Cells) (k : Nat) : TEffQ cs s (s.insert cs k).1 (s.insert cs k).2.1 := by
  unfold insert
  split
  · exact TEffQ.refl cs s
  · exact addAt_effQ s cs _ k

theorem insert_len (s : TSet) (cs : Cells) (k : Nat) :
    s.keys.length ≤ (s.insert cs k).2.1.keys.length ∧
    ((s.insert cs k).2.1.keys.length = s.keys.length → (s.insert cs k).1 = cs ∧ (s.insert cs k).2.1 = s) := by
  unfold insert
  split
  · exact ⟨Nat.le_refl _, fun _ => ⟨rfl, rfl⟩⟩
  · simp only [addAt, length_insertAt]
    exact ⟨Nat.le_succ _, fun h => absurd h (by omega)⟩

theorem insertExt_effQ {s : TSet} {cs : Cells} {ef : Bool} {k : Nat} {r} (hr : s.insertExt cs ef k = some r) :
    TEffQ cs s r.1 r.2.1 := by
  unfold insertExt at hr
  cases h1 : chk ef <;> simp [h1] at hr
  subst hr
  exact insert_effQ s cs k

theorem add_effQ {s : TSet} {cs : Cells} {h : TIt} {k : Nat} {r} (hr : s.add cs h k = some r) : TEffQ cs s r.1 r.2.1 := by
  unfold add at hr
  split at hr
  · cases h1 : chk h.pos.isNone <;> simp [h1] at hr
    subst hr; exact addAt_effQ s cs 0 k
  · cases h1 : chk (h.kp.checkAt cs s.cell false) <;> simp [h1] at hr
    cases h2 : h.pos <;> simp [h2] at hr
    subst hr; exact addAt_effQ s cs _ k

theorem addExt_effQ {s : TSet} {cs : Cells} {h : TIt} {ef : Bool} {k : Nat} {r} (hr : s.addExt cs h ef k = some r) :
    TEffQ cs s r.1 r.2.1 := by
  unfold addExt at hr
  cases h0 : chk s.root <;> simp [h0] at hr
  cases h1 : chk (h.kp.checkAt cs s.cell false) <;> simp [h1] at hr
  cases h2 : h.pos <;> simp [h2] at hr
  cases h3 : chk ef <;> simp [h3] at hr
  subst hr; exact addAt_effQ s cs _ k

theorem removeAt_eff (s : TSet) (cs : Cells) (i : Nat) : TEff cs s (s.removeAt cs i).1 (s.removeAt cs i).2.1 :=
  TEff.one (by rfl) (by rfl)

theorem removeAt_effQ (s : TSet) (cs : Cells) (i : Nat) (hi : i < s.keys.length) :
    TEffQ cs s (s.removeAt cs i).1 (s.removeAt cs i).2.1 := by
  refine TEffQ.one (by rfl) (by rfl) ?_
  apply shape_ne_of_len
  simp only [removeAt, List.length_eraseIdx, hi, ↓reduceIte]; omega

theorem remove_eff {s : TSet} {cs : Cells} {h : TIt} {r} (hr : s.remove cs h = some r) : TEff cs s r.1 r.2.1 := by
  unfold remove at hr
  cases h1 : chk (h.kp.checkAt cs s.cell false) <;> simp [h1] at hr
  cases h2 : chk (h.pos != (s.endIt cs).pos) <;> simp [h2] at hr
  cases h3 : h.pos <;> simp [h3] at hr
  subst hr; exact removeAt_eff s cs _

theorem removeExt_eff {s : TSet} {cs : Cells} {h : TIt} {ef : Bool} {r} (hr : s.removeExt cs h ef = some r) :
    TEff cs s r.1 r.2.1 := by
  unfold removeExt at hr
  cases h1 : chk (!ef) <;> simp [h1] at hr
  exact remove_eff hr

theorem clear_effQ (s : TSet) (cs : Cells) : TEffQ cs s (s.clear cs).1 (s.clear cs).2 := by
  unfold clear
  split
  · exact TEffQ.refl cs s
  · rename_i h
    refine TEffQ.one (by rfl) (by rfl) ?_
    intro e
    simp only [shapeOf, Prod.mk.injEq] at e
    have : s.params = false := e.2.2.symm
    simp [this] at h

theorem removeSpan_effQ (s : TSet) (cs : Cells) (i j : Nat) (e : TIt) (hj : j ≤ s.keys.length) :
    TEffQ cs s (s.removeSpan cs i j e).1 (s.removeSpan cs i j e).2.1 := by
  unfold removeSpan
  split
  · exact TEffQ.refl cs s
  · split
    · exact clear_effQ s cs
    · rename_i h0 h1
      refine TEffQ.one (by rfl) (by rfl) ?_
      apply shape_ne_of_len
      simp only [List.length_append, List.length_take, List.length_drop]
      simp only [beq_iff_eq] at h0
      omega

theorem removeRange_effQ {s : TSet} {cs : Cells} {b e : TIt} {r} (hr : s.removeRange cs b e = some r) :
    TEffQ cs s r.1 r.2.1 := by
  unfold removeRange at hr
  split at hr
  · cases h1 : chk (b.pos.isNone && e.pos.isNone) <;> simp [h1] at hr
    subst hr; exact TEffQ.refl cs s
  · cases h1 : chk (b.kp.checkAt cs s.cell false) <;> simp [h1] at hr
    cases h2 : chk (e.kp.checkAt cs s.cell false) <;> simp [h2] at hr
    cases h3 : b.pos <;> simp [h3] at hr
    cases h4 : e.pos <;> simp [h4] at hr
    rename_i i j
    cases h5 : chk (decide (i ≤ j) && decide (j ≤ s.keys.length)) <;> simp [h5] at hr
    subst hr
    have := chk_eq_some.mp h5
    simp at this
    exact removeSpan_effQ s cs i j e this.2

theorem removeKey_effQ (s : TSet) (cs : Cells) (k : Nat) : TEffQ cs s (s.removeKey cs k).1 (s.removeKey cs k).2.1 := by
  unfold removeKey
  split
  · exact TEffQ.refl cs s
  · rename_i hk
    have hm : k ∈ s.keys := by simpa using hk
    split
    · apply removeAt_effQ
      exact Nat.lt_of_lt_of_le (lowerIdx_lt_of_mem hm) (upperIdx_le _ _)
    · exact removeSpan_effQ s cs _ _ _ (upperIdx_le _ _)

theorem removeIf_effQ (s : TSet) (cs : Cells) (m r : Nat) : TEffQ cs s (s.removeIf cs m r).1 (s.removeIf cs m r).2.1 := by
  refine ⟨rfl, (s.keys.filter (fun k => k % m == r)).length, rfl, ?_, ?_⟩
  · intro h
    apply Nat.pos_of_ne_zero
    intro hz
    apply h
    simp only [removeIf, shapeOf, Prod.mk.injEq, and_true]
    have hnil := List.length_eq_zero_iff.mp hz
    apply List.filter_eq_self.mpr
    intro k hk
    have hf := List.filter_eq_nil_iff.mp hnil k hk
    simpa using hf
  · intro h
    simp only [removeIf, shapeOf, Prod.mk.injEq, and_true] at h
    apply Decidable.byContradiction
    intro hn
    exact HSet.filter_ne_of_pos (Nat.pos_of_ne_zero hn) h

theorem insertRange_eff (ks : List Nat) : ∀ (s : TSet) (cs : Cells),
    TEff cs s (s.insertRange cs ks).1 (s.insertRange cs ks).2 := by
  induction ks with
  | nil => intro s cs; exact (TEffQ.refl cs s).toEff
  | cons k ks ih =>
    intro s cs
    simp only [insertRange, List.foldl_cons]
    exact TEff.trans (insert_effQ s cs k).toEff (ih _ _)

theorem insertRange_len (ks : List Nat) : ∀ (s : TSet) (cs : Cells),
    s.keys.length ≤ (s.insertRange cs ks).2.keys.length ∧
    ((s.insertRange cs ks).2.keys.length = s.keys.length → s.insertRange cs ks = (cs, s)) := by
  induction ks with
  | nil => intro s cs; exact ⟨Nat.le_refl _, fun _ => rfl⟩
  | cons k ks ih =>
    intro s cs
    simp only [insertRange, List.foldl_cons]
    have h1 := insert_len s cs k
    have h2 := ih (s.insert cs k).2.1 (s.insert cs k).1
    simp only [insertRange] at h2
    refine ⟨Nat.le_trans h1.1 h2.1, ?_⟩
    intro he
    have hl : (s.insert cs k).2.1.keys.length = s.keys.length := by omega
    have h3 := h1.2 hl
    rw [h2.2 (by omega), h3.1, h3.2]

theorem insertRange_effQ (ks : List Nat) (s : TSet) (cs : Cells) :
    TEffQ cs s (s.insertRange cs ks).1 (s.insertRange cs ks).2 := by
  obtain ⟨hc, n, hn, hp⟩ := insertRange_eff ks s cs
  refine ⟨hc, n, hn, hp, ?_⟩
  intro h
  have hk : (s.insertRange cs ks).2.keys = s.keys := by
    simp only [shapeOf, Prod.mk.injEq] at h; exact h.1
  have := (insertRange_len ks s cs).2 (by rw [hk])
  rw [this] at hn
  have := congrFun hn s.cell
  simp only [bumpN_same] at this
  omega

theorem resetKey_cell {s : TSet} {cs : Cells} {h : TIt} {k : Nat} {s'} (hr : s.resetKey cs h k = some s') :
    s'.cell = s.cell := by
  unfold resetKey at hr
  cases h1 : chk (h.kp.checkAt cs s.cell false) <;> simp [h1] at hr
  cases h2 : chk (h.pos != (s.endIt cs).pos) <;> simp [h2] at hr
  cases h3 : h.pos <;> simp [h3] at hr
  subst hr; rfl

theorem length_foldl_insSorted (moved : List Nat) : ∀ l : List Nat, (moved.foldl insSorted l).length = l.length + moved.length := by
  induction moved with
  | nil => intro l; rfl
  | cons x xs ih =>
    intro l
    simp only [List.foldl_cons, List.length_cons]
    rw [ih, insSorted, length_insertAt]; omega

/-- MergeTo: crews stay; both cells get the same number `n` of increments; `n > 0` whenever either shape changed,
    `n = 0` whenever either key list is unchanged -/
theorem mergeTo_eff (cs : Cells) (src dst : TSet) :
    (TSet.mergeTo cs src dst).2.1.cell = src.cell ∧ (TSet.mergeTo cs src dst).2.2.cell = dst.cell ∧
    ∃ n, (TSet.mergeTo cs src dst).1 = bumpN (bumpN cs src.cell n) dst.cell n ∧
      (((TSet.mergeTo cs src dst).2.1.shapeOf ≠ src.shapeOf ∨ (TSet.mergeTo cs src dst).2.2.shapeOf ≠ dst.shapeOf) → 0 < n) ∧
      (((TSet.mergeTo cs src dst).2.1.keys = src.keys ∨ (TSet.mergeTo cs src dst).2.2.keys = dst.keys) → n = 0) := by
  unfold TSet.mergeTo
  have one : ∀ (c1 c2 : Nat), bump (bump cs c1) c2 = bumpN (bumpN cs c1 1) c2 1 := fun _ _ => rfl
  split
  · exact ⟨rfl, rfl, 0, by rw [bumpN_zero, bumpN_zero], fun h => by simp at h, fun _ => rfl⟩
  · rename_i hs
    have hsne : src.keys ≠ [] := by intro e; simp [e] at hs
    have hspos : 0 < src.keys.length := List.length_pos_iff.mpr hsne
    split
    · rename_i hd
      have hdnil : dst.keys = [] := by simpa using hd
      refine ⟨rfl, rfl, 1, one _ _, fun _ => Nat.one_pos, ?_⟩
      intro h
      simp only at h
      rcases h with h | h
      · exact absurd h.symm hsne
      · rw [hdnil] at h; exact absurd h hsne
    · split
      · refine ⟨rfl, rfl, 1, one _ _, fun _ => Nat.one_pos, ?_⟩
        intro h
        simp only at h
        rcases h with h | h
        · exact absurd h.symm hsne
        · have := congrArg List.length h
          rw [List.length_append] at this; omega
      · split
        · refine ⟨rfl, rfl, 1, one _ _, fun _ => Nat.one_pos, ?_⟩
          intro h
          simp only at h
          rcases h with h | h
          · exact absurd h.symm hsne
          · have := congrArg List.length h
            rw [List.length_append] at this; omega
        · generalize hmv : movedKeys src.multi src.keys dst.keys = moved
          split
          · exact ⟨rfl, rfl, 0, by rw [bumpN_zero, bumpN_zero], fun h => by simp at h, fun _ => rfl⟩
          · rename_i hm
            have hmpos : 0 < moved.length := by
              apply List.length_pos_iff.mpr; intro e; simp [e] at hm
            refine ⟨rfl, rfl, moved.length, rfl, fun _ => hmpos, ?_⟩
            intro h
            simp only at h
            exfalso
            rcases h with h | h
            · unfold stayKeys at h
              unfold movedKeys at hmv
              by_cases hmu : src.multi = true
              · simp only [hmu, ↓reduceIte] at h
                exact hsne h.symm
              · simp only [hmu, Bool.false_eq_true, ↓reduceIte] at h hmv
                have h2 := HSet.filter_length_add src.keys (fun k => dst.keys.contains k)
                rw [h, hmv] at h2
                omega
            · have := congrArg List.length h
              rw [length_foldl_insSorted] at this
              omega

end TSet

namespace TWorld

def WF (w : TWorld) : Prop := w.a.cell ≠ w.b.cell

/-- shape of the tree whose crew owns cell `c` -/
def shape (w : TWorld) (c : Nat) : Option (List Nat × Bool × Bool) :=
  if w.a.cell = c then some w.a.shapeOf else if w.b.cell = c then some w.b.shapeOf else none

theorem obj_cell_ne (w : TWorld) (hw : w.WF) (o : Bool) : (w.obj o).cell ≠ (w.obj (!o)).cell := by
  cases o <;> simp [obj] <;> first | exact hw | exact fun h => hw h.symm

theorem setObj_cs (w : TWorld) (o : Bool) (cs' : Cells) (s' : TSet) : (w.setObj o cs' s').cs = cs' := by
  cases o <;> rfl
theorem setObj_obj_same (w : TWorld) (o : Bool) (cs' : Cells) (s' : TSet) : (w.setObj o cs' s').obj o = s' := by
  cases o <;> rfl
theorem setObj_obj_other (w : TWorld) (o : Bool) (cs' : Cells) (s' : TSet) : (w.setObj o cs' s').obj (!o) = w.obj (!o) := by
  cases o <;> rfl

theorem shape_eq_obj (w : TWorld) (hw : w.WF) (o : Bool) (c : Nat) :
    w.shape c = if (w.obj o).cell = c then some (w.obj o).shapeOf
                else if (w.obj (!o)).cell = c then some (w.obj (!o)).shapeOf else none := by
  cases o
  · rfl
  · simp only [shape, obj, ↓reduceIte, Bool.not_true, Bool.false_eq_true]
    by_cases h1 : w.a.cell = c <;> by_cases h2 : w.b.cell = c <;> simp [h1, h2]
    exact absurd (h1.trans h2.symm) hw

theorem WF_of_obj (w : TWorld) (o : Bool) (h : (w.obj o).cell ≠ (w.obj (!o)).cell) : w.WF := by
  cases o
  · exact h
  · exact fun e => h e.symm

structure StepFacts (w w' : TWorld) : Prop where
  wf : w'.WF
  mono : ∀ c, w.cs c ≤ w'.cs c
  bump : ∀ c, w'.shape c ≠ w.shape c → w.cs c < w'.cs c

theorem StepFacts.refl (w : TWorld) (hw : w.WF) : StepFacts w w :=
  ⟨hw, fun _ => Nat.le_refl _, fun _ h => absurd rfl h⟩

theorem facts_of_eff (w : TWorld) (hw : w.WF) (o : Bool) {cs' : Cells} {s' : TSet} (he : TEff w.cs (w.obj o) cs' s') :
    StepFacts w (w.setObj o cs' s') := by
  obtain ⟨hc, n, hn, hp⟩ := he
  have hne := obj_cell_ne w hw o
  have hwf : (w.setObj o cs' s').WF := by
    apply WF_of_obj _ o
    rw [setObj_obj_same, setObj_obj_other, hc]; exact hne
  refine ⟨hwf, ?_, ?_⟩
  · intro c; rw [setObj_cs, hn]; exact le_bumpN _ _ _ _
  · intro c hs
    rw [shape_eq_obj _ hwf o, shape_eq_obj w hw o, setObj_obj_same, setObj_obj_other, hc] at hs
    rw [setObj_cs, hn]
    by_cases h1 : (w.obj o).cell = c
    · simp only [h1, ↓reduceIte, ne_eq, Option.some.injEq] at hs
      have := hp hs
      rw [← h1, bumpN_same]; omega
    · simp [h1] at hs

theorem quiet_of_effQ (w : TWorld) (hw : w.WF) (o : Bool) {cs' : Cells} {s' : TSet} (he : TEffQ w.cs (w.obj o) cs' s')
    (c : Nat) (hs : (w.setObj o cs' s').shape c = w.shape c) : (w.setObj o cs' s').cs c = w.cs c := by
  obtain ⟨hc, n, hn, _, hq⟩ := he
  have hne := obj_cell_ne w hw o
  have hwf : (w.setObj o cs' s').WF := by
    apply WF_of_obj _ o
    rw [setObj_obj_same, setObj_obj_other, hc]; exact hne
  rw [shape_eq_obj _ hwf o, shape_eq_obj w hw o, setObj_obj_same, setObj_obj_other, hc] at hs
  rw [setObj_cs, hn]
  by_cases h1 : (w.obj o).cell = c
  · simp only [h1, ↓reduceIte, Option.some.injEq] at hs
    rw [hq hs, bumpN_zero]
  · exact bumpN_other _ _ (fun e => h1 e.symm)

theorem shape_swap (w : TWorld) (hw : w.WF) (c : Nat) : ({ w with a := w.b, b := w.a } : TWorld).shape c = w.shape c := by
  simp only [shape]
  by_cases h1 : w.a.cell = c <;> by_cases h2 : w.b.cell = c <;> simp [h1, h2]
  exact absurd (h1.trans h2.symm) hw

/-- the world after `MergeTo` -/
def merged (w : TWorld) (o : Bool) : TWorld :=
  (w.setObj o (TSet.mergeTo w.cs (w.obj o) (w.obj (!o))).1 (TSet.mergeTo w.cs (w.obj o) (w.obj (!o))).2.1).setObj (!o)
    (TSet.mergeTo w.cs (w.obj o) (w.obj (!o))).1 (TSet.mergeTo w.cs (w.obj o) (w.obj (!o))).2.2

theorem merged_facts (w : TWorld) (hw : w.WF) (o : Bool) :
    StepFacts w (w.merged o) ∧ ∀ c, (w.merged o).shape c = w.shape c → (w.merged o).cs c = w.cs c := by
  unfold merged
  obtain ⟨hc1, hc2, n, hn, hp, hq⟩ := TSet.mergeTo_eff w.cs (w.obj o) (w.obj (!o))
  generalize TSet.mergeTo w.cs (w.obj o) (w.obj (!o)) = r at *
  have hne := obj_cell_ne w hw o
  generalize hw' : (w.setObj o r.1 r.2.1).setObj (!o) r.1 r.2.2 = w'
  have ho : w'.obj o = r.2.1 := by
    have := setObj_obj_other (w.setObj o r.1 r.2.1) (!o) r.1 r.2.2
    simp only [Bool.not_not] at this
    rw [← hw', this, setObj_obj_same]
  have ho' : w'.obj (!o) = r.2.2 := by rw [← hw']; exact setObj_obj_same _ _ _ _
  have hcs : w'.cs = r.1 := by rw [← hw']; exact setObj_cs _ _ _ _
  have hwf : w'.WF := by
    apply WF_of_obj w' o
    rw [ho, ho', hc1, hc2]; exact hne
  refine ⟨⟨hwf, ?_, ?_⟩, ?_⟩
  · intro c; rw [hcs, hn]
    exact Nat.le_trans (le_bumpN _ _ _ _) (le_bumpN _ _ _ _)
  · intro c hs
    rw [shape_eq_obj w' hwf o, shape_eq_obj w hw o, ho, ho', hc1, hc2] at hs
    rw [hcs, hn]
    by_cases h1 : (w.obj o).cell = c
    · simp only [h1, ↓reduceIte, ne_eq, Option.some.injEq] at hs
      have hpos : 0 < n := hp (Or.inl hs)
      have hc' : c ≠ (w.obj (!o)).cell := fun e => hne (h1.trans e)
      rw [bumpN_other _ _ hc', ← h1, bumpN_same]; omega
    · by_cases h2 : (w.obj (!o)).cell = c
      · simp only [h1, ↓reduceIte, h2, ne_eq, Option.some.injEq] at hs
        have hpos : 0 < n := hp (Or.inr hs)
        rw [← h2, bumpN_same]
        have := le_bumpN w.cs (w.obj o).cell n (w.obj (!o)).cell
        omega
      · simp [h1, h2] at hs
  · intro c hs
    rw [shape_eq_obj w' hwf o, shape_eq_obj w hw o, ho, ho', hc1, hc2] at hs
    rw [hcs, hn]
    by_cases h1 : (w.obj o).cell = c
    · simp only [h1, ↓reduceIte, Option.some.injEq, TSet.shapeOf, Prod.mk.injEq] at hs
      rw [hq (Or.inl hs.1), bumpN_zero, bumpN_zero]
    · by_cases h2 : (w.obj (!o)).cell = c
      · simp only [h1, ↓reduceIte, h2, Option.some.injEq, TSet.shapeOf, Prod.mk.injEq] at hs
        rw [hq (Or.inr hs.1), bumpN_zero, bumpN_zero]
      · rw [bumpN_other _ _ (fun e => h2 e.symm), bumpN_other _ _ (fun e => h1 e.symm)]

/-- **every entry point** other than ResetKey: well-formedness, monotone counters, increment on every change -/
theorem step_facts (w : TWorld) (hw : w.WF) (op : TOp) (hnr : ∀ o h k, op ≠ .resetKey o h k) :
    StepFacts w (w.step op).1 := by
  cases op with
  | begin_ o => exact StepFacts.refl w hw
  | end_ o => exact StepFacts.refl w hw
  | lower o k => exact StepFacts.refl w hw
  | upper o k => exact StepFacts.refl w hw
  | find o k => exact StepFacts.refl w hw
  | deref h => exact StepFacts.refl w hw
  | inc h => exact StepFacts.refl w hw
  | dec h => exact StepFacts.refl w hw
  | checkIt o h ae => exact StepFacts.refl w hw
  | insert o k => exact facts_of_eff w hw o (TSet.insert_effQ _ _ _).toEff
  | insertExt o ef k =>
    simp only [step]
    split
    · rename_i r hr; exact facts_of_eff w hw o (TSet.insertExt_effQ hr).toEff
    · exact StepFacts.refl w hw
  | add o h k =>
    simp only [step]
    split
    · rename_i r hr; exact facts_of_eff w hw o (TSet.add_effQ hr).toEff
    · exact StepFacts.refl w hw
  | addExt o h ef k =>
    simp only [step]
    split
    · rename_i r hr; exact facts_of_eff w hw o (TSet.addExt_effQ hr).toEff
    · exact StepFacts.refl w hw
  | remove o h =>
    simp only [step]
    split
    · rename_i r hr; exact facts_of_eff w hw o (TSet.remove_eff hr)
    · exact StepFacts.refl w hw
  | removeExt o h ef =>
    simp only [step]
    split
    · rename_i r hr; exact facts_of_eff w hw o (TSet.removeExt_eff hr)
    · exact StepFacts.refl w hw
  | removeRange o b e =>
    simp only [step]
    split
    · rename_i r hr; exact facts_of_eff w hw o (TSet.removeRange_effQ hr).toEff
    · exact StepFacts.refl w hw
  | removeKey o k => exact facts_of_eff w hw o (TSet.removeKey_effQ _ _ _).toEff
  | removeIf o m r => exact facts_of_eff w hw o (TSet.removeIf_effQ _ _ _ _).toEff
  | resetKey o h k => exact absurd rfl (hnr o h k)
  | clear o => exact facts_of_eff w hw o (TSet.clear_effQ _ _).toEff
  | insertRange o ks => exact facts_of_eff w hw o (TSet.insertRange_eff ks _ _)
  | swap =>
    refine ⟨fun e => hw e.symm, fun _ => Nat.le_refl _, ?_⟩
    intro c hs
    exact absurd (shape_swap w hw c) hs
  | mergeTo o => exact (merged_facts w hw o).1
  | mergeSelf o => exact StepFacts.refl w hw

theorem step_resetKey (w : TWorld) (hw : w.WF) (o : Bool) (h : TIt) (k : Nat) :
    (w.step (.resetKey o h k)).1.WF ∧ (w.step (.resetKey o h k)).1.cs = w.cs := by
  simp only [step]
  split
  · rename_i s hs
    have hc := TSet.resetKey_cell hs
    refine ⟨?_, setObj_cs _ _ _ _⟩
    apply WF_of_obj _ o
    rw [setObj_obj_same, setObj_obj_other, hc]; exact obj_cell_ne w hw o
  · exact ⟨hw, rfl⟩

theorem step_reject_unchanged (w : TWorld) (op : TOp) (h : (w.step op).2 = none) : (w.step op).1 = w := by
  cases op <;> simp only [step] at h ⊢ <;> first | rfl | (split at h <;> simp_all) | simp_all

/-- entry points for which "nothing changed" implies "no version increment" (all except Remove(iter) / ResetKey,
    which always change an element) -/
def _root_.Momo.Ver.TOp.Quiet : TOp → Prop
  | .resetKey _ _ _ => False
  | .remove _ _ => False
  | .removeExt _ _ _ => False
  | _ => True

theorem step_quiet (w : TWorld) (hw : w.WF) (op : TOp) (hq : op.Quiet) (c : Nat)
    (hs : (w.step op).1.shape c = w.shape c) : (w.step op).1.cs c = w.cs c := by
  cases op with
  | begin_ o => rfl
  | end_ o => rfl
  | lower o k => rfl
  | upper o k => rfl
  | find o k => rfl
  | deref h => rfl
  | inc h => rfl
  | dec h => rfl
  | checkIt o h ae => rfl
  | insert o k => exact quiet_of_effQ w hw o (TSet.insert_effQ _ _ _) c hs
  | insertExt o ef k =>
    simp only [step] at hs ⊢
    split at hs
    · rename_i r hr heq; exact quiet_of_effQ w hw o (TSet.insertExt_effQ heq) c hs
    · rfl
  | add o h k =>
    simp only [step] at hs ⊢
    split at hs
    · rename_i r hr heq; exact quiet_of_effQ w hw o (TSet.add_effQ heq) c hs
    · rfl
  | addExt o h ef k =>
    simp only [step] at hs ⊢
    split at hs
    · rename_i r hr heq; exact quiet_of_effQ w hw o (TSet.addExt_effQ heq) c hs
    · rfl
  | remove o h => exact absurd hq (by simp [TOp.Quiet])
  | removeExt o h ef => exact absurd hq (by simp [TOp.Quiet])
  | removeRange o b e =>
    simp only [step] at hs ⊢
    split at hs
    · rename_i r hr heq; exact quiet_of_effQ w hw o (TSet.removeRange_effQ heq) c hs
    · rfl
  | removeKey o k => exact quiet_of_effQ w hw o (TSet.removeKey_effQ _ _ _) c hs
  | removeIf o m r => exact quiet_of_effQ w hw o (TSet.removeIf_effQ _ _ _ _) c hs
  | resetKey o h k => exact absurd hq (by simp [TOp.Quiet])
  | clear o => exact quiet_of_effQ w hw o (TSet.clear_effQ _ _) c hs
  | insertRange o ks => exact quiet_of_effQ w hw o (TSet.insertRange_effQ ks _ _) c hs
  | swap => rfl
  | mergeTo o => exact (merged_facts w hw o).2 c hs
  | mergeSelf o => rfl

/-! ### histories -/

def run (w : TWorld) : List TOp → TWorld
  | [] => w
  | op :: ops => run (w.step op).1 ops

theorem step_wf_mono (w : TWorld) (hw : w.WF) (op : TOp) : (w.step op).1.WF ∧ ∀ c, w.cs c ≤ (w.step op).1.cs c := by
  by_cases h : ∃ o h k, op = .resetKey o h k
  · obtain ⟨o, hh, k, rfl⟩ := h
    have := step_resetKey w hw o hh k
    exact ⟨this.1, fun c => by rw [this.2]; exact Nat.le_refl _⟩
  · have := step_facts w hw op (fun o hh k e => h ⟨o, hh, k, e⟩)
    exact ⟨this.wf, this.mono⟩

theorem run_wf_mono (ops : List TOp) : ∀ (w : TWorld), w.WF → (w.run ops).WF ∧ ∀ c, w.cs c ≤ (w.run ops).cs c := by
  induction ops with
  | nil => intro w hw; exact ⟨hw, fun _ => Nat.le_refl _⟩
  | cons op ops ih =>
    intro w hw
    have h1 := step_wf_mono w hw op
    have h2 := ih _ h1.1
    exact ⟨h2.1, fun c => Nat.le_trans (h1.2 c) (h2.2 c)⟩

def AllQuiet (c : Nat) : TWorld → List TOp → Prop
  | _, [] => True
  | w, op :: ops => ((w.step op).2 = none ∨ (op.Quiet ∧ (w.step op).1.shape c = w.shape c)) ∧ AllQuiet c (w.step op).1 ops

def SomeChange (c : Nat) : TWorld → List TOp → Prop
  | _, [] => False
  | w, op :: ops => ((∀ o h k, op ≠ .resetKey o h k) ∧ (w.step op).1.shape c ≠ w.shape c) ∨ SomeChange c (w.step op).1 ops

theorem run_quiet (c : Nat) (ops : List TOp) : ∀ (w : TWorld), w.WF → AllQuiet c w ops → (w.run ops).cs c = w.cs c := by
  induction ops with
  | nil => intro w _ _; rfl
  | cons op ops ih =>
    intro w hw hq
    have h1 := step_wf_mono w hw op
    simp only [run]
    rw [ih _ h1.1 hq.2]
    rcases hq.1 with hr | ⟨hq1, hs⟩
    · rw [step_reject_unchanged w op hr]
    · exact step_quiet w hw op hq1 c hs

theorem run_change (c : Nat) (ops : List TOp) : ∀ (w : TWorld), w.WF → SomeChange c w ops → w.cs c < (w.run ops).cs c := by
  induction ops with
  | nil => intro w _ h; exact absurd h (by simp [SomeChange])
  | cons op ops ih =>
    intro w hw hc
    have h1 := step_wf_mono w hw op
    have h2 := run_wf_mono ops _ h1.1
    simp only [run]
    rcases hc with ⟨hnr, hs⟩ | hc
    · have := (step_facts w hw op hnr).bump c hs
      exact Nat.lt_of_lt_of_le this (h2.2 c)
    · exact Nat.lt_of_le_of_lt (h1.2 c) (ih _ h1.1 hc)

end TWorld
end Momo.Ver

namespace Momo.Ver
namespace TWorld

theorem deref_isSome (w : TWorld) (h : TIt) :
    (w.deref h).isSome = (h.kp.check w.cs && w.atElem h) := by
  unfold deref atElem countOf
  cases hc : h.kp.check w.cs
  · simp [chk]
  · cases hp : h.pos with
    | none => simp [chk]
    | some i =>
      cases hk : h.kp.cell with
      | none => simp [Keeper.check, hk] at hc
      | some c =>
        cases hb : w.byCell c with
        | none => simp [chk, hb]
        | some s =>
          simp only [chk, ↓reduceIte, Option.bind_eq_bind, Option.bind_some, hb, Bool.true_and]
          by_cases hi : i < s.keys.length <;> simp [hi]

/-- **decidable rejection table** (TreeSet / TreeMap) -/
theorem accepts_iff (w : TWorld) (op : TOp) : (w.step op).2.isSome = (op.vcheck w && op.pre w) := by
  cases op with
  | deref h => simp only [step, TOp.vcheck, TOp.pre, Option.isSome_map]; exact deref_isSome w h
  | inc h =>
    simp only [step, TOp.vcheck, TOp.pre, Option.isSome_map, inc]
    have := deref_isSome w h
    cases hd : w.deref h with
    | none =>
      rw [hd] at this; simp only [Option.isSome_none] at this
      rw [← this]; rfl
    | some x =>
      rw [hd] at this; simp only [Option.isSome_some] at this
      rw [← this]
      cases hp : h.pos with
      | none => simp [atElem, hp] at this
      | some i => rfl
  | dec h =>
    simp only [step, TOp.vcheck, TOp.pre, Option.isSome_map, dec, TIt.notFirst]
    cases h.kp.check w.cs <;> cases h.pos <;> simp [chk]
    rename_i i
    by_cases hi : i = 0 <;> simp [hi]
  | checkIt o h ae =>
    simp only [step, TOp.vcheck, TOp.pre, TSet.checkIt, Option.isSome_map]
    cases h.kp.checkAt w.cs (w.obj o).cell ae <;> cases ae <;> cases h.pos <;> simp [chk]
  | insertExt o ef k =>
    simp only [step, TOp.vcheck, TOp.pre, TSet.insertExt]
    cases ef <;> simp [chk]
  | add o h k =>
    simp only [step, TOp.vcheck, TOp.pre, TSet.add]
    cases (w.obj o).root <;> cases h.kp.checkAt w.cs (w.obj o).cell false <;> cases h.pos <;> simp [chk]
  | addExt o h ef k =>
    simp only [step, TOp.vcheck, TOp.pre, TSet.addExt]
    cases (w.obj o).root <;> cases h.kp.checkAt w.cs (w.obj o).cell false <;> cases h.pos <;> cases ef <;> simp [chk]
  | remove o h =>
    simp only [step, TOp.vcheck, TOp.pre, TSet.remove]
    cases h.kp.checkAt w.cs (w.obj o).cell false <;> cases hp : h.pos <;>
      cases hne : (h.pos != ((w.obj o).endIt w.cs).pos) <;> simp [chk, hp] at hne ⊢ <;> simp [hne]
  | removeExt o h ef =>
    simp only [step, TOp.vcheck, TOp.pre, TSet.removeExt, TSet.remove]
    cases ef <;> cases h.kp.checkAt w.cs (w.obj o).cell false <;> cases hp : h.pos <;>
      cases hne : (h.pos != ((w.obj o).endIt w.cs).pos) <;> simp [chk, hp] at hne ⊢ <;> simp [hne]
  | removeRange o b e =>
    simp only [step, TOp.vcheck, TOp.pre, TSet.removeRange]
    cases hr : (w.obj o).root
    · cases b.pos <;> cases e.pos <;> simp [chk]
    · cases b.kp.checkAt w.cs (w.obj o).cell false <;> cases e.kp.checkAt w.cs (w.obj o).cell false <;>
        cases b.pos <;> cases e.pos <;> simp [chk]
      rename_i i j
      by_cases h1 : i ≤ j <;> by_cases h2 : j ≤ (w.obj o).keys.length <;> simp [h1, h2]
  | resetKey o h k =>
    simp only [step, TOp.vcheck, TOp.pre, TSet.resetKey]
    cases h.kp.checkAt w.cs (w.obj o).cell false <;> cases hp : h.pos <;>
      cases hne : (h.pos != ((w.obj o).endIt w.cs).pos) <;> simp [chk, hp] at hne ⊢ <;> simp [hne]
  | _ => simp [step, TOp.vcheck, TOp.pre]


theorem step_eq_of_reject (w : TWorld) (op : TOp) (h : (op.vcheck w && op.pre w) = false) : w.step op = (w, none) := by
  have h1 : (w.step op).2 = none := by
    have := accepts_iff w op
    rw [h] at this
    cases hh : (w.step op).2 with
    | none => rfl
    | some _ => rw [hh] at this; simp at this
  exact Prod.ext (step_reject_unchanged w op h1) h1

/-- **stale iterator**: every entry point that takes an iterator rejects it once the crew's version moved
    (1 … 2^64-1 increments) since the iterator was made; the world is unchanged.  (`h.pos.isSome`: an iterator with a
    version keeper always has a node; the node-less `ConstIterator()` has no keeper and cannot be stale.) -/
theorem stale_rejected (w : TWorld) (op : TOp) (h : TIt) (hh : h ∈ op.handles) (hs : Stale h.kp w.cs)
    (hp : h.pos.isSome = true) : w.step op = (w, none) := by
  apply step_eq_of_reject
  have hn : h.pos.isNone = false := by
    cases hpp : h.pos with
    | none => rw [hpp] at hp; simp at hp
    | some _ => rfl
  cases op <;> simp only [TOp.handles, List.mem_cons, or_false, List.not_mem_nil] at hh
  case removeRange o b e =>
    rcases hh with rfl | rfl
    · simp only [TOp.vcheck, TOp.pre, hs.checkAt, Bool.false_and, Bool.or_false]
      cases (w.obj o).root <;> simp [hn]
    · simp only [TOp.vcheck, TOp.pre, hs.checkAt, Bool.and_false, Bool.or_false]
      cases (w.obj o).root <;> simp [hn]
  case add o h' k =>
    subst hh
    simp only [TOp.vcheck, TOp.pre, hs.checkAt, Bool.or_false]
    cases (w.obj o).root <;> simp [hn]
  all_goals (subst hh; simp only [TOp.vcheck, hs.check, hs.checkAt, Bool.false_and])

/-- **iterator of another container** -/
theorem foreign_rejected (w : TWorld) (op : TOp) (h : TIt) (o : Bool) (c' : Nat) (hh : h ∈ op.handles)
    (ht : op.target = some o) (hc : h.kp.cell = some c') (hne : c' ≠ (w.obj o).cell) (hp : h.pos.isSome = true) :
    w.step op = (w, none) := by
  apply step_eq_of_reject
  have hn : h.pos.isNone = false := by
    cases hpp : h.pos with
    | none => rw [hpp] at hp; simp at hp
    | some _ => rfl
  have hf : ∀ ae, h.kp.checkAt w.cs (w.obj o).cell ae = false := fun ae => foreign_checkAt hc hne ae
  cases op <;> simp only [TOp.handles, List.mem_cons, or_false, List.not_mem_nil] at hh <;>
    simp only [TOp.target, Option.some.injEq, reduceCtorEq] at ht
  case removeRange o' b e =>
    subst ht
    rcases hh with rfl | rfl
    · simp only [TOp.vcheck, TOp.pre, hf, Bool.false_and, Bool.or_false]
      cases (w.obj o').root <;> simp [hn]
    · simp only [TOp.vcheck, TOp.pre, hf, Bool.and_false, Bool.or_false]
      cases (w.obj o').root <;> simp [hn]
  case add o' h' k =>
    subst hh; subst ht
    simp only [TOp.vcheck, TOp.pre, hf, Bool.or_false]
    cases (w.obj o').root <;> simp [hn]
  all_goals (subst hh; subst ht; simp only [TOp.vcheck, hf, Bool.false_and])

/-- **end / empty iterator where an element is required**: dereferencing, advancing, removing, re-keying at the end
    iterator of a tree (`pos = count`) or at `ConstIterator()` (`pos = none`) is rejected -/
theorem end_rejected (w : TWorld) (o : Bool) (h : TIt) (he : h.pos = ((w.obj o).endIt w.cs).pos) (k : Nat) (ef : Bool) :
    w.step (.remove o h) = (w, none) ∧ w.step (.removeExt o h ef) = (w, none) ∧ w.step (.resetKey o h k) = (w, none) := by
  refine ⟨?_, ?_, ?_⟩ <;> apply step_eq_of_reject <;> simp only [TOp.vcheck, TOp.pre, he] <;> simp

theorem null_rejected (w : TWorld) (h : TIt) (hc : h.kp.cell = none) :
    w.step (.deref h) = (w, none) ∧ w.step (.inc h) = (w, none) ∧ w.step (.dec h) = (w, none) ∧
    (∀ o, w.step (.checkIt o h false) = (w, none)) ∧ (∀ o, w.step (.remove o h) = (w, none)) ∧
    (∀ o ef, w.step (.removeExt o h ef) = (w, none)) ∧ (∀ o k, w.step (.resetKey o h k) = (w, none)) ∧
    (∀ o ef k, w.step (.addExt o h ef k) = (w, none)) ∧
    (∀ o k, (w.obj o).root = true → w.step (.add o h k) = (w, none)) := by
  refine ⟨?_, ?_, ?_, ?_, ?_, ?_, ?_, ?_, ?_⟩
  all_goals (intros; apply step_eq_of_reject; simp only [TOp.vcheck, null_check w.cs hc, null_checkAt w.cs _ _ hc, Bool.false_and])
  rename_i o k hr
  simp [hr]

/-- **no false positive**: iterators whose keeper is a snapshot of the current version of the crew they are used with
    are rejected only by the argument checks of the table -/
theorem fresh_accepted (w : TWorld) (op : TOp)
    (hk : ∀ h ∈ op.handles, ∃ c, h.kp = snap w.cs c ∧ ∀ o, op.target = some o → c = (w.obj o).cell) :
    (w.step op).2.isSome = op.pre w := by
  rw [accepts_iff]
  have : op.vcheck w = true := by
    cases op with
    | deref h => obtain ⟨c, hk, _⟩ := hk h (by simp [TOp.handles]); simp only [TOp.vcheck, hk, snap_check]
    | inc h => obtain ⟨c, hk, _⟩ := hk h (by simp [TOp.handles]); simp only [TOp.vcheck, hk, snap_check]
    | dec h => obtain ⟨c, hk, _⟩ := hk h (by simp [TOp.handles]); simp only [TOp.vcheck, hk, snap_check]
    | checkIt o h ae => obtain ⟨c, hk, hc⟩ := hk h (by simp [TOp.handles]); simp only [TOp.vcheck, hk, hc o rfl, snap_checkAt]
    | add o h k => obtain ⟨c, hk, hc⟩ := hk h (by simp [TOp.handles]); simp only [TOp.vcheck, hk, hc o rfl, snap_checkAt, Bool.or_true]
    | addExt o h ef k => obtain ⟨c, hk, hc⟩ := hk h (by simp [TOp.handles]); simp only [TOp.vcheck, hk, hc o rfl, snap_checkAt]
    | remove o h => obtain ⟨c, hk, hc⟩ := hk h (by simp [TOp.handles]); simp only [TOp.vcheck, hk, hc o rfl, snap_checkAt]
    | removeExt o h ef => obtain ⟨c, hk, hc⟩ := hk h (by simp [TOp.handles]); simp only [TOp.vcheck, hk, hc o rfl, snap_checkAt]
    | resetKey o h k => obtain ⟨c, hk, hc⟩ := hk h (by simp [TOp.handles]); simp only [TOp.vcheck, hk, hc o rfl, snap_checkAt]
    | removeRange o b e =>
      obtain ⟨c, hk1, hc1⟩ := hk b (by simp [TOp.handles])
      obtain ⟨c', hk2, hc2⟩ := hk e (by simp [TOp.handles])
      simp only [TOp.vcheck, hk1, hk2, hc1 o rfl, hc2 o rfl, snap_checkAt, Bool.and_self, Bool.or_true]
    | _ => rfl
  rw [this]; rfl

end TWorld
end Momo.Ver

namespace Momo.Ver
namespace TWorld

theorem history_stale_rejected (w0 : TWorld) (hw : w0.WF) (ops : List TOp) (c : Nat) (op : TOp) (h : TIt)
    (hh : h ∈ op.handles) (hk : h.kp = snap w0.cs c) (hp : h.pos.isSome = true) (hc : SomeChange c w0 ops)
    (hlt : (w0.run ops).cs c < w0.cs c + W) : (w0.run ops).step op = (w0.run ops, none) :=
  stale_rejected _ op h hh (hk ▸ snap_stale (run_change c ops w0 hw hc) hlt) hp

theorem history_fresh_accepted (w0 : TWorld) (hw : w0.WF) (ops : List TOp) (c : Nat) (op : TOp)
    (hk : ∀ h ∈ op.handles, h.kp = snap w0.cs c) (hq : AllQuiet c w0 ops)
    (ht : ∀ o, op.target = some o → c = ((w0.run ops).obj o).cell) :
    ((w0.run ops).step op).2.isSome = op.pre (w0.run ops) :=
  fresh_accepted _ op (fun h hh => ⟨c, (hk h hh).trans (HWorld.snap_eq_of_cell_eq (run_quiet c ops w0 hw hq)), ht⟩)

end TWorld
end Momo.Ver

namespace Momo.Ver
namespace TWorld

theorem countOf_mk (w : TWorld) (hw : w.WF) (o : Bool) (i : Nat) :
    w.countOf ((w.obj o).mkIt w.cs i) = (w.obj o).keys.length := by
  simp only [countOf, TSet.mkIt, snap, byCell]
  cases o
  · simp [obj]
  · have : ¬ w.a.cell = w.b.cell := hw
    simp [obj, this]

/-- reading or advancing the end iterator (also of a tree whose root is a leaf) and `--begin` are rejected -/
theorem end_read_rejected (w : TWorld) (hw : w.WF) (o : Bool) :
    w.step (.deref ((w.obj o).endIt w.cs)) = (w, none) ∧ w.step (.inc ((w.obj o).endIt w.cs)) = (w, none) ∧
    w.step (.dec ((w.obj o).beginIt w.cs)) = (w, none) := by
  have hat : w.atElem ((w.obj o).endIt w.cs) = false := by
    unfold TSet.endIt
    cases hr : (w.obj o).root
    · simp [TIt.null, atElem]
    · simp only [↓reduceIte, atElem]
      rw [countOf_mk w hw o]
      simp [TSet.mkIt]
  refine ⟨?_, ?_, ?_⟩ <;> apply step_eq_of_reject <;> simp only [TOp.vcheck, TOp.pre, hat, Bool.and_false]
  cases hr : (w.obj o).root <;> simp [TSet.beginIt, hr, TIt.null, TIt.notFirst, TSet.mkIt]

end TWorld
end Momo.Ver
