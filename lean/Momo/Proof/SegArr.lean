import Momo.Proof.SegIdeal
/-!
  The segment list of `SegmentedArray` under every operation history, for any lawful `Settings`:
  growth appends segments and nothing else, shrinking drops only segments beyond the live items, hence the
  place (allocation id, offset) of a live element never changes. Core Lean only.
-/
namespace Momo.Seg
open Momo

namespace Sizing.Lawful
variable {S : Sizing} (h : S.Lawful)
include h

/-- `cap n = GetIndex(n, 0)` = number of slots in the first `n` segments -/
theorem cap_mono {m n : Nat} (hmn : m ≤ n) : S.getIndex m 0 ≤ S.getIndex n 0 := by
  induction n with
  | zero => have : m = 0 := by omega
            subst this; exact Nat.le_refl _
  | succ n ih =>
    by_cases hm : m = n + 1
    · subst hm; exact Nat.le_refl _
    · have := ih (by omega)
      rw [h.base_succ]; omega

theorem cap_strict {m n : Nat} (hmn : m < n) : S.getIndex m 0 < S.getIndex n 0 := by
  have h1 := h.cap_mono (show m + 1 ≤ n by omega)
  rw [h.base_succ] at h1
  have := h.count_pos m
  omega

/-- index `i` lies in one of the first `n` segments iff `i < cap n` -/
theorem seg_lt_iff (i n : Nat) : (S.getSeg i).1 < n ↔ i < S.getIndex n 0 := by
  have hr := h.roundtrip i
  rw [h.affine] at hr
  have hl := h.item_lt i
  constructor
  · intro hs
    have h1 := h.cap_mono (show (S.getSeg i).1 + 1 ≤ n by omega)
    rw [h.base_succ] at h1
    omega
  · intro hi
    apply Decidable.byContradiction
    intro hn
    have := h.cap_mono (show n ≤ (S.getSeg i).1 by omega)
    omega

theorem getSeg_cap (n : Nat) : S.getSeg (S.getIndex n 0) = (n, 0) := h.inverse n 0 (h.count_pos n)

/-- the index after `i` is the next offset of the same segment, or offset 0 of the next segment exactly
    when the segment is full -/
theorem succ_contiguous (i : Nat) :
    S.getSeg (i + 1) =
      if (S.getSeg i).2 + 1 < S.itemCount (S.getSeg i).1 then ((S.getSeg i).1, (S.getSeg i).2 + 1)
      else ((S.getSeg i).1 + 1, 0) := by
  have hr := h.roundtrip i
  have hl := h.item_lt i
  split
  · rename_i hlt
    have : i + 1 = S.getIndex (S.getSeg i).1 ((S.getSeg i).2 + 1) := by
      rw [h.affine] at hr ⊢; omega
    rw [this]; exact h.inverse _ _ hlt
  · rename_i hge
    have : i + 1 = S.getIndex ((S.getSeg i).1 + 1) 0 := by
      rw [h.base_succ]; rw [h.affine] at hr; omega
    rw [this]; exact h.getSeg_cap _

/-- the mapping is strictly monotone for the lexicographic order on (segment, offset) -/
theorem lex_mono {i j : Nat} (hij : i < j) :
    (S.getSeg i).1 < (S.getSeg j).1 ∨ ((S.getSeg i).1 = (S.getSeg j).1 ∧ (S.getSeg i).2 < (S.getSeg j).2) := by
  have hri := h.roundtrip i
  have hrj := h.roundtrip j
  rw [h.affine] at hri hrj
  have hli := h.item_lt i
  by_cases h1 : (S.getSeg i).1 < (S.getSeg j).1
  · exact Or.inl h1
  · right
    by_cases h2 : (S.getSeg i).1 = (S.getSeg j).1
    · rw [h2] at hri; exact ⟨h2, by omega⟩
    · exfalso
      have h3 := h.cap_mono (show (S.getSeg j).1 + 1 ≤ (S.getSeg i).1 by omega)
      rw [h.base_succ] at h3
      have := h.item_lt j
      omega

theorem injective {i j : Nat} (hij : S.getSeg i = S.getSeg j) : i = j := by
  have hri := h.roundtrip i
  rw [hij, h.roundtrip j] at hri
  exact hri.symm

/-- `segsFor c` is the least number of segments whose slots hold `c` items -/
theorem segsFor_le_iff (c n : Nat) : Arr.segsFor S c ≤ n ↔ c ≤ S.getIndex n 0 := by
  have hr := h.roundtrip c
  rw [h.affine] at hr
  have hl := h.item_lt c
  unfold Arr.segsFor
  split
  · rename_i ho
    constructor
    · intro hs
      have := h.cap_mono hs
      rw [h.base_succ] at this; omega
    · intro hc
      have : (S.getSeg c).1 < n := (h.seg_lt_iff c n).mpr (by
        apply Decidable.byContradiction; intro hn
        have : S.getIndex n 0 = c := by omega
        have e := h.getSeg_cap n
        rw [this] at e
        rw [e] at ho
        exact absurd ho (Nat.lt_irrefl 0))
      omega
  · rename_i ho
    have ho' : (S.getSeg c).2 = 0 := by omega
    constructor
    · intro hs
      have := h.cap_mono hs
      omega
    · intro hc
      apply Decidable.byContradiction; intro hn
      have := h.cap_strict (show n < (S.getSeg c).1 by omega)
      omega

theorem le_cap_segsFor (c : Nat) : c ≤ S.getIndex (Arr.segsFor S c) 0 :=
  (h.segsFor_le_iff c _).mp (Nat.le_refl _)

end Sizing.Lawful

/-! ### invariants of the container model -/

/-- every segment was requested with the size the settings prescribe for its position, ids are fresh -/
structure SegsOK (S : Sizing) (a : Arr) : Prop where
  size_eq : ∀ s seg, a.segs[s]? = some seg → seg.size = S.itemCount s
  id_lt : ∀ seg, seg ∈ a.segs → seg.id < a.next
  nodup : a.segs.Pairwise (fun x y => x.id ≠ y.id)

/-- reachable states: `SegsOK` and `mCount ≤ GetCapacity()` -/
structure WF (S : Sizing) (a : Arr) : Prop extends SegsOK S a where
  count_le : a.count ≤ a.capacity S

theorem wf_init (S : Sizing) : WF S {} where
  size_eq := by intro s seg hs; simp at hs
  id_lt := by intro seg hs; simp at hs
  nodup := List.Pairwise.nil
  count_le := by show 0 ≤ S.getIndex 0 0; omega

/-- `allocSegs` appends exactly `n` segments and touches nothing else -/
theorem allocSegs_spec (S : Sizing) (n : Nat) (a : Arr) (ok : SegsOK S a) :
    (∃ extra, (Arr.allocSegs S n a).segs = a.segs ++ extra ∧ extra.length = n) ∧
    (Arr.allocSegs S n a).count = a.count ∧ SegsOK S (Arr.allocSegs S n a) := by
  induction n generalizing a with
  | zero => exact ⟨⟨[], by simp [Arr.allocSegs], rfl⟩, rfl, ok⟩
  | succ n ih =>
    have ok' : SegsOK S { a with segs := a.segs ++ [⟨a.next, S.itemCount a.segs.length⟩], next := a.next + 1 } := by
      constructor
      · intro s seg hs
        by_cases hlt : s < a.segs.length
        · rw [List.getElem?_append_left hlt] at hs
          exact ok.size_eq s seg hs
        · have hs' := hs
          rw [List.getElem?_append_right (by omega)] at hs'
          by_cases he : s = a.segs.length
          · subst he
            simp at hs'
            rw [← hs']
          · have : s - a.segs.length ≠ 0 := by omega
            have : ([⟨a.next, S.itemCount a.segs.length⟩] : List Segment)[s - a.segs.length]? = none := by
              apply List.getElem?_eq_none; simp; omega
            rw [this] at hs'
            cases hs'
      · intro seg hm
        show seg.id < a.next + 1
        rcases List.mem_append.mp hm with hm | hm
        · have := ok.id_lt seg hm; omega
        · simp at hm; rw [hm]; show a.next < a.next + 1; omega
      · show (a.segs ++ [(⟨a.next, S.itemCount a.segs.length⟩ : Segment)]).Pairwise (fun x y => x.id ≠ y.id)
        rw [List.pairwise_append]
        refine ⟨ok.nodup, List.pairwise_singleton _ _, ?_⟩
        intro x hx y hy
        simp at hy
        have := ok.id_lt x hx
        rw [hy]
        show x.id ≠ a.next
        omega
    obtain ⟨⟨extra, he, hl⟩, hc, hok⟩ := ih _ ok'
    refine ⟨⟨[⟨a.next, S.itemCount a.segs.length⟩] ++ extra, ?_, by simp [hl]⟩, ?_, ?_⟩
    · show (Arr.allocSegs S n _).segs = _
      rw [he]; simp
    · show (Arr.allocSegs S n _).count = _
      rw [hc]
    · exact hok

theorem take_ok (S : Sizing) (a : Arr) (t : Nat) (ok : SegsOK S a) : SegsOK S { a with segs := a.segs.take t } where
  size_eq := by
    intro s seg hs
    have hs' : (a.segs.take t)[s]? = some seg := hs
    rw [List.getElem?_take] at hs'
    split at hs'
    · exact ok.size_eq s seg hs'
    · cases hs'
  id_lt := by
    intro seg hm
    exact ok.id_lt seg (List.mem_of_mem_take hm)
  nodup := List.Pairwise.sublist (List.take_sublist _ _) ok.nodup

/-- how one operation changes the segment list: it appends, or it drops segments that hold no item which
    is live before and after -/
inductive SegChange (S : Sizing) (a b : Arr) : Prop where
  | append (extra : List Segment) (hs : b.segs = a.segs ++ extra)
  | drop (t : Nat) (hs : b.segs = a.segs.take t)
      (keep : ∀ i, i < a.count → i < b.count → (S.getSeg i).1 < t)

theorem SegChange.same {S : Sizing} {a b : Arr} (hs : b.segs = a.segs) : SegChange S a b :=
  .append [] (by simp [hs])

section steps
variable {S : Sizing} (h : S.Lawful)
include h

theorem incCapacity_spec (a : Arr) (c : Nat) (ok : SegsOK S a) :
    (∃ extra, (a.incCapacity S c).segs = a.segs ++ extra) ∧ (a.incCapacity S c).count = a.count ∧
    SegsOK S (a.incCapacity S c) ∧ c ≤ (a.incCapacity S c).capacity S := by
  obtain ⟨⟨extra, he, hl⟩, hc, hok⟩ := allocSegs_spec S (Arr.segsFor S c - a.segs.length) a ok
  refine ⟨⟨extra, he⟩, hc, hok, ?_⟩
  show c ≤ S.getIndex (Arr.allocSegs S _ a).segs.length 0
  rw [he, List.length_append, hl]
  exact (h.segsFor_le_iff c _).mp (by omega)

theorem reserve_spec (a : Arr) (c : Nat) (w : WF S a) :
    (∃ extra, (a.reserve S c).segs = a.segs ++ extra) ∧ (a.reserve S c).count = a.count ∧
    WF S (a.reserve S c) ∧ c ≤ (a.reserve S c).capacity S := by
  unfold Arr.reserve
  split
  · obtain ⟨⟨extra, he⟩, hc, hok, hcap⟩ := incCapacity_spec h a c w.toSegsOK
    refine ⟨⟨extra, he⟩, hc, ⟨hok, ?_⟩, hcap⟩
    rw [hc]
    have := w.count_le
    rename_i hgt
    omega
  · rename_i hle
    exact ⟨⟨[], by simp⟩, rfl, w, by omega⟩

/-- the source's `MOMO_ASSERT(itemIndex == 0)` in `AddBackCrt`: when the target segment does not exist
    yet, it is the very next segment and the item is its first -/
theorem addBack_new_segment (a : Arr) (w : WF S a) (hn : ¬ (S.getSeg a.count).1 < a.segs.length) :
    S.getSeg a.count = (a.segs.length, 0) := by
  have h1 : ¬ a.count < S.getIndex a.segs.length 0 := fun hc => hn ((h.seg_lt_iff _ _).mpr hc)
  have h2 : a.count ≤ S.getIndex a.segs.length 0 := w.count_le
  have : a.count = S.getIndex a.segs.length 0 := by omega
  rw [this]; exact h.getSeg_cap _

/-- every operation preserves the invariant and changes the segment list only at its end -/
theorem step_spec (a : Arr) (op : Op) (w : WF S a) : WF S (step S a op) ∧ SegChange S a (step S a op) := by
  have hcap : a.count ≤ S.getIndex a.segs.length 0 := w.count_le
  cases op with
  | addBack =>
    show WF S (a.addBack S) ∧ SegChange S a (a.addBack S)
    unfold Arr.addBack
    split
    · rename_i hlt
      have := (h.seg_lt_iff _ _).mp hlt
      exact ⟨⟨⟨w.size_eq, w.id_lt, w.nodup⟩, by show a.count + 1 ≤ S.getIndex a.segs.length 0; omega⟩,
        .same rfl⟩
    · obtain ⟨⟨extra, he, hl⟩, hc, hok⟩ := allocSegs_spec S 1 a w.toSegsOK
      refine ⟨⟨⟨hok.size_eq, hok.id_lt, hok.nodup⟩, ?_⟩, .append extra he⟩
      show a.count + 1 ≤ S.getIndex (Arr.allocSegs S 1 a).segs.length 0
      rw [he, List.length_append, hl, h.base_succ]
      have := h.count_pos a.segs.length
      omega
  | reserve c =>
    obtain ⟨⟨extra, he⟩, _, hw, _⟩ := reserve_spec h a c w
    exact ⟨hw, .append extra he⟩
  | setCount n =>
    show WF S (a.setCount S n) ∧ SegChange S a (a.setCount S n)
    unfold Arr.setCount
    split
    · exact ⟨⟨⟨w.size_eq, w.id_lt, w.nodup⟩, by show n ≤ S.getIndex a.segs.length 0; omega⟩, .same rfl⟩
    · split
      · split
        · obtain ⟨⟨extra, he⟩, hc, hok, hcap'⟩ := incCapacity_spec h a n w.toSegsOK
          exact ⟨⟨⟨hok.size_eq, hok.id_lt, hok.nodup⟩, hcap'⟩, .append extra he⟩
        · rename_i hle
          exact ⟨⟨⟨w.size_eq, w.id_lt, w.nodup⟩, by
            show n ≤ S.getIndex a.segs.length 0
            have : ¬ n > S.getIndex a.segs.length 0 := hle
            omega⟩, .same rfl⟩
      · exact ⟨w, .same rfl⟩
  | shrink c => exact shrink_aux a c w
  | shrinkFit => exact shrink_aux a a.count w
  | clear b =>
    show WF S (a.clear S b) ∧ SegChange S a (a.clear S b)
    unfold Arr.clear
    split
    · have ok := take_ok S { a with count := 0 } (Arr.segsFor S 0) ⟨w.size_eq, w.id_lt, w.nodup⟩
      exact ⟨⟨ok, Nat.zero_le _⟩, .drop (Arr.segsFor S 0) rfl (by intro i _ hi; exact absurd hi (Nat.not_lt_zero _))⟩
    · exact ⟨⟨⟨w.size_eq, w.id_lt, w.nodup⟩, Nat.zero_le _⟩, .same rfl⟩
  | removeBack k =>
    show WF S (a.removeBack k) ∧ SegChange S a (a.removeBack k)
    unfold Arr.removeBack
    split
    · exact ⟨⟨⟨w.size_eq, w.id_lt, w.nodup⟩, by show a.count - k ≤ S.getIndex a.segs.length 0; omega⟩, .same rfl⟩
    · exact ⟨w, .same rfl⟩
  | insert =>
    obtain ⟨⟨extra, he⟩, hc, hw, hcap'⟩ := reserve_spec h a (a.count + 1) w
    exact ⟨⟨⟨hw.size_eq, hw.id_lt, hw.nodup⟩, hcap'⟩, .append extra he⟩
where
  shrink_aux (a : Arr) (c : Nat) (w : WF S a) : WF S (a.shrink S c) ∧ SegChange S a (a.shrink S c) := by
    have hcap : a.count ≤ S.getIndex a.segs.length 0 := w.count_le
    unfold Arr.shrink
    split
    · exact ⟨w, .same rfl⟩
    · generalize hc' : (if c < a.count then a.count else c) = c'
      have hge : a.count ≤ c' := by rw [← hc']; split <;> omega
      have ok := take_ok S a (Arr.segsFor S c') w.toSegsOK
      refine ⟨⟨ok, ?_⟩, .drop (Arr.segsFor S c') rfl ?_⟩
      · show a.count ≤ S.getIndex (a.segs.take (Arr.segsFor S c')).length 0
        rw [List.length_take]
        by_cases hm : Arr.segsFor S c' ≤ a.segs.length
        · rw [Nat.min_eq_left hm]
          have := h.le_cap_segsFor c'
          omega
        · rw [Nat.min_eq_right (by omega)]; exact hcap
      · intro i hi _
        have := h.le_cap_segsFor c'
        exact (h.seg_lt_iff i _).mpr (by omega)

/-- growth (append, reserve, resize upward, insert) appends segments, removes none, and keeps the count -/
theorem grow_spec (a : Arr) (op : Op) (w : WF S a) (hg : op.isGrow a = true) :
    (∃ extra, (step S a op).segs = a.segs ++ extra) ∧ a.count ≤ (step S a op).count := by
  cases op with
  | addBack =>
    show (∃ extra, (a.addBack S).segs = a.segs ++ extra) ∧ a.count ≤ (a.addBack S).count
    unfold Arr.addBack
    split
    · exact ⟨⟨[], by simp⟩, Nat.le_succ _⟩
    · obtain ⟨⟨extra, he, _⟩, _, _⟩ := allocSegs_spec S 1 a w.toSegsOK
      exact ⟨⟨extra, he⟩, Nat.le_succ _⟩
  | reserve c =>
    obtain ⟨he, hc, _, _⟩ := reserve_spec h a c w
    exact ⟨he, by show a.count ≤ (a.reserve S c).count; omega⟩
  | setCount n =>
    have hn : a.count ≤ n := by simpa [Op.isGrow] using hg
    show (∃ extra, (a.setCount S n).segs = a.segs ++ extra) ∧ a.count ≤ (a.setCount S n).count
    unfold Arr.setCount
    split
    · omega
    · split
      · split
        · obtain ⟨he, _, _, _⟩ := incCapacity_spec h a n w.toSegsOK
          exact ⟨he, hn⟩
        · exact ⟨⟨[], by simp⟩, hn⟩
      · exact ⟨⟨[], by simp⟩, Nat.le_refl _⟩
  | insert =>
    obtain ⟨he, _, _, _⟩ := reserve_spec h a (a.count + 1) w
    exact ⟨he, Nat.le_succ _⟩
  | shrink c => simp [Op.isGrow] at hg
  | shrinkFit => simp [Op.isGrow] at hg
  | clear b => simp [Op.isGrow] at hg
  | removeBack k => simp [Op.isGrow] at hg

/-- a live element is in an allocated segment, inside the block that was requested for it -/
theorem addr_in_segment (a : Arr) (w : WF S a) (i : Nat) (hi : i < a.count) :
    ∃ seg, a.segs[(S.getSeg i).1]? = some seg ∧ (S.getSeg i).2 < seg.size := by
  have hcap : a.count ≤ S.getIndex a.segs.length 0 := w.count_le
  have hs : (S.getSeg i).1 < a.segs.length := (h.seg_lt_iff i _).mpr (by omega)
  refine ⟨a.segs[(S.getSeg i).1], List.getElem?_eq_getElem hs, ?_⟩
  rw [w.size_eq _ _ (List.getElem?_eq_getElem hs)]
  exact h.item_lt i

theorem addr_of_change (a b : Arr) (w : WF S a) (ch : SegChange S a b) (i : Nat) (h1 : i < a.count)
    (h2 : i < b.count) : b.addr S i = a.addr S i := by
  have hcap : a.count ≤ S.getIndex a.segs.length 0 := w.count_le
  have hs : (S.getSeg i).1 < a.segs.length := (h.seg_lt_iff i _).mpr (by omega)
  unfold Arr.addr
  cases ch with
  | append extra he => rw [he, List.getElem?_append_left hs]
  | drop t he keep =>
    have := keep i h1 h2
    rw [he, List.getElem?_take]
    simp [this]

/-- one operation — growing or shrinking — leaves every element that is live before and after where it is -/
theorem addr_stable_step (a : Arr) (op : Op) (w : WF S a) (i : Nat) (h1 : i < a.count)
    (h2 : i < (step S a op).count) : (step S a op).addr S i = a.addr S i :=
  addr_of_change h a _ w (step_spec h a op w).2 i h1 h2

theorem run_wf (a : Arr) (ops : List Op) (w : WF S a) : WF S (run S a ops) := by
  induction ops generalizing a with
  | nil => exact w
  | cons op ops ih => exact ih _ (step_spec h a op w).1

/-- any history: an element that stays live throughout is never moved -/
theorem addr_stable_run (a : Arr) (ops : List Op) (w : WF S a) (i : Nat)
    (live : ∀ n, n ≤ ops.length → i < (run S a (ops.take n)).count) :
    (run S a ops).addr S i = a.addr S i := by
  induction ops generalizing a with
  | nil => rfl
  | cons op ops ih =>
    have h0 : i < a.count := by simpa [run] using live 0 (Nat.zero_le _)
    have h1 : i < (step S a op).count := by simpa [run] using live 1 (by simp)
    have := ih (step S a op) (step_spec h a op w).1 (by
      intro n hn
      have := live (n + 1) (by simp; omega)
      simpa [run] using this)
    show (run S (step S a op) ops).addr S i = _
    rw [this]
    exact addr_stable_step h a op w i h0 h1

/-- different live elements are in different places -/
theorem addr_injective (a : Arr) (w : WF S a) (i j : Nat) (hi : i < a.count) (hj : j < a.count)
    (he : a.addr S i = a.addr S j) : i = j := by
  obtain ⟨si, hsi, _⟩ := addr_in_segment h a w i hi
  obtain ⟨sj, hsj, _⟩ := addr_in_segment h a w j hj
  unfold Arr.addr at he
  rw [hsi, hsj] at he
  simp at he
  obtain ⟨hid, hoff⟩ := he
  have hseg : (S.getSeg i).1 = (S.getSeg j).1 := by
    apply Decidable.byContradiction
    intro hne
    have hli : (S.getSeg i).1 < a.segs.length := by
      apply Decidable.byContradiction; intro hn
      rw [List.getElem?_eq_none (by omega)] at hsi; cases hsi
    have hlj : (S.getSeg j).1 < a.segs.length := by
      apply Decidable.byContradiction; intro hn
      rw [List.getElem?_eq_none (by omega)] at hsj; cases hsj
    have ei : a.segs[(S.getSeg i).1] = si := by
      have := List.getElem?_eq_getElem hli; rw [this] at hsi; exact Option.some.inj hsi
    have ej : a.segs[(S.getSeg j).1] = sj := by
      have := List.getElem?_eq_getElem hlj; rw [this] at hsj; exact Option.some.inj hsj
    have hp := List.pairwise_iff_getElem.mp w.nodup
    rcases Nat.lt_or_gt_of_ne hne with hlt | hgt
    · have := hp _ _ hli hlj hlt
      rw [ei, ej] at this; exact this hid
    · have := hp _ _ hlj hli hgt
      rw [ei, ej] at this; exact this hid.symm
  exact h.injective (Prod.ext hseg hoff)

/-- `GetCapacity()` is the total number of slots of the allocated segments -/
theorem capacity_eq_slots (a : Arr) (ok : SegsOK S a) : a.capacity S = (a.segs.map Segment.size).sum := by
  have key : ∀ (l : List Segment) (k : Nat), (∀ s seg, l[s]? = some seg → seg.size = S.itemCount (k + s)) →
      S.getIndex (k + l.length) 0 = S.getIndex k 0 + (l.map Segment.size).sum := by
    intro l
    induction l with
    | nil => intro k _; simp
    | cons x xs ih =>
      intro k hx
      have h0 := hx 0 x (by simp)
      have := ih (k + 1) (by
        intro s seg hs
        have := hx (s + 1) seg (by simpa using hs)
        rw [this]; congr 1; omega)
      simp only [List.length_cons, List.map_cons, List.sum_cons]
      have e : k + (xs.length + 1) = k + 1 + xs.length := by omega
      rw [e, this, h.base_succ, h0]
      simp; omega
  have := key a.segs 0 (by intro s seg hs; rw [Nat.zero_add]; exact ok.size_eq s seg hs)
  unfold Arr.capacity
  rw [Nat.zero_add] at this
  rw [this, h.base_zero]; omega

end steps

end Momo.Seg
