import Momo.Proof.PoolBulk
/-!
  State machine of `MemPool` (C09): `pvDeleteBlocks` (682-706) and `DeallocateIf` (360-384).
-/
namespace Momo.Pool

/-- net effect of one visit of `pvDeleteBlocks` to buffer `a` on the two lists -/
def Net (p p' : Pool) (a : Int) : Prop :=
  (p'.pre = p.pre ∧ p'.post = p.post) ∨
  (a ∈ p.pre ∧ p'.pre = p.pre.erase a ∧ p'.post = a :: p.post) ∨
  (a ∈ p.post ∧ p'.pre = p.pre ∧ p'.post = p.post.erase a) ∨
  (a ∈ p.pre ∧ p'.pre = p.pre.erase a ∧ p'.post = p.post)

theorem Net.step {P : Params} {p0 p1 p2 : Pool} {b : Buffer} {idx : Int} (h0 : (p0.pre ++ p0.post).Nodup)
    (hn : Net p0 p1 b.buf) (h1 : CoreWF P p1) (hb : b ∈ p1.store) (hs : FreeShape P p1 p2 b idx) :
    Net p0 p2 b.buf := by
  have hmem : b.buf ∈ p1.pre ++ p1.post := h1.lists.symm.subset (List.mem_map_of_mem hb)
  have hnd0 := List.nodup_append.mp h0
  rcases hn with ⟨e1, e2⟩ | ⟨ha, e1, e2⟩ | ⟨ha, e1, e2⟩ | ⟨ha, e1, e2⟩
  · rcases hs.lists with ⟨f1, f2⟩ | ⟨fa, f1, f2⟩ | ⟨fa, f1, f2⟩
    · exact Or.inl ⟨f1.trans e1, f2.trans e2⟩
    · exact Or.inr (Or.inl ⟨e1 ▸ fa, by rw [f1, e1], by rw [f2, e2]⟩)
    · exact Or.inr (Or.inr (Or.inl ⟨e2 ▸ fa, f1.trans e1, by rw [f2, e2]⟩))
  · rcases hs.lists with ⟨f1, f2⟩ | ⟨fa, f1, f2⟩ | ⟨_, f1, f2⟩
    · exact Or.inr (Or.inl ⟨ha, f1.trans e1, f2.trans e2⟩)
    · rw [e1] at fa
      exact absurd fa (fun hm => ((List.Nodup.mem_erase_iff hnd0.1).mp hm).1 rfl)
    · refine Or.inr (Or.inr (Or.inr ⟨ha, f1.trans e1, ?_⟩))
      rw [f2, e2]; simp
  · -- the buffer is no longer in the lists
    exfalso
    rw [e1, e2] at hmem
    rcases List.mem_append.mp hmem with hm | hm
    · exact hnd0.2.2 _ hm _ ha rfl
    · exact ((List.Nodup.mem_erase_iff hnd0.2.1).mp hm).1 rfl
  · exfalso
    rw [e1, e2] at hmem
    rcases List.mem_append.mp hmem with hm | hm
    · exact ((List.Nodup.mem_erase_iff hnd0.1).mp hm).1 rfl
    · exact hnd0.2.2 _ ha _ hm rfl

/-- blocks the second loop of `pvDeleteBlocks` asks the filter about: those that were not free at the start -/
def askedBlocks (P : Params) (a first : Int) (wasFree : List Int) (js : List Nat) : List Int :=
  (js.filter (fun (j : Nat) => decide (first + (j : Int) ∉ wasFree))).map (fun (j : Nat) => getBlock P a (first + (j : Int)))

/-- what is known about buffer `a` while the second loop of `pvDeleteBlocks` runs over the offsets `js` -/
def LoopState (_P : Params) (a first : Int) (wasFree : List Int) (js : List Nat) (p : Pool) : Prop :=
  (∃ b ∈ p.store, b.buf = a ∧ b.first = first ∧
      ∀ j ∈ js, (b.link (first + (j : Int)) = none ↔ first + (j : Int) ∉ wasFree)) ∨
  (a ∉ bufs p.store ∧ ∀ j ∈ js, first + (j : Int) ∈ wasFree)

theorem deleteBlocksLoop_ok {P : Params} {k : Int} (hM : Multi P k) (hN2 : 2 ≤ P.N) (hA2 : P.A ≤ 1024)
    (a first : Int) (wasFree : List Int) (f : Int → Bool) (p0 : Pool) (hnd0 : (p0.pre ++ p0.post).Nodup) :
    ∀ (js : List Nat) (p : Pool), CoreWF P p → Net p0 p a → js.Nodup → (∀ j ∈ js, (j : Int) < P.N) →
      LoopState P a first wasFree js p →
      ∃ tr p' evs, deleteBlocksLoop P a a first wasFree f js p = .ok tr p' evs ∧
        CoreWF P p' ∧ Net p0 p' a ∧ tr = askedBlocks P a first wasFree js ∧
        (p.taken P).Perm (tr.filter f ++ p'.taken P) ∧
        p'.allocCount = p.allocCount - (tr.filter f).length ∧ p'.cache = p.cache ∧ p'.singles = p.singles ∧
        (∀ c : Buffer, c.buf ≠ a → (c ∈ p'.store ↔ c ∈ p.store)) ∧
        LedgerOK P p.store evs p'.store ∧ (p.post ≠ [] → p'.post ≠ []) := by
  intro js
  induction js with
  | nil =>
    intro p h hn _ _ _
    exact ⟨[], p, [], rfl, h, hn, rfl, by simp, by simp, rfl, rfl, fun _ _ => Iff.rfl, LedgerOK.nil rfl, id⟩
  | cons j js ih =>
    intro p h hn hjs hlt hst
    have hjs' := (List.nodup_cons.mp hjs).2
    have hjn : j ∉ js := (List.nodup_cons.mp hjs).1
    have hlt' : ∀ x ∈ js, (x : Int) < P.N := fun x hx => hlt x (by simp [hx])
    by_cases hw : first + (j : Int) ∈ wasFree
    · -- a block that was free at the start: skipped
      have hst' : LoopState P a first wasFree js p := by
        rcases hst with ⟨b, hb, h1, h2, h3⟩ | ⟨h1, h2⟩
        · exact Or.inl ⟨b, hb, h1, h2, fun x hx => h3 x (by simp [hx])⟩
        · exact Or.inr ⟨h1, fun x hx => h2 x (by simp [hx])⟩
      obtain ⟨tr, p', evs, he, hr⟩ := ih p h hn hjs' hlt' hst'
      refine ⟨tr, p', evs, ?_, ?_⟩
      · simp only [deleteBlocksLoop, hw, if_true]; exact he
      · have : askedBlocks P a first wasFree (j :: js) = askedBlocks P a first wasFree js := by
          simp [askedBlocks, List.filter_cons, hw]
        rw [this]; exact hr
    · -- a live block: the buffer must still be there
      obtain ⟨b, hb, hba, hbf, hlinks⟩ : ∃ b ∈ p.store, b.buf = a ∧ b.first = first ∧
          ∀ x ∈ j :: js, (b.link (first + (x : Int)) = none ↔ first + (x : Int) ∉ wasFree) := by
        rcases hst with hpres | ⟨_, h2⟩
        · exact hpres
        · exact absurd (h2 j (by simp)) hw
      have hlj : b.link (first + (j : Int)) = none := (hlinks j (by simp)).mpr hw
      have hrange : b.first ≤ first + (j : Int) ∧ first + (j : Int) < b.first + P.N := by
        have := hlt j (by simp); rw [hbf]; omega
      have hask : askedBlocks P a first wasFree (j :: js) =
          getBlock P a (first + (j : Int)) :: askedBlocks P a first wasFree js := by
        simp [askedBlocks, List.filter_cons, hw]
      by_cases hf : f (getBlock P a (first + (j : Int))) = true
      · -- selected: pvDeleteBlock, --allocCount
        obtain ⟨p1, e1, hd1, hs1, hsh1⟩ := deleteBlockAt_ok hM hN2 hA2 h hb (first + (j : Int)) hrange hlj
        rw [hba] at hd1 hs1
        obtain ⟨hwfb', _, _⟩ := (h.bufwf b hb).put_ok hM (first + (j : Int)) hrange hlj
        have hst1 : LoopState P a first wasFree js { p1 with allocCount := p1.allocCount - 1 } := by
          rcases hsh1.after with hg | ⟨hgone, hfull⟩
          · left
            rw [hba] at hg
            obtain ⟨hm, _⟩ := getBuf_some hg
            refine ⟨b.put (first + (j : Int)), hm, hba, hbf, ?_⟩
            intro x hx
            have hne : first + (x : Int) ≠ first + (j : Int) := by
              intro e; have : x = j := by omega
              exact hjn (this ▸ hx)
            simp only [Buffer.put, hne, if_false]
            exact hlinks x (by simp [hx])
          · right
            rw [hba] at hgone
            refine ⟨hgone, ?_⟩
            intro x hx
            apply Decidable.byContradiction
            intro hnw
            have hlx : b.link (first + (x : Int)) = none := (hlinks x (by simp [hx])).mpr hnw
            have hne : first + (x : Int) ≠ first + (j : Int) := by
              intro e; have : x = j := by omega
              exact hjn (this ▸ hx)
            have hlx' : (b.put (first + (j : Int))).link (first + (x : Int)) = none := by
              simp only [Buffer.put, hne, if_false]; exact hlx
            have hempty := hwfb'.full_chain (by omega) hfull
            have hmem : getBlock P (b.put (first + (j : Int))).buf (first + (x : Int)) ∈ (b.put (first + (j : Int))).taken P := by
              apply (mem_taken (by omega) _).mpr
              refine ⟨first + (x : Int), ?_, hlx', rfl⟩
              have := hlt x (by simp [hx])
              show b.first ≤ _ ∧ _ < b.first + P.N
              rw [hbf]; omega
            rw [hempty] at hmem; simp at hmem
        have hn1 : Net p0 { p1 with allocCount := p1.allocCount - 1 } a := by
          have := Net.step hnd0 (hba ▸ hn) h hb hsh1
          rw [hba] at this; exact this
        obtain ⟨tr, p', evs, he, hwf', hn', htr, hperm, hcnt, hc, hsg, hoth, hl, hne⟩ :=
          ih { p1 with allocCount := p1.allocCount - 1 } (hs1.wf.congr rfl rfl rfl) hn1 hjs' hlt' hst1
        refine ⟨getBlock P a (first + (j : Int)) :: tr, p', e1 ++ evs, ?_, hwf', hn', ?_, ?_, ?_, hc.trans hs1.same.1,
          hsg.trans hs1.same.2.2, ?_, hs1.ledgerOK.trans hl, fun _ => hne hsh1.postNE⟩
        · simp only [deleteBlocksLoop, hw, if_false, hf, if_true, hd1, Outcome.bind, he, Outcome.map]
        · rw [hask, htr]
        · simp only [List.filter_cons, hf, if_true, List.cons_append]
          exact hs1.perm.trans (List.Perm.cons _ hperm)
        · simp only [List.filter_cons, hf, if_true, List.length_cons]
          rw [hcnt]
          show p1.allocCount - 1 - _ = _
          rw [hs1.same.2.1]; omega
        · intro c hc'
          rw [hoth c hc']
          have := hsh1.others c (by rw [hba]; exact hc')
          exact this
      · -- not selected
        have hst' : LoopState P a first wasFree js p :=
          Or.inl ⟨b, hb, hba, hbf, fun x hx => hlinks x (by simp [hx])⟩
        obtain ⟨tr, p', evs, he, hwf', hn', htr, hperm, hcnt, hc, hsg, hoth, hl, hne⟩ := ih p h hn hjs' hlt' hst'
        have hf' : f (getBlock P a (first + (j : Int))) = false := by simpa using hf
        refine ⟨getBlock P a (first + (j : Int)) :: tr, p', evs, ?_, hwf', hn', ?_, ?_, ?_, hc, hsg, hoth, hl, hne⟩
        · simp only [deleteBlocksLoop, hw, if_false, hf', he, Outcome.map]
          simp
        · rw [hask, htr]
        · simp only [List.filter_cons, hf']; simpa using hperm
        · simp only [List.filter_cons, hf']; simpa using hcnt

theorem askedBlocks_eq_taken {P : Params} {b : Buffer} (ch : List Int)
    (hnone : ∀ i, b.first ≤ i → i < b.first + P.N → (b.link i = none ↔ i ∉ ch)) :
    askedBlocks P b.buf b.first ch (List.range P.N.toNat) = b.taken P := by
  unfold askedBlocks Buffer.taken Buffer.indexes
  rw [List.filter_map, List.map_map]
  have hfilt : List.filter ((fun i => (b.link i).isNone) ∘ fun (j : Nat) => b.first + (j : Int)) (List.range P.N.toNat) =
      List.filter (fun (j : Nat) => decide (b.first + (j : Int) ∉ ch)) (List.range P.N.toNat) := by
    apply List.filter_congr
    intro j hj
    have hj' := List.mem_range.mp hj
    have h1 := hnone (b.first + (j : Int)) (by omega) (by omega)
    simp only [Function.comp]
    by_cases hm : b.first + (j : Int) ∈ ch
    · have : b.link (b.first + (j : Int)) ≠ none := fun e => (h1.mp e) hm
      cases hl : b.link (b.first + (j : Int)) with
      | none => exact absurd hl this
      | some v => simp [hm]
    · simp [hm, h1.mpr hm]
  rw [hfilt]; rfl

/-- **`pvDeleteBlocks` (682-706)** on a buffer of the pool: the filter is asked about exactly the handed-out
    blocks of this buffer, in index order; exactly the selected ones are freed. -/
theorem deleteBlocks_ok {P : Params} {k : Int} (hM : Multi P k) (hN2 : 2 ≤ P.N) (hA2 : P.A ≤ 1024) {p : Pool}
    (h : CoreWF P p) {b : Buffer} (hb : b ∈ p.store) (f : Int → Bool) :
    ∃ tr p' evs, deleteBlocks P p b.buf f = .ok tr p' evs ∧
      CoreWF P p' ∧ Net p p' b.buf ∧ tr = b.taken P ∧
      (p.taken P).Perm (tr.filter f ++ p'.taken P) ∧
      p'.allocCount = p.allocCount - (tr.filter f).length ∧ p'.cache = p.cache ∧ p'.singles = p.singles ∧
      (∀ c : Buffer, c.buf ≠ b.buf → (c ∈ p'.store ↔ c ∈ p.store)) ∧
      LedgerOK P p.store evs p'.store ∧ (p.post ≠ [] → p'.post ≠ []) := by
  have hN : 0 ≤ P.N := by omega
  obtain ⟨ch, hch, hlen, hnd, hrange, hnone⟩ := (h.bufwf b hb).chain
  have hfc : freeChain b b.freeCount.toNat b.firstFree = some ch := by
    have : b.freeCount.toNat = ch.length := by omega
    rw [this]; exact freeChain_of_Chain b ch _ hch
  have hst : LoopState P b.buf b.first ch (List.range P.N.toNat) p := by
    left
    refine ⟨b, hb, rfl, rfl, ?_⟩
    intro j hj
    have hj' := List.mem_range.mp hj
    exact hnone _ (by omega) (by omega)
  obtain ⟨tr, p', evs, he, hwf', hn', htr, hrest⟩ :=
    deleteBlocksLoop_ok hM hN2 hA2 b.buf b.first ch f p h.lists_nodup (List.range P.N.toNat) p h
      (Or.inl ⟨rfl, rfl⟩) List.nodup_range (fun j hj => by have := List.mem_range.mp hj; omega) hst
  refine ⟨tr, p', evs, ?_, hwf', hn', ?_, hrest⟩
  · unfold deleteBlocks
    rw [h.getBuf_of_mem hb]; simp only [hfc]; exact he
  · rw [htr]; exact askedBlocks_eq_taken ch hnone

theorem succIn_split (A T : List Int) (x : Int) (hx : x ∉ A) : succIn (A ++ x :: T) x = T.head? := by
  induction A with
  | nil =>
    cases T with
    | nil => simp [succIn]
    | cons t T' => simp [succIn]
  | cons a A' ih =>
    have ha : a ≠ x := fun e => hx (by simp [e])
    have hx' : x ∉ A' := fun hm => hx (by simp [hm])
    cases hA : A' ++ x :: T with
    | nil => simp at hA
    | cons c C =>
      simp only [List.cons_append, hA, succIn, ha, if_false]
      rw [← hA]; exact ih hx'

/-- blocks handed out by the buffers with the given pointers, in the given order -/
def visitTaken (P : Params) (st : List Buffer) (xs : List Int) : List Int :=
  xs.flatMap (fun x => match getBuf st x with | some b => b.taken P | none => [])

theorem getBuf_eq_none {st : List Buffer} {x : Int} : getBuf st x = none ↔ ∀ c ∈ st, c.buf ≠ x := by
  unfold getBuf
  rw [List.find?_eq_none]
  constructor
  · intro h c hc; simpa using h c hc
  · intro h c hc; simpa using h c hc

/-- buffers that are the same in two stores are found the same -/
theorem getBuf_congr {st st' : List Buffer} (hnd' : (bufs st').Nodup) (x : Int)
    (h : ∀ c : Buffer, c.buf = x → (c ∈ st' ↔ c ∈ st)) : getBuf st' x = getBuf st x := by
  cases hg : getBuf st x with
  | none =>
    rw [getBuf_eq_none] at hg ⊢
    intro c hc e
    exact hg c ((h c e).mp hc) e
  | some c =>
    obtain ⟨hc, hce⟩ := getBuf_some hg
    have hc' : c ∈ st' := (h c hce).mpr hc
    obtain ⟨s1, s2, hs, h1, _⟩ := store_split hc' hnd'
    rw [hs, ← hce]; exact getBuf_split h1

theorem visitTaken_congr {P : Params} {st st' : List Buffer} (hnd' : (bufs st').Nodup)
    (xs : List Int) (h : ∀ c : Buffer, c.buf ∈ xs → (c ∈ st' ↔ c ∈ st)) :
    visitTaken P st' xs = visitTaken P st xs := by
  unfold visitTaken
  apply List.flatMap_congr
  intro x hx
  rw [getBuf_congr hnd' x (fun c e => h c (e ▸ hx))]

/-- result of visiting the buffers `xs` of pool `p` with `pvDeleteBlocks` -/
structure VisitSpec (P : Params) (f : Int → Bool) (p p' : Pool) (xs : List Int) (tr : List Int) (evs : List Ev) : Prop where
  wf : CoreWF P p'
  postNE : p'.post ≠ []
  trace : tr = visitTaken P p.store xs
  perm : (p.taken P).Perm (tr.filter f ++ p'.taken P)
  count : p'.allocCount = p.allocCount - (tr.filter f).length
  same : p'.cache = p.cache ∧ p'.singles = p.singles
  others : ∀ c : Buffer, c.buf ∉ xs → (c ∈ p'.store ↔ c ∈ p.store)
  ledger : LedgerOK P p.store evs p'.store

theorem visitTaken_cons (P : Params) (st : List Buffer) (b : Buffer) (hg : getBuf st b.buf = some b) (xs : List Int) :
    visitTaken P st (b.buf :: xs) = b.taken P ++ visitTaken P st xs := by
  simp [visitTaken, hg]

/-- forward loop of `DeallocateIf` (368-376): it visits the head and every buffer behind it, once each -/
theorem difForward_ok {P : Params} {k : Int} (hM : Multi P k) (hN2 : 2 ≤ P.N) (hA2 : P.A ≤ 1024) (f : Int → Bool) :
    ∀ (todo : List Int) (cur : Int) (L : List Int) (p : Pool) (fuel : Nat), CoreWF P p →
      p.post = L ++ cur :: todo → todo.length < fuel →
      ∃ tr p' evs, difForward P f fuel cur p = .ok tr p' evs ∧ VisitSpec P f p p' (cur :: todo) tr evs ∧
        p'.pre = p.pre := by
  intro todo
  induction todo with
  | nil =>
    intro cur L p fuel h hpost hfuel
    obtain ⟨fu, rfl⟩ : ∃ fu, fuel = fu + 1 := ⟨fuel - 1, by omega⟩
    have hlnd := h.lists_nodup
    have hcurpost : cur ∈ p.post := by rw [hpost]; simp
    obtain ⟨b, hget, hb, hbe⟩ := h.getBuf_of_mem_lists (a := cur) (List.mem_append_right _ hcurpost)
    subst hbe
    have hnpre : b.buf ∉ p.pre := fun hm => (List.nodup_append.mp hlnd).2.2 _ hm _ hcurpost rfl
    obtain ⟨tr, p1, e1, hd, hwf1, hn1, htr, hperm, hcnt, hc, hsg, hoth, hl, hne⟩ := deleteBlocks_ok hM hN2 hA2 h hb f
    have hnext : p.nextOf b.buf = none := by
      unfold Pool.nextOf Pool.order
      rw [hpost, ← List.append_assoc, succIn_split _ _ _ (by
        intro hm
        rcases List.mem_append.mp hm with hm | hm
        · exact hnpre (List.mem_reverse.mp hm)
        · have := (List.nodup_append.mp hlnd).2.1; rw [hpost] at this
          exact (List.nodup_append.mp this).2.2 _ hm _ (by simp) rfl)]
      rfl
    have hpre1 : p1.pre = p.pre := by
      rcases hn1 with ⟨e, _⟩ | ⟨ha, _, _⟩ | ⟨_, e, _⟩ | ⟨ha, _, _⟩
      · exact e
      · exact absurd ha hnpre
      · exact e
      · exact absurd ha hnpre
    refine ⟨tr, p1, e1 ++ [], ?_, ⟨hwf1, hne (by rw [hpost]; simp), ?_, hperm, hcnt, ⟨hc, hsg⟩, ?_, by simpa using hl⟩, hpre1⟩
    · simp only [difForward, hd, Outcome.bind, hnext]
    · rw [htr, visitTaken_cons P p.store b hget]; simp [visitTaken]
    · intro c hc'; exact hoth c (by simpa using hc')
  | cons n todo' ih =>
    intro cur L p fuel h hpost hfuel
    obtain ⟨fu, rfl⟩ : ∃ fu, fuel = fu + 1 := ⟨fuel - 1, by omega⟩
    have hlnd := h.lists_nodup
    have hcurpost : cur ∈ p.post := by rw [hpost]; simp
    obtain ⟨b, hget, hb, hbe⟩ := h.getBuf_of_mem_lists (a := cur) (List.mem_append_right _ hcurpost)
    subst hbe
    have hnpre : b.buf ∉ p.pre := fun hm => (List.nodup_append.mp hlnd).2.2 _ hm _ hcurpost rfl
    have hndpost : (L ++ b.buf :: n :: todo').Nodup := by rw [← hpost]; exact (List.nodup_append.mp hlnd).2.1
    have hnL : b.buf ∉ L := fun hm => (List.nodup_append.mp hndpost).2.2 _ hm _ (by simp) rfl
    have hnT : b.buf ∉ n :: todo' := (List.nodup_cons.mp (List.nodup_append.mp hndpost).2.1).1
    obtain ⟨tr, p1, e1, hd, hwf1, hn1, htr, hperm, hcnt, hc, hsg, hoth, hl, hne⟩ := deleteBlocks_ok hM hN2 hA2 h hb f
    have hnext : p.nextOf b.buf = some n := by
      unfold Pool.nextOf Pool.order
      rw [hpost, ← List.append_assoc, succIn_split _ _ _ (by
        intro hm
        rcases List.mem_append.mp hm with hm | hm
        · exact hnpre (List.mem_reverse.mp hm)
        · exact hnL hm)]
      rfl
    have hshape : p1.pre = p.pre ∧ ∃ L', p1.post = L' ++ n :: todo' := by
      rcases hn1 with ⟨e1', e2'⟩ | ⟨ha, _, _⟩ | ⟨_, e1', e2'⟩ | ⟨ha, _, _⟩
      · exact ⟨e1', L ++ [b.buf], by rw [e2', hpost]; simp⟩
      · exact absurd ha hnpre
      · refine ⟨e1', L, ?_⟩
        rw [e2', hpost, List.erase_append_right _ hnL]; simp
      · exact absurd ha hnpre
    obtain ⟨hpre1, L', hpost1⟩ := hshape
    obtain ⟨tr2, p2, e2, hd2, hv2, hpre2⟩ := ih n L' p1 fu hwf1 hpost1 (by simp at hfuel; omega)
    have hvt : visitTaken P p1.store (n :: todo') = visitTaken P p.store (n :: todo') :=
      visitTaken_congr hwf1.nodup _ (fun c hc' => hoth c (fun e => hnT (e ▸ hc')))
    refine ⟨tr ++ tr2, p2, e1 ++ e2, ?_, ⟨hv2.wf, hv2.postNE, ?_, ?_, ?_, ⟨hv2.same.1.trans hc, hv2.same.2.trans hsg⟩, ?_, hl.trans hv2.ledger⟩,
      hpre2.trans hpre1⟩
    · simp only [difForward, hd, Outcome.bind, hnext, hd2, Outcome.map]
    · rw [htr, hv2.trace, hvt, visitTaken_cons P p.store b hget]
    · rw [List.filter_append, List.append_assoc]
      exact hperm.trans (List.Perm.append_left _ hv2.perm)
    · rw [hv2.count, hcnt, List.filter_append, List.length_append]; omega
    · intro c hc'
      have h1 : c.buf ≠ b.buf := fun e => hc' (by simp [e])
      have h2 : c.buf ∉ n :: todo' := fun hm => hc' (by simp [List.mem_cons.mp hm])
      exact (hv2.others c h2).trans (hoth c h1)

/-- backward loop of `DeallocateIf` (377-383): it visits every buffer before the head, nearest first -/
theorem difBackward_ok {P : Params} {k : Int} (hM : Multi P k) (hN2 : 2 ≤ P.N) (hA2 : P.A ≤ 1024) (f : Int → Bool) :
    ∀ (todo : List Int) (cur : Int) (K : List Int) (p : Pool) (fuel : Nat), CoreWF P p →
      p.pre = K ++ cur :: todo → p.post ≠ [] → todo.length < fuel →
      ∃ tr p' evs, difBackward P f fuel (some cur) p = .ok tr p' evs ∧ VisitSpec P f p p' (cur :: todo) tr evs := by
  intro todo
  induction todo with
  | nil =>
    intro cur K p fuel h hpre hpne hfuel
    obtain ⟨fu, rfl⟩ : ∃ fu, fuel = fu + 1 := ⟨fuel - 1, by omega⟩
    have hlnd := h.lists_nodup
    have hcurpre : cur ∈ p.pre := by rw [hpre]; simp
    obtain ⟨b, hget, hb, hbe⟩ := h.getBuf_of_mem_lists (a := cur) (List.mem_append_left _ hcurpre)
    subst hbe
    have hnpost : b.buf ∉ p.post := fun hm => (List.nodup_append.mp hlnd).2.2 _ hcurpre _ hm rfl
    have hndpre : (K ++ [b.buf]).Nodup := by rw [← hpre]; exact (List.nodup_append.mp hlnd).1
    have hnK : b.buf ∉ K := fun hm => (List.nodup_append.mp hndpre).2.2 _ hm _ (by simp) rfl
    obtain ⟨tr, p1, e1, hd, hwf1, hn1, htr, hperm, hcnt, hc, hsg, hoth, hl, hne⟩ := deleteBlocks_ok hM hN2 hA2 h hb f
    have hprev : p.prevOf b.buf = none := by
      unfold Pool.prevOf Pool.order
      rw [List.reverse_append, List.reverse_reverse, hpre, ← List.append_assoc, succIn_split _ _ _ (by
        intro hm
        rcases List.mem_append.mp hm with hm | hm
        · exact hnpost (List.mem_reverse.mp hm)
        · exact hnK hm)]
      rfl
    refine ⟨tr ++ [], p1, e1 ++ [], ?_, ⟨hwf1, hne hpne, ?_, by simpa using hperm, by simpa using hcnt, ⟨hc, hsg⟩, ?_, by simpa using hl⟩⟩
    · simp only [difBackward, hd, Outcome.bind, hprev, Outcome.map]
    · rw [htr, visitTaken_cons P p.store b hget]; simp [visitTaken]
    · intro c hc'; exact hoth c (by simpa using hc')
  | cons n todo' ih =>
    intro cur K p fuel h hpre hpne hfuel
    obtain ⟨fu, rfl⟩ : ∃ fu, fuel = fu + 1 := ⟨fuel - 1, by omega⟩
    have hlnd := h.lists_nodup
    have hcurpre : cur ∈ p.pre := by rw [hpre]; simp
    obtain ⟨b, hget, hb, hbe⟩ := h.getBuf_of_mem_lists (a := cur) (List.mem_append_left _ hcurpre)
    subst hbe
    have hnpost : b.buf ∉ p.post := fun hm => (List.nodup_append.mp hlnd).2.2 _ hcurpre _ hm rfl
    have hndpre : (K ++ b.buf :: n :: todo').Nodup := by rw [← hpre]; exact (List.nodup_append.mp hlnd).1
    have hnK : b.buf ∉ K := fun hm => (List.nodup_append.mp hndpre).2.2 _ hm _ (by simp) rfl
    have hnT : b.buf ∉ n :: todo' := (List.nodup_cons.mp (List.nodup_append.mp hndpre).2.1).1
    obtain ⟨tr, p1, e1, hd, hwf1, hn1, htr, hperm, hcnt, hc, hsg, hoth, hl, hne⟩ := deleteBlocks_ok hM hN2 hA2 h hb f
    have hprev : p.prevOf b.buf = some n := by
      unfold Pool.prevOf Pool.order
      rw [List.reverse_append, List.reverse_reverse, hpre, ← List.append_assoc, succIn_split _ _ _ (by
        intro hm
        rcases List.mem_append.mp hm with hm | hm
        · exact hnpost (List.mem_reverse.mp hm)
        · exact hnK hm)]
      rfl
    have hshape : ∃ K', p1.pre = K' ++ n :: todo' := by
      rcases hn1 with ⟨e1', _⟩ | ⟨_, e1', _⟩ | ⟨ha, _, _⟩ | ⟨_, e1', _⟩
      · exact ⟨K ++ [b.buf], by rw [e1', hpre]; simp⟩
      · exact ⟨K, by rw [e1', hpre, List.erase_append_right _ hnK]; simp⟩
      · exact absurd ha hnpost
      · exact ⟨K, by rw [e1', hpre, List.erase_append_right _ hnK]; simp⟩
    obtain ⟨K', hpre1⟩ := hshape
    obtain ⟨tr2, p2, e2, hd2, hv2⟩ := ih n K' p1 fu hwf1 hpre1 (hne hpne) (by simp at hfuel; omega)
    have hvt : visitTaken P p1.store (n :: todo') = visitTaken P p.store (n :: todo') :=
      visitTaken_congr hwf1.nodup _ (fun c hc' => hoth c (fun e => hnT (e ▸ hc')))
    refine ⟨tr ++ tr2, p2, e1 ++ e2, ?_, ⟨hv2.wf, hv2.postNE, ?_, ?_, ?_, ⟨hv2.same.1.trans hc, hv2.same.2.trans hsg⟩, ?_, hl.trans hv2.ledger⟩⟩
    · simp only [difBackward, hd, Outcome.bind, hprev, hd2, Outcome.map]
    · rw [htr, hv2.trace, hvt, visitTaken_cons P p.store b hget]
    · rw [List.filter_append, List.append_assoc]
      exact hperm.trans (List.Perm.append_left _ hv2.perm)
    · rw [hv2.count, hcnt, List.filter_append, List.length_append]; omega
    · intro c hc'
      have h1 : c.buf ≠ b.buf := fun e => hc' (by simp [e])
      have h2 : c.buf ∉ n :: todo' := fun hm => hc' (by simp [List.mem_cons.mp hm])
      exact (hv2.others c h2).trans (hoth c h1)

/-- visiting every buffer of a store once, in any order, meets exactly the blocks it hands out -/
theorem visitTaken_perm {P : Params} {st : List Buffer} (hnd : (bufs st).Nodup) {xs : List Int}
    (hp : xs.Perm (bufs st)) : (visitTaken P st xs).Perm (takenOf P st) := by
  have h1 : (visitTaken P st xs).Perm (visitTaken P st (bufs st)) := List.Perm.flatMap_right _ hp
  refine h1.trans ?_
  have h2 : visitTaken P st (bufs st) = takenOf P st := by
    unfold visitTaken takenOf bufs
    rw [List.flatMap_map]
    apply List.flatMap_congr
    intro b hb
    obtain ⟨s1, s2, hs, hh1, _⟩ := store_split hb hnd
    have : getBuf st b.buf = some b := by rw [hs]; exact getBuf_split hh1
    simp [this]
  rw [h2]

theorem visitTaken_append (P : Params) (st : List Buffer) (xs ys : List Int) :
    visitTaken P st (xs ++ ys) = visitTaken P st xs ++ visitTaken P st ys := by
  simp [visitTaken, List.flatMap_append]

/-- **`DeallocateIf` (360-384) frees exactly the selected blocks.** On every well-formed state and for every
    filter: the call succeeds; the filter is asked exactly once about every live block and about nothing else;
    afterwards the live blocks are exactly the live blocks for which the filter said no; the state is well
    formed (so the count is again the number of live blocks); memory goes back to the manager only legally. -/
theorem deallocateIf_ok {P : Params} {k : Int} (hM : Multi P k) (hN2 : 2 ≤ P.N) (hA2 : P.A ≤ 1024) {p : Pool}
    (h : PoolWF P p) (f : Int → Bool) :
    ∃ tr p' evs, deallocateIf P p f = .ok tr p' evs ∧ PoolWF P p' ∧
      (p'.live P).Perm ((p.live P).filter (fun x => !f x)) ∧ tr.Perm (p.live P) ∧
      LedgerOK P p.store evs p'.store := by
  have hfl : ∃ p0 e0, (if P.useCache = true then flush P p else Outcome.ok () p []) = .ok () p0 e0 ∧ PoolWF P p0 ∧
      p0.cache = [] ∧ (p.live P).Perm (p0.live P) ∧ LedgerOK P p.store e0 p0.store := by
    by_cases hu : P.useCache = true
    · rw [if_pos hu]
      obtain ⟨p0, e0, h1, h2, h3, h4, _, h6, _⟩ := flush_ok hM hN2 hA2 h
      exact ⟨p0, e0, h1, h2, h3, h4, h6⟩
    · rw [if_neg hu]
      exact ⟨p, [], rfl, h, h.cacheOff (by simpa using hu), List.Perm.refl _, LedgerOK.nil rfl⟩
  obtain ⟨p0, e0, hfe, hwf0, hc0, hlive0, hl0⟩ := hfl
  have hlt0 : p0.live P = p0.taken P := live_of_cache_nil hN2 hc0
  have hcnt0 : p0.allocCount = (p0.taken P).length := by
    have := hwf0.count; rw [hc0] at this; simpa using this
  unfold deallocateIf
  rw [if_neg (by omega), hfe]
  simp only [Outcome.bind]
  by_cases hz : p0.allocCount = 0
  · rw [if_pos hz]
    have hT : p0.taken P = [] := List.eq_nil_of_length_eq_zero (by omega)
    have hlp : p.live P = [] := by
      have := hlive0.length_eq; rw [hlt0, hT] at this
      exact List.eq_nil_of_length_eq_zero (by simpa using this)
    refine ⟨[], p0, e0 ++ [], rfl, hwf0, ?_, by rw [hlp], by simpa using hl0⟩
    rw [hlt0, hT, hlp]; simp
  · rw [if_neg hz]
    have hlists := hwf0.core.lists
    have hlen : (p0.pre ++ p0.post).length = p0.store.length := by
      have := hlists.length_eq; simpa [bufs] using this
    cases hpost : p0.post with
    | nil =>
      exfalso
      obtain ⟨hst, _⟩ := store_nil_of_post_nil hwf0.core hpost
      have : p0.taken P = [] := by simp [Pool.taken, hst]
      rw [this] at hcnt0; exact hz (by simpa using hcnt0)
    | cons hd rest =>
      simp only
      obtain ⟨tr1, p1, e1, hd1, hv1, hpre1⟩ := difForward_ok hM hN2 hA2 f rest hd [] p0 (p0.store.length + 1) hwf0.core
        (by rw [hpost]; rfl) (by rw [hpost] at hlen; simp at hlen; omega)
      rw [hd1]; simp only
      obtain ⟨h1, r1, hpost1⟩ := List.exists_cons_of_ne_nil hv1.postNE
      rw [hpost1]; simp only
      have hlnd1 := hv1.wf.lists_nodup
      have hprev : p1.prevOf h1 = p1.pre.head? := by
        unfold Pool.prevOf Pool.order
        rw [List.reverse_append, List.reverse_reverse, hpost1, List.reverse_cons, List.append_assoc,
          List.singleton_append, succIn_split _ _ _ (by
            intro hm
            have := (List.nodup_append.mp hlnd1).2.1; rw [hpost1] at this
            exact (List.nodup_cons.mp this).1 (List.mem_reverse.mp hm))]
      -- result of the backward loop (possibly empty)
      have hback : ∃ tr2 p2 e2, difBackward P f (p1.store.length + 1) (p1.prevOf h1) p1 = .ok tr2 p2 e2 ∧
          VisitSpec P f p1 p2 p1.pre tr2 e2 := by
        rw [hprev]
        cases hp1 : p1.pre with
        | nil =>
          refine ⟨[], p1, [], by cases hn : p1.store.length + 1 <;> simp [difBackward], ?_⟩
          exact ⟨hv1.wf, hv1.postNE, by simp [visitTaken], by simp, by simp, ⟨rfl, rfl⟩, fun _ _ => Iff.rfl, LedgerOK.nil rfl⟩
        | cons c t =>
          simp only [List.head?_cons]
          have hlen1 : (p1.pre ++ p1.post).length = p1.store.length := by
            have := hv1.wf.lists.length_eq; simpa [bufs] using this
          exact difBackward_ok hM hN2 hA2 f t c [] p1 (p1.store.length + 1) hv1.wf (by rw [hp1]; rfl) hv1.postNE
            (by rw [hp1] at hlen1; simp at hlen1; omega)
      obtain ⟨tr2, p2, e2, hd2, hv2⟩ := hback
      rw [hd2]; simp only [Outcome.map]
      -- accounting
      have hndpp : (p0.pre ++ p0.post).Nodup := hwf0.core.lists_nodup
      have htr2 : tr2 = visitTaken P p0.store p0.pre := by
        rw [hv2.trace, hpre1]
        apply visitTaken_congr hv1.wf.nodup
        intro c hc
        apply hv1.others c
        rw [← hpost]
        intro hm; exact (List.nodup_append.mp hndpp).2.2 _ hc _ hm rfl
      have htr : (tr1 ++ tr2).Perm (p0.taken P) := by
        rw [hv1.trace, htr2, ← hpost, ← visitTaken_append]
        exact visitTaken_perm hwf0.core.nodup (List.perm_append_comm.trans hlists)
      have hperm : (p0.taken P).Perm ((tr1 ++ tr2).filter f ++ p2.taken P) := by
        rw [List.filter_append, List.append_assoc]
        exact hv1.perm.trans (List.Perm.append_left _ hv2.perm)
      have hsel : ((tr1 ++ tr2).filter f).Perm ((p0.taken P).filter f) := htr.filter f
      have hpart : (p0.taken P).Perm ((p0.taken P).filter f ++ (p0.taken P).filter (fun x => !f x)) :=
        (List.filter_append_perm f (p0.taken P)).symm
      have hfinal : (p2.taken P).Perm ((p0.taken P).filter (fun x => !f x)) := by
        have h3 : ((p0.taken P).filter f ++ p2.taken P).Perm ((p0.taken P).filter f ++ (p0.taken P).filter (fun x => !f x)) :=
          ((List.Perm.append_right _ hsel).symm.trans hperm.symm).trans hpart
        exact (List.perm_append_left_iff _).mp h3
      have hc2 : p2.cache = [] := (hv2.same.1.trans hv1.same.1).trans hc0
      have hlt2 : p2.live P = p2.taken P := live_of_cache_nil hN2 hc2
      refine ⟨tr1 ++ tr2, p2, e0 ++ (e1 ++ e2), rfl, ⟨hv2.wf, by rw [hc2]; simp, by rw [hc2]; simp, fun _ => hc2, ?_,
        (hv2.same.2.trans hv1.same.2).trans hwf0.singlesNil⟩, ?_, ?_, hl0.trans (hv1.ledger.trans hv2.ledger)⟩
      · rw [hc2]; simp only [List.length_nil, Nat.add_zero]
        have hl := hperm.length_eq
        rw [List.length_append] at hl
        rw [hv2.count, hv1.count, hcnt0]
        rw [List.filter_append, List.length_append] at hl
        omega
      · rw [hlt2]
        exact hfinal.trans ((hlive0.trans (by rw [hlt0])).filter _).symm
      · exact htr.trans (hlive0.trans (by rw [hlt0])).symm

end Momo.Pool
