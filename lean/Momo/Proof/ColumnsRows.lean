import Momo.Proof.ColumnsInv
/-!
# Rows: `pvCreate` / `pvCreateRaw` / `DestroyRaw` / `ImportRaw` — lemmas for C18

`createGroup_*`, `createLoop_*`: exact event lists of the creation loops without a fault, with a
fault at the `i`-th construction, and with a fault index that is never reached.
`groupsOf_all`: under the invariant the function records cover every column exactly once, in order.
`replay_*`: replaying the events on the set of live item slots never constructs a live slot or
destroys a dead one, and ends with all / none of the slots alive.
-/
namespace Momo.Col

theorem createGroup_none (srcOf : ColRec → Option Nat) (rs : List ColRec) :
    createGroup srcOf rs none = (rs.map (ctorEv srcOf), true, none) := by
  induction rs with
  | nil => rfl
  | cons r rs ih =>
    unfold createGroup
    rw [if_neg (by simp)]
    simp only [Option.map_none, ih, List.map_cons]

theorem createGroup_ge (srcOf : ColRec → Option Nat) (rs : List ColRec) (i : Nat) (h : rs.length ≤ i) :
    createGroup srcOf rs (some i) = (rs.map (ctorEv srcOf), true, some (i - rs.length)) := by
  induction rs generalizing i with
  | nil => rfl
  | cons r rs ih =>
    simp only [List.length_cons] at h
    obtain ⟨j, rfl⟩ : ∃ j, i = j + 1 := ⟨i - 1, by omega⟩
    unfold createGroup
    rw [if_neg (by simp)]
    have : (some (j + 1)).map (· - 1) = some j := rfl
    rw [this, ih j (by omega)]
    simp only [List.map_cons, List.length_cons]
    congr 2
    congr 1
    omega

theorem createGroup_lt (srcOf : ColRec → Option Nat) (rs : List ColRec) (i : Nat) (h : i < rs.length) :
    ∃ k', createGroup srcOf rs (some i) =
      ((rs.take i).map (ctorEv srcOf) ++ ((rs.take i).reverse.map (fun r => Ev.destroy r.offset)), false, k') := by
  induction rs generalizing i with
  | nil => simp at h
  | cons r rs ih =>
    cases i with
    | zero => exact ⟨some 0, by simp [createGroup]⟩
    | succ j =>
      simp only [List.length_cons] at h
      obtain ⟨k', hk⟩ := ih j (by omega)
      refine ⟨k', ?_⟩
      unfold createGroup
      rw [if_neg (by simp)]
      have : (some (j + 1)).map (· - 1) = some j := rfl
      rw [this, hk]
      simp


/-- the column records of a list of function records, in order -/
def groupsOf (st : State) (frs : List FuncRec) : List ColRec := (frs.map (group st)).flatten

theorem groupsOf_cons (st : State) (fr : FuncRec) (frs : List FuncRec) :
    groupsOf st (fr :: frs) = group st fr ++ groupsOf st frs := by simp [groupsOf]

theorem groupsOf_snoc (st : State) (fr : FuncRec) (frs : List FuncRec) :
    groupsOf st (frs ++ [fr]) = groupsOf st frs ++ group st fr := by simp [groupsOf]

theorem destroy_flatten (st : State) (done : List FuncRec) :
    (done.map (fun d => destroyGroup (group st d))).flatten = (groupsOf st done).map (fun r => Ev.destroy r.offset) := by
  induction done with
  | nil => rfl
  | cons d ds ih => rw [List.map_cons, List.flatten_cons, ih, groupsOf_cons, List.map_append]; rfl

theorem createLoop_none (st : State) (srcOf : ColRec → Option Nat) (frs done : List FuncRec) :
    createLoop st srcOf frs done none = ((groupsOf st frs).map (ctorEv srcOf), true) := by
  induction frs generalizing done with
  | nil => rfl
  | cons fr frs ih =>
    unfold createLoop
    rw [createGroup_none]
    simp only [ih, groupsOf_cons, List.map_append]

theorem createLoop_ge (st : State) (srcOf : ColRec → Option Nat) (frs done : List FuncRec) (i : Nat)
    (h : (groupsOf st frs).length ≤ i) :
    createLoop st srcOf frs done (some i) = ((groupsOf st frs).map (ctorEv srcOf), true) := by
  induction frs generalizing done i with
  | nil => rfl
  | cons fr frs ih =>
    rw [groupsOf_cons, List.length_append] at h
    unfold createLoop
    rw [createGroup_ge _ _ _ (by omega)]
    simp only [ih (done ++ [fr]) (i - (group st fr).length) (by omega), groupsOf_cons, List.map_append]

theorem createLoop_lt (st : State) (srcOf : ColRec → Option Nat) (frs done : List FuncRec) (i : Nat)
    (h : i < (groupsOf st frs).length) :
    ∃ ds : List Nat, createLoop st srcOf frs done (some i) =
        (((groupsOf st frs).take i).map (ctorEv srcOf) ++ ds.map Ev.destroy, false) ∧
      ds.Perm ((((groupsOf st frs).take i) ++ groupsOf st done).map (·.offset)) := by
  induction frs generalizing done i with
  | nil => simp [groupsOf] at h
  | cons fr frs ih =>
    rw [groupsOf_cons, List.length_append] at h
    by_cases hg : i < (group st fr).length
    · obtain ⟨k', hk⟩ := createGroup_lt srcOf (group st fr) i hg
      refine ⟨((group st fr).take i).reverse.map (·.offset) ++ (groupsOf st done).map (·.offset), ?_, ?_⟩
      · unfold createLoop
        rw [hk]
        simp only [destroy_flatten, groupsOf_cons, List.take_append_of_le_length (Nat.le_of_lt hg),
          List.map_append, List.append_assoc, List.map_map]
        rfl
      · rw [groupsOf_cons, List.take_append_of_le_length (Nat.le_of_lt hg), List.map_append]
        exact List.Perm.append_right _ (List.Perm.map _ (List.reverse_perm _))
    · have hge : (group st fr).length ≤ i := Nat.le_of_not_lt hg
      obtain ⟨ds, hds, hperm⟩ := ih (done ++ [fr]) (i - (group st fr).length) (by omega)
      refine ⟨ds, ?_, ?_⟩
      · unfold createLoop
        rw [createGroup_ge _ _ _ hge]
        simp only [hds, groupsOf_cons, List.take_append, List.take_of_length_le hge, List.map_append, List.append_assoc]
      · refine hperm.trans ?_
        rw [groupsOf_cons, groupsOf_snoc, List.take_append, List.take_of_length_le hge]
        apply List.Perm.map
        rw [List.perm_iff_count]
        intro x
        simp only [List.count_append]
        omega


/-! ## The function records cover every column exactly once -/

theorem Tiles.le {s e : Nat} {frs : List FuncRec} (h : Tiles s frs e) : s ≤ e := by
  induction frs generalizing s with
  | nil => cases h; exact Nat.le_refl _
  | cons fr frs ih => have := ih h.2; omega

theorem tiles_groups (cols : List ColRec) {s e : Nat} {frs : List FuncRec} (h : Tiles s frs e) :
    (frs.map (fun fr => (cols.drop fr.columnIndex).take fr.count)).flatten = (cols.drop s).take (e - s) := by
  induction frs generalizing s with
  | nil => cases h; simp
  | cons fr frs ih =>
    have hle := h.2.le
    rw [List.map_cons, List.flatten_cons, ih h.2, h.1]
    have : e - s = fr.count + (e - (s + fr.count)) := by omega
    rw [this, List.take_add, List.drop_drop]

theorem groupsOf_all {c : Cfg} {st : State} (h : Inv c st) : groupsOf st st.funcRecs = st.columns := by
  unfold groupsOf
  have := tiles_groups st.columns h.funcs
  simp only [List.drop_zero, Nat.sub_zero, List.take_length] at this
  exact this

theorem Inv.offsets_nodup {c : Cfg} {st : State} (h : Inv c st) : (st.columns.map (·.offset)).Nodup := by
  rw [List.nodup_iff_pairwise_ne, List.pairwise_map]
  exact h.lay.pairwise_lt.imp (fun hlt => Nat.ne_of_lt hlt)

/-! ## Replaying the events on the set of live slots -/

theorem replay_append (xs ys : List Ev) (live : List Nat) :
    replay (xs ++ ys) live = (replay xs live).bind (replay ys) := by
  induction xs generalizing live with
  | nil => rfl
  | cons x xs ih =>
    cases x with
    | create o => simp only [List.cons_append, replay]; split <;> simp [ih]
    | copy s o => simp only [List.cons_append, replay]; split <;> simp [ih]
    | destroy o => simp only [List.cons_append, replay]; split <;> simp [ih]

theorem replay_ctor (srcOf : ColRec → Option Nat) (rs : List ColRec) (live : List Nat)
    (hnd : (rs.map (·.offset)).Nodup) (hdis : ∀ r ∈ rs, r.offset ∉ live) :
    replay (rs.map (ctorEv srcOf)) live = some ((rs.map (·.offset)).reverse ++ live) := by
  induction rs generalizing live with
  | nil => rfl
  | cons r rs ih =>
    rw [List.map_cons, List.nodup_cons] at hnd
    have hr : r.offset ∉ live := hdis r (by simp)
    have hrec := ih (r.offset :: live) hnd.2 (by
      intro r' hr' hmem
      rcases List.mem_cons.mp hmem with heq | hmem
      · exact hnd.1 (heq ▸ List.mem_map_of_mem hr')
      · exact hdis r' (by simp [hr']) hmem)
    have hc : live.contains r.offset = false := by
      simpa [List.contains_iff_mem] using hr
    rw [List.map_cons]
    have hce : (ctorEv srcOf r = Ev.create r.offset) ∨ ∃ s, ctorEv srcOf r = Ev.copy s r.offset := by
      unfold ctorEv; cases srcOf r <;> simp
    rcases hce with h | ⟨s, h⟩ <;>
      (rw [h]; simp only [replay, hc, Bool.false_eq_true, if_false]; rw [hrec]; simp)

theorem replay_destroy (ds live : List Nat) (hl : live.Nodup) (hd : ds.Nodup) (hsub : ∀ d ∈ ds, d ∈ live) :
    replay (ds.map Ev.destroy) live = some (live.filter (fun x => !ds.contains x)) := by
  induction ds generalizing live with
  | nil =>
    simp only [List.map_nil, replay, List.contains_nil, Bool.not_false, Option.some.injEq]
    exact (List.filter_eq_self.mpr (fun _ _ => rfl)).symm
  | cons d ds ih =>
    rw [List.nodup_cons] at hd
    have hdl : d ∈ live := hsub d (by simp)
    have hc : live.contains d = true := by simpa [List.contains_iff_mem] using hdl
    rw [List.map_cons]
    simp only [replay, hc, if_true]
    rw [hl.erase_eq_filter]
    rw [ih _ (hl.filter _) hd.2 (by
      intro x hx
      rw [List.mem_filter]
      refine ⟨hsub x (by simp [hx]), ?_⟩
      have : x ≠ d := fun h => hd.1 (h ▸ hx)
      simpa using this)]
    rw [List.filter_filter]
    congr 1
    apply List.filter_congr
    intro x _
    simp only [List.contains_cons, Bool.not_or]
    by_cases hxd : x = d <;> simp [hxd, bne, Bool.and_comm]


/-! ## `CreateRaw` / `ImportRaw` / `DestroyRaw` on a state that satisfies the invariant -/

theorem createRaw_none {c : Cfg} {st : State} (h : Inv c st) (src : Src) :
    createRaw st src none = (st.columns.map (ctorEv (srcOf src)), true) := by
  unfold createRaw
  rw [createLoop_none, groupsOf_all h]

theorem createRaw_late {c : Cfg} {st : State} (h : Inv c st) (src : Src) (i : Nat) (hi : st.columns.length ≤ i) :
    createRaw st src (some i) = (st.columns.map (ctorEv (srcOf src)), true) := by
  unfold createRaw
  rw [createLoop_ge _ _ _ _ _ (by rw [groupsOf_all h]; exact hi), groupsOf_all h]

theorem createRaw_fault {c : Cfg} {st : State} (h : Inv c st) (src : Src) (i : Nat) (hi : i < st.columns.length) :
    ∃ ds : List Nat, createRaw st src (some i) =
        ((st.columns.take i).map (ctorEv (srcOf src)) ++ ds.map Ev.destroy, false) ∧
      ds.Perm ((st.columns.take i).map (·.offset)) := by
  unfold createRaw
  obtain ⟨ds, h1, h2⟩ := createLoop_lt st (srcOf src) st.funcRecs [] i (by rw [groupsOf_all h]; exact hi)
  rw [groupsOf_all h] at h1 h2
  exact ⟨ds, h1, by simpa [groupsOf] using h2⟩

theorem destroyRaw_eq {c : Cfg} {st : State} (h : Inv c st) :
    destroyRaw st = st.columns.map (fun r => Ev.destroy r.offset) := by
  unfold destroyRaw
  rw [destroy_flatten, groupsOf_all h]

theorem replay_create {c : Cfg} {st : State} (h : Inv c st) (src : Src) :
    replay (createRaw st src none).1 [] = some (st.columns.map (·.offset)).reverse := by
  rw [createRaw_none h, replay_ctor _ _ _ h.offsets_nodup (by simp)]
  simp

theorem replay_destroy_all (offs : List Nat) (live : List Nat) (hl : live.Nodup) (hd : offs.Nodup)
    (h1 : ∀ d ∈ offs, d ∈ live) (h2 : ∀ x ∈ live, x ∈ offs) :
    replay (offs.map Ev.destroy) live = some [] := by
  rw [replay_destroy offs live hl hd h1]
  congr 1
  rw [List.filter_eq_nil_iff]
  intro x hx
  simp [h2 x hx]

theorem replay_create_destroy {c : Cfg} {st : State} (h : Inv c st) (src : Src) :
    replay ((createRaw st src none).1 ++ destroyRaw st) [] = some [] := by
  rw [replay_append, replay_create h, destroyRaw_eq h]
  simp only [Option.bind_some]
  have : st.columns.map (fun r => Ev.destroy r.offset) = (st.columns.map (·.offset)).map Ev.destroy := by
    rw [List.map_map]; rfl
  rw [this]
  exact replay_destroy_all _ _ ((List.reverse_perm _).nodup_iff.mpr h.offsets_nodup) h.offsets_nodup
    (fun d hd => List.mem_reverse.mpr hd) (fun x hx => List.mem_reverse.mp hx)

theorem replay_fault {c : Cfg} {st : State} (h : Inv c st) (src : Src) (i : Nat) (hi : i < st.columns.length) :
    (createRaw st src (some i)).2 = false ∧ replay (createRaw st src (some i)).1 [] = some [] := by
  obtain ⟨ds, h1, h2⟩ := createRaw_fault h src i hi
  rw [h1]
  refine ⟨rfl, ?_⟩
  have hnd : ((st.columns.take i).map (·.offset)).Nodup :=
    (List.Sublist.map _ (List.take_sublist i st.columns)).nodup h.offsets_nodup
  simp only
  rw [replay_append, replay_ctor _ _ _ hnd (by simp)]
  simp only [List.append_nil, Option.bind_some]
  exact replay_destroy_all ds _ ((List.reverse_perm _).nodup_iff.mpr hnd) (h2.nodup_iff.mpr hnd)
    (fun d hd => List.mem_reverse.mpr (h2.mem_iff.mp hd)) (fun x hx => h2.mem_iff.mpr (List.mem_reverse.mp hx))

/-- `ImportRaw` from another column list copies a column exactly when the source list contains its
code, from the offset the source list recorded for it -/
theorem import_source {c' : Cfg} {src : State} (h : Inv c' src) (r : ColRec) :
    (∀ r' ∈ src.columns, r'.code = r.code → srcOf (.other c' src) r = some r'.offset) ∧
    (r.code ∉ src.columns.map (·.code) → srcOf (.other c' src) r = none) := by
  constructor
  · intro r' hr' hc
    simp only [srcOf]
    rw [← hc]; exact contains_added h hr'
  · intro hc
    simp only [srcOf]
    exact contains_not_added h hc

end Momo.Col
