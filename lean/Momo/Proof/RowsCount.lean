import Momo.Proof.Rows
/-!
  Lemmas for the row hand-off model (C19), part 2: how each step changes the number of occurrences of a block in
  the places of the model (all bookkeeping is done with `List.count` and closed by `omega`).
-/
namespace Momo.Rows

/-! ### counting blocks -/

theorem count_inflight_same {s : St} {t : Tid} {pc pc' : PC} (h : s.thr[t]? = some pc) (hr : pc'.row = pc.row) (x : Row) :
    (List.filterMap PC.row (setPC s t pc')).count x = (inflight s).count x := by
  unfold setPC inflight; rw [filterMap_set_same s.thr t pc pc' h hr]

theorem count_inflight_add {s : St} {t : Tid} {pc pc' : PC} {r : Row} (h : s.thr[t]? = some pc) (hr : pc.row = none)
    (hr' : pc'.row = some r) (x : Row) :
    (List.filterMap PC.row (setPC s t pc')).count x = (inflight s).count x + (if r = x then 1 else 0) := by
  unfold setPC inflight
  rw [(filterMap_set_perm' s.thr t pc pc' r h hr hr').count_eq x, List.count_cons]
  simp

theorem count_inflight_del {s : St} {t : Tid} {pc pc' : PC} {r : Row} (h : s.thr[t]? = some pc) (hr : pc.row = some r)
    (hr' : pc'.row = none) (x : Row) :
    (inflight s).count x = (List.filterMap PC.row (setPC s t pc')).count x + (if r = x then 1 else 0) := by
  unfold setPC inflight
  rw [(filterMap_set_perm s.thr t pc pc' r h hr hr').count_eq x, List.count_cons]
  simp

theorem count_det_erase {det : List (Row × Tid)} {r : Row} {t : Tid} (h : (r, t) ∈ det) (x : Row) :
    (det.map Prod.fst).count x = ((det.erase (r, t)).map Prod.fst).count x + (if r = x then 1 else 0) := by
  have := ((List.perm_cons_erase h).map Prod.fst).count_eq x
  rw [this]; simp [List.count_cons]

theorem count_removeAt {l : List Row} {i : Nat} {r : Row} (keep : Bool) (h : l[i]? = some r) (x : Row) :
    l.count x = (removeAt l i keep).count x + (if r = x then 1 else 0) := by
  have hp : l.Perm (r :: removeAt l i keep) := by
    unfold removeAt; cases keep
    · simpa using swapRemove_perm l i r h
    · simpa using eraseIdx_perm l i r h
  rw [hp.count_eq x]; simp [List.count_cons]

theorem count_pool_erase {pool : List Row} {r : Row} (h : r ∈ pool) (x : Row) :
    pool.count x = (pool.erase r).count x + (if r = x then 1 else 0) := by
  have := (List.perm_cons_erase h).count_eq x
  rw [this]; simp [List.count_cons]

theorem count_erase_not_mem {pool : List Row} {r : Row} (h : r ∉ pool) : pool.erase r = pool :=
  List.erase_of_not_mem h

theorem count_map_taken (L : List Row) (r : Row) : (L.map Ev.taken).count (Ev.taken r) = L.count r := by
  induction L with
  | nil => simp
  | cons a t ih => simp [List.count_cons, ih]

theorem count_map_taken_created (L : List Row) (r : Row) : (L.map Ev.taken).count (Ev.created r) = 0 := by
  induction L with
  | nil => simp
  | cons a t ih => simp [ih]

theorem count_map_taken_reclaimed (L : List Row) (r : Row) : (L.map Ev.taken).count (Ev.reclaimed r) = 0 := by
  induction L with
  | nil => simp
  | cons a t ih => simp [ih]

theorem count_map_taken_pushed (L : List Row) (r : Row) : (L.map Ev.taken).count (Ev.pushed r) = 0 := by
  induction L with
  | nil => simp
  | cons a t ih => simp [ih]

end Momo.Rows
