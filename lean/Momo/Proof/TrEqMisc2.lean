import Momo.Proof.TrEqMisc2Sort
import Momo.Proof.TrEqMisc2Math
import Momo.Proof.TrEqMisc2Col
import Momo.Proof.TrEqMisc2Bucket
/-!
  Area Misc of the T1b translator (tools/trspecs/Misc.py → lean/Momo/Translated/Misc.lean): the equivalence proofs are
  split by property so that a changed function body only breaks the property it belongs to:
    * `TrEqMisc2Sort`   — C17: HashSorter.h / RadixSorter.h kernels
    * `TrEqMisc2Math`   — C16: Utility.h `UIntMath::Log2 / pvLog2` (both widths), `SegmentedArraySettings<cnst>::GetItemCount`
    * `TrEqMisc2Col`    — C18: DataColumn.h `GetVertices`, offset arithmetic, Utility.h `UIntMath::Ceil`
    * `TrEqMisc2Bucket` — C08: details/ArrayBucket.h state byte and sizing arithmetic
  Each `Props/Cxx.lean` imports only its own file; this module just collects them.
-/
