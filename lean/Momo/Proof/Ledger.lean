import Momo.Model.Ledger
/-!
  The list-level specification of C03 and the link between the monitor's state and the trace read so far
  (core Lean only).

  Specification, stated on the LIST of events (no machine state):
  * `lastB b pre` = the last `alloc`/`dealloc` event about block `b` in `pre`; block `b` is *open as (m, n)* after
    `pre` iff that event is `alloc m b n` (`openAs_iff_split`: `pre = p1 ++ alloc m b n :: p2` with no alloc/dealloc of
    `b` in `p2`).
  * `lastE e pre` = the last life-cycle event of element `e` (construct / destroy / relocation from or to `e`);
    `e` is *alive* after `pre` iff that event begins `e`.
  * `Disciplined tr`: every event of `tr` is admissible after the events before it (`Admissible`).
-/
namespace Momo.Ledger

variable {β : Type} [DecidableEq β]
set_option linter.unusedSectionVars false

/-! ### the specification -/

/-- the event is an `alloc` or a `dealloc` of block `b` -/
def Ev.lifeB (b : β) : Ev β → Bool
  | .alloc _ b' _ => decide (b' = b)
  | .dealloc _ b' _ => decide (b' = b)
  | _ => false

/-- the event brings element `e` into existence -/
def Ev.begins (e : Nat) : Ev β → Bool
  | .construct e' => decide (e' = e)
  | .relocate _ d => decide (d = e)
  | _ => false

/-- the event ends the existence of element `e` -/
def Ev.ends (e : Nat) : Ev β → Bool
  | .destroy e' => decide (e' = e)
  | .relocate s _ => decide (s = e)
  | _ => false

def Ev.lifeE (e : Nat) (ev : Ev β) : Bool := ev.begins e || ev.ends e

def lastB (b : β) (pre : List (Ev β)) : Option (Ev β) := (pre.filter (Ev.lifeB b)).getLast?
def lastE (e : Nat) (pre : List (Ev β)) : Option (Ev β) := (pre.filter (Ev.lifeE e)).getLast?

/-- after `pre`, block `b` is outstanding, obtained from manager class `m` with size `n` -/
def OpenAs (b : β) (m n : Nat) (pre : List (Ev β)) : Prop := lastB b pre = some (.alloc m b n)
def Open (b : β) (pre : List (Ev β)) : Prop := ∃ m n, OpenAs b m n pre

/-- after `pre`, element `e` exists (constructed or relocated-to, and not destroyed / relocated-from since) -/
def Alive (e : Nat) (pre : List (Ev β)) : Prop := ∃ ev, lastE e pre = some ev ∧ ev.begins e = true ∧ ev.ends e = false

/-- what C03 allows as the next event after the history `pre` -/
def Admissible (pre : List (Ev β)) : Ev β → Prop
  | .alloc _ b _ => ¬ Open b pre
  | .dealloc m b n => OpenAs b m n pre
  | .construct e => ¬ Alive e pre
  | .destroy e => Alive e pre
  | .relocate s d => s ≠ d ∧ Alive s pre ∧ ¬ Alive d pre
  | .use e => Alive e pre
  | .touch b off len => ∃ m n, OpenAs b m n pre ∧ off + len ≤ n

/-- every event is admissible where it stands -/
def Disciplined (tr : List (Ev β)) : Prop :=
  ∀ pre ev post, tr = pre ++ ev :: post → Admissible pre ev

/-- nothing is outstanding after `tr` -/
def NothingLeft (tr : List (Ev β)) : Prop := (∀ b, ¬ Open b tr) ∧ (∀ e, ¬ Alive (β := β) e tr)

/-! ### lookups -/

theorem findB_eraseB (b b' : β) (l : Blocks β) :
    findB b (eraseB b' l) = if b' = b then none else findB b l := by
  induction l with
  | nil => simp [eraseB, findB]
  | cons x r ih =>
    simp only [eraseB, List.filter] at ih ⊢
    by_cases h : x.1 = b'
    · simp only [h, ne_eq, not_true_eq_false, decide_false]
      rw [ih]
      by_cases hb : b' = b
      · simp [hb]
      · simp [hb, findB, h]
    · simp only [ne_eq, h, not_false_eq_true, decide_true, findB]
      rw [ih]
      by_cases hb : b' = b
      · subst hb; simp [h]
      · simp [hb]

theorem memE_eraseE (e e' : Nat) (l : List Nat) :
    memE e (eraseE e' l) = if e' = e then false else memE e l := by
  induction l with
  | nil => simp [eraseE, memE]
  | cons x r ih =>
    simp only [eraseE, List.filter] at ih ⊢
    by_cases h : x = e'
    · simp only [h, ne_eq, not_true_eq_false, decide_false]
      rw [ih]
      by_cases hb : e' = e
      · simp [hb]
      · simp [hb, memE]
    · simp only [ne_eq, h, not_false_eq_true, decide_true, memE]
      rw [ih]
      by_cases hb : e' = e
      · subst hb; simp [h]
      · simp [hb]

theorem findB_none_of_nil {l : Blocks β} (h : ∀ b, findB b l = none) : l = [] := by
  cases l with
  | nil => rfl
  | cons x r => have := h x.1; simp [findB] at this

theorem memE_false_of_nil {l : List Nat} (h : ∀ e, memE e l = false) : l = [] := by
  cases l with
  | nil => rfl
  | cons x r => have := h x; simp [memE] at this

/-! ### one step, seen through the lookups -/

/-- the block table after an accepted event -/
theorem step_findB {s s1 : St β} {ev : Ev β} (h : step s ev = .ok s1) (b : β) :
    findB b s1.blocks =
      match ev with
      | .alloc m b' n => if b' = b then some (m, n) else findB b s.blocks
      | .dealloc _ b' _ => if b' = b then none else findB b s.blocks
      | _ => findB b s.blocks := by
  cases ev with
  | alloc m b' n =>
    simp only [step] at h
    split at h
    · cases h
    · cases h; simp [findB]
  | dealloc m b' n =>
    simp only [step] at h
    split at h
    · cases h
    · split at h
      · cases h
      · split at h
        · cases h
        · cases h; simp [findB_eraseB]
  | construct e => simp only [step] at h; split at h <;> cases h; rfl
  | destroy e => simp only [step] at h; split at h <;> cases h; rfl
  | relocate a d =>
    simp only [step] at h
    split at h
    · cases h
    · split at h
      · cases h
      · split at h <;> cases h; rfl
  | use e => simp only [step] at h; split at h <;> cases h; rfl
  | touch b' off len =>
    simp only [step] at h
    split at h
    · cases h
    · split at h <;> cases h; rfl

/-- the set of live elements after an accepted event -/
theorem step_memE {s s1 : St β} {ev : Ev β} (h : step s ev = .ok s1) (e : Nat) :
    memE e s1.elems =
      match ev with
      | .construct e' => if e' = e then true else memE e s.elems
      | .destroy e' => if e' = e then false else memE e s.elems
      | .relocate a d => if d = e then true else if a = e then false else memE e s.elems
      | _ => memE e s.elems := by
  cases ev with
  | alloc m b' n => simp only [step] at h; split at h <;> cases h; rfl
  | dealloc m b' n =>
    simp only [step] at h
    split at h
    · cases h
    · split at h
      · cases h
      · split at h <;> cases h; rfl
  | construct e' =>
    simp only [step] at h
    split at h
    · cases h
    · cases h; simp [memE]
  | destroy e' =>
    simp only [step] at h
    split at h
    · cases h; simp [memE_eraseE]
    · cases h
  | relocate a d =>
    simp only [step] at h
    split at h
    · cases h
    · split at h
      · cases h
      · split at h
        · cases h
        · cases h; simp [memE, memE_eraseE]
  | use e' => simp only [step] at h; split at h <;> cases h; rfl
  | touch b' off len =>
    simp only [step] at h
    split at h
    · cases h
    · split at h <;> cases h; rfl

/-- when the monitor accepts an event, in terms of the lookups only -/
def StepOK (s : St β) : Ev β → Prop
  | .alloc _ b _ => findB b s.blocks = none
  | .dealloc m b n => findB b s.blocks = some (m, n)
  | .construct e => memE e s.elems = false
  | .destroy e => memE e s.elems = true
  | .relocate a d => a ≠ d ∧ memE a s.elems = true ∧ memE d s.elems = false
  | .use e => memE e s.elems = true
  | .touch b off len => ∃ m n, findB b s.blocks = some (m, n) ∧ off + len ≤ n

theorem step_ok_iff (s : St β) (ev : Ev β) : (∃ s1, step s ev = .ok s1) ↔ StepOK s ev := by
  cases ev with
  | alloc m b n =>
    simp only [step, StepOK]
    cases hf : findB b s.blocks <;> simp
  | dealloc m b n =>
    simp only [step, StepOK]
    cases hf : findB b s.blocks with
    | none => simp
    | some p =>
      obtain ⟨m0, n0⟩ := p
      by_cases hm : m0 = m
      · by_cases hn : n0 = n
        · simp [hm, hn]
        · simp [hm, hn]
      · simp [hm]
  | construct e =>
    simp only [step, StepOK]
    cases hf : memE e s.elems <;> simp
  | destroy e =>
    simp only [step, StepOK]
    cases hf : memE e s.elems <;> simp
  | relocate a d =>
    simp only [step, StepOK]
    by_cases had : a = d
    · simp [had]
    · cases ha : memE a s.elems <;> cases hd : memE d s.elems <;> simp [had]
  | use e =>
    simp only [step, StepOK]
    cases hf : memE e s.elems <;> simp
  | touch b off len =>
    simp only [step, StepOK]
    cases hf : findB b s.blocks with
    | none => simp
    | some p =>
      obtain ⟨m0, n0⟩ := p
      by_cases hle : off + len ≤ n0
      · simp only [hle, if_true]
        exact ⟨fun _ => ⟨m0, n0, rfl, hle⟩, fun _ => ⟨_, rfl⟩⟩
      · simp only [hle, if_false]
        constructor
        · rintro ⟨_, h⟩; cases h
        · rintro ⟨m, n, h, hle'⟩; cases h; exact absurd hle' hle

/-! ### traces -/

/-- induction over a list from the right -/
@[elab_as_elim] theorem snoc_induction {α : Type} {P : List α → Prop} (nil : P [])
    (append_singleton : ∀ l a, P l → P (l ++ [a])) : ∀ l, P l := by
  have h : ∀ l : List α, P l.reverse := by
    intro l
    induction l with
    | nil => exact nil
    | cons a r ih => rw [List.reverse_cons]; exact append_singleton _ _ ih
  intro l
  have := h l.reverse
  rwa [List.reverse_reverse] at this

theorem run_append (s : St β) (a b : List (Ev β)) :
    run s (a ++ b) = (run s a).bind (fun s1 => run s1 b) := by
  induction a generalizing s with
  | nil => simp [run]
  | cons ev r ih =>
    simp only [List.cons_append, run]
    split
    · exact ih _
    · rfl

theorem run_snoc {s s2 : St β} {pre : List (Ev β)} {ev : Ev β} :
    run s (pre ++ [ev]) = some s2 ↔ ∃ s1, run s pre = some s1 ∧ step s1 ev = .ok s2 := by
  rw [run_append]
  cases hr : run s pre with
  | none => simp
  | some s1 =>
    simp only [Option.bind_some, run, Option.some.injEq, exists_eq_left']
    cases hs : step s1 ev with
    | ok s3 => simp
    | error w => simp

/-- a prefix of an accepted trace is accepted -/
theorem run_prefix {s s2 : St β} {a b : List (Ev β)} (h : run s (a ++ b) = some s2) :
    ∃ s1, run s a = some s1 ∧ run s1 b = some s2 := by
  rw [run_append] at h
  cases hr : run s a with
  | none => rw [hr] at h; cases h
  | some s1 => rw [hr] at h; exact ⟨s1, rfl, h⟩

theorem lastB_snoc (b : β) (pre : List (Ev β)) (ev : Ev β) :
    lastB b (pre ++ [ev]) = if ev.lifeB b then some ev else lastB b pre := by
  unfold lastB
  rw [List.filter_append]
  by_cases h : ev.lifeB b = true
  · simp [List.filter, h]
  · simp [List.filter, h]

theorem lastE_snoc (e : Nat) (pre : List (Ev β)) (ev : Ev β) :
    lastE e (pre ++ [ev]) = if ev.lifeE e then some ev else lastE e pre := by
  unfold lastE
  rw [List.filter_append]
  by_cases h : ev.lifeE e = true
  · simp [List.filter, h]
  · simp [List.filter, h]

@[simp] theorem lastB_nil (b : β) : lastB b ([] : List (Ev β)) = none := rfl
@[simp] theorem lastE_nil (e : Nat) : lastE e ([] : List (Ev β)) = none := rfl

/-- **the monitor's block table is the trace's set of open blocks** -/
theorem state_blocks {pre : List (Ev β)} : ∀ {s : St β}, run St.init pre = some s →
    ∀ b m n, findB b s.blocks = some (m, n) ↔ OpenAs b m n pre := by
  induction pre using snoc_induction with
  | nil =>
    intro s h b m n
    simp only [run, Option.some.injEq] at h
    subst h
    simp [St.init, findB, OpenAs]
  | append_singleton pre ev ih =>
    intro s2 h b m n
    obtain ⟨s1, h1, hs⟩ := run_snoc.mp h
    have ih1 := ih h1 b m n
    rw [step_findB hs b]
    unfold OpenAs at ih1 ⊢
    rw [lastB_snoc]
    cases ev with
    | alloc m' b' n' =>
      by_cases hb : b' = b
      · subst hb; simp [Ev.lifeB]
      · simp [Ev.lifeB, hb, ih1]
    | dealloc m' b' n' =>
      by_cases hb : b' = b
      · subst hb; simp [Ev.lifeB]
      · simp [Ev.lifeB, hb, ih1]
    | construct e => simpa [Ev.lifeB] using ih1
    | destroy e => simpa [Ev.lifeB] using ih1
    | relocate a d => simpa [Ev.lifeB] using ih1
    | use e => simpa [Ev.lifeB] using ih1
    | touch b' off len => simpa [Ev.lifeB] using ih1

/-- **the monitor's element set is the trace's set of live elements** -/
theorem state_elems {pre : List (Ev β)} : ∀ {s : St β}, run St.init pre = some s →
    ∀ e, memE e s.elems = true ↔ Alive e pre := by
  induction pre using snoc_induction with
  | nil =>
    intro s h e
    simp only [run, Option.some.injEq] at h
    subst h
    simp [St.init, memE, Alive]
  | append_singleton pre ev ih =>
    intro s2 h e
    obtain ⟨s1, h1, hs⟩ := run_snoc.mp h
    have ih1 := ih h1 e
    have hok := (step_ok_iff s1 ev).mp ⟨s2, hs⟩
    rw [step_memE hs e]
    unfold Alive at ih1 ⊢
    rw [lastE_snoc]
    cases ev with
    | alloc m' b' n' => simpa [Ev.lifeE, Ev.begins, Ev.ends] using ih1
    | dealloc m' b' n' => simpa [Ev.lifeE, Ev.begins, Ev.ends] using ih1
    | construct e' =>
      by_cases hb : e' = e
      · subst hb; simp [Ev.lifeE, Ev.begins, Ev.ends]
      · simpa [Ev.lifeE, Ev.begins, Ev.ends, hb] using ih1
    | destroy e' =>
      by_cases hb : e' = e
      · subst hb; simp [Ev.lifeE, Ev.begins, Ev.ends]
      · simpa [Ev.lifeE, Ev.begins, Ev.ends, hb] using ih1
    | relocate a d =>
      obtain ⟨had, _, _⟩ := hok
      by_cases hd : d = e
      · subst hd; simp [Ev.lifeE, Ev.begins, Ev.ends, had]
      · by_cases ha : a = e
        · subst ha; simp [Ev.lifeE, Ev.begins, Ev.ends, hd]
        · simpa [Ev.lifeE, Ev.begins, Ev.ends, hd, ha] using ih1
    | use e' => simpa [Ev.lifeE, Ev.begins, Ev.ends] using ih1
    | touch b' off len => simpa [Ev.lifeE, Ev.begins, Ev.ends] using ih1

theorem state_open {pre : List (Ev β)} {s : St β} (h : run St.init pre = some s) (b : β) :
    findB b s.blocks = none ↔ ¬ Open b pre := by
  constructor
  · intro hn ⟨m, n, ho⟩
    rw [(state_blocks h b m n).mpr ho] at hn; cases hn
  · intro hn
    cases hf : findB b s.blocks with
    | none => rfl
    | some p => exact absurd ⟨p.1, p.2, (state_blocks h b p.1 p.2).mp hf⟩ hn

theorem state_dead {pre : List (Ev β)} {s : St β} (h : run St.init pre = some s) (e : Nat) :
    memE e s.elems = false ↔ ¬ Alive e pre := by
  rw [← state_elems h e]; cases memE e s.elems <;> simp

/-- the monitor accepts the next event iff the specification admits it -/
theorem stepOK_iff_admissible {pre : List (Ev β)} {s : St β} (h : run St.init pre = some s) (ev : Ev β) :
    StepOK s ev ↔ Admissible pre ev := by
  cases ev with
  | alloc m b n => exact state_open h b
  | dealloc m b n => exact state_blocks h b m n
  | construct e => exact state_dead h e
  | destroy e => exact state_elems h e
  | relocate a d =>
    simp only [StepOK, Admissible]
    rw [state_elems h a, state_dead h d]
  | use e => exact state_elems h e
  | touch b off len =>
    simp only [StepOK, Admissible]
    constructor
    · rintro ⟨m, n, hf, hle⟩; exact ⟨m, n, (state_blocks h b m n).mp hf, hle⟩
    · rintro ⟨m, n, hf, hle⟩; exact ⟨m, n, (state_blocks h b m n).mpr hf, hle⟩

/-- **soundness of the monitor**: an accepted trace is disciplined -/
theorem disciplined_of_run {tr : List (Ev β)} {s : St β} (h : run St.init tr = some s) : Disciplined tr := by
  intro pre ev post htr
  subst htr
  obtain ⟨s1, h1, h2⟩ := run_prefix h
  simp only [run] at h2
  cases hs : step s1 ev with
  | error w => rw [hs] at h2; cases h2
  | ok s2 => exact (stepOK_iff_admissible h1 ev).mp ((step_ok_iff s1 ev).mp ⟨s2, hs⟩)

theorem Disciplined.prefix {a b : List (Ev β)} (h : Disciplined (a ++ b)) : Disciplined a := by
  intro pre ev post htr
  exact h pre ev (post ++ b) (by rw [htr]; simp)

/-- **completeness of the monitor**: a disciplined trace is accepted -/
theorem run_of_disciplined {tr : List (Ev β)} (h : Disciplined tr) : ∃ s, run St.init tr = some s := by
  induction tr using snoc_induction with
  | nil => exact ⟨St.init, rfl⟩
  | append_singleton pre ev ih =>
    obtain ⟨s1, h1⟩ := ih h.prefix
    have hadm : Admissible pre ev := h pre ev [] rfl
    obtain ⟨s2, hs⟩ := (step_ok_iff s1 ev).mpr ((stepOK_iff_admissible h1 ev).mpr hadm)
    exact ⟨s2, run_snoc.mpr ⟨s1, h1, hs⟩⟩

/-- the final state is clean iff the trace leaves nothing open / alive -/
theorem clean_iff_nothingLeft {tr : List (Ev β)} {s : St β} (h : run St.init tr = some s) :
    s.clean = true ↔ NothingLeft tr := by
  unfold St.clean NothingLeft
  constructor
  · intro hc
    simp only [Bool.and_eq_true, List.isEmpty_iff] at hc
    refine ⟨fun b => (state_open h b).mp (by rw [hc.1]; rfl), fun e => (state_dead h e).mp (by rw [hc.2]; rfl)⟩
  · rintro ⟨hb, he⟩
    have h1 : s.blocks = [] := findB_none_of_nil (fun b => (state_open h b).mpr (hb b))
    have h2 : s.elems = [] := memE_false_of_nil (fun e => (state_dead h e).mpr (he e))
    simp [h1, h2]

end Momo.Ledger
