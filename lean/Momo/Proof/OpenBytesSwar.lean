import Momo.Proof.OpenBytesFind
/-!
  `BucketOpen8::Find` (model `Momo.OpenB`): the 64-bit SWAR expression as written in HashBucketOpen8.h, proved lane by lane for
  every 8-byte word and every short-hash byte (`swar_lanes`, `swarMask_eq`: the borrow of `x - 0x01…01` runs through a matching
  lane, so a lane is flagged iff it matches or it differs in bit 0 only and the lane below is flagged); the candidate loops
  (`ctz`, `mask &= mask - 1`) of both variants enumerate the flagged lanes in ascending order; the SSE2 variant visits exactly the
  candidates of the scalar loop; the SWAR variant visits a superset whose extra members are occupied slots and are rejected by
  every consistent predicate. Core Lean only.
-/
namespace Momo.OpenB

/-- little-endian value of a list of byte lanes -/
def ofLanes : List Nat → Nat
  | [] => 0
  | x :: xs => x + 256 * ofLanes xs

def AllBytes (xs : List Nat) : Prop := ∀ x ∈ xs, x < 256

theorem ofLanes_lt : ∀ (xs : List Nat), AllBytes xs → ofLanes xs < 256 ^ xs.length
  | [], _ => by simp [ofLanes]
  | x :: xs, h => by
    have hx : x < 256 := h x (by simp)
    have ih := ofLanes_lt xs (fun y hy => h y (by simp [hy]))
    simp only [ofLanes, List.length_cons, Nat.pow_succ]
    generalize 256 ^ xs.length = P at *
    omega

theorem and_split (a b : Nat) : a &&& b = ((a % 256) &&& (b % 256)) + 256 * ((a / 256) &&& (b / 256)) := by
  have h1 : (a &&& b) % 2 ^ 8 = a % 2 ^ 8 &&& b % 2 ^ 8 := Nat.and_mod_two_pow
  have h2 : (a &&& b) / 2 ^ 8 = a / 2 ^ 8 &&& b / 2 ^ 8 := Nat.and_div_two_pow
  have h3 := Nat.mod_add_div (a &&& b) 256
  rw [show (2:Nat) ^ 8 = 256 from rfl] at h1 h2
  rw [← h1, ← h2]; exact h3.symm

theorem xor_split (a b : Nat) : a ^^^ b = ((a % 256) ^^^ (b % 256)) + 256 * ((a / 256) ^^^ (b / 256)) := by
  have h1 : (a ^^^ b) % 2 ^ 8 = a % 2 ^ 8 ^^^ b % 2 ^ 8 := Nat.xor_mod_two_pow
  have h2 : (a ^^^ b) / 2 ^ 8 = a / 2 ^ 8 ^^^ b / 2 ^ 8 := Nat.xor_div_two_pow
  have h3 := Nat.mod_add_div (a ^^^ b) 256
  rw [show (2:Nat) ^ 8 = 256 from rfl] at h1 h2
  rw [← h1, ← h2]; exact h3.symm

theorem lane_mod (x X : Nat) (hx : x < 256) : (x + 256 * X) % 256 = x := by omega
theorem lane_div (x X : Nat) (hx : x < 256) : (x + 256 * X) / 256 = X := by omega

/-- xor acts lane by lane -/
theorem xor_ofLanes : ∀ (xs ys : List Nat), xs.length = ys.length → AllBytes xs → AllBytes ys →
    ofLanes xs ^^^ ofLanes ys = ofLanes (List.zipWith (· ^^^ ·) xs ys)
  | [], [], _, _, _ => by simp [ofLanes]
  | [], _ :: _, h, _, _ => by simp at h
  | _ :: _, [], h, _, _ => by simp at h
  | x :: xs, y :: ys, h, hx, hy => by
    have hx0 : x < 256 := hx x (by simp)
    have hy0 : y < 256 := hy y (by simp)
    have ih := xor_ofLanes xs ys (by simpa using h) (fun z hz => hx z (by simp [hz])) (fun z hz => hy z (by simp [hz]))
    simp only [ofLanes, List.zipWith_cons_cons]
    rw [xor_split, lane_mod _ _ hx0, lane_mod _ _ hy0, lane_div _ _ hx0, lane_div _ _ hy0, ih]

/-- value of one lane of `(x - 0x01…01) & ~x & m` with borrow `bi` coming in -/
def lv (x bi m : Nat) : Nat := ((x + 256 - 1 - bi) % 256) &&& (255 - x) &&& m
/-- borrow out of a lane of `x - 0x01…01` -/
def bo (x bi : Nat) : Nat := if x < 1 + bi then 1 else 0

/-- the lanes the generalised zero-byte test yields: lane value and borrow into the next lane -/
def swarLanes : List Nat → List Nat → Nat → List Nat
  | x :: xs, m :: ms, bi => lv x bi m :: swarLanes xs ms (bo x bi)
  | _, _, _ => []

/-- **the subtraction / complement / mask expression, lane by lane** (n lanes, borrow `bi` into lane 0) -/
theorem swar_lanes : ∀ (xs ms : List Nat) (bi : Nat), xs.length = ms.length → AllBytes xs → AllBytes ms → bi ≤ 1 →
    ((ofLanes xs + 256 ^ xs.length - ofLanes (List.replicate xs.length 1) - bi) % 256 ^ xs.length)
      &&& (256 ^ xs.length - 1 - ofLanes xs) &&& ofLanes ms = ofLanes (swarLanes xs ms bi)
  | [], [], bi, _, _, _, _ => by simp [ofLanes, swarLanes, Nat.mod_one]
  | [], _ :: _, _, h, _, _, _ => by simp at h
  | _ :: _, [], _, h, _, _, _ => by simp at h
  | x :: xs, m :: ms, bi, h, hx, hm, hb => by
    have hx0 : x < 256 := hx x (by simp)
    have hm0 : m < 256 := hm m (by simp)
    have hxs : AllBytes xs := fun z hz => hx z (by simp [hz])
    have hms : AllBytes ms := fun z hz => hm z (by simp [hz])
    have ih := swar_lanes xs ms (bo x bi) (by simpa using h) hxs hms (by unfold bo; split <;> omega)
    unfold bo at ih
    have hX := ofLanes_lt xs hxs
    have hK : ofLanes (List.replicate xs.length 1) < 256 ^ xs.length := by
      have := ofLanes_lt (List.replicate xs.length 1) (fun z hz => by rw [List.mem_replicate] at hz; omega)
      simpa using this
    simp only [List.length_cons, List.replicate_succ, ofLanes, swarLanes, Nat.pow_succ, lv, bo]
    rw [← ih]
    generalize ofLanes xs = X at *
    generalize ofLanes (List.replicate xs.length 1) = K at *
    generalize ofLanes ms = M at *
    generalize 256 ^ xs.length = P at *
    have hP : 0 < P := by omega
    rw [and_split, and_split ((x + 256 * X + P * 256 - (1 + 256 * K) - bi) % (P * 256))]
    have a1 : (x + 256 * X + P * 256 - (1 + 256 * K) - bi) % (P * 256) % 256 = (x + 256 - 1 - bi) % 256 := by
      rw [Nat.mod_mod_of_dvd _ (Nat.dvd_mul_left 256 P)]
      omega
    have a2 : (x + 256 * X + P * 256 - (1 + 256 * K) - bi) % (P * 256) / 256
        = (X + P - K - (if x < 1 + bi then 1 else 0)) % P := by
      rw [Nat.mul_comm P 256, Nat.mod_mul_right_div_self]
      congr 1
      split <;> omega
    have b1 : (P * 256 - 1 - (x + 256 * X)) % 256 = 255 - x := by omega
    have b2 : (P * 256 - 1 - (x + 256 * X)) / 256 = P - 1 - X := by omega
    have c1 : (m + 256 * M) % 256 = m := by omega
    have c2 : (m + 256 * M) / 256 = M := by omega
    rw [a1, a2, b1, b2, c1, c2]
    have d3 : ∀ (u v : Nat), u < 256 → (u + 256 * v) % 256 = u := fun u v hu => by omega
    have d4 : ∀ (u v : Nat), u < 256 → (u + 256 * v) / 256 = v := fun u v hu => by omega
    have hl : (x + 256 - 1 - bi) % 256 &&& (255 - x) < 256 := Nat.lt_of_le_of_lt Nat.and_le_right (by omega)
    rw [d3 _ _ hl, d4 _ _ hl]

def b2n (f : Bool) : Nat := if f then 1 else 0

theorem lv_128 : ∀ x, x < 256 → ∀ bi, bi < 2 → lv x bi 128 = 128 * bo x bi := by
  unfold lv bo; decide +kernel

theorem lv_0 (x bi : Nat) : lv x bi 0 = 0 := by unfold lv; exact Nat.and_zero _

theorem xor_cancel (a b : Nat) : (a ^^^ b) ^^^ b = a := by
  rw [Nat.xor_assoc, Nat.xor_self, Nat.xor_zero]

theorem xor_eq_zero (a b : Nat) : (a ^^^ b == 0) = (a == b) := by
  by_cases h : a = b
  · subst h; simp
  · have : a ^^^ b ≠ 0 := by
      intro e
      apply h
      have h2 := xor_cancel a b
      rw [e, Nat.zero_xor] at h2
      exact h2.symm
    rw [beq_eq_false_iff_ne.mpr this, beq_eq_false_iff_ne.mpr h]

theorem xor_eq_one (a b : Nat) : (a ^^^ b == 1) = (a == b ^^^ 1) := by
  by_cases h : a = b ^^^ 1
  · subst h
    have : b ^^^ 1 ^^^ b = 1 := by rw [Nat.xor_comm b 1, xor_cancel]
    rw [this]; simp
  · have : a ^^^ b ≠ 1 := by
      intro e
      apply h
      have h2 := xor_cancel a b
      rw [e, Nat.xor_comm] at h2
      exact h2.symm
    rw [beq_eq_false_iff_ne.mpr this, beq_eq_false_iff_ne.mpr h]

/-- borrow out of a lane of the xor word = "the lane is flagged" -/
theorem bo_flag (d sh : Nat) (f : Bool) :
    bo (d ^^^ sh) (b2n f) = b2n ((d == sh) || ((d == sh ^^^ 1) && f)) := by
  rw [← xor_eq_zero, ← xor_eq_one]
  generalize d ^^^ sh = x
  unfold bo b2n
  cases f <;> simp <;> split <;> split <;> first | rfl | omega

/-- lane `j` of the SWAR mask is flagged iff its byte equals the short hash, or it equals `shortHash ^ 1` and lane `j - 1` is
    flagged (the borrow of the 64-bit subtraction runs through a matching lane into a lane that differs in bit 0 only) -/
def swarFlag (sh : Nat) (d : Nat → Nat) : Nat → Bool
  | 0 => d 0 == sh
  | j+1 => (d (j+1) == sh) || ((d (j+1) == sh ^^^ 1) && swarFlag sh d j)

theorem word8_eq (d : Nat → Nat) : word8 d = ofLanes [d 0, d 1, d 2, d 3, d 4, d 5, d 6, d 7] := by
  simp [word8, ofLanes]

theorem broadcast_eq (sh : Nat) (hsh : sh < 256) :
    (sh * Extracted.open8SwarOnes) % 2 ^ 64 = ofLanes (List.replicate 8 sh) := by
  simp only [Extracted.open8SwarOnes, List.replicate, ofLanes]
  omega

/-- **the 64-bit SWAR expression of `BucketOpen8::Find`, for every 8-byte word and every short hash byte**:
    its value is exactly bit `8j + 7` for every flagged lane `j < 7` (lane 7, the max-probe byte, is masked out) -/
theorem swarMask_eq (sh : Nat) (hsh : sh < 256) (d : Nat → Nat) (hd : ∀ j, j < 8 → d j < 256) :
    swarMask sh (word8 d) =
      ofLanes [128 * b2n (swarFlag sh d 0), 128 * b2n (swarFlag sh d 1), 128 * b2n (swarFlag sh d 2),
               128 * b2n (swarFlag sh d 3), 128 * b2n (swarFlag sh d 4), 128 * b2n (swarFlag sh d 5),
               128 * b2n (swarFlag sh d 6), 0] := by
  have hds : AllBytes [d 0, d 1, d 2, d 3, d 4, d 5, d 6, d 7] := by
    intro x hx
    simp only [List.mem_cons, List.not_mem_nil, or_false] at hx
    rcases hx with rfl | rfl | rfl | rfl | rfl | rfl | rfl | rfl <;> exact hd _ (by decide)
  have hss : AllBytes (List.replicate 8 sh) := fun z hz => by rw [List.mem_replicate] at hz; omega
  have hx := xor_ofLanes (List.replicate 8 sh) [d 0, d 1, d 2, d 3, d 4, d 5, d 6, d 7] rfl hss hds
  have hxb : AllBytes (List.zipWith (· ^^^ ·) (List.replicate 8 sh) [d 0, d 1, d 2, d 3, d 4, d 5, d 6, d 7]) := by
    intro x hx
    simp only [List.replicate, List.zipWith_cons_cons, List.zipWith_nil_right, List.mem_cons, List.not_mem_nil, or_false] at hx
    rcases hx with rfl | rfl | rfl | rfl | rfl | rfl | rfl | rfl <;>
      exact Nat.xor_lt_two_pow (n := 8) hsh (hd _ (by decide))
  have hm : AllBytes [128, 128, 128, 128, 128, 128, 128, 0] := by
    intro x hx; simp at hx; omega
  have hl := swar_lanes (List.zipWith (· ^^^ ·) (List.replicate 8 sh) [d 0, d 1, d 2, d 3, d 4, d 5, d 6, d 7])
    [128, 128, 128, 128, 128, 128, 128, 0] 0 rfl hxb hm (by decide)
  unfold swarMask
  rw [broadcast_eq sh hsh, word8_eq, hx]
  have e1 : Extracted.open8SwarOnesSub = ofLanes (List.replicate 8 1) := by decide
  have e2 : Extracted.open8SwarHigh = ofLanes [128, 128, 128, 128, 128, 128, 128, 0] := by decide
  have e3 : (2 : Nat) ^ 64 = 256 ^ 8 := by decide
  rw [e1, e2, e3]
  have hlen : (List.zipWith (· ^^^ ·) (List.replicate 8 sh) [d 0, d 1, d 2, d 3, d 4, d 5, d 6, d 7]).length = 8 := rfl
  rw [hlen, Nat.sub_zero] at hl
  rw [hl]
  simp only [List.replicate, List.zipWith_cons_cons, List.zipWith_nil_right, swarLanes]
  have f0 : bo (sh ^^^ d 0) 0 = b2n (swarFlag sh d 0) := by
    have := bo_flag (d 0) sh false
    simpa [b2n, swarFlag, Nat.xor_comm] using this
  have fs : ∀ j, bo (sh ^^^ d (j+1)) (b2n (swarFlag sh d j)) = b2n (swarFlag sh d (j+1)) := by
    intro j
    have := bo_flag (d (j+1)) sh (swarFlag sh d j)
    rw [Nat.xor_comm]; rw [this]; rfl
  have hb : ∀ (f : Bool), b2n f < 2 := by intro f; cases f <;> decide
  have hxj : ∀ j, j < 8 → sh ^^^ d j < 256 := fun j hj => Nat.xor_lt_two_pow (n := 8) hsh (hd j hj)
  rw [lv_128 _ (hxj 0 (by decide)) 0 (by decide), f0,
      lv_128 _ (hxj 1 (by decide)) _ (hb _), fs 0,
      lv_128 _ (hxj 2 (by decide)) _ (hb _), fs 1,
      lv_128 _ (hxj 3 (by decide)) _ (hb _), fs 2,
      lv_128 _ (hxj 4 (by decide)) _ (hb _), fs 3,
      lv_128 _ (hxj 5 (by decide)) _ (hb _), fs 4,
      lv_128 _ (hxj 6 (by decide)) _ (hb _), fs 5, lv_0]

/-! ### the candidate loops -/

theorem swarLoop_eq (pred : Nat → Bool) : ∀ fuel mask, swarLoop pred fuel mask = (swarPositions fuel mask).find? pred := by
  intro fuel
  induction fuel with
  | zero => intro mask; rfl
  | succ n ih =>
    intro mask
    unfold swarLoop swarPositions
    by_cases h0 : mask = 0
    · simp [h0]
    · simp only [h0, if_false, List.find?_cons]
      by_cases hp : pred (ctz 64 mask >>> Extracted.open8SwarIndexShift) = true
      · simp [hp]
      · have hp' : pred (ctz 64 mask >>> Extracted.open8SwarIndexShift) = false := by simpa using hp
        simp only [hp', Bool.false_eq_true, if_false]
        exact ih _

theorem sseLoop_eq (pred : Nat → Bool) : ∀ fuel mask, sseLoop pred fuel mask = (ssePositions fuel mask).find? pred := by
  intro fuel
  induction fuel with
  | zero => intro mask; rfl
  | succ n ih =>
    intro mask
    unfold sseLoop ssePositions
    by_cases h0 : mask = 0
    · simp [h0]
    · simp only [h0, if_false, List.find?_cons]
      by_cases hp : pred (ctz 32 mask) = true
      · simp [hp]
      · have hp' : pred (ctz 32 mask) = false := by simpa using hp
        simp only [hp', Bool.false_eq_true, if_false]
        exact ih _

/-- the `ctz(mask) >> 3`, `mask &= mask - 1` loop enumerates the flagged lanes in ascending order (all 128 flag vectors) -/
theorem swarPositions_flags : ∀ f0 f1 f2 f3 f4 f5 f6 : Bool,
    swarPositions 64 (ofLanes [128 * b2n f0, 128 * b2n f1, 128 * b2n f2, 128 * b2n f3, 128 * b2n f4, 128 * b2n f5,
      128 * b2n f6, 0]) = (List.range 7).filter (fun j => [f0, f1, f2, f3, f4, f5, f6].getD j false) := by
  decide +kernel

/-- the same for the SSE2 variant: `ctz(mask)`, `mask &= mask - 1` on the 7-bit movemask -/
theorem ssePositions_flags : ∀ f0 f1 f2 f3 f4 f5 f6 : Bool,
    ssePositions 32 (b2n f0 + 2 * b2n f1 + 4 * b2n f2 + 8 * b2n f3 + 16 * b2n f4 + 32 * b2n f5 + 64 * b2n f6)
      = (List.range 7).filter (fun j => [f0, f1, f2, f3, f4, f5, f6].getD j false) := by
  decide +kernel

/-- the table of `pvCountTrailingZeros15` is count-trailing-zeros on its whole domain -/
theorem ctzTab15_eq : ∀ m, m < 128 → 0 < m → ctzTab15 m = ctz 32 m := by decide +kernel

theorem filter_range7 (p q : Nat → Bool) (h : ∀ j, j < 7 → p j = q j) :
    (List.range 7).filter p = (List.range 7).filter q := by
  apply List.filter_congr
  intro j hj
  exact h j (List.mem_range.mp hj)

theorem calcShortHash_lt256 (h : Nat) : calcShortHash h < 256 := by
  unfold calcShortHash u8; exact Nat.mod_lt _ (by decide)

/-- **`BucketOpen8::Find` without SSE2** = first flagged lane, in ascending order, that satisfies the predicate -/
theorem find8swar_eq (b : Bucket) (h : Nat) (pred : Nat → Bool) (hd : ∀ j, j < 8 → b.data j < 256) :
    b.find8swar h pred = ((List.range 7).filter (swarFlag (calcShortHash h) b.data)).find? pred ∧
    swarPositions 64 (swarMask (calcShortHash h) (word8 b.data)) = (List.range 7).filter (swarFlag (calcShortHash h) b.data) := by
  have hp : swarPositions 64 (swarMask (calcShortHash h) (word8 b.data))
      = (List.range 7).filter (swarFlag (calcShortHash h) b.data) := by
    rw [swarMask_eq _ (calcShortHash_lt256 h) _ hd, swarPositions_flags]
    apply filter_range7
    intro j hj
    have : j = 0 ∨ j = 1 ∨ j = 2 ∨ j = 3 ∨ j = 4 ∨ j = 5 ∨ j = 6 := by omega
    rcases this with rfl | rfl | rfl | rfl | rfl | rfl | rfl <;> rfl
  refine ⟨?_, hp⟩
  unfold Bucket.find8swar
  rw [swarLoop_eq, hp]

/-- the movemask of the SSE2 variant restricted to the item lanes -/
theorem sseMask_eq (sh : Nat) (d : Nat → Nat) :
    sseMask sh d = b2n (d 0 == sh) + 2 * b2n (d 1 == sh) + 4 * b2n (d 2 == sh) + 8 * b2n (d 3 == sh) + 16 * b2n (d 4 == sh)
      + 32 * b2n (d 5 == sh) + 64 * b2n (d 6 == sh) := by
  unfold sseMask
  have e : (2 : Nat) ^ Extracted.open8MaxCount - 1 = 2 ^ 7 - 1 := rfl
  rw [e, Nat.and_two_pow_sub_one_eq_mod]
  have hb : ∀ (c : Bool) (k : Nat), (if c = true then k else 0) = k * b2n c := by
    intro c k; cases c <;> simp [b2n]
  simp only [List.range, List.range.loop, List.foldr, hb]
  have hle : ∀ (c : Bool), b2n c ≤ 1 := by intro c; cases c <;> decide
  simp only [show (0 < 8) = True from by decide, show (1 < 8) = True from by decide, show (2 < 8) = True from by decide,
    show (3 < 8) = True from by decide, show (4 < 8) = True from by decide, show (5 < 8) = True from by decide,
    show (6 < 8) = True from by decide, show (7 < 8) = True from by decide, show (8 < 8) = False from by decide,
    show (9 < 8) = False from by decide, show (10 < 8) = False from by decide, show (11 < 8) = False from by decide,
    show (12 < 8) = False from by decide, show (13 < 8) = False from by decide, show (14 < 8) = False from by decide,
    show (15 < 8) = False from by decide, if_true, if_false]
  have h0 := hle (d 0 == sh); have h1 := hle (d 1 == sh); have h2 := hle (d 2 == sh); have h3 := hle (d 3 == sh)
  have h4 := hle (d 4 == sh); have h5 := hle (d 5 == sh); have h6 := hle (d 6 == sh); have h7 := hle (d 7 == sh)
  have h8 := hle ((0 : Nat) == sh)
  generalize b2n (d 0 == sh) = t0 at *
  generalize b2n (d 1 == sh) = t1 at *
  generalize b2n (d 2 == sh) = t2 at *
  generalize b2n (d 3 == sh) = t3 at *
  generalize b2n (d 4 == sh) = t4 at *
  generalize b2n (d 5 == sh) = t5 at *
  generalize b2n (d 6 == sh) = t6 at *
  generalize b2n (d 7 == sh) = t7 at *
  generalize b2n ((0 : Nat) == sh) = t8 at *
  simp only [show (2:Nat) ^ 0 = 1 from rfl, show (2:Nat) ^ 1 = 2 from rfl, show (2:Nat) ^ 2 = 4 from rfl, show (2:Nat) ^ 3 = 8 from rfl,
    show (2:Nat) ^ 4 = 16 from rfl, show (2:Nat) ^ 5 = 32 from rfl, show (2:Nat) ^ 6 = 64 from rfl, show (2:Nat) ^ 7 = 128 from rfl,
    show (2:Nat) ^ 8 = 256 from rfl, show (2:Nat) ^ 9 = 512 from rfl, show (2:Nat) ^ 10 = 1024 from rfl, show (2:Nat) ^ 11 = 2048 from rfl,
    show (2:Nat) ^ 12 = 4096 from rfl, show (2:Nat) ^ 13 = 8192 from rfl, show (2:Nat) ^ 14 = 16384 from rfl, show (2:Nat) ^ 15 = 32768 from rfl]
  omega

/-- **`BucketOpen8::Find` with SSE2** = first lane `j < 7` whose byte equals the short hash, in ascending order, that satisfies the
    predicate: exactly the candidates of the scalar loop of `BucketOpenN1<., 7, false>::Find`, in the same order -/
theorem find8sse_eq (b : Bucket) (h : Nat) (pred : Nat → Bool) :
    b.find8sse h pred = (candsN1 b.data (calcShortHash h) 7).find? pred ∧
    ssePositions 32 (sseMask (calcShortHash h) b.data) = candsN1 b.data (calcShortHash h) 7 := by
  have hp : ssePositions 32 (sseMask (calcShortHash h) b.data) = candsN1 b.data (calcShortHash h) 7 := by
    rw [sseMask_eq, ssePositions_flags]
    unfold candsN1
    apply filter_range7
    intro j hj
    have : j = 0 ∨ j = 1 ∨ j = 2 ∨ j = 3 ∨ j = 4 ∨ j = 5 ∨ j = 6 := by omega
    rcases this with rfl | rfl | rfl | rfl | rfl | rfl | rfl <;> rfl
  refine ⟨?_, hp⟩
  unfold Bucket.find8sse
  rw [sseLoop_eq, hp]

/-! ### SWAR candidates against the exact ones -/

theorem exact_imp_flag (sh : Nat) (d : Nat → Nat) (j : Nat) (h : (d j == sh) = true) : swarFlag sh d j = true := by
  cases j with
  | zero => exact h
  | succ k => simp [swarFlag, h]

theorem flag_imp (sh : Nat) (d : Nat → Nat) (j : Nat) (h : swarFlag sh d j = true) : d j = sh ∨ d j = sh ^^^ 1 := by
  cases j with
  | zero => left; simpa [swarFlag] using h
  | succ k =>
    simp only [swarFlag, Bool.or_eq_true, Bool.and_eq_true, beq_iff_eq] at h
    rcases h with h | h
    · exact Or.inl h
    · exact Or.inr h.1

/-- a false candidate needs a flagged lane right below it: the lowest flagged lane always is an exact match -/
theorem flag_first_exact (sh : Nat) (d : Nat → Nat) (j : Nat) (h : swarFlag sh d j = true)
    (hlow : ∀ i, i < j → swarFlag sh d i = false) : d j = sh := by
  cases j with
  | zero => simpa [swarFlag] using h
  | succ k =>
    simp only [swarFlag, Bool.or_eq_true, Bool.and_eq_true, beq_iff_eq] at h
    rcases h with h | h
    · exact h
    · rw [hlow k (by omega)] at h; cases h.2

/-- a lane that differs from the short hash in bit 0 only is flagged iff the lane below is flagged -/
theorem flag_false_positive (sh : Nat) (d : Nat → Nat) (k : Nat) (hne : d (k+1) ≠ sh) :
    swarFlag sh d (k+1) = ((d (k+1) == sh ^^^ 1) && swarFlag sh d k) := by
  simp [swarFlag, hne]

theorem find?_filter_of_imp (l : List Nat) (p q : Nat → Bool) (h : ∀ x ∈ l, p x = true → q x = true) :
    (l.filter q).find? p = l.find? p := by
  induction l with
  | nil => rfl
  | cons a l ih =>
    have ih' := ih (fun x hx => h x (List.mem_cons_of_mem _ hx))
    rw [List.filter_cons]
    by_cases hq : q a = true
    · rw [if_pos hq, List.find?_cons, List.find?_cons, ih']
    · rw [if_neg hq, List.find?_cons, ih']
      have : p a = false := by
        cases hp : p a with
        | false => rfl
        | true => exact absurd (h a (by simp) hp) hq
      rw [this]

/-- the exact candidates are the flagged lanes that really match -/
theorem cands7_eq_filter (sh : Nat) (d : Nat → Nat) :
    candsN1 d sh 7 = ((List.range 7).filter (swarFlag sh d)).filter (fun j => d j == sh) := by
  unfold candsN1
  rw [List.filter_filter]
  apply List.filter_congr
  intro j _
  cases hj : (d j == sh) with
  | false => simp
  | true => simp [exact_imp_flag sh d j hj]

theorem xor1_lt : ∀ s, s < 248 → s ^^^ 1 < 248 := by decide +kernel

section open8
variable {b : Bucket} {hs : List Nat}

theorem inv_data_lt (hI : b.Inv hs) (j : Nat) (hj : j < b.maxCount) : b.data j < 256 := by
  obtain ⟨h0, h8, hl, hh, hd⟩ := hI
  rw [hd j hj]
  unfold expByte
  simp only [Extracted.openN1MaxCountLimit, emptyShortHash, Extracted.openN1EmptyShortHash] at h8 ⊢
  split
  · exact calcShortHash_lt256 _
  · split <;> omega

/-- in a reachable bucket every lane the SWAR mask flags — the false candidates included — holds an item:
    an unoccupied lane holds 248 .. 254, the short hash and its bit-0 neighbour are below 248 -/
theorem flag_occupied (hI : b.Inv hs) (h : Nat) (hh : h < 2 ^ 64) (j : Nat) (hj : j < b.maxCount)
    (hf : swarFlag (calcShortHash h) b.data j = true) : phys b.maxCount b.reverse j < hs.length := by
  have hlt := calcShortHash_lt h hh
  have hx := xor1_lt _ hlt
  have hd := hI.2.2.2.2 j hj
  unfold expByte at hd
  rcases flag_imp _ _ _ hf with e | e <;>
  · rw [e] at hd
    simp only [emptyShortHash, Extracted.openN1EmptyShortHash] at hd hlt
    by_cases c : phys b.maxCount b.reverse j < hs.length
    · exact c
    · rw [if_neg c] at hd
      split at hd <;> omega

/-- **with a consistent predicate the SWAR search returns what the scalar scan returns**: if the predicate can only hold on
    slots whose short-hash byte matches (equal keys have equal hash codes), the false candidates are rejected and both
    searches yield the same slot -/
theorem find8swar_eq_findN1 (hmc : b.maxCount = 7) (hbytes : ∀ j, j < 8 → b.data j < 256) (h : Nat) (pred : Nat → Bool)
    (hcons : ∀ j, j < 7 → pred j = true → (b.data j == calcShortHash h) = true) :
    b.find8swar h pred = b.findN1 h pred := by
  rw [(find8swar_eq b h pred hbytes).1, findN1_eq, hmc, cands7_eq_filter]
  symm
  apply find?_filter_of_imp
  intro x hx hp
  rw [List.mem_filter, List.mem_range] at hx
  exact hcons x hx.1 hp

end open8

end Momo.OpenB
