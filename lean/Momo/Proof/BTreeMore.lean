import Momo.Proof.BTreeOps
/-!
  C02, further operations: copy construction (`pvCopy`), the fast merge of two ordered trees (`pvMergeFast`), removal by
  key with unique keys, removal by predicate, range insertion with its shortcut. Core Lean only.
-/
namespace Momo.BTree
open Node
variable {α : Type}

/-! ### `pvCopy` -/

theorem copyList_length (cfg : Cfg) (cs : List (Node α)) (ia : Nat) : (copyList cfg cs ia).1.length = cs.length := by
  induction cs generalizing ia with
  | nil => simp [copyList]
  | cons c cs ih => simp [copyList, ih]

theorem copyList_inter (cfg : Cfg) (cs : List (Node α))
    (h : ∀ c ∈ cs, ∀ ia, toList (copyNode cfg c ia).1 = toList c) (is : List α) (ia : Nat) :
    inter (copyList cfg cs ia).1 is = inter cs is := by
  induction cs generalizing is ia with
  | nil => simp [copyList]
  | cons c cs ih =>
    have hc := h c (by simp) ia
    have hcs := fun is' ia' => ih (fun c' hc' => h c' (by simp [hc'])) is' ia'
    cases is with
    | nil => simp [copyList, hc, hcs]
    | cons s is' => simp [copyList, hc, hcs]

theorem copyList_forall (cfg : Cfg) (P : Node α → Prop) (cs : List (Node α))
    (h : ∀ c ∈ cs, ∀ ia, P (copyNode cfg c ia).1) (ia : Nat) : ∀ x ∈ (copyList cfg cs ia).1, P x := by
  induction cs generalizing ia with
  | nil => simp [copyList]
  | cons c cs ih =>
    intro x hx
    simp only [copyList, List.mem_cons] at hx
    rcases hx with rfl | hx
    · exact h c (by simp) ia
    · exact ih (fun c' hc' => h c' (by simp [hc'])) _ x hx

/-- `pvCopy`: same in-order list, same structure; every new leaf is large enough for its items -/
theorem copyNode_spec (cfg : Cfg) {d : Nat} {n : Node α} (hb : Bal d n) (ia : Nat) :
    toList (copyNode cfg n ia).1 = toList n ∧ Bal d (copyNode cfg n ia).1 ∧
    (Caps cfg.maxCap n → Caps cfg.maxCap (copyNode cfg n ia).1) := by
  induction hb generalizing ia with
  | leaf cap items =>
    simp only [copyNode]
    refine ⟨by simp, Bal.leaf _ _, ?_⟩
    intro hc
    cases hc with
    | leaf _ _ h1 h2 =>
      have := leafCap_bounds cfg ia items.length (by omega)
      exact Caps.leaf _ _ this.1 this.2
  | inner d items cs hlen hall ih =>
    simp only [copyNode]
    refine ⟨?_, ?_, ?_⟩
    · rw [toList_inner, toList_inner]
      exact copyList_inter cfg cs (fun c hc ia' => (ih c hc ia').1) items (ia + 1)
    · exact Bal.inner d _ _ (by rw [copyList_length]; exact hlen)
        (copyList_forall cfg (Bal d) cs (fun c hc ia' => (ih c hc ia').2.1) (ia + 1))
    · intro hc
      cases hc with
      | inner _ _ h1 h2 =>
        exact Caps.inner _ _ h1
          (copyList_forall cfg (Caps cfg.maxCap) cs (fun c hc ia' => (ih c hc ia').2.2 (h2 c hc)) (ia + 1))

/-- the copy constructor: a well-formed container with the same sequence (an empty source gives a null root) -/
theorem tree_copy_spec (cfg : Cfg) (t : Tree α) (hw : t.WF cfg) :
    (Tree.copy cfg t).toList = t.toList ∧ (Tree.copy cfg t).WF cfg := by
  unfold Tree.copy
  split
  · rename_i h0
    have : t.toList = [] := by
      have := hw.count; rw [h0] at this
      exact List.eq_nil_of_length_eq_zero this.symm
    exact ⟨by rw [this]; simp [Tree.toList], Tree.wf_empty cfg⟩
  · cases hr : t.root with
    | none => exact ⟨by simp [Tree.toList, hr], Tree.wf_empty cfg⟩
    | some r =>
      obtain ⟨d, hb⟩ := hw.bal r hr
      obtain ⟨a, b, c⟩ := copyNode_spec cfg hb 0
      refine ⟨by simp [Tree.toList, hr, a], ⟨?_, ?_, ?_⟩⟩
      · have := hw.count; simp only [Tree.toList, hr] at this ⊢; rw [a]; exact this
      · intro r' h; cases h; exact ⟨d, b⟩
      · intro r' h; cases h; exact c (hw.caps r hr)

/-! ### `pvMergeFast` -/

theorem height_of_bal {d : Nat} {n : Node α} (hb : Bal d n) : height n = d + 1 := by
  induction hb with
  | leaf cap items => simp [height]
  | inner d items cs hlen hall ih =>
    cases cs with
    | nil => simp at hlen
    | cons c cs' => simp [height, heightHead, ih c (by simp)]

theorem toList_nil_of_popFirst_none {d : Nat} {n : Node α} (hb : Bal d n) (h : popFirst n = none) : toList n = [] := by
  induction hb with
  | leaf cap items =>
    cases items with
    | nil => simp
    | cons x xs => simp [popFirst] at h
  | inner d items cs hlen hall ih =>
    cases cs with
    | nil => simp at hlen
    | cons c cs' =>
      simp only [popFirst, popFirstHead] at h
      cases hp : popFirst c with
      | some r => simp [hp] at h
      | none =>
        simp only [hp] at h
        cases items with
        | cons x xs => simp at h
        | nil =>
          have : cs' = [] := by simpa using hlen
          subst this
          simp [ih c (by simp) hp]

/-- the first element leaves the subtree (`GetBegin()`'s node loses item 0) -/
theorem popFirst_spec {d : Nat} {n : Node α} (hb : Bal d n) (n' : Node α) (x : α) (h : popFirst n = some (n', x)) :
    toList n = x :: toList n' ∧ Bal d n' ∧ (∀ maxCap, Caps maxCap n → Caps maxCap n') := by
  induction hb generalizing n' x with
  | leaf cap items =>
    cases items with
    | nil => simp [popFirst] at h
    | cons y ys =>
      simp only [popFirst] at h
      cases h
      refine ⟨by simp, Bal.leaf _ _, ?_⟩
      intro maxCap hc
      cases hc with
      | leaf _ _ h1 h2 => exact Caps.leaf _ _ (by simp at h1 ⊢; omega) h2
  | inner d items cs hlen hall ih =>
    cases cs with
    | nil => simp at hlen
    | cons c cs' =>
      simp only [popFirst, popFirstHead] at h
      cases hp : popFirst c with
      | some r =>
        obtain ⟨c', y⟩ := r
        simp only [hp] at h
        cases h
        obtain ⟨a, b, e⟩ := ih c (by simp) c' x hp
        refine ⟨?_, ?_, ?_⟩
        · cases items <;> simp [a]
        · exact Bal.inner d _ _ (by simpa using hlen) (fun z hz => by
            simp only [List.set_cons_zero, List.mem_cons] at hz
            rcases hz with rfl | hz
            · exact b
            · exact hall z (by simp [hz]))
        · intro maxCap hcaps
          cases hcaps with
          | inner _ _ h1 h2 =>
            exact Caps.inner _ _ h1 (fun z hz => by
              simp only [List.set_cons_zero, List.mem_cons] at hz
              rcases hz with rfl | hz
              · exact e maxCap (h2 c (by simp))
              · exact h2 z (by simp [hz]))
      | none =>
        simp only [hp] at h
        cases items with
        | nil => simp at h
        | cons y ys =>
          simp only at h
          cases h
          have hempty := toList_nil_of_popFirst_none (hall c (by simp)) hp
          simp only [destroyInternal, Bool.false_eq_true, if_false, List.eraseIdx_cons_zero]
          refine ⟨by simp [hempty], ?_, ?_⟩
          · exact Bal.inner d _ _ (by simpa using hlen) (fun z hz => hall z (by simp [hz]))
          · intro maxCap hcaps
            cases hcaps with
            | inner _ _ h1 h2 =>
              exact Caps.inner _ _ (by simp at h1 ⊢; omega) (fun z hz => h2 z (by simp [hz]))

theorem wrapN_spec (k : Nat) {d : Nat} {n : Node α} (hb : Bal d n) :
    toList (wrapN k n) = toList n ∧ Bal (d + k) (wrapN k n) ∧ (∀ maxCap, Caps maxCap n → Caps maxCap (wrapN k n)) := by
  induction k generalizing n d with
  | zero => exact ⟨rfl, hb, fun _ h => h⟩
  | succ j ih =>
    have hb1 : Bal (d+1) (inner [] [n]) := Bal.inner d _ _ rfl (by intro c hc; simp at hc; subst hc; exact hb)
    obtain ⟨a, b, c⟩ := ih hb1
    simp only [wrapN]
    refine ⟨by rw [a]; simp, by have : d + (j + 1) = d + 1 + j := by omega
                                rw [this]; exact b, ?_⟩
    intro maxCap hc
    exact c maxCap (Caps.inner _ _ (by simp) (by intro x hx; simp at hx; subst hx; exact hc))

/-- the search for the receiving node along one spine of the taller tree -/
theorem attach_spec (cfg : Cfg) (right : Bool) (sep : α) (t1 : Node α) (dd : Nat) {D : Nat} {n2 : Node α}
    (hb2 : Bal D n2) (hdd : dd ≤ D) (hb1 : Bal (D - dd) t1) :
    (∀ n', attach cfg right sep t1 n2 dd = .inl n' →
        toList n' = (if right then toList n2 ++ sep :: toList t1 else toList t1 ++ sep :: toList n2) ∧ Bal D n' ∧
        (Caps cfg.maxCap n2 → Caps cfg.maxCap t1 → Caps cfg.maxCap n')) ∧
    (∀ w, attach cfg right sep t1 n2 dd = .inr w → w = dd) := by
  induction dd generalizing n2 D with
  | zero => simp [attach]
  | succ k ih =>
    cases hb2 with
    | leaf cap items => omega
    | inner D' items cs hlen hall =>
      have hside : (if right then items.length else 0) < cs.length := by split <;> omega
      obtain ⟨ch, hch⟩ := getElem?_of_lt hside
      have hbch := hall ch (List.mem_of_getElem? hch)
      have hb1' : Bal (D' - k) t1 := by
        have : D' + 1 - (k + 1) = D' - k := by omega
        rw [this] at hb1; exact hb1
      obtain ⟨ih1, ih2⟩ := ih hbch (by omega) hb1'
      simp only [attach, hch]
      cases hres : attach cfg right sep t1 ch k with
      | inl ch' =>
        obtain ⟨a, b, c⟩ := ih1 ch' hres
        simp only
        constructor
        · intro n' hn'
          cases hn'
          refine ⟨?_, ?_, ?_⟩
          · rw [toList_inner, toList_inner, inter_set cs items _ ch ch' hch hlen, inter_split cs items _ ch hch hlen, a]
            cases right with
            | true => simp [postOf]
            | false => simp [preOf]
          · exact Bal.inner D' _ _ (by simpa using hlen) (fun z hz => by
              rcases List.mem_or_eq_of_mem_set hz with h' | rfl
              · exact hall z h'
              · exact b)
          · intro hc2 hc1
            cases hc2 with
            | inner _ _ h1 h2 =>
              exact Caps.inner _ _ h1 (fun z hz => by
                rcases List.mem_or_eq_of_mem_set hz with h' | rfl
                · exact h2 z h'
                · exact c (h2 ch (List.mem_of_getElem? hch)) hc1)
        · intro w hw; cases hw
      | inr w =>
        have hw := ih2 w hres
        subst hw
        obtain ⟨wa, wb, wc⟩ := wrapN_spec w hb1'
        have hwb : Bal D' (wrapN w t1) := by
          have : D' - w + w = D' := by omega
          rw [this] at wb; exact wb
        simp only
        split
        · rename_i hroom
          constructor
          · intro n' hn'
            cases hn'
            cases right with
            | true =>
              simp only [if_true]
              refine ⟨?_, ?_, ?_⟩
              · have := inter_append cs [wrapN w t1] items [] sep hlen
                rw [toList_inner, toList_inner, this]; simp [wa]
              · exact Bal.inner D' _ _ (by simp; omega) (fun z hz => by
                  rcases List.mem_append.mp hz with h' | h'
                  · exact hall z h'
                  · simp at h'; subst h'; exact hwb)
              · intro hc2 hc1
                cases hc2 with
                | inner _ _ h1 h2 =>
                  exact Caps.inner _ _ (by simp; omega) (fun z hz => by
                    rcases List.mem_append.mp hz with h' | h'
                    · exact h2 z h'
                    · simp at h'; subst h'; exact wc _ hc1)
            | false =>
              simp only [Bool.false_eq_true, if_false]
              refine ⟨by simp [wa], ?_, ?_⟩
              · exact Bal.inner D' _ _ (by simp; omega) (fun z hz => by
                  simp only [List.mem_cons] at hz
                  rcases hz with rfl | h'
                  · exact hwb
                  · exact hall z h')
              · intro hc2 hc1
                cases hc2 with
                | inner _ _ h1 h2 =>
                  exact Caps.inner _ _ (by simp; omega) (fun z hz => by
                    simp only [List.mem_cons] at hz
                    rcases hz with rfl | h'
                    · exact wc _ hc1
                    · exact h2 z h')
          · intro w' hw'; cases hw'
        · constructor
          · intro n' hn'; cases hn'
          · intro w' hw'; cases hw'; rfl

/-- `pvMergeFast`: two non-empty trees whose keys are ordered become one tree with the concatenated sequence -/
theorem mergeFast_spec (cfg : Cfg) (hmax : 0 < cfg.maxCap) {d1 d2 : Nat} {r1 r2 : Node α} (hb1 : Bal d1 r1)
    (hb2 : Bal d2 r2) (hne1 : toList r1 ≠ []) (hne2 : toList r2 ≠ []) :
    toList (mergeFast cfg r1 r2) = toList r1 ++ toList r2 ∧ (∃ d, Bal d (mergeFast cfg r1 r2)) ∧
    (Caps cfg.maxCap r1 → Caps cfg.maxCap r2 → Caps cfg.maxCap (mergeFast cfg r1 r2)) := by
  unfold mergeFast
  rw [height_of_bal hb1, height_of_bal hb2]
  split
  · rename_i hgt
    have hd : d2 < d1 := by omega
    cases hp : popFirst r2 with
    | none => exact absurd (toList_nil_of_popFirst_none hb2 hp) hne2
    | some res =>
      obtain ⟨t, sep⟩ := res
      obtain ⟨p1, p2, p3⟩ := popFirst_spec hb2 t sep hp
      simp only
      have hdd : d1 + 1 - (d2 + 1) = d1 - d2 := by omega
      rw [hdd]
      have hbt : Bal (d1 - (d1 - d2)) t := by
        have : d1 - (d1 - d2) = d2 := by omega
        rw [this]; exact p2
      obtain ⟨a1, a2⟩ := attach_spec cfg true sep t (d1 - d2) hb1 (by omega) hbt
      cases hres : attach cfg true sep t r1 (d1 - d2) with
      | inl n =>
        obtain ⟨x, y, z⟩ := a1 n hres
        exact ⟨by rw [x, p1]; simp, ⟨d1, y⟩, fun c1 c2 => z c1 (p3 _ c2)⟩
      | inr w =>
        have := a2 w hres; subst this
        obtain ⟨wa, wb, wc⟩ := wrapN_spec (d1 - d2) p2
        have hwb : Bal d1 (wrapN (d1 - d2) t) := by
          have : d2 + (d1 - d2) = d1 := by omega
          rw [this] at wb; exact wb
        refine ⟨by simp [wa, p1], ⟨d1 + 1, Bal.inner d1 _ _ rfl (by
          intro c hc; simp only [List.mem_cons, List.not_mem_nil, or_false] at hc
          rcases hc with rfl | rfl
          · exact hb1
          · exact hwb)⟩, ?_⟩
        intro c1 c2
        exact Caps.inner _ _ (by simp; omega) (by
          intro c hc; simp only [List.mem_cons, List.not_mem_nil, or_false] at hc
          rcases hc with rfl | rfl
          · exact c1
          · exact wc _ (p3 _ c2))
  · rename_i hngt
    have hd : d1 ≤ d2 := by omega
    cases hp : popLast r1 with
    | none => exact absurd (toList_nil_of_popLast_none hb1 hp) hne1
    | some res =>
      obtain ⟨t, sep, cp⟩ := res
      obtain ⟨p1, p2, p3⟩ := popLast_spec hb1 t sep cp hp
      simp only
      have hdd : d2 + 1 - (d1 + 1) = d2 - d1 := by omega
      rw [hdd]
      have hbt : Bal (d2 - (d2 - d1)) t := by
        have : d2 - (d2 - d1) = d1 := by omega
        rw [this]; exact p2
      obtain ⟨a1, a2⟩ := attach_spec cfg false sep t (d2 - d1) hb2 (by omega) hbt
      cases hres : attach cfg false sep t r2 (d2 - d1) with
      | inl n =>
        obtain ⟨x, y, z⟩ := a1 n hres
        exact ⟨by rw [x, p1]; simp, ⟨d2, y⟩, fun c1 c2 => z c2 (p3 _ c1)⟩
      | inr w =>
        have := a2 w hres; subst this
        obtain ⟨wa, wb, wc⟩ := wrapN_spec (d2 - d1) p2
        have hwb : Bal d2 (wrapN (d2 - d1) t) := by
          have : d1 + (d2 - d1) = d2 := by omega
          rw [this] at wb; exact wb
        refine ⟨by simp [wa, p1], ⟨d2 + 1, Bal.inner d2 _ _ rfl (by
          intro c hc; simp only [List.mem_cons, List.not_mem_nil, or_false] at hc
          rcases hc with rfl | rfl
          · exact hwb
          · exact hb2)⟩, ?_⟩
        intro c1 c2
        exact Caps.inner _ _ (by simp; omega) (by
          intro c hc; simp only [List.mem_cons, List.not_mem_nil, or_false] at hc
          rcases hc with rfl | rfl
          · exact wc _ (p3 _ c1)
          · exact c2)

/-! ### helpers at container level -/

theorem tree_pos_eq_iff (cfg : Cfg) (t : Tree α) (hw : t.WF cfg) (p q : Pos) (hp : t.ValidPos p) (hq : t.ValidPos q) :
    p = q ↔ t.idxOf p = t.idxOf q := by
  constructor
  · intro h; rw [h]
  · intro h
    unfold Tree.ValidPos at hp hq
    unfold Tree.idxOf at h
    cases hr : t.root with
    | none => simp only [hr] at hp hq; rw [hp, hq]
    | some r =>
      obtain ⟨d, hb⟩ := hw.bal r hr
      simp only [hr] at hp hq h
      exact validPos_eq_of_idx hb hp hq h

theorem tree_pos_eq_end_iff (cfg : Cfg) (t : Tree α) (hw : t.WF cfg) (p : Pos) (hp : t.ValidPos p) :
    p = t.endPos ↔ t.idxOf p = t.toList.length := by
  obtain ⟨_, _, b3, b4⟩ := tree_begin_end_spec cfg t hw
  rw [tree_pos_eq_iff cfg t hw p t.endPos hp b4, b3]

theorem validPos_idx_le_len (cfg : Cfg) (t : Tree α) (hw : t.WF cfg) (p : Pos) (hp : t.ValidPos p) :
    t.idxOf p ≤ t.toList.length := by
  unfold Tree.ValidPos at hp
  unfold Tree.idxOf Tree.toList
  cases hr : t.root with
  | none => simp
  | some r =>
    obtain ⟨d, hb⟩ := hw.bal r hr
    simp only [hr] at hp ⊢
    simpa [size] using validPos_idx_le hb hp

theorem validElem_validPos (t : Tree α) (p : Pos) (h : t.ValidElem p) : t.ValidPos p := by
  unfold Tree.ValidElem at h
  unfold Tree.ValidPos
  cases hr : t.root with
  | none => simp [hr] at h
  | some r => simp only [hr] at h ⊢; exact Or.inl h

theorem validElem_idx_lt (cfg : Cfg) (t : Tree α) (hw : t.WF cfg) (p : Pos) (h : t.ValidElem p) :
    t.idxOf p < t.toList.length := by
  obtain ⟨x, _, hx⟩ := tree_elemAt_spec cfg t hw p h
  exact lt_of_getElem? hx

/-! ### `Remove(filter)` -/

theorem removeIf_go_spec (cfg : Cfg) (f : α → Bool) (fuel : Nat) (t : Tree α) (hw : t.WF cfg) (pos : Pos)
    (hv : t.ValidPos pos) (hf : t.toList.length ≤ t.idxOf pos + fuel) :
    (Tree.removeIf.go cfg f fuel t pos).toList =
        t.toList.take (t.idxOf pos) ++ (t.toList.drop (t.idxOf pos)).filter (fun y => !f y) ∧
    (Tree.removeIf.go cfg f fuel t pos).WF cfg := by
  induction fuel generalizing t pos with
  | zero =>
    have hle := validPos_idx_le_len cfg t hw pos hv
    have : t.idxOf pos = t.toList.length := by omega
    simp only [Tree.removeIf.go]
    exact ⟨by rw [this]; simp, hw⟩
  | succ n ih =>
    simp only [Tree.removeIf.go]
    by_cases hend : pos = t.endPos
    · rw [if_pos hend]
      have := (tree_pos_eq_end_iff cfg t hw pos hv).mp hend
      exact ⟨by rw [this]; simp, hw⟩
    · rw [if_neg hend]
      have hlt : t.idxOf pos < t.toList.length := by
        have h1 := validPos_idx_le_len cfg t hw pos hv
        have h2 := mt (tree_pos_eq_end_iff cfg t hw pos hv).mpr hend
        omega
      have hve := validElem_of_idx_lt cfg t hw pos hv hlt
      obtain ⟨x, hx1, hx2⟩ := tree_elemAt_spec cfg t hw pos hve
      have hdrop : t.toList.drop (t.idxOf pos) = x :: t.toList.drop (t.idxOf pos + 1) := by
        rw [List.drop_eq_getElem_cons hlt]; congr 1
        rw [List.getElem?_eq_getElem hlt] at hx2; exact Option.some.inj hx2
      simp only [hx1]
      by_cases hfx : f x = true
      · rw [if_pos hfx]
        obtain ⟨r1, r2, r3, r4⟩ := tree_remove_spec cfg t hw pos hve
        obtain ⟨i1, i2⟩ := ih (t.remove cfg pos).1 r2 (t.remove cfg pos).2 r4 (by
          rw [r1, r3, List.length_eraseIdx_of_lt hlt]; omega)
        refine ⟨?_, i2⟩
        rw [i1, r1, r3, hdrop]
        simp only [List.filter_cons, hfx, Bool.not_true, Bool.false_eq_true, if_false]
        rw [List.eraseIdx_eq_take_drop_succ]
        have h1 : (t.toList.take (t.idxOf pos)).length = t.idxOf pos := by simp; omega
        rw [List.take_append_of_le_length (by omega), List.take_of_length_le (by omega),
          List.drop_append_of_le_length (by omega), List.drop_of_length_le (by omega)]
        simp
      · rw [if_neg hfx]
        obtain ⟨n1, n2⟩ := tree_next_spec cfg t hw pos hve
        obtain ⟨i1, i2⟩ := ih t hw (t.next pos) n2 (by omega)
        refine ⟨?_, i2⟩
        rw [i1, n1, hdrop, List.take_add_one, hx2]
        simp [hfx]

/-- `Remove(filter)`: exactly the elements satisfying the predicate go away -/
theorem tree_removeIf_spec (cfg : Cfg) (f : α → Bool) (t : Tree α) (hw : t.WF cfg) :
    (Tree.removeIf cfg f t).toList = t.toList.filter (fun y => !f y) ∧ (Tree.removeIf cfg f t).WF cfg := by
  obtain ⟨b1, b2, _, _⟩ := tree_begin_end_spec cfg t hw
  obtain ⟨a, b⟩ := removeIf_go_spec cfg f t.count t hw t.beginPos b2 (by rw [b1, hw.count]; omega)
  unfold Tree.removeIf
  exact ⟨by rw [a, b1]; simp, b⟩

/-! ### stable insertion on the reference sequence -/

section ins1
variable (lt : α → α → Bool)

theorem any_equiv_iff (l : List α) (x : α) : (l.any (fun y => equiv lt y x) = true) ↔ ∃ y ∈ l, equiv lt y x = true := by
  simp [List.any_eq_true]

/-- `pvInsert` in terms of `Spec.insert1` -/
theorem tree_insert_insert1 (ho : Order lt) (cfg : Cfg) (hmax : 0 < cfg.maxCap) (t : Tree α) (hw : t.WF cfg)
    (hs : SortedBy lt cfg.multi t.toList) (x : α) :
    (Tree.insert lt cfg t x).1.toList = Spec.insert1 lt cfg.multi t.toList x ∧
    ((Tree.insert lt cfg t x).2.2 = false → (Tree.insert lt cfg t x).1 = t) ∧
    (Tree.insert lt cfg t x).1.WF cfg ∧ SortedBy lt cfg.multi (Tree.insert lt cfg t x).1.toList ∧
    (Tree.insert lt cfg t x).1.ValidElem (Tree.insert lt cfg t x).2.1 ∧
    ∃ z, (Tree.insert lt cfg t x).1.toList[(Tree.insert lt cfg t x).1.idxOf (Tree.insert lt cfg t x).2.1]? = some z ∧
      lt z x = false ∧ lt x z = false := by
  obtain ⟨a, b, c, d⟩ := tree_insert_spec lt ho cfg hmax t hw hs x
  unfold Spec.insert1
  by_cases hc : cfg.multi = false ∧ ∃ y ∈ t.toList, equiv lt y x = true
  · rw [if_pos hc] at a
    have hc' : cfg.multi = false ∧ t.toList.any (fun y => equiv lt y x) = true :=
      ⟨hc.1, (any_equiv_iff lt _ _).mpr hc.2⟩
    rw [if_pos hc']
    obtain ⟨a1, a2, z, hz, he⟩ := a
    simp only [equiv, Bool.and_eq_true, Bool.not_eq_true'] at he
    exact ⟨by rw [a1], fun _ => a1, b, c, d, z, by rw [a1]; exact hz, he.1, he.2⟩
  · rw [if_neg hc] at a
    have hc' : ¬ (cfg.multi = false ∧ t.toList.any (fun y => equiv lt y x) = true) := by
      intro h; exact hc ⟨h.1, (any_equiv_iff lt _ _).mp h.2⟩
    rw [if_neg hc']
    obtain ⟨a1, a2, a3⟩ := a
    refine ⟨a1, (fun h => by rw [a2] at h; cases h), b, c, d, x, ?_, ?_, ?_⟩
    · rw [a1, a3]
      have := upperIdx_facts lt ho t.toList x (hs.weak ho)
      exact List.getElem?_insertIdx_self.trans (by simp [this.1])
    · cases h : lt x x with
      | false => rfl
      | true => have := ho.asymm x x h; rw [this] at h; cases h
    · cases h : lt x x with
      | false => rfl
      | true => have := ho.asymm x x h; rw [this] at h; cases h

theorem foldl_insert1_sorted (multi : Bool) (xs l : List α) (hs : SortedBy lt multi l)
    (step : ∀ l x, SortedBy lt multi l → SortedBy lt multi (Spec.insert1 lt multi l x)) :
    SortedBy lt multi (xs.foldl (Spec.insert1 lt multi) l) := by
  induction xs generalizing l with
  | nil => exact hs
  | cons x xs ih => exact ih _ (step l x hs)

end ins1

/-! ### `pvMergeTo` (generic merge: extract one by one, insert by key) -/

theorem mergeGeneric_go_spec (lt : α → α → Bool) (ho : Order lt) (cfg : Cfg) (hmax : 0 < cfg.maxCap) (fuel : Nat)
    (src dst : Tree α) (hws : src.WF cfg) (hwd : dst.WF cfg) (hsd : SortedBy lt cfg.multi dst.toList) (pos : Pos)
    (hv : src.ValidPos pos) (hf : src.toList.length ≤ src.idxOf pos + fuel) :
    (Tree.mergeGeneric.go lt cfg fuel src dst pos).2.toList =
        (src.toList.drop (src.idxOf pos)).foldl (Spec.insert1 lt cfg.multi) dst.toList ∧
    (Tree.mergeGeneric.go lt cfg fuel src dst pos).2.WF cfg ∧
    SortedBy lt cfg.multi (Tree.mergeGeneric.go lt cfg fuel src dst pos).2.toList ∧
    (Tree.mergeGeneric.go lt cfg fuel src dst pos).1.WF cfg ∧
    (Tree.mergeGeneric.go lt cfg fuel src dst pos).1.toList.Sublist src.toList := by
  induction fuel generalizing src dst pos with
  | zero =>
    have hle := validPos_idx_le_len cfg src hws pos hv
    have : src.idxOf pos = src.toList.length := by omega
    simp only [Tree.mergeGeneric.go]
    exact ⟨by rw [this]; simp, hwd, hsd, hws, List.Sublist.refl _⟩
  | succ n ih =>
    simp only [Tree.mergeGeneric.go]
    by_cases hend : pos = src.endPos
    · rw [if_pos hend]
      have := (tree_pos_eq_end_iff cfg src hws pos hv).mp hend
      exact ⟨by rw [this]; simp, hwd, hsd, hws, List.Sublist.refl _⟩
    · rw [if_neg hend]
      have hlt : src.idxOf pos < src.toList.length := by
        have h1 := validPos_idx_le_len cfg src hws pos hv
        have h2 := mt (tree_pos_eq_end_iff cfg src hws pos hv).mpr hend
        omega
      have hve := validElem_of_idx_lt cfg src hws pos hv hlt
      obtain ⟨x, hx1, hx2⟩ := tree_elemAt_spec cfg src hws pos hve
      have hdrop : src.toList.drop (src.idxOf pos) = x :: src.toList.drop (src.idxOf pos + 1) := by
        rw [List.drop_eq_getElem_cons hlt]; congr 1
        rw [List.getElem?_eq_getElem hlt] at hx2; exact Option.some.inj hx2
      simp only [hx1]
      obtain ⟨j1, j2, j3, j4, _, _⟩ := tree_insert_insert1 lt ho cfg hmax dst hwd hsd x
      by_cases hins : (Tree.insert lt cfg dst x).2.2 = true
      · rw [if_pos hins]
        obtain ⟨r1, r2, r3, r4⟩ := tree_remove_spec cfg src hws pos hve
        obtain ⟨i1, i2, i3, i4, i5⟩ := ih (src.remove cfg pos).1 (Tree.insert lt cfg dst x).1 r2 j3 j4
          (src.remove cfg pos).2 r4 (by rw [r1, r3, List.length_eraseIdx_of_lt hlt]; omega)
        refine ⟨?_, i2, i3, i4, i5.trans (by rw [r1]; exact List.eraseIdx_sublist _ _)⟩
        rw [i1, r1, r3, j1, hdrop]
        simp only [List.foldl_cons]
        congr 1
        rw [List.eraseIdx_eq_take_drop_succ]
        have h1 : (src.toList.take (src.idxOf pos)).length = src.idxOf pos := by simp; omega
        rw [List.drop_append_of_le_length (by omega), List.drop_of_length_le (by omega)]
        simp
      · rw [if_neg hins]
        have hfalse : (Tree.insert lt cfg dst x).2.2 = false := by
          cases h : (Tree.insert lt cfg dst x).2.2 with
          | false => rfl
          | true => exact absurd h hins
        have hsame := j2 hfalse
        obtain ⟨n1, n2⟩ := tree_next_spec cfg src hws pos hve
        obtain ⟨i1, i2, i3, i4, i5⟩ := ih src dst hws hwd hsd (src.next pos) n2 (by omega)
        refine ⟨?_, i2, i3, i4, i5⟩
        rw [i1, n1, hdrop]
        simp only [List.foldl_cons]
        rw [← j1, hsame]

/-- `pvMergeTo`: the destination receives the source elements one after the other by stable insertion; both stay
    well-formed; the source keeps a subsequence (the keys that were present, unique keys only) -/
theorem tree_mergeGeneric_spec (lt : α → α → Bool) (ho : Order lt) (cfg : Cfg) (hmax : 0 < cfg.maxCap)
    (src dst : Tree α) (hws : src.WF cfg) (hwd : dst.WF cfg) (hsd : SortedBy lt cfg.multi dst.toList) :
    (Tree.mergeGeneric lt cfg src dst).2.toList = src.toList.foldl (Spec.insert1 lt cfg.multi) dst.toList ∧
    (Tree.mergeGeneric lt cfg src dst).2.WF cfg ∧ SortedBy lt cfg.multi (Tree.mergeGeneric lt cfg src dst).2.toList ∧
    (Tree.mergeGeneric lt cfg src dst).1.WF cfg ∧ (Tree.mergeGeneric lt cfg src dst).1.toList.Sublist src.toList := by
  obtain ⟨b1, b2, _, _⟩ := tree_begin_end_spec cfg src hws
  have := mergeGeneric_go_spec lt ho cfg hmax src.count src dst hws hwd hsd src.beginPos b2
    (by rw [b1, hws.count]; omega)
  unfold Tree.mergeGeneric
  rw [b1] at this
  simpa using this

/-! ### `Insert(begin, end)` with the "right after the previous element" shortcut -/

section insrange
variable (lt : α → α → Bool)

theorem firstTrue_eq_of (p : α → Bool) (l : List α) (n : Nat) (h1 : ∀ j y, j < n → l[j]? = some y → p y = false)
    (h2 : n ≤ l.length) (h3 : ∀ y, l[n]? = some y → p y = true) : firstTrue p l = n := by
  rcases Nat.lt_trichotomy (firstTrue p l) n with h | h | h
  · obtain ⟨y, hy, hp⟩ := firstTrue_true_at p l (by omega)
    rw [h1 _ y h hy] at hp; cases hp
  · exact h
  · have hle := firstTrue_le p l
    obtain ⟨y, hy⟩ := getElem?_of_lt (l := l) (i := n) (by omega)
    have := firstTrue_false_before p l n h y hy
    rw [h3 y hy] at this; cases this

theorem lt_irrefl_of_order (ho : Order lt) (x : α) : lt x x = false := by
  cases h : lt x x with
  | false => rfl
  | true => have := ho.asymm x x h; rw [this] at h; cases h

theorem insert1_sorted (ho : Order lt) (multi : Bool) (l : List α) (x : α) (hs : SortedBy lt multi l) :
    SortedBy lt multi (Spec.insert1 lt multi l x) := by
  unfold Spec.insert1
  split
  · exact hs
  · rename_i hc
    obtain ⟨f1, f2, f3⟩ := upperIdx_facts lt ho l x (hs.weak ho)
    unfold SortedBy at hs ⊢
    cases multi with
    | true =>
      simp only [if_true] at hs ⊢
      exact pairwise_insertIdx _ _ x f1 hs (fun j y hj hy => f2 j y hj hy)
        (fun j y hj hy => ho.asymm _ _ (f3 j y hj hy))
    | false =>
      simp only [Bool.false_eq_true, if_false] at hs ⊢
      refine pairwise_insertIdx _ _ x f1 hs (fun j y hj hy => ?_) (fun j y hj hy => f3 j y hj hy)
      cases hyx : lt y x with
      | true => rfl
      | false =>
        exfalso; apply hc
        refine ⟨rfl, (any_equiv_iff lt _ _).mpr ⟨y, List.mem_of_getElem? hy, ?_⟩⟩
        simp only [equiv, Bool.and_eq_true, Bool.not_eq_true']
        exact ⟨hyx, f2 j y hj hy⟩

/-- the shortcut of `Insert(begin, end)`: when the new key is not less than the previous one and less than the
    element after it, stable insertion goes right behind the previous element -/
theorem insert1_after_prev (ho : Order lt) (multi : Bool) (l : List α) (p : Nat) (prevKey x : α)
    (hs : SortedBy lt multi l) (hp : l[p]? = some prevKey) (h1 : lt x prevKey = false)
    (h2 : ∀ y, l[p + 1]? = some y → lt x y = true) (h3 : multi = true ∨ lt prevKey x = true) :
    Spec.insert1 lt multi l x = l.insertIdx (p + 1) x := by
  have hsw := hs.weak ho
  have hpl := lt_of_getElem? hp
  -- everything up to `p` is not greater than `x`
  have hbefore : ∀ j y, j < p + 1 → l[j]? = some y → lt x y = false := by
    intro j y hj hy
    have hyp : lt prevKey y = false := by
      by_cases hjp : j = p
      · subst hjp; rw [hp] at hy; cases hy; exact lt_irrefl_of_order lt ho _
      · have hjl := lt_of_getElem? hy
        have := List.pairwise_iff_getElem.mp hsw j p hjl hpl (by omega)
        rw [List.getElem?_eq_getElem hjl] at hy
        rw [List.getElem?_eq_getElem hpl] at hp
        cases hy; cases hp; exact this
    exact ho.le_trans y prevKey x hyp h1
  have hub : upperIdx lt l x = p + 1 := by
    rw [← firstTrue_upper]
    exact firstTrue_eq_of _ l (p + 1) hbefore (by omega) h2
  unfold Spec.insert1
  rw [hub]
  split
  · rename_i hc
    exfalso
    obtain ⟨hm, hany⟩ := hc
    obtain ⟨y, hy, he⟩ := (any_equiv_iff lt _ _).mp hany
    simp only [equiv, Bool.and_eq_true, Bool.not_eq_true'] at he
    have hpx : lt prevKey x = true := by
      rcases h3 with h | h
      · rw [hm] at h; cases h
      · exact h
    obtain ⟨j, hj⟩ := List.getElem?_of_mem hy
    obtain ⟨_, _, f3⟩ := upperIdx_facts lt ho l x hsw
    by_cases hjp : j < p + 1
    · -- y ≤ prevKey < x, so y < x
      have hyp : lt prevKey y = false := by
        by_cases hjp' : j = p
        · subst hjp'; rw [hp] at hj; cases hj; exact lt_irrefl_of_order lt ho _
        · have hjl := lt_of_getElem? hj
          have := List.pairwise_iff_getElem.mp hsw j p hjl hpl (by omega)
          rw [List.getElem?_eq_getElem hjl] at hj
          rw [List.getElem?_eq_getElem hpl] at hp
          cases hj; cases hp; exact this
      have := ho.le_trans x y prevKey he.1 hyp
      rw [this] at hpx; cases hpx
    · have := f3 j y (by omega) hj
      rw [he.2] at this; cases this
  · rfl

theorem insertRange_go_spec (ho : Order lt) (cfg : Cfg) (hmax : 0 < cfg.maxCap) (xs : List α) (t : Tree α)
    (hw : t.WF cfg) (hs : SortedBy lt cfg.multi t.toList) (pos : Pos) (hv : t.ValidElem pos) :
    (Tree.insertRange.go lt cfg xs t pos).toList = xs.foldl (Spec.insert1 lt cfg.multi) t.toList ∧
    (Tree.insertRange.go lt cfg xs t pos).WF cfg ∧ SortedBy lt cfg.multi (Tree.insertRange.go lt cfg xs t pos).toList := by
  induction xs generalizing t pos with
  | nil => simp only [Tree.insertRange.go]; exact ⟨rfl, hw, hs⟩
  | cons x xs ih =>
    obtain ⟨prevKey, hk1, hk2⟩ := tree_elemAt_spec cfg t hw pos hv
    simp only [Tree.insertRange.go, hk1, List.foldl_cons]
    obtain ⟨n1, n2⟩ := tree_next_spec cfg t hw pos hv
    have hg := isGreater_spec lt t cfg hw (t.next pos) n2 x
    rw [n1] at hg
    by_cases hA : (lt x prevKey || !Tree.isGreater lt t (t.next pos) x) = true
    · rw [if_pos hA]
      obtain ⟨j1, _, j3, j4, j5, _⟩ := tree_insert_insert1 lt ho cfg hmax t hw hs x
      obtain ⟨i1, i2, i3⟩ := ih _ j3 j4 _ j5
      exact ⟨by rw [i1, j1], i2, i3⟩
    · rw [if_neg hA]
      simp only [Bool.or_eq_true, Bool.not_eq_true', not_or, Bool.not_eq_true, Bool.not_eq_false] at hA
      obtain ⟨hx1, hx2⟩ := hA
      by_cases hB : (cfg.multi || lt prevKey x) = true
      · rw [if_pos hB]
        have hnext : ∀ y, t.toList[t.idxOf pos + 1]? = some y → lt x y = true := by
          intro y hy; rw [hy] at hg; simp only at hg; rw [← hg]; exact hx2
        have hins := insert1_after_prev lt ho cfg.multi t.toList (t.idxOf pos) prevKey x hs hk2 hx1 hnext
          (by simpa [Bool.or_eq_true] using hB)
        obtain ⟨a1, a2, a3, a4⟩ := tree_add_spec cfg hmax t hw (t.next pos) n2 x
        rw [n1] at a1
        have hsorted : SortedBy lt cfg.multi (t.add cfg (t.next pos) x).1.toList := by
          rw [a1, ← hins]; exact insert1_sorted lt ho cfg.multi _ x hs
        obtain ⟨i1, i2, i3⟩ := ih _ a2 hsorted _ a4
        exact ⟨by rw [i1, a1, hins], i2, i3⟩
      · rw [if_neg hB]
        simp only [Bool.or_eq_true, not_or, Bool.not_eq_true] at hB
        have hskip : Spec.insert1 lt cfg.multi t.toList x = t.toList := by
          unfold Spec.insert1
          rw [if_pos ⟨hB.1, (any_equiv_iff lt _ _).mpr ⟨prevKey, List.mem_of_getElem? hk2, by
            simp only [equiv, Bool.and_eq_true, Bool.not_eq_true']; exact ⟨hB.2, hx1⟩⟩⟩]
        obtain ⟨i1, i2, i3⟩ := ih t hw hs pos hv
        exact ⟨by rw [i1, hskip], i2, i3⟩

/-- `Insert(begin, end)`: the same as inserting the elements one after the other -/
theorem tree_insertRange_spec (ho : Order lt) (cfg : Cfg) (hmax : 0 < cfg.maxCap) (t : Tree α) (hw : t.WF cfg)
    (hs : SortedBy lt cfg.multi t.toList) (xs : List α) :
    (Tree.insertRange lt cfg t xs).toList = xs.foldl (Spec.insert1 lt cfg.multi) t.toList ∧
    (Tree.insertRange lt cfg t xs).WF cfg ∧ SortedBy lt cfg.multi (Tree.insertRange lt cfg t xs).toList := by
  cases xs with
  | nil => simp only [Tree.insertRange]; exact ⟨rfl, hw, hs⟩
  | cons x xs =>
    simp only [Tree.insertRange, List.foldl_cons]
    obtain ⟨j1, _, j3, j4, j5, _⟩ := tree_insert_insert1 lt ho cfg hmax t hw hs x
    obtain ⟨i1, i2, i3⟩ := insertRange_go_spec lt ho cfg hmax xs _ j3 j4 _ j5
    exact ⟨by rw [i1, j1], i2, i3⟩

end insrange

/-! ### `pvMergeToLinear` -/

section linear
variable (lt : α → α → Bool)

/-- `pvIsOrdered` as a proposition on two elements -/
def Ord (multi : Bool) (a b : α) : Prop := if multi then lt b a = false else lt a b = true

theorem isOrderedItems_iff (cfg : Cfg) (a b : α) : Tree.isOrderedItems lt cfg a b = true ↔ Ord lt cfg.multi a b := by
  unfold Tree.isOrderedItems Ord
  cases cfg.multi <;> simp

theorem sortedBy_iff_ord (multi : Bool) (l : List α) : SortedBy lt multi l ↔ l.Pairwise (Ord lt multi) := by
  unfold SortedBy Ord
  cases multi <;> simp

/-- `e` before `x` and `x` before-or-at `s` in a sorted source: `e` before `s` -/
theorem ord_trans (ho : Order lt) (multi : Bool) (e x s : α) (h1 : Ord lt multi e x) (h2 : Ord lt multi x s) :
    Ord lt multi e s := by
  unfold Ord at *
  cases multi with
  | true => simp only [if_true] at *; exact ho.le_trans e x s h1 h2
  | false => simp only [Bool.false_eq_true, if_false] at *; exact ho.lt_trans e x s h1 h2

/-- the skipping loop: it stops at the first destination element from `q` on that is not ordered before `x` -/
theorem skip_spec (cfg : Cfg) (dst : Tree α) (hw : dst.WF cfg) (x : α) (fuel : Nat) (dpos : Pos)
    (hv : dst.ValidPos dpos) (hf : dst.toList.length ≤ dst.idxOf dpos + fuel) :
    dst.ValidPos (Tree.mergeLinear.skip lt cfg dst x fuel dpos) ∧
    dst.idxOf dpos ≤ dst.idxOf (Tree.mergeLinear.skip lt cfg dst x fuel dpos) ∧
    (∀ j y, dst.idxOf dpos ≤ j → j < dst.idxOf (Tree.mergeLinear.skip lt cfg dst x fuel dpos) →
        dst.toList[j]? = some y → Ord lt cfg.multi y x) ∧
    (∀ y, dst.toList[dst.idxOf (Tree.mergeLinear.skip lt cfg dst x fuel dpos)]? = some y → ¬ Ord lt cfg.multi y x) := by
  induction fuel generalizing dpos with
  | zero =>
    have hle := validPos_idx_le_len cfg dst hw dpos hv
    have he : dst.idxOf dpos = dst.toList.length := by omega
    simp only [Tree.mergeLinear.skip]
    refine ⟨hv, Nat.le_refl _, fun j y h1 h2 => by omega, fun y hy => ?_⟩
    have := lt_of_getElem? hy; omega
  | succ n ih =>
    simp only [Tree.mergeLinear.skip]
    by_cases hend : dpos = dst.endPos
    · rw [if_pos hend]
      have he := (tree_pos_eq_end_iff cfg dst hw dpos hv).mp hend
      refine ⟨hv, Nat.le_refl _, fun j y h1 h2 => by omega, fun y hy => ?_⟩
      have := lt_of_getElem? hy; omega
    · rw [if_neg hend]
      have hlt : dst.idxOf dpos < dst.toList.length := by
        have h1 := validPos_idx_le_len cfg dst hw dpos hv
        have h2 := mt (tree_pos_eq_end_iff cfg dst hw dpos hv).mpr hend
        omega
      have hve := validElem_of_idx_lt cfg dst hw dpos hv hlt
      obtain ⟨y0, hy1, hy2⟩ := tree_elemAt_spec cfg dst hw dpos hve
      simp only [hy1]
      by_cases ho' : Tree.isOrderedItems lt cfg y0 x = true
      · rw [if_pos ho']
        obtain ⟨n1, n2⟩ := tree_next_spec cfg dst hw dpos hve
        obtain ⟨i1, i2, i3, i4⟩ := ih (dst.next dpos) n2 (by omega)
        refine ⟨i1, by omega, ?_, i4⟩
        intro j y h1 h2 hy
        by_cases hj : j = dst.idxOf dpos
        · subst hj; rw [hy2] at hy; cases hy; exact (isOrderedItems_iff lt cfg _ _).mp ho'
        · exact i3 j y (by omega) h2 hy
      · rw [if_neg ho']
        refine ⟨hv, Nat.le_refl _, fun j y h1 h2 => by omega, fun y hy => ?_⟩
        rw [hy2] at hy; cases hy
        exact fun h => ho' ((isOrderedItems_iff lt cfg _ _).mpr h)

/-- stable insertion lands at `q` when everything before `q` is ordered before `x` and the element at `q` is not -/
theorem insert1_at (ho : Order lt) (multi : Bool) (l : List α) (q : Nat) (x : α) (hs : SortedBy lt multi l)
    (hq : q ≤ l.length) (h1 : ∀ j y, j < q → l[j]? = some y → Ord lt multi y x)
    (h2 : ∀ y, l[q]? = some y → lt x y = true) :
    Spec.insert1 lt multi l x = l.insertIdx q x := by
  have hsw := hs.weak ho
  have hbefore : ∀ j y, j < q → l[j]? = some y → lt x y = false := by
    intro j y hj hy
    have := h1 j y hj hy
    unfold Ord at this
    cases multi with
    | true => simpa using this
    | false => exact ho.asymm _ _ (by simpa using this)
  have hub : upperIdx lt l x = q := by
    rw [← firstTrue_upper]; exact firstTrue_eq_of _ l q hbefore hq h2
  unfold Spec.insert1
  rw [hub]
  split
  · rename_i hc
    exfalso
    obtain ⟨hm, hany⟩ := hc
    obtain ⟨y, hy, he⟩ := (any_equiv_iff lt _ _).mp hany
    simp only [equiv, Bool.and_eq_true, Bool.not_eq_true'] at he
    obtain ⟨j, hj⟩ := List.getElem?_of_mem hy
    obtain ⟨_, _, f3⟩ := upperIdx_facts lt ho l x hsw
    by_cases hjq : j < q
    · have := h1 j y hjq hj
      unfold Ord at this
      rw [hm] at this
      simp only [Bool.false_eq_true, if_false] at this
      rw [he.1] at this; cases this
    · have := f3 j y (by omega) hj
      rw [he.2] at this; cases this
  · rfl

theorem mergeLinear_go_spec (ho : Order lt) (cfg : Cfg) (hmax : 0 < cfg.maxCap) (fuel : Nat) (src dst : Tree α)
    (hws : src.WF cfg) (hss : SortedBy lt cfg.multi src.toList) (hwd : dst.WF cfg)
    (hsd : SortedBy lt cfg.multi dst.toList) (pos dpos : Pos) (hv : src.ValidPos pos) (hvd : dst.ValidPos dpos)
    (hf : src.toList.length ≤ src.idxOf pos + fuel)
    (hinv : ∀ j e i s, j < dst.idxOf dpos → dst.toList[j]? = some e → src.idxOf pos ≤ i → src.toList[i]? = some s →
      Ord lt cfg.multi e s) :
    (Tree.mergeLinear.go lt cfg fuel src dst pos dpos).2.toList =
        (src.toList.drop (src.idxOf pos)).foldl (Spec.insert1 lt cfg.multi) dst.toList ∧
    (Tree.mergeLinear.go lt cfg fuel src dst pos dpos).2.WF cfg ∧
    SortedBy lt cfg.multi (Tree.mergeLinear.go lt cfg fuel src dst pos dpos).2.toList ∧
    (Tree.mergeLinear.go lt cfg fuel src dst pos dpos).1.WF cfg ∧
    (Tree.mergeLinear.go lt cfg fuel src dst pos dpos).1.toList.Sublist src.toList := by
  induction fuel generalizing src dst pos dpos with
  | zero =>
    have hle := validPos_idx_le_len cfg src hws pos hv
    have : src.idxOf pos = src.toList.length := by omega
    simp only [Tree.mergeLinear.go]
    exact ⟨by rw [this]; simp, hwd, hsd, hws, List.Sublist.refl _⟩
  | succ n ih =>
    simp only [Tree.mergeLinear.go]
    by_cases hend : pos = src.endPos
    · rw [if_pos hend]
      have := (tree_pos_eq_end_iff cfg src hws pos hv).mp hend
      exact ⟨by rw [this]; simp, hwd, hsd, hws, List.Sublist.refl _⟩
    · rw [if_neg hend]
      have hlt : src.idxOf pos < src.toList.length := by
        have h1 := validPos_idx_le_len cfg src hws pos hv
        have h2 := mt (tree_pos_eq_end_iff cfg src hws pos hv).mpr hend
        omega
      have hve := validElem_of_idx_lt cfg src hws pos hv hlt
      obtain ⟨x, hx1, hx2⟩ := tree_elemAt_spec cfg src hws pos hve
      have hdrop : src.toList.drop (src.idxOf pos) = x :: src.toList.drop (src.idxOf pos + 1) := by
        rw [List.drop_eq_getElem_cons hlt]; congr 1
        rw [List.getElem?_eq_getElem hlt] at hx2; exact Option.some.inj hx2
      simp only [hx1]
      have hfd : dst.toList.length ≤ dst.idxOf dpos + (dst.count + 1) := by rw [hwd.count]; omega
      obtain ⟨k1, k2, k3, k4⟩ := skip_spec lt cfg dst hwd x (dst.count + 1) dpos hvd hfd
      generalize hdp : Tree.mergeLinear.skip lt cfg dst x (dst.count + 1) dpos = dp at k1 k2 k3 k4
      -- everything before the stopping point is ordered before `x`
      have hbefore : ∀ j y, j < dst.idxOf dp → dst.toList[j]? = some y → Ord lt cfg.multi y x := by
        intro j y hj hy
        by_cases hjq : j < dst.idxOf dpos
        · exact hinv j y (src.idxOf pos) x hjq hy (Nat.le_refl _) hx2
        · exact k3 j y (by omega) hj hy
      -- later source elements come after `x`
      have hsrc : ∀ i s, src.idxOf pos < i → src.toList[i]? = some s → Ord lt cfg.multi x s := by
        intro i s hi hs'
        have hp := (sortedBy_iff_ord lt cfg.multi _).mp hss
        have hil := lt_of_getElem? hs'
        have := List.pairwise_iff_getElem.mp hp (src.idxOf pos) i hlt hil hi
        rw [List.getElem?_eq_getElem hlt] at hx2
        rw [List.getElem?_eq_getElem hil] at hs'
        cases hx2; cases hs'; exact this
      have hgd := isGreater_spec lt dst cfg hwd dp k1 x
      have hdple := validPos_idx_le_len cfg dst hwd dp k1
      by_cases hcond : (cfg.multi || Tree.isGreater lt dst dp x) = true
      · rw [if_pos hcond]
        -- the element at the stopping point is greater than `x`
        have hat : ∀ y, dst.toList[dst.idxOf dp]? = some y → lt x y = true := by
          intro y hy
          have hno := k4 y hy
          rcases Bool.or_eq_true _ _ |>.mp hcond with hm | hgr
          · unfold Ord at hno; rw [hm] at hno
            simp only [if_true] at hno
            cases h : lt x y with
            | true => rfl
            | false => exact absurd h hno
          · rw [hgd, hy] at hgr; exact hgr
        have hins := insert1_at lt ho cfg.multi dst.toList (dst.idxOf dp) x hsd hdple hbefore hat
        obtain ⟨a1, a2, a3, a4⟩ := tree_add_spec cfg hmax dst hwd dp k1 x
        have hsorted : SortedBy lt cfg.multi (dst.add cfg dp x).1.toList := by
          rw [a1, ← hins]; exact insert1_sorted lt ho cfg.multi _ x hsd
        obtain ⟨r1, r2, r3, r4⟩ := tree_remove_spec cfg src hws pos hve
        have hss' : SortedBy lt cfg.multi (src.remove cfg pos).1.toList := by
          rw [r1]; exact sortedBy_eraseIdx lt _ _ _ hss
        obtain ⟨m1, m2⟩ := tree_next_spec cfg (dst.add cfg dp x).1 a2 _ a4
        have hsub : (src.remove cfg pos).1.toList.drop ((src.remove cfg pos).1.idxOf (src.remove cfg pos).2) =
            src.toList.drop (src.idxOf pos + 1) := by
          rw [r1, r3, List.eraseIdx_eq_take_drop_succ]
          have h1 : (src.toList.take (src.idxOf pos)).length = src.idxOf pos := by simp; omega
          rw [List.drop_append_of_le_length (by omega), List.drop_of_length_le (by omega)]
          simp
        obtain ⟨i1, i2, i3, i4, i5⟩ := ih (src.remove cfg pos).1 (dst.add cfg dp x).1 r2 hss' a2 hsorted
          (src.remove cfg pos).2 ((dst.add cfg dp x).1.next (dst.add cfg dp x).2) r4 m2
          (by rw [r1, r3, List.length_eraseIdx_of_lt hlt]; omega)
          (by
            intro j e i s hj he hi hs'
            rw [m1, a3] at hj
            rw [a1] at he
            -- the source element `s` is a later element of the old source
            rw [r3] at hi
            have hs'' : src.toList[i + 1]? = some s := by
              rw [r1, List.getElem?_eraseIdx_of_ge hi] at hs'; exact hs'
            have hxs := hsrc (i + 1) s (by omega) hs''
            by_cases hjq : j < dst.idxOf dp
            · rw [List.getElem?_insertIdx_of_lt hjq] at he
              exact ord_trans lt ho cfg.multi e x s (hbefore j e hjq he) hxs
            · have : j = dst.idxOf dp := by omega
              subst this
              rw [List.getElem?_insertIdx_self, if_pos hdple] at he
              cases he; exact hxs)
        exact ⟨by rw [i1, hsub, a1, hdrop, List.foldl_cons, hins], i2, i3, i4,
          i5.trans (by rw [r1]; exact List.eraseIdx_sublist _ _)⟩
      · rw [if_neg hcond]
        simp only [Bool.or_eq_true, not_or, Bool.not_eq_true] at hcond
        obtain ⟨hm, hng⟩ := hcond
        -- unique keys and the element at the stopping point is equivalent to `x`
        rw [hgd] at hng
        cases hy : dst.toList[dst.idxOf dp]? with
        | none => rw [hy] at hng; cases hng
        | some y =>
          rw [hy] at hng
          simp only at hng
          have hno := k4 y hy
          have hyx : lt y x = false := by
            unfold Ord at hno; rw [hm] at hno
            simp only [Bool.false_eq_true, if_false] at hno
            cases h : lt y x with
            | false => rfl
            | true => exact absurd h hno
          have hskip : Spec.insert1 lt cfg.multi dst.toList x = dst.toList := by
            unfold Spec.insert1
            rw [if_pos ⟨hm, (any_equiv_iff lt _ _).mpr ⟨y, List.mem_of_getElem? hy, by
              simp only [equiv, Bool.and_eq_true, Bool.not_eq_true']; exact ⟨hyx, hng⟩⟩⟩]
          obtain ⟨n1, n2⟩ := tree_next_spec cfg src hws pos hve
          have hdlt : dst.idxOf dp < dst.toList.length := lt_of_getElem? hy
          have hved := validElem_of_idx_lt cfg dst hwd dp k1 hdlt
          obtain ⟨d1, d2⟩ := tree_next_spec cfg dst hwd dp hved
          obtain ⟨i1, i2, i3, i4, i5⟩ := ih src dst hws hss hwd hsd (src.next pos) (dst.next dp) n2 d2 (by omega)
            (by
              intro j e i s hj he hi hs'
              rw [d1] at hj; rw [n1] at hi
              have hxs := hsrc i s (by omega) hs'
              by_cases hjq : j < dst.idxOf dp
              · exact ord_trans lt ho cfg.multi e x s (hbefore j e hjq he) hxs
              · have : j = dst.idxOf dp := by omega
                subst this
                rw [hy] at he; cases he
                -- y ≤ x < s
                unfold Ord at hxs ⊢
                rw [hm] at hxs ⊢
                simp only [Bool.false_eq_true, if_false] at hxs ⊢
                cases h : lt y s with
                | true => rfl
                | false =>
                  have := ho.le_trans s y x h hng
                  rw [this] at hxs; cases hxs)
          exact ⟨by rw [i1, n1, hdrop, List.foldl_cons, hskip], i2, i3, i4, i5⟩

/-- `pvMergeToLinear` gives the destination the same sequence as inserting the source elements one after the other -/
theorem tree_mergeLinear_spec (ho : Order lt) (cfg : Cfg) (hmax : 0 < cfg.maxCap) (src dst : Tree α)
    (hws : src.WF cfg) (hss : SortedBy lt cfg.multi src.toList) (hwd : dst.WF cfg)
    (hsd : SortedBy lt cfg.multi dst.toList) :
    (Tree.mergeLinear lt cfg src dst).2.toList = src.toList.foldl (Spec.insert1 lt cfg.multi) dst.toList ∧
    (Tree.mergeLinear lt cfg src dst).2.WF cfg ∧ SortedBy lt cfg.multi (Tree.mergeLinear lt cfg src dst).2.toList ∧
    (Tree.mergeLinear lt cfg src dst).1.WF cfg ∧ (Tree.mergeLinear lt cfg src dst).1.toList.Sublist src.toList := by
  obtain ⟨b1, b2, _, _⟩ := tree_begin_end_spec cfg src hws
  obtain ⟨c1, c2, _, _⟩ := tree_begin_end_spec cfg dst hwd
  have := mergeLinear_go_spec lt ho cfg hmax (src.count + dst.count + 1) src dst hws hss hwd hsd src.beginPos
    dst.beginPos b2 c2 (by rw [b1, hws.count]; omega) (by intro j e i s hj; rw [c1] at hj; omega)
  unfold Tree.mergeLinear
  rw [b1] at this
  simpa using this

end linear

/-! ### `MergeTo(TreeSet&)` -/

section mergeTo
variable (lt : α → α → Bool)

theorem node_last_elem {d : Nat} {r : Node α} (hb : Bal d r) (hne : toList r ≠ []) :
    elemAt? r (Node.prev r (Node.endPos r)) = (toList r).getLast? := by
  have hpos : 0 < idxOf r (Node.endPos r).path (Node.endPos r).idx := by
    rw [idxOf_endPos hb]; simp only [size]; exact List.length_pos_iff.mpr hne
  obtain ⟨p1, p2⟩ := BTree.prev_spec hb (Node.endPos r).path (Node.endPos r).idx (m := r) (by simp [Node.endPos])
    (by simp [Node.endPos]) hpos
  have hpp : (⟨(Node.endPos r).path, (Node.endPos r).idx⟩ : Pos) = Node.endPos r := rfl
  rw [hpp] at p1 p2
  obtain ⟨x, hx⟩ := validElem_elemAt p2
  have hx' := elemAt_toList hb _ _ x hx
  have hqq : (⟨(Node.prev r (Node.endPos r)).path, (Node.prev r (Node.endPos r)).idx⟩ : Pos) =
      Node.prev r (Node.endPos r) := rfl
  rw [hqq] at hx
  rw [hx, List.getLast?_eq_getElem?, ← hx']
  congr 1
  rw [idxOf_endPos hb] at p1; simp only [size] at p1; omega

theorem node_first_elem {d : Nat} {r : Node α} (hb : Bal d r) (hne : toList r ≠ []) :
    elemAt? r (Node.beginPos r) = (toList r).head? := by
  obtain ⟨b1, b2⟩ := beginPos_spec hb
  have hv : ValidElem r (Node.beginPos r).path (Node.beginPos r).idx := by
    rcases b2 with h | h
    · exact h
    · rw [h, idxOf_endPos hb] at b1
      simp only [size] at b1
      exact absurd (List.eq_nil_of_length_eq_zero b1) hne
  obtain ⟨x, hx⟩ := validElem_elemAt hv
  have hx' := elemAt_toList hb _ _ x hx
  have hqq : (⟨(Node.beginPos r).path, (Node.beginPos r).idx⟩ : Pos) = Node.beginPos r := rfl
  rw [hqq] at hx
  rw [hx, List.head?_eq_getElem?, ← hx', b1]

theorem sortedBy_append (ho : Order lt) (multi : Bool) (a b : List α) (x y : α) (ha : SortedBy lt multi a)
    (hb : SortedBy lt multi b) (hx : a.getLast? = some x) (hy : b.head? = some y) (hxy : Ord lt multi x y) :
    SortedBy lt multi (a ++ b) := by
  rw [sortedBy_iff_ord] at ha hb ⊢
  refine List.pairwise_append.mpr ⟨ha, hb, ?_⟩
  intro u hu v hv
  -- u is before-or-equal x, y before-or-equal v
  have hux : u = x ∨ Ord lt multi u x := by
    obtain ⟨init, rfl⟩ := List.getLast?_eq_some_iff.mp hx
    rcases List.mem_append.mp hu with h | h
    · exact Or.inr ((List.pairwise_append.mp ha).2.2 u h x (by simp))
    · simp at h; exact Or.inl h
  have hyv : y = v ∨ Ord lt multi y v := by
    cases b with
    | nil => simp at hy
    | cons b0 bs =>
      simp at hy; subst hy
      rcases List.mem_cons.mp hv with h | h
      · exact Or.inl h.symm
      · exact Or.inr ((List.pairwise_cons.mp hb).1 v h)
  rcases hux with rfl | hux
  · rcases hyv with rfl | hyv
    · exact hxy
    · exact ord_trans lt ho multi _ _ _ hxy hyv
  · rcases hyv with rfl | hyv
    · exact ord_trans lt ho multi _ _ _ hux hxy
    · exact ord_trans lt ho multi _ _ _ hux (ord_trans lt ho multi _ _ _ hxy hyv)

theorem toList_mk (r : Node α) (c : Nat) : (({ root := some r, count := c } : Tree α)).toList = Node.toList r := rfl

theorem toList_ne_nil_root (t : Tree α) (h : t.toList ≠ []) : ∃ r, t.root = some r ∧ toList r = t.toList := by
  unfold Tree.toList at h ⊢
  cases hr : t.root with
  | none => simp [hr] at h
  | some r => exact ⟨r, rfl, rfl⟩

/-- `MergeTo(TreeSet&)` by whatever path it takes (swap, `pvMergeFast` on either side, `pvMergeTo`, `pvMergeToLinear`):
    the destination ends with the reference merge of the two sequences and stays well-formed and sorted -/
theorem tree_mergeTo_spec (ho : Order lt) (cfg : Cfg) (hmax : 0 < cfg.maxCap) (src dst : Tree α)
    (hws : src.WF cfg) (hss : SortedBy lt cfg.multi src.toList) (hwd : dst.WF cfg)
    (hsd : SortedBy lt cfg.multi dst.toList) :
    (Tree.mergeTo lt cfg src dst).2.toList = Spec.merge lt cfg.multi src.toList dst.toList ∧
    (Tree.mergeTo lt cfg src dst).2.WF cfg ∧ SortedBy lt cfg.multi (Tree.mergeTo lt cfg src dst).2.toList ∧
    (Tree.mergeTo lt cfg src dst).1.WF cfg := by
  unfold Tree.mergeTo
  by_cases hs0 : src.count = 0
  · rw [if_pos hs0]
    have : src.toList = [] := by
      have := hws.count; rw [hs0] at this; exact List.eq_nil_of_length_eq_zero this.symm
    exact ⟨by simp [Spec.merge, this], hwd, hsd, hws⟩
  · rw [if_neg hs0]
    have hsne : src.toList ≠ [] := by
      intro h; apply hs0; rw [hws.count, h]; rfl
    obtain ⟨a, ha⟩ : ∃ a, src.toList.getLast? = some a := by
      cases h : src.toList.getLast? with
      | none => exact absurd (List.getLast?_eq_none_iff.mp h) hsne
      | some a => exact ⟨a, rfl⟩
    by_cases hd0 : dst.count = 0
    · rw [if_pos hd0]
      have : dst.toList = [] := by
        have := hwd.count; rw [hd0] at this; exact List.eq_nil_of_length_eq_zero this.symm
      exact ⟨by simp [Spec.merge, this, ha], hws, hss, Tree.wf_empty cfg⟩
    · rw [if_neg hd0]
      have hdne : dst.toList ≠ [] := by
        intro h; apply hd0; rw [hwd.count, h]; rfl
      obtain ⟨rs, hrs, hrsl⟩ := toList_ne_nil_root src hsne
      obtain ⟨rd, hrd, hrdl⟩ := toList_ne_nil_root dst hdne
      obtain ⟨ds, hbs⟩ := hws.bal rs hrs
      obtain ⟨dd, hbd⟩ := hwd.bal rd hrd
      have e1 := node_last_elem hbs (by rw [hrsl]; exact hsne)
      have e2 := node_first_elem hbd (by rw [hrdl]; exact hdne)
      have e3 := node_last_elem hbd (by rw [hrdl]; exact hdne)
      have e4 := node_first_elem hbs (by rw [hrsl]; exact hsne)
      rw [hrsl] at e1 e4; rw [hrdl] at e2 e3
      obtain ⟨b, hb⟩ : ∃ b, dst.toList.head? = some b := by
        cases h : dst.toList.head? with
        | none => exact absurd (List.head?_eq_none_iff.mp h) hdne
        | some b => exact ⟨b, rfl⟩
      obtain ⟨c, hc⟩ : ∃ c, dst.toList.getLast? = some c := by
        cases h : dst.toList.getLast? with
        | none => exact absurd (List.getLast?_eq_none_iff.mp h) hdne
        | some c => exact ⟨c, rfl⟩
      obtain ⟨d0, hd⟩ : ∃ d0, src.toList.head? = some d0 := by
        cases h : src.toList.head? with
        | none => exact absurd (List.head?_eq_none_iff.mp h) hsne
        | some d0 => exact ⟨d0, rfl⟩
      simp only [hrs, hrd, e1, e2, e3, e4, ha, hb, hc, hd]
      have hspec : Spec.merge lt cfg.multi src.toList dst.toList =
          (if Spec.ordered lt cfg.multi a b then src.toList ++ dst.toList
           else if Spec.ordered lt cfg.multi c d0 then dst.toList ++ src.toList
           else src.toList.foldl (Spec.insert1 lt cfg.multi) dst.toList) := by
        simp only [Spec.merge, ha, hb, hc, hd]
      have hordEq : ∀ u v, Spec.ordered lt cfg.multi u v = Tree.isOrderedItems lt cfg u v := by
        intro u v; rfl
      rw [hspec, hordEq, hordEq]
      have hcs := hws.count
      have hcd := hwd.count
      by_cases h1 : Tree.isOrderedItems lt cfg a b = true
      · rw [if_pos h1, if_pos h1]
        obtain ⟨m1, ⟨dm, m2⟩, m3⟩ := mergeFast_spec cfg hmax hbs hbd (by rw [hrsl]; exact hsne) (by rw [hrdl]; exact hdne)
        rw [hrsl, hrdl] at m1
        refine ⟨by rw [toList_mk, m1], ⟨?_, ?_, ?_⟩, ?_, Tree.wf_empty cfg⟩
        · rw [toList_mk, m1, List.length_append]; simp only; omega
        · intro r h; cases h; exact ⟨dm, m2⟩
        · intro r h; cases h; exact m3 (hws.caps rs hrs) (hwd.caps rd hrd)
        · rw [toList_mk, m1]
          exact sortedBy_append lt ho cfg.multi _ _ a b hss hsd ha hb ((isOrderedItems_iff lt cfg a b).mp h1)
      · rw [if_neg h1, if_neg h1]
        by_cases h2 : Tree.isOrderedItems lt cfg c d0 = true
        · rw [if_pos h2, if_pos h2]
          obtain ⟨m1, ⟨dm, m2⟩, m3⟩ := mergeFast_spec cfg hmax hbd hbs (by rw [hrdl]; exact hdne) (by rw [hrsl]; exact hsne)
          rw [hrsl, hrdl] at m1
          refine ⟨by rw [toList_mk, m1], ⟨?_, ?_, ?_⟩, ?_, Tree.wf_empty cfg⟩
          · rw [toList_mk, m1, List.length_append]; simp only; omega
          · intro r h; cases h; exact ⟨dm, m2⟩
          · intro r h; cases h; exact m3 (hwd.caps rd hrd) (hws.caps rs hrs)
          · rw [toList_mk, m1]
            exact sortedBy_append lt ho cfg.multi _ _ c d0 hsd hss hc hd ((isOrderedItems_iff lt cfg c d0).mp h2)
        · rw [if_neg h2, if_neg h2]
          split
          · obtain ⟨g1, g2, g3, g4, _⟩ := tree_mergeGeneric_spec lt ho cfg hmax src dst hws hwd hsd
            exact ⟨g1, g2, g3, g4⟩
          · obtain ⟨g1, g2, g3, g4, _⟩ := tree_mergeLinear_spec lt ho cfg hmax src dst hws hss hwd hsd
            exact ⟨g1, g2, g3, g4⟩

end mergeTo

end Momo.BTree
