import Mathlib.Data.Nat.ModEq
import Momo.Model.HashMeta
import Momo.Proof.ProbeAdd
/-!
  Arithmetic of the hash-probe bytes (C12): bitwise form = arithmetic form, exact value of the code that
  `GetHashCodePart` reconstructs, and what a code that agrees with the true hash on the bits of its group
  is worth (same start bucket, same short hash, same hash-probe byte).
-/
namespace Momo.HashMeta

theorem pow64_dvd (L : Nat) (hL : L ≤ 64) : 2 ^ L ∣ 2 ^ 64 := Nat.pow_dvd_pow 2 hL

/-- undoing a displacement `t` modulo `2^L` inside 64-bit arithmetic (`K` = the `bucketCount` LimP4 adds, or 0) -/
theorem unprobe (a t K L : Nat) (hL : L ≤ 64) (ht : t ≤ 2 ^ 64) (hK : 2 ^ L ∣ K) :
    w64 ((a % 2 ^ L + t) % 2 ^ L + K + (2 ^ 64 - t)) % 2 ^ L = a % 2 ^ L := by
  unfold w64
  rw [Nat.mod_mod_of_dvd _ (pow64_dvd L hL)]
  have h1 : (a % 2 ^ L + t) % 2 ^ L ≡ a + t [MOD 2 ^ L] :=
    (Nat.mod_modEq _ _).trans (Nat.ModEq.add_right _ (Nat.mod_modEq _ _))
  have h2 := (h1.add_right K).add_right (2 ^ 64 - t)
  have e : a + t + K + (2 ^ 64 - t) = a + (K + 2 ^ 64) := by omega
  rw [e] at h2
  obtain ⟨c, hc⟩ := Nat.dvd_add hK (pow64_dvd L hL)
  rw [hc] at h2
  have h3 : (a + 2 ^ L * c) % 2 ^ L = a % 2 ^ L := Nat.add_mul_mod_self_left _ _ _
  exact h2.trans h3

theorem field_mod (m p s : Nat) (hp : p < 2 ^ s) : (m * 2 ^ s + p) % 2 ^ s = p := by
  rw [Nat.add_comm, Nat.add_mul_mod_self_right, Nat.mod_eq_of_lt hp]

theorem field_div (m p s : Nat) (hp : p < 2 ^ s) : (m * 2 ^ s + p) / 2 ^ s = m := by
  rw [Nat.add_comm, Nat.add_mul_div_right _ _ (Nat.two_pow_pos s), Nat.div_eq_of_lt hp, Nat.zero_add]

/-- `h % 2^(L+t)` split at bit `L` -/
theorem mod_split (h L t : Nat) : h % 2 ^ L + ((h / 2 ^ L) % 2 ^ t) * 2 ^ L = h % 2 ^ (L + t) := by
  rw [Nat.pow_add, Nat.mod_mul, Nat.mul_comm (2 ^ L)]

/-- a bit field placed above `L` bits: `|` is `+` -/
theorem or_field (a m L : Nat) (ha : a < 2 ^ L) : a ||| (m <<< L) = a + m * 2 ^ L := by
  rw [Nat.or_comm, ← Nat.shiftLeft_add_eq_or_of_lt ha, Nat.shiftLeft_eq, Nat.add_comm]

/-- the top seven bits of a 64-bit value fit a byte and survive the round trip -/
theorem top7_lt (h : Nat) (hh : h < 2 ^ 64) : h >>> 57 < 128 := by
  rw [Nat.shiftRight_eq_div_pow]; omega

theorem top7_shift_lt (h : Nat) (hh : h < 2 ^ 64) : (h >>> 57) <<< 57 < 2 ^ 64 := by
  rw [Nat.shiftRight_eq_div_pow, Nat.shiftLeft_eq]
  have := Nat.div_mul_le_self h (2 ^ 57)
  omega

/-! ### agreement of a (partial) code with the true hash code -/

/-- `c` carries the low `B` bits and the top seven bits of `h` -/
def Agree (B c h : Nat) : Prop := c % 2 ^ B = h % 2 ^ B ∧ c >>> 57 = h >>> 57

theorem Agree.refl (B h : Nat) : Agree B h h := ⟨rfl, rfl⟩

theorem Agree.trans {B a b c : Nat} (h1 : Agree B a b) (h2 : Agree B b c) : Agree B a c :=
  ⟨h1.1.trans h2.1, h1.2.trans h2.2⟩

theorem Agree.low {B c h : Nat} (ha : Agree B c h) (L : Nat) (hL : L ≤ B) : c % 2 ^ L = h % 2 ^ L := by
  have d : 2 ^ L ∣ 2 ^ B := Nat.pow_dvd_pow 2 hL
  rw [← Nat.mod_mod_of_dvd c d, ← Nat.mod_mod_of_dvd h d, ha.1]

theorem Agree.mono {B B' c h : Nat} (ha : Agree B c h) (hB : B' ≤ B) : Agree B' c h :=
  ⟨ha.low B' hB, ha.2⟩

/-- a bit field of the code that lies inside the agreed bits -/
theorem Agree.field {B c h : Nat} (ha : Agree B c h) (L t : Nat) (hB : L + t ≤ B) :
    (c / 2 ^ L) % 2 ^ t = (h / 2 ^ L) % 2 ^ t := by
  rw [← Nat.mod_mul_right_div_self, ← Nat.mod_mul_right_div_self, ← Nat.pow_add, ha.low (L + t) hB]

/-- the value `GetHashCodePart` assembles: low `B` bits and top seven bits of `h`, nothing else -/
def partOf (B h : Nat) : Nat := h % 2 ^ B ||| (h >>> 57) <<< 57

theorem partOf_agree (B h : Nat) (hB : B ≤ 57) : Agree B (partOf B h) h := by
  unfold partOf Agree
  constructor
  · apply Nat.eq_of_testBit_eq
    intro i
    simp only [Nat.testBit_mod_two_pow, Nat.testBit_or, Nat.testBit_shiftLeft, Nat.testBit_shiftRight]
    by_cases hi : i < B
    · have : ¬ (57 ≤ i) := by omega
      simp [hi, this]
    · simp [hi]
  · apply Nat.eq_of_testBit_eq
    intro i
    simp only [Nat.testBit_mod_two_pow, Nat.testBit_or, Nat.testBit_shiftLeft, Nat.testBit_shiftRight]
    have h1 : ¬ (57 + i < B) := by omega
    have h2 : 57 ≤ 57 + i := by omega
    have h3 : 57 + i - 57 = i := by omega
    simp [h1, h2, h3]

theorem partOf_lt (B h : Nat) (hB : B ≤ 57) (hh : h < 2 ^ 64) : partOf B h < 2 ^ 64 := by
  unfold partOf
  apply Nat.or_lt_two_pow
  · have : h % 2 ^ B < 2 ^ B := Nat.mod_lt _ (Nat.two_pow_pos B)
    have : 2 ^ B ≤ 2 ^ 64 := Nat.pow_le_pow_right (by decide) (by omega)
    omega
  · exact top7_shift_lt h hh

/-- bits of the group of `L`: `8 * ((L + 6) / 8) + 1` — every size of the group is at most this -/
def gbits (L : Nat) : Nat := 8 * ((L + 6) / 8) + 1

theorem le_gbits (L : Nat) : L ≤ gbits L := by unfold gbits; omega

theorem gbits_le (L : Nat) (hL : L ≤ 57) : gbits L ≤ 57 := by unfold gbits; omega

/-! ### LimP4 -/
namespace P4

theorem probeShift_eq (L : Nat) : probeShift L = (L + 6) % 8 := rfl
theorem group_eq (L : Nat) : group L = (L + 6) / 8 := rfl
theorem probeShift_lt (L : Nat) : probeShift L < 8 := by rw [probeShift_eq]; omega
theorem knownBits_eq (L : Nat) : knownBits L = gbits L := by
  unfold knownBits gbits; rw [probeShift_eq]; simp only [Extracted.limp4ShortHashBits]; omega
theorem gbits_of_group {L L' : Nat} (hg : group L = group L') : gbits L = gbits L' := by
  unfold gbits; rw [group_eq, group_eq] at hg; rw [hg]

/-- arithmetic form of the stored byte: marker + payload field + probe -/
def encA (h L p : Nat) : Nat := 128 + ((h / 2 ^ L) % 2 ^ (7 - probeShift L)) * 2 ^ probeShift L + p

private def encO (h L p : Nat) : Nat :=
  2 ^ 7 ||| ((((h >>> L) % 2 ^ (7 - probeShift L)) <<< probeShift L) ||| p)

private theorem encB_eq_encO (h L p : Nat) (hp : p < 2 ^ probeShift L) :
    128 ||| (((h >>> L) <<< probeShift L) % 256) ||| (p % 256) = encO h L p := by
  have hs := probeShift_lt L
  unfold encO
  generalize probeShift L = s at *
  have hp256 : p < 256 := by
    have : 2 ^ s ≤ 2 ^ 7 := Nat.pow_le_pow_right (by decide) (by omega)
    omega
  rw [Nat.mod_eq_of_lt hp256]
  apply Nat.eq_of_testBit_eq
  intro i
  have h256 : (256:Nat) = 2 ^ 8 := by decide
  have h128 : (128:Nat) = 2 ^ 7 := by decide
  simp only [Nat.testBit_or, h256, h128, Nat.testBit_mod_two_pow, Nat.testBit_shiftLeft,
    Nat.testBit_shiftRight, Nat.testBit_two_pow]
  have hpi : s ≤ i → p.testBit i = false := fun hsi =>
    Nat.testBit_lt_two_pow (Nat.lt_of_lt_of_le hp (Nat.pow_le_pow_right (by decide) hsi))
  by_cases h7 : 7 = i
  · subst h7; simp
  · by_cases hi8 : i < 8
    · by_cases hsi : s ≤ i
      · have : i - s < 7 - s := by omega
        simp [hi8, hsi, this, h7]
      · simp [hsi]
    · have hsi : s ≤ i := by omega
      have : ¬ (i - s < 7 - s) := by omega
      simp [hi8, hpi hsi, this, h7]

private theorem encO_eq_encA (h L p : Nat) (hp : p < 2 ^ probeShift L) : encO h L p = encA h L p := by
  have hs := probeShift_lt L
  unfold encO encA
  generalize probeShift L = s at *
  have hm : (h >>> L) % 2 ^ (7 - s) < 2 ^ (7 - s) := Nat.mod_lt _ (Nat.two_pow_pos _)
  rw [← Nat.shiftLeft_add_eq_or_of_lt hp, Nat.shiftLeft_eq, Nat.shiftRight_eq_div_pow]
  have hlt : (h / 2 ^ L) % 2 ^ (7 - s) * 2 ^ s + p < 2 ^ 7 := by
    have e : 2 ^ 7 = 2 ^ (7 - s) * 2 ^ s := by rw [← Nat.pow_add]; congr 1; omega
    rw [Nat.shiftRight_eq_div_pow] at hm
    have h1 : (h / 2 ^ L) % 2 ^ (7 - s) + 1 ≤ 2 ^ (7 - s) := hm
    have h2 := Nat.mul_le_mul_right (2 ^ s) h1
    rw [Nat.add_mul] at h2
    omega
  have := Nat.two_pow_add_eq_or_of_lt hlt 1
  rw [Nat.mul_one] at this
  rw [← this]
  omega

/-- the byte written by `pvSetHashProbe` for an in-range probe, in arithmetic form -/
theorem encByte_arith (h L p : Nat) (hp : p < 2 ^ probeShift L) : encByte h L p = encA h L p := by
  rw [← encO_eq_encA h L p hp, ← encB_eq_encO h L p hp]
  unfold encByte u8
  simp only [hp, if_true]

theorem encByte_far (h L p : Nat) (hp : ¬ p < 2 ^ probeShift L) : encByte h L p = 255 := by
  unfold encByte; simp only [hp, if_false]

theorem field_lt (h L : Nat) : ((h / 2 ^ L) % 2 ^ (7 - probeShift L)) * 2 ^ probeShift L + 2 ^ probeShift L ≤ 128 := by
  have hs := probeShift_lt L
  generalize probeShift L = s at *
  have hm : (h / 2 ^ L) % 2 ^ (7 - s) + 1 ≤ 2 ^ (7 - s) := Nat.mod_lt _ (Nat.two_pow_pos _)
  have h2 := Nat.mul_le_mul_right (2 ^ s) hm
  have e : 2 ^ (7 - s) * 2 ^ s = 128 := by
    rw [← Nat.pow_add]; have : 7 - s + s = 7 := by omega
    rw [this]
  rw [Nat.add_mul, e, Nat.one_mul] at h2
  exact h2

/-- every stored byte carries the marker bit, so it is never mistaken for a short hash -/
theorem encByte_ge (h L p : Nat) : 128 ≤ encByte h L p ∧ encByte h L p ≤ 255 := by
  by_cases hp : p < 2 ^ probeShift L
  · rw [encByte_arith h L p hp]; unfold encA
    have := field_lt h L
    omega
  · rw [encByte_far h L p hp]; omega

theorem shortHash_lt (h : Nat) (hh : h < 2 ^ 64) : shortHash h < 128 := by
  unfold shortHash u8 hashCodeShift
  simp only [Extracted.limp4ShortHashBits]
  have := top7_lt h hh
  omega

theorem shortHash_eq (h : Nat) (hh : h < 2 ^ 64) : shortHash h = h >>> 57 := by
  unfold shortHash u8 hashCodeShift
  simp only [Extracted.limp4ShortHashBits]
  have := top7_lt h hh
  omega

/-- **exact value of the reconstructed code**: all bits below `knownBits L` and the seven top bits of `h`,
    for every hash code, table size and in-range displacement; `idx` is the bucket that linear probing
    reaches after `p` steps from the start bucket -/
theorem decode_enc (h L p : Nat) (hh : h < 2 ^ 64) (hL : L ≤ 57) (hp : p < 2 ^ probeShift L) :
    decode (encByte h L p) (shortHash h) ((h % 2 ^ L + p) % 2 ^ L) L = partOf (knownBits L) h := by
  have hs := probeShift_lt L
  have hkb : knownBits L = L + (7 - probeShift L) := by
    unfold knownBits; simp only [Extracted.limp4ShortHashBits]; omega
  have hkb57 : knownBits L ≤ 57 := by rw [knownBits_eq]; exact gbits_le L hL
  rw [encByte_arith h L p hp, shortHash_eq h hh, hkb]
  unfold decode encA partOf
  rw [hkb] at hkb57
  generalize probeShift L = s at *
  generalize hm : (h / 2 ^ L) % 2 ^ (7 - s) = m
  have hmlt : m < 2 ^ (7 - s) := by rw [← hm]; exact Nat.mod_lt _ (Nat.two_pow_pos _)
  have h2s : 2 ^ s ≤ 128 := by
    have : 2 ^ s ≤ 2 ^ 7 := Nat.pow_le_pow_right (by decide) (by omega)
    omega
  -- the probe field
  have e128 : 128 = 2 ^ (7 - s) * 2 ^ s := by
    rw [← Nat.pow_add]; have : 7 - s + s = 7 := by omega
    rw [this]
  have hprobe : (128 + m * 2 ^ s + p) &&& (2 ^ s - 1) = p := by
    rw [Probe.and_mask]
    have : 128 + m * 2 ^ s + p = (2 ^ (7 - s) + m) * 2 ^ s + p := by rw [Nat.add_mul, ← e128]
    rw [this, field_mod _ _ _ hp]
  -- the payload field
  have hpay : (128 + m * 2 ^ s + p - Extracted.limp4MaskEmpty) >>> s = m := by
    simp only [Extracted.limp4MaskEmpty]
    have : 128 + m * 2 ^ s + p - 128 = m * 2 ^ s + p := by omega
    rw [this, Nat.shiftRight_eq_div_pow, field_div _ _ _ hp]
  rw [hprobe, hpay]
  -- start bucket
  have hstart : w64 ((h % 2 ^ L + p) % 2 ^ L + 2 ^ L + (2 ^ 64 - p)) &&& (2 ^ L - 1) = h % 2 ^ L := by
    rw [Probe.and_mask]
    exact unprobe h p (2 ^ L) L (by omega) (by omega) (Nat.dvd_refl _)
  rw [hstart]
  -- no 64-bit truncation
  have hmL : m * 2 ^ L < 2 ^ 64 := by
    have h1 : m * 2 ^ L < 2 ^ (7 - s) * 2 ^ L := Nat.mul_lt_mul_of_pos_right hmlt (Nat.two_pow_pos L)
    rw [← Nat.pow_add] at h1
    have : 2 ^ (7 - s + L) ≤ 2 ^ 64 := Nat.pow_le_pow_right (by decide) (by omega)
    omega
  have hw1 : w64 (m <<< L) = m <<< L := by
    unfold w64; rw [Nat.shiftLeft_eq]; exact Nat.mod_eq_of_lt hmL
  have hw2 : w64 ((h >>> 57) <<< hashCodeShift) = (h >>> 57) <<< 57 := by
    unfold w64 hashCodeShift; simp only [Extracted.limp4ShortHashBits]
    exact Nat.mod_eq_of_lt (top7_shift_lt h hh)
  rw [hw1, hw2, or_field _ _ _ (Nat.mod_lt _ (Nat.two_pow_pos L)), ← hm, mod_split]

/-- a byte that passes the usability test of `GetHashCodePart` was written for an in-range probe -/
theorem usable_inrange (h L p : Nat) (hu : ¬ (u8 (encByte h L p + 1) ≤ maskEmpty)) : p < 2 ^ probeShift L := by
  apply Decidable.byContradiction
  intro hp
  rw [encByte_far h L p hp] at hu
  simp [u8] at hu

/-- a partial code that agrees with `h` on the bits of its group produces the very byte `h` would -/
theorem agree_enc {c h : Nat} (L p : Nat) (ha : Agree (gbits L) c h) : encByte c L p = encByte h L p := by
  by_cases hp : p < 2 ^ probeShift L
  · rw [encByte_arith _ _ _ hp, encByte_arith _ _ _ hp]
    unfold encA
    have hs := probeShift_lt L
    have : L + (7 - probeShift L) ≤ gbits L := by unfold gbits; rw [probeShift_eq]; omega
    rw [ha.field L (7 - probeShift L) this]
  · rw [encByte_far _ _ _ hp, encByte_far _ _ _ hp]

theorem agree_short {B c h : Nat} (ha : Agree B c h) : shortHash c = shortHash h := by
  unfold shortHash hashCodeShift; simp only [Extracted.limp4ShortHashBits]
  have : (64 - 7 : Nat) = 57 := by decide
  rw [this, ha.2]

end P4

/-! ### Open2N2 -/
namespace O2

theorem probeShift_eq (L : Nat) : probeShift L = (L + 7) % 8 := rfl
theorem group_eq (L : Nat) : group L = (L + 6) / 8 := rfl
theorem probeShift_lt (L : Nat) : probeShift L < 8 := by rw [probeShift_eq]; omega
/-- away from the first size of a group the payload ends exactly at the group's bit count -/
theorem knownBits_eq (L : Nat) (hs : 0 < probeShift L) : knownBits L = gbits L := by
  unfold knownBits gbits; rw [probeShift_eq] at *; omega
theorem gbits_of_group {L L' : Nat} (hg : group L = group L') : gbits L = gbits L' := by
  unfold gbits; rw [group_eq, group_eq] at hg; rw [hg]
/-- the sufficiency test is offset by one from the payload boundary: a later size of the same group exists only
    when the probe shift is positive (this is the `MOMO_ASSERT(probeShift > 0)` of the source) -/
theorem probeShift_pos {L L' : Nat} (hlt : L < L') (hg : group L = group L') : 0 < probeShift L := by
  rw [group_eq, group_eq] at hg; rw [probeShift_eq]; omega

/-- arithmetic form of the stored byte: payload field + probe -/
def encA (h L p : Nat) : Nat := ((h / 2 ^ L) % 2 ^ (8 - probeShift L)) * 2 ^ probeShift L + p

theorem encByte_arith (h L p : Nat) (hp : p < 2 ^ probeShift L) : encByte h L p = encA h L p := by
  have hs := probeShift_lt L
  unfold encByte encA u8
  simp only [hp, if_true]
  generalize probeShift L = s at *
  rw [← Nat.shiftLeft_add_eq_or_of_lt hp, Nat.shiftLeft_eq, Nat.shiftRight_eq_div_pow]
  have e : 256 = 2 ^ s * 2 ^ (8 - s) := by
    rw [← Nat.pow_add]; have : s + (8 - s) = 8 := by omega
    rw [this]
  rw [e, Nat.mod_mul, field_mod _ _ _ hp, field_div _ _ _ hp, Nat.mul_comm (2 ^ s), Nat.add_comm]

theorem encByte_far (h L p : Nat) (hp : ¬ p < 2 ^ probeShift L) : encByte h L p = 255 := by
  unfold encByte; simp only [hp, if_false]

theorem shortHash_lt (h : Nat) (hh : h < 2 ^ 64) : shortHash h < 128 := by
  unfold shortHash u8 hashCodeShift
  simp only [Extracted.open2n2HashShiftAddend]
  have := top7_lt h hh
  omega

theorem shortHash_eq (h : Nat) (hh : h < 2 ^ 64) : shortHash h = h >>> 57 := by
  unfold shortHash u8 hashCodeShift
  simp only [Extracted.open2n2HashShiftAddend]
  have := top7_lt h hh
  omega

/-- `probe2` is the triangular number: the displacement of quadratic probing after `p` steps -/
theorem probe2_eq_tri (p : Nat) : probe2 p = Probe.tri p := by
  unfold probe2 Probe.tri
  split
  · rename_i h0
    obtain ⟨k, rfl⟩ : ∃ k, p = 2 * k := ⟨p / 2, by omega⟩
    rw [Nat.mul_div_cancel_left _ (by decide : 0 < 2), Nat.mul_assoc, Nat.mul_div_cancel_left _ (by decide : 0 < 2)]
  · rename_i h1
    obtain ⟨k, rfl⟩ : ∃ k, p = 2 * k + 1 := ⟨p / 2, by omega⟩
    have e1 : (2 * k + 1 + 1) / 2 = k + 1 := by omega
    have e2 : (2 * k + 1) * (2 * k + 1 + 1) = 2 * ((2 * k + 1) * (k + 1)) := by
      rw [show 2 * k + 1 + 1 = 2 * (k + 1) by omega, Nat.mul_left_comm]
    rw [e1, e2, Nat.mul_div_cancel_left _ (by decide : 0 < 2)]

theorem tri_lt (p : Nat) (hp : p < 256) : Probe.tri p < 2 ^ 64 := by
  unfold Probe.tri
  have h1 : p * (p + 1) ≤ 255 * 256 := Nat.mul_le_mul (by omega) (by omega)
  have : p * (p + 1) / 2 ≤ p * (p + 1) := Nat.div_le_self _ _
  omega

/-- **exact value of the reconstructed code** (probe shift positive, i.e. not the first size of a group);
    `idx` is the bucket that quadratic probing reaches after `p` steps from the start bucket -/
theorem decode_enc (h L p : Nat) (hh : h < 2 ^ 64) (hL : L ≤ 57) (hs0 : 0 < probeShift L) (hp : p < 2 ^ probeShift L) :
    decode (encByte h L p) (shortHash h) ((h % 2 ^ L + Probe.tri p) % 2 ^ L) L = partOf (knownBits L) h := by
  have hs := probeShift_lt L
  have hkb57 : knownBits L ≤ 57 := by rw [knownBits_eq L hs0]; exact gbits_le L hL
  have hkb : knownBits L = L + (8 - probeShift L) := by unfold knownBits; omega
  rw [encByte_arith h L p hp, shortHash_eq h hh, hkb]
  unfold decode encA partOf
  rw [hkb] at hkb57
  generalize probeShift L = s at *
  generalize hm : (h / 2 ^ L) % 2 ^ (8 - s) = m
  have hmlt : m < 2 ^ (8 - s) := by rw [← hm]; exact Nat.mod_lt _ (Nat.two_pow_pos _)
  have h2s : 2 ^ s ≤ 128 := by
    have : 2 ^ s ≤ 2 ^ 7 := Nat.pow_le_pow_right (by decide) (by omega)
    omega
  have hprobe : (m * 2 ^ s + p) &&& (2 ^ s - 1) = p := by rw [Probe.and_mask, field_mod _ _ _ hp]
  have hpay : (m * 2 ^ s + p) >>> s = m := by rw [Nat.shiftRight_eq_div_pow, field_div _ _ _ hp]
  rw [hprobe, hpay, probe2_eq_tri]
  have hstart : w64 ((h % 2 ^ L + Probe.tri p) % 2 ^ L + (2 ^ 64 - Probe.tri p)) &&& (2 ^ L - 1) = h % 2 ^ L := by
    rw [Probe.and_mask]
    have := unprobe h (Probe.tri p) 0 L (by omega) (Nat.le_of_lt (tri_lt p (by omega))) (Nat.dvd_zero _)
    simpa using this
  rw [hstart]
  have hmL : m * 2 ^ L < 2 ^ 64 := by
    have h1 : m * 2 ^ L < 2 ^ (8 - s) * 2 ^ L := Nat.mul_lt_mul_of_pos_right hmlt (Nat.two_pow_pos L)
    rw [← Nat.pow_add] at h1
    have : 2 ^ (8 - s + L) ≤ 2 ^ 64 := Nat.pow_le_pow_right (by decide) (by omega)
    omega
  have hw1 : w64 (m <<< L) = m <<< L := by
    unfold w64; rw [Nat.shiftLeft_eq]; exact Nat.mod_eq_of_lt hmL
  have hw2 : w64 ((h >>> 57) <<< hashCodeShift) = (h >>> 57) <<< 57 := by
    unfold w64 hashCodeShift; simp only [Extracted.open2n2HashShiftAddend]
    exact Nat.mod_eq_of_lt (top7_shift_lt h hh)
  rw [hw1, hw2, or_field _ _ _ (Nat.mod_lt _ (Nat.two_pow_pos L)), ← hm, mod_split]

theorem usable_inrange (h L p : Nat) (hu : ¬ (encByte h L p = emptyHashProbe)) : p < 2 ^ probeShift L := by
  apply Decidable.byContradiction
  intro hp
  exact hu (by rw [encByte_far h L p hp])

/-- away from the first size of a group a partial code produces the very byte `h` would -/
theorem agree_enc {c h : Nat} (L p : Nat) (hs0 : 0 < probeShift L) (ha : Agree (gbits L) c h) :
    encByte c L p = encByte h L p := by
  by_cases hp : p < 2 ^ probeShift L
  · rw [encByte_arith _ _ _ hp, encByte_arith _ _ _ hp]
    unfold encA
    have hs := probeShift_lt L
    have : L + (8 - probeShift L) ≤ gbits L := by unfold gbits; rw [probeShift_eq] at *; omega
    rw [ha.field L (8 - probeShift L) this]
  · rw [encByte_far _ _ _ hp, encByte_far _ _ _ hp]

theorem agree_short {B c h : Nat} (ha : Agree B c h) : shortHash c = shortHash h := by
  unfold shortHash hashCodeShift; simp only [Extracted.open2n2HashShiftAddend]
  have : (64 - 8 + 1 : Nat) = 57 := by decide
  rw [this, ha.2]

end O2

/-! ### One (8-byte state) -/
namespace One

theorem state8 (h : Nat) : hashState 8 h = 2 * (h % 2 ^ 63) + 1 := by
  unfold hashState w64
  simp only [show ¬ (8 < 8) by decide, if_false, Nat.shiftLeft_eq]
  have e : h * 2 ^ 1 % 2 ^ 64 = 2 * (h % 2 ^ 63) := by
    rw [Nat.mul_comm, show (2:Nat) ^ 64 = 2 ^ 1 * 2 ^ 63 by decide, Nat.mul_mod_mul_left, Nat.pow_one]
  rw [e]
  have := Nat.shiftLeft_add_eq_or_of_lt (a := h % 2 ^ 63) (b := 1) (i := 1) (by decide)
  rw [Nat.shiftLeft_eq, Nat.pow_one] at this
  rw [Nat.mul_comm 2, ← this]

/-- the reconstructed code is the hash without its top bit -/
theorem part8 (h full : Nat) : getHashCodePart 8 (hashState 8 h) full = h % 2 ^ 63 := by
  unfold getHashCodePart
  simp only [show ¬ (8 < 8) by decide, if_false]
  rw [state8, Nat.shiftRight_eq_div_pow]
  omega

theorem state8_congr {c h : Nat} (hc : c % 2 ^ 63 = h % 2 ^ 63) : hashState 8 c = hashState 8 h := by
  rw [state8, state8, hc]

end One

end Momo.HashMeta
