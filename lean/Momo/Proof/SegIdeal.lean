import Momo.Proof.SegLog
/-!
  Laws of the ideal (unbounded) index arithmetic of `SegmentedArraySettings`, for both sizings and every
  `logInitialItemCount`, over all naturals. Core Lean only.
-/
namespace Momo.Seg
open Momo

/-- what the container needs to know about its `Settings` -/
structure Sizing.Lawful (S : Sizing) : Prop where
  /-- `GetIndex ∘ GetSegItemIndexes = id` -/
  roundtrip : ∀ i, S.getIndex (S.getSeg i).1 (S.getSeg i).2 = i
  /-- the offset lies inside the segment -/
  item_lt : ∀ i, (S.getSeg i).2 < S.itemCount (S.getSeg i).1
  /-- `GetSegItemIndexes ∘ GetIndex = id` on every slot of every segment -/
  inverse : ∀ s o, o < S.itemCount s → S.getSeg (S.getIndex s o) = (s, o)
  /-- inside a segment consecutive offsets are consecutive indexes -/
  affine : ∀ s o, S.getIndex s o = S.getIndex s 0 + o
  /-- a segment starts where the previous one is full -/
  base_succ : ∀ s, S.getIndex (s + 1) 0 = S.getIndex s 0 + S.itemCount s
  base_zero : S.getIndex 0 0 = 0
  /-- no segment is empty -/
  count_pos : ∀ s, 0 < S.itemCount s

/-! ### literal forms (break when an extracted constant changes) -/

theorem logItem_def (n : Nat) : logItem n = (Nat.log2 n + 1) / 2 := rfl
theorem segLog_def (s : Nat) : segLog s = Nat.log2 ((s * 2 + 4) / 3) := rfl

theorem getSeg_sqrt (L0 index : Nat) : getSeg .sqrt L0 index =
    ((index / 2 ^ L0 + 1) / 2 ^ logItem (index / 2 ^ L0 + 1) + 2 ^ logItem (index / 2 ^ L0 + 1) - 2,
     ((index / 2 ^ L0 + 1) % 2 ^ logItem (index / 2 ^ L0 + 1)) * 2 ^ L0 + index % 2 ^ L0) := rfl

theorem getIndex_sqrt (L0 seg item : Nat) : getIndex .sqrt L0 seg item =
    ((seg + 2 - 2 ^ segLog seg) * 2 ^ segLog seg + item / 2 ^ L0 - 1) * 2 ^ L0 + item % 2 ^ L0 := rfl

theorem itemCount_sqrt (L0 seg : Nat) : itemCount .sqrt L0 seg = 2 ^ (segLog seg + L0) := rfl

/-! ### classes of `index1` and of segment indexes -/

/-- `k = logItem i1` means `i1 = 1` (k = 0) or `2^(2k-1) ≤ i1 < 2^(2k+1)` -/
theorem logItem_class (i1 : Nat) (h : 1 ≤ i1) :
    (logItem i1 = 0 ∧ i1 = 1) ∨
    (1 ≤ logItem i1 ∧ 2 ^ (2 * logItem i1 - 1) ≤ i1 ∧ i1 < 2 ^ (2 * logItem i1 + 1)) := by
  have hn : i1 ≠ 0 := by omega
  obtain ⟨lo, hi⟩ := log2_bounds i1 hn
  rw [logItem_def]
  by_cases hk : (Nat.log2 i1 + 1) / 2 = 0
  · left
    have hl : Nat.log2 i1 = 0 := by omega
    rw [hl] at hi
    have : i1 < 2 := by simpa using hi
    exact ⟨hk, by omega⟩
  · right
    refine ⟨by omega, ?_, ?_⟩
    · exact Nat.le_trans (Nat.pow_le_pow_right (by decide) (by omega)) lo
    · exact Nat.lt_of_lt_of_le hi (Nat.pow_le_pow_right (by decide) (by omega))

theorem logItem_unique (i1 k : Nat)
    (h : (k = 0 ∧ i1 = 1) ∨ (1 ≤ k ∧ 2 ^ (2 * k - 1) ≤ i1 ∧ i1 < 2 ^ (2 * k + 1))) : logItem i1 = k := by
  rw [logItem_def]
  rcases h with ⟨rfl, rfl⟩ | ⟨hk, lo, hi⟩
  · decide
  · have hn : i1 ≠ 0 := by have := Nat.two_pow_pos (2 * k - 1); omega
    have a : 2 * k - 1 ≤ Nat.log2 i1 := (Nat.le_log2 hn).mpr lo
    have b : Nat.log2 i1 < 2 * k + 1 := (Nat.log2_lt hn).mpr hi
    omega

/-- `k = segLog s` iff `3·2^k ≤ 2s + 4 < 6·2^k` -/
theorem segLog_class (s : Nat) : 3 * 2 ^ segLog s ≤ 2 * s + 4 ∧ 2 * s + 4 < 6 * 2 ^ segLog s := by
  rw [segLog_def]
  have hn : (s * 2 + 4) / 3 ≠ 0 := by omega
  obtain ⟨lo, hi⟩ := log2_bounds _ hn
  rw [Nat.pow_succ] at hi
  generalize 2 ^ Nat.log2 ((s * 2 + 4) / 3) = P at *
  omega

theorem segLog_unique (s k : Nat) (lo : 3 * 2 ^ k ≤ 2 * s + 4) (hi : 2 * s + 4 < 6 * 2 ^ k) : segLog s = k := by
  rw [segLog_def]
  apply log2_eq_of
  · rw [Nat.le_div_iff_mul_le (by decide)]; omega
  · rw [Nat.div_lt_iff_lt_mul (by decide), Nat.pow_succ]; omega

theorem two_pow_pred {k : Nat} (hk : 1 ≤ k) : 2 ^ k = 2 * 2 ^ (k - 1) := by
  have : k = (k - 1) + 1 := by omega
  conv => lhs; rw [this, Nat.pow_succ]
  omega

theorem two_pow_double (k : Nat) : 2 ^ (2 * k + 1) = 2 * 2 ^ k * 2 ^ k := by
  have : 2 * k + 1 = k + k + 1 := by omega
  rw [this, Nat.pow_succ, Nat.pow_add]
  generalize 2 ^ k = P
  rw [Nat.mul_comm (P * P) 2, Nat.mul_assoc]

/-- quotient range: for `k = logItem i1 ≥ 1`, `2^(k-1) ≤ i1 / 2^k < 2^(k+1)` -/
theorem quot_range (i1 k : Nat) (hk : 1 ≤ k) (lo : 2 ^ (2 * k - 1) ≤ i1) (hi : i1 < 2 ^ (2 * k + 1)) :
    2 ^ (k - 1) ≤ i1 / 2 ^ k ∧ i1 / 2 ^ k < 2 * 2 ^ k := by
  constructor
  · rw [Nat.le_div_iff_mul_le (Nat.two_pow_pos k), ← Nat.pow_add]
    have : k - 1 + k = 2 * k - 1 := by omega
    rw [this]; exact lo
  · rw [Nat.div_lt_iff_lt_mul (Nat.two_pow_pos k)]
    rw [← two_pow_double]; exact hi

/-! ### sqrt sizing -/

theorem segLog_getSeg (L0 index : Nat) :
    segLog (getSeg .sqrt L0 index).1 = logItem (index / 2 ^ L0 + 1) := by
  rw [getSeg_sqrt]
  show segLog ((index / 2 ^ L0 + 1) / 2 ^ logItem (index / 2 ^ L0 + 1) + 2 ^ logItem (index / 2 ^ L0 + 1) - 2) = _
  generalize hi1 : index / 2 ^ L0 + 1 = i1
  have h1 : 1 ≤ i1 := by rw [← hi1]; exact Nat.le_add_left 1 _
  rcases logItem_class i1 h1 with ⟨hk, rfl⟩ | ⟨hk, lo, hi⟩
  · rw [hk]; decide
  · generalize logItem i1 = k at *
    obtain ⟨q1, q2⟩ := quot_range i1 k hk lo hi
    have hp := two_pow_pred hk
    have hp0 := Nat.two_pow_pos (k - 1)
    apply segLog_unique <;> omega

theorem sqrt_roundtrip (L0 index : Nat) :
    getIndex .sqrt L0 (getSeg .sqrt L0 index).1 (getSeg .sqrt L0 index).2 = index := by
  rw [getIndex_sqrt, segLog_getSeg, getSeg_sqrt]
  show ((((index / 2 ^ L0 + 1) / 2 ^ logItem (index / 2 ^ L0 + 1) + 2 ^ logItem (index / 2 ^ L0 + 1) - 2) + 2
        - 2 ^ logItem (index / 2 ^ L0 + 1)) * 2 ^ logItem (index / 2 ^ L0 + 1)
      + (((index / 2 ^ L0 + 1) % 2 ^ logItem (index / 2 ^ L0 + 1)) * 2 ^ L0 + index % 2 ^ L0) / 2 ^ L0 - 1) * 2 ^ L0
      + (((index / 2 ^ L0 + 1) % 2 ^ logItem (index / 2 ^ L0 + 1)) * 2 ^ L0 + index % 2 ^ L0) % 2 ^ L0 = index
  generalize hi1 : index / 2 ^ L0 + 1 = i1
  generalize hkk : logItem i1 = k
  have hp := Nat.two_pow_pos L0
  have hpk := Nat.two_pow_pos k
  have hm : index % 2 ^ L0 < 2 ^ L0 := Nat.mod_lt _ hp
  have e1 : ((i1 % 2 ^ k) * 2 ^ L0 + index % 2 ^ L0) / 2 ^ L0 = i1 % 2 ^ k := by
    rw [Nat.add_comm, Nat.add_mul_div_right _ _ hp, Nat.div_eq_of_lt hm]; omega
  have e2 : ((i1 % 2 ^ k) * 2 ^ L0 + index % 2 ^ L0) % 2 ^ L0 = index % 2 ^ L0 := by
    rw [Nat.add_comm, Nat.add_mul_mod_self_right, Nat.mod_eq_of_lt hm]
  rw [e1, e2]
  have hi1' : 1 ≤ i1 := by rw [← hi1]; exact Nat.le_add_left 1 _
  have hq : 1 ≤ i1 / 2 ^ k ∨ 2 ≤ 2 ^ k := by
    by_cases hk0 : k = 0
    · left; subst hk0; simpa using hi1'
    · right
      have := two_pow_pred (k := k) (by omega)
      have := Nat.two_pow_pos (k - 1); omega
  have e3 : i1 / 2 ^ k + 2 ^ k - 2 + 2 - 2 ^ k = i1 / 2 ^ k := by
    generalize 2 ^ k = P at *
    generalize i1 / P = Q at *
    omega
  rw [e3]
  have e4 : i1 / 2 ^ k * 2 ^ k + i1 % 2 ^ k = i1 := by
    have := Nat.div_add_mod i1 (2 ^ k); rw [Nat.mul_comm] at this; exact this
  rw [e4, ← hi1]
  have := Nat.div_add_mod index (2 ^ L0)
  rw [Nat.mul_comm] at this
  simp; omega

theorem sqrt_item_lt (L0 index : Nat) :
    (getSeg .sqrt L0 index).2 < itemCount .sqrt L0 (getSeg .sqrt L0 index).1 := by
  rw [itemCount_sqrt, segLog_getSeg, getSeg_sqrt]
  show ((index / 2 ^ L0 + 1) % 2 ^ logItem (index / 2 ^ L0 + 1)) * 2 ^ L0 + index % 2 ^ L0 < _
  generalize logItem (index / 2 ^ L0 + 1) = k
  generalize index / 2 ^ L0 + 1 = i1
  have hp := Nat.two_pow_pos L0
  have hpk := Nat.two_pow_pos k
  have h1 : i1 % 2 ^ k < 2 ^ k := Nat.mod_lt _ hpk
  have h2 : index % 2 ^ L0 < 2 ^ L0 := Nat.mod_lt _ hp
  rw [Nat.pow_add]
  have : (i1 % 2 ^ k + 1) * 2 ^ L0 ≤ 2 ^ k * 2 ^ L0 := Nat.mul_le_mul_right _ h1
  rw [Nat.add_mul] at this
  omega

/-- the quotient `q = s + 2 - 2^k` of a segment of class `k = segLog s`: `2^k ≤ 2q < 4·2^k` -/
theorem seg_quot (s : Nat) :
    2 ^ segLog s ≤ 2 * (s + 2 - 2 ^ segLog s) ∧ 2 * (s + 2 - 2 ^ segLog s) < 4 * 2 ^ segLog s ∧
    2 ^ segLog s ≤ s + 2 - 1 := by
  obtain ⟨lo, hi⟩ := segLog_class s
  have := Nat.two_pow_pos (segLog s)
  generalize 2 ^ segLog s = P at *
  omega

/-- `logItem` of the `index1` rebuilt by `GetIndex` is the segment's class -/
theorem logItem_of_seg (s r : Nat) (hr : r < 2 ^ segLog s) :
    logItem ((s + 2 - 2 ^ segLog s) * 2 ^ segLog s + r) = segLog s := by
  obtain ⟨q1, q2, _⟩ := seg_quot s
  generalize hq : s + 2 - 2 ^ segLog s = q at *
  generalize segLog s = k at *
  apply logItem_unique
  by_cases hk : k = 0
  · left
    subst hk
    simp at *
    omega
  · right
    have hk1 : 1 ≤ k := by omega
    have hp := two_pow_pred hk1
    have hh := Nat.two_pow_pos (k - 1)
    refine ⟨hk1, ?_, ?_⟩
    · -- 2^(2k-1) = 2^(k-1) * 2^k ≤ q * 2^k
      have e : 2 ^ (2 * k - 1) = 2 ^ (k - 1) * 2 ^ k := by
        rw [← Nat.pow_add]; congr 1; omega
      rw [e]
      have : 2 ^ (k - 1) ≤ q := by omega
      exact Nat.le_trans (Nat.mul_le_mul_right _ this) (Nat.le_add_right _ _)
    · -- q * 2^k + r < (q+1) * 2^k ≤ 2*2^k * 2^k = 2^(2k+1)
      rw [two_pow_double]
      have h1 : q + 1 ≤ 2 * 2 ^ k := by omega
      have h2 : (q + 1) * 2 ^ k ≤ (2 * 2 ^ k) * 2 ^ k := Nat.mul_le_mul_right _ h1
      rw [Nat.add_mul] at h2
      omega

theorem sqrt_affine (L0 s o : Nat) : getIndex .sqrt L0 s o = getIndex .sqrt L0 s 0 + o := by
  rw [getIndex_sqrt, getIndex_sqrt]
  obtain ⟨q1, _, _⟩ := seg_quot s
  have hpk := Nat.two_pow_pos (segLog s)
  have hp := Nat.two_pow_pos L0
  have hqp : 1 ≤ (s + 2 - 2 ^ segLog s) * 2 ^ segLog s := by
    have : 1 ≤ s + 2 - 2 ^ segLog s := by omega
    exact Nat.le_trans hpk (Nat.le_mul_of_pos_left _ this)
  generalize (s + 2 - 2 ^ segLog s) * 2 ^ segLog s = B at *
  have e0 : (0 : Nat) / 2 ^ L0 = 0 := Nat.zero_div _
  have e1 : (0 : Nat) % 2 ^ L0 = 0 := Nat.zero_mod _
  rw [e0, e1]
  have e2 : B + o / 2 ^ L0 - 1 = (B - 1) + o / 2 ^ L0 := by
    generalize o / 2 ^ L0 = d; omega
  rw [e2, Nat.add_mul]
  have := Nat.div_add_mod o (2 ^ L0)
  rw [Nat.mul_comm] at this
  simp only [Nat.add_zero]
  omega

theorem sqrt_inverse (L0 s o : Nat) (ho : o < itemCount .sqrt L0 s) :
    getSeg .sqrt L0 (getIndex .sqrt L0 s o) = (s, o) := by
  rw [itemCount_sqrt, Nat.pow_add] at ho
  have hp := Nat.two_pow_pos L0
  have hpk := Nat.two_pow_pos (segLog s)
  have hr : o / 2 ^ L0 < 2 ^ segLog s := by
    rw [Nat.div_lt_iff_lt_mul hp]; exact ho
  have hcls := logItem_of_seg s (o / 2 ^ L0) hr
  obtain ⟨q1, _, _⟩ := seg_quot s
  have hq1 : 1 ≤ s + 2 - 2 ^ segLog s := by omega
  have hqp : 1 ≤ (s + 2 - 2 ^ segLog s) * 2 ^ segLog s :=
    Nat.le_trans hpk (Nat.le_mul_of_pos_left _ hq1)
  have hm : o % 2 ^ L0 < 2 ^ L0 := Nat.mod_lt _ hp
  -- index / 2^L0 + 1 = index1
  have hidx : getIndex .sqrt L0 s o / 2 ^ L0 + 1 = (s + 2 - 2 ^ segLog s) * 2 ^ segLog s + o / 2 ^ L0 := by
    rw [getIndex_sqrt, Nat.add_comm _ (o % 2 ^ L0), Nat.add_mul_div_right _ _ hp, Nat.div_eq_of_lt hm]
    generalize o / 2 ^ L0 = d
    generalize (s + 2 - 2 ^ segLog s) * 2 ^ segLog s = B at *
    omega
  have hmod : getIndex .sqrt L0 s o % 2 ^ L0 = o % 2 ^ L0 := by
    rw [getIndex_sqrt, Nat.add_comm _ (o % 2 ^ L0), Nat.add_mul_mod_self_right, Nat.mod_eq_of_lt hm]
  rw [getSeg_sqrt, hidx, hmod, hcls]
  have ediv : ((s + 2 - 2 ^ segLog s) * 2 ^ segLog s + o / 2 ^ L0) / 2 ^ segLog s = s + 2 - 2 ^ segLog s := by
    rw [Nat.add_comm, Nat.add_mul_div_right _ _ hpk, Nat.div_eq_of_lt hr]; omega
  have emod : ((s + 2 - 2 ^ segLog s) * 2 ^ segLog s + o / 2 ^ L0) % 2 ^ segLog s = o / 2 ^ L0 := by
    rw [Nat.add_comm, Nat.add_mul_mod_self_right, Nat.mod_eq_of_lt hr]
  rw [ediv, emod]
  have := Nat.div_add_mod o (2 ^ L0)
  rw [Nat.mul_comm] at this
  refine Prod.ext ?_ ?_
  · show s + 2 - 2 ^ segLog s + 2 ^ segLog s - 2 = s
    omega
  · show o / 2 ^ L0 * 2 ^ L0 + o % 2 ^ L0 = o
    exact this

/-- the class of the next segment: same class, or the next class exactly at `s = 3·2^k - 3` -/
theorem segLog_succ (s : Nat) :
    segLog (s + 1) = segLog s ∨ (segLog (s + 1) = segLog s + 1 ∧ s + 3 = 3 * 2 ^ segLog s) := by
  obtain ⟨lo, hi⟩ := segLog_class s
  by_cases h : 2 * (s + 1) + 4 < 6 * 2 ^ segLog s
  · left; exact segLog_unique (s + 1) _ (by omega) h
  · right
    have hs : s + 3 = 3 * 2 ^ segLog s := by omega
    refine ⟨?_, hs⟩
    apply segLog_unique <;> rw [Nat.pow_succ] <;> omega

theorem base_succ_aux (P s : Nat) (hP : 1 ≤ P) (hs : s + 3 = 3 * P) :
    (s + 1 + 2 - P * 2) * (P * 2) - 1 = (s + 2 - P) * P - 1 + P := by
  have a : s + 1 + 2 - P * 2 = P := by omega
  have b : s + 2 - P = 2 * P - 1 := by omega
  rw [a, b, Nat.sub_mul]
  have e : P * (P * 2) = 2 * P * P := by rw [Nat.mul_comm P (P * 2), Nat.mul_comm P 2]
  rw [e]
  have hpp : 2 * P ≤ 2 * P * P := Nat.le_mul_of_pos_right _ hP
  generalize 2 * P * P = Q at *
  omega

theorem sqrt_base_succ (L0 s : Nat) :
    getIndex .sqrt L0 (s + 1) 0 = getIndex .sqrt L0 s 0 + itemCount .sqrt L0 s := by
  rw [getIndex_sqrt, getIndex_sqrt, itemCount_sqrt, Nat.pow_add]
  have e0 : (0 : Nat) / 2 ^ L0 = 0 := Nat.zero_div _
  have e1 : (0 : Nat) % 2 ^ L0 = 0 := Nat.zero_mod _
  rw [e0, e1]
  simp only [Nat.add_zero]
  obtain ⟨q1, _, _⟩ := seg_quot s
  have hpk := Nat.two_pow_pos (segLog s)
  have hq1 : 1 ≤ s + 2 - 2 ^ segLog s := by omega
  have hqp : 1 ≤ (s + 2 - 2 ^ segLog s) * 2 ^ segLog s :=
    Nat.le_trans hpk (Nat.le_mul_of_pos_left _ hq1)
  rw [← Nat.add_mul]
  congr 1
  rcases segLog_succ s with h | ⟨h, hs⟩
  · rw [h]
    have : s + 1 + 2 - 2 ^ segLog s = (s + 2 - 2 ^ segLog s) + 1 := by omega
    rw [this, Nat.add_mul]
    omega
  · rw [h, Nat.pow_succ]
    exact base_succ_aux _ s hpk hs

theorem sqrt_base_zero (L0 : Nat) : getIndex .sqrt L0 0 0 = 0 := by
  rw [getIndex_sqrt]
  have : segLog 0 = 0 := by decide
  rw [this]
  simp

theorem sqrt_lawful (L0 : Nat) : (sizing .sqrt L0).Lawful where
  roundtrip := sqrt_roundtrip L0
  item_lt := sqrt_item_lt L0
  inverse := sqrt_inverse L0
  affine := sqrt_affine L0
  base_succ := sqrt_base_succ L0
  base_zero := sqrt_base_zero L0
  count_pos := fun _ => Nat.two_pow_pos _

/-! ### constant sizing -/

theorem cnst_lawful (L0 : Nat) : (sizing .cnst L0).Lawful where
  roundtrip := by
    intro i
    show i / 2 ^ L0 * 2 ^ L0 + i % 2 ^ L0 = i
    have := Nat.div_add_mod i (2 ^ L0); rw [Nat.mul_comm] at this; exact this
  item_lt := by
    intro i
    show i % 2 ^ L0 < 2 ^ L0
    exact Nat.mod_lt _ (Nat.two_pow_pos L0)
  inverse := by
    intro s o ho
    have ho' : o < 2 ^ L0 := ho
    show ((s * 2 ^ L0 + o) / 2 ^ L0, (s * 2 ^ L0 + o) % 2 ^ L0) = (s, o)
    have hp := Nat.two_pow_pos L0
    rw [Nat.add_comm, Nat.add_mul_div_right _ _ hp, Nat.add_mul_mod_self_right, Nat.div_eq_of_lt ho',
      Nat.mod_eq_of_lt ho']
    simp
  affine := by
    intro s o
    show s * 2 ^ L0 + o = s * 2 ^ L0 + 0 + o
    omega
  base_succ := by
    intro s
    show (s + 1) * 2 ^ L0 + 0 = s * 2 ^ L0 + 0 + 2 ^ L0
    rw [Nat.add_mul]; omega
  base_zero := by
    show 0 * 2 ^ L0 + 0 = 0
    simp
  count_pos := fun _ => Nat.two_pow_pos _

theorem sizing_lawful (f : Func) (L0 : Nat) : (sizing f L0).Lawful := by
  cases f
  · exact sqrt_lawful L0
  · exact cnst_lawful L0

end Momo.Seg
