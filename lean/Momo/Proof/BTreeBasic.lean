import Momo.Model.BTree
/-!
  C02, basic lemmas: structure predicates, decomposition of the in-order list of an internal node around a child,
  the walkers of the mutual definitions written with `cs[i]?`, positions (`nodeAt?`, `idxOf`, `elemAt?`).
  Core Lean only.
-/
namespace Momo.BTree
open Node
variable {α : Type}

/-! ### structure -/

/-- every internal node has one more child than items and all leaves are at depth `d` -/
inductive Bal : Nat → Node α → Prop
  | leaf (cap : Nat) (items : List α) : Bal 0 (leaf cap items)
  | inner (d : Nat) (items : List α) (cs : List (Node α)) :
      cs.length = items.length + 1 → (∀ c ∈ cs, Bal d c) → Bal (d+1) (inner items cs)

/-- capacities: `count ≤ capacity ≤ maxCapacity` in every node (what `AcceptBackItem` asserts) -/
inductive Caps (maxCap : Nat) : Node α → Prop
  | leaf (cap : Nat) (items : List α) : items.length ≤ cap → cap ≤ maxCap → Caps maxCap (leaf cap items)
  | inner (items : List α) (cs : List (Node α)) :
      items.length ≤ maxCap → (∀ c ∈ cs, Caps maxCap c) → Caps maxCap (inner items cs)

theorem Bal.inner_len {d : Nat} {items : List α} {cs : List (Node α)} (h : Bal d (Node.inner items cs)) :
    cs.length = items.length + 1 := by
  cases h; assumption

theorem Bal.inner_child {d : Nat} {items : List α} {cs : List (Node α)} (h : Bal (d+1) (Node.inner items cs)) :
    ∀ c ∈ cs, Bal d c := by
  cases h; assumption

theorem Bal.inner_depth {d : Nat} {items : List α} {cs : List (Node α)} (h : Bal d (Node.inner items cs)) :
    ∃ d', d = d' + 1 ∧ ∀ c ∈ cs, Bal d' c := by
  cases h with
  | inner d' _ _ _ hall => exact ⟨d', rfl, hall⟩

theorem Bal.leaf_depth {d cap : Nat} {items : List α} (h : Bal d (Node.leaf cap items)) : d = 0 := by
  cases h; rfl

theorem Bal.zero_isLeaf {n : Node α} (h : Bal 0 n) : ∃ cap items, n = Node.leaf cap items := by
  cases h with
  | leaf cap items => exact ⟨cap, items, rfl⟩

theorem Bal.getElem {d : Nat} {items : List α} {cs : List (Node α)} (h : Bal (d+1) (Node.inner items cs))
    {i : Nat} {c : Node α} (hc : cs[i]? = some c) : Bal d c :=
  h.inner_child c (List.mem_of_getElem? hc)

/-! ### in-order list of an internal node around child `i` -/

@[simp] theorem toList_leaf (cap : Nat) (items : List α) : toList (leaf cap items) = items := by simp [toList]
@[simp] theorem toList_inner (items : List α) (cs : List (Node α)) : toList (inner items cs) = inter cs items := by
  simp [toList]

@[simp] theorem inter_nil (is : List α) : inter ([] : List (Node α)) is = [] := by simp [inter]
@[simp] theorem inter_cons_nil (c : Node α) (cs : List (Node α)) : inter (c :: cs) [] = toList c ++ inter cs [] := by
  simp [inter]
@[simp] theorem inter_cons_cons (c : Node α) (cs : List (Node α)) (i : α) (is : List α) :
    inter (c :: cs) (i :: is) = toList c ++ i :: inter cs is := by simp [inter]

theorem inter_single (c : Node α) (is : List α) : inter [c] is = toList c ++ (match is with
    | [] => []
    | i :: _ => [i]) := by
  cases is <;> simp

/-- what follows child `i` in the in-order list of `inner is cs` -/
def postOf (cs : List (Node α)) (is : List α) (i : Nat) : List α :=
  match is.drop i with
  | [] => []
  | s :: rest => s :: inter (cs.drop (i + 1)) rest

/-- what precedes child `i`: the children `0..i-1`, each followed by its item -/
def preOf (cs : List (Node α)) (is : List α) (i : Nat) : List α := inter (cs.take i) (is.take i)

theorem inter_split (cs : List (Node α)) (is : List α) (i : Nat) (c : Node α) (hc : cs[i]? = some c)
    (hlen : cs.length = is.length + 1) :
    inter cs is = preOf cs is i ++ toList c ++ postOf cs is i := by
  induction cs generalizing is i with
  | nil => simp at hc
  | cons c0 cs ih =>
    cases i with
    | zero =>
      simp at hc; subst hc
      cases is with
      | nil => simp at hlen; subst hlen; simp [preOf, postOf]
      | cons s is' => simp [preOf, postOf]
    | succ j =>
      cases is with
      | nil => simp at hlen; subst hlen; simp at hc
      | cons s is' =>
        have := ih is' j (by simpa using hc) (by simpa using hlen)
        simp only [inter_cons_cons, this]
        simp [preOf, postOf]

theorem preOf_length (cs : List (Node α)) (is : List α) (i : Nat) (hi : i ≤ is.length)
    (hlen : cs.length = is.length + 1) :
    (preOf cs is i).length = ((cs.take i).map (fun c => size c)).sum + i := by
  induction cs generalizing is i with
  | nil => simp at hlen
  | cons c0 cs ih =>
    cases i with
    | zero => simp [preOf]
    | succ j =>
      cases is with
      | nil => simp at hi
      | cons s is' =>
        cases cs with
        | nil => simp at hlen
        | cons c1 cs' =>
          have := ih is' j (by simpa using hi) (by simpa using hlen)
          simp only [preOf] at this ⊢
          simp only [List.take_succ_cons, inter_cons_cons, List.length_append, List.length_cons, this,
            List.map_cons, List.sum_cons, size]
          omega

theorem inter_set (cs : List (Node α)) (is : List α) (i : Nat) (c c' : Node α) (hc : cs[i]? = some c)
    (hlen : cs.length = is.length + 1) :
    inter (cs.set i c') is = preOf cs is i ++ toList c' ++ postOf cs is i := by
  have h1 : (cs.set i c')[i]? = some c' := by
    have : i < cs.length := by
      rcases List.getElem?_eq_some_iff.mp hc with ⟨h, _⟩; exact h
    simp [this]
  have h2 := inter_split (cs.set i c') is i c' h1 (by simpa using hlen)
  rw [h2]
  simp [preOf, postOf, List.take_set_of_le, List.drop_set_of_lt]

/-- the in-order list of an internal node as a list of segments -/
theorem size_inter_split (cs : List (Node α)) (is : List α) (i : Nat) (c : Node α) (hc : cs[i]? = some c)
    (hlen : cs.length = is.length + 1) (hi : i ≤ is.length) :
    (inter cs is).length = ((cs.take i).map (fun c => size c)).sum + i + size c + (postOf cs is i).length := by
  rw [inter_split cs is i c hc hlen]
  simp [preOf_length cs is i hi hlen, size]
  omega

theorem getElem?_of_lt {l : List α} {i : Nat} (h : i < l.length) : ∃ x, l[i]? = some x :=
  ⟨l[i], List.getElem?_eq_getElem h⟩

theorem lt_of_getElem? {l : List α} {i : Nat} {x : α} (h : l[i]? = some x) : i < l.length :=
  (List.getElem?_eq_some_iff.mp h).1

/-! ### the walkers of the mutual definitions -/

theorem findFirstAt_eq (lin : Bool) (p : α → Bool) (cs : List (Node α)) (i : Nat) :
    findFirstAt lin p cs i = (match cs[i]? with
      | some c => findFirst lin p c
      | none => none) := by
  induction cs generalizing i with
  | nil => simp [findFirstAt]
  | cons c cs ih => cases i with
    | zero => simp [findFirstAt]
    | succ j => simp [findFirstAt, ih]

theorem rightPathAt_eq (cs : List (Node α)) (i : Nat) :
    rightPathAt cs i = (match cs[i]? with
      | some c => rightPath c
      | none => ⟨[], 0⟩) := by
  induction cs generalizing i with
  | nil => simp [rightPathAt]
  | cons c cs ih => cases i with
    | zero => simp [rightPathAt]
    | succ j => simp [rightPathAt, ih]

theorem popLastAt_eq (cs : List (Node α)) (i : Nat) :
    popLastAt cs i = (match cs[i]? with
      | some c => popLast c
      | none => none) := by
  induction cs generalizing i with
  | nil => simp [popLastAt]
  | cons c cs ih => cases i with
    | zero => simp [popLastAt]
    | succ j => simp [popLastAt, ih]

theorem leftPathHead_eq (cs : List (Node α)) :
    leftPathHead cs = (match cs[0]? with
      | some c => leftPath c
      | none => []) := by
  cases cs <;> simp [leftPathHead]

theorem heightHead_eq (cs : List (Node α)) :
    heightHead cs = (match cs[0]? with
      | some c => height c
      | none => 0) := by
  cases cs <;> simp [heightHead]

theorem popFirstHead_eq (cs : List (Node α)) :
    popFirstHead cs = (match cs[0]? with
      | some c => popFirst c
      | none => none) := by
  cases cs <;> simp [popFirstHead]

/-! ### positions -/

@[simp] theorem nodeAt?_nil (n : Node α) : nodeAt? n [] = some n := by
  cases n <;> simp [nodeAt?]

@[simp] theorem nodeAt?_leaf_cons (cap : Nat) (is : List α) (c : Nat) (p : List Nat) :
    nodeAt? (leaf cap is) (c :: p) = none := by simp [nodeAt?]

@[simp] theorem nodeAt?_inner_cons (is : List α) (cs : List (Node α)) (c : Nat) (p : List Nat) :
    nodeAt? (inner is cs) (c :: p) = (match cs[c]? with
      | some ch => nodeAt? ch p
      | none => none) := by cases h : cs[c]? <;> simp [nodeAt?, h]

theorem nodeAt?_append (n : Node α) (p q : List Nat) :
    nodeAt? n (p ++ q) = (match nodeAt? n p with
      | some m => nodeAt? m q
      | none => none) := by
  induction p generalizing n with
  | nil => simp
  | cons c p ih =>
    cases n with
    | leaf cap is => simp
    | inner is cs =>
      simp only [List.cons_append, nodeAt?_inner_cons]
      cases cs[c]? with
      | none => simp
      | some ch => simp [ih]

/-- a valid position: the path leads to a node and the index is at most its count -/
def ValidSlot (n : Node α) (path : List Nat) (i : Nat) : Prop :=
  ∃ m, nodeAt? n path = some m ∧ i ≤ m.count

/-- a position that denotes an element -/
def ValidElem (n : Node α) (path : List Nat) (i : Nat) : Prop :=
  ∃ m, nodeAt? n path = some m ∧ i < m.count

theorem ValidElem.slot {n : Node α} {path : List Nat} {i : Nat} (h : ValidElem n path i) : ValidSlot n path i := by
  obtain ⟨m, h1, h2⟩ := h; exact ⟨m, h1, Nat.le_of_lt h2⟩

/-- depth of the node a path leads to -/
theorem Bal.nodeAt {d : Nat} {n m : Node α} (hb : Bal d n) {path : List Nat} (h : nodeAt? n path = some m) :
    Bal (d - path.length) m ∧ path.length ≤ d := by
  induction path generalizing n d with
  | nil => simp at h; subst h; exact ⟨by simpa using hb, Nat.zero_le _⟩
  | cons c p ih =>
    cases n with
    | leaf cap is => simp at h
    | inner is cs =>
      obtain ⟨d', rfl, hall⟩ := hb.inner_depth
      simp only [nodeAt?_inner_cons] at h
      cases hc : cs[c]? with
      | none => simp [hc] at h
      | some ch =>
        simp only [hc] at h
        have := ih (hall ch (List.mem_of_getElem? hc)) h
        simp only [List.length_cons]
        exact ⟨by simpa using this.1, by omega⟩

@[simp] theorem idxOf_leaf (cap : Nat) (is : List α) (p : List Nat) (i : Nat) : idxOf (leaf cap is) p i = i := by
  simp [idxOf]

@[simp] theorem idxOf_inner_nil (is : List α) (cs : List (Node α)) (i : Nat) :
    idxOf (inner is cs) [] i = ((cs.take (i+1)).map (fun c => size c)).sum + i := by simp [idxOf]

@[simp] theorem idxOf_inner_cons (is : List α) (cs : List (Node α)) (c : Nat) (p : List Nat) (i : Nat) :
    idxOf (inner is cs) (c :: p) i = ((cs.take c).map (fun ch => size ch)).sum + c +
      (match cs[c]? with
       | some ch => idxOf ch p i
       | none => 0) := by cases h : cs[c]? <;> simp [idxOf, h]

theorem idxOf_inner_cons' {is : List α} {cs : List (Node α)} {c : Nat} {ch : Node α} (hc : cs[c]? = some ch)
    (p : List Nat) (i : Nat) :
    idxOf (inner is cs) (c :: p) i = ((cs.take c).map (fun ch => size ch)).sum + c + idxOf ch p i := by
  simp [hc]

theorem nodeAt?_inner_cons' {is : List α} {cs : List (Node α)} {c : Nat} {ch : Node α} (hc : cs[c]? = some ch)
    (p : List Nat) : nodeAt? (inner is cs) (c :: p) = nodeAt? ch p := by
  simp [hc]

/-- total size of an internal node -/
theorem size_inner (is : List α) (cs : List (Node α)) (hlen : cs.length = is.length + 1) :
    size (inner is cs) = (cs.map (fun c => size c)).sum + is.length := by
  induction cs generalizing is with
  | nil => simp at hlen
  | cons c cs ih =>
    cases is with
    | nil =>
      simp at hlen; subst hlen; simp [size]
    | cons s is' =>
      have := ih is' (by simpa using hlen)
      simp only [size, toList_inner] at this
      simp only [size, toList_inner, inter_cons_cons, List.length_append, List.length_cons, this, List.map_cons,
        List.sum_cons]
      omega

/-- `GetEnd()` of a subtree is behind all its elements -/
theorem idxOf_end (is : List α) (cs : List (Node α)) (hlen : cs.length = is.length + 1) :
    idxOf (inner is cs) [] is.length = size (inner is cs) := by
  rw [idxOf_inner_nil, size_inner is cs hlen, List.take_of_length_le (by omega)]

theorem sum_take_succ (cs : List (Node α)) (i : Nat) (c : Node α) (hc : cs[i]? = some c) :
    ((cs.take (i+1)).map (fun c => size c)).sum = ((cs.take i).map (fun c => size c)).sum + size c := by
  induction cs generalizing i with
  | nil => simp at hc
  | cons c0 cs ih =>
    cases i with
    | zero => simp at hc; subst hc; simp
    | succ j =>
      have := ih j (by simpa using hc)
      simp only [List.take_succ_cons, List.map_cons, List.sum_cons, this]
      omega

/-- the element at a valid position is the element of the in-order list at `idxOf` -/
theorem elemAt_toList {d : Nat} {n : Node α} (hb : Bal d n) (path : List Nat) (i : Nat) (x : α)
    (h : elemAt? n ⟨path, i⟩ = some x) : (toList n)[idxOf n path i]? = some x := by
  induction path generalizing n d with
  | nil =>
    cases n with
    | leaf cap is => simpa [elemAt?, Node.items] using h
    | inner is cs =>
      simp only [elemAt?, nodeAt?_nil, Node.items] at h
      have hi : i < is.length := lt_of_getElem? h
      have hlen := hb.inner_len
      obtain ⟨c, hc⟩ := getElem?_of_lt (l := cs) (i := i) (by omega)
      rw [toList_inner, inter_split cs is i c hc hlen, idxOf_inner_nil, sum_take_succ cs i c hc]
      have hpre := preOf_length cs is i (by omega) hlen
      have : ((cs.take i).map (fun c => size c)).sum + size c + i = (preOf cs is i ++ toList c).length := by
        simp [hpre, size]; omega
      rw [this, List.getElem?_append_right (Nat.le_refl _)]
      simp only [Nat.sub_self, postOf]
      have hd : is.drop i = x :: is.drop (i+1) := by
        rw [List.drop_eq_getElem_cons hi]
        congr 1
        have := List.getElem?_eq_getElem hi
        rw [this] at h; exact Option.some.inj h
      simp [hd]
  | cons c p ih =>
    cases n with
    | leaf cap is => simp [elemAt?] at h
    | inner is cs =>
      obtain ⟨d', rfl, hall⟩ := hb.inner_depth
      have hlen := hb.inner_len
      simp only [elemAt?, nodeAt?_inner_cons] at h
      cases hc : cs[c]? with
      | none => simp [hc] at h
      | some ch =>
        simp only [hc] at h
        have hcl : c < cs.length := lt_of_getElem? hc
        have := ih (hall ch (List.mem_of_getElem? hc)) (by simpa [elemAt?] using h)
        rw [toList_inner, inter_split cs is c ch hc hlen, idxOf_inner_cons, hc]
        have hpre := preOf_length cs is c (by omega) hlen
        rw [List.append_assoc, ← hpre, List.getElem?_append_right (Nat.le_add_right _ _)]
        simp only [Nat.add_sub_cancel_left]
        rw [List.getElem?_append_left]
        · exact this
        · exact lt_of_getElem? this

end Momo.BTree
