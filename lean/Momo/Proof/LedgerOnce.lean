import Momo.Proof.Ledger
/-!
  Consequences of the discipline, stated on the list of events by positions (splits of the list) and by counting:
  every `alloc` is followed by exactly one matching `dealloc` before anything else happens to that block, every
  element that begins to exist ceases to exist exactly once, nothing is used after its end (core Lean only).
-/
namespace Momo.Ledger

variable {β : Type} [DecidableEq β]
set_option linter.unusedSectionVars false

/-! ### generic list facts -/

theorem getLast?_filter_eq_some {α : Type} (p : α → Bool) (x : α) (l : List α) :
    (l.filter p).getLast? = some x ↔
      ∃ p1 p2, l = p1 ++ x :: p2 ∧ p x = true ∧ ∀ y ∈ p2, p y = false := by
  constructor
  · induction l using snoc_induction with
    | nil => simp
    | append_singleton l a ih =>
      intro h
      rw [List.filter_append] at h
      by_cases hp : p a = true
      · have : List.filter p [a] = [a] := by simp [List.filter, hp]
        rw [this, List.getLast?_append] at h
        simp at h
        subst h
        exact ⟨l, [], rfl, hp, by simp⟩
      · have : List.filter p [a] = [] := by simp [List.filter, hp]
        rw [this, List.append_nil] at h
        obtain ⟨p1, p2, rfl, hx, hall⟩ := ih h
        refine ⟨p1, p2 ++ [a], by simp, hx, ?_⟩
        intro y hy
        rcases List.mem_append.mp hy with hy | hy
        · exact hall y hy
        · simp at hy; subst hy; simpa using hp
  · rintro ⟨p1, p2, rfl, hx, hall⟩
    have h2 : List.filter p p2 = [] := List.filter_eq_nil_iff.mpr (fun y hy => by simp [hall y hy])
    rw [List.filter_append, List.filter_cons, if_pos hx, h2, List.getLast?_append]
    simp

/-- the first element with `p`, or none at all -/
theorem first_or_none {α : Type} (p : α → Bool) (l : List α) :
    (∀ x ∈ l, p x = false) ∨ ∃ mid x post, l = mid ++ x :: post ∧ p x = true ∧ ∀ y ∈ mid, p y = false := by
  induction l with
  | nil => left; simp
  | cons a r ih =>
    by_cases hp : p a = true
    · right; exact ⟨[], a, r, rfl, hp, by simp⟩
    · have hpa : p a = false := by simpa using hp
      rcases ih with h | ⟨mid, x, post, rfl, hx, hall⟩
      · left
        intro x hx
        rcases List.mem_cons.mp hx with rfl | hx
        · exact hpa
        · exact h x hx
      · right
        refine ⟨a :: mid, x, post, rfl, hx, ?_⟩
        intro y hy
        rcases List.mem_cons.mp hy with rfl | hy
        · exact hpa
        · exact hall y hy

/-! ### blocks -/

/-- "open as (m, n)" by positions: the `alloc` stands somewhere in the history and no `alloc`/`dealloc` of the same
    block follows it -/
theorem openAs_iff_split (b : β) (m n : Nat) (pre : List (Ev β)) :
    OpenAs b m n pre ↔ ∃ p1 p2, pre = p1 ++ .alloc m b n :: p2 ∧ ∀ ev ∈ p2, ev.lifeB b = false := by
  unfold OpenAs lastB
  rw [getLast?_filter_eq_some]
  constructor
  · rintro ⟨p1, p2, h, _, hall⟩; exact ⟨p1, p2, h, hall⟩
  · rintro ⟨p1, p2, h, hall⟩; exact ⟨p1, p2, h, by simp [Ev.lifeB], hall⟩

/-- a life-cycle event of block `b` is an `alloc` or a `dealloc` of `b` -/
theorem lifeB_cases {b : β} {ev : Ev β} (h : ev.lifeB b = true) :
    (∃ m n, ev = .alloc m b n) ∨ (∃ m n, ev = .dealloc m b n) := by
  cases ev with
  | alloc m b' n => simp [Ev.lifeB] at h; subst h; exact Or.inl ⟨m, n, rfl⟩
  | dealloc m b' n => simp [Ev.lifeB] at h; subst h; exact Or.inr ⟨m, n, rfl⟩
  | construct e => simp [Ev.lifeB] at h
  | destroy e => simp [Ev.lifeB] at h
  | relocate a d => simp [Ev.lifeB] at h
  | use e => simp [Ev.lifeB] at h
  | touch b' off len => simp [Ev.lifeB] at h

/-- **released exactly once, with its size, through an equal manager**: in a disciplined trace that leaves block `b`
    closed, the next event about `b` after any `alloc m b n` is `dealloc m b n` -/
theorem released_once {tr pre post : List (Ev β)} {b : β} {m n : Nat} (hd : Disciplined tr) (hc : ¬ Open b tr)
    (htr : tr = pre ++ .alloc m b n :: post) :
    ∃ mid post', post = mid ++ .dealloc m b n :: post' ∧ ∀ ev ∈ mid, ev.lifeB b = false := by
  rcases first_or_none (Ev.lifeB b) post with hnone | ⟨mid, x, post', rfl, hx, hall⟩
  · exact absurd ⟨m, n, (openAs_iff_split b m n tr).mpr ⟨pre, post, htr, hnone⟩⟩ hc
  · have hopen : OpenAs b m n (pre ++ .alloc m b n :: mid) :=
      (openAs_iff_split b m n _).mpr ⟨pre, mid, rfl, hall⟩
    have hadm : Admissible (pre ++ .alloc m b n :: mid) x := hd _ x post' (by rw [htr]; simp)
    rcases lifeB_cases hx with ⟨m', n', rfl⟩ | ⟨m', n', rfl⟩
    · exact absurd ⟨m, n, hopen⟩ hadm
    · have : OpenAs b m' n' (pre ++ .alloc m b n :: mid) := hadm
      unfold OpenAs at this hopen
      rw [hopen] at this
      injection this with this
      injection this with h1 _ h3
      subst h1; subst h3
      exact ⟨mid, post', rfl, hall⟩

/-- every `dealloc` gives back a block that was obtained before, with the same size and manager class, and that was
    not given back in between -/
theorem dealloc_matches {tr pre post : List (Ev β)} {b : β} {m n : Nat} (hd : Disciplined tr)
    (htr : tr = pre ++ .dealloc m b n :: post) :
    ∃ p1 p2, pre = p1 ++ .alloc m b n :: p2 ∧ ∀ ev ∈ p2, ev.lifeB b = false :=
  (openAs_iff_split b m n pre).mp (hd pre _ post htr)

def Ev.isAllocOf (b : β) : Ev β → Bool
  | .alloc _ b' _ => decide (b' = b)
  | _ => false
def Ev.isDeallocOf (b : β) : Ev β → Bool
  | .dealloc _ b' _ => decide (b' = b)
  | _ => false

/-- number of `alloc` / `dealloc` events of block `b` -/
def allocs (b : β) (tr : List (Ev β)) : Nat := (tr.filter (Ev.isAllocOf b)).length
def deallocs (b : β) (tr : List (Ev β)) : Nat := (tr.filter (Ev.isDeallocOf b)).length

def openCount (s : St β) (b : β) : Nat := if (findB b s.blocks).isSome then 1 else 0

theorem count_blocks (b : β) (tr : List (Ev β)) : ∀ (s s' : St β), run s tr = some s' →
    allocs b tr + openCount s b = deallocs b tr + openCount s' b := by
  induction tr with
  | nil => intro s s' h; simp only [run, Option.some.injEq] at h; subst h; simp [allocs, deallocs]
  | cons ev r ih =>
    intro s s' h
    simp only [run] at h
    cases hs : step s ev with
    | error w => rw [hs] at h; cases h
    | ok s1 =>
      rw [hs] at h
      have ih1 := ih s1 s' h
      have hok := (step_ok_iff s ev).mp ⟨s1, hs⟩
      have hf := step_findB hs b
      unfold allocs deallocs at ih1 ⊢
      unfold openCount at ih1 ⊢
      rw [hf] at ih1
      cases ev with
      | alloc m b' n =>
        by_cases hb : b' = b
        · subst hb
          have : findB b' s.blocks = none := hok
          simp [List.filter, Ev.isAllocOf, Ev.isDeallocOf, this] at ih1 ⊢; omega
        · simp [List.filter, Ev.isAllocOf, Ev.isDeallocOf, hb] at ih1 ⊢; omega
      | dealloc m b' n =>
        by_cases hb : b' = b
        · subst hb
          have : findB b' s.blocks = some (m, n) := hok
          simp [List.filter, Ev.isAllocOf, Ev.isDeallocOf, this] at ih1 ⊢; omega
        · simp [List.filter, Ev.isAllocOf, Ev.isDeallocOf, hb] at ih1 ⊢; omega
      | construct e => simp [List.filter, Ev.isAllocOf, Ev.isDeallocOf] at ih1 ⊢; omega
      | destroy e => simp [List.filter, Ev.isAllocOf, Ev.isDeallocOf] at ih1 ⊢; omega
      | relocate a d => simp [List.filter, Ev.isAllocOf, Ev.isDeallocOf] at ih1 ⊢; omega
      | use e => simp [List.filter, Ev.isAllocOf, Ev.isDeallocOf] at ih1 ⊢; omega
      | touch b' off len => simp [List.filter, Ev.isAllocOf, Ev.isDeallocOf] at ih1 ⊢; omega

/-! ### elements -/

theorem alive_iff_split (e : Nat) (pre : List (Ev β)) :
    Alive e pre ↔ ∃ p1 ev p2, pre = p1 ++ ev :: p2 ∧ ev.begins e = true ∧ ev.ends e = false ∧
      ∀ x ∈ p2, x.lifeE e = false := by
  unfold Alive lastE
  constructor
  · rintro ⟨ev, h, hb, he⟩
    obtain ⟨p1, p2, h1, _, hall⟩ := (getLast?_filter_eq_some _ _ _).mp h
    exact ⟨p1, ev, p2, h1, hb, he, hall⟩
  · rintro ⟨p1, ev, p2, h1, hb, he, hall⟩
    exact ⟨ev, (getLast?_filter_eq_some _ _ _).mpr ⟨p1, p2, h1, by simp [Ev.lifeE, hb], hall⟩, hb, he⟩

/-- **destroyed exactly once**: in a disciplined trace that leaves element `e` dead, after any event that brings `e`
    into existence the next life-cycle event of `e` is its end (destructor, or relocation away) -/
theorem ended_once {tr pre post : List (Ev β)} {e : Nat} {ev : Ev β} (hd : Disciplined tr) (hc : ¬ Alive e tr)
    (htr : tr = pre ++ ev :: post) (hb : ev.begins e = true) :
    ∃ mid x post', post = mid ++ x :: post' ∧ x.ends e = true ∧ x.begins e = false ∧ ∀ y ∈ mid, y.lifeE e = false := by
  -- the beginning event itself does not end `e` (a relocation onto itself is not admissible)
  have hne : ev.ends e = false := by
    have hadm : Admissible pre ev := hd pre ev post htr
    cases ev with
    | relocate a d =>
      simp only [Ev.begins, decide_eq_true_eq] at hb
      subst hb
      simp only [Ev.ends, decide_eq_false_iff_not]
      exact hadm.1
    | construct e' => rfl
    | alloc m b n => rfl
    | dealloc m b n => rfl
    | destroy e' => simp [Ev.begins] at hb
    | use e' => rfl
    | touch b off len => rfl
  rcases first_or_none (Ev.lifeE e) post with hnone | ⟨mid, x, post', rfl, hx, hall⟩
  · exact absurd ((alive_iff_split e tr).mpr ⟨pre, ev, post, htr, hb, hne, hnone⟩) hc
  · have halive : Alive e (pre ++ ev :: mid) := (alive_iff_split e _).mpr ⟨pre, ev, mid, rfl, hb, hne, hall⟩
    have hadm : Admissible (pre ++ ev :: mid) x := hd _ x post' (by rw [htr]; simp)
    refine ⟨mid, x, post', rfl, ?_, ?_, hall⟩
    · cases x with
      | construct e' =>
        simp only [Ev.lifeE, Ev.begins, Ev.ends, Bool.or_false, decide_eq_true_eq] at hx
        subst hx; exact absurd halive hadm
      | destroy e' => simpa [Ev.lifeE, Ev.begins, Ev.ends] using hx
      | relocate a d =>
        simp only [Ev.lifeE, Ev.begins, Ev.ends, Bool.or_eq_true, decide_eq_true_eq] at hx ⊢
        rcases hx with hx | hx
        · subst hx; exact absurd halive hadm.2.2
        · exact hx
      | alloc m b n => simp [Ev.lifeE, Ev.begins, Ev.ends] at hx
      | dealloc m b n => simp [Ev.lifeE, Ev.begins, Ev.ends] at hx
      | use e' => simp [Ev.lifeE, Ev.begins, Ev.ends] at hx
      | touch b off len => simp [Ev.lifeE, Ev.begins, Ev.ends] at hx
    · cases x with
      | construct e' =>
        simp only [Ev.lifeE, Ev.begins, Ev.ends, Bool.or_false, decide_eq_true_eq] at hx
        subst hx; exact absurd halive hadm
      | destroy e' => rfl
      | relocate a d =>
        simp only [Ev.begins, decide_eq_false_iff_not]
        intro hx'; subst hx'; exact absurd halive hadm.2.2
      | alloc m b n => rfl
      | dealloc m b n => rfl
      | use e' => rfl
      | touch b off len => rfl

/-- **never used after destruction or relocation**: between the end of `e` and a later use of `e` stands an event
    that brings `e` into existence again -/
theorem no_use_after_end {tr pre mid post : List (Ev β)} {e : Nat} {x : Ev β} (hd : Disciplined tr)
    (htr : tr = pre ++ x :: (mid ++ .use e :: post)) (hx : x.ends e = true) :
    ∃ y ∈ mid, y.begins e = true := by
  have hadm : Admissible (pre ++ x :: mid) (.use e) := hd _ _ post (by rw [htr]; simp)
  obtain ⟨p1, ev, p2, hsplit, hb, he, hall⟩ := (alive_iff_split e _).mp hadm
  -- where does `ev` stand? not in `pre`, not at `x`: `x` is a life-cycle event after it
  rcases first_or_none (fun y => y.begins e) mid with hnone | ⟨m1, y, m2, rfl, hy, _⟩
  · exfalso
    -- the last life-cycle event of `pre ++ x :: mid` is `x` or lies in `mid`; it ends `e` or does not begin it
    have hlast : lastE e (pre ++ x :: mid) = some ev :=
      (getLast?_filter_eq_some _ _ _).mpr ⟨p1, p2, hsplit, by simp [Ev.lifeE, hb], hall⟩
    unfold lastE at hlast
    rw [List.filter_append, List.filter_cons, if_pos (by simp [Ev.lifeE, hx])] at hlast
    rw [List.getLast?_append] at hlast
    cases hm : List.filter (Ev.lifeE e) mid with
    | nil =>
      rw [hm] at hlast
      simp at hlast
      subst hlast
      rw [hx] at he; cases he
    | cons z zs =>
      rw [hm] at hlast
      have hne : (z :: zs) ≠ [] := by simp
      have hmem : ev ∈ z :: zs := by
        have h2 : (x :: z :: zs).getLast? = some ev := by
          cases h3 : (x :: z :: zs).getLast? with
          | none => simp at h3
          | some w => rw [h3] at hlast; simpa using hlast
        rw [List.getLast?_cons_cons] at h2
        exact List.mem_of_getLast? h2
      rw [← hm] at hmem
      have := hnone ev (List.mem_filter.mp hmem).1
      rw [hb] at this; cases this
  · exact ⟨y, by simp, hy⟩

def begun (e : Nat) (tr : List (Ev β)) : Nat := (tr.filter (Ev.begins e)).length
def ended (e : Nat) (tr : List (Ev β)) : Nat := (tr.filter (Ev.ends e)).length
def aliveCount (s : St β) (e : Nat) : Nat := if memE e s.elems then 1 else 0

theorem count_elems (e : Nat) (tr : List (Ev β)) : ∀ (s s' : St β), run s tr = some s' →
    begun e tr + aliveCount s e = ended e tr + aliveCount s' e := by
  induction tr with
  | nil => intro s s' h; simp only [run, Option.some.injEq] at h; subst h; simp [begun, ended]
  | cons ev r ih =>
    intro s s' h
    simp only [run] at h
    cases hs : step s ev with
    | error w => rw [hs] at h; cases h
    | ok s1 =>
      rw [hs] at h
      have ih1 := ih s1 s' h
      have hok := (step_ok_iff s ev).mp ⟨s1, hs⟩
      have hf := step_memE hs e
      unfold begun ended at ih1 ⊢
      unfold aliveCount at ih1 ⊢
      rw [hf] at ih1
      cases ev with
      | alloc m b' n => simp [List.filter, Ev.begins, Ev.ends] at ih1 ⊢; omega
      | dealloc m b' n => simp [List.filter, Ev.begins, Ev.ends] at ih1 ⊢; omega
      | construct e' =>
        by_cases hb : e' = e
        · subst hb
          have : memE e' s.elems = false := hok
          simp [List.filter, Ev.begins, Ev.ends, this] at ih1 ⊢; omega
        · simp [List.filter, Ev.begins, Ev.ends, hb] at ih1 ⊢; omega
      | destroy e' =>
        by_cases hb : e' = e
        · subst hb
          have : memE e' s.elems = true := hok
          simp [List.filter, Ev.begins, Ev.ends, this] at ih1 ⊢; omega
        · simp [List.filter, Ev.begins, Ev.ends, hb] at ih1 ⊢; omega
      | relocate a d =>
        obtain ⟨had, ha, hd⟩ := hok
        by_cases hde : d = e
        · subst hde
          simp [List.filter, Ev.begins, Ev.ends, had, hd] at ih1 ⊢; omega
        · by_cases hae : a = e
          · subst hae
            simp [List.filter, Ev.begins, Ev.ends, hde, ha] at ih1 ⊢; omega
          · simp [List.filter, Ev.begins, Ev.ends, hde, hae] at ih1 ⊢; omega
      | use e' => simp [List.filter, Ev.begins, Ev.ends] at ih1 ⊢; omega
      | touch b' off len => simp [List.filter, Ev.begins, Ev.ends] at ih1 ⊢; omega

end Momo.Ledger
