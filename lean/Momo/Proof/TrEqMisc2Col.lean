import Momo.Translated.Misc
import Momo.Proof.SegMachine
import Momo.Proof.ColumnsInv
/-!
  C18: `DataColumnTraits::GetVertices`, `UIntMath::Ceil` and the offset arithmetic of `DataColumnList::pvAddEdges /
  pvFillAddends / pvAdd / pvGetOffset` as translated from DataColumn.h / Utility.h (area Misc,
  lean/Momo/Translated/Misc.lean) are the model functions of `Momo/Model/Columns.lean`
  (`getVertices`, `ceil`, the step of `newEdges`, `H`, `mutBytes`, `add64`, `Cfg.maxColumns`).
  The generated definitions are rewritten by tools/translate.py from the current headers on every check; a changed
  function body makes the equalities below fail to elaborate.
-/
namespace Momo.TrEq
open Momo Momo.Seg

/-- `UIntMath<>::Ceil(value, mod)`: nothing wraps when `value + mod` is a `size_t` (offsets and alignments of a row) -/
theorem tr_um_ceil (v m : Nat) (hm : 0 < m) (hw : v + m < 2 ^ 64) : Tr.um_Ceil v m = Col.ceil v m := by
  unfold Tr.um_Ceil Col.ceil
  rw [add64_of_lt hw, sub64_of_le (by omega)]
  have : (v + m - 1) / m * m ≤ v + m - 1 := Nat.div_mul_le_self _ _
  rw [mul64_of_lt (by omega)]

/-- `GetVertices(columnCode, codeParam)` for `logVertexCount = c.L < 64`, `sizeof(ColumnCode) = c.codeBytes`, any 64-bit code -/
theorem tr_getVertices (c : Col.Cfg) (code param : Nat) (hL : c.L < 64) (hcode : code < 2 ^ 64) :
    Tr.col_GetVertices c.L c.codeBytes code param = Col.getVertices c code param := by
  have hmask : sub64 (shl64 1 c.L) 1 = 2 ^ c.L - 1 := by
    have := mask64_eq hL
    unfold mask64 at this
    exact this
  unfold Tr.col_GetVertices Col.getVertices Col.vertex1 Col.vertex2raw Col.shortCode
  simp only [hmask, add64, w64_eq, Col.W, Nat.mod_eq_of_lt hcode, Extracted.colWideCodeBytes, Extracted.colShortShiftHi,
    Extracted.colShortShiftMid, Extracted.colShortLogLim, Extracted.colShortShiftLo, Extracted.colParamShift, Extracted.colParamMask,
    decide_eq_true_eq, gt_iff_lt]

theorem tr_maxColumnCount (c : Col.Cfg) (h1 : 1 ≤ c.L) (hL : c.L ≤ 64) : Tr.col_maxColumnCount c.L = c.maxColumns := by
  unfold Tr.col_maxColumnCount Col.Cfg.maxColumns
  simp only [Extracted.colMaxColumnLogSub]
  rw [sub64_of_le h1, shl64_one (by omega)]

theorem tr_addEdges_align (al off : Nat) (hal : 0 < al) (hw : off + al < 2 ^ 64) :
    Tr.col_addEdges_align al off = Col.ceil off al := by
  unfold Tr.col_addEdges_align
  exact tr_um_ceil off al hal hw

theorem tr_addEdges_advance (size al off mal : Nat) (hw : off + size < 2 ^ 64) :
    Tr.col_addEdges_advance size al off mal = (off + size, max mal al) := by
  unfold Tr.col_addEdges_advance
  rw [add64_of_lt hw]
  simp only [decide_eq_true_eq, Nat.max_def]
  congr 1
  split <;> split <;> omega

theorem tr_rootAddend : Tr.col_rootAddend = Col.H := by decide

theorem tr_mutBytes (off : Nat) (hw : off + 7 < 2 ^ 64) : Tr.col_mutBytes off = Col.mutBytes off := by
  unfold Tr.col_mutBytes Col.mutBytes
  simp only [Extracted.colMutRound, Extracted.colMutDiv]
  rw [add64_of_lt hw]

/-- `return addend1 + addend2;` of `pvGetOffset`: `size_t` addition that wraps, exactly the model's `add64` -/
theorem tr_getOffset_sum (a1 a2 : Nat) : Tr.col_pvGetOffset_sum a1 a2 = Col.add64 a1 a2 := by
  unfold Tr.col_pvGetOffset_sum Col.add64 add64
  rw [w64_eq]

/-- one step of `pvAddEdges<void, Item, Items...>` (model `Col.newEdges`) written with the translated code: the edge value
    is the translated `offset = Ceil(offset, alignment)`, the vertices the translated `GetVertices`, the next offset and
    maximal alignment the translated `offset += size; maxAlignment = minmax(...).second`. -/
theorem newEdges_translated (c : Col.Cfg) (param : Nat) (it : Col.Item) (its : List Col.Item) (g : Col.Adj) (off al : Nat)
    (hL : c.L < 64) (hcode : it.code < 2 ^ 64) (hal : 0 < it.align) (hw : off + it.align + it.size < 2 ^ 64) :
    Col.newEdges c param (it :: its) g off al =
      Col.newEdges c param its
        (Col.addEdges g (Tr.col_GetVertices c.L c.codeBytes it.code param).1 (Tr.col_GetVertices c.L c.codeBytes it.code param).2
          (Tr.col_addEdges_align it.align off))
        (Tr.col_addEdges_advance it.size it.align (Tr.col_addEdges_align it.align off) al).1
        (Tr.col_addEdges_advance it.size it.align (Tr.col_addEdges_align it.align off) al).2 := by
  have h1 := Col.ceil_lt off it.align hal
  rw [tr_getVertices c it.code param hL hcode, tr_addEdges_align it.align off hal (by omega),
    tr_addEdges_advance it.size it.align _ al (by omega)]
  rfl

/-- `pvGetOffset(columnCode)` (model `Col.getOffsetWith`) written with the translated `GetVertices` and the translated sum -/
theorem getOffsetWith_translated (c : Col.Cfg) (param : Nat) (a : Array Nat) (code : Nat) (hL : c.L < 64) (hcode : code < 2 ^ 64) :
    Col.getOffsetWith c param a code =
      Tr.col_pvGetOffset_sum (a.getD (Tr.col_GetVertices c.L c.codeBytes code param).1 0)
        (a.getD (Tr.col_GetVertices c.L c.codeBytes code param).2 0) := by
  rw [tr_getVertices c code param hL hcode, tr_getOffset_sum]
  rfl

end Momo.TrEq
