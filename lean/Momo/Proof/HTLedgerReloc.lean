import Momo.Proof.HTLedgerBase
/-!
  C03 / C04 for the hash family, part 2: the ledger follows the books through the pool traffic, the migration
  `pvRelocateItems`, `Clear` and the destructor - for every table, every stopping point, every key list: these lemmas
  need nothing about the table.

  Shape of every lemma: if the monitor holds the container's blocks / element objects plus a frame (`FB` / `FE`: the
  other container, the node handle), then after the model's function it holds the container's NEW blocks / objects plus
  the same frame.
-/
namespace Momo.HTL
open Momo Momo.HT Momo.Ledger

/-- rearrangements of lists built from the same pieces -/
macro "perm_count" : tactic =>
  `(tactic| (refine List.perm_iff_count.mpr (fun a => ?_)
             simp only [List.count_append, List.count_cons, List.count_nil, List.map_cons, List.map_append, List.map_nil,
               List.append_nil, List.nil_append, List.cons_append]
             try omega))

def blkOf (cfg : Cfg) (p : Nat × Nat) : Blk := (p.1, cfg.mgr, p.2)

theorem St.blocks_eq (cfg : Cfg) (st : St) :
    st.blocks cfg = (optL st.crew).map (fun b => (b, cfg.mgr, cfg.csz)) ++ (optL st.params).map (fun b => (b, cfg.mgr, cfg.psz)) ++
      st.arrs.map (blkOf cfg) ++ st.bufs.map (blkOf cfg) := rfl

theorem perm_eraseIdx {α : Type} (l : List α) (i : Nat) (h : i < l.length) : l.Perm (l[i] :: l.eraseIdx i) := by
  rw [List.eraseIdx_eq_take_drop_succ]
  have : l = l.take i ++ l[i] :: l.drop (i + 1) := by
    rw [← List.drop_eq_getElem_cons h, List.take_append_drop]
  conv => lhs; rw [this]
  exact List.perm_middle

/-! ### pool traffic -/

theorem getBufs_led (cfg : Cfg) (B0 : List Blk) (E : List Nat) :
    ∀ (gets : List Nat) (bufs : List (Nat × Nat)) (w : W), Led w (bufs.map (blkOf cfg) ++ B0) E →
      Led (getBufs cfg gets bufs w).2 ((getBufs cfg gets bufs w).1.map (blkOf cfg) ++ B0) E := by
  intro gets
  induction gets with
  | nil => intro bufs w h; exact h
  | cons n r ih =>
    intro bufs w h
    simp only [getBufs]
    apply ih
    obtain ⟨h1, h2⟩ := h.alloc cfg.mgr n
    rw [h2]
    exact h1

theorem freeBufs_led (cfg : Cfg) (B0 : List Blk) (E : List Nat) :
    ∀ (frees : List Nat) (bufs : List (Nat × Nat)) (w : W), Led w (bufs.map (blkOf cfg) ++ B0) E →
      Led (freeBufs cfg frees bufs w).2 ((freeBufs cfg frees bufs w).1.map (blkOf cfg) ++ B0) E := by
  intro frees
  induction frees with
  | nil => intro bufs w h; exact h
  | cons i r ih =>
    intro bufs w h
    simp only [freeBufs]
    cases hi : bufs[i]? with
    | none => exact ih bufs w h
    | some p =>
      simp only
      apply ih
      have hlt : i < bufs.length := by
        rcases Nat.lt_or_ge i bufs.length with h1 | h1
        · exact h1
        · rw [List.getElem?_eq_none h1] at hi; cases hi
      have hp : bufs[i] = p := by rw [List.getElem?_eq_getElem hlt] at hi; exact Option.some.inj hi
      have hperm : (bufs.map (blkOf cfg) ++ B0).Perm ((p.1, cfg.mgr, p.2) :: ((bufs.eraseIdx i).map (blkOf cfg) ++ B0)) := by
        have h1 : bufs.Perm (p :: bufs.eraseIdx i) := by rw [← hp]; exact perm_eraseIdx bufs i hlt
        have h2 := (h1.map (blkOf cfg)).append_right B0
        simpa [blkOf] using h2
      exact (h.perm hperm (List.Perm.refl _)).free

theorem freeAllBufs_led (cfg : Cfg) (B0 : List Blk) (E : List Nat) :
    ∀ (bufs : List (Nat × Nat)) (w : W), Led w (bufs.map (blkOf cfg) ++ B0) E → Led (freeAllBufs cfg bufs w) B0 E := by
  intro bufs
  induction bufs with
  | nil => intro w h; exact h
  | cons p r ih =>
    intro w h
    simp only [freeAllBufs]
    apply ih
    exact Led.free (b := p.1) (m := cfg.mgr) (n := p.2) h

theorem blocks_bufs (cfg : Cfg) (st : St) (bufs : List (Nat × Nat)) :
    ({ st with bufs := bufs } : St).blocks cfg = ({ st with bufs := [] } : St).blocks cfg ++ bufs.map (blkOf cfg) := by
  simp [St.blocks_eq]

theorem poolTraffic_led (cfg : Cfg) (st : St) (p : PoolT) (w : W) (FB : List Blk) (E : List Nat)
    (h : Led w (st.blocks cfg ++ FB) E) :
    Led (poolTraffic cfg st p w).2 ((poolTraffic cfg st p w).1.blocks cfg ++ FB) E ∧
    (poolTraffic cfg st p w).1.t = st.t ∧ (poolTraffic cfg st p w).1.els = st.els ∧
    (poolTraffic cfg st p w).1.arrs = st.arrs ∧ (poolTraffic cfg st p w).1.params = st.params ∧
    (poolTraffic cfg st p w).1.crew = st.crew := by
  unfold poolTraffic
  split
  · refine ⟨?_, rfl, rfl, rfl, rfl, rfl⟩
    have e0 : st = { st with bufs := st.bufs } := rfl
    rw [e0, blocks_bufs] at h
    rw [blocks_bufs]
    have h1 : Led w (st.bufs.map (blkOf cfg) ++ (({ st with bufs := [] } : St).blocks cfg ++ FB)) E :=
      h.perm (by perm_count) (List.Perm.refl _)
    have h2 := getBufs_led cfg _ E p.gets st.bufs w h1
    have h3 := freeBufs_led cfg _ E p.frees _ _ h2
    exact h3.perm (by perm_count) (List.Perm.refl _)
  · exact ⟨h, rfl, rfl, rfl, rfl, rfl⟩

/-! ### `pvRelocateItems` -/

theorem moveAll_led (cfg : Cfg) (B : List Blk) (FE : List Nat) :
    ∀ (ks : List Nat) (els : Els) (w : W), Led w B (els.map Prod.snd ++ FE) →
      Led (moveAll cfg ks els w).2 B ((moveAll cfg ks els w).1.map Prod.snd ++ FE) ∧
      (moveAll cfg ks els w).1.map Prod.fst = els.map Prod.fst := by
  intro ks
  induction ks with
  | nil => intro els w h; exact ⟨h, rfl⟩
  | cons k r ih =>
    intro els w h
    simp only [moveAll]
    cases hl : lookE els k with
    | none => exact ih els w h
    | some e =>
      simp only
      obtain ⟨l1, l2, h1, h2, _, _⟩ := lookE_split hl
      have hE : (els.map Prod.snd ++ FE).Perm (e :: (l1.map Prod.snd ++ l2.map Prod.snd ++ FE)) := by
        rw [h1]; simp only [List.map_append, List.map_cons]; perm_count
      obtain ⟨g1, g2⟩ := (h.perm (List.Perm.refl _) hE).reloc cfg.cat
      rw [g2, h2 w.nextE]
      have g3 : Led (w.relocE cfg.cat e).2 B ((l1 ++ (k, w.nextE) :: l2).map Prod.snd ++ FE) :=
        g1.perm (List.Perm.refl _) (by simp only [List.map_append, List.map_cons]; perm_count)
      obtain ⟨i1, i2⟩ := ih _ _ g3
      refine ⟨i1, ?_⟩
      rw [i2, h1]; simp

theorem relocGo_led (cfg : Cfg) (B0 : List Blk) (FE : List Nat) :
    ∀ (olds : List (Nat × Nat)) (ks : List (List Nat)) (n dead : Nat) (els : Els) (w : W),
      Led w (olds.map (blkOf cfg) ++ B0) (els.map Prod.snd ++ FE) →
      Led (relocGo cfg olds ks n dead els w).2 ((olds.drop dead).map (blkOf cfg) ++ B0)
        ((relocGo cfg olds ks n dead els w).1.map Prod.snd ++ FE) ∧
      (relocGo cfg olds ks n dead els w).1.map Prod.fst = els.map Prod.fst := by
  intro olds
  induction olds with
  | nil => intro ks n dead els w h; exact ⟨by simpa [relocGo] using h, by simp [relocGo]⟩
  | cons a rest ih =>
    intro ks n dead els w h
    cases dead with
    | zero =>
      simp only [relocGo, List.drop_zero]
      exact moveAll_led cfg _ FE _ els w h
    | succ d =>
      simp only [relocGo, List.drop_succ_cons]
      obtain ⟨m1, m2⟩ := moveAll_led cfg _ FE ((ks.headD []).take n) els w h
      have m3 := Led.free (b := a.1) (m := cfg.mgr) (n := a.2) m1
      obtain ⟨i1, i2⟩ := ih ks.tail (n - (ks.headD []).length) d _ _ m3
      exact ⟨i1, i2.trans m2⟩

/-- the blocks of a container that are not bucket arrays -/
def St.fixed (cfg : Cfg) (st : St) : List Blk :=
  (optL st.crew).map (fun b => (b, cfg.mgr, cfg.csz)) ++ (optL st.params).map (fun b => (b, cfg.mgr, cfg.psz)) ++
    st.bufs.map (blkOf cfg)

theorem blocks_perm (cfg : Cfg) (st : St) : (st.blocks cfg).Perm (st.arrs.map (blkOf cfg) ++ st.fixed cfg) := by
  simp only [St.blocks_eq, St.fixed]
  perm_count

theorem revDrop {α : Type} (l : List α) (k : Nat) :
    (l.drop 1).reverse.drop (l.length - k) = ((l.take k).drop 1).reverse := by
  by_cases hlen : k ≤ l.length
  · have h1 : l = l.take k ++ l.drop k := (List.take_append_drop k l).symm
    have h2 : (l.take k).length = k := by simp [hlen]
    by_cases hk : 1 ≤ k
    · have h4 : l.drop 1 = (l.take k).drop 1 ++ l.drop k := by
        conv => lhs; rw [h1]
        rw [List.drop_append_of_le_length (by omega)]
      rw [h4, List.reverse_append]
      rw [List.drop_append_of_le_length (by simp)]
      have : (l.drop k).reverse.drop (l.length - k) = [] := by
        apply List.drop_of_length_le; simp
      rw [this]; simp
    · have : k = 0 := by omega
      subst this
      simp
  · have hge : l.length ≤ k := by omega
    rw [List.take_of_length_le hge]
    have : l.length - k = 0 := by omega
    rw [this]; simp

/-- a list as its tail reversed followed by its head -/
theorem perm_rev_tail {α : Type} (l : List α) : l.Perm ((l.drop 1).reverse ++ l.take 1) := by
  have h1 : (l.take 1 ++ l.drop 1).Perm (l.drop 1 ++ l.take 1) := List.perm_append_comm
  rw [List.take_append_drop] at h1
  exact h1.trans ((List.reverse_perm _).symm.append_right _)

theorem relocL_led (cfg : Cfg) (hf : Nat → Nat) (st : St) (stop : Option Nat) (w : W) (FB : List Blk) (FE : List Nat)
    (hne : st.t.gens ≠ []) (h : Led w (st.blocks cfg ++ FB) (st.elems ++ FE)) :
    Led (relocL cfg hf st stop w).2 ((relocL cfg hf st stop w).1.blocks cfg ++ FB) ((relocL cfg hf st stop w).1.elems ++ FE) ∧
    (relocL cfg hf st stop w).1.els.map Prod.fst = st.els.map Prod.fst := by
  unfold relocL
  simp only
  generalize ht : relocate cfg.sp hf st.t (if cfg.sp.nothrowReloc = true then none else stop) = t'
  have hk : 1 ≤ t'.gens.length := by
    rw [← ht]
    unfold relocate
    cases hg : st.t.gens with
    | nil => exact absurd hg hne
    | cons head olds => simp
  have hB : (st.blocks cfg ++ FB).Perm ((st.arrs.drop 1).reverse.map (blkOf cfg) ++
      ((st.arrs.take 1).map (blkOf cfg) ++ st.fixed cfg ++ FB)) := by
    refine ((blocks_perm cfg st).append_right FB).trans ?_
    have h3 := (perm_rev_tail st.arrs).map (blkOf cfg)
    rw [List.map_append] at h3
    refine ((h3.append_right _).append_right _).trans ?_
    simp only [List.append_assoc]
    exact List.Perm.refl _
  obtain ⟨g1, g2⟩ := relocGo_led cfg _ FE (st.arrs.drop 1).reverse ((st.t.gens.drop 1).reverse.map drainKeys)
    (oldCount st.t - oldCount t') (st.arrs.length - t'.gens.length) st.els w (h.perm hB (List.Perm.refl _))
  rw [revDrop] at g1
  generalize relocGo cfg (st.arrs.drop 1).reverse ((st.t.gens.drop 1).reverse.map drainKeys) (oldCount st.t - oldCount t')
    (st.arrs.length - t'.gens.length) st.els w = R at g1 g2 ⊢
  refine ⟨?_, g2⟩
  refine g1.perm ?_ (List.Perm.refl _)
  have hb2 := blocks_perm cfg { st with t := t', arrs := st.arrs.take t'.gens.length, els := R.1 }
  refine List.Perm.trans ?_ (hb2.append_right FB).symm
  have h5 : (st.arrs.take t'.gens.length).take 1 = st.arrs.take 1 := by
    rw [List.take_take]; congr 1; omega
  have h6 := (perm_rev_tail (st.arrs.take t'.gens.length)).map (blkOf cfg)
  rw [List.map_append, h5] at h6
  show (_ ++ (_ ++ st.fixed cfg ++ FB)).Perm (_ ++ st.fixed cfg ++ FB)
  refine List.Perm.trans ?_ ((h6.symm.append_right _).append_right _)
  simp only [List.append_assoc]
  exact List.Perm.refl _

/-! ### `pvClear`, `pvDestroy`, `Clear`, the destructor -/

theorem destroyKeys_led (B : List Blk) (FE : List Nat) :
    ∀ (ks : List Nat) (els : Els) (w : W), Led w B (els.map Prod.snd ++ FE) →
      Led (destroyKeys ks els w).2 B ((destroyKeys ks els w).1.map Prod.snd ++ FE) := by
  intro ks
  induction ks with
  | nil => intro els w h; exact h
  | cons k r ih =>
    intro els w h
    simp only [destroyKeys]
    cases hl : lookE els k with
    | none => exact ih els w h
    | some e =>
      simp only
      obtain ⟨l1, l2, h1, _, h3, _⟩ := lookE_split hl
      apply ih
      rw [h3]
      have hE : (els.map Prod.snd ++ FE).Perm (e :: ((l1 ++ l2).map Prod.snd ++ FE)) := by
        rw [h1]; simp only [List.map_append, List.map_cons]; perm_count
      exact (h.perm (List.Perm.refl _) hE).dtor

theorem destroyRest_led (B : List Blk) (FE : List Nat) :
    ∀ (els : Els) (w : W), Led w B (els.map Prod.snd ++ FE) → Led (destroyRest els w) B FE := by
  intro els
  induction els with
  | nil => intro w h; exact h
  | cons p r ih =>
    intro w h
    obtain ⟨k, e⟩ := p
    simp only [destroyRest]
    apply ih
    exact Led.dtor (e := e) h

theorem destroyAllE_led (st : St) (w : W) (B : List Blk) (FE : List Nat) (h : Led w B (st.elems ++ FE)) :
    Led (destroyAllE st w) B FE :=
  destroyRest_led B FE _ _ (destroyKeys_led B FE _ _ _ h)

theorem freeArrs_led (cfg : Cfg) (E : List Nat) :
    ∀ (arrs : List (Nat × Nat)) (B0 : List Blk) (w : W), Led w (arrs.map (blkOf cfg) ++ B0) E →
      Led (freeArrs cfg arrs w) B0 E := by
  intro arrs
  induction arrs with
  | nil => intro B0 w h; exact h
  | cons a r ih =>
    intro B0 w h
    simp only [freeArrs]
    have h1 : Led w (r.map (blkOf cfg) ++ ((a.1, cfg.mgr, a.2) :: B0)) E :=
      h.perm (by simp only [List.map_cons, blkOf]; perm_count) (List.Perm.refl _)
    exact (ih _ w h1).free

/-- `pvDestroy()`: everything but the crew goes -/
theorem destroyBodyL_led (cfg : Cfg) (st : St) (w : W) (FB : List Blk) (FE : List Nat)
    (hp : st.arrs = [] → st.params = none ∧ st.bufs = [] ∧ st.els = [])
    (h : Led w (st.blocks cfg ++ FB) (st.elems ++ FE)) :
    Led (destroyBodyL cfg st w) ((optL st.crew).map (fun b => (b, cfg.mgr, cfg.csz)) ++ FB) FE := by
  unfold destroyBodyL
  cases ha : st.arrs with
  | nil =>
    obtain ⟨p1, p2, p3⟩ := hp ha
    simp only
    have : st.blocks cfg = (optL st.crew).map (fun b => (b, cfg.mgr, cfg.csz)) := by
      simp [St.blocks_eq, ha, p1, p2, optL]
    rw [this] at h
    simpa [St.elems, p3] using h
  | cons a older =>
    simp only
    have h1 := destroyAllE_led st w _ FE h
    have hB : (st.blocks cfg ++ FB).Perm (older.map (blkOf cfg) ++ (st.bufs.map (blkOf cfg) ++
        ((optL st.params).map (fun b => (b, cfg.mgr, cfg.psz)) ++ ((a.1, cfg.mgr, a.2) ::
          ((optL st.crew).map (fun b => (b, cfg.mgr, cfg.csz)) ++ FB))))) := by
      simp only [St.blocks_eq, ha, List.map_cons, blkOf]
      perm_count
    have h2 := freeArrs_led cfg FE older _ _ (h1.perm hB (List.Perm.refl _))
    have h3 := freeAllBufs_led cfg _ FE st.bufs _ h2
    cases hpar : st.params with
    | none =>
      simp only [hpar, optL, List.map_nil, List.nil_append] at h3 ⊢
      exact h3.free
    | some p =>
      simp only [hpar, optL, List.map_cons, List.map_nil, List.cons_append, List.nil_append] at h3 ⊢
      exact h3.free.free

theorem destroyL_led (cfg : Cfg) (st : St) (w : W) (FB : List Blk) (FE : List Nat)
    (hp : st.arrs = [] → st.params = none ∧ st.bufs = [] ∧ st.els = [])
    (h : Led w (st.blocks cfg ++ FB) (st.elems ++ FE)) : Led (destroyL cfg st w) FB FE := by
  have h1 := destroyBodyL_led cfg st w FB FE hp h
  unfold destroyL
  cases hc : st.crew with
  | none => simpa [hc, optL] using h1
  | some c =>
    simp only [hc, optL, List.map_cons, List.map_nil, List.cons_append, List.nil_append] at h1 ⊢
    exact h1.free

theorem clearL_led (cfg : Cfg) (st : St) (shrink : Bool) (w : W) (FB : List Blk) (FE : List Nat)
    (hp : st.arrs = [] → st.params = none ∧ st.bufs = [] ∧ st.els = [])
    (h : Led w (st.blocks cfg ++ FB) (st.elems ++ FE)) :
    Led (clearL cfg st shrink w).2 ((clearL cfg st shrink w).1.blocks cfg ++ FB) ((clearL cfg st shrink w).1.elems ++ FE) := by
  unfold clearL
  cases ha : st.arrs with
  | nil => exact h
  | cons a older =>
    simp only
    cases shrink with
    | true =>
      simp only [if_true]
      have h1 := destroyBodyL_led cfg st w FB FE hp h
      simpa [St.blocks_eq, St.elems, optL] using h1
    | false =>
      simp only [Bool.false_eq_true, if_false]
      have h1 := destroyAllE_led st w _ FE h
      have hB : (st.blocks cfg ++ FB).Perm (older.map (blkOf cfg) ++ (st.bufs.map (blkOf cfg) ++
          ((optL st.crew).map (fun b => (b, cfg.mgr, cfg.csz)) ++ (optL st.params).map (fun b => (b, cfg.mgr, cfg.psz)) ++
            [a].map (blkOf cfg) ++ FB))) := by
        simp only [St.blocks_eq, ha, List.map_cons, List.map_nil, blkOf]
        perm_count
      have h2 := freeArrs_led cfg FE older _ _ (h1.perm hB (List.Perm.refl _))
      have h3 := freeAllBufs_led cfg _ FE st.bufs _ h2
      simpa [St.blocks_eq, St.elems] using h3

end Momo.HTL
