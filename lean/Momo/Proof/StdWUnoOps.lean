import Momo.Proof.StdWUnoBase
/-!
  Lemmas for the C06 history theorem, unordered containers with unique keys, part 2: the operations of the wrapper model
  on a table in ANY traversal order against the operations of the specification on a permutation of it.
-/
namespace Momo.StdW
open Momo.StdWrap List
open Momo.StdSpec hiding Item

theorem hasKey_append (k : Nat) (a b : List Item) : hasKey k (a ++ b) = (hasKey k a || hasKey k b) := by
  simp [hasKey]

theorem nodupKeys_append_single (s : List Item) (hn : NodupKeys s) (x : Item) (h : hasKey x.1 s = false) :
    NodupKeys (s ++ [x]) := by
  unfold NodupKeys at hn ⊢
  rw [map_append, nodup_append]
  refine ⟨hn, by simp, ?_⟩
  intro a ha b hb
  simp only [map_cons, map_nil, mem_singleton] at hb
  subst hb
  obtain ⟨e, he, rfl⟩ := mem_map.mp ha
  exact (hasKey_false_iff x.1 s).mp h e he

theorem hInsert_flag (l : List Item) (y : Item) : (hInsert l y).2.1 = !hasKey y.1 l := by
  unfold hInsert
  rw [hFind_eq_uFind]
  cases h : uFind y.1 l with
  | none => simp [(uFind_none_iff l y.1).mp h]
  | some e => have := uFind_isSome l y.1; rw [h] at this; simp [← this]

theorem hInsert_fst (l : List Item) (y : Item) : (hInsert l y).1 = if hasKey y.1 l then l else l ++ [y] := by
  unfold hInsert
  rw [hFind_eq_uFind]
  cases h : uFind y.1 l with
  | none => simp [(uFind_none_iff l y.1).mp h]
  | some e => have := uFind_isSome l y.1; rw [h] at this; simp [← this]

/-- insertion: same flag, same element denoted, permuted tables, keys stay distinct -/
theorem hInsert_rel (w s : List Item) (hp : w.Perm s) (hn : NodupKeys s) (x : Item) :
    (hInsert w x).1.Perm (suInsert s x).1 ∧ (hInsert w x).2 = (suInsert s x).2 ∧ NodupKeys (suInsert s x).1 := by
  unfold hInsert suInsert
  rw [hFind_eq_uFind, uFind_perm hp hn]
  cases h : uFind x.1 s with
  | some e => exact ⟨hp, rfl, hn⟩
  | none => exact ⟨Perm.append_right _ hp, rfl, nodupKeys_append_single s hn x ((uFind_none_iff s x.1).mp h)⟩

theorem insertMany_rel (ys : List Item) : ∀ (w s : List Item), w.Perm s → NodupKeys s →
    (ys.foldl (fun acc y => (hInsert acc y).1) w).Perm (suInsertMany s ys) ∧ NodupKeys (suInsertMany s ys) := by
  induction ys with
  | nil => intro w s hp hn; exact ⟨hp, hn⟩
  | cons y t ih =>
    intro w s hp hn
    obtain ⟨h1, _, h3⟩ := hInsert_rel w s hp hn y
    simpa [suInsertMany] using ih _ _ h1 h3

/-- re-inserting the items of a table with distinct keys into an empty table, in traversal order, gives the same table
    (`max_load_factor(z)` rebuilds the table this way) -/
theorem rebuild_aux (xs : List Item) : ∀ acc : List Item, NodupKeys (acc ++ xs) →
    xs.foldl (fun acc y => (hInsert acc y).1) acc = acc ++ xs := by
  induction xs with
  | nil => intro acc _; simp
  | cons y t ih =>
    intro acc hn
    have hn' : NodupKeys (y :: (acc ++ t)) := hn.perm perm_middle.symm
    have hk : hasKey y.1 acc = false := by
      rw [hasKey_false_iff]
      intro e he heq
      unfold NodupKeys at hn'
      rw [map_cons, nodup_cons] at hn'
      apply hn'.1
      rw [← heq]
      exact mem_map_of_mem (mem_append_left _ he)
    have hn2 : NodupKeys ((acc ++ [y]) ++ t) := by simpa using hn
    have e1 : (hInsert acc y).1 = acc ++ [y] := by rw [hInsert_fst, hk]; simp
    rw [foldl_cons, e1, ih _ hn2]; simp

theorem rebuild_eq (xs : List Item) (hn : NodupKeys xs) : xs.foldl (fun acc y => (hInsert acc y).1) [] = xs := by
  simpa using rebuild_aux xs [] (by simpa using hn)

theorem assignFn_eq (x : Item) : (fun e : Item => if e.1 == x.1 then (e.1, x.2) else e) = (fun e => if e.1 == x.1 then x else e) := by
  funext e
  by_cases h : e.1 = x.1
  · simp [h]
  · simp [h]

theorem nodupKeys_map_assign (s : List Item) (hn : NodupKeys s) (x : Item) :
    NodupKeys (s.map (fun e => if e.1 == x.1 then x else e)) := by
  unfold NodupKeys at hn ⊢
  have : (s.map (fun e => if e.1 == x.1 then x else e)).map (·.1) = s.map (·.1) := by
    rw [map_map]; apply map_congr_left; intro e _
    by_cases h : e.1 = x.1 <;> simp [h]
  rw [this]; exact hn

theorem map_assign_absent (w : List Item) (x : Item) (h : hasKey x.1 w = false) :
    w.map (fun e => if e.1 == x.1 then x else e) = w := by
  have : ∀ e ∈ w, (fun e : Item => if e.1 == x.1 then x else e) e = e := by
    intro e he
    have := (hasKey_false_iff x.1 w).mp h e he
    simp [this]
  rw [map_congr_left this, map_id']

theorem hInsert_absent (w : List Item) (x : Item) (h : hasKey x.1 w = false) : hInsert w x = (w ++ [x], true, x) := by
  unfold hInsert; rw [hFind_eq_uFind, (uFind_none_iff w x.1).mpr h]

theorem hInsert_present (w : List Item) (x : Item) (h : hasKey x.1 w = true) :
    ∃ e, e.1 = x.1 ∧ hInsert w x = (w, false, e) := by
  unfold hInsert; rw [hFind_eq_uFind]
  cases hu : uFind x.1 w with
  | none => rw [(uFind_none_iff w x.1).mp hu] at h; cases h
  | some e =>
    unfold uFind at hu
    exact ⟨e, by simpa using find?_some hu, rfl⟩

theorem wuInsertOrAssign_rel (w s : List Item) (hp : w.Perm s) (hn : NodupKeys s) (x : Item) :
    (wuInsertOrAssign w x).1.Perm (suInsertOrAssign s x).1 ∧ (wuInsertOrAssign w x).2 = (suInsertOrAssign s x).2 ∧
    NodupKeys (suInsertOrAssign s x).1 := by
  unfold wuInsertOrAssign suInsertOrAssign
  cases hk : hasKey x.1 s with
  | false =>
    rw [hInsert_absent w x (by rw [hasKey_perm hp]; exact hk)]
    simp only [if_true, Bool.false_eq_true, if_false]
    exact ⟨Perm.append_right _ hp, trivial, nodupKeys_append_single s hn x hk⟩
  | true =>
    obtain ⟨e, he, hI⟩ := hInsert_present w x (by rw [hasKey_perm hp]; exact hk)
    rw [hI]
    simp only [Bool.false_eq_true, if_false, if_true, assignFn_eq]
    refine ⟨hp.map _, ?_, nodupKeys_map_assign s hn x⟩
    rw [he]

theorem wuIndex_rel (w s : List Item) (hp : w.Perm s) (hn : NodupKeys s) (k : Nat) :
    (wuIndex w k).1.Perm (suInsert s (k, 0)).1 ∧ (wuIndex w k).2 = (suInsert s (k, 0)).2.2.2 := by
  unfold wuIndex suInsert
  rw [hFind_eq_uFind, uFind_perm hp hn]
  cases h : uFind k s with
  | some e => exact ⟨hp, rfl⟩
  | none => exact ⟨Perm.append_right _ hp, rfl⟩

theorem wuIndexAssign_rel (w s : List Item) (hp : w.Perm s) (hn : NodupKeys s) (k v : Nat) :
    ((wuIndex w k).1.map (fun e => if e.1 == k then (e.1, v) else e)).Perm (suInsertOrAssign s (k, v)).1 := by
  have hfn := assignFn_eq (k, v)
  simp only at hfn
  rw [hfn]
  unfold wuIndex suInsertOrAssign
  rw [hFind_eq_uFind, uFind_perm hp hn]
  cases h : uFind k s with
  | some e =>
    have : hasKey k s = true := by rw [← uFind_isSome, h]; rfl
    simp only [this, if_true]
    exact hp.map _
  | none =>
    have hk := (uFind_none_iff s k).mp h
    have hkw : hasKey k w = false := by rw [hasKey_perm hp]; exact hk
    simp only [hk, Bool.false_eq_true, if_false, map_append, map_cons, map_nil, beq_self_eq_true, if_true]
    have := map_assign_absent w (k, v) hkw
    simp only at this
    rw [this]
    exact Perm.append_right _ hp

theorem filter_key_unique (s : List Item) (hn : NodupKeys s) (k : Nat) :
    s.filter (fun e => e.1 == k) = match uFind k s with | some e => [e] | none => [] := by
  induction s with
  | nil => simp [uFind]
  | cons y t ih =>
    have hn' : NodupKeys t := by unfold NodupKeys at hn ⊢; simp only [map_cons, nodup_cons] at hn; exact hn.2
    have hy : y.1 ∉ t.map (·.1) := by unfold NodupKeys at hn; simp only [map_cons, nodup_cons] at hn; exact hn.1
    by_cases hk : y.1 = k
    · have hall : t.filter (fun e => e.1 == k) = [] := by
        rw [filter_eq_nil_iff]; intro e he; simp only [beq_iff_eq]
        intro hek; exact hy (hk ▸ hek ▸ mem_map.mpr ⟨e, he, rfl⟩)
      simp [uFind, hk, hall]
    · have h1 : (y.1 == k) = false := by simpa using hk
      simp only [filter_cons, h1, Bool.false_eq_true, if_false, uFind, find?_cons]
      exact ih hn'

theorem canon_singleton (e : Item) : canon [e] = [e] := by simp [canon, canonIns]

/-! ### merge -/

theorem hMerge_fold (dst : List Item) : ∀ (src m r : List Item), NodupKeys src → (∀ y ∈ src, hasKey y.1 m = false) →
    src.foldl (fun acc y => if (hInsert acc.1 y).2.1 then ((hInsert acc.1 y).1, acc.2) else (acc.1, acc.2 ++ [y])) (dst ++ m, r)
      = (dst ++ m ++ src.filter (fun e => !hasKey e.1 dst), r ++ src.filter (fun e => hasKey e.1 dst)) := by
  intro src
  induction src with
  | nil => intro m r _ _; simp
  | cons y t ih =>
    intro m r hn hm
    have hn' : NodupKeys t := by unfold NodupKeys at hn ⊢; simp only [map_cons, nodup_cons] at hn; exact hn.2
    have hy : y.1 ∉ t.map (·.1) := by unfold NodupKeys at hn; simp only [map_cons, nodup_cons] at hn; exact hn.1
    have hym : hasKey y.1 m = false := hm y (by simp)
    rw [foldl_cons]
    cases hk : hasKey y.1 dst with
    | false =>
      conv => lhs; arg 2; simp only [hInsert_flag, hInsert_fst, hasKey_append, hym, hk, Bool.or_false, Bool.not_false,
        if_true, Bool.false_eq_true, if_false]
      have hm' : ∀ z ∈ t, hasKey z.1 (m ++ [y]) = false := by
        intro z hz
        rw [hasKey_append, hm z (by simp [hz]), Bool.false_or, hasKey_false_iff]
        intro e he; simp only [mem_singleton] at he; subst he
        intro heq; exact hy (heq ▸ mem_map.mpr ⟨z, hz, rfl⟩)
      have := ih (m ++ [y]) r hn' hm'
      rw [← append_assoc] at this
      rw [this]
      simp [filter_cons, hk]
    | true =>
      conv => lhs; arg 2; simp only [hInsert_flag, hasKey_append, hym, hk, Bool.or_false, Bool.not_true,
        Bool.false_eq_true, if_false]
      have := ih m (r ++ [y]) hn' (fun z hz => hm z (by simp [hz]))
      rw [this]
      simp [filter_cons, hk]

theorem hMergeFrom_eq (dst src : List Item) (hn : NodupKeys src) : hMergeFrom dst src = suMerge dst src := by
  have := hMerge_fold dst src [] [] hn (by intro y _; simp [hasKey])
  simpa [hMergeFrom, suMerge] using this

theorem suMerge_rel (wd ws sd ss : List Item) (hd : wd.Perm sd) (hs : ws.Perm ss) (hnd : NodupKeys sd) (hns : NodupKeys ss) :
    (suMerge wd ws).1.Perm (suMerge sd ss).1 ∧ (suMerge wd ws).2.Perm (suMerge sd ss).2 ∧
    NodupKeys (suMerge sd ss).1 ∧ NodupKeys (suMerge sd ss).2 := by
  have e1 : (fun e : Item => !hasKey e.1 wd) = (fun e => !hasKey e.1 sd) := by funext e; rw [hasKey_perm hd]
  have e2 : (fun e : Item => hasKey e.1 wd) = (fun e => hasKey e.1 sd) := by funext e; rw [hasKey_perm hd]
  unfold suMerge
  simp only [e1, e2]
  refine ⟨Perm.append hd (hs.filter _), hs.filter _, ?_, hns.filter _⟩
  unfold NodupKeys at hnd hns ⊢
  rw [map_append, nodup_append]
  refine ⟨hnd, (NodupKeys.filter hns _), ?_⟩
  intro a ha b hb
  obtain ⟨e, he, rfl⟩ := mem_map.mp ha
  obtain ⟨f, hf, rfl⟩ := mem_map.mp hb
  have hf2 := (mem_filter.mp hf).2
  simp only [Bool.not_eq_true'] at hf2
  intro heq
  exact (hasKey_false_iff f.1 sd).mp hf2 e he heq

/-! ### erase(first, last) -/

theorem hPos_lt (w : List Item) (k : Nat) (h : hasKey k w = true) : hPos w k < w.length := by
  unfold hPos
  rw [findIdx_lt_length]
  obtain ⟨e, he, hk⟩ := (hasKey_iff' k w).mp h
  exact ⟨e, he, by simpa using hk⟩

theorem wuEraseRange_empty (w : List Item) : wuEraseRange w .empty = (w, .done) := by
  simp [wuEraseRange, uRangeIters, eraseRangeU]

theorem wuEraseRange_single (w : List Item) (hn : NodupKeys w) (k : Nat) (mv : Bool) (h : hasKey k w = true) :
    wuEraseRange w (.single k mv) = (w.filter (fun e => e.1 != k), .done) := by
  have hp := hPos_lt w k h
  have hd : eraseRangeU w.length ⟨hPos w k, mv⟩ (nextU w.length ⟨hPos w k, mv⟩) = .one (hPos w k) := by
    unfold eraseRangeU
    have h1 : ¬ ((⟨hPos w k, mv⟩ : It).pos = (nextU w.length ⟨hPos w k, mv⟩).pos) := by
      unfold nextU; cases mv <;> simp <;> omega
    rw [if_neg h1, if_pos ⟨by simp; omega, rfl⟩]
  simp only [wuEraseRange, uRangeIters, hd, eraseIdx_hPos w hn k]

theorem wuEraseRange_whole (w : List Item) : wuEraseRange w .whole = ([], .done) := by
  match w with
  | [] => simp [wuEraseRange, uRangeIters, eraseRangeU]
  | [x] => simp [wuEraseRange, uRangeIters, eraseRangeU, nextU, hRemoveAt]
  | x :: y :: t => simp [wuEraseRange, uRangeIters, eraseRangeU, nextU]

/-! ### == -/

theorem usetEq_rel (wa wb sa sb : List Item) (ha : wa.Perm sa) (hb : wb.Perm sb) (hna : NodupKeys sa) (hnb : NodupKeys sb) :
    usetEq wa wb = sa.isPerm sb := by
  rw [Bool.eq_iff_iff, usetEq_iff' wa wb (hna.perm ha) (hnb.perm hb), isPerm_iff]
  exact ⟨fun h => ha.symm.trans (h.trans hb), fun h => ha.trans (h.trans hb.symm)⟩

end Momo.StdW
