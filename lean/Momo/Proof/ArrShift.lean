import Momo.Proof.Arr
/-!
  C05, part 2 of the lemmas: the four `ArrayShifter` functions refine the list specification
  (every index, every count including 0, value arguments inside or outside the array).  Core Lean only.
-/
namespace Momo.Arr
variable {α : Type}

theorem insertList_length (xs ys : List α) (index : Nat) (hi : index ≤ xs.length) :
    ((Spec.insertList xs index ys).map Cell.live).length = xs.length + ys.length := by
  simp [Spec.insertList]; omega

theorem insertList_cell_lo (xs ys : List α) (index k : Nat) (hi : index ≤ xs.length) (hk : k < index) :
    cellAt ((Spec.insertList xs index ys).map Cell.live) k = cellAt (xs.map Cell.live) k := by
  simp only [Spec.insertList, List.map_append, List.append_assoc]
  rw [cellAt_append_left _ _ _ (by simp; omega), List.map_take, cellAt_take_lt _ _ _ hk]

theorem insertList_cell_mid (xs ys : List α) (index k : Nat) (hi : index ≤ xs.length) (hk1 : index ≤ k)
    (hk2 : k < index + ys.length) :
    cellAt ((Spec.insertList xs index ys).map Cell.live) k = cellAt (ys.map Cell.live) (k - index) := by
  simp only [Spec.insertList, List.map_append, List.append_assoc]
  rw [cellAt_append_right _ _ _ (by simp; omega), cellAt_append_left _ _ _ (by simp; omega)]
  congr 1; simp; omega

theorem insertList_cell_hi (xs ys : List α) (index k : Nat) (hi : index ≤ xs.length) (hk : index + ys.length ≤ k) :
    cellAt ((Spec.insertList xs index ys).map Cell.live) k = cellAt (xs.map Cell.live) (k - ys.length) := by
  simp only [Spec.insertList, List.map_append, List.append_assoc]
  rw [cellAt_append_right _ _ _ (by simp; omega), cellAt_append_right _ _ _ (by simp; omega), List.map_drop, cellAt_drop]
  congr 1; simp; omega

/-- **`ArrayShifter::InsertNogrow(array, index, begin, count)` refines list insertion**, both branches, every
    index, every count including 0, for arguments that denote live values outside the shifted part -/
theorem insertNogrowR_spec (keeps mv : Bool) (xs : List α) (index : Nat) (rs : List (Ref α)) (ys : List α)
    (hi : index ≤ xs.length) (hg : GoodAll mv index (xs.map Cell.live) rs ys) :
    insertNogrowR keeps mv (xs.map Cell.live) index rs = (Spec.insertList xs index ys).map Cell.live := by
  have hlen := hg.length_eq
  have hn : (xs.map Cell.live).length = xs.length := by simp
  unfold insertNogrowR
  by_cases h0 : rs.length = 0
  · rw [if_pos h0]
    have : ys = [] := List.eq_nil_of_length_eq_zero (by omega)
    subst this
    simp [Spec.insertList]
  rw [if_neg h0]
  by_cases hb : index + rs.length < (xs.map Cell.live).length
  · rw [if_pos hb]
    rw [hn] at hb ⊢
    obtain ⟨l1, a1, _, a3, a4⟩ := loop1_spec keeps rs.length (xs.map Cell.live) (xs.length - rs.length) (by rw [hn]; omega)
    rw [hn] at l1 a3 a4
    obtain ⟨l2, b1, b2, b3⟩ := loop2_spec keeps rs.length (by omega) (xs.length - rs.length - index)
      (loop1 keeps (xs.map Cell.live) (xs.length - rs.length) rs.length) (xs.length - rs.length) (by omega) (by rw [l1]; omega)
    have hagree : AgreeBelow index (xs.map Cell.live)
        (loop2 keeps (loop1 keeps (xs.map Cell.live) (xs.length - rs.length) rs.length) rs.length (xs.length - rs.length)
          (xs.length - rs.length - index)) := by
      intro k hk; rw [b1 k (by omega), a1 k (by omega)]
    obtain ⟨l3, c1, c2, c3⟩ := loop3R_spec keeps mv index (xs.map Cell.live) rs ys _ index hg hagree (Nat.le_refl _)
      (by rw [l2, l1]; omega)
    apply ext_cellAt
    · rw [l3, l2, l1, insertList_length xs ys index hi]; omega
    · intro k hk
      rw [l3, l2, l1] at hk
      by_cases hk1 : k < index
      · rw [c1 k hk1, b1 k (by omega), a1 k (by omega), insertList_cell_lo xs ys index k hi hk1]
      · by_cases hk2 : k < index + rs.length
        · rw [c2 k (by omega) hk2, insertList_cell_mid xs ys index k hi (by omega) (by omega)]
        · rw [c3 k (by omega), insertList_cell_hi xs ys index k hi (by omega)]
          by_cases hk3 : k < xs.length
          · rw [b3 k (by omega) (by omega), a1 _ (by omega), hlen]
          · rw [b2 k (by omega), a4 k (by omega) (by omega)]
            congr 1; omega
  · rw [if_neg hb]
    rw [hn] at hb ⊢
    have hgd := GoodAll.drop (xs.length - index) hg
    rw [loopAR_spec keeps mv index (xs.map Cell.live) _ _ _ hgd (fun _ _ => rfl) (by rw [hn]; exact hi)]
    have hla : (xs.map Cell.live ++ (ys.drop (xs.length - index)).map Cell.live).length = index + ys.length := by
      simp; omega
    obtain ⟨l, p1, p2, p3, p4⟩ := loopBR_spec keeps mv index (xs.map Cell.live) (xs.length - index) rs ys
      (xs.map Cell.live ++ (ys.drop (xs.length - index)).map Cell.live) index hg
      (agree_append index _ _ _ (fun _ _ => rfl) (by rw [hn]; exact hi)) (Nat.le_refl _) (by rw [hla]; omega) (by omega)
    rw [hla] at l p3 p4
    apply ext_cellAt
    · rw [l, insertList_length xs ys index hi]; omega
    · intro k hk
      rw [l] at hk
      by_cases hk1 : k < index
      · rw [p1 k hk1, cellAt_append_left _ _ _ (by rw [hn]; omega), insertList_cell_lo xs ys index k hi hk1]
      · by_cases hk2 : k < xs.length
        · rw [p2 k (by omega) (by omega), insertList_cell_mid xs ys index k hi (by omega) (by omega)]
        · by_cases hk3 : k < index + ys.length
          · rw [p3 k (by omega) hk3, cellAt_append_right _ _ _ (by rw [hn]; omega), hn,
              insertList_cell_mid xs ys index k hi (by omega) hk3, List.map_drop, cellAt_drop]
            congr 1; omega
          · rw [p4 k (by omega) (by omega), cellAt_append_left _ _ _ (by rw [hn]; omega),
              insertList_cell_hi xs ys index k hi (by omega)]
            congr 1; omega


/-! ### `InsertNogrow(array, index, count, item)` is the forward-iterator form on `count` copies of the reference -/

theorem loop3_eq (keeps : Bool) (item : Ref α) : ∀ (c : Nat) (a : Cells α) (i : Nat),
    loop3 a item i c = loop3R keeps false (List.replicate c item) a i
  | 0, _, _ => rfl
  | c+1, a, i => by simp [loop3, loop3R, List.replicate_succ, assignFrom, loop3_eq keeps item c]

theorem loopA_eq (keeps : Bool) (item : Ref α) : ∀ (c : Nat) (a : Cells α),
    loopA a item c = loopAR keeps false (List.replicate c item) a
  | 0, _ => rfl
  | c+1, a => by simp [loopA, loopAR, List.replicate_succ, addBackFrom, loopA_eq keeps item c]

theorem loopB_eq (keeps : Bool) (item : Ref α) : ∀ (c m : Nat) (a : Cells α) (i : Nat), c ≤ m →
    loopB keeps a item i c = loopBR keeps false c (List.replicate m item) a i
  | 0, m, a, i, _ => by cases m <;> rfl
  | c+1, 0, _, _, h => by omega
  | c+1, m+1, a, i, h => by
    simp [loopB, loopBR, List.replicate_succ, assignFrom, loopB_eq keeps item c m _ _ (by omega)]

theorem insertNogrowN_eq (keeps : Bool) (a : Cells α) (index count : Nat) (item : Ref α) (hi : index ≤ a.length) :
    insertNogrowN keeps a index count item = insertNogrowR keeps false a index (List.replicate count item) := by
  unfold insertNogrowN insertNogrowR
  simp only [List.length_replicate]
  by_cases h0 : count = 0
  · simp [h0]
  rw [if_neg h0, if_neg h0]
  by_cases hb : index + count < a.length
  · rw [if_pos hb, if_pos hb, loop3_eq keeps]
  · have e : count - (a.length - index) = index + count - a.length := by omega
    rw [if_neg hb, if_neg hb, List.drop_replicate, ← loopA_eq keeps, ← loopB_eq keeps item _ _ _ _ (by omega), e]

theorem good_ext (mv : Bool) (index : Nat) (a : Cells α) (x : α) : Good mv index a (.ext (.live x)) x :=
  ⟨fun _ _ => rfl, fun _ => ⟨_, rfl⟩⟩

theorem good_elem (index : Nat) (xs : List α) (j : Nat) (hj : j < index) (hjn : j < xs.length) :
    Good false index (xs.map Cell.live) (.elem j) xs[j] := by
  refine ⟨?_, fun h => by simp at h⟩
  intro b hb
  simp only [Ref.read]
  rw [hb j hj, cellAt_map_live xs j hjn]

theorem goodAll_replicate (mv : Bool) (index : Nat) (a : Cells α) (r : Ref α) (y : α) (h : Good mv index a r y) :
    ∀ c, GoodAll mv index a (List.replicate c r) (List.replicate c y)
  | 0 => by simp [GoodAll]
  | c+1 => by simp only [List.replicate_succ, GoodAll]; exact ⟨h, goodAll_replicate mv index a r y h c⟩

theorem goodAll_ext (mv : Bool) (index : Nat) (a : Cells α) : ∀ ys : List α,
    GoodAll mv index a ((ys.map Cell.live).map Ref.ext) ys
  | [] => by simp [GoodAll]
  | y :: ys => by simp only [List.map_cons, GoodAll]; exact ⟨good_ext mv index a y, goodAll_ext mv index a ys⟩

/-- **`ArrayShifter::InsertNogrow(array, index, count, item)` refines `insert(pos, count, x)`**: both branches,
    every index, every count including 0, `item` outside the array or an element below `index` -/
theorem insertNogrowN_spec (keeps : Bool) (xs : List α) (index count : Nat) (item : Ref α) (x : α)
    (hi : index ≤ xs.length) (hg : Good false index (xs.map Cell.live) item x) :
    insertNogrowN keeps (xs.map Cell.live) index count item = (Spec.insertN xs index count x).map Cell.live := by
  rw [insertNogrowN_eq keeps _ _ _ _ (by simpa using hi),
    insertNogrowR_spec keeps false xs index _ (List.replicate count x) hi (goodAll_replicate _ _ _ _ _ hg count)]
  rfl

/-! ### `InsertNogrow(array, index, Item&&)` where the item is an element below `index` -/

theorem insertNogrowR_move_elem (keeps : Bool) (a : Cells α) (index j : Nat) (hi : index ≤ a.length) (hj : j < index) :
    insertNogrowR keeps true a index [.elem j] =
      (insertNogrowR keeps false a index [.elem j]).set j (afterMove keeps (cellAt a j)) := by
  unfold insertNogrowR
  simp only [List.length_singleton, Nat.succ_ne_zero, if_false]
  by_cases hb : index + 1 < a.length
  · rw [if_pos hb, if_pos hb]
    obtain ⟨l1, a1, _, _, _⟩ := loop1_spec keeps 1 a (a.length - 1) (by omega)
    obtain ⟨l2, b1, _, _⟩ := loop2_spec keeps 1 (by omega) (a.length - 1 - index) (loop1 keeps a (a.length - 1) 1)
      (a.length - 1) (by omega) (by rw [l1]; omega)
    simp only [loop3R, assignFrom, Ref.read, if_true]
    rw [b1 j (by omega), a1 j (by omega)]
    unfold assignMove
    rw [if_neg (by omega), b1 j (by omega), a1 j (by omega)]
    simp
  · rw [if_neg hb, if_neg hb]
    by_cases he : index = a.length
    · subst he
      simp [loopAR, loopBR, addBackFrom, addBackMove, Ref.read]
    · have hi' : a.length - index = 1 := by omega
      rw [hi']
      simp only [List.drop_one, List.tail_cons, loopAR, loopBR, assignFrom, Ref.read, if_true]
      rw [cellAt_addBackMove_other keeps a index j (by omega) (by omega)]
      unfold assignMove
      rw [if_neg (by omega), cellAt_addBackMove_other keeps a index j (by omega) (by omega)]
      simp

/-! ### `Remove(array, index, count)` -/

theorem loopRem_spec (keeps : Bool) (count : Nat) (hc : 0 < count) (f : Nat) : ∀ (a : Cells α) (i : Nat),
    count ≤ i → i + f ≤ a.length →
    (loopRem keeps a count i f).length = a.length ∧
    (∀ k, k < i - count → cellAt (loopRem keeps a count i f) k = cellAt a k) ∧
    (∀ k, i - count ≤ k → k < i - count + f → cellAt (loopRem keeps a count i f) k = cellAt a (k + count)) := by
  induction f with
  | zero =>
    intro a i _ _
    refine ⟨rfl, fun _ _ => rfl, ?_⟩
    intro k h1 h2; omega
  | succ f ih =>
    intro a i hci h
    have hl := assignMove_length keeps a i (i - count)
    obtain ⟨l, p1, p2⟩ := ih (assignMove keeps a i (i - count)) (i+1) (by omega) (by rw [hl]; omega)
    simp only [loopRem]
    refine ⟨by rw [l, hl], ?_, ?_⟩
    · intro k hk
      rw [p1 k (by omega), cellAt_assignMove_other keeps a _ _ k (by omega) (by omega)]
    · intro k hk1 hk2
      by_cases hke : k = i - count
      · subst hke
        rw [p1 _ (by omega), cellAt_assignMove_dst keeps a _ _ (by omega) (by omega)]
        congr 1; omega
      · rw [p2 k (by omega) (by omega), cellAt_assignMove_other keeps a _ _ _ (by omega) (by omega)]

/-- **`ArrayShifter::Remove(array, index, count)` refines `erase(first, last)`**, every index, every count including 0 -/
theorem remove_spec (keeps : Bool) (xs : List α) (index count : Nat) (h : index + count ≤ xs.length) :
    remove keeps (xs.map Cell.live) index count = (Spec.remove xs index count).map Cell.live := by
  unfold remove
  by_cases h0 : count = 0
  · subst h0; simp [Spec.remove]
  rw [if_neg h0]
  have hn : (xs.map Cell.live).length = xs.length := by simp
  obtain ⟨l, p1, p2⟩ := loopRem_spec keeps count (by omega) (xs.length - (index + count)) (xs.map Cell.live) (index + count)
    (by omega) (by rw [hn]; omega)
  rw [hn] at l ⊢
  apply ext_cellAt
  · simp [Spec.remove, l]; omega
  · intro k hk
    simp only [List.length_take, l] at hk
    rw [cellAt_take_lt _ _ _ (by omega)]
    simp only [Spec.remove, List.map_append, List.map_take, List.map_drop]
    by_cases hk1 : k < index
    · rw [p1 k (by omega), cellAt_append_left _ _ _ (by simp; omega), cellAt_take_lt _ _ _ hk1]
    · rw [p2 k (by omega) (by omega), cellAt_append_right _ _ _ (by simp; omega), cellAt_drop]
      congr 1; simp; omega

end Momo.Arr
