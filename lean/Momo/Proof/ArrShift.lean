import Momo.Proof.Arr
/-!
  C05, part 2 of the lemmas: the four `ArrayShifter` functions refine the list specification
  (every index, every count including 0, value arguments inside or outside the array).  Core Lean only.
-/
namespace Momo.Arr
variable {α : Type}

/-- the cell-level result of an insertion: nothing lost, nothing duplicated, order kept -/
def insCells (a : Cells α) (index : Nat) (vs : Cells α) : Cells α := a.take index ++ vs ++ a.drop index

theorem insCells_length (a vs : Cells α) (index : Nat) (hi : index ≤ a.length) :
    (insCells a index vs).length = a.length + vs.length := by
  simp [insCells]; omega

theorem insCells_lo (a vs : Cells α) (index k : Nat) (hi : index ≤ a.length) (hk : k < index) :
    cellAt (insCells a index vs) k = cellAt a k := by
  simp only [insCells, List.append_assoc]
  rw [cellAt_append_left _ _ _ (by simp; omega), cellAt_take_lt _ _ _ hk]

theorem insCells_mid (a vs : Cells α) (index k : Nat) (hi : index ≤ a.length) (hk1 : index ≤ k)
    (hk2 : k < index + vs.length) :
    cellAt (insCells a index vs) k = cellAt vs (k - index) := by
  simp only [insCells, List.append_assoc]
  rw [cellAt_append_right _ _ _ (by simp; omega), cellAt_append_left _ _ _ (by simp; omega)]
  congr 1; simp; omega

theorem insCells_hi (a vs : Cells α) (index k : Nat) (hi : index ≤ a.length) (hk : index + vs.length ≤ k) :
    cellAt (insCells a index vs) k = cellAt a (k - vs.length) := by
  simp only [insCells, List.append_assoc]
  rw [cellAt_append_right _ _ _ (by simp; omega), cellAt_append_right _ _ _ (by simp; omega), cellAt_drop]
  congr 1; simp; omega

theorem insCells_live (xs ys : List α) (index : Nat) :
    insCells (xs.map Cell.live) index (ys.map Cell.live) = (Spec.insertList xs index ys).map Cell.live := by
  simp [insCells, Spec.insertList, List.map_take, List.map_drop]

/-- **`ArrayShifter::InsertNogrow(array, index, begin, count)` inserts and loses nothing**, for *arbitrary* cells
    (live or moved-from): both branches, every index, every count including 0, for arguments that denote values
    outside the shifted part -/
theorem insertNogrowR_cells (keeps mv : Bool) (a : Cells α) (index : Nat) (rs : List (Ref α)) (vs : Cells α)
    (hi : index ≤ a.length) (hg : GoodAll mv index a rs vs) :
    insertNogrowR keeps mv a index rs = insCells a index vs := by
  have hlen := hg.length_eq
  unfold insertNogrowR
  by_cases h0 : rs.length = 0
  · rw [if_pos h0]
    have : vs = [] := List.eq_nil_of_length_eq_zero (by omega)
    subst this
    simp [insCells]
  rw [if_neg h0]
  by_cases hb : index + rs.length < a.length
  · rw [if_pos hb]
    obtain ⟨l1, a1, _, a3, a4⟩ := loop1_spec keeps rs.length a (a.length - rs.length) (by omega)
    obtain ⟨l2, b1, b2, b3⟩ := loop2_spec keeps rs.length (by omega) (a.length - rs.length - index)
      (loop1 keeps a (a.length - rs.length) rs.length) (a.length - rs.length) (by omega) (by rw [l1]; omega)
    have hagree : AgreeBelow index a
        (loop2 keeps (loop1 keeps a (a.length - rs.length) rs.length) rs.length (a.length - rs.length)
          (a.length - rs.length - index)) := by
      intro k hk; rw [b1 k (by omega), a1 k (by omega)]
    obtain ⟨l3, c1, c2, c3⟩ := loop3R_spec keeps mv index a rs vs _ index hg hagree (Nat.le_refl _)
      (by rw [l2, l1]; omega)
    apply ext_cellAt
    · rw [l3, l2, l1, insCells_length a vs index hi]; omega
    · intro k hk
      rw [l3, l2, l1] at hk
      by_cases hk1 : k < index
      · rw [c1 k hk1, b1 k (by omega), a1 k (by omega), insCells_lo a vs index k hi hk1]
      · by_cases hk2 : k < index + rs.length
        · rw [c2 k (by omega) hk2, insCells_mid a vs index k hi (by omega) (by omega)]
        · rw [c3 k (by omega), insCells_hi a vs index k hi (by omega)]
          by_cases hk3 : k < a.length
          · rw [b3 k (by omega) (by omega), a1 _ (by omega), hlen]
          · rw [b2 k (by omega), a4 k (by omega) (by omega)]
            congr 1; omega
  · rw [if_neg hb]
    have hgd := GoodAll.drop (a.length - index) hg
    rw [loopAR_spec keeps mv index a _ _ _ hgd (fun _ _ => rfl) hi]
    have hla : (a ++ vs.drop (a.length - index)).length = index + vs.length := by
      simp; omega
    obtain ⟨l, p1, p2, p3, p4⟩ := loopBR_spec keeps mv index a (a.length - index) rs vs
      (a ++ vs.drop (a.length - index)) index hg
      (agree_append index _ _ _ (fun _ _ => rfl) hi) (Nat.le_refl _) (by rw [hla]; omega) (by omega)
    rw [hla] at l p3 p4
    apply ext_cellAt
    · rw [l, insCells_length a vs index hi]; omega
    · intro k hk
      rw [l] at hk
      by_cases hk1 : k < index
      · rw [p1 k hk1, cellAt_append_left _ _ _ (by omega), insCells_lo a vs index k hi hk1]
      · by_cases hk2 : k < a.length
        · rw [p2 k (by omega) (by omega), insCells_mid a vs index k hi (by omega) (by omega)]
        · by_cases hk3 : k < index + vs.length
          · rw [p3 k (by omega) hk3, cellAt_append_right _ _ _ (by omega),
              insCells_mid a vs index k hi (by omega) hk3, cellAt_drop]
            congr 1; omega
          · rw [p4 k (by omega) (by omega), cellAt_append_left _ _ _ (by omega),
              insCells_hi a vs index k hi (by omega)]
            congr 1; omega

/-! ### `InsertNogrow(array, index, count, item)` is the forward-iterator form on `count` copies of the reference -/

theorem loop3_eq (keeps : Bool) (item : Ref α) : ∀ (c : Nat) (a : Cells α) (i : Nat),
    loop3 a item i c = loop3R keeps false (List.replicate c item) a i
  | 0, _, _ => rfl
  | c+1, a, i => by simp [loop3, loop3R, List.replicate_succ, assignFrom, loop3_eq keeps item c]

theorem loopA_eq (keeps : Bool) (item : Ref α) : ∀ (c : Nat) (a : Cells α),
    loopA a item c = loopAR keeps false (List.replicate c item) a
  | 0, _ => rfl
  | c+1, a => by simp [loopA, loopAR, List.replicate_succ, addBackFrom, loopA_eq keeps item c]

theorem loopB_eq (keeps : Bool) (item : Ref α) : ∀ (c m : Nat) (a : Cells α) (i : Nat), c ≤ m →
    loopB keeps a item i c = loopBR keeps false c (List.replicate m item) a i
  | 0, m, a, i, _ => by cases m <;> rfl
  | c+1, 0, _, _, h => by omega
  | c+1, m+1, a, i, h => by
    simp [loopB, loopBR, List.replicate_succ, assignFrom, loopB_eq keeps item c m _ _ (by omega)]

theorem insertNogrowN_eq (keeps : Bool) (a : Cells α) (index count : Nat) (item : Ref α) (hi : index ≤ a.length) :
    insertNogrowN keeps a index count item = insertNogrowR keeps false a index (List.replicate count item) := by
  unfold insertNogrowN insertNogrowR
  simp only [List.length_replicate]
  by_cases h0 : count = 0
  · simp [h0]
  rw [if_neg h0, if_neg h0]
  by_cases hb : index + count < a.length
  · rw [if_pos hb, if_pos hb, loop3_eq keeps]
  · have e : count - (a.length - index) = index + count - a.length := by omega
    rw [if_neg hb, if_neg hb, List.drop_replicate, ← loopA_eq keeps, ← loopB_eq keeps item _ _ _ _ (by omega), e]

theorem good_ext (mv : Bool) (index : Nat) (a : Cells α) (c : Cell α) : Good mv index a (.ext c) c :=
  ⟨fun _ _ => rfl, fun _ => ⟨_, rfl⟩⟩

theorem good_elem (index : Nat) (a : Cells α) (j : Nat) (hj : j < index) :
    Good false index a (.elem j) (cellAt a j) := by
  refine ⟨?_, fun h => by simp at h⟩
  intro b hb
  simp only [Ref.read]
  rw [hb j hj]

theorem goodAll_replicate (mv : Bool) (index : Nat) (a : Cells α) (r : Ref α) (v : Cell α) (h : Good mv index a r v) :
    ∀ c, GoodAll mv index a (List.replicate c r) (List.replicate c v)
  | 0 => by simp [GoodAll]
  | c+1 => by simp only [List.replicate_succ, GoodAll]; exact ⟨h, goodAll_replicate mv index a r v h c⟩

theorem goodAll_ext (mv : Bool) (index : Nat) (a : Cells α) : ∀ vs : Cells α,
    GoodAll mv index a (vs.map Ref.ext) vs
  | [] => by simp [GoodAll]
  | v :: vs => by simp only [List.map_cons, GoodAll]; exact ⟨good_ext mv index a v, goodAll_ext mv index a vs⟩

/-- **`ArrayShifter::InsertNogrow(array, index, count, item)` inserts `count` copies and loses nothing**: both
    branches, every index, every count including 0, `item` outside the array or an element below `index` -/
theorem insertNogrowN_cells (keeps : Bool) (a : Cells α) (index count : Nat) (item : Ref α) (v : Cell α)
    (hi : index ≤ a.length) (hg : Good false index a item v) :
    insertNogrowN keeps a index count item = insCells a index (List.replicate count v) := by
  rw [insertNogrowN_eq keeps _ _ _ _ hi,
    insertNogrowR_cells keeps false a index _ (List.replicate count v) hi (goodAll_replicate _ _ _ _ _ hg count)]

/-- all-live form: `insert(pos, count, x)` -/
theorem insertNogrowN_spec (keeps : Bool) (xs : List α) (index count : Nat) (item : Ref α) (x : α)
    (hi : index ≤ xs.length) (hg : Good false index (xs.map Cell.live) item (.live x)) :
    insertNogrowN keeps (xs.map Cell.live) index count item = (Spec.insertN xs index count x).map Cell.live := by
  rw [insertNogrowN_cells keeps _ index count item _ (by simpa using hi) hg]
  have : List.replicate count (Cell.live x) = (List.replicate count x).map Cell.live := by simp
  rw [this, insCells_live]; rfl

/-- all-live form: `insert(pos, first, last)` -/
theorem insertNogrowR_spec (keeps mv : Bool) (xs : List α) (index : Nat) (rs : List (Ref α)) (ys : List α)
    (hi : index ≤ xs.length) (hg : GoodAll mv index (xs.map Cell.live) rs (ys.map Cell.live)) :
    insertNogrowR keeps mv (xs.map Cell.live) index rs = (Spec.insertList xs index ys).map Cell.live := by
  rw [insertNogrowR_cells keeps mv _ index rs _ (by simpa using hi) hg, insCells_live]

/-! ### `InsertNogrow(array, index, Item&&)` where the item is an element below `index` -/

theorem insertNogrowR_move_elem (keeps : Bool) (a : Cells α) (index j : Nat) (hi : index ≤ a.length) (hj : j < index) :
    insertNogrowR keeps true a index [.elem j] =
      (insertNogrowR keeps false a index [.elem j]).set j (afterMove keeps (cellAt a j)) := by
  unfold insertNogrowR
  simp only [List.length_singleton, Nat.succ_ne_zero, if_false]
  by_cases hb : index + 1 < a.length
  · rw [if_pos hb, if_pos hb]
    obtain ⟨l1, a1, _, _, _⟩ := loop1_spec keeps 1 a (a.length - 1) (by omega)
    obtain ⟨l2, b1, _, _⟩ := loop2_spec keeps 1 (by omega) (a.length - 1 - index) (loop1 keeps a (a.length - 1) 1)
      (a.length - 1) (by omega) (by rw [l1]; omega)
    simp only [loop3R, assignFrom, Ref.read, if_true]
    rw [b1 j (by omega), a1 j (by omega)]
    unfold assignMove
    rw [if_neg (by omega), b1 j (by omega), a1 j (by omega)]
    simp
  · rw [if_neg hb, if_neg hb]
    by_cases he : index = a.length
    · subst he
      simp [loopAR, loopBR, addBackFrom, addBackMove, Ref.read]
    · have hi' : a.length - index = 1 := by omega
      rw [hi']
      simp only [List.drop_one, List.tail_cons, loopAR, loopBR, assignFrom, Ref.read, if_true]
      rw [cellAt_addBackMove_other keeps a index j (by omega) (by omega)]
      unfold assignMove
      rw [if_neg (by omega), cellAt_addBackMove_other keeps a index j (by omega) (by omega)]
      simp

/-! ### `Remove(array, index, count)` -/

theorem loopRem_spec (keeps : Bool) (count : Nat) (hc : 0 < count) (f : Nat) : ∀ (a : Cells α) (i : Nat),
    count ≤ i → i + f ≤ a.length →
    (loopRem keeps a count i f).length = a.length ∧
    (∀ k, k < i - count → cellAt (loopRem keeps a count i f) k = cellAt a k) ∧
    (∀ k, i - count ≤ k → k < i - count + f → cellAt (loopRem keeps a count i f) k = cellAt a (k + count)) := by
  induction f with
  | zero =>
    intro a i _ _
    refine ⟨rfl, fun _ _ => rfl, ?_⟩
    intro k h1 h2; omega
  | succ f ih =>
    intro a i hci h
    have hl := assignMove_length keeps a i (i - count)
    obtain ⟨l, p1, p2⟩ := ih (assignMove keeps a i (i - count)) (i+1) (by omega) (by rw [hl]; omega)
    simp only [loopRem]
    refine ⟨by rw [l, hl], ?_, ?_⟩
    · intro k hk
      rw [p1 k (by omega), cellAt_assignMove_other keeps a _ _ k (by omega) (by omega)]
    · intro k hk1 hk2
      by_cases hke : k = i - count
      · subst hke
        rw [p1 _ (by omega), cellAt_assignMove_dst keeps a _ _ (by omega) (by omega)]
        congr 1; omega
      · rw [p2 k (by omega) (by omega), cellAt_assignMove_other keeps a _ _ _ (by omega) (by omega)]

/-- **`ArrayShifter::Remove(array, index, count)` removes exactly the cells `[index, index+count)`**, for arbitrary
    cells, every index, every count including 0 -/
theorem remove_cells (keeps : Bool) (a : Cells α) (index count : Nat) (h : index + count ≤ a.length) :
    remove keeps a index count = a.take index ++ a.drop (index + count) := by
  unfold remove
  by_cases h0 : count = 0
  · subst h0; simp
  rw [if_neg h0]
  obtain ⟨l, p1, p2⟩ := loopRem_spec keeps count (by omega) (a.length - (index + count)) a (index + count)
    (by omega) (by omega)
  apply ext_cellAt
  · simp [l]; omega
  · intro k hk
    simp only [List.length_take, l] at hk
    rw [cellAt_take_lt _ _ _ (by omega)]
    by_cases hk1 : k < index
    · rw [p1 k (by omega), cellAt_append_left _ _ _ (by simp; omega), cellAt_take_lt _ _ _ hk1]
    · rw [p2 k (by omega) (by omega), cellAt_append_right _ _ _ (by simp; omega), cellAt_drop]
      congr 1; simp; omega

/-- all-live form: `erase(first, last)` -/
theorem remove_spec (keeps : Bool) (xs : List α) (index count : Nat) (h : index + count ≤ xs.length) :
    remove keeps (xs.map Cell.live) index count = (Spec.remove xs index count).map Cell.live := by
  rw [remove_cells keeps _ index count (by simpa using h)]
  simp [Spec.remove, List.map_take, List.map_drop]

/-! ### `Remove(array, itemFilter)` -/

theorem drop_cons_cellAt (a : Cells α) (i : Nat) (h : i < a.length) : a.drop i = cellAt a i :: a.drop (i+1) := by
  rw [cellAt_lt a i h]; exact List.drop_eq_getElem_cons h

theorem take_assignMove (keeps : Bool) (a : Cells α) (i nc : Nat) (h1 : nc < i) (h2 : i < a.length) :
    (assignMove keeps a i nc).take (nc+1) = a.take nc ++ [cellAt a i] := by
  apply ext_cellAt
  · simp [assignMove_length]; omega
  · intro k hk
    simp only [List.length_take, assignMove_length] at hk
    rw [cellAt_take_lt _ _ _ (by omega)]
    by_cases hkn : k = nc
    · subst hkn
      have e : (a.take k).length = k := by rw [List.length_take]; omega
      rw [cellAt_assignMove_dst keeps a i k (by omega) (by omega), cellAt_append_right _ _ _ (by omega), e,
        Nat.sub_self, cellAt_cons_zero]
    · rw [cellAt_assignMove_other keeps a i nc k (by omega) hkn, cellAt_append_left _ _ _ (by simp; omega),
        cellAt_take_lt _ _ _ (by omega)]

theorem drop_assignMove (keeps : Bool) (a : Cells α) (i nc : Nat) (h1 : nc < i) :
    (assignMove keeps a i nc).drop (i+1) = a.drop (i+1) := by
  apply ext_cellAt
  · simp [assignMove_length]
  · intro k _
    rw [cellAt_drop, cellAt_drop, cellAt_assignMove_other keeps a i nc _ (by omega) (by omega)]

theorem loopFilt_spec (keeps : Bool) (p : Cell α → Bool) (f : Nat) : ∀ (a : Cells α) (nc i : Nat),
    nc < i → i + f = a.length →
    (loopFilt keeps p a nc i f).1.length = a.length ∧
    (loopFilt keeps p a nc i f).2 = nc + ((a.drop i).filter (fun c => !p c)).length ∧
    (loopFilt keeps p a nc i f).1.take (loopFilt keeps p a nc i f).2 = a.take nc ++ (a.drop i).filter (fun c => !p c) := by
  induction f with
  | zero =>
    intro a nc i _ h
    have : a.drop i = [] := List.drop_eq_nil_of_le (by omega)
    simp [loopFilt, this]
  | succ f ih =>
    intro a nc i h1 h2
    have hi : i < a.length := by omega
    simp only [loopFilt]
    rw [drop_cons_cellAt a i hi]
    by_cases hp : p (cellAt a i) = true
    · rw [if_pos hp]
      obtain ⟨l, c, t⟩ := ih a nc (i+1) (by omega) (by omega)
      simp only [List.filter_cons, hp, Bool.not_true]
      exact ⟨l, c, t⟩
    · rw [if_neg hp]
      have hl := assignMove_length keeps a i nc
      obtain ⟨l, c, t⟩ := ih (assignMove keeps a i nc) (nc+1) (i+1) (by omega) (by rw [hl]; omega)
      rw [drop_assignMove keeps a i nc h1] at c t
      rw [take_assignMove keeps a i nc h1 hi] at t
      have hp' : (!p (cellAt a i)) = true := by simpa using hp
      simp only [List.filter_cons, hp', if_true, List.length_cons]
      refine ⟨by rw [l, hl], by rw [c]; omega, ?_⟩
      rw [t]; simp

theorem firstHit_spec (p : Cell α → Bool) (a : Cells α) : ∀ (fuel k : Nat), k + fuel = a.length →
    k ≤ firstHit p a k fuel ∧ firstHit p a k fuel ≤ a.length ∧
    (∀ t, k ≤ t → t < firstHit p a k fuel → p (cellAt a t) = false) ∧
    (firstHit p a k fuel < a.length → p (cellAt a (firstHit p a k fuel)) = true)
  | 0, k, h => by
    simp only [firstHit]
    refine ⟨Nat.le_refl _, by omega, fun t h1 h2 => by omega, fun h' => by omega⟩
  | fuel+1, k, h => by
    simp only [firstHit]
    by_cases hc : (decide (k < a.length) && !p (cellAt a k)) = true
    · rw [if_pos hc]
      obtain ⟨q1, q2, q3, q4⟩ := firstHit_spec p a fuel (k+1) (by omega)
      simp at hc
      refine ⟨by omega, q2, ?_, q4⟩
      intro t h1 h2
      by_cases htk : t = k
      · subst htk; exact hc.2
      · exact q3 t (by omega) h2
    · rw [if_neg hc]
      refine ⟨Nat.le_refl _, by omega, fun t h1 h2 => by omega, ?_⟩
      intro hk
      simp [hk] at hc
      exact hc

theorem filter_take_all (p : Cell α → Bool) : ∀ (a : Cells α) (h : Nat), (∀ t, t < h → p (cellAt a t) = false) →
    (a.take h).filter (fun c => !p c) = a.take h
  | [], _, _ => by simp
  | _ :: _, 0, _ => by simp
  | c :: a, h+1, hall => by
    have h0 := hall 0 (by omega)
    rw [cellAt_cons_zero] at h0
    simp only [List.take_succ_cons, List.filter_cons, h0, Bool.not_false, if_true]
    rw [filter_take_all p a h (fun t ht => by have := hall (t+1) (by omega); rwa [cellAt_cons_succ] at this)]

/-- **`ArrayShifter::Remove(array, itemFilter)` refines `erase_if`**: for arbitrary cells the result is the list of the
    cells the filter rejects, in order, and the returned count is the number removed -/
theorem removeIf_spec (keeps : Bool) (p : Cell α → Bool) (a : Cells α) :
    removeIf keeps p a = (a.filter (fun c => !p c), a.length - (a.filter (fun c => !p c)).length) := by
  unfold removeIf removeIfAt finishFilt
  obtain ⟨_, q2, q3, q4⟩ := firstHit_spec p a a.length 0 (by omega)
  generalize firstHit p a 0 a.length = k at q2 q3 q4
  have hsplit : a.filter (fun c => !p c) = a.take k ++ (a.drop k).filter (fun c => !p c) := by
    conv => lhs; rw [← List.take_append_drop k a]
    rw [List.filter_append, filter_take_all p a k (fun t ht => q3 t (by omega) ht)]
  by_cases hk : k = a.length
  · subst hk
    have : a.length - (a.length + 1) = 0 := by omega
    rw [this]
    simp only [loopFilt]
    rw [hsplit]; simp
  · have hk' : k < a.length := by omega
    obtain ⟨_, c, t⟩ := loopFilt_spec keeps p (a.length - (k+1)) a k (k+1) (by omega) (by omega)
    rw [t, c, hsplit, drop_cons_cellAt a k hk']
    simp [q4 hk', Nat.min_eq_left (Nat.le_of_lt hk')]

theorem filter_map_live (p : α → Bool) (xs : List α) :
    (xs.map Cell.live).filter (fun c => !liftPred p c) = (xs.filter (fun x => !p x)).map Cell.live := by
  induction xs with
  | nil => rfl
  | cons x xs ih =>
    have hl : liftPred p (Cell.live x) = p x := rfl
    cases hp : p x <;> simp [hl, hp, ih]

end Momo.Arr
