import Momo.Proof.SortMem
/-!
  C17 lemmas, part 6: the small cases of `RadixSorter::pvSort` and `pvSelectionSort`
  (RadixSorter.h:81-129): the range becomes a sorted permutation of itself, `groupFunc` has been applied to
  every maximal run of equal codes, nothing outside the range is touched, no access leaves the range.
-/
namespace Momo.Sort
variable {σ α : Type}

/-- codes are non-decreasing -/
def SortedL (l : List (α × Nat)) : Prop := l.Pairwise (fun x y => x.2 ≤ y.2)

/-- a property `P` of ranges that `groupFunc` establishes on runs of equal codes and that survives
concatenation of ranges with strictly increasing codes; `Q` is a property of single cells that the
concatenation may rely on. (`P = equal items contiguous` for HashSorter, `P = True` for plain radix sort.) -/
structure GoodP (Q : α × Nat → Prop) (P : List (α × Nat) → Prop) : Prop where
  small : ∀ l, l.length ≤ 2 → P l
  append : ∀ l1 l2, (∀ x ∈ l1, Q x) → (∀ x ∈ l2, Q x) → P l1 → P l2 →
    (∀ x ∈ l1, ∀ y ∈ l2, x.2 < y.2) → P (l1 ++ l2)

/-- contract of a `groupFunc`: on a range whose codes are all equal it returns a permutation of the range
satisfying `P`, leaving the rest of the memory alone -/
def GroupSpec (M : Mem σ α) (abs : σ → List (α × Nat)) (ok : σ → Prop) (Q : α × Nat → Prop)
    (P : List (α × Nat) → Prop) (G : GroupFn σ) : Prop :=
  ∀ s pre seg post, Holds abs ok s (pre ++ seg ++ post) → (∀ x ∈ seg, Q x) → (∀ x ∈ seg, ∀ y ∈ seg, x.2 = y.2) →
    ∃ s' seg', G s pre.length seg.length = some s' ∧ Holds abs ok s' (pre ++ seg' ++ post) ∧ seg'.Perm seg ∧ P seg'

/-- post-condition of every sorting routine on a range -/
def SortPost (P : List (α × Nat) → Prop) (seg seg' : List (α × Nat)) : Prop :=
  seg'.Perm seg ∧ SortedL seg' ∧ P seg'

/-- code of cell `k` (0 outside) -/
def cd (l : List (α × Nat)) (k : Nat) : Nat := (l.map Prod.snd).getD k 0

theorem cd_eq {l : List (α × Nat)} {k : Nat} (hk : k < l.length) : cd l k = (l[k]'hk).2 := by
  simp [cd, List.getD, List.getElem?_map, List.getElem?_eq_getElem hk]

theorem cd_swapL (l : List (α × Nat)) (i j k : Nat) (hi : i < l.length) (hj : j < l.length) :
    cd (swapL l i j) k = if k = j then cd l i else if k = i then cd l j else cd l k := by
  simp only [cd, List.getD, List.getElem?_map, swapL_getElem? l i j k hi hj]
  split
  · rfl
  · split <;> rfl

theorem sortedL_iff {l : List (α × Nat)} : SortedL l ↔ ∀ a b, a < b → b < l.length → cd l a ≤ cd l b := by
  unfold SortedL
  rw [List.pairwise_iff_getElem]
  constructor
  · intro h a b hab hb
    rw [cd_eq (by omega), cd_eq hb]
    exact h a b (by omega) hb hab
  · intro h a b ha hb hab
    have := h a b hab hb
    rwa [cd_eq ha, cd_eq hb] at this

/-- the local array `codes` mirrors the codes of the range -/
def Mirror (codes : Array Nat) (l : List (α × Nat)) : Prop := codes.toList = l.map Prod.snd

theorem Mirror.get {codes : Array Nat} {l : List (α × Nat)} (h : Mirror codes l) {k : Nat} (hk : k < l.length) :
    codes[k]? = some (cd l k) := by
  have : codes[k]? = codes.toList[k]? := by simp
  rw [this, h]
  simp [cd, List.getD, List.getElem?_map, List.getElem?_eq_getElem hk]

theorem Mirror.swap {codes : Array Nat} {l : List (α × Nat)} (h : Mirror codes l) {i m : Nat} (hi : i < l.length) (hm : m < l.length) :
    Mirror ((codes.setIfInBounds i (cd l m)).setIfInBounds m (cd l i)) (swapL l i m) := by
  unfold Mirror at *
  apply List.ext_getElem?
  intro k
  simp only [Array.toList_setIfInBounds, List.getElem?_set, List.length_set, List.getElem?_map,
    swapL_getElem? l i m k hi hm, h, List.length_map]
  by_cases h1 : k = m
  · subst h1
    simp [hm, cd, List.getD, List.getElem?_map, List.getElem?_eq_getElem hi]
  · by_cases h2 : k = i
    · subst h2
      simp [Ne.symm h1, h1, hi, cd, List.getD, List.getElem?_map, List.getElem?_eq_getElem hm]
    · simp [h1, h2, Ne.symm h1, Ne.symm h2]

section
variable {M : Mem σ α} {abs : σ → List (α × Nat)} {ok : σ → Prop} (L : Lawful M abs ok)
  (pre post : List (α × Nat))
include L

theorem readCodes_spec (s : σ) (seg : List (α × Nat)) (hh : Holds abs ok s (pre ++ seg ++ post)) :
    ∀ (n i : Nat) (acc : Array Nat), i + n = seg.length → acc.toList = (seg.take i).map Prod.snd →
      ∃ codes, readCodes M s pre.length n i acc = some codes ∧ Mirror codes seg := by
  intro n
  induction n with
  | zero =>
    intro i acc hin hacc
    refine ⟨acc, rfl, ?_⟩
    unfold Mirror
    rw [hacc, List.take_of_length_le (by omega)]
  | succ n ih =>
    intro i acc hin hacc
    unfold readCodes
    have hi : i < seg.length := by omega
    rw [L.code_at hh i hi]
    simp only [Option.bind_some]
    apply ih (i + 1) _ (by omega)
    rw [Array.toList_push, hacc, List.take_succ, List.map_append, List.getElem?_eq_getElem hi]
    simp

end

/-- `std::min_element` over `codes[lo, hi)`: some index of a smallest element -/
theorem minElem_spec (codes : Array Nat) (l : List (α × Nat)) (hm : Mirror codes l) (lo hi : Nat) (hhi : hi ≤ l.length) :
    ∀ (fuel j best : Nat), 0 < fuel → hi < fuel + j → lo ≤ best → best < j → j ≤ hi →
      (∀ k, lo ≤ k → k < j → cd l best ≤ cd l k) →
      ∃ m, minElem codes hi fuel j best = some m ∧ lo ≤ m ∧ m < hi ∧ ∀ k, lo ≤ k → k < hi → cd l m ≤ cd l k := by
  intro fuel
  induction fuel with
  | zero => intro j best h; omega
  | succ f ih =>
    intro j best _ hf hlb hbj hjh hmin
    unfold minElem
    by_cases hj : j < hi
    · simp only [hj, if_true, hm.get (show j < l.length by omega), hm.get (show best < l.length by omega), Option.bind_some]
      by_cases hlt : cd l j < cd l best
      · simp only [hlt, if_true]
        apply ih (j + 1) j (by omega) (by omega) (by omega) (by omega) (by omega)
        intro k hk1 hk2
        by_cases hkj : k < j
        · have := hmin k hk1 hkj; omega
        · have : k = j := by omega
          subst this; exact Nat.le_refl _
      · simp only [hlt, if_false]
        apply ih (j + 1) best (by omega) (by omega) hlb (by omega) (by omega)
        intro k hk1 hk2
        by_cases hkj : k < j
        · exact hmin k hk1 hkj
        · have : k = j := by omega
          subst this; omega
    · simp only [hj, if_false]
      exact ⟨best, rfl, hlb, by omega, fun k hk1 hk2 => hmin k hk1 (by omega)⟩

section
variable {M : Mem σ α} {abs : σ → List (α × Nat)} {ok : σ → Prop} (L : Lawful M abs ok)
  (pre post : List (α × Nat))
include L

/-- invariant of the selection loop: cells before `i` are in their final order -/
def SortedUpTo (l : List (α × Nat)) (i : Nat) : Prop := ∀ a b, a < b → a < i → b < l.length → cd l a ≤ cd l b

omit L in
theorem sortedUpTo_swap {l : List (α × Nat)} {i m : Nat} (hi : i < l.length) (him : i < m) (hm : m < l.length)
    (h : SortedUpTo l i) (hmin : ∀ k, i + 1 ≤ k → k < l.length → cd l m ≤ cd l k) (hlt : cd l m < cd l i) :
    SortedUpTo (swapL l i m) (i + 1) := by
  intro a b hab hai hb
  rw [swapL_length] at hb
  rw [cd_swapL l i m a hi hm, cd_swapL l i m b hi hm]
  have ham : ¬ a = m := by omega
  simp only [ham, if_false]
  by_cases hae : a = i
  · subst hae
    simp only [if_true]
    have hba : ¬ b = a := by omega
    by_cases hbm : b = m
    · simp [hbm]; omega
    · simp only [hbm, hba, if_false]
      exact hmin b (by omega) hb
  · simp only [hae, if_false]
    have hai' : a < i := by omega
    by_cases hbm : b = m
    · simp only [hbm, if_true]; exact h a i hai' hai' hi
    · simp only [hbm, if_false]
      by_cases hbi : b = i
      · simp only [hbi, if_true]; exact h a m (by omega) hai' hm
      · simp only [hbi, if_false]; exact h a b hab hai' hb

omit L in
theorem sortedUpTo_keep {l : List (α × Nat)} {i m : Nat} (hi : i < l.length)
    (h : SortedUpTo l i) (hmin : ∀ k, i + 1 ≤ k → k < l.length → cd l m ≤ cd l k) (hge : ¬ cd l m < cd l i) :
    SortedUpTo l (i + 1) := by
  intro a b hab hai hb
  by_cases hae : a = i
  · subst hae
    have := hmin b (by omega) hb
    omega
  · exact h a b hab (by omega) hb

theorem selLoop_spec :
    ∀ (fuel : Nat) (s : σ) (seg : List (α × Nat)) (codes : Array Nat) (i : Nat), 0 < fuel → seg.length < fuel + i →
      Holds abs ok s (pre ++ seg ++ post) → Mirror codes seg → SortedUpTo seg i →
      ∃ s' seg' codes', selLoop M pre.length seg.length fuel s codes i = some (s', codes') ∧
        Holds abs ok s' (pre ++ seg' ++ post) ∧ Mirror codes' seg' ∧ seg'.Perm seg ∧ SortedL seg' := by
  intro fuel
  induction fuel with
  | zero => intro s seg codes i h; omega
  | succ f ih =>
    intro s seg codes i _ hf hh hmir hsu
    unfold selLoop
    by_cases hi : i + 1 < seg.length
    · simp only [hi, if_true]
      obtain ⟨m, hm, hm1, hm2, hm3⟩ := minElem_spec codes seg hmir (i + 1) seg.length (Nat.le_refl _) (seg.length + 1) (i + 2) (i + 1)
        (by omega) (by omega) (Nat.le_refl _) (by omega) (by omega)
        (fun k hk1 hk2 => by have : k = i + 1 := by omega
                             subst this; exact Nat.le_refl _)
      rw [hm]
      simp only [Option.bind_some, hmir.get hm2, hmir.get (show i < seg.length by omega)]
      by_cases hlt : cd seg m < cd seg i
      · simp only [hlt, if_true]
        obtain ⟨s', hs', hh'⟩ := L.swap_at hh i m (by omega) hm2
        rw [hs']
        simp only [Option.bind_some]
        have hlen : (swapL seg i m).length = seg.length := swapL_length _ _ _
        obtain ⟨s'', seg'', codes'', h1, h2, h3, h4, h5⟩ := ih s' (swapL seg i m) _ (i + 1) (by omega) (by rw [hlen]; omega) hh'
          (hmir.swap (by omega) hm2) (sortedUpTo_swap (by omega) (by omega) hm2 hsu hm3 hlt)
        rw [hlen] at h1
        exact ⟨s'', seg'', codes'', h1, h2, h3, h4.trans (swapL_perm _ _ _), h5⟩
      · simp only [hlt, if_false]
        exact ih s seg codes (i + 1) (by omega) (by omega) hh hmir (sortedUpTo_keep (by omega) hsu hm3 hlt)
    · simp only [hi, if_false]
      refine ⟨s, seg, codes, rfl, hh, hmir, List.Perm.refl _, ?_⟩
      rw [sortedL_iff]
      intro a b hab hb
      exact hsu a b hab (by omega) hb

end

end Momo.Sort
