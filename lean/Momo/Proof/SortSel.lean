import Momo.Proof.SortMem
import Mathlib.Tactic.Tauto
/-!
  C17 lemmas, part 6: the small cases of `RadixSorter::pvSort` and `pvSelectionSort`
  (RadixSorter.h:81-129): the range becomes a sorted permutation of itself, `groupFunc` has been applied to
  every maximal run of equal codes, nothing outside the range is touched, no access leaves the range.
-/
namespace Momo.Sort
variable {σ α : Type}

/-- codes are non-decreasing -/
def SortedL (l : List (α × Nat)) : Prop := l.Pairwise (fun x y => x.2 ≤ y.2)

/-- a property `P` of ranges that `groupFunc` establishes on runs of equal codes and that survives
concatenation of ranges with strictly increasing codes; `Q` is a property of single cells that the
concatenation may rely on. (`P = equal items contiguous` for HashSorter, `P = True` for plain radix sort.) -/
structure GoodP (Q : α × Nat → Prop) (P : List (α × Nat) → Prop) : Prop where
  small : ∀ l, l.length ≤ 2 → P l
  append : ∀ l1 l2, (∀ x ∈ l1, Q x) → (∀ x ∈ l2, Q x) → P l1 → P l2 →
    (∀ x ∈ l1, ∀ y ∈ l2, x.2 < y.2) → P (l1 ++ l2)

/-- contract of a `groupFunc`: on a range whose codes are all equal it returns a permutation of the range
satisfying `P`, leaving the rest of the memory alone -/
def GroupSpec (abs : σ → List (α × Nat)) (ok : σ → Prop) (Q : α × Nat → Prop)
    (P : List (α × Nat) → Prop) (G : GroupFn σ) : Prop :=
  ∀ s pre seg post, Holds abs ok s (pre ++ seg ++ post) → (∀ x ∈ seg, Q x) → (∀ x ∈ seg, ∀ y ∈ seg, x.2 = y.2) →
    ∃ s' seg', G s pre.length seg.length = some s' ∧ Holds abs ok s' (pre ++ seg' ++ post) ∧ seg'.Perm seg ∧ P seg'

/-- post-condition of every sorting routine on a range -/
def SortPost (P : List (α × Nat) → Prop) (seg seg' : List (α × Nat)) : Prop :=
  seg'.Perm seg ∧ SortedL seg' ∧ P seg'

/-- code of cell `k` (0 outside) -/
def cd (l : List (α × Nat)) (k : Nat) : Nat := (l.map Prod.snd).getD k 0

theorem cd_eq {l : List (α × Nat)} {k : Nat} (hk : k < l.length) : cd l k = (l[k]'hk).2 := by
  simp [cd, List.getD, List.getElem?_map, List.getElem?_eq_getElem hk]

theorem cd_swapL (l : List (α × Nat)) (i j k : Nat) (hi : i < l.length) (hj : j < l.length) :
    cd (swapL l i j) k = if k = j then cd l i else if k = i then cd l j else cd l k := by
  simp only [cd, List.getD, List.getElem?_map, swapL_getElem? l i j k hi hj]
  split
  · rfl
  · split <;> rfl

theorem sortedL_iff {l : List (α × Nat)} : SortedL l ↔ ∀ a b, a < b → b < l.length → cd l a ≤ cd l b := by
  unfold SortedL
  rw [List.pairwise_iff_getElem]
  constructor
  · intro h a b hab hb
    rw [cd_eq (by omega), cd_eq hb]
    exact h a b (by omega) hb hab
  · intro h a b ha hb hab
    have := h a b hab hb
    rwa [cd_eq ha, cd_eq hb] at this

/-- the local array `codes` mirrors the codes of the range -/
def Mirror (codes : Array Nat) (l : List (α × Nat)) : Prop := codes.toList = l.map Prod.snd

theorem Mirror.get {codes : Array Nat} {l : List (α × Nat)} (h : Mirror codes l) {k : Nat} (hk : k < l.length) :
    codes[k]? = some (cd l k) := by
  have : codes[k]? = codes.toList[k]? := by simp
  rw [this, h]
  simp [cd, List.getD, List.getElem?_map, List.getElem?_eq_getElem hk]

theorem Mirror.swap {codes : Array Nat} {l : List (α × Nat)} (h : Mirror codes l) {i m : Nat} (hi : i < l.length) (hm : m < l.length) :
    Mirror ((codes.setIfInBounds i (cd l m)).setIfInBounds m (cd l i)) (swapL l i m) := by
  unfold Mirror at *
  apply List.ext_getElem?
  intro k
  simp only [Array.toList_setIfInBounds, List.getElem?_set, List.length_set, List.getElem?_map,
    swapL_getElem? l i m k hi hm, h, List.length_map]
  by_cases h1 : k = m
  · subst h1
    simp [hm, cd, List.getD, List.getElem?_map, List.getElem?_eq_getElem hi]
  · by_cases h2 : k = i
    · subst h2
      simp [Ne.symm h1, h1, hi, cd, List.getD, List.getElem?_map, List.getElem?_eq_getElem hm]
    · simp [h1, h2, Ne.symm h1, Ne.symm h2]

section
variable {M : Mem σ α} {abs : σ → List (α × Nat)} {ok : σ → Prop} (L : Lawful M abs ok)
  (pre post : List (α × Nat))
include L

theorem readCodes_spec (s : σ) (seg : List (α × Nat)) (hh : Holds abs ok s (pre ++ seg ++ post)) :
    ∀ (n i : Nat) (acc : Array Nat), i + n = seg.length → acc.toList = (seg.take i).map Prod.snd →
      ∃ codes, readCodes M s pre.length n i acc = some codes ∧ Mirror codes seg := by
  intro n
  induction n with
  | zero =>
    intro i acc hin hacc
    refine ⟨acc, rfl, ?_⟩
    unfold Mirror
    rw [hacc, List.take_of_length_le (by omega)]
  | succ n ih =>
    intro i acc hin hacc
    unfold readCodes
    have hi : i < seg.length := by omega
    rw [L.code_at hh i hi]
    simp only [Option.bind_some]
    apply ih (i + 1) _ (by omega)
    rw [Array.toList_push, hacc, List.take_add_one, List.map_append, List.getElem?_eq_getElem hi]
    simp

end

/-- `std::min_element` over `codes[lo, hi)`: some index of a smallest element -/
theorem minElem_spec (codes : Array Nat) (l : List (α × Nat)) (hm : Mirror codes l) (lo hi : Nat) (hhi : hi ≤ l.length) :
    ∀ (fuel j best : Nat), 0 < fuel → hi < fuel + j → lo ≤ best → best < j → j ≤ hi →
      (∀ k, lo ≤ k → k < j → cd l best ≤ cd l k) →
      ∃ m, minElem codes hi fuel j best = some m ∧ lo ≤ m ∧ m < hi ∧ ∀ k, lo ≤ k → k < hi → cd l m ≤ cd l k := by
  intro fuel
  induction fuel with
  | zero => intro j best h; omega
  | succ f ih =>
    intro j best _ hf hlb hbj hjh hmin
    unfold minElem
    by_cases hj : j < hi
    · simp only [hj, if_true, hm.get (show j < l.length by omega), hm.get (show best < l.length by omega), Option.bind_some]
      by_cases hlt : cd l j < cd l best
      · simp only [hlt, if_true]
        apply ih (j + 1) j (by omega) (by omega) (by omega) (by omega) (by omega)
        intro k hk1 hk2
        by_cases hkj : k < j
        · have := hmin k hk1 hkj; omega
        · have : k = j := by omega
          subst this; exact Nat.le_refl _
      · simp only [hlt, if_false]
        apply ih (j + 1) best (by omega) (by omega) hlb (by omega) (by omega)
        intro k hk1 hk2
        by_cases hkj : k < j
        · exact hmin k hk1 hkj
        · have : k = j := by omega
          subst this; omega
    · simp only [hj, if_false]
      exact ⟨best, rfl, hlb, by omega, fun k hk1 hk2 => hmin k hk1 (by omega)⟩

section
variable {M : Mem σ α} {abs : σ → List (α × Nat)} {ok : σ → Prop} (L : Lawful M abs ok)
  (pre post : List (α × Nat))
include L

/-- invariant of the selection loop: cells before `i` are in their final order -/
def SortedUpTo (l : List (α × Nat)) (i : Nat) : Prop := ∀ a b, a < b → a < i → b < l.length → cd l a ≤ cd l b

omit L in
theorem sortedUpTo_swap {l : List (α × Nat)} {i m : Nat} (hi : i < l.length) (him : i < m) (hm : m < l.length)
    (h : SortedUpTo l i) (hmin : ∀ k, i + 1 ≤ k → k < l.length → cd l m ≤ cd l k) (hlt : cd l m < cd l i) :
    SortedUpTo (swapL l i m) (i + 1) := by
  intro a b hab hai hb
  rw [swapL_length] at hb
  rw [cd_swapL l i m a hi hm, cd_swapL l i m b hi hm]
  have ham : ¬ a = m := by omega
  simp only [ham, if_false]
  by_cases hae : a = i
  · subst hae
    simp only [if_true]
    have hba : ¬ b = a := by omega
    by_cases hbm : b = m
    · simp [hbm]; omega
    · simp only [hbm, hba, if_false]
      exact hmin b (by omega) hb
  · simp only [hae, if_false]
    have hai' : a < i := by omega
    by_cases hbm : b = m
    · simp only [hbm, if_true]; exact h a i hai' hai' hi
    · simp only [hbm, if_false]
      by_cases hbi : b = i
      · simp only [hbi, if_true]; exact h a m (by omega) hai' hm
      · simp only [hbi, if_false]; exact h a b hab hai' hb

omit L in
theorem sortedUpTo_keep {l : List (α × Nat)} {i m : Nat} (hi : i < l.length)
    (h : SortedUpTo l i) (hmin : ∀ k, i + 1 ≤ k → k < l.length → cd l m ≤ cd l k) (hge : ¬ cd l m < cd l i) :
    SortedUpTo l (i + 1) := by
  intro a b hab hai hb
  by_cases hae : a = i
  · subst hae
    have := hmin b (by omega) hb
    omega
  · exact h a b hab (by omega) hb

theorem selLoop_spec :
    ∀ (fuel : Nat) (s : σ) (seg : List (α × Nat)) (codes : Array Nat) (i : Nat), 0 < fuel → seg.length < fuel + i →
      Holds abs ok s (pre ++ seg ++ post) → Mirror codes seg → SortedUpTo seg i →
      ∃ s' seg' codes', selLoop M pre.length seg.length fuel s codes i = some (s', codes') ∧
        Holds abs ok s' (pre ++ seg' ++ post) ∧ Mirror codes' seg' ∧ seg'.Perm seg ∧ SortedL seg' := by
  intro fuel
  induction fuel with
  | zero => intro s seg codes i h; omega
  | succ f ih =>
    intro s seg codes i _ hf hh hmir hsu
    unfold selLoop
    by_cases hi : i + 1 < seg.length
    · simp only [hi, if_true]
      obtain ⟨m, hm, hm1, hm2, hm3⟩ := minElem_spec codes seg hmir (i + 1) seg.length (Nat.le_refl _) (seg.length + 1) (i + 2) (i + 1)
        (by omega) (by omega) (Nat.le_refl _) (by omega) (by omega)
        (fun k hk1 hk2 => by have : k = i + 1 := by omega
                             subst this; exact Nat.le_refl _)
      rw [hm]
      simp only [Option.bind_some, hmir.get hm2, hmir.get (show i < seg.length by omega)]
      by_cases hlt : cd seg m < cd seg i
      · simp only [hlt, if_true]
        obtain ⟨s', hs', hh'⟩ := L.swap_at hh i m (by omega) hm2
        rw [hs']
        simp only [Option.bind_some]
        have hlen : (swapL seg i m).length = seg.length := swapL_length _ _ _
        obtain ⟨s'', seg'', codes'', h1, h2, h3, h4, h5⟩ := ih s' (swapL seg i m) _ (i + 1) (by omega) (by rw [hlen]; omega) hh'
          (hmir.swap (by omega) hm2) (sortedUpTo_swap (by omega) (by omega) hm2 hsu hm3 hlt)
        rw [hlen] at h1
        exact ⟨s'', seg'', codes'', h1, h2, h3, h4.trans (swapL_perm _ _ _), h5⟩
      · simp only [hlt, if_false]
        exact ih s seg codes (i + 1) (by omega) (by omega) hh hmir (sortedUpTo_keep (by omega) hsu hm3 hlt)
    · simp only [hi, if_false]
      refine ⟨s, seg, codes, rfl, hh, hmir, List.Perm.refl _, ?_⟩
      rw [sortedL_iff]
      intro a b hab hb
      exact hsu a b hab (by omega) hb

end

/-! ### the run loop of pvSelectionSort -/

theorem map_snd_of_perm_const {l l' : List (α × Nat)} (hp : l'.Perm l) (hc : ∀ x ∈ l, ∀ y ∈ l, x.2 = y.2) :
    l'.map Prod.snd = l.map Prod.snd := by
  cases l with
  | nil => rw [hp.eq_nil]
  | cons a t =>
    have h1 : ∀ x ∈ a :: t, x.2 = a.2 := fun x hx => hc x hx a (by simp)
    have e1 : (a :: t).map Prod.snd = List.replicate (a :: t).length a.2 := by
      apply List.eq_replicate_iff.2
      refine ⟨by simp, ?_⟩
      intro b hb
      obtain ⟨x, hx, rfl⟩ := List.mem_map.1 hb
      exact h1 x hx
    have e2 : l'.map Prod.snd = List.replicate l'.length a.2 := by
      apply List.eq_replicate_iff.2
      refine ⟨by simp, ?_⟩
      intro b hb
      obtain ⟨x, hx, rfl⟩ := List.mem_map.1 hb
      exact h1 x (hp.mem_iff.1 hx)
    rw [e1, e2, hp.length_eq]

theorem sortedL_of_map_eq {l l' : List (α × Nat)} (h : l'.map Prod.snd = l.map Prod.snd) (hs : SortedL l) : SortedL l' := by
  unfold SortedL at *
  have e : ∀ m : List (α × Nat), m.Pairwise (fun x y => x.2 ≤ y.2) ↔ (m.map Prod.snd).Pairwise (· ≤ ·) := by
    intro m; rw [List.pairwise_map]
  rw [e] at hs ⊢
  rwa [h]

section
variable {M : Mem σ α} {abs : σ → List (α × Nat)} {ok : σ → Prop}
  {Q : α × Nat → Prop} {P : List (α × Nat) → Prop} {G : GroupFn σ}
  (hG : GroupSpec abs ok Q P G) (hP : GoodP Q P) (pre post : List (α × Nat))
include hG hP

theorem groupRuns_spec (codes : Array Nat) (count : Nat) :
    ∀ (rest : List (α × Nat)) (fuel : Nat) (s : σ) (done run : List (α × Nat)),
      rest.length < fuel → count = (done ++ run ++ rest).length →
      Holds abs ok s (pre ++ (done ++ run ++ rest) ++ post) → Mirror codes (done ++ run ++ rest) →
      run ≠ [] → (∀ x ∈ run, ∀ y ∈ run, x.2 = y.2) → (∀ x ∈ done, ∀ y ∈ run, x.2 < y.2) →
      SortedL (done ++ run ++ rest) → (∀ x ∈ done ++ run ++ rest, Q x) → P done →
      ∃ s' seg', groupRuns G codes pre.length count fuel s (done.length + run.length) done.length = some s' ∧
        Holds abs ok s' (pre ++ seg' ++ post) ∧ seg'.Perm (done ++ run ++ rest) ∧ SortedL seg' ∧ P seg' := by
  intro rest
  induction rest with
  | nil =>
    intro fuel s done run hf hcount hh hmir hrun hconst hsep hsorted hQ hPd
    obtain ⟨f, rfl⟩ : ∃ f, fuel = f + 1 := ⟨fuel - 1, by omega⟩
    unfold groupRuns
    have hi : ¬ done.length + run.length < count := by rw [hcount]; simp
    have hsub : done.length ≤ count := by rw [hcount]; simp only [List.length_append]; omega
    simp only [hi, if_false, csub, hsub, if_true, Option.bind_some]
    have hh' : Holds abs ok s ((pre ++ done) ++ run ++ post) := by
      simpa [List.append_assoc] using hh
    obtain ⟨s', run', h1, h2, h3, h4⟩ := hG s (pre ++ done) run post hh' (fun x hx => hQ x (by simp [hx])) hconst
    have e1 : count - done.length = run.length := by rw [hcount]; simp
    have e2 : (pre ++ done).length = pre.length + done.length := by simp
    rw [e1, ← e2, h1]
    refine ⟨s', done ++ run', rfl, by simpa [List.append_assoc] using h2, ?_, ?_, ?_⟩
    · simpa using h3.append_left done
    · apply sortedL_of_map_eq _ hsorted
      simp [map_snd_of_perm_const h3 hconst]
    · apply hP.append done run' (fun x hx => hQ x (by simp [hx])) (fun x hx => hQ x (by simp [h3.mem_iff.1 hx])) hPd h4
      intro x hx y hy
      exact hsep x hx y (h3.mem_iff.1 hy)
  | cons y rest' ih =>
    intro fuel s done run hf hcount hh hmir hrun hconst hsep hsorted hQ hPd
    obtain ⟨f, rfl⟩ : ∃ f, fuel = f + 1 := ⟨fuel - 1, by simp at hf; omega⟩
    unfold groupRuns
    obtain ⟨c0, run0, rfl⟩ := List.exists_cons_of_ne_nil hrun
    have hi : done.length + (c0 :: run0).length < count := by rw [hcount]; simp only [List.length_append, List.length_cons]; omega
    have hi' : done.length + (c0 :: run0).length < (done ++ c0 :: run0 ++ y :: rest').length := by simp only [List.length_append, List.length_cons]; omega
    have hp' : done.length < (done ++ c0 :: run0 ++ y :: rest').length := by simp only [List.length_append, List.length_cons]; omega
    have hci : cd (done ++ c0 :: run0 ++ y :: rest') (done.length + (c0 :: run0).length) = y.2 := by
      rw [cd_eq hi']
      simp
    have hcp : cd (done ++ c0 :: run0 ++ y :: rest') done.length = c0.2 := by
      rw [cd_eq hp']
      simp
    simp only [hi, if_true, hmir.get hi', hmir.get hp', hci, hcp, Option.bind_some]
    by_cases hne : y.2 ≠ c0.2
    · rw [if_pos hne]
      have hsub : done.length ≤ done.length + (c0 :: run0).length := by omega
      simp only [csub, hsub, if_true, Option.bind_some, Nat.add_sub_cancel_left]
      have hh' : Holds abs ok s ((pre ++ done) ++ (c0 :: run0) ++ (y :: rest' ++ post)) := by
        simpa [List.append_assoc] using hh
      obtain ⟨s', run', h1, h2, h3, h4⟩ := hG s (pre ++ done) (c0 :: run0) (y :: rest' ++ post) hh'
        (fun x hx => hQ x (by simp at hx ⊢; tauto)) hconst
      have e2 : (pre ++ done).length = pre.length + done.length := by simp
      rw [← e2, h1]
      simp only [Option.bind_some]
      have hlen : run'.length = (c0 :: run0).length := h3.length_eq
      have hmap : run'.map Prod.snd = (c0 :: run0).map Prod.snd := map_snd_of_perm_const h3 hconst
      -- the code of `y` is strictly larger than the run's code
      have hlt : c0.2 < y.2 := by
        have : c0.2 ≤ y.2 := by
          unfold SortedL at hsorted
          rw [List.pairwise_append] at hsorted
          exact hsorted.2.2 c0 (by simp) y (by simp)
        omega
      have hmapall : ((done ++ run') ++ [y] ++ rest').map Prod.snd = (done ++ c0 :: run0 ++ y :: rest').map Prod.snd := by
        simp [hmap]
      have := ih f s' (done ++ run') [y] (by simp at hf; omega) (by rw [hcount]; simp [hlen]; omega)
        (by simpa [List.append_assoc] using h2)
        (by unfold Mirror at hmir ⊢; rw [hmir, hmapall])
        (by simp) (by intro x hx z hz; simp at hx hz; rw [hx, hz])
        (by
          intro x hx z hz
          simp at hz; subst hz
          rcases List.mem_append.1 hx with hx | hx
          · have := hsep x hx c0 (by simp); omega
          · have := hconst x (h3.mem_iff.1 hx) c0 (by simp); omega)
        (sortedL_of_map_eq hmapall hsorted)
        (by
          intro x hx
          apply hQ
          simp only [List.mem_append, List.mem_cons] at hx ⊢
          rcases hx with ((hx | hx) | hx) | hx
          · tauto
          · have := h3.mem_iff.1 hx; simp at this; tauto
          · tauto
          · tauto)
        (hP.append done run' (fun x hx => hQ x (by simp [hx]))
          (fun x hx => hQ x (by have := h3.mem_iff.1 hx; simp at this ⊢; tauto)) hPd h4
          (fun x hx z hz => hsep x hx z (h3.mem_iff.1 hz)))
      obtain ⟨s'', seg'', g1, g2, g3, g4, g5⟩ := this
      have e3 : (done ++ run').length + [y].length = done.length + (c0 :: run0).length + 1 := by simp [hlen]
      have e4 : (done ++ run').length = done.length + (c0 :: run0).length := by simp [hlen]
      rw [e3, e4] at g1
      refine ⟨s'', seg'', g1, g2, ?_, g4, g5⟩
      apply g3.trans
      have : (done ++ run' ++ [y] ++ rest').Perm (done ++ (c0 :: run0) ++ [y] ++ rest') :=
        ((h3.append_left done).append_right [y]).append_right rest'
      simpa [List.append_assoc] using this
    · rw [if_neg hne]
      have heq : y.2 = c0.2 := Decidable.not_not.mp hne
      have e0 : done ++ (c0 :: run0 ++ [y]) ++ rest' = done ++ c0 :: run0 ++ y :: rest' := by simp [List.append_assoc]
      have := ih f s done (c0 :: run0 ++ [y]) (by simp at hf; omega) (by rw [hcount, e0])
        (by rw [e0]; exact hh) (by rw [e0]; exact hmir) (by simp)
        (by
          intro x hx z hz
          have hx' : x.2 = c0.2 := by
            rcases List.mem_append.1 hx with hx | hx
            · exact hconst x hx c0 (by simp)
            · simp at hx; rw [hx, heq]
          have hz' : z.2 = c0.2 := by
            rcases List.mem_append.1 hz with hz | hz
            · exact hconst z hz c0 (by simp)
            · simp at hz; rw [hz, heq]
          omega)
        (by
          intro x hx z hz
          rcases List.mem_append.1 hz with hz | hz
          · exact hsep x hx z hz
          · simp at hz; rw [hz, heq]; exact hsep x hx c0 (by simp))
        (by rw [e0]; exact hsorted) (by rw [e0]; exact hQ) hPd
      obtain ⟨s'', seg'', g1, g2, g3, g4, g5⟩ := this
      have e3 : done.length + (c0 :: run0 ++ [y]).length = done.length + (c0 :: run0).length + 1 := by simp; omega
      rw [e3] at g1
      exact ⟨s'', seg'', g1, g2, by rw [e0] at g3; exact g3, g4, g5⟩

end

/-! ### pvSelectionSort and the small cases of pvSort -/

section
variable {M : Mem σ α} {abs : σ → List (α × Nat)} {ok : σ → Prop} (L : Lawful M abs ok)
  {Q : α × Nat → Prop} {P : List (α × Nat) → Prop} {G : GroupFn σ}
  (hG : GroupSpec abs ok Q P G) (hP : GoodP Q P) (pre post : List (α × Nat))
include L hG hP

theorem selectionSort_spec (R : Nat) (s : σ) (seg : List (α × Nat)) (hh : Holds abs ok s (pre ++ seg ++ post))
    (hQ : ∀ x ∈ seg, Q x) (hn : 0 < seg.length) (hmax : seg.length ≤ selectionSortMaxCount R) :
    ∃ s' seg', selectionSort M R G s pre.length seg.length = some s' ∧
      Holds abs ok s' (pre ++ seg' ++ post) ∧ SortPost P seg seg' := by
  unfold selectionSort
  have h0 : ¬ seg.length = 0 := by omega
  have h1 : ¬ seg.length > selectionSortMaxCount R := by omega
  simp only [h0, h1, if_false]
  obtain ⟨codes, hc, hmir⟩ := readCodes_spec L pre post s seg hh seg.length 0 (Array.mkEmpty seg.length) (by omega) (by simp)
  rw [hc]
  simp only [Option.bind_some]
  obtain ⟨s1, seg1, codes1, hs1, hh1, hmir1, hperm1, hsorted1⟩ := selLoop_spec L pre post (seg.length + 1) s seg codes 0
    (by omega) (by omega) hh hmir (fun a b _ h => by omega)
  rw [hs1]
  simp only [Option.bind_some]
  have hlen1 : seg1.length = seg.length := hperm1.length_eq
  obtain ⟨c0, t, rfl⟩ : ∃ c0 t, seg1 = c0 :: t := by
    cases seg1 with
    | nil => simp at hlen1; omega
    | cons a t => exact ⟨a, t, rfl⟩
  have := groupRuns_spec hG hP pre post codes1 seg.length t (seg.length + 1) s1 [] [c0]
    (by simp at hlen1; omega) (by simpa using hlen1.symm) (by simpa using hh1) (by simpa using hmir1) (by simp)
    (by intro x hx y hy; simp at hx hy; rw [hx, hy]) (by intro x hx; simp at hx) (by simpa using hsorted1)
    (by intro x hx; exact hQ x (hperm1.mem_iff.1 (by simpa using hx))) (hP.small [] (by simp))
  obtain ⟨s', seg', g1, g2, g3, g4, g5⟩ := this
  simp only [List.length_nil, List.length_cons, Nat.zero_add] at g1
  refine ⟨s', seg', g1, g2, ?_, g4, g5⟩
  exact (by simpa using g3 : seg'.Perm (c0 :: t)).trans hperm1

omit L hG hP in
theorem sortedL_small (l : List (α × Nat)) (h : l.length ≤ 1) : SortedL l := by
  unfold SortedL
  match l, h with
  | [], _ => exact List.Pairwise.nil
  | [a], _ => exact List.pairwise_singleton _ _

theorem pvSortWith_spec (R : Nat) (rs : σ → Nat → Nat → Option σ) (s : σ) (seg : List (α × Nat))
    (hh : Holds abs ok s (pre ++ seg ++ post)) (hQ : ∀ x ∈ seg, Q x)
    (hrs : 2 < seg.length → selectionSortMaxCount R < seg.length →
      ∃ s' seg', rs s pre.length seg.length = some s' ∧ Holds abs ok s' (pre ++ seg' ++ post) ∧ SortPost P seg seg') :
    ∃ s' seg', pvSortWith M R G rs s pre.length seg.length = some s' ∧
      Holds abs ok s' (pre ++ seg' ++ post) ∧ SortPost P seg seg' := by
  unfold pvSortWith
  by_cases h2 : seg.length < 2
  · simp only [h2, if_true]
    exact ⟨s, seg, rfl, hh, List.Perm.refl _, sortedL_small seg (by omega), hP.small seg (by omega)⟩
  · simp only [h2, if_false]
    by_cases he : seg.length = 2
    · simp only [he, if_true]
      match seg, he with
      | [x, y], _ =>
        have c0 := L.code_at hh 0 (by simp)
        have c1 := L.code_at hh 1 (by simp)
        simp only [Nat.add_zero, List.getElem_cons_zero, List.getElem_cons_succ] at c0 c1
        rw [c0, c1]
        simp only [Option.bind_some]
        by_cases hgt : x.2 > y.2
        · simp only [hgt, if_true]
          obtain ⟨s', hs', hh'⟩ := L.swap_at hh 0 1 (by simp) (by simp)
          simp only [Nat.add_zero] at hs'
          refine ⟨s', swapL [x, y] 0 1, hs', hh', swapL_perm _ _ _, ?_, hP.small _ (by simp [swapL_length])⟩
          show SortedL (swapL [x, y] 0 1)
          simp only [swapL, List.getElem?_cons_zero, List.getElem?_cons_succ, List.set_cons_zero, List.set_cons_succ, SortedL]
          simp; omega
        · simp only [hgt, if_false]
          refine ⟨s, [x, y], rfl, hh, List.Perm.refl _, ?_, hP.small _ (by simp)⟩
          simp [SortedL]; omega
    · simp only [he, if_false]
      by_cases hsel : seg.length ≤ selectionSortMaxCount R
      · simp only [hsel, if_true]
        exact selectionSort_spec L hG hP pre post R s seg hh hQ (by omega) hsel
      · simp only [hsel, if_false]
        exact hrs (by omega) (by omega)

end

end Momo.Sort
