import Momo.Proof.MMapKeyMap
import Momo.Proof.HashTableOps
import Driver.HashTable
/-!
  C08, part 3: the hash-table model `Momo.HT` (C01) satisfies the key-map contract, for every bucket
  description with `SpecOK` (all bucket kinds of the library) and every hash function.
  Everything except `ResetKey` is a repackaging of the C01 theorems (`Proof/HashTableInv.lean`,
  `Proof/HashTableOps.lean`); `ResetKey` (`htSetTag`) is proved here: replacing the non-hashed part of
  one stored key keeps the table invariant and the traversal order of the keys.
-/
namespace Momo.MMap
open Momo Momo.HT

/-! ### ResetKey: the tag of one item changes, nothing else -/

def retag (j tg : Nat) (bk : Bucket) : Bucket :=
  { bk with items := bk.items.modify j (fun it => { it with val := tg }) }

theorem modify_val_keys (l : List Item) (j tg : Nat) :
    (l.modify j (fun it => { it with val := tg })).map (·.key) = l.map (·.key) := by
  induction l generalizing j with
  | nil => simp
  | cons x xs ih =>
    cases j with
    | zero => simp
    | succ n => simp [ih n]

theorem retag_keys (j tg : Nat) (bk : Bucket) : (retag j tg bk).items.map (·.key) = bk.items.map (·.key) :=
  modify_val_keys bk.items j tg

/-- the bucket at index `i` after the update agrees with the old one in everything but tags -/
theorem bkt_retag (sp : Spec) (bs : List Bucket) (b j tg i : Nat) :
    (bkt sp (updBkt sp bs b (retag j tg)) i).wasFull = (bkt sp bs i).wasFull ∧
    (bkt sp (updBkt sp bs b (retag j tg)) i).bst = (bkt sp bs i).bst ∧
    (bkt sp (updBkt sp bs b (retag j tg)) i).items.map (·.key) = (bkt sp bs i).items.map (·.key) := by
  by_cases hb : b < bs.length
  · rw [bkt_updBkt sp bs b i _ hb]
    by_cases hbi : b = i
    · simp only [hbi, if_true]; exact ⟨rfl, rfl, retag_keys j tg _⟩
    · simp only [hbi, if_false]; exact ⟨trivial, trivial, trivial⟩
  · have : updBkt sp bs b (retag j tg) = bs := by
      unfold updBkt; exact List.set_eq_of_length_le (by omega)
    rw [this]; exact ⟨rfl, rfl, rfl⟩

theorem maxProbe_congr (sp : Spec) (L : Nat) (b1 b2 : Bucket) (h : b1.bst = b2.bst) :
    maxProbe sp L b1 = maxProbe sp L b2 := by
  unfold maxProbe; rw [h]

theorem genInv_retag (sp : Spec) (hf : Nat → Nat) (g : Gen) (hI : GenInv sp hf g) (b j tg : Nat) :
    GenInv sp hf { g with bs := updBkt sp g.bs b (retag j tg) } := by
  have hb := bkt_retag sp g.bs b j tg
  have hlen : ∀ i, (bkt sp (updBkt sp g.bs b (retag j tg)) i).items.length = (bkt sp g.bs i).items.length := by
    intro i
    have := congrArg List.length (hb i).2.2
    simpa using this
  refine ⟨?_, ?_, ?_, ?_, ?_⟩
  · show (updBkt sp g.bs b (retag j tg)).length = 2 ^ g.L
    rw [updBkt_length]; exact hI.len
  · intro hu i
    show (bkt sp (updBkt sp g.bs b (retag j tg)) i).items.length ≤ sp.maxCount
    rw [hlen i]; exact hI.size hu i
  · intro i hfull
    show (bkt sp (updBkt sp g.bs b (retag j tg)) i).wasFull = true
    rw [(hb i).1]
    apply hI.full i
    unfold isFull at hfull ⊢
    rw [← hlen i]; exact hfull
  · intro i it' hit'
    have hit' : it' ∈ (bkt sp (updBkt sp g.bs b (retag j tg)) i).items := hit'
    have hk : it'.key ∈ (bkt sp g.bs i).items.map (·.key) := by
      rw [← (hb i).2.2]; exact List.mem_map_of_mem (f := (·.key)) hit'
    obtain ⟨it, hit, hkey⟩ := List.mem_map.mp hk
    obtain ⟨p, h1, h2, h3⟩ := hI.place i it hit
    have hkey' : it.key = it'.key := hkey
    refine ⟨p, ?_, ?_, ?_⟩
    · show i = pseq sp g.L (homeOf hf g it'.key) p
      rw [← hkey']; exact h1
    · show p ≤ maxProbe sp g.L (bkt sp (updBkt sp g.bs b (retag j tg)) (homeOf hf g it'.key))
      rw [maxProbe_congr sp g.L _ _ (hb _).2.1, ← hkey']; exact h2
    · intro q hq
      show (bkt sp (updBkt sp g.bs b (retag j tg)) (pseq sp g.L (homeOf hf g it'.key) q)).wasFull = true
      rw [(hb _).1, ← hkey']; exact h3 q hq
  · intro i
    show BstOK sp (bkt sp (updBkt sp g.bs b (retag j tg)) i)
    have := hI.enc i
    unfold BstOK at this ⊢
    rw [(hb i).2.1]; exact this

theorem flatten_map_keys_set (bs : List Bucket) (b : Nat) (x : Bucket)
    (h : ∀ y, bs[b]? = some y → x.items.map (·.key) = y.items.map (·.key)) :
    (((bs.set b x).map (fun bk => bk.items.reverse)).flatten).map (·.key)
      = ((bs.map (fun bk => bk.items.reverse)).flatten).map (·.key) := by
  induction bs generalizing b with
  | nil => simp
  | cons y ys ih =>
    cases b with
    | zero =>
      have := h y (by simp)
      simp only [List.set_cons_zero, List.map_cons, List.flatten_cons, List.map_append, List.map_reverse, this]
    | succ n =>
      simp only [List.set_cons_succ, List.map_cons, List.flatten_cons, List.map_append]
      rw [ih n (fun y hy => h y (by simpa using hy))]

theorem genItems_retag_keys (sp : Spec) (g : Gen) (b j tg : Nat) :
    (genItems { g with bs := updBkt sp g.bs b (retag j tg) }).map (·.key) = (genItems g).map (·.key) := by
  unfold genItems updBkt
  apply flatten_map_keys_set
  intro y hy
  have hb : b < g.bs.length := by
    rcases List.getElem?_eq_some_iff.mp hy with ⟨h, _⟩; exact h
  have : bkt sp g.bs b = y := by
    rw [bkt_of_lt sp g.bs b hb]
    rcases List.getElem?_eq_some_iff.mp hy with ⟨_, h2⟩; exact h2
  rw [this]; exact retag_keys j tg y

theorem gensItems_modify_keys (gs : List Gen) (gi : Nat) (F : Gen → Gen)
    (h : ∀ g, (genItems (F g)).map (·.key) = (genItems g).map (·.key)) :
    (gensItems (gs.modify gi F)).map (·.key) = (gensItems gs).map (·.key) := by
  induction gs generalizing gi with
  | nil => simp
  | cons a as ih =>
    cases gi with
    | zero => simp only [List.modify_zero_cons, gensItems_cons, List.map_append, h a]
    | succ n => simp only [List.modify_succ_cons, gensItems_cons, List.map_append, ih n]

theorem htSetTag_spec (sp : Spec) (hf : Nat → Nat) (t : Table) (hI : TableInv sp hf t) (k tg : Nat) :
    TableInv sp hf (htSetTag sp hf t k tg) ∧
    (traverse (htSetTag sp hf t k tg)).map (·.key) = (traverse t).map (·.key) := by
  unfold htSetTag
  cases hfnd : findTable sp hf t k with
  | none => exact ⟨hI, rfl⟩
  | some r =>
    obtain ⟨gi, b, j⟩ := r
    simp only
    have hF : ∀ g : Gen, (fun g : Gen => { g with bs := updBkt sp g.bs b (fun bk =>
        { bk with items := bk.items.modify j (fun it => { it with val := tg }) }) }) g
        = { g with bs := updBkt sp g.bs b (retag j tg) } := fun _ => rfl
    have hkeys : (traverse { t with gens := t.gens.modify gi (fun g => { g with bs := updBkt sp g.bs b (fun bk =>
        { bk with items := bk.items.modify j (fun it => { it with val := tg }) }) }) }).map (·.key)
        = (traverse t).map (·.key) := by
      rw [traverse_eq_gensItems, traverse_eq_gensItems]
      exact gensItems_modify_keys t.gens gi _ (fun g => genItems_retag_keys sp g b j tg)
    refine ⟨⟨⟨?_, ?_, ?_, ?_, ?_⟩, ?_⟩, hkeys⟩
    · intro g' hg'
      simp only at hg'
      rw [List.mem_iff_getElem?] at hg'
      obtain ⟨n, hn⟩ := hg'
      rw [List.getElem?_modify] at hn
      cases hgn : t.gens[n]? with
      | none => simp [hgn] at hn
      | some g0 =>
        rw [hgn] at hn
        simp only [Option.map_eq_map, Option.map_some, Option.some.injEq] at hn
        have hg0 := hI.core.gens g0 (List.mem_of_getElem? hgn)
        by_cases hgi : gi = n
        · simp only [hgi, if_true] at hn
          subst hn
          exact genInv_retag sp hf g0 hg0 b j tg
        · simp only [hgi, if_false] at hn
          subst hn; exact hg0
    · rw [hkeys]; exact hI.core.nodup
    · show t.count = _
      have := congrArg List.length hkeys
      simp only [List.length_map] at this
      rw [this]; exact hI.core.count
    · intro hu g' rest' hgr
      show t.cap ≤ _
      simp only at hgr
      cases hgs : t.gens with
      | nil => rw [hgs] at hgr; simp at hgr
      | cons g0 rest0 =>
        rw [hgs] at hgr
        have hc := hI.core.capLe hu g0 rest0 hgs
        cases gi with
        | zero =>
          simp only [List.modify_zero_cons, List.cons.injEq] at hgr
          obtain ⟨rfl, _⟩ := hgr
          exact hc
        | succ n =>
          simp only [List.modify_succ_cons, List.cons.injEq] at hgr
          obtain ⟨rfl, _⟩ := hgr
          exact hc
    · intro hnil
      show t.cap = 0
      simp only at hnil
      apply hI.core.capNil
      cases hgs : t.gens with
      | nil => rfl
      | cons g0 rest0 =>
        rw [hgs] at hnil
        cases gi <;> simp at hnil
    · intro hnr
      show (t.gens.modify gi _).length ≤ 1
      rw [List.length_modify]; exact hI.single hnr

/-! ### the instance -/

/-- **the C01 hash-table model is a lawful key map** -/
def htLawful (sp : Spec) (hf : Nat → Nat) (ok : SpecOK sp) : KeyMap.Lawful (htKeyMap sp hf) where
  Inv t := TableInv sp hf t
  FOK f := FaultsOK sp f
  fok_default := fun _ => rfl
  inv_empty := emptyTable_inv sp hf
  keys_empty := rfl
  has_iff t k hI := findTable_spec sp hf t hI k
  nodup t hI := hI.core.nodup
  add_ok t k tg f hI hF hh hok := by
    have hnone : findTable sp hf t k = none := by
      simp only [htKeyMap] at hh
      cases h : findTable sp hf t k with
      | none => rfl
      | some r => rw [h] at hh; simp at hh
    have hk := findTable_none sp hf t hI k hnone
    obtain ⟨h1, h2⟩ := add_ok sp hf ok t ⟨k, tg⟩ f hI hF hk hok
    exact ⟨h1, by simpa [htKeyMap] using h2.map (·.key)⟩
  add_fail t k tg f hne := add_fail_unchanged sp hf t ⟨k, tg⟩ f hne
  del_ok t k hI hh := by
    simp only [htKeyMap] at hh ⊢
    unfold htDel
    cases h : findTable sp hf t k with
    | none => rw [h] at hh; simp at hh
    | some r =>
      obtain ⟨gi, b, j⟩ := r
      obtain ⟨g, it, hg, hj, hkey⟩ := findTable_some sp hf t k gi b j h
      obtain ⟨h1, h2⟩ := removePos_spec sp hf t hI gi b j g it hg hj
      refine ⟨h1, ?_⟩
      have := h2.map (·.key)
      simpa [hkey] using this
  clear_ok t hI := by
    obtain ⟨h1, h2⟩ := clear_spec sp hf ok t true hI
    exact ⟨h1, by simp [htKeyMap, h2]⟩
  reserve_ok t n hI := by
    obtain ⟨h1, h2, _⟩ := reserve_spec sp hf ok t n {} hI (fun _ => rfl)
    exact ⟨h1, by simpa [htKeyMap] using h2.map (fun (x : Item) => x.key)⟩
  setTag_ok t k tg hI := htSetTag_spec sp hf t hI k tg

/-! ### the bucket descriptions the C08 harness uses satisfy `SpecOK` -/

/-- `Driver.HashTable.mkSpec` for the key-map buckets of the C08 harness: LimP4<n> (n ≥ 1, any item
    size / alignment / hash-code-part setting), Open8 and its fallback Open2N2<n>. -/
theorem mkSpec_ok_c08 (kind : String) (hk : kind = "LimP4" ∨ kind = "Open8" ∨ kind = "Open2N2")
    (n isz ial : Nat) (part fast reloc : Bool) (fullFrom logStart : Nat) (hn : 0 < n) :
    SpecOK (Driver.HashTable.mkSpec kind n isz ial part fast reloc fullFrom logStart) := by
  have hbase : ∀ (L m : Nat), 0 < m →
      (if (m == 1) = true then 2 ^ L * 5 / 8 else if (m == 2) = true then 2 ^ L + 2 ^ L / 2 else 2 ^ L * 2)
        ≤ 2 ^ L * m := by
    intro L m hm
    generalize 2 ^ L = N
    split
    · rename_i h; have : m = 1 := by simpa using h
      subst this; omega
    · split
      · rename_i h; have : m = 2 := by simpa using h
        subst this; omega
      · rename_i h1 h2
        have h1' : m ≠ 1 := by simpa using h1
        have h2' : m ≠ 2 := by simpa using h2
        exact Nat.mul_le_mul_left N (by omega)
  have hratio : ∀ (L m num den : Nat), num ≤ den → 2 ^ L * m * num / den ≤ 2 ^ L * m := by
    intro L m num den h
    generalize 2 ^ L * m = X
    by_cases hd : den = 0
    · subst hd; simp
    · exact Nat.div_le_of_le_mul (by rw [Nat.mul_comm den X]; exact Nat.mul_le_mul_left X h)
  have hite : ∀ (c : Prop) [Decidable c], (if c then 0 else n) ≤ n := by
    intro c _; split <;> omega
  rcases hk with rfl | rfl | rfl
  · unfold Driver.HashTable.mkSpec
    simp only
    refine ⟨hn, fun _ => ?_, (fun h => by cases h), fun _ L => hbase L n hn,
      HT.capacityOf_mono _ (fun _ _ h => by cases h)⟩
    exact hite _
  · unfold Driver.HashTable.mkSpec
    simp only
    exact ⟨(by simp), fun _ => Nat.zero_le _, (fun h => by cases h), fun _ L => hratio L 7 13 14 (by decide),
      HT.capacityOf_mono _ (fun _ _ h => by cases h; exact ⟨by decide, by show 14 ≤ 2 * (7 * 13); decide⟩)⟩
  · unfold Driver.HashTable.mkSpec
    simp only
    exact ⟨hn, fun _ => Nat.zero_le _, (fun h => by cases h), fun _ L => hratio L n 11 12 (by decide),
      HT.capacityOf_mono _ (fun _ _ h => by cases h; exact ⟨by decide, by simp only; omega⟩)⟩

end Momo.MMap
