import Momo.Proof.TableStep
/-!
  C07, index level: removal. The store restricted to the rows a filter keeps (`keepRows`), restriction of a unique
  and of a multi index, `PrepareRemove` + `AcceptRemove` of one raw in a unique / a multi index.
-/
namespace Momo.Table
open List
/-! ### the store without some rows -/

def keepRows (st : Store) (keep : Nat → Bool) : Store := st.filter (fun r => keep r.id)

theorem ids_keepRows (st : Store) (keep : Nat → Bool) : ids (keepRows st keep) = (ids st).filter keep := by
  unfold ids keepRows
  rw [filter_map]; rfl

theorem rowOf_keepRows (st : Store) (keep : Nat → Bool) {x : Nat} (hx : keep x = true) : rowOf (keepRows st keep) x = rowOf st x := by
  unfold rowOf keepRows
  induction st with
  | nil => rfl
  | cons r rs ih =>
    by_cases h : r.id = x
    · have hk : keep r.id = true := by rw [h]; exact hx
      rw [filter_cons_of_pos (by simpa using hk), find?_cons, find?_cons]
      simp [h]
    · by_cases hk : keep r.id = true
      · rw [filter_cons_of_pos (by simpa using hk), find?_cons, find?_cons]
        have hb : (r.id == x) = false := by simp [h]
        rw [hb]; exact ih
      · rw [filter_cons_of_neg (by simpa using hk), find?_cons]
        have hb : (r.id == x) = false := by simp [h]
        rw [hb]; exact ih

theorem valsOf_keepRows (st : Store) (keep : Nat → Bool) {x : Nat} (hx : keep x = true) : valsOf (keepRows st keep) x = valsOf st x := by
  unfold valsOf; rw [rowOf_keepRows st keep hx]

theorem addrOf_keepRows (st : Store) (keep : Nat → Bool) {x : Nat} (hx : keep x = true) : addrOf (keepRows st keep) x = addrOf st x := by
  unfold addrOf; rw [rowOf_keepRows st keep hx]

theorem addrInj_keepRows {st : Store} (h : AddrInj st) (keep : Nat → Bool) : AddrInj (keepRows st keep) :=
  (filter_sublist.map _).nodup h

/-! ### restriction of one index -/

theorem UInv_filter (acc : Acc) {st : Store} {u u' : UIdx} (hu : UInv acc st u) (keep : Nat → Bool) (hcols : u'.cols = u.cols)
    (hpos : u'.posAdd = none ∧ u'.posRem = none) (he : u'.ents.Perm (u.ents.filter (fun e => keep e.id))) :
    UInv acc (keepRows st keep) u' := by
  have hsub : ∀ e ∈ u'.ents, e ∈ u.ents ∧ keep e.id = true := fun e h => by
    simpa using mem_filter.mp (he.mem_iff.mp h)
  refine ⟨hcols ▸ hu.colsNodup, hpos, ?_, ?_, ?_⟩
  · rw [ids_keepRows]
    refine (he.map _).trans ?_
    have : (u.ents.filter (fun e => keep e.id)).map (·.id) = (u.ents.map (·.id)).filter keep := by rw [filter_map]; rfl
    rw [this]
    exact hu.perm.filter _
  · intro e h
    obtain ⟨h1, h2⟩ := hsub e h
    rw [hcols, valsOf_keepRows st keep h2]; exact hu.hash e h1
  · intro x hx y hy hk
    rw [ids_keepRows] at hx hy
    obtain ⟨hx1, hx2⟩ := mem_filter.mp hx
    obtain ⟨hy1, hy2⟩ := mem_filter.mp hy
    rw [hcols, valsOf_keepRows st keep hx2, valsOf_keepRows st keep hy2] at hk
    exact hu.uniq x hx1 y hy1 hk

theorem MInv_filter (acc : Acc) {st : Store} {m : MIdx} (hm : MInv acc st m) (keep : Nat → Bool) (opts : List (Option Group))
    (hR : Forall₂ (GroupStep (addrOf st) keep (fun _ => [])) m.groups opts) :
    MInv acc (keepRows st keep) { cols := m.cols, groups := opts.filterMap id, kAdd := none, kRem := none } := by
  have hR' : Forall₂ (GroupStep (addrOf (keepRows st keep)) keep (fun _ => [])) m.groups opts := by
    refine hR.imp ?_
    intro g o hgo
    cases o with
    | none => exact hgo
    | some g' =>
      refine ⟨hgo.1, ?_, hgo.2.2⟩
      refine (SegSorted_congr ?_).mp hgo.2.1
      intro x hx
      have : x ∈ g'.members := by simp [Group.members, hx]
      have := hgo.1.mem_iff.mp this
      simp only [append_nil] at this
      rw [addrOf_keepRows st keep (mem_filter.mp this).2]
  have := MInv_transform acc hm keep (fun _ => []) [] opts (fun x _ hk => valsOf_keepRows st keep hk) hR'
    (by simp) (by simp) (by simp) (by simp) (by
      rw [ids_keepRows]
      simp only [append_nil, map_nil]
      rw [← filter_flatMap]
      exact (hm.perm.filter _).symm)
  simpa using this

/-! ### `PrepareRemove` finds the raw -/

section find
variable {vis : Vis} (hc : Complete vis) (acc : Acc) {st : Store}
include hc

theorem UIdx.findRaw_pos (u : UIdx) (hu : UInv acc st u) {raw : Nat} (hraw : raw ∈ ids st) :
    ∃ p, u.findRaw vis acc st raw = some p ∧ p < u.ents.length ∧ u.idAt p = raw := by
  unfold UIdx.findRaw
  cases hf : u.find vis (hashVals acc u.cols (valsOf st raw)) (fun id => keyEq u.cols (valsOf st raw) (valsOf st id)) with
  | none =>
    have hn := UIdx.find_none hc acc u (valsOf st raw) (valsOf st) hu.hash hf
    obtain ⟨e, he, hid⟩ := mem_map.mp (hu.perm.mem_iff.mpr hraw)
    have := hn e he
    rw [hid, keyEq_refl] at this
    exact absurd this (by simp)
  | some p =>
    obtain ⟨hp, hk⟩ := u.find_some (valsOf st raw) (valsOf st) _ hf
    exact ⟨p, rfl, hp, (hu.uniq raw hraw _ (hu.perm.mem_iff.mp (u.idAt_mem hp)) hk).symm⟩

omit hc in
/-- the group with the key of a row is the group that holds the row -/
theorem MInv.group_at {m : MIdx} (hm : MInv acc st m) {raw : Nat} (hraw : raw ∈ ids st) {p : Nat} (hp : p < m.groups.length)
    (hk : keyEq m.cols (valsOf st raw) (valsOf st (m.keyAt p)) = true) : raw ∈ m.groups[p].members := by
  obtain ⟨g', hg', hxg'⟩ := hm.group_of hraw
  have h1 := hm.member_key hg' hxg'
  rw [m.keyAt_lt hp] at hk
  have hsame : keyEq m.cols (valsOf st m.groups[p].key) (valsOf st g'.key) = true :=
    keyEq_trans _ _ _ _ (by rw [keyEq_symm]; exact hk) (by rw [keyEq_symm]; exact h1)
  obtain ⟨q, hq, rfl⟩ := getElem_of_mem hg'
  have hpq : p = q := by
    by_contra hne
    have hd := pairwise_iff_getElem.mp hm.distinct
    rcases Nat.lt_or_ge p q with h | h
    · have := hd p q (by rw [length_map]; exact hp) (by rw [length_map]; exact hq) h
      simp only [getElem_map] at this
      rw [hsame] at this; exact absurd this (by simp)
    · have := hd q p (by rw [length_map]; exact hq) (by rw [length_map]; exact hp) (by omega)
      simp only [getElem_map] at this
      rw [keyEq_symm, hsame] at this; exact absurd this (by simp)
  subst hpq
  exact hxg'

theorem MIdx.findRaw_pos (m : MIdx) (hm : MInv acc st m) {raw : Nat} (hraw : raw ∈ ids st) :
    ∃ A g B, m.groups = A ++ g :: B ∧ m.findRaw vis acc st raw = some A.length ∧ raw ∈ g.members := by
  unfold MIdx.findRaw
  cases hf : m.find vis (hashVals acc m.cols (valsOf st raw)) (fun id => keyEq m.cols (valsOf st raw) (valsOf st id)) with
  | none =>
    have hn := MIdx.find_none hc acc m (valsOf st raw) (valsOf st) hm.hash hf
    obtain ⟨g, hg, hxg⟩ := hm.group_of hraw
    have := hn g hg
    rw [keyEq_symm, hm.member_key hg hxg] at this
    exact absurd this (by simp)
  | some p =>
    obtain ⟨hp, hk⟩ := m.find_some (valsOf st raw) (valsOf st) _ hf
    obtain ⟨A, B, h1, h2⟩ := split_at m.groups p hp
    exact ⟨A, _, B, h1, by rw [h2], hm.group_at acc hraw hp hk⟩

end find

theorem eraseIdx_eq_filter_of_nodup_map {α β : Type} [DecidableEq β] (f : α → β) : ∀ (l : List α) (p : Nat) (hp : p < l.length),
    (l.map f).Nodup → l.eraseIdx p = l.filter (fun e => f e != f l[p])
  | a :: as, 0, _, hnd => by
    rw [map_cons, nodup_cons] at hnd
    simp only [eraseIdx_cons_zero, getElem_cons_zero]
    rw [filter_cons_of_neg (by simp)]
    symm
    rw [filter_eq_self]
    intro x hx
    have : f x ≠ f a := fun e => hnd.1 (e ▸ mem_map_of_mem hx)
    simpa using this
  | a :: as, p + 1, hp, hnd => by
    rw [map_cons, nodup_cons] at hnd
    simp only [eraseIdx_cons_succ, getElem_cons_succ]
    have hp' : p < as.length := by simpa using hp
    have : f a ≠ f as[p] := fun e => hnd.1 (e ▸ mem_map_of_mem (getElem_mem hp'))
    rw [filter_cons_of_pos (by simpa using this)]
    congr 1
    exact eraseIdx_eq_filter_of_nodup_map f as p hp' hnd.2

theorem filterMap_id_map_some {α : Type} (l : List α) : (l.map some).filterMap id = l := by
  induction l with
  | nil => rfl
  | cons a as ih => simp

theorem other_groups_disjoint {A B : List Group} {g : Group} (h : ((A ++ g :: B).flatMap Group.members).Nodup) :
    ∀ x ∈ A ++ B, ∀ y ∈ x.members, y ∉ g.members := by
  have hp : ((A ++ g :: B).flatMap Group.members).Perm (g.members ++ (A ++ B).flatMap Group.members) := by
    have : (A ++ g :: B).Perm (g :: (A ++ B)) := perm_middle
    exact (this.flatMap_right _).trans (by rw [flatMap_cons])
  have hnd := hp.nodup_iff.mp h
  rw [nodup_append] at hnd
  intro x hx y hy hyg
  exact hnd.2.2 y hyg y (mem_flatMap.mpr ⟨x, hx, hy⟩) rfl

section remove
variable {vis : Vis} (hc : Complete vis) (acc : Acc) {st : Store} (hnd : (ids st).Nodup)
include hc hnd

/-- **`UniqueHash::PrepareRemove(raw)` + `AcceptRemove()`**: exactly the entry of `raw` disappears -/
theorem UIdx.remove_spec (u : UIdx) (hu : UInv acc st u) {raw : Nat} (hraw : raw ∈ ids st) :
    UInv acc (keepRows st (fun x => x != raw)) (u.prepareRemove vis acc st raw).acceptRemove := by
  obtain ⟨p, hf, hp, hid⟩ := u.findRaw_pos hc acc hu hraw
  have hnde : (u.ents.map (·.id)).Nodup := hu.perm.nodup_iff.mpr hnd
  apply UInv_filter acc hu (fun x => x != raw)
  · unfold UIdx.prepareRemove UIdx.acceptRemove; simp only [hf]
  · unfold UIdx.prepareRemove UIdx.acceptRemove; simp only [hf]; exact ⟨hu.noPos.1, trivial⟩
  · have : (u.prepareRemove vis acc st raw).acceptRemove.ents = u.ents.eraseIdx p := by
      unfold UIdx.prepareRemove UIdx.acceptRemove; simp only [hf]
    rw [this, eraseIdx_eq_filter_of_nodup_map (·.id) u.ents p hp hnde]
    rw [u.idAt_lt hp] at hid
    rw [hid]

/-- **`MultiHash::PrepareRemove(raw)` + `AcceptRemove(raw)`**: exactly `raw` disappears from its group -/
theorem MIdx.remove_spec (hai : AddrInj st) (m : MIdx) (hm : MInv acc st m) {raw : Nat} (hraw : raw ∈ ids st) :
    MInv acc (keepRows st (fun x => x != raw)) ((m.prepareRemove vis acc st raw).acceptRemove st raw) := by
  obtain ⟨A, g, B, hsplit, hf, hmem⟩ := m.findRaw_pos hc acc hm hraw
  have hgm : g ∈ m.groups := by rw [hsplit]; simp
  have hex := acceptRemoveGroup_exact (addrOf st) g raw (hm.members_addr_nodup hnd hai hgm) (hm.sorted g hgm) hmem
  have hgnd := hm.members_nodup hnd hgm
  have hdis : ∀ x ∈ A ++ B, ∀ y ∈ x.members, y ∉ g.members := by
    apply other_groups_disjoint
    rw [← hsplit]; exact hm.perm.nodup_iff.mpr hnd
  have hsame : ∀ x ∈ A ++ B, GroupStep (addrOf st) (fun x => x != raw) (fun _ => []) x (some x) := by
    intro x hx
    have hxm : x ∈ m.groups := by
      rw [hsplit]; rcases mem_append.mp hx with h | h
      · exact mem_append_left _ h
      · exact mem_append_right _ (mem_cons_of_mem _ h)
    refine ⟨?_, hm.sorted x hxm, rfl⟩
    rw [append_nil, filter_eq_self.mpr]
    intro y hy
    have : y ≠ raw := fun e => hdis x hx y hy (e ▸ hmem)
    simpa using this
  have hfilt : g.members.erase raw = g.members.filter (fun x => x != raw) := by
    rw [hgnd.erase_eq_filter]
  have hR : Forall₂ (GroupStep (addrOf st) (fun x => x != raw) (fun _ => [])) m.groups
      (A.map some ++ acceptRemoveGroup (addrOf st) g raw :: B.map some) := by
    rw [hsplit]
    apply rel_append
    · rw [forall₂_map_right_iff]
      exact forall₂_same.mpr (fun x hx => hsame x (mem_append_left _ hx))
    · refine Forall₂.cons ?_ ?_
      · cases ho : acceptRemoveGroup (addrOf st) g raw with
        | none =>
          rw [ho] at hex
          exact ⟨by rw [hex]; simp, rfl⟩
        | some g' =>
          rw [ho] at hex
          exact ⟨by rw [append_nil, ← hfilt]; exact hex.1, hex.2.1, hex.2.2⟩
      · rw [forall₂_map_right_iff]
        exact forall₂_same.mpr (fun x hx => hsame x (mem_append_right _ hx))
  have := MInv_filter acc hm (fun x => x != raw) _ hR
  have hres : (m.prepareRemove vis acc st raw).acceptRemove st raw =
      { cols := m.cols, groups := (A.map some ++ acceptRemoveGroup (addrOf st) g raw :: B.map some).filterMap id,
        kAdd := none, kRem := none } := by
    unfold MIdx.prepareRemove MIdx.acceptRemove
    simp only [hf]
    rw [hsplit, getD_split]
    have hk := hm.noPos.1
    cases ho : acceptRemoveGroup (addrOf st) g raw with
    | none =>
      simp only [filterMap_append, filterMap_id_map_some, filterMap_cons_none (f := id) rfl]
      rw [eraseIdx_append_of_length_le (Nat.le_refl _)]
      simp [hk]
    | some g' =>
      simp only [filterMap_append, filterMap_id_map_some, filterMap_cons_some (f := id) rfl]
      rw [set_append_right _ _ (Nat.le_refl _)]
      simp [hk]
  rw [hres]; exact this

end remove
end Momo.Table
